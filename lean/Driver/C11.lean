import TinsModel.RadioTap.Spec
import TinsModel.RadioTap.Checked
import Driver.Util
/- line-protocol driver for RadioTap (property C11): model mode and spec (oracle) mode.
   ops:  tail | new | parse <hex> | set <field> <hex> | add <bit> <hex> | ser <hex|-> | walk <hex|-> | skipto <bit> <hex|-> -/
namespace Driver.C11
open Tins Tins.RT Driver

def M : Meta := genMeta

/-- what the harness appends to the bytes of a `parse` op: a protected 802.11 data frame header + 4 bytes -/
def tailBytes : Bytes :=
  [0x08, 0x40, 0, 0, 0, 0, 0, 0, 0, 0, 0, 0, 0, 0, 0, 0, 0, 0, 0, 0, 0, 0, 0, 0, 0xc0, 0xc1, 0xc2, 0xc3]

def excName : Exc → String
  | .malformedPacket => "malformed_packet"
  | .malformedOption => "malformed_option"
  | .fieldNotPresent => "field_not_present"

def leNat (bs : Bytes) : Nat := bs.foldr (fun b acc => b.toNat + 256 * acc) 0

def showOut {α} (f : α → String) : Out α → String
  | .ok a => f a
  | .throw e => "!" ++ excName e
  | .fault s => "!FAULT:" ++ s

/-- (bit, width) of the getter `name` in the table generated from src/radiotap.cpp -/
def getterOf (name : String) : Nat × Nat :=
  match Gen.getters.find? (fun g => g.1 == name) with
  | some g => g.2
  | none => (99, 99)

def setterOf (name : String) : Nat × Nat :=
  match Gen.setters.find? (fun g => g.1 == name) with
  | some g => g.2
  | none => (99, 99)

def slice (d : Bytes) (a n : Nat) : Nat := leNat ((d.drop a).take n)

def getInt (buf : Bytes) (name : String) : String :=
  let (b, w) := getterOf name
  showOut (fun d => toString (leNat d)) (getField M buf b w true)

def showState (tag : String) (s : State) : String :=
  let buf := s.payload
  let chf := let (b, w) := getterOf "channel_freq"; showOut (fun d => toString (slice d 0 2)) (getField M buf b w false)
  let cht := let (b, w) := getterOf "channel_type"; showOut (fun d => toString (slice d 2 2)) (getField M buf b w false)
  let xch := let (b, w) := getterOf "xchannel"
    showOut (fun d => s!"{slice d 0 4}/{slice d 4 2}/{slice d 6 1}/{slice d 7 1}") (getField M buf b w false)
  let mcs := let (b, w) := getterOf "mcs"
    showOut (fun d => s!"{slice d 0 1}/{slice d 1 1}/{slice d 2 1}") (getField M buf b w false)
  s!"{tag} pl={toHex buf} pr={showOut toString (present M buf)} hs={4 + buf.length} tr={showOut toString (trailerSize M buf)}" ++
  s!" tsft={getInt buf "tsft"} flags={getInt buf "flags"} rate={getInt buf "rate"} chfreq={chf} chtype={cht}" ++
  s!" dbmsig={getInt buf "dbm_signal"} dbmnoise={getInt buf "dbm_noise"} sq={getInt buf "signal_quality"}" ++
  s!" ant={getInt buf "antenna"} dbsig={getInt buf "db_signal"} rxf={getInt buf "rx_flags"} txf={getInt buf "tx_flags"}" ++
  s!" dr={getInt buf "data_retries"} xch={xch} mcs={mcs}"

def defaultState : State :=
  match defaultCtor M with
  | .ok s => s
  | _ => { payload := zeros 4 }

def stepOut (st : State) (tag : String) : Out State → State × String
  | .ok s => (s, showState tag s)
  | .throw e => (st, "throw " ++ excName e)
  | .fault f => (st, "FAULT model:" ++ f)

def serLine (st : State) (inner : Bytes) : String :=
  match serializeHdr M st inner.length with
  | .throw e => "throw " ++ excName e
  | .fault f => "FAULT model:" ++ f
  | .ok (n, hdr, tr) =>
    let fcs := if tr == 4 then (if inner.isEmpty then "zero" else "ok") else "none"
    let re := match parseCtor M hdr n with
      | .ok (s2, rest) =>
        s!"re={toHex s2.payload} reinner=" ++ (if rest == 0 then "none" else if rest == inner.length then "same" else "diff")
      | .throw e => s!"re=!{excName e} reinner=none"
      | .fault f => s!"re=!FAULT:{f} reinner=none"
    s!"ser n={n} hdr={toHex hdr} body=inner fcs={fcs} {re}"

def nsLetter : NsType → String
  | .radiotap => "R" | .vendor => "V" | .unknown => "U"

def optText : Out Bytes → String
  | .ok d => toHex d
  | .throw e => "!" ++ excName e
  | .fault s => "!FAULT:" ++ s

/-- `has_field()` of the 32 single-bit flags as a mask -/
def hasFieldMask (buf : Bytes) : Out Nat :=
  (List.range 32).foldl (fun acc b =>
    match acc, hasFieldC buf (2 ^ b) with
    | .ok m, .ok true => .ok (m ||| 2 ^ b)
    | .ok m, .ok false => .ok m
    | .ok _, .throw e => .throw e
    | .ok _, .fault f => .fault f
    | x, _ => x) (.ok 0)

def walkLine (buf : Bytes) : String :=
  match walkC M buf with
  | .throw e => "throw " ++ excName e
  | .fault f => "FAULT model:" ++ f
  | .ok (items, c) =>
    let fs := items.map (fun it => s!" f={it.ns}{nsLetter it.nst}:{it.bit}@{it.ptr}={optText it.opt}")
    match advanceFieldC M c, hasFieldMask buf with
    | .ok (c2, again), .ok mask =>
      s!"walk{String.join fs} end adv={if again then 1 else 0} ns={c2.p.ns}{nsLetter c2.nst} hf={mask}"
    | .fault f, _ => "FAULT model:" ++ f
    | _, .fault f => "FAULT model:" ++ f
    | _, _ => "throw model"

def skiptoLine (bit : Nat) (buf : Bytes) : String :=
  match mkC M buf with
  | .throw e => "throw " ++ excName e
  | .fault f => "FAULT model:" ++ f
  | .ok c =>
    match skipToFieldC M (walkFuel M) c bit with
    | .throw e => "throw " ++ excName e
    | .fault f => "FAULT model:" ++ f
    | .ok (c2, r) =>
      let opt := if r then optText (currentOptionC M c2.p) else "none"
      s!"skipto r={if r then 1 else 0} ns={c2.p.ns}{nsLetter c2.nst} bit={c2.p.bit} off={c2.p.ptr} opt={opt}"

def step (st : State) (line : String) : State × String :=
  match words line with
  -- the raw parser ops start a case: they leave a default header behind, like `new`
  | ["walk", h] => match parseHex h with
    | some b => (defaultState, walkLine b)
    | none => (st, "bad-op")
  | ["skipto", n, h] => match n.toNat?, parseHex h with
    | some bit, some b => (defaultState, skiptoLine bit b)
    | _, _ => (st, "bad-op")
  | ["tail"] => (st, "tail " ++ toHex tailBytes)
  | ["new"] => stepOut st "new" (defaultCtor M)
  | ["parse", h] => match parseHex h with
    | some b =>
      let all := b ++ tailBytes
      stepOut defaultState "parsed" ((parseCtor M all all.length).bind (fun r => .ok r.1))
    | none => (st, "bad-op")
  | ["set", f, h] => match parseHex h with
    | some v =>
      let (b, w) := setterOf f
      -- the typed setter writes `w` bytes of the value (C++ integral conversion keeps the low bytes)
      stepOut st "set" (addOption M st b (v.take w))
    | none => (st, "bad-op")
  | ["add", n, h] => match n.toNat?, parseHex h with
    | some b, some v => stepOut st "add" (addOption M st b v)
    | _, _ => (st, "bad-op")
  | ["ser", h] => match parseHex h with
    | some inner => (st, serLine st inner)
    | none => (st, "bad-op")
  | _ => (st, "bad-op")

def initModel : State := defaultState

/-! ### oracle -/

/-- field names of the setters → present bit, from the radiotap standard -/
def stdBit : String → Option Nat
  | "tsft" => some 0 | "flags" => some 1 | "rate" => some 2 | "channel" => some 3
  | "dbm_signal" => some 5 | "dbm_noise" => some 6 | "signal_quality" => some 7 | "antenna" => some 11
  | "db_signal" => some 12 | "rx_flags" => some 14 | "tx_flags" => some 15 | "data_retries" => some 17
  | "xchannel" => some 18 | "mcs" => some 19 | _ => none

structure OState where
  /-- the writes so far (fields of the first present word of the starting header first); `none` = the case has
      left the specified fragment -/
  ws : Option (List (Nat × Bytes)) := none
  version : Nat := 0
  pad : Nat := 0
  /-- what the setters do not own: further present words and the bytes after the first word's fields -/
  frame : Frame := Frame.nil
  /-- the last present word announces table fields: the bytes after the first word's fields may be re-padded -/
  live : Bool := false
  /-- the options payload the implementation reported last (for the clauses that hold in every state) -/
  pl : Option Bytes := none
  /-- two present words, the first announcing a radiotap namespace, the second's fields well aligned behind the
      first's: those fields and the bytes behind them (`decodeLayout2`) -/
  last : Option (List (Nat × Bytes) × Bytes) := none

def kv (ws : List String) (key : String) : Option String :=
  ws.findSome? (fun w => if w.startsWith (key ++ "=") then some ((w.drop (key.length + 1)).toString) else none)

def S : Meta := stdMeta

/-- expected text of a getter that reads the whole field `b` as one little-endian integer -/
def expInt (m : FMap) (b : Nat) : String :=
  match m b with
  | some v => toString (leNat v)
  | none => "!field_not_present"

def expWith (m : FMap) (b : Nat) (f : Bytes → String) : String :=
  match m b with
  | some v => f v
  | none => "!field_not_present"

/-- (key, field bit, expected value) of the getters -/
def getterExpectations (m : FMap) : List (String × Nat × String) :=
  [("tsft", 0, expInt m 0), ("flags", 1, expInt m 1), ("rate", 2, expInt m 2),
   ("chfreq", 3, expWith m 3 (fun v => toString (slice v 0 2))), ("chtype", 3, expWith m 3 (fun v => toString (slice v 2 2))),
   ("dbmsig", 5, expInt m 5), ("dbmnoise", 6, expInt m 6), ("sq", 7, expInt m 7), ("ant", 11, expInt m 11),
   ("dbsig", 12, expInt m 12), ("rxf", 14, expInt m 14), ("txf", 15, expInt m 15), ("dr", 17, expInt m 17),
   ("xch", 18, expWith m 18 (fun d => s!"{slice d 0 4}/{slice d 4 2}/{slice d 6 1}/{slice d 7 1}")),
   ("mcs", 19, expWith m 19 (fun d => s!"{slice d 0 1}/{slice d 1 1}/{slice d 2 1}"))]

def trailerOfMap (m : FMap) : Nat :=
  match m 1 with
  | some v => if byteAt v 0 / 16 % 2 == 1 then 4 else 0
  | none => 0

/-- the (key, expected value) pairs of a state line of a header whose foreign part `F` is inert: the payload is the
    well-aligned layout of the last-write map inside the unchanged frame, the table bits of `present()` are the
    domain of the map, every getter returns the last write or `field_not_present` -/
def expectations (F : Frame) (m : FMap) : List (String × String) :=
  let c := layL S F (fieldList S m)
  [("pl", toHex c), ("hs", toString (4 + c.length)), ("tr", toString (trailerOfMap m))] ++
  (getterExpectations m).map (fun e => (e.1, e.2.2))

def checkLine (F : Frame) (m : FMap) (out : String) : String :=
  let ow := words out
  if out.startsWith "throw" then s!"violates no-throw {out}" else
  match (expectations F m).find? (fun e => kv ow e.1 != some e.2) with
  | some e => s!"violates {e.1} expected={e.2} got={(kv ow e.1).getD "missing"}"
  | none =>
    let pr := ((kv ow "pr").getD "x").toNat?
    let dom := presentWord (fieldList S m)
    match pr with
    | some w =>
      if F == Frame.nil then (if w == dom then "ok" else s!"violates pr expected={dom} got={w}")
      else if w % 2 ^ S.max == dom then "ok" else s!"violates pr-table-bits expected={dom} got={w}"
    | none => "violates pr expected=a-number"

/-- state line of a header whose last present word announces table fields (the bytes after the first word's fields
    are fields to libtins, foreign to the setters): the fields of the first word must be laid out as the last-write map
    says and read back, the present-word chain must be unchanged; last clause: the foreign bytes are unchanged -/
def checkLive (F : Frame) (oldPl : Option Bytes) (m : FMap) (out : String) : String :=
  let ow := words out
  if out.startsWith "throw" then s!"violates no-throw {out}" else
  match (kv ow "pl").bind parseHex with
  | none => "violates pl expected=hex"
  | some pl =>
    match decodeLayout S pl with
    | none => "violates first-namespace-layout not-well-aligned"
    | some (F', fs') =>
      if fs' != fieldList S m then s!"violates first-namespace-fields got={toHex pl}"
      else if F'.hb != F.hb || F'.wsb != F.wsb then "violates present-word-chain"
      else if kv ow "hs" != some (toString (4 + pl.length)) then "violates hs"
      else
        match (getterExpectations m).find? (fun e => (m e.2.1).isSome && kv ow e.1 != some e.2.2) with
        | some e => s!"violates {e.1} expected={e.2.2} got={(kv ow e.1).getD "missing"}"
        | none =>
          if (m 1).isSome && kv ow "tr" != some (toString (trailerOfMap m)) then "violates tr"
          else if F'.tail == F.tail then "ok"
          else
            -- the bytes behind the first word's fields changed.  Two present words, the first announcing a radiotap
            -- namespace: they are radiotap fields and had to be re-aligned — same values at the new aligned offsets,
            -- same bytes behind them.  Anything else (vendor / unknown namespace): they had to stay as they were.
            let radiotapLast := F.k == 1 && stdNsAfter F.hb == 0
            match radiotapLast, oldPl with
            | true, some old =>
              let oldOff := old.length - F.tail.length + 4
              let newOff := pl.length - F'.tail.length + 4
              match decodeFields S old F.lastWord S.max 0 oldOff with
              | some fk =>
                let e := enc S fk oldOff
                if F.tail.take e.length != e then "unspecified"
                else if F'.tail == enc S fk newOff ++ F.tail.drop e.length then "ok"
                else s!"violates later-namespace-fields expected={toHex (enc S fk newOff ++ F.tail.drop e.length)} got={toHex F'.tail}"
              | none => "unspecified"
            | _, _ => s!"violates later-namespace-bytes expected={toHex F.tail} got={toHex F'.tail}"

/-- state line of a header with two radiotap namespaces (`setters_two_words`): the payload is the two-word layout of the
    last-write map over the first word's fields, the second word's fields re-aligned with their values, the rest
    unchanged; every getter returns the first word's value, else the second word's -/
def checkTwo (F : Frame) (fsK : List (Nat × Bytes)) (rest : Bytes) (m : FMap) (out : String) : String :=
  let ow := words out
  if out.startsWith "throw" then s!"violates no-throw {out}" else
  let mK := mapOfList fsK
  let mm : FMap := fun g => match m g with
    | some v => some v
    | none => mK g
  let c := lay2 S F (fieldList S m) fsK rest
  let exps := [("pl", toHex c), ("hs", toString (4 + c.length)), ("tr", toString (trailerOfMap mm))] ++
    (getterExpectations mm).map (fun e => (e.1, e.2.2))
  match exps.find? (fun e => kv ow e.1 != some e.2) with
  | some e => s!"violates {e.1} expected={e.2} got={(kv ow e.1).getD "missing"}"
  | none =>
    match ((kv ow "pr").getD "x").toNat? with
    | some w =>
      let dom := presentWord (fieldList S m) ||| presentWord fsK
      if w % 2 ^ S.max == dom then "ok" else s!"violates pr-table-bits expected={dom} got={w}"
    | none => "violates pr expected=a-number"

/-- `ser` in a state whose last-write map is known and whose frame is inert -/
def checkSer (o : OState) (m : FMap) (inner : Bytes) (out : String) : String :=
  let ow := words out
  if out.startsWith "throw" then s!"violates no-throw {out}" else
  let c := layL S o.frame (fieldList S m)
  let hs := 4 + c.length
  let fcsOn := match m 1 with
    | some v => byteAt v 0 / 16 % 2 == 1
    | none => false
  let badFcs := match m 1 with
    | some v => byteAt v 0 / 64 % 2 == 1
    | none => false
  let tr := if fcsOn then 4 else 0
  let hdr := [UInt8.ofNat o.version, UInt8.ofNat o.pad, UInt8.ofNat (hs % 256), UInt8.ofNat (hs / 256 % 256)] ++ c
  if kv ow "n" != some (toString (hs + inner.length + tr)) then s!"violates ser-size expected={hs + inner.length + tr}"
  else if kv ow "hdr" != some (toHex hdr) then s!"violates ser-header expected={toHex hdr}"
  else if kv ow "body" != some "inner" then "violates ser-inner-bytes"
  else if fcsOn && !inner.isEmpty && kv ow "fcs" != some "ok" then "violates ser-fcs"
  else if !fcsOn && kv ow "fcs" != some "none" then "violates ser-fcs"
  else if inner.isEmpty || (fcsOn && badFcs) then "ok"     -- nothing to re-parse / frames flagged bad-FCS are refused
  else if kv ow "re" != some (toHex c) then s!"violates ser-reparse-fields got={(kv ow "re").getD "missing"}"
  else if kv ow "reinner" != some "same" then "violates ser-reparse-inner"
  else "ok"

/-- `ser` in any state (clauses of `serialize_any`): the header is version, pad, a length field covering exactly the
    fixed part and the payload the object reported last, then that payload; a trailer is 0 or 4 bytes; re-parsing gives
    the same payload (or the frame is one libtins refuses: FCS + FAILED_FCS, fewer than 4 bytes after the header) -/
def checkSerAny (o : OState) (pl : Bytes) (inner : Bytes) (out : String) : String :=
  let ow := words out
  if out.startsWith "throw" then "unspecified" else
  let hs := 4 + pl.length
  match (kv ow "hdr").bind parseHex, ((kv ow "n").getD "x").toNat? with
  | some hdr, some n =>
    if hdr.drop 4 != pl then s!"violates ser-header-payload"
    else if byteAt hdr 2 + 256 * byteAt hdr 3 != hs % 65536 then "violates ser-length-covers"
    else if byteAt hdr 0 != o.version || byteAt hdr 1 != o.pad then "violates ser-version-pad"
    else if n != hs + inner.length && n != hs + inner.length + 4 then "violates ser-size"
    else if kv ow "body" != some "inner" then "violates ser-inner-bytes"
    else if n == hs + inner.length + 4 && !inner.isEmpty && kv ow "fcs" != some "ok" then "violates ser-fcs"
    else if hs ≥ 65536 then "ok"
    else
      let re := (kv ow "re").getD ""
      if re == toHex pl then (if inner.isEmpty || kv ow "reinner" == some "same" then "ok" else "violates ser-reparse-inner")
      else if re == "!malformed_packet" then "ok"
      else s!"violates ser-reparse-payload got={re}"
  | _, _ => "violates ser-format"

/-! #### oracle of the raw parser ops (`walk`, `skipto`): what may be reported, by the radiotap standard -/

structure RepItem where
  ns : Nat
  letter : String
  bit : Nat
  off : Nat
  val : String

def digitsOf (s : String) : String := String.ofList (s.toList.takeWhile Char.isDigit)
def afterDigits (s : String) : String := String.ofList (s.toList.dropWhile Char.isDigit)

/-- `f=<ns><R|V|U>:<bit>@<off>=<value>` -/
def parseItem (tok : String) : Option RepItem :=
  match tok.splitOn "=" with
  | ["f", pos, val] =>
    match pos.splitOn ":" with
    | [nsp, r] =>
      match r.splitOn "@" with
      | [b, o] =>
        match (digitsOf nsp).toNat?, b.toNat?, o.toNat? with
        | some ns, some bit, some off => some { ns := ns, letter := afterDigits nsp, bit := bit, off := off, val := val }
        | _, _, _ => none
      | _ => none
    | _ => none
  | _ => none

def stdLetter (n : Nat) : String := if n == 0 then "R" else if n == 1 then "V" else "U"

def showStd (ns : Nat) (l : String) (it : StdItem) : String :=
  s!"f={ns}{l}:{it.bit}@{it.off}=" ++ (match it.val with | some v => toHex v | none => "!malformed_packet")

def getLast (ws : List Nat) : Nat := ws.getLastD 0

/-- the fields a parser has to report on `buf` with present words `ws`, as far as the standard fixes them for a parser
    that knows the fields below `S.max` only: the fields of the first word; then — if there are further words,
    the first one has a defined field and no undefined one, the words in between announce no data, and the last
    word is announced as a radiotap-namespace word — the fields of the last word.  `none` = not fixed. -/
def stdWalk (buf : Bytes) (ws : List Nat) : List String × Option (List String) :=
  let w0 := ws.headD 0
  let k := ws.length - 1
  let r0 := stdFieldsOf S buf w0 S.max 0 (4 * ws.length)
  let first := r0.1.map (showStd 0 "R")
  if k == 0 then (first, some []) else
  if !r0.2.2 then (first, some []) else          -- the first word's fields already run out of the buffer
  let undefined0 := w0 % 536870912 / 2 ^ S.max != 0
  let middle := (ws.drop 1).dropLast
  let before := if k == 1 then w0 else middle.getLastD 0
  if r0.1.isEmpty || undefined0 || middle.any (fun w => w % 536870912 != 0) || stdNsAfter before != 0 then (first, none)
  else
    let rk := stdFieldsOf S buf (getLast ws) S.max 0 r0.2.1
    (first, some (rk.1.map (showStd k "R")))

def checkWalk (buf : Bytes) (out : String) : String :=
  if out.startsWith "FAULT" then "violates parser-no-fault" else
  let chain := if buf.isEmpty then some [] else stdChain (buf.length / 4 + 1) buf 0
  match chain with
  | none => if out == "throw malformed_packet" then "ok" else s!"violates parser-rejects-broken-chain"
  | some ws =>
    if out.startsWith "throw" then s!"violates parser-accepts-chain {out}" else
    let toks := words out
    if toks.contains "runaway" then "violates parser-terminates" else
    let items := toks.filterMap parseItem
    if items.length != (toks.filter (·.startsWith "f=")).length then "violates parser-report-format" else
    let k := ws.length - 1
    -- (a) every reported field is there: known bit, set in the present word of its namespace, aligned, inside the
    --     buffer, value = the bytes at that offset, offsets ascending without overlap
    let sound := items.all (fun it =>
      it.bit < S.max && (it.ns == 0 || it.ns == k) && (ws.getD it.ns 0) / 2 ^ it.bit % 2 == 1 &&
      (it.off + 4) % S.align it.bit == 0 && it.off < buf.length && it.off ≥ 4 * ws.length &&
      it.val == (if it.off + S.size it.bit ≤ buf.length then toHex ((buf.drop it.off).take (S.size it.bit)) else "!malformed_packet"))
    let rec ascending : List RepItem → Bool
      | a :: b :: r => a.off + S.size a.bit ≤ b.off && (a.ns < b.ns || (a.ns == b.ns && a.bit < b.bit)) && ascending (b :: r)
      | _ => true
    if !sound then "violates parser-reports-only-present-fields" else
    if !ascending items then "violates parser-report-order" else
    -- (b) namespace letters: first namespace radiotap, a later one as announced by the word before it
    let before := if k ≤ 1 then ws.headD 0 else ((ws.drop 1).dropLast).getLastD 0
    let letterOk := items.all (fun it => it.letter == (if it.ns == 0 then "R" else stdLetter (stdNsAfter before)))
    let endNs := (kv toks "ns").getD ""
    let endOk := endNs == "0R" || (k > 0 && endNs == s!"{k}{stdLetter (stdNsAfter before)}")
    if !(letterOk && endOk) then s!"violates parser-namespace-type expected={stdLetter (stdNsAfter before)} got={endNs}" else
    -- (c) completeness where the standard fixes the layout
    let (first, later) := stdWalk buf ws
    let rep0 := (items.filter (·.ns == 0)).map (fun it => s!"f=0R:{it.bit}@{it.off}={it.val}")
    let repk := (items.filter (fun it => it.ns != 0)).map (fun it => s!"f={it.ns}{it.letter}:{it.bit}@{it.off}={it.val}")
    if rep0 != first then s!"violates parser-first-namespace expected={joinWith "," first}" else
    let laterOk := match later with
      | some l => repk == l || (first.isEmpty && repk.isEmpty)
      | none => true
    if !laterOk then s!"violates parser-later-namespace expected={joinWith "," (later.getD [])}" else
    -- (d) has_field: only bits some present word has; every bit of a word that is followed by further bytes
    let mask := ((kv toks "hf").getD "0").toNat?.getD 0
    let anyWord := ws.foldl (· ||| ·) 0
    let seen := (ws.zipIdx.filter (fun wi => 4 * wi.2 + 4 < buf.length)).foldl (fun acc wi => acc ||| wi.1) 0
    if mask &&& anyWord != mask then s!"violates has_field-only-present got={mask}" else
    if seen &&& mask != seen then s!"violates has_field-all-present expected={seen} got={mask}" else "ok"

def checkSkipto (bit : Nat) (buf : Bytes) (out : String) : String :=
  if out.startsWith "FAULT" then "violates parser-no-fault" else
  let chain := if buf.isEmpty then some [] else stdChain (buf.length / 4 + 1) buf 0
  match chain with
  | none => if out == "throw malformed_packet" then "ok" else s!"violates parser-rejects-broken-chain"
  | some ws =>
    if out.startsWith "throw" then s!"violates parser-accepts-chain {out}" else
    let toks := words out
    let (first, later) := stdWalk buf ws
    let pick (l : List String) : Option String := l.find? (fun t => (t.splitOn ":").getD 1 "" |>.startsWith s!"{bit}@")
    let expect : Option (Option String) :=      -- some none = not found; none = not fixed by the standard
      match pick first, later with
      | some t, _ => some (some t)
      | none, some l => if first.isEmpty && ws.length > 1 then none else some (pick l)
      | none, none => none
    match expect with
    | none => "unspecified"
    | some none => if kv toks "r" == some "0" then "ok" else "violates skip_to_field-finds-absent-field"
    | some (some t) =>
      -- t = f=<ns><L>:<bit>@<off>=<val>
      match parseItem t with
      | some it =>
        if kv toks "r" == some "1" && kv toks "bit" == some (toString bit) && kv toks "off" == some (toString it.off)
            && kv toks "opt" == some it.val && ((kv toks "ns").getD "").startsWith (toString it.ns)
        then "ok" else s!"violates skip_to_field expected={t}"
      | none => "bad-oracle"

def plOf (out : String) : Option Bytes :=
  if out.startsWith "throw" || out.startsWith "FAULT" then none else (kv (words out) "pl").bind parseHex

/-- spec mode: each input line is `<op> ||| <implementation output>` -/
def specStep (st : OState) (line : String) : OState × String :=
  match line.trimAscii.toString.splitOn " ||| " with
  | [op, out] =>
    match words op with
    | ["walk", h] => match parseHex h with
      | some b => ({ ws := some defaultWrites }, checkWalk b out)
      | none => (st, "unspecified")
    | ["skipto", n, h] => match n.toNat?, parseHex h with
      | some bit, some b => ({ ws := some defaultWrites }, if bit < S.max then checkSkipto bit b out else "unspecified")
      | _, _ => (st, "unspecified")
    | ["tail"] => (st, "ok")
    | ["new"] =>
      let st' : OState := { ws := some defaultWrites, pl := plOf out }
      (st', checkLine Frame.nil (lastWrite FMap.empty defaultWrites) out)
    | ["parse", h] =>
      match parseHex h with
      | some b =>
        let len := byteAt b 2 + 256 * byteAt b 3
        let dec := if b.length ≥ 8 && len == b.length then decodeLayout S (b.drop 4) else none
        let bare : OState := { ws := none, version := byteAt b 0, pad := byteAt b 1, pl := plOf out }
        match dec with
        | some (F, fs) =>
          let m := mapOfList fs
          let refused := match m 1 with
            | some v => byteAt v 0 / 16 % 2 == 1 && byteAt v 0 / 64 % 2 == 1
            | none => false
          if refused then (if out.startsWith "throw" then { ws := some defaultWrites } else bare, "unspecified")
          else
            let live := !decide (F.inert S)
            let two := if live && F.k == 1 && stdNsAfter F.hb == 0 then
                (decodeLayout2 S (b.drop 4)).map (fun r => (r.2.2.1, r.2.2.2)) else none
            ({ bare with ws := some fs, frame := F, live := live, last := two },
             match two with
             | some (fsK, rest) => checkTwo F fsK rest m out
             | none => if live then checkLive F (plOf out) m out else checkLine F m out)
        | none =>
          -- a refused parse leaves the default header the harness constructed before it
          (if out.startsWith "throw" then { ws := some defaultWrites } else bare, "unspecified")
      | none => ({ ws := none }, "unspecified")
    | ["set", f, h] =>
      match st.ws, stdBit f, parseHex h with
      | some ws, some b, some v =>
        if decide (validWrite S (b, v)) then
          let ws' := ws ++ [(b, v)]
          let m := lastWrite FMap.empty ws'
          let st' := { st with ws := some ws', pl := plOf out }
          if let some (fsK, rest) := st.last then (st', checkTwo st.frame fsK rest m out)
          else if st.live then
            let r := checkLive st.frame st.pl m out
            -- the foreign bytes the next call starts from are the ones the object holds now
            let F' := match (plOf out).bind (decodeLayout S) with
              | some (F2, _) => { st.frame with tail := F2.tail }
              | none => st.frame
            ({ st' with frame := F' }, r)
          else (st', checkLine st.frame m out)
        else ({ st with ws := none, pl := plOf out }, "unspecified")
      | _, _, _ => ({ st with ws := none, pl := plOf out }, "unspecified")
    | ["add", n, h] =>
      match st.ws, n.toNat?, parseHex h with
      | some ws, some b, some v =>
        if decide (validWrite S (b, v)) then
          let ws' := ws ++ [(b, v)]
          let m := lastWrite FMap.empty ws'
          let st' := { st with ws := some ws', pl := plOf out }
          if let some (fsK, rest) := st.last then (st', checkTwo st.frame fsK rest m out)
          else if st.live then
            let r := checkLive st.frame st.pl m out
            let F' := match (plOf out).bind (decodeLayout S) with
              | some (F2, _) => { st.frame with tail := F2.tail }
              | none => st.frame
            ({ st' with frame := F' }, r)
          else (st', checkLine st.frame m out)
        else ({ st with ws := none, pl := if out.startsWith "throw" then st.pl else plOf out }, "unspecified")
      | _, _, _ => ({ st with ws := none, pl := if out.startsWith "throw" then st.pl else plOf out }, "unspecified")
    | ["ser", h] =>
      match parseHex h with
      | some inner =>
        match st.ws, st.live, st.pl with
        | some ws, false, _ => (st, checkSer st (lastWrite FMap.empty ws) inner out)
        | _, _, some pl => (st, checkSerAny st pl inner out)
        | _, _, none => (st, "unspecified")
      | none => (st, "unspecified")
    | _ => ({ st with ws := none }, "unspecified")
  | _ => (st, "bad-line")

def initSpec : OState := { ws := some defaultWrites }

end Driver.C11
