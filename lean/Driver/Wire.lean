import TinsModel.Wire.Registry
import Driver.Util
/- model side of the wire line protocol shared by C01–C04 (see harness/wire_main.cpp for the format) -/
namespace Driver.Wire
open Tins Tins.Wire Driver

def fieldsStr (f : Fields) : String := joinWith ";" (f.map (fun (k, v) => s!"{k}={v}"))

def layerStr (l : LayerInfo) : String := s!"{l.cls}\{{fieldsStr l.fields}}[{l.hdr},{l.trl}]"

def chainStr (os : List AnyObj) : String := joinWith "/" ((infos os).map layerStr)

def outStr : Out Bytes → String
  | .ok b => toHex b
  | .throw e => s!"throw:{e.name}"
  | .fault s => s!"fault:{s}"

/-- the common part of a parse/show result line for a live packet whose outermost parser is `cls` -/
def describeCore (os : List AnyObj) (cls : String) : String :=
  let size := Wire.sizeOf (sems os)
  let ser := serializeObjs os
  let head := s!"ok {chainStr os} size={size} ser={outStr ser}"
  match ser with
  | .ok bytes =>
    match parseChain (bytes.length + 2) cls bytes with
    | .ok qs =>
      let ser2 := serializeObjs qs
      let s2 := match ser2 with
        | .ok b2 => if b2 == bytes then "same" else toHex b2
        | o => outStr o
      s!"{head} re={chainStr qs} ser2={s2}"
    | .throw e => s!"{head} re=throw:{e.name} ser2=-"
    | .fault s => s!"{head} re=fault:{s} ser2=-"
    | .unmodelled c => s!"unmodelled {c}"
  | _ => s!"{head} re=- ser2=-"

/-- `PDU::serialize` calls `prepare_for_serialize()` first; for a top-level IP with source 0.0.0.0 that asks the host's
    routing table for a source address (`Ip.envDependentTop`): the wire model has no parameter for it -/
def describe (os : List AnyObj) (cls : String) : String :=
  match os with
  | .ip o :: _ => if Ip.envDependentTop o then "unmodelled IP::prepare_for_serialize(NetworkInterface)" else describeCore os cls
  | _ => describeCore os cls

structure State where
  built : List AnyObj := []
  classes : List String := []

def mkObj (cls : String) (args : List String) : Option (Out AnyObj) :=
  if cls == "RawPDU" then
    match args with
    | [h] => (parseHexStr h).map (fun b => .ok (.raw b))
    | _ => none
  else if L2.classes.contains cls then some ((L2.mk cls args) >>= fun o => pure (.l2 o))
  else if Ip.classes.contains cls then some ((Ip.mk cls args) >>= fun o => pure (.ip o))
  else if Ip6.classes.contains cls then some ((Ip6.mk cls args) >>= fun o => pure (.ip6 o))
  else if Icmp.classes.contains cls then some ((Icmp.mk cls args) >>= fun o => pure (.icmp o))
  else if Transport.classes.contains cls then some ((Transport.mk cls args) >>= fun o => pure (.tr o))
  else if App.classes.contains cls then some ((App.mk cls args) >>= fun o => pure (.app o))
  else if Wifi.classes.contains cls then some ((Wifi.mk cls args) >>= fun o => pure (.wifi o))
  else none

def setNth {α} : List α → Nat → α → List α
  | [], _, _ => []
  | _ :: xs, 0, a => a :: xs
  | x :: xs, n + 1, a => x :: setNth xs n a

def step (st : State) (line : String) : State × String :=
  match words line with
  | ["parse", cls, h] =>
    match parseHex h with
    | none => (st, "bad-op")
    | some b =>
      match parseChain (b.length + 2) cls b with
      | .ok os => (st, describe os cls)
      | .throw e => (st, s!"throw {e.name}")
      | .fault s => (st, s!"fault {s}")
      | .unmodelled c => (st, s!"unmodelled {c}")
  | ["new"] => ({}, "ok")
  | "push" :: cls :: args =>
    match mkObj cls args with
    | none => (st, s!"unmodelled {cls}")
    | some (.ok o) => ({ built := st.built ++ [o], classes := st.classes ++ [cls] }, "ok")
    | some (.throw e) => (st, s!"throw {e.name}")
    | some (.fault s) => (st, s!"fault {s}")
  | "set" :: idx :: op =>
    match idx.toNat? with
    | none => (st, "bad-op")
    | some i =>
      match st.built[i]? with
      | none => (st, "bad-op")
      | some o =>
        match o.apply op with
        | .ok o' => ({ st with built := setNth st.built i o' }, "ok")
        | .throw .stdOther => (st, "unmodelled-op")
        | .throw e => (st, s!"throw {e.name}")
        | .fault s => (st, s!"fault {s}")
  | ["show"] =>
    match st.classes with
    | [] => (st, "bad-op")
    | c :: _ => (st, describe st.built c)
  | _ => (st, "bad-op")

end Driver.Wire
