import TinsModel.Capture.Spec
import TinsModel.Capture.Session
import Driver.Util
/- line-protocol driver for property C17: model mode (capture model) and spec mode (oracle on the implementation's
   output).  The op grammar is documented at the top of harness/c17_capture.cpp. -/
namespace Driver.C17
open Driver Tins Tins.Capture Tins.Gen.Capture

/-- annotation of one written frame: what the direct dissector calls and libpcap's filter say about it -/
structure Ann where
  ser : Bytes
  adv : Nat
  m : Bool            -- pcap_offline_filter with len = advertised size (what the sniffer's filter sees)
  mo : Bool           -- pcap_offline_filter with len = caplen (what OfflinePacketFilter sees)
  outs : List (String × String)     -- class ↦ outcome text
  serThrow : Option String := none
  xs : List Bool := []              -- per session filter (in `|f|` order): what a savefile-compiled program says

def kvOf (ws : List String) (key : String) : Option String :=
  ws.findSome? (fun w => if w.startsWith (key ++ "=") then some ((w.drop (key.length + 1)).toString) else none)

def parseInt (s : String) : Option Int :=
  if s.startsWith "-" then (s.drop 1).toString.toNat?.map (fun n => - (n : Int)) else s.toNat?.map (fun n => (n : Int))

def parseAnn (ws : List String) : Option Ann :=
  match kvOf ws "s" with
  | none => none
  | some s =>
    if s.startsWith "throw:" then
      some { ser := [], adv := 0, m := false, mo := false, outs := [], serThrow := some ((s.drop 6).toString) }
    else do
      let ser ← parseHex s
      let adv ← (kvOf ws "adv").bind (·.toNat?)
      let m ← kvOf ws "m"
      let mo ← kvOf ws "mo"
      let outs := ws.filterMap (fun w =>
        if w.startsWith "p:" then
          match ((w.drop 2).toString.splitOn "=") with
          | c :: rest => some (c, "=".intercalate rest)
          | _ => none
        else none)
      let xs := match kvOf ws "x" with
        | none => []
        | some t => if t == "-" then [] else t.toList.map (· == '1')
      pure { ser := ser, adv := adv, m := m == "1", mo := mo == "1", outs := outs, xs := xs }

/-- outcome text ↦ `POut` with the PDU represented by its canonical description -/
def poutOf (s : String) : POut String :=
  if s.startsWith "ok:" then .ok ((s.drop 3).toString)
  else if s == "mal" then .throw .malformedPacket
  else if s.startsWith "exc:" then .throw (Exc.ofName ((s.drop 4).toString))
  else .throw (.other ("annotation:" ++ s))

def showTs (t : Timestamp) : String := s!"{t.seconds}.{t.microseconds}"

def joinOr (xs : List String) : String := if xs.isEmpty then "-" else ",".intercalate xs

/-- writer link-type token ↦ DLT through the generated tables (what the implementation's headers say) -/
def dltOfToken (tok : String) : Option Nat :=
  let v := (tok.drop 2).toString
  if tok.startsWith "E:" then (writerEnum.find? (·.1 == v)).map (·.2)
  else if tok.startsWith "T:" then (dataLinkTypes.find? (·.1 == v)).map (·.2)
  else if tok.startsWith "N:" then v.toNat?
  else none

def methodOf (s : String) : Method :=
  if s == "dispatch" then .dispatch else if s == "exact" then .exact else .loop

structure MState where
  dlt : Nat := 0
  tok : String := ""
  method : Method := .loop
  writing : Bool := false
  recs : List Rec := []                       -- the open file behind the writer (`WriterSt`), in write order
  pending : Option (List (Timeval × Item × Ann)) := none   -- elements collected for a `write(begin, end)`
  anns : List ((Bytes × Nat) × Ann) := []     -- keyed by (captured bytes, wire length)
  file : Option Bytes := none

def initModel : MState := {}

def lookupAnn (st : MState) (f : Frame) : Option Ann :=
  (st.anns.find? (fun e => e.1.2 == f.len && e.1.1 == f.data)).map (·.2)

/-- the abstract dissector: by table look-up of the direct constructor call's outcome -/
def parseOracle (st : MState) (cls : String) (b : Bytes) : POut String :=
  match st.anns.find? (fun e => e.1.1 == b) with
  | none => .throw (.other "model-missing-annotation")
  | some e => match e.2.outs.find? (·.1 == cls) with
    | none => .throw (.other ("model-missing-annotation:" ++ cls))
    | some o => poutOf o.2

structure ReadOpts where
  api : String := "next"
  filt : String := "none"
  raw : Bool := false
  maxp : Nat := 0
  stop : Nat := 0
  thr : List (Nat × String) := []
  cbPdu : Bool := false
  tog : Nat := 0          -- api=next: `set_extract_raw_pdus(!raw)` after this many delivered packets (0 = never)

def parseReadOpts (ws : List String) : ReadOpts :=
  let thr := match kvOf ws "thr" with
    | none => []
    | some t => (t.splitOn ",").filterMap (fun item => match item.splitOn ":" with
      | [i, k] => i.toNat?.map (fun n => (n, k))
      | _ => none)
  { api := (kvOf ws "api").getD "next", filt := (kvOf ws "filt").getD "none", raw := kvOf ws "raw" == some "1",
    maxp := ((kvOf ws "max").bind (·.toNat?)).getD 0, stop := ((kvOf ws "stop").bind (·.toNat?)).getD 0,
    thr := thr, cbPdu := kvOf ws "cb" == some "pdu", tog := ((kvOf ws "tog").bind (·.toNat?)).getD 0 }

def usesFilter (o : ReadOpts) : Bool := o.filt == "cfg" || o.filt == "ctor" || o.filt == "post"

/-- the scripted functor of the harness -/
def scriptCb (o : ReadOpts) (hist : List (String × Timestamp)) (_p : String × Timestamp) : CbOut :=
  let i := hist.length
  match o.thr.find? (·.1 == i) with
  | some (_, "mal") => .throw .malformedPacket
  | some (_, "nf") => .throw .pduNotFound
  | _ => if o.stop != 0 && i + 1 == o.stop then .stop else .continue_

def showPkt (withTs : Bool) (p : String × Timestamp) : String :=
  (if withTs then showTs p.2 else "-") ++ ":" ++ p.1

def showEnd : End → String
  | .eof => "eof"
  | .escape e => "escape:" ++ e.name
  | .fault i n => s!"FAULT model read of byte {i} of {n}"

def modelRead (st : MState) (ws : List String) : String :=
  let o := parseReadOpts ws
  match st.file with
  | none => "read open=nofile"
  | some bytes =>
  match openFile bytes with
  | none => "read open=throw:pcap_error"
  | some op =>
    -- an expression libpcap cannot compile is refused: the constructors throw `invalid_pcap_filter`, `set_filter` returns false
    if kvOf ws "bad" == some "1" && usesFilter o then
      (if o.filt == "post" then "read open=ok set_filter=0" else "read open=throw:invalid_pcap_filter") else
    let pre := s!"read open=ok dlt={op.dlt}"
    let filter : Frame → Bool := fun f =>
      if usesFilter o then (match lookupAnn st f with | some a => a.m | none => false) else true
    let src : Source := ⟨op.frames, op.err⟩
    let fuel := op.frames.length + 2
    match selectHandler o.raw op.dlt with
    | .error e => s!"{pre} pkts=- end=escape:{e} rest=- end2=- live=0"
    | .ok hk =>
      match runHandler (parseOracle st) hk with
      | none => s!"{pre} model-unknown-handler"
      | some handler =>
        let drain := fun (s : Source) => sniffAll st.method filter handler fuel s
        if o.api == "next" then
          -- `next_packet` selects the handler on every call from the link type and the CURRENT raw mode: with tog=K the
          -- first K deliveries use this read's mode, everything after them the other one
          let r1 := if o.tog == 0 then drain src else sniffAll st.method filter handler o.tog src
          let r := if o.tog == 0 || r1.1.length < o.tog then r1 else
            match selectHandler (!o.raw) op.dlt with
            | .error e => (r1.1, End.escape (Exc.ofName e), r1.2.2)
            | .ok hk2 => match runHandler (parseOracle st) hk2 with
              | none => r1
              | some h2 =>
                let r2 := sniffAll st.method filter h2 fuel r1.2.2
                (r1.1 ++ r2.1, r2.2.1, r2.2.2)
          s!"{pre} pkts={joinOr (r.1.map (showPkt true))} end={showEnd r.2.1} rest=- end2=- live=0"
        else
          let isLoop := o.api == "loop"
          let catches := if isLoop then sniffLoopCatches else []
          let o' := if isLoop then o else { o with thr := [], maxp := 0 }
          let r := sniffLoop st.method filter handler catches (scriptCb o') fuel src o'.maxp []
          let first := joinOr (r.2.1.map (showPkt (!(isLoop && o.cbPdu))))
          let fin := fun (e1 : String) =>
            let d := drain r.2.2
            s!"{pre} pkts={first} end={e1} rest={joinOr (d.1.map (showPkt true))} end2={showEnd d.2.1} live=0"
          match r.1 with
          | .escape e => s!"{pre} pkts={first} end=escape:{e.name} rest=- end2=- live=0"
          | .cbEscape e => s!"{pre} pkts={first} end=escape:{e.name} rest=- end2=- live=0"
          | .fault i n => s!"{pre} pkts={first} end=FAULT model read of byte {i} of {n}"
          | .exhausted => fin (if isLoop then "returned" else "exhausted")
          | .stopped => fin (if isLoop then "returned" else "break")
          | .maxReached => fin "returned"

/-! ### sessions: a script of calls on ONE live sniffer (`Capture/Session.lean`) -/

/-- the `i`-th filter of the session line, by look-up of what libpcap's filter said about each frame -/
def sessFilter (st : MState) (i : Nat) : Frame → Bool := fun f =>
  match lookupAnn st f with
  | some a => a.xs.getD i false
  | none => false

/-- `1.mal+3.nf` -/
def parseIdxKind (s : String) : List (Nat × String) :=
  if s == "-" || s == "" then [] else
  (s.splitOn "+").filterMap (fun item => match item.splitOn "." with
    | [i, k] => i.toNat?.map (fun n => (n, k))
    | _ => none)

def sideCfg (st : MState) (a : String) : Option Cfg :=
  if a == "ss" then some .stopSniff
  else if a == "r0" then some (.setRaw false)
  else if a == "r1" then some (.setRaw true)
  else if a == "fe" then some (.setFilter (some (fun _ => true)))
  else if a.startsWith "f" then ((a.drop 1).toString.toNat?).map (fun k => Cfg.setFilter (some (sessFilter st k)))
  else none

/-- the scripted functor of the harness (`SessBody::run`): configuration calls first, then throw / stop / continue -/
def sessFunctor (st : MState) (stop : Nat) (thr side : List (Nat × String)) : Functor String :=
  fun hist _p =>
    let i := hist.length
    let cfgs := (side.filter (·.1 == i)).filterMap (fun e => sideCfg st e.2)
    let out := match thr.find? (·.1 == i) with
      | some (_, "mal") => CbOut.throw .malformedPacket
      | some (_, "nf") => .throw .pduNotFound
      | some (_, "oth") => .throw (.other "option_not_found")
      | _ => if stop != 0 && i + 1 == stop then .stop else .continue_
    (cfgs, out)

/-- the harness's `drain`: `next_packet()` until it hands back no packet -/
def sessDrain (parse : String → Bytes → POut String) :
    Nat → Traced → List (String × Timestamp) → List (String × Timestamp) × NPOut String × Traced
  | 0, t, acc => (acc, .null, t)
  | fuel + 1, t, acc =>
    match t.nextPacket parse with
    | (.pkt p ts, t') => sessDrain parse fuel t' (acc ++ [(p, ts)])
    | (o, t') => (acc, o, t')

/-- one token of a session script: result text, state, whether the session is aborted (an exception came out of
    `next_packet` through libpcap's frames) -/
def sessTok (st : MState) (t : Traced) (curRaw : Bool) (tok : String) : String × Traced × Bool × Bool :=
  let parse := parseOracle st
  let fs := tok.splitOn ":"
  let loopEnd := fun (name : String) (withTs : Bool) (exhausted stopped : String) (r : Ret String × Traced) =>
    match r.1 with
    | .loop e pkts =>
      let ps := joinOr (pkts.map (showPkt withTs))
      match e with
      | .exhausted => (s!"{name}={ps}/{exhausted}", r.2, curRaw, false)
      | .stopped => (s!"{name}={ps}/{stopped}", r.2, curRaw, false)
      | .maxReached => (s!"{name}={ps}/returned", r.2, curRaw, false)
      | .cbEscape x => (s!"{name}={ps}/escape:{x.name}", r.2, curRaw, false)
      | .escape x => (s!"{name}={ps}/escape:{x.name}", r.2, curRaw, true)
      | .fault i n => (s!"{name}={ps}/FAULT model read of byte {i} of {n}", r.2, curRaw, true)
    | _ => ("model-error", r.2, curRaw, true)
  -- the raw mode after the functor's own set_extract_raw_pdus calls (the harness tracks it for `mva`)
  let rawAfter := fun (r : Ret String × Traced) => r.2.s.extractRaw
  match fs with
  | ["np"] =>
    let r := t.call parse .nextPacket
    match r.1 with
    | .packet (.pkt p ts) => ("np=" ++ showPkt true (p, ts), r.2, curRaw, false)
    | .packet .null => ("np=null", r.2, curRaw, false)
    | .packet (.escape e) => ("np=escape:" ++ e.name, r.2, curRaw, true)
    | .packet (.fault i n) => (s!"np=FAULT model read of byte {i} of {n}", r.2, curRaw, true)
    | _ => ("model-error", r.2, curRaw, true)
  | ["drain"] =>
    let d := sessDrain parse (t.s.handle.frames.length + 2) t []
    let ps := joinOr (d.1.map (showPkt true))
    match d.2.1 with
    | .escape e => (s!"drain={ps}/escape:{e.name}", d.2.2, curRaw, true)
    | .fault i n => (s!"drain={ps}/FAULT model read of byte {i} of {n}", d.2.2, curRaw, true)
    | _ =>
      let again := d.2.2.nextPacket parse
      match again.1 with
      | .pkt _ _ => (s!"drain={ps}/eof-then-packet", again.2, curRaw, false)
      | .null => (s!"drain={ps}/eof", again.2, curRaw, false)
      | .escape e => (s!"drain={ps}/escape:{e.name}", again.2, curRaw, true)
      | .fault i n => (s!"drain={ps}/FAULT model read of byte {i} of {n}", again.2, curRaw, true)
  | "loop" :: mx :: stp :: thr :: kind :: side :: _ =>
    let cb := sessFunctor st (stp.toNat?.getD 0) (parseIdxKind thr) (parseIdxKind side)
    let r := t.call parse (.sniffLoop cb (mx.toNat?.getD 0))
    let x := loopEnd "loop" (kind != "u") "returned" "returned" r
    (x.1, x.2.1, rawAfter r, x.2.2.2)
  | "iter" :: stp :: _pp :: side :: _ =>
    let cb := sessFunctor st (stp.toNat?.getD 0) [] (parseIdxKind side)
    let r := t.call parse (.rangeFor cb)
    let x := loopEnd "iter" true "exhausted" "break" r
    (x.1, x.2.1, rawAfter r, x.2.2.2)
  | ["raw", v] => ("raw=ok", (t.call parse (.cfg (.setRaw (v == "1")))).2, v == "1", false)
  | ["filt", i] =>
    let f : Frame → Bool := if i == "e" then (fun _ => true) else sessFilter st (i.toNat?.getD 0)
    let r := t.call parse (.cfg (.setFilter (some f)))
    (match r.1 with | .flag true => "filt=1" | _ => "filt=0", r.2, curRaw, false)
  | ["bad", _] =>
    let r := t.call parse (.cfg (.setFilter none))
    (match r.1 with | .flag true => "bad=1" | _ => "bad=0", r.2, curRaw, false)
  | ["meth", m] =>
    ("meth=ok", (t.call parse (.cfg (.setMethod (if m == "d" then .dispatch else if m == "x" then .exact else .loop)))).2,
     curRaw, false)
  | ["mvc"] => ("mvc=ok", (t.call parse .moveConstruct).2, curRaw, false)
  | ["mva"] =>
    -- the target is a second sniffer on the same file: fresh handle, the other raw mode, `pcap_loop`
    let target : Sniffer := { handle := { t.s.handle with brk := false }, extractRaw := !curRaw, method := .loop }
    ("mva=ok", (t.call parse (.moveAssignInto target)).2, curRaw, false)
  | ["lt"] =>
    (match (t.call parse .linkType).1 with | .linkType d => s!"lt={d}" | _ => "model-error", t, curRaw, false)
  | ["ss"] => ("ss=ok", (t.call parse (.cfg .stopSniff)).2, curRaw, false)
  | _ => ("bad-token", t, curRaw, false)

def modelSession (st : MState) (ws : List String) : String :=
  match st.file with
  | none => "session open=nofile"
  | some bytes =>
  match openFile bytes with
  | none => "session open=throw:pcap_error"
  | some op =>
    let init : Frame → Bool := match kvOf ws "init" with
      | some "none" => fun _ => true
      | none => fun _ => true
      | some i => sessFilter st (i.toNat?.getD 0)
    let t0 : Traced :=
      { s := { handle := { dlt := op.dlt, frames := op.frames, err := op.err, filter := init, brk := false },
               extractRaw := false, method := st.method }, log := [] }
    let script := match kvOf ws "s" with
      | none => []
      | some sc => (sc.splitOn ",").filter (· != "")
    let rec go (toks : List String) (t : Traced) (curRaw aborted : Bool) (acc : List String) : List String :=
      match toks with
      | [] => acc.reverse
      | tok :: rest =>
        if aborted then go rest t curRaw true ("aborted" :: acc)
        else
          let r := sessTok st t curRaw tok
          go rest r.2.1 r.2.2.1 r.2.2.2 (r.1 :: acc)
    let rs := go script t0 false false []
    s!"session open=ok r={if rs.isEmpty then "-" else ";".intercalate rs} live=0"

def modelOffline (st : MState) (_ws : List String) : String :=
  if !st.tok.startsWith "T:" then "offline unsupported-link-type-token" else
  match st.file with
  | none => "offline nofile"
  | some bytes =>
    match openFile bytes with
    | none => "offline bits= escape:pcap_error"
    | some op =>
      let bits := op.frames.map (fun f => match lookupAnn st f with
        | some a => if a.mo then "1" else "0"
        | none => "?")
      "offline bits=" ++ (if bits.isEmpty then "-" else "".intercalate bits)

/-- the writer's state behind `MState` -/
def wst (st : MState) : WriterSt := { dlt := st.dlt, recs := st.recs }

def step (st : MState) (line : String) : MState × String :=
  -- the filter texts after ` |f| ` are the harness's business; the model sees their verdicts in the annotations
  let ws := words ((line.splitOn " |f| ").headD "")
  match ws with
  | "file" :: tok :: meth :: _ =>
    match dltOfToken tok with
    | none => (st, "bad-op")
    | some d => ({ dlt := d, tok := tok, method := methodOf meth, writing := true }, "file ok")
  | "read" :: rest => (st, modelRead st rest)
  | "session" :: rest => (st, modelSession st rest)
  | "offline" :: rest => (st, modelOffline st rest)
  | opw :: _how :: sec :: usec :: _hex :: rest =>
    if !(opw == "w" || opw == "wp" || opw == "wq" || opw == "wr-item") then (st, "bad-op") else
    if opw == "wr-item" && st.pending.isNone then (st, "wr-item norange") else
    if opw != "wr-item" && !st.writing then (st, opw ++ " nowriter") else
    match parseInt sec, parseInt usec, parseAnn rest with
    | some s, some u, some a =>
      match a.serThrow with
      | some e => (st, opw ++ " throw:" ++ e)
      | none =>
        let x : Item := { ser := a.ser, adv := a.adv }
        if opw == "wr-item" then
          ({ st with pending := some ((st.pending.getD []) ++ [(⟨s, u⟩, x, a)]) }, "wr-item ok")
        else
          -- `w`: write(Packet&) with Timestamp(timeval{s,u}); `wp` / `wq`: write(PDU&) / write(T&), clock reading = (s,u)
          let c : WCall := if opw == "w" then .packet (Timestamp.ofTimeval ⟨s, u⟩) x else .pdu ⟨s, u⟩ x
          let w' := ((wst st).call c).1
          let r := w'.recs.getLast?.getD (writePdu ⟨s, u⟩ a.ser a.adv)
          ({ st with recs := w'.recs, anns := ((r.data, r.len), a) :: st.anns }, opw ++ " ok")
    | _, _, _ => (st, "bad-op")
  | ["wr-begin", _kind] => ({ st with pending := some [] }, "wr-begin ok")
  | ["wr-end"] =>
    match st.pending with
    | none => (st, "wr-end norange")
    | some items =>
      if !st.writing then ({ st with pending := none }, "wr-end nowriter") else
      let w' := ((wst st).call (.range (items.map (fun e => (e.1, e.2.1))))).1
      let anns := items.map (fun e => let r := writePdu e.1 e.2.1.ser e.2.1.adv; ((r.data, r.len), e.2.2))
      ({ st with recs := w'.recs, anns := anns.reverse ++ st.anns, pending := none }, s!"wr-end n={items.length}")
  | ["wmv"] =>
    if !st.writing then (st, "wmv nowriter") else
    ({ st with recs := (((wst st).call .moveConstruct).1).recs }, "wmv ok")
  | ["wma"] =>
    if !st.writing then (st, "wma nowriter") else
    let r := (wst st).call (.moveAssignInto (some { dlt := st.dlt, recs := [] }))
    let other := match r.2 with | some o => toString o.close.length | none => "nofile"
    ({ st with recs := r.1.recs }, s!"wma other={other} leak=0")
  | ["close"] =>
    let bytes := (wst st).close
    ({ st with writing := false, file := some bytes, pending := none },
     s!"close size={bytes.length} fnv={fnv bytes} snaplen={writerSnaplen} linktype={dltToLinktype st.dlt} wall=ok")
  | ["rotate"] =>
    if !st.writing then (st, "rotate nowriter") else
    let bytes := (wst st).close
    ({ st with writing := false, file := some bytes, pending := none },
     s!"rotate size={bytes.length} fnv={fnv bytes} snaplen={writerSnaplen} linktype={dltToLinktype st.dlt} leak=0 wall=ok")
  | ["chop", k] =>
    match st.file, k.toNat? with
    | some bytes, some k =>
      let n := bytes.length - k
      ({ st with file := some (bytes.take n) }, s!"chop size={n}")
    | _, _ => (st, "chop nofile")
  | _ => (st, "bad-op")

/-! ## spec mode: the oracle, evaluated on the implementation's own output -/

structure OFrame where
  sec : Int
  usec : Int
  ann : Ann

structure OState where
  tok : String := ""
  frames : List OFrame := []        -- frames whose `w` the implementation acknowledged, in order
  size : Nat := 0                   -- current size of the file (after chop)
  closed : Bool := false
  unspecified : Bool := true
  pending : Option (List OFrame) := none     -- elements collected for a `write(begin, end)`

def initSpec : OState := {}

/-- link types by their registered numbers (tcpdump.org link-layer header types), independent of libtins' headers -/
def specDlt (tok : String) : Option Nat :=
  match tok with
  | "E:ETH2" => some 1 | "E:DOT3" => some 1 | "E:SLL" => some 113 | "E:RADIOTAP" => some 127 | "E:DOT11" => some 105
  | "T:EthernetII" => some 1 | "T:Dot3" => some 1 | "T:SLL" => some 113 | "T:Loopback" => some 0
  | "T:PPI" => some 192 | "T:Dot11" => some 105 | "T:RadioTap" => some 127 | "T:IP" => some 12
  | _ => if tok.startsWith "N:" then (tok.drop 2).toString.toNat? else none

/-- LINKTYPE_ value a file header carries for a DLT (LINKTYPE_RAW = 101) -/
def specLinktype (dlt : Nat) : Nat := if dlt = 12 then 101 else dlt

/-- the dissector classes that can be meant by "the frame parses" for a link type; more than one = the standards
    leave the choice open (Ethernet length/type values 1501..2047, frames too short to carry the field) -/
def specClasses (dlt : Nat) (b : Bytes) : Option (List String) :=
  match dlt with
  | 1 =>
    match b[12]?, b[13]? with
    | some hi, some lo =>
      let v := hi.toNat * 256 + lo.toNat
      if v ≤ 1500 then some ["Dot3"] else if v ≥ 2048 then some ["EthernetII"] else some ["Dot3", "EthernetII"]
    | _, _ => some ["Dot3", "EthernetII"]
  | 0 => some ["Loopback"]
  | 113 => some ["SLL"]
  | 192 => some ["PPI"]
  | 127 => some ["RadioTap"]
  | 105 => some ["Dot11"]
  | 12 =>
    match b[0]? with
    | some x => if x.toNat / 16 = 4 then some ["IP"] else if x.toNat / 16 = 6 then some ["IPv6"] else some []
    | none => some []
  | _ => none

inductive Expect where
  | pkt (desc : String)      -- the frame must come back as this packet
  | skip                     -- the frame must be skipped
  | open_                    -- the property does not say

def expectOf (dlt : Nat) (raw : Bool) (a : Ann) : Expect :=
  if raw then .pkt s!"0/{a.ser.length}/{fnv a.ser}"        -- identical bytes, checked without the annotation
  else match specClasses dlt a.ser with
    | none => .open_
    | some [] => .skip
    | some cs =>
      let outs := cs.map (fun c => (a.outs.find? (·.1 == c)).map (·.2))
      match outs with
      | some o :: rest =>
        if rest.all (· == some o) then
          (if o.startsWith "ok:" then .pkt ((o.drop 3).toString) else .skip)
        else .open_
      | _ => .open_

/-- expected text of a packet; `none` when the time stamp is outside what the file format can hold -/
def expectTs (f : OFrame) : Option String :=
  let t := f.sec * 1000000 + f.usec
  if t < 0 then none
  else
    let n := t.toNat
    if n / 1000000 ≥ 2147483648 then none else some s!"{n / 1000000}.{n % 1000000}"

def survivors (st : OState) : List OFrame × Bool :=
  -- the frames wholly inside the first `size` bytes, and whether the file ends exactly at a record boundary
  let rec go (fs : List OFrame) (off : Nat) (acc : List OFrame) : List OFrame × Bool :=
    match fs with
    | [] => (acc.reverse, true)
    | f :: rest =>
      let nxt := off + 16 + f.ann.ser.length
      if nxt ≤ st.size then go rest nxt (f :: acc) else (acc.reverse, off == st.size)
  go st.frames 24 []

def splitItems (s : String) : List String := if s == "-" then [] else s.splitOn ","

def checkRead (st : OState) (ws : List String) (ow : List String) : String :=
  let o := parseReadOpts ws
  match specDlt st.tok with
  | none => "unspecified"
  | some dlt =>
  match kvOf ow "open" with
  | none => "violates unparsable-output"
  | some opn =>
    if st.size < 24 then (if opn.startsWith "throw:" then "ok" else "violates open-of-headerless-file")
    else if kvOf ws "bad" == some "1" && usesFilter o then
      -- what is not a filter expression selects nothing: it must be refused, not installed
      (if (o.filt == "post" && opn == "ok" && kvOf ow "set_filter" == some "0") || (o.filt != "post" && opn == "throw:invalid_pcap_filter")
       then "ok" else s!"violates invalid-filter-accepted open={opn}")
    else if opn != "ok" then s!"violates open {opn}"
    else if kvOf ow "dlt" != some (toString dlt) then s!"violates link-type expected={dlt}"
    else
    match kvOf ow "pkts", kvOf ow "end", kvOf ow "rest", kvOf ow "end2", kvOf ow "live" with
    | some pk, some e1, some rs, some e2, some live =>
      if e1.startsWith "escape:" then s!"violates loop-no-escape {e1}"
      else if e2.startsWith "escape:" then s!"violates loop-no-escape {e2}"
      else if !(e1 == "eof" || e1 == "returned" || e1 == "exhausted" || e1 == "break") then s!"violates clean-end {e1}"
      else if !(e2 == "eof" || e2 == "-") then s!"violates clean-end {e2}"
      else if live != "0" then s!"violates pdu-leak live={live}"
      else
        let (fr, _) := survivors st
        let fr := fr.filter (fun f => !usesFilter o || f.ann.m)
        -- tog=K (api=next): the raw mode in force for a frame is the one set when `next_packet` reaches it — this read's
        -- mode until K packets were delivered, the other one afterwards
        let rec goExp (fs : List OFrame) (mode : Bool) (cnt : Nat) : List (Expect × Option String) :=
          match fs with
          | [] => []
          | f :: rest =>
            let e := expectOf dlt mode f.ann
            let delivered := match e with | .pkt _ => true | _ => false
            let cnt' := if delivered then cnt + 1 else cnt
            let mode' := if o.tog != 0 && o.api == "next" && delivered && cnt' == o.tog then !mode else mode
            (e, expectTs f) :: goExp rest mode' cnt'
        let exps := goExp fr o.raw 0
        if exps.any (fun e => match e.1 with | .open_ => true | _ => false) then "unspecified" else
        let want := exps.filterMap (fun e => match e.1 with | .pkt d => some (d, e.2) | _ => none)
        let first := splitItems pk
        let got := first ++ splitItems rs
        if got.length != want.length then s!"violates frames-out count got={got.length} want={want.length}"
        else
          let bad := (got.zip want).findIdx? (fun (g, (d, ts)) =>
            match g.splitOn ":" with
            | t :: gdParts =>
              let gd := ":".intercalate gdParts
              gd != d || (match ts with | some x => t != x && t != "-" | none => false)
            | _ => true)
          match bad with
          | some i => s!"violates frames-out packet#{i}"
          | none =>
            -- how many packets the functor / loop body must have seen
            let n := want.length
            let k :=
              if o.api == "next" then n
              else
                let isLoop := o.api == "loop"
                let rec cnt (i : Nat) (fuel : Nat) : Nat :=
                  match fuel with
                  | 0 => i
                  | fuel + 1 =>
                    if i ≥ n then n
                    else
                      let thrown := isLoop && o.thr.any (·.1 == i)
                      if !thrown && o.stop != 0 && i + 1 == o.stop then i + 1
                      else if isLoop && o.maxp != 0 && i + 1 == o.maxp then i + 1
                      else cnt (i + 1) fuel
                cnt 0 (n + 1)
            if first.length != k then s!"violates delivered-count got={first.length} want={k}" else "ok"
    | _, _, _, _, _ => "violates unparsable-output"

/-! ### sessions: the property evaluated frame by frame under the configuration in force

  The oracle keeps what the property text talks about: the frames of the file not yet reached, the raw mode, the
  filter, whether `stop_sniff` was called since the last `next_packet`.  A pull (`next_packet`) hands back the first
  frame, from the current position on, that the filter in force accepts and that parses under the mode in force;
  after `stop_sniff` it hands back nothing once and reads nothing; at the end of the file it hands back nothing,
  forever. -/

structure SSt where
  fr : List OFrame
  raw : Bool := false
  filt : Option Nat := none          -- index into the session's filters; `none` = every frame
  brk : Bool := false

inductive Pull where
  | pkt (d : String) (ts : Option String)
  | none_
  | open_

def sAccepts (s : SSt) (f : OFrame) : Bool :=
  match s.filt with
  | none => true
  | some i => f.ann.xs.getD i false

def sPull (dlt : Nat) (s : SSt) : Pull × SSt :=
  if s.brk then (.none_, { s with brk := false }) else
  let rec go (fs : List OFrame) : Pull × List OFrame :=
    match fs with
    | [] => (.none_, [])
    | f :: rest =>
      if !sAccepts s f then go rest else
      match expectOf dlt s.raw f.ann with
      | .pkt d => (.pkt d (expectTs f), rest)
      | .skip => go rest
      | .open_ => (.open_, rest)
  let r := go s.fr
  (r.1, { s with fr := r.2 })

def sSide (s : SSt) (a : String) : SSt :=
  if a == "ss" then { s with brk := true }
  else if a == "r0" then { s with raw := false }
  else if a == "r1" then { s with raw := true }
  else if a == "fe" then { s with filt := none }
  else if a.startsWith "f" then { s with filt := (a.drop 1).toString.toNat? }
  else s

/-- does the implementation's packet text `g` (`<ts>:<desc>`) show the expected packet -/
def pktMatches (g : String) (d : String) (ts : Option String) : Bool :=
  match g.splitOn ":" with
  | t :: gdParts =>
    let gd := ":".intercalate gdParts
    gd == d && (match ts with | some x => t == x || t == "-" | none => true)
  | _ => false

def pktsMatch (got : List String) (want : List (String × Option String)) : Bool :=
  got.length == want.length && (got.zip want).all (fun (g, (d, ts)) => pktMatches g d ts)

inductive Verdict where
  | ok | unspec | bad (why : String)

/-- the loop of `sniff_loop` / a range-for, from the property text: the functor gets the packets one by one, in
    order; it stops the loop by returning false, by an exception other than the two `sniff_loop` swallows, or when
    `max` packets were handed over; nothing is read beyond the last packet handed over -/
def sLoop (dlt : Nat) (isLoop : Bool) (mx stop : Nat) (thr side : List (Nat × String)) :
    Nat → SSt → Nat → Nat → List (String × Option String) → Option (List (String × Option String) × String × SSt)
  | 0, s, _, _, acc => some (acc, if isLoop then "returned" else "exhausted", s)
  | fuel + 1, s, i, mx', acc =>
    match sPull dlt s with
    | (.open_, _) => none
    | (.none_, s') => some (acc, if isLoop then "returned" else "exhausted", s')
    | (.pkt d ts, s') =>
      let acc' := acc ++ [(d, ts)]
      let s'' := (side.filter (·.1 == i)).foldl (fun st e => sSide st e.2) s'
      let thrown := if isLoop then (thr.find? (·.1 == i)).map (·.2) else none
      if thrown == some "oth" then some (acc', "escape:option_not_found", s'')
      else if thrown.isNone && stop != 0 && i + 1 == stop then some (acc', if isLoop then "returned" else "break", s'')
      else if isLoop && mx' == 1 then some (acc', "returned", s'')
      else sLoop dlt isLoop mx stop thr side fuel s'' (i + 1) (if mx' == 0 then 0 else mx' - 1) acc'

def checkTok (dlt : Nat) (s : SSt) (tok got : String) : Verdict × SSt :=
  let fs := tok.splitOn ":"
  let (gname, gval) := match got.splitOn "=" with
    | n :: rest => (n, "=".intercalate rest)
    | [] => ("", "")
  let fixed := fun (want : String) (s' : SSt) => (if got == want then Verdict.ok else .bad s!"{gname} {got}", s')
  match fs with
  | ["np"] =>
    match sPull dlt s with
    | (.open_, s') => (.unspec, s')
    | (.none_, s') => (if got == "np=null" then .ok else .bad s!"session-frames-out np expected=null got={gval.take 40}", s')
    | (.pkt d ts, s') =>
      (if gname == "np" && pktMatches gval d ts then .ok else .bad s!"session-frames-out np got={gval.take 40}", s')
  | ["drain"] =>
    let rec pulls (fuel : Nat) (s : SSt) (acc : List (String × Option String)) : Option (List (String × Option String) × SSt) :=
      match fuel with
      | 0 => some (acc, s)
      | fuel + 1 => match sPull dlt s with
        | (.open_, _) => none
        | (.none_, s') => some (acc, s')
        | (.pkt d ts, s') => pulls fuel s' (acc ++ [(d, ts)])
    match pulls (s.fr.length + 2) s [] with
    | none => (.unspec, s)
    | some (want, s') =>
      -- one more call: the end of the file is sticky; a stop_sniff only interrupts once
      match sPull dlt s' with
      | (.open_, s'') => (.unspec, s'')
      | (again, s'') =>
        let marker := match again with | .pkt _ _ => "eof-then-packet" | _ => "eof"
        match gval.splitOn "/" with
        | [] => (.bad "unparsable-output", s'')
        | parts =>
          let e := parts.getLast!
          let pk := "/".intercalate parts.dropLast
          if e.startsWith "escape:" then (.bad s!"loop-no-escape {e}", s'')
          else if gname != "drain" || !pktsMatch (splitItems pk) want then (.bad "session-frames-out drain", s'')
          else if e != marker then (.bad s!"clean-end {e} expected={marker}", s'')
          else (.ok, s'')
  | "loop" :: mx :: stp :: thr :: _kind :: side :: _ =>
    let m := mx.toNat?.getD 0
    match sLoop dlt true m (stp.toNat?.getD 0) (parseIdxKind thr) (parseIdxKind side) (s.fr.length + 1) s 0 m [] with
    | none => (.unspec, s)
    | some (want, e, s') =>
      let parts := gval.splitOn "/"
      let ge := parts.getLast!
      let pk := "/".intercalate parts.dropLast
      if ge.startsWith "escape:" && ge != e then (.bad s!"loop-no-escape {ge}", s')
      else if gname != "loop" || (splitItems pk).length != want.length then
        (.bad s!"delivered-count got={(splitItems pk).length} want={want.length}", s')
      else if !pktsMatch (splitItems pk) want then (.bad "session-frames-out loop", s')
      else if ge != e then (.bad s!"loop-end {ge} expected={e}", s')
      else (.ok, s')
  | "iter" :: stp :: _pp :: side :: _ =>
    match sLoop dlt false 0 (stp.toNat?.getD 0) [] (parseIdxKind side) (s.fr.length + 1) s 0 0 [] with
    | none => (.unspec, s)
    | some (want, e, s') =>
      let parts := gval.splitOn "/"
      let ge := parts.getLast!
      let pk := "/".intercalate parts.dropLast
      if ge.startsWith "escape:" then (.bad s!"loop-no-escape {ge}", s')
      else if gname != "iter" || (splitItems pk).length != want.length then
        (.bad s!"delivered-count got={(splitItems pk).length} want={want.length}", s')
      else if !pktsMatch (splitItems pk) want then (.bad "session-frames-out iter", s')
      else if ge != e then (.bad s!"loop-end {ge} expected={e}", s')
      else (.ok, s')
  | ["raw", v] => fixed "raw=ok" { s with raw := v == "1" }
  | ["filt", i] => fixed "filt=1" { s with filt := if i == "e" then none else i.toNat? }
  | ["bad", _] =>
    -- what is not a filter expression must be refused and must leave the installed filter alone
    (if got == "bad=0" then .ok else .bad s!"invalid-filter-accepted {got}", s)
  | ["meth", _] => fixed "meth=ok" s
  | ["mvc"] => fixed "mvc=ok" s                      -- a moved sniffer goes on where the old one was
  | ["mva"] => fixed "mva=ok" s
  | ["lt"] => fixed s!"lt={dlt}" s
  | ["ss"] => fixed "ss=ok" { s with brk := true }
  | _ => (.unspec, s)

def checkSession (st : OState) (ws : List String) (ow : List String) : String :=
  match specDlt st.tok with
  | none => "unspecified"
  | some dlt =>
  match kvOf ow "open" with
  | none => "violates unparsable-output"
  | some opn =>
    if st.size < 24 then (if opn.startsWith "throw:" then "ok" else "violates open-of-headerless-file")
    else if opn != "ok" then s!"violates open {opn}"
    else
    match kvOf ow "r", kvOf ow "live" with
    | some r, some live =>
      let (fr, _) := survivors st
      let script := match kvOf ws "s" with
        | none => []
        | some sc => (sc.splitOn ",").filter (· != "")
      let got := if r == "-" then [] else r.splitOn ";"
      if got.length != script.length then "violates unparsable-output" else
      let s0 : SSt := { fr := fr, filt := match kvOf ws "init" with | some "none" => none | none => none | some i => i.toNat? }
      let rec go (ps : List (String × String)) (s : SSt) : String :=
        match ps with
        | [] => if live != "0" then s!"violates pdu-leak live={live}" else "ok"
        | (tok, g) :: rest =>
          if g == "aborted" then "violates loop-no-escape aborted" else
          match checkTok dlt s tok g with
          | (.ok, s') => go rest s'
          | (.unspec, _) => "unspecified"
          | (.bad why, _) => s!"violates {why}"
      go (script.zip got) s0
    | _, _ => "violates unparsable-output"

def checkOffline (st : OState) (ow : List String) : String :=
  match ow with
  | ["offline", b] =>
    if st.size < 24 then "unspecified" else
    match (b.splitOn "=") with
    | ["bits", bits] =>
      let (fr, _) := survivors st
      let want := "".intercalate (fr.map (fun f => if f.ann.mo then "1" else "0"))
      let want := if want.isEmpty then "-" else want
      if bits == want then "ok" else s!"violates offline-filter want={want}"
    | _ => "violates unparsable-output"
  | "offline" :: "unsupported-link-type-token" :: _ => "unspecified"
  | _ => if st.size < 24 then "unspecified" else "violates offline-filter-escape"

def specStep (st : OState) (line : String) : OState × String :=
  match line.splitOn " ||| " with
  | [op, out] =>
    let ws := words ((op.splitOn " |f| ").headD "")
    let ow := words out
    match ws with
    | "file" :: tok :: _ =>
      let st' : OState := { tok := tok, unspecified := false }
      (st', if ow == ["file", "ok"] then "ok" else "violates writer-open")
    | "read" :: rest =>
      if st.unspecified || !st.closed then (st, "unspecified") else (st, checkRead st rest ow)
    | "session" :: rest =>
      if st.unspecified || !st.closed then (st, "unspecified") else (st, checkSession st rest ow)
    | "offline" :: _ =>
      if st.unspecified || !st.closed then (st, "unspecified") else (st, checkOffline st ow)
    | opw :: _how :: sec :: usec :: _hex :: rest =>
      if !(opw == "w" || opw == "wp" || opw == "wq" || opw == "wr-item") then (st, "unspecified") else
      if st.unspecified then (st, "unspecified") else
      match parseInt sec, parseInt usec, parseAnn rest with
      | some s, some u, some a =>
        match a.serThrow with
        | some _ => (st, "unspecified")              -- the serializer refused: not a C17 matter
        | none =>
          if opw == "wr-item" then
            match st.pending with
            | none => (st, "unspecified")
            | some ps =>
              if ow == ["wr-item", "ok"] then ({ st with pending := some (ps ++ [⟨s, u, a⟩]) }, "ok")
              else ({ st with unspecified := true }, "unspecified")
          else if ow == [opw, "ok"] then ({ st with frames := st.frames ++ [⟨s, u, a⟩] }, "ok")
          else ({ st with unspecified := true }, s!"violates write {" ".intercalate ow}")
      | _, _, _ => ({ st with unspecified := true }, "unspecified")
    | ["wr-begin", _] => if st.unspecified then (st, "unspecified") else ({ st with pending := some [] }, "ok")
    | ["wr-end"] =>
      if st.unspecified then (st, "unspecified") else
      match st.pending with
      | none => (st, "unspecified")
      | some ps =>
        -- every element of [begin, end) is written, in order
        let st' := { st with frames := st.frames ++ ps, pending := none }
        if ow == ["wr-end", s!"n={ps.length}"] then (st', "ok")
        else ({ st' with unspecified := true }, s!"violates write-range {" ".intercalate ow}")
    | ["wmv"] =>
      if st.unspecified then (st, "unspecified") else
      (st, if ow == ["wmv", "ok"] then "ok" else s!"violates writer-move {" ".intercalate ow}")
    | ["wma"] =>
      if st.unspecified then (st, "unspecified") else
      -- the file the target was writing is complete (a header, no record) and nothing leaks
      (st, if kvOf ow "other" == some "24" && kvOf ow "leak" == some "0" then "ok"
           else s!"violates writer-move {" ".intercalate ow}")
    | [closeOp] =>
      if closeOp != "close" && closeOp != "rotate" then (st, "unspecified") else
      if st.unspecified then (st, "unspecified") else
      if closeOp == "rotate" && kvOf ow "leak" != some "0" then
        ({ st with unspecified := true }, "violates writer-reassign-leak") else
      let want := 24 + (st.frames.map (fun f => 16 + f.ann.ser.length)).sum
      let st' := { st with size := want, closed := true }
      match (kvOf ow "size").bind (·.toNat?), (kvOf ow "snaplen").bind (·.toNat?), (kvOf ow "linktype").bind (·.toNat?) with
      | some sz, some snap, some lt =>
        if sz != want then (st', s!"violates file-size want={want}")
        else if (specDlt st.tok).map specLinktype != some lt then (st', s!"violates file-linktype got={lt}")
        else if st.frames.any (fun f => f.ann.ser.length > snap) then
          (st', s!"violates file-snaplen declared={snap}")
        else if kvOf ow "wall" != some "ok" then (st', s!"violates wall-clock-stamp {(kvOf ow "wall").getD "?"}")
        else (st', "ok")
      | _, _, _ => (st', "violates unparsable-output")
    | ["chop", k] =>
      match k.toNat? with
      | some k => ({ st with size := st.size - k }, "ok")
      | none => (st, "unspecified")
    | _ => (st, "unspecified")
  | _ => (st, "bad-line")

end Driver.C17
