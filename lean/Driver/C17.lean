import TinsModel.Capture.Spec
import Driver.Util
/- line-protocol driver for property C17: model mode (capture model) and spec mode (oracle on the implementation's
   output).  The op grammar is documented at the top of harness/c17_capture.cpp. -/
namespace Driver.C17
open Driver Tins Tins.Capture Tins.Gen.Capture

/-- annotation of one written frame: what the direct dissector calls and libpcap's filter say about it -/
structure Ann where
  ser : Bytes
  adv : Nat
  m : Bool            -- pcap_offline_filter with len = advertised size (what the sniffer's filter sees)
  mo : Bool           -- pcap_offline_filter with len = caplen (what OfflinePacketFilter sees)
  outs : List (String × String)     -- class ↦ outcome text
  serThrow : Option String := none

def kvOf (ws : List String) (key : String) : Option String :=
  ws.findSome? (fun w => if w.startsWith (key ++ "=") then some ((w.drop (key.length + 1)).toString) else none)

def parseInt (s : String) : Option Int :=
  if s.startsWith "-" then (s.drop 1).toString.toNat?.map (fun n => - (n : Int)) else s.toNat?.map (fun n => (n : Int))

def parseAnn (ws : List String) : Option Ann :=
  match kvOf ws "s" with
  | none => none
  | some s =>
    if s.startsWith "throw:" then
      some { ser := [], adv := 0, m := false, mo := false, outs := [], serThrow := some ((s.drop 6).toString) }
    else do
      let ser ← parseHex s
      let adv ← (kvOf ws "adv").bind (·.toNat?)
      let m ← kvOf ws "m"
      let mo ← kvOf ws "mo"
      let outs := ws.filterMap (fun w =>
        if w.startsWith "p:" then
          match ((w.drop 2).toString.splitOn "=") with
          | c :: rest => some (c, "=".intercalate rest)
          | _ => none
        else none)
      pure { ser := ser, adv := adv, m := m == "1", mo := mo == "1", outs := outs }

/-- outcome text ↦ `POut` with the PDU represented by its canonical description -/
def poutOf (s : String) : POut String :=
  if s.startsWith "ok:" then .ok ((s.drop 3).toString)
  else if s == "mal" then .throw .malformedPacket
  else if s.startsWith "exc:" then .throw (Exc.ofName ((s.drop 4).toString))
  else .throw (.other ("annotation:" ++ s))

def showTs (t : Timestamp) : String := s!"{t.seconds}.{t.microseconds}"

def joinOr (xs : List String) : String := if xs.isEmpty then "-" else ",".intercalate xs

/-- writer link-type token ↦ DLT through the generated tables (what the implementation's headers say) -/
def dltOfToken (tok : String) : Option Nat :=
  let v := (tok.drop 2).toString
  if tok.startsWith "E:" then (writerEnum.find? (·.1 == v)).map (·.2)
  else if tok.startsWith "T:" then (dataLinkTypes.find? (·.1 == v)).map (·.2)
  else if tok.startsWith "N:" then v.toNat?
  else none

def methodOf (s : String) : Method :=
  if s == "dispatch" then .dispatch else if s == "exact" then .exact else .loop

structure MState where
  dlt : Nat := 0
  tok : String := ""
  method : Method := .loop
  writing : Bool := false
  ws : List Written := []                     -- in write order
  anns : List ((Bytes × Nat) × Ann) := []     -- keyed by (captured bytes, wire length)
  file : Option Bytes := none

def initModel : MState := {}

def lookupAnn (st : MState) (f : Frame) : Option Ann :=
  (st.anns.find? (fun e => e.1.2 == f.len && e.1.1 == f.data)).map (·.2)

/-- the abstract dissector: by table look-up of the direct constructor call's outcome -/
def parseOracle (st : MState) (cls : String) (b : Bytes) : POut String :=
  match st.anns.find? (fun e => e.1.1 == b) with
  | none => .throw (.other "model-missing-annotation")
  | some e => match e.2.outs.find? (·.1 == cls) with
    | none => .throw (.other ("model-missing-annotation:" ++ cls))
    | some o => poutOf o.2

structure ReadOpts where
  api : String := "next"
  filt : String := "none"
  raw : Bool := false
  maxp : Nat := 0
  stop : Nat := 0
  thr : List (Nat × String) := []
  cbPdu : Bool := false
  tog : Nat := 0          -- api=next: `set_extract_raw_pdus(!raw)` after this many delivered packets (0 = never)

def parseReadOpts (ws : List String) : ReadOpts :=
  let thr := match kvOf ws "thr" with
    | none => []
    | some t => (t.splitOn ",").filterMap (fun item => match item.splitOn ":" with
      | [i, k] => i.toNat?.map (fun n => (n, k))
      | _ => none)
  { api := (kvOf ws "api").getD "next", filt := (kvOf ws "filt").getD "none", raw := kvOf ws "raw" == some "1",
    maxp := ((kvOf ws "max").bind (·.toNat?)).getD 0, stop := ((kvOf ws "stop").bind (·.toNat?)).getD 0,
    thr := thr, cbPdu := kvOf ws "cb" == some "pdu", tog := ((kvOf ws "tog").bind (·.toNat?)).getD 0 }

def usesFilter (o : ReadOpts) : Bool := o.filt == "cfg" || o.filt == "ctor" || o.filt == "post"

/-- the scripted functor of the harness -/
def scriptCb (o : ReadOpts) (hist : List (String × Timestamp)) (_p : String × Timestamp) : CbOut :=
  let i := hist.length
  match o.thr.find? (·.1 == i) with
  | some (_, "mal") => .throw .malformedPacket
  | some (_, "nf") => .throw .pduNotFound
  | _ => if o.stop != 0 && i + 1 == o.stop then .stop else .continue_

def showPkt (withTs : Bool) (p : String × Timestamp) : String :=
  (if withTs then showTs p.2 else "-") ++ ":" ++ p.1

def showEnd : End → String
  | .eof => "eof"
  | .escape e => "escape:" ++ e.name
  | .fault i n => s!"FAULT model read of byte {i} of {n}"

def modelRead (st : MState) (ws : List String) : String :=
  let o := parseReadOpts ws
  match st.file with
  | none => "read open=nofile"
  | some bytes =>
  match openFile bytes with
  | none => "read open=throw:pcap_error"
  | some op =>
    -- an expression libpcap cannot compile is refused: the constructors throw `invalid_pcap_filter`, `set_filter` returns false
    if kvOf ws "bad" == some "1" && usesFilter o then
      (if o.filt == "post" then "read open=ok set_filter=0" else "read open=throw:invalid_pcap_filter") else
    let pre := s!"read open=ok dlt={op.dlt}"
    let filter : Frame → Bool := fun f =>
      if usesFilter o then (match lookupAnn st f with | some a => a.m | none => false) else true
    let src : Source := ⟨op.frames, op.err⟩
    let fuel := op.frames.length + 2
    match selectHandler o.raw op.dlt with
    | .error e => s!"{pre} pkts=- end=escape:{e} rest=- end2=- live=0"
    | .ok hk =>
      match runHandler (parseOracle st) hk with
      | none => s!"{pre} model-unknown-handler"
      | some handler =>
        let drain := fun (s : Source) => sniffAll st.method filter handler fuel s
        if o.api == "next" then
          -- `next_packet` selects the handler on every call from the link type and the CURRENT raw mode: with tog=K the
          -- first K deliveries use this read's mode, everything after them the other one
          let r1 := if o.tog == 0 then drain src else sniffAll st.method filter handler o.tog src
          let r := if o.tog == 0 || r1.1.length < o.tog then r1 else
            match selectHandler (!o.raw) op.dlt with
            | .error e => (r1.1, End.escape (Exc.ofName e), r1.2.2)
            | .ok hk2 => match runHandler (parseOracle st) hk2 with
              | none => r1
              | some h2 =>
                let r2 := sniffAll st.method filter h2 fuel r1.2.2
                (r1.1 ++ r2.1, r2.2.1, r2.2.2)
          s!"{pre} pkts={joinOr (r.1.map (showPkt true))} end={showEnd r.2.1} rest=- end2=- live=0"
        else
          let isLoop := o.api == "loop"
          let catches := if isLoop then sniffLoopCatches else []
          let o' := if isLoop then o else { o with thr := [], maxp := 0 }
          let r := sniffLoop st.method filter handler catches (scriptCb o') fuel src o'.maxp []
          let first := joinOr (r.2.1.map (showPkt (!(isLoop && o.cbPdu))))
          let fin := fun (e1 : String) =>
            let d := drain r.2.2
            s!"{pre} pkts={first} end={e1} rest={joinOr (d.1.map (showPkt true))} end2={showEnd d.2.1} live=0"
          match r.1 with
          | .escape e => s!"{pre} pkts={first} end=escape:{e.name} rest=- end2=- live=0"
          | .cbEscape e => s!"{pre} pkts={first} end=escape:{e.name} rest=- end2=- live=0"
          | .fault i n => s!"{pre} pkts={first} end=FAULT model read of byte {i} of {n}"
          | .exhausted => fin (if isLoop then "returned" else "exhausted")
          | .stopped => fin (if isLoop then "returned" else "break")
          | .maxReached => fin "returned"

def modelOffline (st : MState) (_ws : List String) : String :=
  if !st.tok.startsWith "T:" then "offline unsupported-link-type-token" else
  match st.file with
  | none => "offline nofile"
  | some bytes =>
    match openFile bytes with
    | none => "offline bits= escape:pcap_error"
    | some op =>
      let bits := op.frames.map (fun f => match lookupAnn st f with
        | some a => if a.mo then "1" else "0"
        | none => "?")
      "offline bits=" ++ (if bits.isEmpty then "-" else "".intercalate bits)

def step (st : MState) (line : String) : MState × String :=
  let ws := words line
  match ws with
  | "file" :: tok :: meth :: _ =>
    match dltOfToken tok with
    | none => (st, "bad-op")
    | some d => ({ dlt := d, tok := tok, method := methodOf meth, writing := true }, "file ok")
  | "w" :: _how :: sec :: usec :: _hex :: rest =>
    if !st.writing then (st, "w nowriter") else
    match parseInt sec, parseInt usec, parseAnn rest with
    | some s, some u, some a =>
      match a.serThrow with
      | some e => (st, "w throw:" ++ e)
      | none =>
        let w : Written := { ts := Timestamp.ofTimeval ⟨s, u⟩, ser := a.ser, adv := a.adv }
        let r := writePacket w.ts w.ser w.adv
        ({ st with ws := st.ws ++ [w], anns := ((r.data, r.len), a) :: st.anns }, "w ok")
    | _, _, _ => (st, "bad-op")
  | ["close"] =>
    let bytes := writtenFile st.dlt st.ws
    ({ st with writing := false, file := some bytes },
     s!"close size={bytes.length} fnv={fnv bytes} snaplen={writerSnaplen} linktype={dltToLinktype st.dlt}")
  | ["rotate"] =>
    if !st.writing then (st, "rotate nowriter") else
    let bytes := writtenFile st.dlt st.ws
    ({ st with writing := false, file := some bytes },
     s!"rotate size={bytes.length} fnv={fnv bytes} snaplen={writerSnaplen} linktype={dltToLinktype st.dlt} leak=0")
  | ["chop", k] =>
    match st.file, k.toNat? with
    | some bytes, some k =>
      let n := bytes.length - k
      ({ st with file := some (bytes.take n) }, s!"chop size={n}")
    | _, _ => (st, "chop nofile")
  | "read" :: rest => (st, modelRead st rest)
  | "offline" :: rest => (st, modelOffline st rest)
  | _ => (st, "bad-op")

/-! ## spec mode: the oracle, evaluated on the implementation's own output -/

structure OFrame where
  sec : Int
  usec : Int
  ann : Ann

structure OState where
  tok : String := ""
  frames : List OFrame := []        -- frames whose `w` the implementation acknowledged, in order
  size : Nat := 0                   -- current size of the file (after chop)
  closed : Bool := false
  unspecified : Bool := true

def initSpec : OState := {}

/-- link types by their registered numbers (tcpdump.org link-layer header types), independent of libtins' headers -/
def specDlt (tok : String) : Option Nat :=
  match tok with
  | "E:ETH2" => some 1 | "E:DOT3" => some 1 | "E:SLL" => some 113 | "E:RADIOTAP" => some 127 | "E:DOT11" => some 105
  | "T:EthernetII" => some 1 | "T:Dot3" => some 1 | "T:SLL" => some 113 | "T:Loopback" => some 0
  | "T:PPI" => some 192 | "T:Dot11" => some 105 | "T:RadioTap" => some 127 | "T:IP" => some 12
  | _ => if tok.startsWith "N:" then (tok.drop 2).toString.toNat? else none

/-- LINKTYPE_ value a file header carries for a DLT (LINKTYPE_RAW = 101) -/
def specLinktype (dlt : Nat) : Nat := if dlt = 12 then 101 else dlt

/-- the dissector classes that can be meant by "the frame parses" for a link type; more than one = the standards
    leave the choice open (Ethernet length/type values 1501..2047, frames too short to carry the field) -/
def specClasses (dlt : Nat) (b : Bytes) : Option (List String) :=
  match dlt with
  | 1 =>
    match b[12]?, b[13]? with
    | some hi, some lo =>
      let v := hi.toNat * 256 + lo.toNat
      if v ≤ 1500 then some ["Dot3"] else if v ≥ 2048 then some ["EthernetII"] else some ["Dot3", "EthernetII"]
    | _, _ => some ["Dot3", "EthernetII"]
  | 0 => some ["Loopback"]
  | 113 => some ["SLL"]
  | 192 => some ["PPI"]
  | 127 => some ["RadioTap"]
  | 105 => some ["Dot11"]
  | 12 =>
    match b[0]? with
    | some x => if x.toNat / 16 = 4 then some ["IP"] else if x.toNat / 16 = 6 then some ["IPv6"] else some []
    | none => some []
  | _ => none

inductive Expect where
  | pkt (desc : String)      -- the frame must come back as this packet
  | skip                     -- the frame must be skipped
  | open_                    -- the property does not say

def expectOf (dlt : Nat) (raw : Bool) (a : Ann) : Expect :=
  if raw then .pkt s!"0/{a.ser.length}/{fnv a.ser}"        -- identical bytes, checked without the annotation
  else match specClasses dlt a.ser with
    | none => .open_
    | some [] => .skip
    | some cs =>
      let outs := cs.map (fun c => (a.outs.find? (·.1 == c)).map (·.2))
      match outs with
      | some o :: rest =>
        if rest.all (· == some o) then
          (if o.startsWith "ok:" then .pkt ((o.drop 3).toString) else .skip)
        else .open_
      | _ => .open_

/-- expected text of a packet; `none` when the time stamp is outside what the file format can hold -/
def expectTs (f : OFrame) : Option String :=
  let t := f.sec * 1000000 + f.usec
  if t < 0 then none
  else
    let n := t.toNat
    if n / 1000000 ≥ 2147483648 then none else some s!"{n / 1000000}.{n % 1000000}"

def survivors (st : OState) : List OFrame × Bool :=
  -- the frames wholly inside the first `size` bytes, and whether the file ends exactly at a record boundary
  let rec go (fs : List OFrame) (off : Nat) (acc : List OFrame) : List OFrame × Bool :=
    match fs with
    | [] => (acc.reverse, true)
    | f :: rest =>
      let nxt := off + 16 + f.ann.ser.length
      if nxt ≤ st.size then go rest nxt (f :: acc) else (acc.reverse, off == st.size)
  go st.frames 24 []

def splitItems (s : String) : List String := if s == "-" then [] else s.splitOn ","

def checkRead (st : OState) (ws : List String) (ow : List String) : String :=
  let o := parseReadOpts ws
  match specDlt st.tok with
  | none => "unspecified"
  | some dlt =>
  match kvOf ow "open" with
  | none => "violates unparsable-output"
  | some opn =>
    if st.size < 24 then (if opn.startsWith "throw:" then "ok" else "violates open-of-headerless-file")
    else if kvOf ws "bad" == some "1" && usesFilter o then
      -- what is not a filter expression selects nothing: it must be refused, not installed
      (if (o.filt == "post" && opn == "ok" && kvOf ow "set_filter" == some "0") || (o.filt != "post" && opn == "throw:invalid_pcap_filter")
       then "ok" else s!"violates invalid-filter-accepted open={opn}")
    else if opn != "ok" then s!"violates open {opn}"
    else if kvOf ow "dlt" != some (toString dlt) then s!"violates link-type expected={dlt}"
    else
    match kvOf ow "pkts", kvOf ow "end", kvOf ow "rest", kvOf ow "end2", kvOf ow "live" with
    | some pk, some e1, some rs, some e2, some live =>
      if e1.startsWith "escape:" then s!"violates loop-no-escape {e1}"
      else if e2.startsWith "escape:" then s!"violates loop-no-escape {e2}"
      else if !(e1 == "eof" || e1 == "returned" || e1 == "exhausted" || e1 == "break") then s!"violates clean-end {e1}"
      else if !(e2 == "eof" || e2 == "-") then s!"violates clean-end {e2}"
      else if live != "0" then s!"violates pdu-leak live={live}"
      else
        let (fr, _) := survivors st
        let fr := fr.filter (fun f => !usesFilter o || f.ann.m)
        -- tog=K (api=next): the raw mode in force for a frame is the one set when `next_packet` reaches it — this read's
        -- mode until K packets were delivered, the other one afterwards
        let rec goExp (fs : List OFrame) (mode : Bool) (cnt : Nat) : List (Expect × Option String) :=
          match fs with
          | [] => []
          | f :: rest =>
            let e := expectOf dlt mode f.ann
            let delivered := match e with | .pkt _ => true | _ => false
            let cnt' := if delivered then cnt + 1 else cnt
            let mode' := if o.tog != 0 && o.api == "next" && delivered && cnt' == o.tog then !mode else mode
            (e, expectTs f) :: goExp rest mode' cnt'
        let exps := goExp fr o.raw 0
        if exps.any (fun e => match e.1 with | .open_ => true | _ => false) then "unspecified" else
        let want := exps.filterMap (fun e => match e.1 with | .pkt d => some (d, e.2) | _ => none)
        let first := splitItems pk
        let got := first ++ splitItems rs
        if got.length != want.length then s!"violates frames-out count got={got.length} want={want.length}"
        else
          let bad := (got.zip want).findIdx? (fun (g, (d, ts)) =>
            match g.splitOn ":" with
            | t :: gdParts =>
              let gd := ":".intercalate gdParts
              gd != d || (match ts with | some x => t != x && t != "-" | none => false)
            | _ => true)
          match bad with
          | some i => s!"violates frames-out packet#{i}"
          | none =>
            -- how many packets the functor / loop body must have seen
            let n := want.length
            let k :=
              if o.api == "next" then n
              else
                let isLoop := o.api == "loop"
                let rec cnt (i : Nat) (fuel : Nat) : Nat :=
                  match fuel with
                  | 0 => i
                  | fuel + 1 =>
                    if i ≥ n then n
                    else
                      let thrown := isLoop && o.thr.any (·.1 == i)
                      if !thrown && o.stop != 0 && i + 1 == o.stop then i + 1
                      else if isLoop && o.maxp != 0 && i + 1 == o.maxp then i + 1
                      else cnt (i + 1) fuel
                cnt 0 (n + 1)
            if first.length != k then s!"violates delivered-count got={first.length} want={k}" else "ok"
    | _, _, _, _, _ => "violates unparsable-output"

def checkOffline (st : OState) (ow : List String) : String :=
  match ow with
  | ["offline", b] =>
    if st.size < 24 then "unspecified" else
    match (b.splitOn "=") with
    | ["bits", bits] =>
      let (fr, _) := survivors st
      let want := "".intercalate (fr.map (fun f => if f.ann.mo then "1" else "0"))
      let want := if want.isEmpty then "-" else want
      if bits == want then "ok" else s!"violates offline-filter want={want}"
    | _ => "violates unparsable-output"
  | "offline" :: "unsupported-link-type-token" :: _ => "unspecified"
  | _ => if st.size < 24 then "unspecified" else "violates offline-filter-escape"

def specStep (st : OState) (line : String) : OState × String :=
  match line.splitOn " ||| " with
  | [op, out] =>
    let ws := words op
    let ow := words out
    match ws with
    | "file" :: tok :: _ =>
      let st' : OState := { tok := tok, unspecified := false }
      (st', if ow == ["file", "ok"] then "ok" else "violates writer-open")
    | "w" :: _how :: sec :: usec :: _hex :: rest =>
      if st.unspecified then (st, "unspecified") else
      match parseInt sec, parseInt usec, parseAnn rest with
      | some s, some u, some a =>
        match a.serThrow with
        | some _ => (st, "unspecified")              -- the serializer refused: not a C17 matter
        | none =>
          if ow == ["w", "ok"] then ({ st with frames := st.frames ++ [⟨s, u, a⟩] }, "ok")
          else ({ st with unspecified := true }, s!"violates write {" ".intercalate ow}")
      | _, _, _ => ({ st with unspecified := true }, "unspecified")
    | [closeOp] =>
      if closeOp != "close" && closeOp != "rotate" then (st, "unspecified") else
      if st.unspecified then (st, "unspecified") else
      if closeOp == "rotate" && kvOf ow "leak" != some "0" then
        ({ st with unspecified := true }, "violates writer-reassign-leak") else
      let want := 24 + (st.frames.map (fun f => 16 + f.ann.ser.length)).sum
      let st' := { st with size := want, closed := true }
      match (kvOf ow "size").bind (·.toNat?), (kvOf ow "snaplen").bind (·.toNat?), (kvOf ow "linktype").bind (·.toNat?) with
      | some sz, some snap, some lt =>
        if sz != want then (st', s!"violates file-size want={want}")
        else if (specDlt st.tok).map specLinktype != some lt then (st', s!"violates file-linktype got={lt}")
        else if st.frames.any (fun f => f.ann.ser.length > snap) then
          (st', s!"violates file-snaplen declared={snap}")
        else (st', "ok")
      | _, _, _ => (st', "violates unparsable-output")
    | ["chop", k] =>
      match k.toNat? with
      | some k => ({ st with size := st.size - k }, "ok")
      | none => (st, "unspecified")
    | "read" :: rest =>
      if st.unspecified || !st.closed then (st, "unspecified") else (st, checkRead st rest ow)
    | "offline" :: _ =>
      if st.unspecified || !st.closed then (st, "unspecified") else (st, checkOffline st ow)
    | _ => (st, "unspecified")
  | _ => (st, "bad-line")

end Driver.C17
