import TinsModel.Matching.Refine
import Driver.Util
/- line-protocol driver for property C14 (response matching).

   op lines:
     layout                      -> the header sizes / constants the model assumes
     m <stack> <reply hex>       -> r=0 | r=1 | FAULT <site> <need> <len>
   <stack> = layers joined by '/', outermost first; a layer is `name` or `name:key=hex,key=hex,…`
   (keys the model does not need — the API-level fields the harness builds the object from — are ignored). -/
namespace Driver.C14
open Driver Tins Tins.Matching

def kvs (s : String) : List (String × String) :=
  (s.splitOn ",").filterMap fun kv => match kv.splitOn "=" with
    | [k, v] => some (k, v)
    | _ => none

def getHex (m : List (String × String)) (k : String) : Option Bytes :=
  (m.lookup k).bind parseHex

def getByte (m : List (String × String)) (k : String) : Option UInt8 :=
  match getHex m k with
  | some [b] => some b
  | _ => none

def parseLayer (s : String) : Option Layer :=
  let (name, args) := match s.splitOn ":" with
    | [n] => (n, "")
    | [n, a] => (n, a)
    | _ => ("?", "")
  let m := kvs args
  match name with
  | "eth" => do pure (.eth (← getHex m "src") (← getHex m "dst"))
  | "dot3" => do pure (.dot3 (← getHex m "src") (← getHex m "dst"))
  | "dot1q" => do pure (.dot1q (← getHex m "tci"))
  | "ip" => do pure (.ip (← getHex m "hdr"))
  | "ipv6" => do pure (.ipv6 (← getHex m "src") (← getHex m "dst"))
  | "tcp" => do pure (.tcp (← getHex m "sp") (← getHex m "dp"))
  | "udp" => do pure (.udp (← getHex m "sp") (← getHex m "dp"))
  | "icmp" => do pure (.icmp (← getByte m "type") (← getHex m "id") (← getHex m "seq"))
  | "icmpv6" => do pure (.icmpv6 (← getByte m "type") (← getHex m "id") (← getHex m "seq"))
  | "dns" => do pure (.dns (← getHex m "id"))
  | "bootp" => do pure (.bootp (← getHex m "xid"))
  | "dhcp" => do pure (.bootp (← getHex m "xid"))
  | "dhcpv6" => do pure (.dhcpv6 (← getHex m "hdr"))
  | "radiotap" => some .radiotap
  | "loopback" => do pure (.loopback (← getHex m "family"))
  | "arp" => do pure (.arp (← getHex m "spa") (← getHex m "tpa"))
  | "raw" => some .raw
  | "other" => some .other
  | "sll" => some .other          -- SLL keeps PDU::matches_response
  | "cacher" => some .cacher
  | _ => none

def parseStack (s : String) : Option (List Layer) := (s.splitOn "/").mapM parseLayer

def showOut : Out Bool → String
  | .ok true => "r=1"
  | .ok false => "r=0"
  | .fault site need len => s!"FAULT model:{site} need={need} len={len}"

def layoutLine : String :=
  "layout eth=14 dot3=14 dot1q=4 ip=20 ipv6=40 tcp=20 udp=8 icmp=8 icmpv6=8 dns=12 bootp=236 dhcpv6=4 " ++
  "radiotap=4 loopback=4 arp=28 icmp.echo=8/0 icmp.ts=13/14 icmp.mask=17/18 icmp.unreach=3 icmpv6.echo=128/129 " ++
  "icmpv6.rs=133/134 icmpv6.ns=135/136 ip.proto.icmp=1 ext=0,43,44,59,60,135"

def step (st : Unit) (line : String) : Unit × String :=
  match words line with
  | ["layout"] => (st, layoutLine)
  | "m" :: stack :: reply :: _ =>
    match parseStack stack, parseHex reply with
    | some s, some b => (st, showOut (matchStack s b))
    | _, _ => (st, "bad-op")
  | _ => (st, "bad-op")

/-- spec mode: `<op> ||| <implementation output>` -/
def specStep (st : Unit) (line : String) : Unit × String :=
  match line.splitOn " ||| " with
  | [op, out] =>
    match words op with
    | ["layout"] => (st, if out.trimAscii.toString == layoutLine then "ok layout" else "violates layout-assumption")
    | "m" :: stack :: reply :: _ =>
      match parseStack stack, parseHex reply with
      | some s, some b =>
        -- PDUCacher is not a protocol layer: the specification sees the wrapped stack
        match toSpec? (s.filter (· != Layer.cacher)) with
        | none => (st, "unspecified outside-fragment")
        | some r =>
          let o := out.trimAscii.toString
          match demand r b with
          | .unspec =>
            -- RFC 8200 §4.5, receiver side: the reserved octet of a fragment header is ignored (KF-C14-5)
            if demandRFC r b == .accept then
              (st, if o == "r=1" then "ok accept rfc-view" else s!"violates fragment_reserved_ignored accept got {o}")
            else if demandRFC r b == .reject then
              (st, if o == "r=0" then "ok reject rfc-view" else s!"violates fragment_reserved_ignored reject got {o}")
            else (st, "unspecified")
          | .accept => (st, if o == "r=1" then "ok accept" else s!"violates mirror_accepted got {o}")
          | .reject => (st, if o == "r=0" then "ok reject" else s!"violates stranger_rejected got {o}")
      | _, _ => (st, "bad-op")
    | _ => (st, "bad-op")
  | _ => (st, "bad-line")

def initModel : Unit := ()
def initSpec : Unit := ()

end Driver.C14
