import TinsModel.Tcp.Spec
import Driver.Util
/- line-protocol driver for DataTracker: model mode and spec (oracle) mode -/
namespace Driver.C06
open Tins Tins.DT Driver

def showState (r : String) (t : Tracker) : String :=
  let chunks := (sortByKey t.buf).map (fun (k, d) => s!"{k}:{toHex d}")
  s!"{r} seq={t.seq} total={t.total} plen={t.payload.length} ph={fnv t.payload} buf={joinWith "," chunks}"

def step (t : Tracker) (line : String) : Tracker × String :=
  match words line with
  | "init" :: n :: _ => match n.toNat? with
    | some k => let t' := Tracker.init k; (t', showState "init" t')
    | none => (t, "bad-op")
  | "seg" :: n :: h :: _ => match n.toNat?, parseHex h with
    | some k, some d => let (t', r) := processPayload t k d; (t', showState (if r then "r=1" else "r=0") t')
    | _, _ => (t, "bad-op")
  | "adv" :: n :: _ => match n.toNat? with
    | some k => let t' := advanceSequence t k; (t', showState "adv" t')
    | none => (t, "bad-op")
  | _ => (t, "bad-op")

end Driver.C06

namespace Driver.C06
open Tins Tins.DT Driver

/-- oracle state: stream, isn, arrival history, and whether the case left the specified fragment -/
structure OState where
  s : Bytes := []
  isn : Nat := 0
  h : List Seg := []
  unspecified : Bool := true

def kv (ws : List String) (key : String) : Option String :=
  ws.findSome? (fun w => if w.startsWith (key ++ "=") then some ((w.drop (key.length + 1)).toString) else none)

def parseBuf (s : String) : Option Chunks :=
  if s == "" then some [] else
  (s.splitOn ",").mapM (fun item => match item.splitOn ":" with
    | [k, h] => do let k ← k.toNat?; let d ← parseHex h; pure (k, d)
    | _ => none)

def parseInt (s : String) : Option Int :=
  if s.startsWith "-" then (s.drop 1).toString.toNat?.map (fun n => - (n : Int)) else s.toNat?.map (fun n => (n : Int))

/-- spec mode: each input line is `<op> ||| <implementation output>` -/
def specStep (st : OState) (line : String) : OState × String :=
  match line.splitOn " ||| " with
  | [op, out] =>
    let ow := words out
    let st' : OState := match words op with
      | ["init", n, h] => match n.toNat?, parseHex h with
        | some isn, some s => { s := s, isn := isn, h := [], unspecified := false }
        | _, _ => { st with unspecified := true }
      | ["seg", _, h, off] => match parseHex h, parseInt ((off.drop 1).toString) with
        | some d, some o => { st with h := ⟨o, d.length⟩ :: st.h }
        | _, _ => { st with unspecified := true }
      | _ => { st with unspecified := true }
    if st'.unspecified then (st', "unspecified") else
    match (kv ow "seq").bind (·.toNat?), (kv ow "total").bind (·.toNat?), (kv ow "plen").bind (·.toNat?),
          (kv ow "ph").bind (·.toNat?), (kv ow "buf").bind parseBuf with
    | some seq, some total, some plen, some ph, some buf =>
      let k := frontier st'.h st'.s.length
      let pref := st'.s.take k
      if plen != k || ph != (fnv pref).toNat then (st', s!"violates delivered-prefix k={k} plen={plen}")
      else if specOK st'.s st'.isn st'.h ⟨seq, total, pref, buf⟩ then (st', "ok")
      else (st', s!"violates buffered-state k={k}")
    | _, _, _, _, _ => (st', "violates unparsable-output")
  | _ => (st, "bad-line")

def initModel : Tracker := Tracker.init 0
def initSpec : OState := {}

end Driver.C06
