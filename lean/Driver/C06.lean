import TinsModel.Tcp.Spec
import TinsModel.Follower.Model
import TinsModel.Tcp.Legacy
import Driver.C06Sessions
import Driver.Util
/- line-protocol driver for C06: model mode and spec (oracle) mode.
   Three op families, one per harness:
     init/seg/adv                         DataTracker            (harness/c06_tracker.cpp)
     finit/fseg/fsegp/fbare/fadv/fignore/fpkt/fpktp  Flow::process_packet, through the C07 model of the Flow state machine
                                          (TinsModel/Follower/Model.lean `SF.Flow`; harness/c06_flow.cpp)
     linit/lseg/lsegp/lbare               legacy TCPStreamFollower (harness/c06_legacy.cpp)
     minit/mconn/mpkt/mpktp               its session table, any number of connections (Driver/C06Sessions.lean) -/
namespace Driver.C06
open Tins Tins.DT Driver

structure MState where
  t : Tracker := Tracker.init 0
  flow : SF.Flow := SF.Flow.init false 0 80 0
  lc : LStream := LStream.init 0
  ls : LStream := LStream.init 0
  fol : LFollower := {}

def showState (r : String) (t : Tracker) : String :=
  s!"{r} seq={t.seq} total={t.total} plen={t.payload.length} ph={fnv t.payload} buf={showChunks t.buf}"

def showLegacy (r : Bool) (st : MState) : String :=
  s!"r={if r then 1 else 0} end=0 c={showDir st.lc} s={showDir st.ls}"

def stateNum : SF.FState → Nat
  | .unknown => 0 | .synSent => 1 | .established => 2 | .finSent => 3 | .rstSent => 4

/-- `<r> ooo=<n> st=<state> seq=.. total=.. plen=.. ph=.. buf=..` (harness/c06_flow.cpp) -/
def showFlowState (r : String) (ooo : Bool) (f : SF.Flow) : String :=
  showState s!"{r} ooo={if ooo then 1 else 0} st={stateNum f.state}" f.tr

/-- the packet the flow harness builds: `IP(10.0.0.2 <- 10.0.0.1) / TCP(80 <- 4321, seq, flags) [/ RawPDU]`, no options -/
def flowPkt (flags seq : Nat) (payload : Option Bytes) : SF.Pkt :=
  { v6 := false, src := 167772161, sport := 4321, dst := 167772162, dport := 80, flags := flags, seq := seq, ack := 0,
    payload := payload, mss := none, sackOk := false, ts := 0 }

def flowStep (st : MState) (flags seq : Nat) (payload : Option Bytes) : MState × String :=
  let r := st.flow.processPacket (flowPkt flags seq payload)
  ({ st with flow := r.1 }, showFlowState (if r.2.2 then "r=1" else "r=0") r.2.1.isSome r.1)

def step (st : MState) (line : String) : MState × String :=
  match stepSessions st.fol (words line) with
  | some (f, out) => ({ st with fol := f }, out)
  | none =>
  match words line with
  | "init" :: n :: _ => match n.toNat? with
    | some k => let t' := Tracker.init k; ({ st with t := t' }, showState "init" t')
    | none => (st, "bad-op")
  | "seg" :: n :: h :: _ => match n.toNat?, parseHex h with
    | some k, some d =>
      let (t', r) := processPayload st.t k d
      ({ st with t := t' }, showState (if r then "r=1" else "r=0") t')
    | _, _ => (st, "bad-op")
  | "adv" :: n :: _ => match n.toNat? with
    | some k => let t' := advanceSequence st.t k; ({ st with t := t' }, showState "adv" t')
    | none => (st, "bad-op")
  -- Flow (the C07 model of the state machine; `fseg` etc. carry the ACK flag only)
  | "finit" :: n :: _ => match n.toNat? with
    | some k => let f := SF.Flow.init false 167772162 80 k; ({ st with flow := f }, showFlowState "finit" false f)
    | none => (st, "bad-op")
  | "fseg" :: n :: h :: _ => match n.toNat?, parseHex h with
    | some k, some d => flowStep st 16 k (some d)
    | _, _ => (st, "bad-op")
  | "fsegp" :: n :: h :: _ => match n.toNat?, parseHex h with
    -- a parsed TCP segment without payload bytes has no RawPDU layer
    | some k, some d => flowStep st 16 k (if d.isEmpty then none else some d)
    | _, _ => (st, "bad-op")
  | "fbare" :: n :: _ => match n.toNat? with
    | some k => flowStep st 16 k none
    | none => (st, "bad-op")
  | "fpkt" :: fl :: n :: h :: _ => match fl.toNat?, n.toNat?, (if h == "~" then some none else (parseHex h).map some) with
    | some fl, some k, some pl => flowStep st (fl % 4096) k pl
    | _, _, _ => (st, "bad-op")
  | "fpktp" :: fl :: n :: h :: _ => match fl.toNat?, n.toNat?, (if h == "~" then some none else (parseHex h).map some) with
    | some fl, some k, some pl => flowStep st (fl % 4096) k (match pl with | some [] => none | x => x)
    | _, _, _ => (st, "bad-op")
  | "fadv" :: n :: _ => match n.toNat? with
    | some k =>
      let f : SF.Flow := { st.flow with tr := advanceSequence st.flow.tr k }
      ({ st with flow := f }, showFlowState "fadv" false f)
    | none => (st, "bad-op")
  | "fignore" :: _ =>
    let f : SF.Flow := { st.flow with ignoreData := true }; ({ st with flow := f }, showFlowState "fignore" false f)
  -- legacy follower
  | "linit" :: c :: s :: _ => match c.toNat?, s.toNat? with
    | some c, some s =>
      let st' := { st with lc := LStream.init c, ls := LStream.init s }
      (st', showLegacy false st')
    | _, _ => (st, "bad-op")
  | op :: dir :: n :: rest =>
    if op == "lseg" || op == "lsegp" || op == "lbare" then
      let payload : Option Bytes :=
        if op == "lbare" then none else
        match rest with
        | h :: _ => match parseHex h with
          | some d => if op == "lsegp" && d.isEmpty then none else some d
          | none => none
        | [] => none
      match n.toNat?, payload with
      | some k, some d =>
        if dir == "c" then
          let (t', r) := genericProcess st.lc k d
          let st' := { st with lc := t' }; (st', showLegacy r st')
        else
          let (t', r) := genericProcess st.ls k d
          let st' := { st with ls := t' }; (st', showLegacy r st')
      | some _, none => (st, showLegacy false st)
      | none, _ => (st, "bad-op")
    else (st, "bad-op")
  | _ => (st, "bad-op")

end Driver.C06

namespace Driver.C06
open Tins Tins.DT Driver

/-- oracle state: stream, isn, arrival history, and whether the case left the specified fragment -/
structure OState where
  s : Bytes := []
  isn : Nat := 0
  h : List Seg := []
  /-- `frontier h s.length`, followed incrementally (`frontier_cons_advance` in TinsModel/Tcp/LemmasRefine.lean) -/
  k : Nat := 0
  unspecified : Bool := true
  fol : OFol := {}
  /-- Flow: no segment with SYN, FIN or RST has been seen since the flow was created (`Flow::state() == UNKNOWN`) -/
  flowUnknown : Bool := true

/-- what one operation means for the spec: a new stream, an arrival, no arrival, or "outside the spec" -/
inductive OpKind
  | start (isn : Nat) (s : Bytes)
  | arrival (off : Int) (len : Nat) (checkOoo : Bool) (noPayloadLayer : Bool)
  | nothing          -- packet without payload layer: nothing may change, no callback may fire
  | other            -- other direction of the legacy stream: the specified direction must not change
  | leave

def opKind (ws : List String) : OpKind :=
  let arrival (h off : String) (flow parsed : Bool) : OpKind :=
    match parseHex h, parseInt ((off.drop 1).toString) with
    | some d, some o => .arrival o d.length flow (parsed && d.isEmpty)
    | _, _ => .leave
  match ws with
  | ["init", n, h] | ["finit", n, h] | ["linit", n, _, h] =>
    match n.toNat?, parseHex h with
    | some isn, some s => .start isn s
    | _, _ => .leave
  | ["seg", _, h, off] => arrival h off false false
  | ["fseg", _, h, off] => arrival h off true false
  | ["fsegp", _, h, off] => arrival h off true true
  | ["lseg", "c", _, h, off] => arrival h off false false
  | ["lsegp", "c", _, h, off] => arrival h off false true
  | ["fbare", _] | ["lbare", "c", _] => .nothing
  | "lseg" :: "s" :: _ | "lsegp" :: "s" :: _ | "lbare" :: "s" :: _ => .other
  | _ => .leave

/-- `fpkt <flags> <seq> <hex|~> [@off]` (Flow): the first segment with SYN (and neither FIN nor RST) opens the flow — the expected
    sequence number becomes its sequence number + 1, which is specified here for a flow that has not seen data yet — and the
    payload of ANY segment, whatever its flags and whatever the state, is an arrival at the offset its sequence number names
    (one past the sequence number of a SYN segment) -/
def flowPktKind (st : OState) (ws : List String) : Option (OState × OpKind) :=
  match ws with
  | op :: fl :: seq :: h :: rest =>
    if op == "fpkt" || op == "fpktp" then
      match fl.toNat?, seq.toNat? with
      | some fl, some seq =>
        let syn := fl.testBit 1
        let fin := fl.testBit 0
        let rst := fl.testBit 2
        let opens := syn && !fin && !rst && st.flowUnknown
        let st1 : OState := if syn || fin || rst then { st with flowUnknown := false } else st
        if opens && !st.h.isEmpty then some ({ st1 with unspecified := true }, .leave) else
        let st2 : OState := if opens then { st1 with isn := wrap32 (seq + 1) } else st1
        let kind : OpKind :=
          if h == "~" then .nothing else
          match rest with
          | [off] =>
            match parseHex h, parseInt ((off.drop 1).toString) with
            | some d, some o => .arrival o d.length true (op == "fpktp" && d.isEmpty)
            | _, _ => .leave
          | _ => .leave
        some (st2, kind)
      | _, _ => none
    else none
  | _ => none

/-- the observable state printed by a harness, in the tracker's vocabulary -/
structure Seen where
  r : Option Bool
  ooo : Option Nat
  seq : Nat
  total : Option Nat
  plen : Nat
  ph : Nat
  buf : List (Nat × ChunkRepr)

def parseSeen (out : String) : Option Seen :=
  let ow := words out
  let r : Option Bool := if ow.contains "r=1" then some true else if ow.contains "r=0" then some false else none
  match kv ow "c" with
  | some c =>   -- legacy: c=<seq>/<plen>/<fnv>/<frags>
    match c.splitOn "/" with
    | [seq, plen, ph, fr] => do
      let seq ← seq.toNat?; let plen ← plen.toNat?; let ph ← ph.toNat?; let buf ← parseBuf fr
      pure { r := r, ooo := none, seq := seq, total := none, plen := plen, ph := ph, buf := buf }
    | _ => none
  | none => do
    let seq ← (kv ow "seq").bind (·.toNat?)
    let total ← (kv ow "total").bind (·.toNat?)
    let plen ← (kv ow "plen").bind (·.toNat?)
    let ph ← (kv ow "ph").bind (·.toNat?)
    let buf ← (kv ow "buf").bind parseBuf
    pure { r := r, ooo := (kv ow "ooo").bind (·.toNat?), seq := seq, total := some total, plen := plen, ph := ph, buf := buf }

/-- spec mode: each input line is `<op> ||| <implementation output>` -/
def specStep (st : OState) (line : String) : OState × String :=
  match line.splitOn " ||| " with
  | [op, out] =>
    match specSessions st.fol (words op) out with
    | some (f, verdict) => ({ st with fol := f }, verdict)
    | none =>
    let (st, kind) := (flowPktKind st (words op)).getD (st, opKind (words op))
    let kOld := st.k
    let st' : OState := match kind with
      | .start isn s => { s := s, isn := isn, h := [], k := 0, unspecified := false }
      | .arrival o len _ _ =>
        let h' := ⟨o, len⟩ :: st.h
        { st with h := h', k := advanceFrom h' st.s.length (st.s.length + 1) st.k }
      | .nothing | .other => st
      | .leave => { st with unspecified := true }
    if st'.unspecified then (st', "unspecified") else
    match parseSeen out with
    | none => (st', "violates unparsable-output")
    | some seen =>
      let k := st'.k
      let pref := st'.s.take k
      if seen.plen != k || seen.ph != (fnv pref).toNat then (st', s!"violates delivered-prefix k={k} plen={seen.plen}")
      else
        let buf : Chunks := seen.buf.map (resolveChunk st'.s k seen.seq)
        let total := seen.total.getD (buf.map (fun c => c.2.length)).sum   -- the legacy stream has no counter
        if !specOKat st'.s st'.isn k ⟨seen.seq, total, pref, buf⟩ then (st', s!"violates buffered-state k={k}")
        else
          -- callbacks: the data callback / `true` result exactly when the delivered prefix grew; the
          -- out-of-order callback exactly when the segment lies entirely below the delivery point or starts above it
          let wantR : Option Bool := match kind with
            | .arrival _ _ _ _ => some (decide (kOld < k))
            | .nothing => some false
            | _ => none
          let wantOoo : Option Nat := match kind with
            | .arrival o len true noLayer =>
              some (if !noLayer && (decide (o + (len : Int) < (kOld : Int)) || decide ((kOld : Int) < o)) then 1 else 0)
            | .nothing => some 0
            | _ => none
          match wantR, seen.r with
          | some w, some g =>
            if w != g then (st', s!"violates data-callback grew={w} fired={g} k={k}")
            else match wantOoo, seen.ooo with
              | some wo, some go =>
                if wo != go then (st', s!"violates out-of-order-callback want={wo} got={go} k={k}") else (st', "ok")
              | some _, none => (st', "ok")
              | none, _ => (st', "ok")
          | some _, none => (st', "violates unparsable-output")
          | none, _ => (st', "ok")
  | _ => (st, "bad-line")

def initModel : MState := {}
def initSpec : OState := {}

end Driver.C06
