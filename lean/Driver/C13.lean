import TinsModel.Lookup.Model
import TinsModel.Lookup.Spec
import TinsModel.Gen.PduClasses
import Driver.Util
import Std.Data.HashMap
/- line-protocol driver for C13 (look-up and casts): model mode and spec (oracle) mode.

   ops:  row <K> | pair <K> <T> | chain <K1,..,Kn> <T> | ser <K1,..,Kn> | counts
   model mode prints what the code-shaped model (TinsModel/Lookup/Model.lean over the generated table) predicts the
   harness prints; spec mode reads `<op> ||| <implementation output>` and judges the implementation's own answers
   against the property (a successful look-up must point at an object that really is a T — `dyn`/`isa` come from
   dynamic_cast in the harness — and an exact-class search must succeed). -/
namespace Driver.C13
open Tins.Lookup Tins.Gen.PduClasses Driver

def tbl : Table := classes

def nameMap : Std.HashMap String Nat :=
  (tbl.zipIdx).foldl (fun m (r, i) => m.insert r.name i) {}

def idxOf (n : String) : Option Nat := nameMap[n]?

/-- distinct enumerator values in ascending order, plus one user-defined value (the harness probes the same list) -/
def probeFlags : List Nat :=
  let vs := (pduTypeEnum.map (·.2)) ++ [1001]
  let sorted := vs.foldl (fun acc v =>
    if acc.contains v then acc else
    let (lo, hi) := acc.partition (· < v)
    lo ++ [v] ++ hi) []
  sorted

def showOpt (o : Option Nat) : String := match o with | some v => toString v | none => "?"
def bit (b : Bool) : String := if b then "1" else "0"
def showB (o : Option Bool) : String := match o with | some b => bit b | none => "?"

def parseChain (s : String) : Option (List Nat) := (s.splitOn ",").mapM idxOf

def rowLine (K : Nat) : String :=
  let ask := askableB tbl K
  let conc := concreteB tbl K
  if !ask && !conc then "bad-op" else
  let flag := if ask then showOpt (staticFlag tbl K) else "-"
  if !conc then s!"row flag={flag} abstract=1 type=- acc=-" else
  let acc := probeFlags.filterMap (fun f => match matchesFlag tbl K f with
    | some true => some (toString f)
    | some false => none
    | none => some s!"?{f}")
  s!"row flag={flag} abstract=0 type={showOpt (pduType tbl K)} acc={if acc.isEmpty then "-" else joinWith "," acc}"

def pairLine (K T : Nat) : String :=
  if !concreteB tbl K || !askableB tbl T then "bad-op" else
  let find := findPdu1 tbl K T
  let cast := tinsCast tbl K T
  let ptr := match find with | some true => "same" | some false => "null" | none => "?"
  let rfind := match find with | some true => "ok" | some false => "pdu_not_found" | none => "?"
  let rcast := match tinsCastRef tbl K T with
    | some (.ok _) => "ok" | some (.error _) => "bad_tins_cast" | none => "?"
  s!"pair find={showB find} ptr={ptr} cfind={showB find} rfind={rfind} cast={showB cast} rcast={rcast} dyn={bit (isAB tbl K T)} exact={bit (K == T)}"

def chainLine (chain : List Nat) (T : Nat) : String :=
  if !(chain.all (concreteB tbl)) || chain.isEmpty || !askableB tbl T then "bad-op" else
  match staticFlag tbl T with
  | none => "chain find=?"
  | some f =>
    let r := findPduChain tbl f chain
    let find := match r with | some i => toString i | none => "none"
    let rfind := match rfindPduChain tbl f chain with | .ok _ => "ok" | .error _ => "pdu_not_found"
    let isa := String.join (chain.map (fun K => bit (isAB tbl K T)))
    let exact := String.join (chain.map (fun K => bit (K == T)))
    s!"chain find={find} rfind={rfind} isa={isa} exact={exact} links=1"

def step (st : Unit) (line : String) : Unit × String :=
  match words line with
  | ["row", k] => match idxOf k with
    | some K => (st, rowLine K)
    | none => (st, "bad-op")
  | ["pair", k, t] => match idxOf k, idxOf t with
    | some K, some T => (st, pairLine K T)
    | _, _ => (st, "bad-op")
  | ["chain", ks, t] => match parseChain ks, idxOf t with
    | some c, some T => (st, chainLine c T)
    | _, _ => (st, "bad-op")
  | ["ser", ks] => match parseChain ks with
    | some c => (st, if c.all (concreteB tbl) && !c.isEmpty then "ser ok" else "bad-op")
    | none => (st, "bad-op")
  | ["counts"] =>
    let k := ((List.range tbl.length).filter (concreteB tbl)).length
    let t := ((List.range tbl.length).filter (askableB tbl)).length
    (st, s!"counts K={k} T={t} classes={tbl.length}")
  | _ => (st, "bad-op")

/-! ### oracle -/

def kv (ws : List String) (key : String) : Option String :=
  ws.findSome? (fun w => if w.startsWith (key ++ "=") then some ((w.drop (key.length + 1)).toString) else none)

def isWrapperName (n : String) : Bool := n.startsWith "PDUCacher<"

def unwrapName (n : String) : String :=
  if isWrapperName n && n.endsWith ">" then ((n.drop 10).dropEnd 1).toString else n

/-- label of a soundness violation: is it explained by the wrapper forwarding the wrapped class's identity? -/
def soundClause (k t : String) : String :=
  if isWrapperName k || isWrapperName t then
    match idxOf (unwrapName k), idxOf (unwrapName t) with
    | some K, some T => if isAB tbl K T then "sound-wrapper-forwarding" else "sound"
    | _, _ => "sound"
  else "sound"

def bitsOf (s : String) : List Bool := s.toList.map (· == '1')

def specStep (st : Unit) (line : String) : Unit × String :=
  match line.splitOn " ||| " with
  | [op, out] =>
    let ow := words out
    if out.startsWith "FAULT" || out.startsWith "SKIP" || out.startsWith "throw" || out.startsWith "bad-op" then
      (st, "unspecified") else
    match words op with
    | ["row", _] =>
      match kv ow "flag", kv ow "abstract", kv ow "acc" with
      | some f, some a, some acc =>
        if a == "1" || f == "-" then (st, "ok")
        else if (acc.splitOn ",").contains f then (st, "ok")
        else (st, s!"violates self-flag flag={f} acc={acc}")
      | _, _, _ => (st, "violates unparsable-output")
    | ["pair", k, t] =>
      match kv ow "find", kv ow "cast", kv ow "dyn", kv ow "exact", kv ow "rfind", kv ow "rcast", kv ow "cfind", kv ow "ptr" with
      | some find, some cast, some dyn, some exact, some rfind, some rcast, some cfind, some ptr =>
        let found := find == "1"
        let casted := cast == "1"
        if !(soundOutcome found casted (dyn == "1")) then
          let via := if found && casted then "both" else if found then "find" else "cast"
          (st, s!"violates {soundClause k t} K={k} T={t} via={via}")
        else if !(selfOutcome (exact == "1") found) then (st, s!"violates self K={k}")
        else if (rfind == "ok") != found || (rcast == "ok") != casted || (cfind == "1") != found
             || (ptr == "same") != found || (ptr == "null") == found then
          (st, s!"violates helpers-consistent K={k} T={t}")
        else (st, "ok")
      | _, _, _, _, _, _, _, _ => (st, "violates unparsable-output")
    | ["chain", ks, t] =>
      match kv ow "find", kv ow "isa", kv ow "exact", kv ow "rfind", kv ow "links" with
      | some find, some isa, some exact, some rfind, some links =>
        if links != "1" then (st, "unspecified") else
        let isaB := bitsOf isa
        let exB := bitsOf exact
        let names := ks.splitOn ","
        let firstExact := exB.findIdx? (· == true)
        if find == "outside" then (st, "violates sound-outside-chain")
        else
        let fi := find.toNat?
        let soundOk := match fi with
          | some i => isaB.getD i false
          | none => true
        if !soundOk then
          (st, s!"violates {soundClause (names.getD (fi.getD 0) "?") t} K={names.getD (fi.getD 0) "?"} T={t} via=find at={fi.getD 0}")
        else
        let selfOk := match firstExact with
          | some j => (match fi with | some i => decide (i ≤ j) | none => false)
          | none => true
        if !selfOk then (st, s!"violates self T={t}")
        else if (rfind == "ok") != fi.isSome then (st, s!"violates helpers-consistent T={t}")
        else (st, "ok")
      | _, _, _, _, _ => (st, "violates unparsable-output")
    | ["ser", _] => (st, "ok")
    | ["parsed", _, _] =>
      -- objects built by the (buffer, size) constructors: whatever header they hold, no helper may hand back a layer
      -- as a T it is not (the implementation's own dynamic_cast is the judge)
      if out.startsWith "parsed throw" || out.startsWith "parsed noctor" then (st, "ok") else
      match kv ow "bad" with
      | some "-" => (st, "ok")
      | some b => (st, s!"violates sound-parsed {b.take 160}")
      | none => (st, "violates unparsable-output")
    | ["counts"] => (st, "ok")
    | _ => (st, "unspecified")
  | _ => (st, "bad-line")

def initModel : Unit := ()
def initSpec : Unit := ()

end Driver.C13
