import TinsModel.Address.Model
import TinsModel.Address.Spec
import Driver.Util
/- line-protocol driver for property C16 (address types): model mode and spec (oracle) mode.
   The op lines are documented in harness/c16_address.cpp. -/
namespace Driver.C16
open Driver Tins.Addr

/-- iteration budget; must equal CAP in harness/c16_address.cpp -/
def cap : Nat := 66000

/-- optional trailing `[cap]` argument of the iterating ops -/
def capOf (rest : List String) : Nat := (rest.head?.bind (·.toNat?)).getD cap

def hexN (s : String) : Option (List Nat) := (parseHex s).map (·.map (·.toNat))
def toHexN (bs : List Nat) : String := toHex (bs.map UInt8.ofNat)
def b2s (b : Bool) : String := if b then "1" else "0"
def fnvN (bss : List (List Nat)) : UInt64 :=
  bss.foldl (fun h bs => bs.foldl (fun h b => (h ^^^ UInt64.ofNat b) * 1099511628211) h) 14695981039346656037

/-- `memcpy` of four bytes into / out of a little-endian `uint32_t` (harness side of the IPv4 API boundary) -/
def leLoad : List Nat → Nat
  | [b0, b1, b2, b3] => b0 + b1 * 256 + b2 * 65536 + b3 * 16777216
  | _ => 0
def leStore (v : Nat) : List Nat := [v % 256, v / 256 % 256, v / 65536 % 256, v / 16777216 % 256]

def v4In (bs : List Nat) : Nat := V4.ofU32 (leLoad bs)
def v4Out (a : Nat) : List Nat := leStore (V4.toU32 a)

/-- the family-specific pieces the generic op interpreter needs -/
structure Family (A : Type) where
  n : Nat
  ops : Ops A
  dec : List Nat → A
  enc : A → List Nat
  gt : A → A → Bool
  bor : A → A → A
  bnot : A → A
  hash : A → String
  parse : List Nat → Option A              -- constructor from text; `none` = invalid_address
  fmt : A → Option (List Nat)              -- to_string(); `none` = invalid_address
  slash : A → Int → Slash A
  showMask : A → String

def fam4 : Family Nat where
  n := 4
  ops := v4Ops
  dec := v4In
  enc := v4Out
  gt := V4.gt
  bor := V4.bor
  bnot := V4.bnot
  hash := fun a => toString (V4.hash a)
  parse := fun s => V4.parse (s.takeWhile (· != 0))
  fmt := fun a => some (V4.fmt a)
  slash := slash4I
  showMask := fun m => toHexN (v4Out m)

/-- `v6 = true`: IPv6Address (text through the inet_pton / inet_ntop reference model, C string = up to the first NUL);
    `v6 = false`: HWAddress<k> -/
def famBuf (k : Nat) (hashed : Bool) (v6 : Bool) : Family Buf where
  n := k
  ops := bufOps
  dec := id
  enc := id
  gt := B.gt
  bor := B.bor
  bnot := B.bnot
  hash := fun a => if hashed then toString (B.hash6 a) else "-"
  parse := fun s => if v6 then V6.parse (s.takeWhile (· != 0)) else B.parseHw k s
  fmt := fun a => if v6 then V6.toString a else some (B.fmtHw a)
  slash := slashBufI k
  showMask := fun m => if v6 then toHexN m else "-"

def showIter {A} (f : Family A) (r : Range A) (cap : Nat) : String :=
  if !r.isIterable f.ops then "it=0" else
  let (vis, fin) := r.iterate f.ops cap
  let bs := vis.map f.enc
  let fst := match bs.head? with | some b => toHexN b | none => "-"
  let lst := match bs.getLast? with | some b => toHexN b | none => "-"
  s!"it=1 n={bs.length} ov={b2s (!fin)} f={fst} l={lst} h={fnvN bs}"

def showEnds {A} (f : Family A) (r : Range A) : String :=
  s!"first={toHexN (f.enc r.first)} last={toHexN (f.enc r.last)}"

def addr {A} (f : Family A) (h : String) : Option A := do
  let b ← hexN h
  if b.length == f.n then some (f.dec b) else none

def runModel {A} (f : Family A) (w : List String) : String :=
  let o := f.ops
  let hx := fun (a : A) => toHexN (f.enc a)
  match w with
  | "cmp" :: _ :: a :: b :: _ => match addr f a, addr f b with
    | some a, some b =>
      let lt := o.lt a b; let gt := f.gt a b
      s!"lt={b2s lt} gt={b2s gt} le={b2s (!gt)} ge={b2s (!lt)} eq={b2s (o.eq a b)} ne={b2s (!o.eq a b)} hash={f.hash a} heq={b2s (f.hash a == f.hash b && (f.hash a != "-" || o.eq a b))}"
    | _, _ => "bad-op"
  | "bit" :: _ :: a :: b :: _ => match addr f a, addr f b with
    | some a, some b => s!"and={hx (o.band a b)} or={hx (f.bor a b)} not={hx (f.bnot a)}"
    | _, _ => "bad-op"
  | "txt" :: _ :: t :: _ => match hexN t with
    | some s => match f.parse s with
      | some a => s!"ok {hx a}"
      | none => "throw invalid_address"
    | none => "bad-op"
  | "fmt" :: _ :: a :: _ => match addr f a with
    | some a =>
      match f.fmt a with
      | none => "throw invalid_address"
      | some s =>
        -- the text is parsed back with the same constructor
        let back := match f.parse s with | some b => hx b | none => "throw:invalid_address"
        s!"s={toHexN s} back={back}"
    | none => "bad-op"
  | "pfx" :: _ :: a :: p :: rest => match addr f a, p.toInt? with
    | some a, some p => match f.slash a p with
      | .logicError => "throw logic_error"
      | .invalidRange => "throw invalid_range"
      | .ok m r => s!"mask={f.showMask m} {showEnds f r} {showIter f r (capOf rest)}"
    | _, _ => "bad-op"
  | "msk" :: _ :: a :: m :: rest => match addr f a, addr f m with
    | some a, some m => match Range.fromMask o a m with
      | none => "throw invalid_range"
      | some r => s!"{showEnds f r} {showIter f r (capOf rest)}"
    | _, _ => "bad-op"
  | "rng" :: _ :: a :: b :: oh :: rest => match addr f a, addr f b with
    | some a, some b => match Range.make o a b (oh == "1") with
      | none => "throw invalid_range"
      | some r => showIter f r (capOf rest)
    | _, _ => "bad-op"
  | "has" :: _ :: a :: b :: x :: _ => match addr f a, addr f b, addr f x with
    | some a, some b, some x => match Range.make o a b false with
      | none => "throw invalid_range"
      | some r => s!"c={b2s (r.contains o x)}"
    | _, _, _ => "bad-op"
  | "inc" :: _ :: a :: _ => match addr f a with
    | some a => let (a', r) := o.inc a; s!"a={hx a'} r={b2s r}"
    | none => "bad-op"
  | "dec" :: _ :: a :: _ => match addr f a with
    | some a => let (a', r) := o.dec a; s!"a={hx a'} r={b2s r}"
    | none => "bad-op"
  | _ => "bad-op"

def step (st : Unit) (line : String) : Unit × String :=
  let w := words line
  match w with
  | _ :: "4" :: _ => (st, runModel fam4 w)
  | _ :: "6" :: _ => (st, runModel (famBuf 16 true true) w)
  | _ :: "h" :: _ => (st, runModel (famBuf 6 false false) w)
  | _ => (st, "bad-op")

def initModel : Unit := ()

/-! ## spec (oracle) mode: `<op> ||| <implementation output>` -/
open Tins.Addr.Spec

def kv (ws : List String) (key : String) : Option String :=
  ws.findSome? (fun w => if w.startsWith (key ++ "=") then some ((w.drop (key.length + 1)).toString) else none)

def famN (f : String) : Option Nat :=
  if f == "4" then some 4 else if f == "6" then some 16 else if f == "h" then some 6 else none

def numOf (n : Nat) (h : String) : Option Nat := do
  let b ← hexN h
  if b.length == n then some (val b) else none

def hexOf (n v : Nat) : String := toHexN (bytesOf n v)

/-- expect `key=<expected>` in the output -/
def want (ow : List String) (key expected : String) : Option String :=
  match kv ow key with
  | some v => if v == expected then none else some s!"violates {key} expected={expected} got={v}"
  | none => some s!"violates {key} missing"

def firstBad : List (Option String) → String
  | [] => "ok"
  | some e :: _ => e
  | none :: r => firstBad r

/-- the iteration part of an output against the range `[first, last]` / hosts of it -/
def checkIter (cap n first last : Nat) (oh : Bool) (ow : List String) : Option String :=
  match kv ow "it" with
  | none => some "violates iterable missing"
  | some it =>
    let itb := it == "1"
    match iterableSpec first last oh with
    | some b => if b != itb then some s!"violates iterable expected={b2s b} got={it}" else
      if !itb then none else checkVisited cap n first last oh ow
    | none => if !itb then none else checkVisited cap n first last oh ow
where
  checkVisited (cap n first last : Nat) (oh : Bool) (ow : List String) : Option String :=
    let total := iterCount first last oh
    let cnt := min total cap
    let start := iterStart first oh
    let bs := (List.range' start cnt).map (bytesOf n)
    match want ow "n" (toString cnt) with
    | some e => some (e.replace "violates n" "violates iteration-count")
    | none =>
      match want ow "ov" (b2s (decide (total > cap))) with
      | some e => some (e.replace "violates ov" "violates iteration-terminates")
      | none =>
        let f := if cnt == 0 then "-" else hexOf n start
        let l := if cnt == 0 then "-" else hexOf n (start + cnt - 1)
        match want ow "f" f, want ow "l" l, want ow "h" (toString (fnvN bs)) with
        | some e, _, _ => some (e.replace "violates f" "violates iteration-first")
        | _, some e, _ => some (e.replace "violates l" "violates iteration-last")
        | _, _, some e => some (e.replace "violates h" "violates iteration-sequence")
        | _, _, _ => none

def isThrow (out : String) : Bool := out.startsWith "throw" || out.startsWith "FAULT"

def specLine (op out : String) : String :=
  let w := words op
  let ow := words out
  match w with
  | name :: fam :: args =>
    match famN fam with
    | none => "unspecified"
    | some n =>
      let num := numOf n
      match name, args with
      | "cmp", a :: b :: _ => match num a, num b with
        | some a, some b =>
          firstBad [want ow "lt" (b2s (decide (a < b))), want ow "gt" (b2s (decide (a > b))),
                    want ow "le" (b2s (decide (a ≤ b))), want ow "ge" (b2s (decide (a ≥ b))),
                    want ow "eq" (b2s (decide (a = b))), want ow "ne" (b2s (decide (a ≠ b))),
                    if a = b then (want ow "heq" "1").map (·.replace "violates heq" "violates hash-consistent") else none]
        | _, _ => "unspecified"
      | "bit", a :: b :: _ => match num a, num b with
        | some a, some b =>
          firstBad [want ow "and" (hexOf n (Nat.land a b)), want ow "or" (hexOf n (Nat.lor a b)),
                    want ow "not" (hexOf n (card n - 1 - a))]
        | _, _ => "unspecified"
      | "txt", t :: _ => match hexN t with
        | some s =>
          if s.contains 0 then "unspecified" else
          let exp : Option (Option (List Nat)) :=
            if fam == "4" then some (parse4 s)
            else if fam == "h" then some (Spec.parseHw 6 s)
            else some (parse6 s)
          match exp with
          | none => "unspecified"
          | some (some a) => if out == s!"ok {toHexN a}" then "ok" else s!"violates text-accept expected=ok {toHexN a}"
          | some none => if out == "throw invalid_address" then "ok" else "violates text-reject expected=throw invalid_address"
        | none => "unspecified"
      | "fmt", a :: _ => match hexN a with
        | some ab =>
          let s := if fam == "4" then some (toHexN (fmt4 ab)) else if fam == "h" then some (toHexN (Spec.fmtHw ab))
                   else some (toHexN (fmt6 ab))
          -- what the printed text denotes according to the reference grammar (independent of the implementation's parser)
          let denotes : Option String := match (kv ow "s").bind hexN with
            | none => none
            | some txt =>
              let d := if fam == "4" then parse4 txt else if fam == "h" then Spec.parseHw 6 txt else parse6 txt
              if d == some ab then none
              else some s!"violates text-denotes expected={a} got={match d with | some b => toHexN b | none => "not-an-address"}"
          firstBad [if isThrow out then some s!"violates text-format-throws {out}" else none,
                    (want ow "back" a).map (·.replace "violates back" "violates text-roundtrip"),
                    match s with | some s => (want ow "s" s).map (·.replace "violates s" "violates text-form") | none => none,
                    denotes]
        | none => "unspecified"
      | "pfx", a :: p :: rest => match num a, p.toInt? with
        | some a, some pi =>
          let p := pi.toNat
          if pi < 0 then (if out == "throw logic_error" then "ok" else "violates prefix-negative expected=throw logic_error")
          else if p > 8 * n then (if out == "throw logic_error" then "ok" else "violates prefix-too-long expected=throw logic_error")
          else if isThrow out then s!"violates prefix-range-throws {out}" else
          let first := prefixFirst n a p
          let last := prefixLast n a p
          firstBad [if fam == "h" then none else want ow "mask" (hexOf n (Spec.prefixMask n p)),
                    want ow "first" (hexOf n first), want ow "last" (hexOf n last),
                    -- prefix ranges: iterable exactly when there is a host, i.e. p ≤ 8n - 2
                    (want ow "it" (b2s (decide (p + 2 ≤ 8 * n)))).map (·.replace "violates it" "violates prefix-iterable"),
                    checkIter (capOf rest) n first last true ow]
        | _, _ => "unspecified"
      | "msk", a :: m :: rest => match num a, num m with
        | some a, some m =>
          if isThrow out then s!"violates mask-range-throws {out}" else
          let first := maskFirst a m
          let last := maskLast n a m
          firstBad [want ow "first" (hexOf n first), want ow "last" (hexOf n last), checkIter (capOf rest) n first last true ow]
        | _, _ => "unspecified"
      | "rng", a :: b :: oh :: rest => match num a, num b with
        | some a, some b =>
          if b < a then (if out == "throw invalid_range" then "ok" else "violates range-order expected=throw invalid_range")
          else if isThrow out then s!"violates range-throws {out}"
          else firstBad [checkIter (capOf rest) n a b (oh == "1") ow]
        | _, _ => "unspecified"
      | "has", a :: b :: x :: _ => match num a, num b, num x with
        | some a, some b, some x =>
          if b < a then (if out == "throw invalid_range" then "ok" else "violates range-order expected=throw invalid_range")
          else firstBad [(want ow "c" (b2s (Spec.contains a b x))).map (·.replace "violates c" "violates contains")]
        | _, _, _ => "unspecified"
      | "inc", a :: _ => match num a with
        | some a => firstBad [(want ow "a" (hexOf n ((a + 1) % card n))).map (·.replace "violates a" "violates increment")]
        | none => "unspecified"
      | "dec", a :: _ => match num a with
        | some a => firstBad [(want ow "a" (hexOf n ((a + card n - 1) % card n))).map (·.replace "violates a" "violates decrement")]
        | none => "unspecified"
      | _, _ => "unspecified"
  | _ => "unspecified"

def specStep (st : Unit) (line : String) : Unit × String :=
  match line.splitOn " ||| " with
  | [op, out] => (st, specLine op out.trimAscii.toString)
  | _ => (st, "bad-line")

def initSpec : Unit := ()

end Driver.C16
