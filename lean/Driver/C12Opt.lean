import TinsModel.Ownership.OptSpec
import Driver.Util
/- line protocol of the storage-level `PDUOption` model (property C12, harness/c12_option.cpp):

     sinit n cap | send
     snull i code len | sdata i code len fill | srange i code len fill | sadv i code adv len fill
     scopy i j | smove i j | sassign i j | smassign i j | sdel i | sread i
     vpush j | vmove j | verase k | vpop

   output: `<status> blocks=<live heap blocks> bytes=<their total size> | <slot> | …`,
   slot = `-` | `code:length_field:data_size:<hex, or #fnv64 when longer than 32 bytes>` -/
namespace Driver.C12Opt
open Driver Tins.OptStore

def nat? (s : String) : Option Nat := s.toNat?

def fillBytes (len fill : Nat) : Bytes := (List.range len).map (fun k => (fill + k) % 256)

def parseOp (ws : List String) : Option Op :=
  match ws with
  | ["sinit", n, c] => do pure (.init (← nat? n) (← nat? c))
  | ["send"] => some .fin
  | ["snull", i, c, l] => do pure (.newNull (← nat? i) (← nat? c) (← nat? l))
  | ["sdata", i, c, l, f] => do pure (.newData (← nat? i) (← nat? c) (fillBytes (← nat? l) (← nat? f)))
  | ["srange", i, c, l, f] => do pure (.newRange (← nat? i) (← nat? c) (fillBytes (← nat? l) (← nat? f)))
  | ["sadv", i, c, a, l, f] => do pure (.newAdv (← nat? i) (← nat? c) (← nat? a) (fillBytes (← nat? l) (← nat? f)))
  | ["scopy", i, j] => do pure (.copy (← nat? i) (← nat? j))
  | ["smove", i, j] => do pure (.move (← nat? i) (← nat? j))
  | ["sassign", i, j] => do pure (.assign (← nat? i) (← nat? j))
  | ["smassign", i, j] => do pure (.massign (← nat? i) (← nat? j))
  | ["sdel", i] => do pure (.del (← nat? i))
  | ["sread", i] => do pure (.read (← nat? i))
  | ["vpush", j] => do pure (.vpush (← nat? j))
  | ["vmove", j] => do pure (.vpushMove (← nat? j))
  | ["verase", k] => do pure (.verase (← nat? k))
  | ["vpop"] => some .vpop
  | _ => none

def isStorageLine (ws : List String) : Bool :=
  match ws.head? with
  | some w => ["sinit", "send", "snull", "sdata", "srange", "sadv", "scopy", "smove", "sassign", "smassign", "sdel", "sread",
               "vpush", "vmove", "verase", "vpop"].contains w
  | none => false

def showData (d : Bytes) : String :=
  if d.length ≤ 32 then toHex (d.map UInt8.ofNat) else s!"#{(fnv (d.map UInt8.ofNat)).toNat}"

def showV (v : Option VOpt) : String :=
  match v with
  | none => "-"
  | some v => s!"{v.code}:{v.len}:{v.data.length}:{showData v.data}"

/-- the constructor is handed more than 65535 bytes -/
def throwsOf : Op → Bool
  | .newData _ _ d => d.length > 65535
  | .newRange _ _ d => d.length > 65535
  | .newAdv _ _ _ d => d.length > 65535
  | _ => false

def statusOf (op : Op) : String :=
  if throwsOf op then "throw:option_payload_too_large" else
  match op with
  | .init .. => "init"
  | .fin => "end"
  | _ => "ok"

/-! ### model mode -/

def showPool (status : String) (σ : Pool) : String :=
  let slots := (List.range σ.objs.length).map (fun i =>
    match σ.obj? i with
    | none => "-"
    | some _ => match σ.view i with
      | some v => showV (some v)
      | none => "!unreadable")
  s!"{status} blocks={σ.live} bytes={σ.liveBytes}" ++ slots.foldl (fun acc s => acc ++ " | " ++ s) ""

def step (σ : Pool) (line : String) : Pool × String :=
  match parseOp (words line) with
  | none => (σ, "bad-op")
  | some op =>
    match Tins.OptStore.step σ op with
    | none => (σ, showPool "illformed" σ)
    | some σ' =>
      if σ'.faults > σ.faults then (σ, "FAULT model: released / wild / indeterminate storage accessed, or released twice")
      else (σ', showPool (statusOf op) σ')

/-! ### spec (oracle) mode -/

structure OState where
  A : SState := {}
  prev : List String := []       -- the slots as the implementation printed them after the previous line
  started : Bool := false

def kvNat (ws : List String) (key : String) : Option Nat :=
  ws.findSome? (fun w => if w.startsWith (key ++ "=") then (w.drop (key.length + 1)).toString.toNat? else none)

def expectedBlocks (A : SState) : Nat × Nat :=
  A.opts.foldl (fun acc o => match o with
    | some v => if v.data.length > 8 then (acc.1 + 1, acc.2 + v.data.length) else acc
    | none => acc) (0, 0)

/-- first slot where the observed line differs from what the clause demands -/
def firstDiff (want got : List String) : Option (Nat × String × String) :=
  ((List.range want.length).zip (want.zip got)).findSome? (fun x => if x.2.1 != x.2.2 then some (x.1, x.2.1, x.2.2) else none)

def specStep (o : OState) (line : String) : OState × String :=
  match line.trimAscii.toString.splitOn " ||| " with
  | [opS, out] =>
    match parseOp (words opS) with
    | none => (o, "unspecified")
    | some op =>
      if out.startsWith "FAULT" || out == "SKIP" then ({ o with started := false }, "unspecified") else
      let parts := out.splitOn " | "
      let head := words (parts.headD "")
      let status := head.headD ""
      let got := parts.drop 1
      let isInit := match op with | .init .. => true | _ => false
      if !o.started && !isInit then (o, "unspecified") else
      match kvNat head "blocks", kvNat head "bytes" with
      | some blocks, some bytes =>
        let lost : OState := { o with started := false }
        match o.A.step op with
        | none =>
          if status != "illformed" then (lost, "violates option-wellformedness refused operation executed")
          else if got != o.prev then (lost, "violates option_copy_independent a refused operation changed a slot")
          else (o, "ok")
        | some E =>
          let want := E.opts.map showV
          let (eb, ey) := expectedBlocks E
          if status != statusOf op then (lost, s!"violates option-status want={statusOf op} got={status}")
          else if want.length != got.length then (lost, "violates unparsable-output")
          else
            match firstDiff want got with
            | some (k, w, g) =>
              let (nu, vl) := (o.A.nuser, o.A.vlen)
              if touches nu vl op k then (lost, s!"violates option_value_refines slot={k} want={w} got={g}")
              else (lost, s!"violates option_copy_independent slot={k} want={w} got={g}")
            | none =>
              if blocks != eb || bytes != ey then
                (lost, s!"violates option_storage_inv blocks={blocks} bytes={bytes} want-blocks={eb} want-bytes={ey}")
              else ({ A := E, prev := got, started := true }, "ok")
      | _, _ => (o, "violates unparsable-output")
  | _ => (o, "bad-line")

end Driver.C12Opt
