import Driver.Wire
import Driver.WireSpec
/- property C02: model mode = the shared wire driver; spec mode = Driver.WireSpec.spec02 -/
namespace Driver.C02
open Driver

def step := Wire.step
def initModel : Wire.State := {}
def specStep := WireSpec.spec02
def initSpec : WireSpec.SState := {}

end Driver.C02
