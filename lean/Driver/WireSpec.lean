import Driver.Util
import TinsModel.Wire.Iface
/-
  Spec oracles of C01–C04 on the implementation's own output lines (`<op> ||| <impl line>`).
  They are structural: they read only the canonical line, never the model.
-/
namespace Driver.WireSpec
open Driver Tins Tins.Wire

structure SState where
  dummy : Unit := ()
  /-- C04, object half: (layer index, setter name, value) of the verbatim byte-string setters applied since `new`,
      latest first -/
  sets : List (Nat × String × String) := []
  /-- layers whose option list was edited through the raw interface (add / remove by code): not tracked any more -/
  poison : List Nat := []
  /-- C04, codec half: (layer index, setter name) of every typed setter that was accepted since `new` (first call only) -/
  typed : List (Nat × String) := []
  /-- C04, codec half, values: (layer index, class, dump field, expected dump) recorded with the FIRST accepted call of a
      typed setter whose arguments are representable (`typedExpect`); later calls of the same setter add options the typed
      getter does not look at -/
  typedVals : List (Nat × String × String × String) := []
  /-- the classes pushed since `new`, outermost first (`set <idx>` counts from the outermost layer) -/
  classes : List String := []
  /-- (layer index, option code) edited through the raw interface where the class has a code table (`codeOf`): only the
      typed getter of that code is not tracked any more -/
  poisonCodes : List (Nat × Nat) := []
  /-- (layer index, setter) called with an argument the option cannot express (accepted all the same): the option it added
      shadows what later calls of the setter add, so the setter is not tracked any more on that layer -/
  poisonNames : List (Nat × String) := []

structure Layer where
  cls : String
  fields : List (String × String)
  hdr : Nat
  trl : Nat

def parseLayer (s : String) : Option Layer := do
  -- Cls{f=v;f=v}[h,t]
  let (cls, rest) ← match s.splitOn "{" with
    | [c, r] => some (c, r)
    | _ => none
  let (fs, ht) ← match rest.splitOn "}[" with
    | [f, h] => some (f, h)
    | _ => none
  let ht := (ht.dropEnd 1).toString
  let (h, t) ← match ht.splitOn "," with
    | [h, t] => do pure ((← h.toNat?), (← t.toNat?))
    | _ => none
  let fields := if fs == "" then [] else (fs.splitOn ";").map (fun kv =>
    match kv.splitOn "=" with
    | [k, v] => (k, v)
    | _ => (kv, ""))
  pure ⟨cls, fields, h, t⟩

def parseChainStr (s : String) : Option (List Layer) := (s.splitOn "/").mapM parseLayer

def kv (ws : List String) (key : String) : Option String :=
  ws.findSome? (fun w => if w.startsWith (key ++ "=") then some ((w.drop (key.length + 1)).toString) else none)

/-- the view of a chain: derived (`~`) fields dropped; a tag (`^`) field kept only when an unrecognised,
    non-empty payload follows; an empty RawPDU payload counts as no payload -/
def viewOf (ls : List Layer) : List (String × List (String × String)) :=
  let ls := ls.filter (fun l => !(l.cls == "RawPDU" && l.fields == [("payload", "-")]))
  let rec go : List Layer → List (String × List (String × String))
    | [] => []
    | l :: rest =>
      let rawFollows := match rest with
        | r :: _ => r.cls == "RawPDU"
        | [] => false
      let fs := l.fields.filter (fun p =>
        if p.1.startsWith "~" then false
        else if p.1.startsWith "^" then rawFollows
        else true)
      (l.cls, fs) :: go rest
  go ls

/-- split a chain into (layers above the innermost RawPDU, that payload's hex or "" when there is none) -/
def splitRaw (ls : List Layer) : List Layer × String :=
  match ls.getLast? with
  | some l =>
    if l.cls == "RawPDU" then
      (ls.dropLast, match l.fields with
        | [("payload", "-")] => ""
        | [("payload", h)] => h
        | _ => "")
    else (ls, "")
  | none => ([], "")

/-- C03's comparison: equal views, where the zero bytes a link layer appended as minimum-frame padding
    (`pad` = the trailer sizes of the serialized packet) may show up as at most `pad` extra zero bytes at the end
    of the innermost payload of the re-parsed packet ("alignment padding may differ") -/
def sameView (ls qs : List Layer) : Bool :=
  let pad := (ls.map (·.trl)).sum
  let (pl, pr) := splitRaw ls
  let (ql, qr) := splitRaw qs
  -- a tag of the last non-raw layer must survive only when a non-empty unrecognised payload follows it in `p`
  let keepLastTag := pr != ""
  let strip (xs : List Layer) : List (String × List (String × String)) :=
    let n := xs.length
    (xs.zip (List.range n)).map (fun (l, i) =>
      (l.cls, l.fields.filter (fun f =>
        if f.1.startsWith "~" then false
        else if f.1.startsWith "^" then (i + 1 == n && keepLastTag)
        else true)))
  strip pl == strip ql &&
  qr.startsWith pr &&
  (let extra := (qr.drop pr.length).toString
   extra.length ≤ 2 * pad && extra.all (· == '0')) &&
  -- without padding in play the payloads must be identical
  (pad > 0 || qr == pr)

def implParts (line : String) : Option (String × String × String) :=
  match line.splitOn " ||| " with
  | [op, out] =>
    match out.splitOn " || " with
    | [common, extra] => some (op, common, extra)
    | [common] => some (op, common, "")
    | _ => none
  | _ => none

def isMalformedName (e : String) : Bool :=
  e == "malformed_packet" || e == "dns_decompression_pointer_loops" || e == "dns_decompression_pointer_out_of_bounds"

/-- C01: a parsing entry point yields a packet or `malformed_packet`; accessors may fail only with libtins exceptions;
    nothing leaks -/
def spec01 (st : SState) (line : String) : SState × String :=
  match implParts line with
  | none => (st, "bad-line")
  | some (op, common, extra) =>
    let cw := words common
    let ew := words extra
    if !(words op).head?.any (· == "parse") then (st, "unspecified") else
    let leakOk := match kv ew "live" with
      | some "0" => true
      | none => true
      | _ => false
    if !leakOk then (st, s!"violates no-leak {extra}") else
    match cw with
    | "throw" :: e :: _ => if isMalformedName e then (st, "ok") else (st, s!"violates only-malformed-packet {e}")
    | "ok" :: _ =>
      let acc := (kv ew "acc").getD "-"
      let bad := (acc.splitOn ",").filter (fun it => (it.splitOn ":throw:std").length > 1)
      let clone := (kv ew "clone").getD "-"
      if !bad.isEmpty then (st, s!"violates accessor-throws-non-tins {bad}")
      else if clone.startsWith "throw:std" then (st, s!"violates clone {clone}")
      else (st, "ok")
    | "null" :: _ => (st, "ok")
    | _ => (st, s!"violates unexpected-outcome {common.take 60}")

/-- C02: serialize() succeeds, returns exactly size() bytes, size() = Σ header+trailer, no layer wrote into
    the region of its inner layers, nothing was written outside -/
def spec02 (st : SState) (line : String) : SState × String :=
  match implParts line with
  | none => (st, "bad-line")
  | some (_, common, extra) =>
    let cw := words common
    match cw with
    | "ok" :: chain :: _ =>
      match parseChainStr chain, (kv cw "size").bind (·.toNat?), kv cw "ser" with
      | some ls, some size, some ser =>
        -- the two capture pseudo-headers are documented as not serializable
        if ls.any (fun l => l.cls == "PPI" || l.cls == "PKTAP") then (st, "unspecified") else
        let sum := (ls.map (fun l => l.hdr + l.trl)).sum
        if ser.startsWith "throw:" then (st, s!"violates serialize-total {ser}")
        else if sum != size then (st, s!"violates size-is-sum size={size} sum={sum}")
        else if (if ser == "-" then 0 else ser.length / 2) != size then (st, s!"violates size-exact size={size} len={ser.length / 2}")
        else match kv (words extra) "mon" with
          | some "-" | none =>
            -- serializing the same (unmodified) object a second time must succeed too and give the same bytes
            (match kv (words extra) "again" with
             | some "same" | some "-" | none => (st, "ok")
             | some a => (st, s!"violates serialize-repeatable {a.take 120}"))
          | some m => (st, s!"violates layer-overwrite mon={m}")
      | _, _, _ => (st, "violates unparsable-output")
    | _ => (st, "unspecified")

/-- C03 / C04 wire part: the re-parse of the serialization has the same view, and serializing it again reproduces
    the bytes whenever the innermost payload is non-empty -/
def specReparse (st : SState) (line : String) : SState × String :=
  match implParts line with
  | none => (st, "bad-line")
  | some (_, common, extra) =>
    let cw := words common
    match cw with
    | "ok" :: chain :: _ =>
      match parseChainStr chain, kv cw "ser", kv cw "re", kv cw "ser2" with
      | some ls, some ser, some re, some ser2 =>
        if ls.any (fun l => l.cls == "PPI" || l.cls == "PKTAP") then (st, "unspecified") else
        if ser.startsWith "throw:" then (st, "unspecified")          -- C02's business
        else if re.startsWith "throw:" || re == "null" then (st, s!"violates reparse-accepts {re}")
        else match parseChainStr re with
          | none => (st, "violates unparsable-output")
          | some qs =>
            if !sameView ls qs then (st, s!"violates view-preserved {re.take 200}")
            else
              let payloadNonEmpty := match ls.getLast? with
                | some l => l.cls == "RawPDU" && l.fields != [("payload", "-")]
                | none => false
              if payloadNonEmpty && ser2 != "same" then (st, s!"violates reserialize-fixpoint")
              else match kv (words extra) "again" with
                -- the packet was not modified between the two serializations: what a parser gets back from the second
                -- one must be what it got from the first
                | some "same" | some "-" | none => (st, "ok")
                | some a => (st, s!"violates serialize-repeatable {a.take 120}")
      | _, _, _, _ => (st, "violates unparsable-output")
    | _ => (st, "unspecified")

def spec03 := specReparse

/-- setters whose typed getter must hand back exactly the octets that were set (the dump prints the getter's result as hex
    under the setter's name): textual / opaque options of DHCP, Dot11 management frames and PPPoE -/
def verbatimSetters : List String :=
  ["ssid", "challenge_text", "hostname", "domain_name", "service_name", "ac_name", "host_uniq", "ac_cookie",
   "relay_session_id", "service_name_error", "ac_system_error", "generic_error"]

def isHexish (v : String) : Bool := v == "-" || (v.length % 2 == 0 && v.all (fun c => c.isDigit || ('a' ≤ c && c ≤ 'f')))


/-! ### C04, codec half: what a typed getter must return for a representable argument of its setter.
    The table restates the `Repr*` predicates of `TinsModel/Wire/Icmp/ThCodec6.lean` (theorem `icmp6_typed_codecs_inverse`) on
    the argument words of the line protocol; `none` = the argument is not one the option can express (or not canonical
    decimal / hex), the clause then says nothing. -/

def numArg? (s : String) (bound : Nat) : Option String :=
  match s.toNat? with
  | some n => if n < bound && toString n == s then some s else none
  | none => none

def hexLen? (s : String) : Option Nat := if s == "-" then some 0 else if isHexish s then some (s.length / 2) else none

def hexArg? (s : String) (ok : Nat → Bool) : Option String :=
  match hexLen? s with
  | some n => if ok n then some s else none
  | none => none

/-- a ','-separated list of hex items of `each` octets, `lo … hi` items (`-` = empty list) -/
def hexListArg? (s : String) (each lo hi : Nat) : Option String :=
  let items := if s == "-" then [] else s.splitOn ","
  if items.all (fun it => it != "-" && hexLen? it == some each) && lo ≤ items.length && items.length ≤ hi then some s else none

/-- a DNS name the label encoding can express: non-empty, every label 1 … 255 octets (`GoodName`) -/
def goodNameHex (h : String) : Bool :=
  match Tins.Wire.parseHexStr h with
  | some bs =>
    let rec labels (b : List UInt8) (cur : Nat) (acc : List Nat) : List Nat :=
      match b with
      | [] => (cur :: acc)
      | x :: r => if x.toNat == 46 then labels r 0 (cur :: acc) else labels r (cur + 1) acc
    h != "-" && (labels bs 0 []).all (fun n => 0 < n && n ≤ 255)
  | none => false

def namesArg? (s : String) : Option String :=
  let items := if s == "-" then [] else s.splitOn ","
  if items.all goodNameHex && (items.map (fun it => it.length / 2 + 2)).sum ≤ 2032 then some s else none

def dotJoin (xs : List (Option String)) : Option String := (xs.mapM id).map (fun l => ".".intercalate l)

def any (_ : Nat) : Bool := true

/-- ICMPv6: setter ↦ expected dump of the typed getter -/
def typedExpectIcmp6 (name : String) (a : List String) : Option (String × String) :=
  let r (v : Option String) := v.map (fun x => ("ICMPv6", x))
  match name, a with
  | "source_link_layer_addr", [x] | "target_link_layer_addr", [x] => r (hexArg? x (· == 6))
  | "prefix_info", [pl, fa, fl, valid, pref, pfx] =>
    r (dotJoin [numArg? pl 256, numArg? fa 2, numArg? fl 2, numArg? valid 4294967296, numArg? pref 4294967296, some "0",
                hexArg? pfx (· == 16)])
  | "redirect_header", [x] | "nonce", [x] => r (hexArg? x any)
  | "mtu", [x, y] => r (dotJoin [numArg? x 65536, numArg? y 4294967296])
  | "timestamp", [x, t] => r (dotJoin [hexArg? x (· == 6), numArg? t 18446744073709551616])
  | "shortcut_limit", [l, r1, r2] => r (dotJoin [numArg? l 256, numArg? r1 256, numArg? r2 4294967296])
  | "new_advert_interval", [x, y] => r (dotJoin [numArg? x 65536, numArg? y 4294967296])
  | "new_home_agent_info", [l] =>
    (match l.splitOn "," with
     | [x, y, z] => r ((dotJoin [numArg? x 65536, numArg? y 65536, numArg? z 65536]).map (fun _ => l))
     | _ => none)
  | "source_addr_list", [x, l] | "target_addr_list", [x, l] => r (dotJoin [hexArg? x (· == 6), hexListArg? l 16 1 127])
  | "rsa_signature", [h, sg] => r (dotJoin [hexArg? h (· == 16), hexArg? sg (fun n => 0 < n && (20 + n) % 8 == 0 && n ≤ 2020)])
  | "ip_prefix", [c, l, x] => r (dotJoin [numArg? c 256, numArg? l 256, hexArg? x (· == 16)])
  | "link_layer_addr", [c, x] => r (dotJoin [numArg? c 256, hexArg? x (fun n => (3 + n) % 8 == 0 && n ≤ 2037)])
  | "naack", [c, x] => r (dotJoin [numArg? c 256, numArg? x 256])
  | "map", [d, pr, rr, valid, x] =>
    r (dotJoin [numArg? d 16, numArg? pr 16, numArg? rr 2, numArg? valid 4294967296, hexArg? x (· == 16)])
  | "route_info", [pl, pr, lt, pfx] =>
    r (dotJoin [numArg? pl 256, numArg? pr 4, numArg? lt 4294967296, hexArg? pfx (fun n => n % 8 == 0 && n ≤ 2032)])
  | "recursive_dns_servers", [lt, l] => r (dotJoin [numArg? lt 4294967296, hexListArg? l 16 1 127])
  | "handover_key_request", [atv, k] => r (dotJoin [numArg? atv 16, hexArg? k (· ≤ 2030)])
  | "handover_key_reply", [lt, atv, k] => r (dotJoin [numArg? lt 65536, numArg? atv 16, hexArg? k (· ≤ 2028)])
  | "handover_assist_info", [c, h] | "mobile_node_identifier", [c, h] => r (dotJoin [numArg? c 256, hexArg? h (· < 256)])
  | "dns_search_list", [lt, ds] => r (dotJoin [numArg? lt 4294967296, namesArg? ds])
  | _, _ => none



/-! Families other than ICMPv6.  Every row names the inverse theorem whose hypotheses (= the representability predicate) it
    restates on the argument words; the predicates live in theorem files the driver must not import (they import Mathlib
    lemma modules), so they are restated here — `tools/CODEC-INVENTORY.md` lists theorem ↔ Repr ↔ dump field.  The expected
    string is the canonical rendering of the ARGUMENT in the format of the family's dump; nothing is read from the model. -/

def usJoin (xs : List (Option String)) : Option String := (xs.mapM id).map (fun l => "_".intercalate l)

/-- a `sep`-separated list of canonical decimals below `bound` (`-` = the empty list), `lo … hi` items; rendered with `out` -/
def numListArg? (s : String) (sep out : String) (bound lo hi : Nat) : Option String :=
  let items := if s == "-" then [] else s.splitOn sep
  if lo ≤ items.length && items.length ≤ hi then
    (items.mapM (fun it => numArg? it bound)).map (fun l => if l.isEmpty then "-" else out.intercalate l)
  else none

/-- `a:b[:c],…` (tuples of `k` 8-bit numbers) ↦ `a.b[.c],…`; `-` = empty -/
def tuplesArg? (s : String) (k lo hi : Nat) : Option String :=
  let items := if s == "-" then [] else s.splitOn ","
  if lo ≤ items.length && items.length ≤ hi then
    (items.mapM (fun it =>
      let ws := it.splitOn ":"
      if ws.length == k then (ws.mapM (fun w => numArg? w 256)).map (fun l => ".".intercalate l) else none)).map
      (fun l => if l.isEmpty then "-" else ",".intercalate l)
  else none

/-- hex string cut into groups of `n` octets joined by `sep` (empty ↦ "") -/
def hexChunks (h : String) (n : Nat) (sep : String) : String :=
  if h == "-" then "" else
  let cs := h.toList
  let rec go (fuel : Nat) (cs : List Char) (acc : List String) : List String :=
    match fuel with
    | 0 => acc.reverse
    | fuel + 1 => if cs.isEmpty then acc.reverse else go fuel (cs.drop (2 * n)) (String.ofList (cs.take (2 * n)) :: acc)
  sep.intercalate (go (cs.length + 1) cs [])

/-- `empty` or a ','-separated list of hex items (each `-` = no octets) of less than 64 KiB -/
def classDataArg? (s : String) (allowEmpty : Bool) : Option String :=
  if s == "empty" then (if allowEmpty then some s else none) else
  if (s.splitOn ",").all (fun it => match hexLen? it with | some n => n < 65536 | none => false) then some s else none

def two32 : Nat := 4294967296

/-- TCP — `tcp_mss_codec` (v < 2^16), `tcp_winscale_codec` / `tcp_altchecksum_codec` (v < 2^8), `tcp_timestamp_codec`
    (v, r < 2^32), `tcp_sack_codec` (`Tcp.ReprSack`: edges < 2^32, the 40-octet option space bounds the number: the
    setter throws beyond), `tcp_encodeSackPermitted_ok` (flag option: presence is the value) -/
def typedExpectTcp (name : String) (a : List String) : Option (String × String) :=
  match name, a with
  | "mss", [x] => (numArg? x 65536).map (("mss", ·))
  | "winscale", [x] => (numArg? x 256).map (("winscale", ·))
  | "altchecksum", [x] => (numArg? x 256).map (("altchecksum", ·))
  | "timestamp", [v, r] => (dotJoin [numArg? v two32, numArg? r two32]).map (("timestamp", ·))
  | "sack", [l] => (numListArg? l "." "." two32 0 16383).map (("sack", ·))
  | "sack_permitted", [] => some ("sack_permitted", "1")
  | _, _ => none

/-- IP — `codec_security` (16/16/16/24-bit members), `codec_streamId` (v < 2^16), `codec_route` (pointer < 2^8, any number
    of 4-octet addresses incl. none; dump `<pointer>:<addr>.<addr>…`) -/
def typedExpectIp (name : String) (a : List String) : Option (String × String) :=
  match name, a with
  | "security", [x, y, z, w] =>
    (dotJoin [numArg? x 65536, numArg? y 65536, numArg? z 65536, numArg? w 16777216]).map (("security", ·))
  | "stream_identifier", [x] => (numArg? x 65536).map (("stream_identifier", ·))
  | "lsrr", [p, h] | "ssrr", [p, h] | "record_route", [p, h] =>
    match numArg? p 256, hexArg? h (· % 4 == 0) with
    | some p, some h => some (name, p ++ ":" ++ hexChunks h 4 ".")
    | _, _ => none
  | _, _ => none

/-- DHCP — `dhcp_type_roundtrip` (v < 2^8), `dhcp_ip_roundtrip` (4 octets), `dhcp_u32_roundtrip` (v < 2^32),
    `dhcp_iplist_roundtrip` (4-octet addresses; through the wire at most 63 = 8-bit option length, KF-WApp-6) -/
def typedExpectDhcp (name : String) (a : List String) : Option (String × String) :=
  match name, a with
  | "type", [x] => (numArg? x 256).map ((name, ·))
  | "server_identifier", [x] | "subnet_mask", [x] | "broadcast", [x] | "requested_ip", [x] =>
    (hexArg? x (· == 4)).map ((name, ·))
  | "lease_time", [x] | "renewal_time", [x] | "rebind_time", [x] => (numArg? x two32).map ((name, ·))
  | "routers", [l] | "domain_name_servers", [l] => (hexListArg? l 4 0 63).map ((name, ·))
  | _, _ => none

/-- DHCPv6 — `decIaNa_enc`, `decIaTa_enc`, `decIaAddr_enc` (32-bit members, 16-octet address, any nested option octets),
    `decU16List_enc`, `decU8_enc`, `decU16_enc`, `decBytes_enc`, `decIp6_enc`, `decStatus_enc` (code < 2^16, any message),
    `decUserClass_enc` (non-empty list, RFC 8415 §21.15), `decVendorClass_enc` (entries < 64 KiB), `decVendorInfo_enc`,
    `decDuid_enc` (at least one identifier octet, RFC 8415 §11.1); rapid_commit / reconfigure_accept are flag options.
    A DHCPv6 option holds at most 65535 octets (16-bit length): the generator stays far below.
    `authentication` has no inverse theorem: not in the table. -/
def typedExpectDhcp6 (name : String) (a : List String) : Option (String × String) :=
  let r (v : Option String) := v.map ((name, ·))
  match name, a with
  | "ia_na", [i, t1, t2, o] => r (dotJoin [numArg? i two32, numArg? t1 two32, numArg? t2 two32, hexArg? o (· < 65000)])
  | "ia_ta", [i, o] => r (dotJoin [numArg? i two32, hexArg? o (· < 65000)])
  | "ia_address", [ad, p, v, o] => r (dotJoin [hexArg? ad (· == 16), numArg? p two32, numArg? v two32, hexArg? o (· < 65000)])
  | "option_request", [l] => r (numListArg? l "," "," 65536 0 32767)
  | "preference", [x] | "reconfigure_msg", [x] => r (numArg? x 256)
  | "elapsed_time", [x] => r (numArg? x 65536)
  | "relay_message", [x] | "interface_id", [x] => r (hexArg? x (· < 65536))
  | "server_unicast", [x] => r (hexArg? x (· == 16))
  | "status_code", [c, m] => r (dotJoin [numArg? c 65536, hexArg? m (· < 65000)])
  | "user_class", [l] => r (classDataArg? l false)
  | "vendor_class", [e, l] => r (dotJoin [numArg? e two32, classDataArg? l true])
  | "vendor_info", [e, d] => r (dotJoin [numArg? e two32, hexArg? d (· < 65000)])
  | "client_id", [i, d] | "server_id", [i, d] => r (dotJoin [numArg? i 65536, hexArg? d (fun n => 0 < n && n < 65000)])
  | "rapid_commit", [] => some ("has_rapid_commit", "1")
  | "reconfigure_accept", [] => some ("has_reconfigure_accept", "1")
  | _, _ => none

/-- Dot11 management frames (`typed=` items, members joined by `_`) — `container_roundtrip` (≤ 255 octets), `codec_rates`
    (rates < 64 Mb/s: 7 bits), `codec_u8`, `codec_u16`, `codec_pair`, `codec_pairs`, `codec_fhSet`, `codec_cfSet`,
    `codec_ibssDfs` (non-empty channel map), `codec_country` (3-octet string, non-empty triplets; the padding octet of an
    even number of triplets is not part of the value), `codec_fhPattern`, `codec_channelSwitch`, `codec_quiet`,
    `codec_bssLoad`, `codec_tim` (non-empty bitmap), `codec_vendor` (3-octet OUI), `codec_rsn` (`RsnRepr`).
    Every element holds at most 255 octets (8-bit length; the setters throw beyond). -/
def typedExpectDot11 (name : String) (a : List String) : Option (String × String) :=
  let r (v : Option String) := v.map ((name, ·))
  let u8 (x : String) := numArg? x 256
  let u16 (x : String) := numArg? x 65536
  match name, a with
  | "ssid", [x] | "challenge_text", [x] | "request_information", [x] => r (hexArg? x (· ≤ 255))
  | "supported_rates", [l] | "extended_supported_rates", [l] => r (numListArg? l "," "," 128 0 255)
  | "qos_capability", [x] | "ds_parameter_set", [x] | "power_constraint", [x] | "erp_information", [x] => r (u8 x)
  | "ibss_parameter_set", [x] => r (u16 x)
  | "power_capability", [x, y] | "fh_parameters", [x, y] | "tpc_report", [x, y] => r (usJoin [u8 x, u8 y])
  | "supported_channels", [l] => r (tuplesArg? l 2 0 127)
  | "fh_parameter_set", [d, x, y, z] => r (usJoin [u16 d, u8 x, u8 y, u8 z])
  | "cf_parameter_set", [x, y, z, w] => r (usJoin [u8 x, u8 y, u16 z, u16 w])
  | "ibss_dfs", [m, ri, l] => r (usJoin [hexArg? m (· == 6), u8 ri, tuplesArg? l 2 1 124])
  | "country", [cc, l] => r (usJoin [hexArg? cc (· == 3), tuplesArg? l 3 1 84])
  | "fh_pattern_table", [x, y, z, w, t] => r (usJoin [u8 x, u8 y, u8 z, u8 w, hexArg? t (· ≤ 251)])
  | "channel_switch", [x, y, z] => r (usJoin [u8 x, u8 y, u8 z])
  | "quiet", [x, y, z, w] => r (usJoin [u8 x, u8 y, u16 z, u16 w])
  | "bss_load", [x, y, z] => r (usJoin [u16 x, u8 y, u16 z])
  | "tim", [x, y, z, bm] => r (usJoin [u8 x, u8 y, u8 z, hexArg? bm (fun n => 0 < n && n ≤ 252)])
  | "vendor_specific", [o, d] => r (usJoin [hexArg? o (· == 3), hexArg? d (· ≤ 252)])
  | "rsn_information", [v, g, pw, ak, c] =>
    r (usJoin [u16 v, numArg? g two32, numListArg? pw "," "+" two32 0 30, numListArg? ak "," "+" two32 0 30, u16 c])
  | _, _ => none

/-- PPPoE — `pppoe_vendor_codec` (vendor id < 2^32, any data ≤ 65531 octets); the verbatim tags are `verbatimSetters` -/
def typedExpectPPPoE (name : String) (a : List String) : Option (String × String) :=
  match name, a with
  | "vendor_specific", [v, d] => (dotJoin [numArg? v two32, hexArg? d (· ≤ 65531)]).map ((name, ·))
  | _, _ => none

/-- setter name + argument words ↦ the candidates (class, dump field / `typed=` item, expected value); the class of the
    layer decides at `show` which candidate applies (setter names are shared between classes: `timestamp`, `type`,
    `vendor_specific`, `nonce` …).  A class `Dot11` stands for every Dot11 management class. -/
def typedExpect (name : String) (a : List String) : List (String × String × String) :=
  let c (cls : String) (v : Option (String × String)) : List (String × String × String) :=
    match v with
    | some (f, x) => [(cls, f, x)]
    | none => []
  c "ICMPv6" ((typedExpectIcmp6 name a).map (fun p => (name, p.2))) ++ c "TCP" (typedExpectTcp name a) ++
  c "IP" (typedExpectIp name a) ++ c "DHCP" (typedExpectDhcp name a) ++ c "DHCPv6" (typedExpectDhcp6 name a) ++
  c "Dot11" (typedExpectDot11 name a) ++ c "PPPoE" (typedExpectPPPoE name a)

def clsMatches (cls layerCls : String) : Bool :=
  cls == layerCls || (cls == "Dot11" && layerCls.startsWith "Dot11")

/-- the dump of the typed getter `name` of a layer, whatever the family's harness convention: a field of that name
    (L2, Ip, Ip6, Transport, Icmp, App) or an item `name:value` of the Dot11 management frames' `typed=` field
    (items joined by `|`; an absent item = `option_not_found`) -/
def typedLookup (l : Layer) (name : String) : Option String :=
  match l.fields.find? (fun f => f.1 == name) with
  | some f => some f.2
  | none =>
    match l.fields.find? (fun f => f.1 == "typed") with
    | some t =>
      (t.2.splitOn "|").findSome? (fun it =>
        if it.startsWith (name ++ ":") then some ((it.drop (name.length + 1)).toString) else none)
    | none => none

/-- like `typedLookup`, but an absent item of a `typed=` field reads as `nf` (option_not_found): after an accepted setter
    and without raw edits the option must be there -/
def typedValue (l : Layer) (name : String) : Option String :=
  match typedLookup l name with
  | some v => some v
  | none => if l.fields.any (fun f => f.1 == "typed") then some "nf" else none

/-- a typed getter that threw on the option it found: `bad` / `malformed_option` (malformed_option), `mp` /
    `malformed_packet`, `!<exception>` — the conventions of the seven family harnesses; `none` / `nf` (option_not_found)
    is not one of them: a raw edit may have removed the option -/
def typedFailed (v : String) : Bool :=
  v == "bad" || v == "mp" || v == "malformed_option" || v == "malformed_packet" || v.startsWith "!"

/-- option code a typed setter of TCP / IP / DHCP / DHCPv6 adds (tcp.h, ip.h, dhcp.h, dhcpv6.h `OptionTypes`; for IP the
    option number, i.e. the type octet modulo 32).  Used only to narrow what a raw `add_option <code>` / `remove_option <code>`
    un-tracks: without an entry the whole layer is un-tracked as before. -/
def codeOf (cls name : String) : Option Nat :=
  let look (t : List (String × Nat)) := (t.find? (fun e => e.1 == name)).map (·.2)
  match cls with
  | "TCP" => look [("mss", 2), ("winscale", 3), ("sack_permitted", 4), ("sack", 5), ("timestamp", 8), ("altchecksum", 14)]
  | "IP" => look [("security", 2), ("lsrr", 3), ("record_route", 7), ("stream_identifier", 8), ("ssrr", 9)]
  | "DHCP" => look [("subnet_mask", 1), ("routers", 3), ("domain_name_servers", 6), ("hostname", 12), ("domain_name", 15),
                    ("broadcast", 28), ("requested_ip", 50), ("lease_time", 51), ("type", 53), ("server_identifier", 54),
                    ("renewal_time", 58), ("rebind_time", 59)]
  | "DHCPv6" => look [("client_id", 1), ("server_id", 2), ("ia_na", 3), ("ia_ta", 4), ("ia_address", 5), ("option_request", 6),
                      ("preference", 7), ("elapsed_time", 8), ("relay_message", 9), ("authentication", 11), ("server_unicast", 12),
                      ("status_code", 13), ("rapid_commit", 14), ("user_class", 15), ("vendor_class", 16), ("vendor_info", 17),
                      ("interface_id", 18), ("reconfigure_msg", 19), ("reconfigure_accept", 20)]
  | _ => none

def hasCodeTable (cls : String) : Bool := cls == "TCP" || cls == "IP" || cls == "DHCP" || cls == "DHCPv6"

def normCode (cls : String) (c : Nat) : Nat := if cls == "IP" then c % 32 else c

/-- dump field ↦ setter name (the flag options are dumped as `has_<name>`) -/
def setterOfField (f : String) : String := if f.startsWith "has_" then (f.drop 4).toString else f

/-- C04 = the wire half (`specReparse`) + "getters reflect exactly the accumulated edits" for the verbatim setters.  A typed
    setter ADDS an option and the typed getter returns the FIRST option of that code ("first matching option"), so what a
    dump must show under `name` is the first value set through that setter — as long as the option list of the layer was
    not edited through the raw interface (add / remove by code), which may add, remove or shadow the option. -/
def spec04 (st : SState) (line : String) : SState × String :=
  match implParts line with
  | none => (st, "bad-line")
  | some (op, common, _) =>
    match words op with
    | ["new"] => ({ st with sets := [], poison := [], typed := [], typedVals := [], classes := [], poisonCodes := [], poisonNames := [] }, "unspecified")
    | "push" :: cls :: _ =>
      if (words common).head? == some "ok" then ({ st with classes := st.classes ++ [cls] }, "unspecified") else (st, "unspecified")
    | "set" :: idx :: name :: rest =>
      if (words common).head? != some "ok" then (st, "unspecified") else
      match idx.toNat? with
      | none => (st, "unspecified")
      | some i =>
        let cls := st.classes[i]?.getD ""
        let codePoisoned := match codeOf cls name with
          | some c => st.poisonCodes.contains (i, c)
          | none => false
        if st.poison.contains i || codePoisoned || st.poisonNames.contains (i, name) then (st, "unspecified")
        -- END terminates an option list: what is added behind it is not an option on the wire
        else if name == "eol" || name == "end" then
          ({ st with sets := st.sets.filter (fun e => e.1 != i), typed := st.typed.filter (fun e => e.1 != i),
                     typedVals := st.typedVals.filter (fun e => e.1 != i), poison := i :: st.poison }, "unspecified")
        -- a raw edit by code on a class with a code table: only the typed getter of that code is affected
        else if (name.startsWith "add_option" || name == "remove_option") && hasCodeTable cls && (rest.head?.bind (·.toNat?)).isSome then
          let c := normCode cls ((rest.head?.bind (·.toNat?)).getD 0)
          -- the END code of the class terminates the list on the wire: as `eol` / `end` above
          if (cls == "DHCP" && c == 255) || ((cls == "TCP" || cls == "IP") && c == 0) then
            ({ st with sets := st.sets.filter (fun e => e.1 != i), typed := st.typed.filter (fun e => e.1 != i),
                       typedVals := st.typedVals.filter (fun e => e.1 != i), poison := i :: st.poison }, "unspecified")
          else
          let hit (n : String) : Bool := codeOf cls (setterOfField n) == some c
          ({ st with sets := st.sets.filter (fun e => !(e.1 == i && hit e.2.1)),
                     typed := st.typed.filter (fun e => !(e.1 == i && hit e.2)),
                     typedVals := st.typedVals.filter (fun e => !(e.1 == i && hit e.2.2.1)),
                     poisonCodes := (i, c) :: st.poisonCodes }, "unspecified")
        else if verbatimSetters.contains name then
          match rest with
          | [v] =>
            if isHexish v && !(st.sets.any (fun e => e.1 == i && e.2.1 == name)) then
              ({ st with sets := (i, name, v) :: st.sets,
                         typedVals := (typedExpect name rest).map (fun (cls, f, x) => (i, cls, f, x)) ++ st.typedVals }, "unspecified")
            else (st, "unspecified")
          | _ => (st, "unspecified")
        else if name.startsWith "add_" || name.startsWith "remove_" || name == "end_of_list" then
          ({ st with sets := st.sets.filter (fun e => e.1 != i), typed := st.typed.filter (fun e => e.1 != i),
                     typedVals := st.typedVals.filter (fun e => e.1 != i), poison := i :: st.poison }, "unspecified")
        -- representability: RFC 8415 §21.15 — a User Class option holds one or more instances of user class data, so the empty
        -- list is not an argument the option can express (libtins encodes it as a zero-length option and rejects that)
        else if name == "user_class" && rest == ["empty"] then
          (if st.typed.contains (i, name) then st else { st with poisonNames := (i, name) :: st.poisonNames }, "unspecified")
        -- RFC 8415 §11.1: a DUID is a type code followed by the octets that make up the identifier; a DUID without any
        -- identifier octet is not one the option can express (the decoder asks for at least one)
        else if (name == "client_id" || name == "server_id") && rest.getLast? == some "-" then
          (if st.typed.contains (i, name) then st else { st with poisonNames := (i, name) :: st.poisonNames }, "unspecified")
        else if st.typed.contains (i, name) then (st, "unspecified")
        else
          let vals := (typedExpect name rest).map (fun (cls, f, x) => (i, cls, f, x)) ++ st.typedVals
          ({ st with typed := (i, name) :: st.typed, typedVals := vals }, "unspecified")
    | ["show"] =>
      let cw := words common
      match cw with
      | "ok" :: chain :: _ =>
        match parseChainStr chain with
        | some ls =>
          let bad := st.sets.filterMap (fun (i, name, v) =>
            match ls[i]? with
            | some l => match typedLookup l name with
              | some g => if g == v then none else some s!"layer {i} {name} set={v.take 60} get={g.take 60}"
              | none => none
            | none => none)
          -- codec half: a typed setter was accepted, so the typed getter of the SAME object (dumped under the setter's
          -- name) must decode what the setter encoded: "bad" / "mp" / "!<exception>" there means encoder and decoder
          -- are not inverse on that value
          let undec := st.typed.filterMap (fun (i, name) =>
            match ls[i]? with
            | some l => match typedLookup l name with
              | some v => if typedFailed v then some s!"layer {i} {name} get={v.take 40}" else none
              | none => none
            | none => none)
          -- … and for a representable argument it must return that argument (`typedExpect`)
          let wrongIn (chain : List Layer) (tag : String) : List String := st.typedVals.filterMap (fun (i, cls, name, v) =>
            match chain[i]? with
            | some l =>
              if !clsMatches cls l.cls then none else
              match typedValue l name with
              | some g => if g == v then none else some s!"layer {i} {l.cls} {name}{tag} set={v.take 80} get={g.take 80}"
              | none => none
            | none => none)
          -- … of the live object, and of what a parser of the serialized bytes gets back (`re=`)
          let reChain := match kv cw "re" with
            | some re => (parseChainStr re).getD []
            | none => []
          let wrong := wrongIn ls "" ++ wrongIn reChain "(re-parsed)"
          match bad, undec, wrong with
          | b :: _, _, _ => (st, s!"violates last-value-set {b}")
          | [], u :: _, _ => (st, s!"violates getter-rejects-own-setter {u}")
          | [], [], w :: _ => (st, s!"violates typed-getter-returns-set-value {w}")
          | [], [], [] => specReparse st line
        | none => specReparse st line
      | _ => specReparse st line
    | _ => specReparse st line

end Driver.WireSpec
