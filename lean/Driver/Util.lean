/- helpers shared by all line-protocol drivers: hex, hashing, tokenising -/
namespace Driver

def hexDigit (c : Char) : Option Nat :=
  if '0' ≤ c ∧ c ≤ '9' then some (c.toNat - '0'.toNat)
  else if 'a' ≤ c ∧ c ≤ 'f' then some (c.toNat - 'a'.toNat + 10)
  else if 'A' ≤ c ∧ c ≤ 'F' then some (c.toNat - 'A'.toNat + 10)
  else none

/-- "-" denotes the empty byte string -/
def parseHex (s : String) : Option (List UInt8) :=
  if s == "-" then some [] else
  let rec go : List Char → List UInt8 → Option (List UInt8)
    | [], acc => some acc.reverse
    | [_], _ => none
    | a :: b :: r, acc => do
      let x ← hexDigit a
      let y ← hexDigit b
      go r (UInt8.ofNat (x * 16 + y) :: acc)
  go s.toList []

def hexChar (n : Nat) : Char :=
  if n < 10 then Char.ofNat ('0'.toNat + n) else Char.ofNat ('a'.toNat + n - 10)

def toHex (bs : List UInt8) : String :=
  if bs.isEmpty then "-" else
  String.ofList (bs.foldr (fun b acc => hexChar (b.toNat / 16) :: hexChar (b.toNat % 16) :: acc) [])

/-- FNV-1a 64 -/
def fnv (bs : List UInt8) : UInt64 :=
  bs.foldl (fun h b => (h ^^^ b.toUInt64) * 1099511628211) 14695981039346656037

def words (line : String) : List String :=
  (line.trimAscii.toString.splitOn " ").filter (· ≠ "")

def joinWith (sep : String) (xs : List String) : String := sep.intercalate xs

/-- insertion sort on naturals-keyed pairs (canonical output order) -/
def sortByKey {α} (xs : List (Nat × α)) : List (Nat × α) :=
  xs.foldl (fun acc x =>
    let (lo, hi) := acc.partition (fun y => y.1 ≤ x.1)
    lo ++ [x] ++ hi) []

end Driver
