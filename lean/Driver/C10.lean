import TinsModel.Dns.Spec
import TinsModel.Dns.Soa
import TinsModel.Dns.Layout
import Driver.Util
/- line-protocol driver for property C10 (DNS): model mode and spec (oracle) mode.
   Ops:  new | parse <hex> [@V Q=.. AN=.. AU=.. AD=.. | @E <getter>] | addq <name> <type> <class>
         | adda/addu/addd <name> <type> <class> <ttl> <pref> <data> [4.<hex>|6.<hex>|x] | reparse | ser
         | soa <hex> [@V <expected>]   soa_record(buffer, size) on its own (a case of its own)
         | soas                        soa_record(resource) on every SOA record the three record getters hand out -/
namespace Driver.C10
open Driver Tins Tins.Dns

def excName : Exc → String
  | .malformedPacket => "malformed_packet"
  | .pointerLoops => "dns_decompression_pointer_loops"
  | .pointerOob => "dns_decompression_pointer_out_of_bounds"
  | .invalidAddress => "invalid_address"
  | .invalidDomainName => "invalid_domain_name"

def showQuery (q : Query) : String := s!"{toHex q.name}:{q.type}:{q.cls}"

def showResource (r : Resource) : String :=
  let d := match r.data with
    | .str b => "s." ++ toHex b
    | .v6 b => "6." ++ toHex b
  s!"{toHex r.name}:{r.type}:{r.cls}:{r.ttl}:{r.pref}:{d}"

def showList (xs : List String) : String := "[" ++ joinWith "," xs ++ "]"

def showOut {α} (f : α → String) : Out (List α) → String
  | .ok xs => showList (xs.map f)
  | .throw e => "!" ++ excName e
  | .fault s => "MODEL-FAULT:" ++ s

def showState (res : String) (m : Msg) : String :=
  s!"{res} h={m.q},{m.an},{m.au},{m.ad} i={m.ai},{m.ui},{m.di} r={toHex m.recs} Q={showOut showQuery (queries m)} AN={showOut showResource (answers m)} AU={showOut showResource (authority m)} AD={showOut showResource (additional m)}"

/-- the seven fields of a decoded SOA record, or the exception -/
def showSoa : Out Soa → String
  | .ok r => s!"ok:{toHex r.mname}:{toHex r.rname}:{r.serial}:{r.refresh}:{r.retry}:{r.expire}:{r.minimum}"
  | .throw e => "throw:" ++ excName e
  | .fault s => "MODEL-FAULT:" ++ s

/-- `soa_record(const DNS::resource&)` on every record of type SOA of a section -/
def soasOf (rs : Out (List Resource)) : String :=
  match rs with
  | .ok xs => showList ((xs.filter (fun r => r.type == tSOA)).map (fun r =>
      match r.data with
      | .str b => showSoa (soaInit b)
      | .v6 _ => "MODEL-FAULT:soa-data"))
  | .throw e => "!" ++ excName e
  | .fault s => "MODEL-FAULT:" ++ s

def parseAux (s : String) : Option Bytes :=
  if s.startsWith "4." || s.startsWith "6." then parseHex (s.drop 2).toString else none

def parseNewRec (ws : List String) : Option NewRec :=
  match ws with
  | n :: t :: c :: ttl :: p :: d :: rest => do
    let n ← parseHex n
    let t ← t.toNat?
    let c ← c.toNat?
    let ttl ← ttl.toNat?
    let p ← p.toNat?
    let d ← parseHex d
    let aux := match rest with
      | a :: _ => parseAux a
      | [] => none
    pure ⟨n, t, c, ttl, p, d, aux⟩
  | _ => none

def secOf (op : String) : Option Section :=
  if op == "adda" then some .answer else if op == "addu" then some .authority
  else if op == "addd" then some .additional else none

def applyOut (m : Msg) (r : Out Msg) : Msg × String :=
  match r with
  | .ok m' => (m', showState "ok" m')
  | .throw e => (m, showState ("throw:" ++ excName e) m)
  | .fault s => (m, "MODEL-FAULT:" ++ s)

def step (m : Msg) (line : String) : Msg × String :=
  match words line with
  | "new" :: _ => let m' : Msg := {}; (m', showState "ok" m')
  | "parse" :: h :: _ =>
    match parseHex h with
    | some b =>
      match parse b with
      | .ok m' => (m', showState "ok" m')
      | .throw e => let m' : Msg := {}; (m', showState ("throw:" ++ excName e) m')
      | .fault s => ({}, "MODEL-FAULT:" ++ s)
    | none => (m, "bad-op")
  | "addq" :: n :: t :: c :: _ =>
    match parseHex n, t.toNat?, c.toNat? with
    | some n, some t, some c => applyOut m (addQuery m ⟨n, t, c⟩)
    | _, _, _ => (m, "bad-op")
  | "reparse" :: _ =>
    match parse (serialize m) with
    | .ok m' => (m', showState "ok" m')
    | .throw e => (m, showState ("throw:" ++ excName e) m)
    | .fault s => (m, "MODEL-FAULT:" ++ s)
  | "ser" :: _ => (m, "ser " ++ toHex (serialize m))
  | "soa" :: h :: _ =>
    match parseHex h with
    | some b => (m, "soa " ++ showSoa (soaInit b))
    | none => (m, "bad-op")
  | "soas" :: _ => (m, s!"soas AN={soasOf (answers m)} AU={soasOf (authority m)} AD={soasOf (additional m)}")
  | op :: rest =>
    match secOf op, parseNewRec rest with
    | some sec, some r => applyOut m (addRecord m sec r)
    | _, _ => (m, "bad-op")
  | _ => (m, "bad-op")

def initModel : Msg := {}

/-! ### oracle -/

/-- expected getter results as canonical strings per record; `none` = the case left the specified fragment.
    `cls`: "" = a specified initial message (fresh, reference encoding, or ANY accepted message that `wfMsg` accepts:
    `Props.C10.sections_refine_wf`); "nonwf-forward" / "nonwf-escape" = a laid-out message whose names resolve but
    which has a pointer into a later section / a pointer that does not designate a label boundary of a stored name
    (the full statement `names_preserved_all` is still evaluated there: KF-C10-12 / KF-C10-13).
    `guard`: the stored message has compression pointers, so the theorems ask for a message below 16 KiB. -/
structure OState where
  exp : Option (List String × List String × List String × List String) := none
  cls : String := ""
  guard : Bool := false
  len : Nat := 0
  cnt : Nat := 0

def kv (ws : List String) (key : String) : Option String :=
  ws.findSome? (fun w => if w.startsWith (key ++ "=") then some ((w.drop (key.length + 1)).toString) else none)

def parseListStr (s : String) : Option (List String) :=
  if s.startsWith "[" && s.endsWith "]" then
    let inner := ((s.drop 1).dropEnd 1).toString
    if inner == "" then some [] else some (inner.splitOn ",")
  else none

/-- "" when the observation is the expected one, otherwise what differs -/
def obsDiff (e : List String × List String × List String × List String) (res : String) (ow : List String) : String :=
  let (q, an, au, ad) := e
  if ow.head? != some res then s!"result expected={res} got={ow.head?.getD ""}"
  else if kv ow "h" != some s!"{q.length % 65536},{an.length % 65536},{au.length % 65536},{ad.length % 65536}" then
    s!"counts expected={q.length},{an.length},{au.length},{ad.length} got={(kv ow "h").getD ""}"
  else if kv ow "Q" != some (showList q) then "sections queries"
  else if kv ow "AN" != some (showList an) then "sections answers"
  else if kv ow "AU" != some (showList au) then "sections authority"
  else if kv ow "AD" != some (showList ad) then "sections additional"
  else ""

def verdict (cls : String) (d : String) : String :=
  if d == "" then "ok" else if cls == "" then "violates " ++ d else s!"violates {cls} names {d}"

def checkObs (e : List String × List String × List String × List String) (res : String) (ow : List String) : String :=
  verdict "" (obsDiff e res ow)

/-- classification of an accepted message by the decidable predicates of `TinsModel/Dns/Layout.lean` -/
def classifyMsg (m : Msg) : Option (String × Bool) :=
  match layoutB m with
  | none => none
  | some L =>
    if !layoutOkB m L then none else
    let ptrs := L.sites.filter (fun σ => σ.e == σ.x + 2)
    if !ptrs.all (fun σ => ptrTgtB m L.sites σ) then some ("nonwf-escape", true)
    else if !ptrs.all (fun σ => ptrSecB m σ) then some ("nonwf-forward", true)
    else some ("", !ptrs.isEmpty)

/-- an accepted message without annotation: what the implementation shows is the content the following insertions
    have to extend (`sections_refine_wf`); for a well-formed message the getters must return and the counts agree -/
def parsePlain (b : Bytes) (ow : List String) : OState × String :=
  match parse b with
  | .ok m =>
    match classifyMsg m with
    | none => ({}, "unspecified")
    | some (cls, g) =>
      match (kv ow "Q").bind parseListStr, (kv ow "AN").bind parseListStr,
            (kv ow "AU").bind parseListStr, (kv ow "AD").bind parseListStr with
      | some q, some an, some au, some ad =>
        let st : OState := { exp := some (q, an, au, ad), cls := cls, guard := g, len := m.recs.length,
                             cnt := m.q + m.an + m.au + m.ad }
        (st, verdict cls (obsDiff (q, an, au, ad) "ok" ow))
      | _, _, _, _ =>
        -- a getter reported an error although every stored name resolves within the caps
        ({}, verdict cls "getters-return")
  | _ => ({}, "unspecified")

/-- may the next insertion of `k` octets still be judged? (header counts fit 16 bits; with pointers: below 16 KiB) -/
def roomFor (st : OState) (k : Nat) : Bool := st.cnt + 1 < 65536 && (!st.guard || st.len + 12 + k ≤ 16384)

/-- spec mode: each input line is `<op> ||| <implementation output>` -/
def specStep (st : OState) (line : String) : OState × String :=
  match line.splitOn " ||| " with
  | [op, out] =>
    let ow := words out
    match words op with
    | "new" :: _ =>
      let e : List String × List String × List String × List String := ([], [], [], [])
      ({ exp := some e }, checkObs e "ok" ow)
    | "parse" :: h :: "@V" :: rest =>
      match (kv rest "Q").bind parseListStr, (kv rest "AN").bind parseListStr,
            (kv rest "AU").bind parseListStr, (kv rest "AD").bind parseListStr with
      | some q, some an, some au, some ad =>
        -- a reference encoding of known content: it has to be well-formed (`sections_refine_compressed_partial`)
        match (parseHex h).map parse with
        | some (.ok m) =>
          if wfMsg m then
            let g := match classifyMsg m with
              | some (_, g) => g
              | none => true
            ({ exp := some (q, an, au, ad), guard := g, len := m.recs.length, cnt := m.q + m.an + m.au + m.ad },
             checkObs (q, an, au, ad) "ok" ow)
          else ({}, "bad-annotation:reference-encoding-not-wellformed")
        | _ => ({}, "bad-annotation:reference-encoding-rejected")
      | _, _, _, _ => ({}, "bad-annotation")
    | "parse" :: _ :: "@E" :: g :: _ =>
      -- a malformed name / pointer loop / out-of-range pointer reachable from getter `g`: it must report an error
      -- (or the constructor must have rejected the message)
      let r := (kv ow g).getD ""
      if (ow.head?.getD "").startsWith "throw:" || r.startsWith "!" then ({}, "ok")
      else ({}, s!"violates malformed-name-reported getter={g}")
    | "parse" :: h :: _ =>
      match parseHex h with
      | some b => if ow.head? == some "ok" then parsePlain b ow else ({}, "unspecified")
      | none => ({}, "bad-line")
    | "addq" :: n :: t :: c :: _ =>
      match st.exp, parseHex n, t.toNat?, c.toNat? with
      | some (q, an, au, ad), some n, some t, some c =>
        match specOfQuery ⟨n, t, c⟩ with
        | some s =>
          if s.type < 64 && s.cls < 256 && roomFor st s.wire.length then
            let e := (q ++ [showQuery s.view], an, au, ad)
            ({ st with exp := some e, len := st.len + s.wire.length, cnt := st.cnt + 1 },
             verdict st.cls (obsDiff e "ok" ow))
          else ({}, "unspecified")
        | none => ({}, "unspecified")
      | _, _, _, _ => ({}, "unspecified")
    | "reparse" :: _ =>
      match st.exp with
      | some e => (st, verdict st.cls (obsDiff e "ok" ow))
      | none => (st, "unspecified")
    | "ser" :: _ => (st, if st.exp.isSome then "ok" else "unspecified")
    | "soa" :: _ :: rest =>
      -- a typed accessor: a value, malformed_packet or invalid_domain_name; with `@V` (a reference encoding of a
      -- record with legal names) exactly the record
      let r := (ow.drop 1).head?.getD ""
      match rest with
      | "@V" :: e :: _ => (st, if ow.head? == some "soa" && r == e then "ok" else s!"violates soa-roundtrip expected={e} got={r}")
      | _ =>
        if ow.head? == some "soa" && (r.startsWith "ok:" || r == "throw:malformed_packet" || r == "throw:invalid_domain_name")
        then (st, "ok") else (st, s!"violates soa-outcome {r}")
    | "soas" :: _ =>
      let bad := (out.splitOn "throw:").drop 1 |>.filter (fun t =>
        !(t.startsWith "malformed_packet" || t.startsWith "invalid_domain_name"))
      (st, if ow.head? == some "soas" && bad.isEmpty then "ok" else "violates soas-outcome")
    | o :: rest =>
      match st.exp, secOf o, parseNewRec rest with
      | some (q, an, au, ad), some sec, some r =>
        match specOfNew r with
        | some s =>
          if roomFor st s.wire.length then
            let v := showResource s.view
            let e := match sec with
              | .answer => (q, an ++ [v], au, ad)
              | .authority => (q, an, au ++ [v], ad)
              | .additional => (q, an, au, ad ++ [v])
            ({ st with exp := some e, len := st.len + s.wire.length, cnt := st.cnt + 1 },
             verdict st.cls (obsDiff e "ok" ow))
          else ({}, "unspecified")
        | none =>
          -- an address text that inet_pton rejects: the call must fail and leave the message as it was
          if (r.type = tA ∨ r.type = tAAAA) ∧ r.aux.isNone ∧ (specOfNew { r with type := 0 }).isSome then
            (st, verdict st.cls (obsDiff (q, an, au, ad) "throw:invalid_address" ow))
          else ({}, "unspecified")
      | none, some _, some _ => ({}, "unspecified")
      | _, _, _ => (st, "bad-line")
    | _ => (st, "bad-line")
  | _ => (st, "bad-line")

def initSpec : OState := {}

end Driver.C10
