import Driver.C06
/- tinsdriver <mode> <area>: reads operation lines on stdin, writes one result line per op -/
open Driver

partial def loop {σ} (h : IO.FS.Stream) (out : IO.FS.Stream) (step : σ → String → σ × String) (s : σ) : IO Unit := do
  let line ← h.getLine
  if line.isEmpty then return ()
  let (s', o) := step s line
  out.putStrLn o
  loop h out step s'

def main (args : List String) : IO UInt32 := do
  let stdin ← IO.getStdin
  let stdout ← IO.getStdout
  match args with
  | ["model", "C06"] => loop stdin stdout C06.step (Tins.DT.Tracker.init 0); return 0
  | ["spec", "C06"] => loop stdin stdout C06.specStep {}; return 0
  | _ => IO.eprintln "usage: tinsdriver model|spec <area>"; return 2
