import Driver.C01
import Driver.C02
import Driver.C03
import Driver.C04
import Driver.C05
import Driver.C06
import Driver.C07
import Driver.C08
import Driver.C09
import Driver.C10
import Driver.C11
import Driver.C12
import Driver.C13
import Driver.C14
import Driver.C15
import Driver.C16
import Driver.C17
import Driver.C18
import Driver.C19
/- tinsdriver <mode> <area>: reads operation lines on stdin, writes one result line per op.
   Every area module Driver/Cxx.lean exports `step`, `initModel`, `specStep`, `initSpec`. -/
open Driver

partial def loop {σ} (h : IO.FS.Stream) (out : IO.FS.Stream) (step : σ → String → σ × String) (s : σ) : IO Unit := do
  let line ← h.getLine
  if line.isEmpty then return ()
  let (s', o) := step s line
  out.putStrLn o
  loop h out step s'

def main (args : List String) : IO UInt32 := do
  let stdin ← IO.getStdin
  let stdout ← IO.getStdout
  match args with
  | ["model", "C01"] => loop stdin stdout C01.step C01.initModel; return 0
  | ["spec", "C01"] => loop stdin stdout C01.specStep C01.initSpec; return 0
  | ["model", "C02"] => loop stdin stdout C02.step C02.initModel; return 0
  | ["spec", "C02"] => loop stdin stdout C02.specStep C02.initSpec; return 0
  | ["model", "C03"] => loop stdin stdout C03.step C03.initModel; return 0
  | ["spec", "C03"] => loop stdin stdout C03.specStep C03.initSpec; return 0
  | ["model", "C04"] => loop stdin stdout C04.step C04.initModel; return 0
  | ["spec", "C04"] => loop stdin stdout C04.specStep C04.initSpec; return 0
  | ["model", "C05"] => loop stdin stdout C05.step C05.initModel; return 0
  | ["spec", "C05"] => loop stdin stdout C05.specStep C05.initSpec; return 0
  | ["model", "C06"] => loop stdin stdout C06.step C06.initModel; return 0
  | ["spec", "C06"] => loop stdin stdout C06.specStep C06.initSpec; return 0
  | ["model", "C07"] => loop stdin stdout C07.step C07.initModel; return 0
  | ["spec", "C07"] => loop stdin stdout C07.specStep C07.initSpec; return 0
  | ["model", "C08"] => loop stdin stdout C08.step C08.initModel; return 0
  | ["spec", "C08"] => loop stdin stdout C08.specStep C08.initSpec; return 0
  | ["model", "C09"] => loop stdin stdout C09.step C09.initModel; return 0
  | ["spec", "C09"] => loop stdin stdout C09.specStep C09.initSpec; return 0
  | ["model", "C10"] => loop stdin stdout C10.step C10.initModel; return 0
  | ["spec", "C10"] => loop stdin stdout C10.specStep C10.initSpec; return 0
  | ["model", "C11"] => loop stdin stdout C11.step C11.initModel; return 0
  | ["spec", "C11"] => loop stdin stdout C11.specStep C11.initSpec; return 0
  | ["model", "C12"] => loop stdin stdout C12.step C12.initModel; return 0
  | ["spec", "C12"] => loop stdin stdout C12.specStep C12.initSpec; return 0
  | ["model", "C13"] => loop stdin stdout C13.step C13.initModel; return 0
  | ["spec", "C13"] => loop stdin stdout C13.specStep C13.initSpec; return 0
  | ["model", "C14"] => loop stdin stdout C14.step C14.initModel; return 0
  | ["spec", "C14"] => loop stdin stdout C14.specStep C14.initSpec; return 0
  | ["model", "C15"] => loop stdin stdout C15.step C15.initModel; return 0
  | ["spec", "C15"] => loop stdin stdout C15.specStep C15.initSpec; return 0
  | ["model", "C16"] => loop stdin stdout C16.step C16.initModel; return 0
  | ["spec", "C16"] => loop stdin stdout C16.specStep C16.initSpec; return 0
  | ["model", "C17"] => loop stdin stdout C17.step C17.initModel; return 0
  | ["spec", "C17"] => loop stdin stdout C17.specStep C17.initSpec; return 0
  | ["model", "C18"] => loop stdin stdout C18.step C18.initModel; return 0
  | ["spec", "C18"] => loop stdin stdout C18.specStep C18.initSpec; return 0
  | ["model", "C19"] => loop stdin stdout C19.step C19.initModel; return 0
  | ["spec", "C19"] => loop stdin stdout C19.specStep C19.initSpec; return 0
  | _ => IO.eprintln "usage: tinsdriver model|spec <Cxx>"; return 2
