import TinsModel.Checksum.Dissect
import TinsModel.Checksum.Serialize
import Driver.Util
/- line-protocol driver for property C05: checksum helpers, CRC, packets (model mode and spec/oracle mode) -/
namespace Driver.C05
open Driver Tins.Ck

def hexOr (s : String) : Option Bytes := if s == "" then some [] else parseHex s

/-- items `~type.hex` are transient (added, then removed again by type before the packet is used; the generator never
    gives a transient item the type of another item of the list): the final option list is the one without them -/
def typedList (s : String) : Option (List (Nat × Bytes)) :=
  if s == "-" then some [] else
  ((s.splitOn ",").filter (fun item => !item.startsWith "~")).mapM (fun item => match item.splitOn "." with
    | [t, h] => do let t ← t.toNat?; let d ← hexOr h; pure (t, d)
    | _ => none)

def extList (s : String) : Option (List (Nat × Nat × Bytes)) :=
  if s == "-" then some [] else
  (s.splitOn ",").mapM (fun item => match item.splitOn "." with
    | [c, t, h] => do let c ← c.toNat?; let t ← t.toNat?; let d ← hexOr h; pure (c, t, d)
    | _ => none)

def nat (s : String) : Option Nat := s.toNat?

def parseLayer (w : List String) : Option Layer :=
  match w with
  | ["eth", d, s, t] => do pure (.eth (← parseHex d) (← parseHex s) (← nat t))
  | ["dot1q", p, c, i, t, pad] => do pure (.dot1q (← nat p) (← nat c) (← nat i) (← nat t) ((← nat pad) != 0))
  | ["ip", tos, id, fl, fo, ttl, pr, s, d, o] => do
    pure (.ip (← nat tos) (← nat id) (← nat fl) (← nat fo) (← nat ttl) (← nat pr) (← parseHex s) (← parseHex d) (← typedList o))
  | ["ip6", tc, fl, hop, nh, s, d, e] => do
    pure (.ip6 (← nat tc) (← nat fl) (← nat hop) (← nat nh) (← parseHex s) (← parseHex d) (← typedList e))
  | ["tcp", sp, dp, sq, ak, fl, wn, ur, o] => do
    pure (.tcp (← nat sp) (← nat dp) (← nat sq) (← nat ak) (← nat fl) (← nat wn) (← nat ur) (← typedList o))
  | ["udp", sp, dp] => do pure (.udp (← nat sp) (← nat dp))
  | ["icmp", t, c, id, sq, a, b, cc, lf, e] => do
    pure (.icmp (← nat t) (← nat c) (← nat id) (← nat sq) (← nat a) (← nat b) (← nat cc) ((← nat lf) != 0) (← extList e))
  | ["icmp6", t, c, id, sq, lf, e] => do
    pure (.icmp6 (← nat t) (← nat c) (← nat id) (← nat sq) ((← nat lf) != 0) (← extList e))
  | ["raw", h] => do pure (.raw (← parseHex h))
  | ["pppoe", c, s, p, t] => do pure (.pppoe (← nat c) (← nat s) (← nat p) (← typedList t))
  | ["mpls", l, e, b, t] => do pure (.mpls (← nat l) (← nat e) (← nat b) (← nat t))
  | ["dot3", d, s] => do pure (.dot3 (← parseHex d) (← parseHex s))
  | ["snap", c, o, t] => do pure (.snap (← nat c) (← nat o) (← nat t))
  | ["llc", d, s] => do pure (.llc (← nat d) (← nat s))
  | ["loop", f] => do pure (.loop (← nat f))
  | ["sll", p, lt, ll, a, pr] => do pure (.sll (← nat p) (← nat lt) (← nat ll) (← parseHex a) (← nat pr))
  | ["ah", spi, sq, icv, nh] => do pure (.ah (← nat spi) (← nat sq) (← parseHex icv) (← nat nh))
  | ["esp", spi, sq] => do pure (.esp (← nat spi) (← nat sq))
  | ["radiotap", f] => do pure (.radiotap ((← nat f) != 0))
  | ["eapol", kl, k] => do pure (.eapol (← nat kl) (← parseHex k))
  | _ => none

def splitLayers (ws : List String) : List (List String) :=
  let (cur, acc) := ws.foldl (fun (cur, acc) w => if w == "|" then ([], acc ++ [cur]) else (cur ++ [w], acc)) ([], [])
  acc ++ [cur]

def parseStack (ws : List String) : Option (List Layer) := (splitLayers ws).mapM parseLayer

/-- `L=kind:hdr:trl;...` as printed by the harness -/
def parseReported (s : String) : Option (List Layer) :=
  (s.splitOn ";").mapM (fun item => match item.splitOn ":" with
    | [k, h, t] => do pure (.opaque k (← nat h) (← nat t))
    | _ => none)

def showLayers (ls : List (String × Nat × Nat)) : String :=
  joinWith ";" (ls.map (fun (k, h, t) => s!"{k}:{h}:{t}"))

/-- model mode -/
def step (st : Unit) (line : String) : Unit × String :=
  match words line with
  | ["sum", h] => match parseHex h with
    | some b => (st, s!"sum={sumRange b} do={doChecksum b}")
    | none => (st, "bad-op")
  | ["crc", h] => match parseHex h with
    | some b => (st, s!"crc={(crc32 b).toNat}")
    | none => (st, "bad-op")
  | [op, s, d, len, flag] =>
    if op == "ph4" || op == "ph6" then
      match parseHex s, parseHex d, len.toNat?, flag.toNat? with
      | some s, some d, some len, some flag => (st, s!"ph={pseudoSum s d len flag}")
      | _, _, _, _ => (st, "bad-op")
    else (st, "bad-op")
  | "pkt" :: rest => match parseStack rest with
    | some ls => match Ser.serializeTop ls with
      | .ok bytes sizes => (st, s!"ok bytes={toHex bytes} L={showLayers sizes}")
      | .throw e => (st, s!"throw {e}")
      | .unmodelled => (st, "unmodelled")
    | none => (st, "bad-op")
  | _ => (st, "bad-op")

def kv (ws : List String) (key : String) : Option String :=
  ws.findSome? (fun w => if w.startsWith (key ++ "=") then some ((w.drop (key.length + 1)).toString) else none)

/-- layers libtins reports for a *built* packet must be the layers that were built, in order -/
def kindsAgree (built reported : List Layer) : Bool :=
  built.map Layer.kind == reported.map Layer.kind

/-- reported layers of a parsed packet → what the dissector needs (802.1Q padding / FCS presence from the trailer size) -/
def ofReported : Layer → Layer
  | .opaque "eth" _ _ => .eth [] [] 0
  | .opaque "dot1q" _ t => .dot1q 0 0 0 0 (t != 0)
  | .opaque "ip" _ _ => .ip 0 0 0 0 0 0 [] [] []
  | .opaque "tcp" _ _ => .tcp 0 0 0 0 0 0 0 []
  | .opaque "udp" _ _ => .udp 0 0
  | .opaque "dot3" _ _ => .dot3 [] []
  | .opaque "loop" _ _ => .loop 0
  | .opaque "sll" _ _ => .sll 0 0 0 [] 0
  | .opaque "esp" _ _ => .esp 0 0
  | .opaque "mpls" _ _ => .mpls 0 0 0 0
  | .opaque "radiotap" _ t => .radiotap (t != 0)
  | .opaque "icmp" _ t => .icmp 0 0 0 0 0 0 0 false (if t != 0 then [(0, 0, [])] else [])
  | .opaque "icmp6" _ t => .icmp6 0 0 0 0 false (if t != 0 then [(0, 0, [])] else [])
  | .opaque "ip6" h _ => .ip6 0 0 0 h [] [] []
  | l => l

/-- spec mode: each input line is `<op> ||| <implementation output>` -/
def specStep (st : Unit) (line : String) : Unit × String :=
  match line.splitOn " ||| " with
  | [op, out] =>
    let ow := words out
    match words op with
    | ["sum", h] => match parseHex h, (kv ow "sum").bind nat, (kv ow "do").bind nat with
      | some b, some s, some d =>
        if b.length ≥ 131072 then (st, "unspecified")
        else if bswap16 s != Spec.ocSum b then (st, s!"violates sum_range rfc1071={Spec.ocSum b} got-swapped={bswap16 s}")
        else if fold32 d != Spec.ocSum b then (st, s!"violates do_checksum rfc1071={Spec.ocSum b}")
        else (st, "ok")
      | _, _, _ => (st, "violates unparsable-output")
    | ["crc", h] => match parseHex h, (kv ow "crc").bind nat with
      | some b, some c =>
        if c == (Spec.crcBitwise b).toNat then (st, "ok") else (st, s!"violates crc32 ieee={(Spec.crcBitwise b).toNat}")
      | _, _ => (st, "violates unparsable-output")
    | [phop, s, d, len, flag] =>
      match parseHex s, parseHex d, len.toNat?, flag.toNat?, (kv ow "ph").bind nat with
      | some s, some d, some len, some flag, some ph =>
        if len > 65535 || flag > 255 || ph ≥ 4294967296 then (st, "unspecified") else
        let want := if phop == "ph4" then Spec.ocSum (Spec.pseudo4 s d flag len) else Spec.ocSum (Spec.pseudo6 s d flag len)
        if bswap16 (fold32 ph) == want then (st, "ok") else (st, s!"violates pseudo-header rfc={want}")
      | _, _, _, _, _ => (st, "violates unparsable-output")
    | "pkt" :: rest =>
      if ow.head? == some "throw" then (st, "unspecified") else
      match parseStack rest, (kv ow "bytes").bind parseHex, (kv ow "L").bind parseReported with
      | some ls, some bytes, some rep =>
        if bytes.length > 65535 then (st, "unspecified")
        else if !kindsAgree ls rep then (st, "violates layers-reported")
        else match Dissect.check true ls bytes with
          | .ok _ =>
            -- a second serialization of the same object is a serialized packet too
            (match kv ow "again" with
             | none => (st, "ok")
             | some a => match parseHex a with
               | some b2 => (match Dissect.check true ls b2 with
                 | .ok _ => (st, "violates second-serialization differs")
                 | .error e => (st, s!"violates second-serialization {e}"))
               | none => (st, "violates unparsable-output"))
          | .error e => (st, s!"violates {e}")
      | _, _, _ => (st, "violates unparsable-output")
    | "pcap" :: _ =>
      if ow.head? == some "throw" then (st, "unspecified") else
      match kv ow "pf" with
      | some pf =>
        let items := if pf == "" then [] else pf.splitOn ","
        let bad := items.filter (fun it => match it.splitOn ":" with
          | [_, r, e] => r != e
          | _ => true)
        if bad.isEmpty then (st, "ok") else (st, s!"violates pcap-filter {joinWith "," bad}")
      | none => (st, "violates unparsable-output")
    | ["reser", _, _] =>
      if ow.head? == some "throw" then (st, "unspecified") else
      match (kv ow "bytes").bind parseHex, (kv ow "L").bind parseReported with
      | some bytes, some rep =>
        if bytes.length > 65535 then (st, "unspecified")
        else match Dissect.check false (rep.map ofReported) bytes with
          | .ok _ =>
            (match kv ow "again" with
             | none => (st, "ok")
             | some a => match parseHex a with
               | some b2 => (match Dissect.check false (rep.map ofReported) b2 with
                 | .ok _ => (st, "violates second-serialization differs")
                 | .error e => (st, s!"violates second-serialization {e}"))
               | none => (st, "violates unparsable-output"))
          | .error e => (st, s!"violates {e}")
      | _, _ => (st, "violates unparsable-output")
    | _ => (st, "bad-op")
  | _ => (st, "bad-line")

def initModel : Unit := ()
def initSpec : Unit := ()

end Driver.C05
