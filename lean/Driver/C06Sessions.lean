import TinsModel.Tcp.Spec
import TinsModel.Tcp.LegacyFollower
import Driver.Util
/- C06, legacy follower session table: model mode and spec (oracle) mode for the ops
     minit / mconn / mpkt / mpktp      (harness/c06_legacy.cpp)
   plus the rendering / parsing helpers shared with Driver/C06.lean. -/
namespace Driver.C06
open Tins Tins.DT Driver

/-- `<key>:<hex>` for chunks of at most 32 bytes, `<key>:#<len>.<fnv64>` for longer ones (harness/c06_show.h) -/
def showChunk (c : Nat × Bytes) : String :=
  if c.2.length ≤ 32 then s!"{c.1}:{toHex c.2}" else s!"{c.1}:#{c.2.length}.{fnv c.2}"

def showChunks (m : Chunks) : String :=
  joinWith "," ((sortByKey m).map showChunk)

def showDir (t : LStream) : String :=
  s!"{t.seq}/{t.payload.length}/{fnv t.payload}/{showChunks t.frags}"

def kv (ws : List String) (key : String) : Option String :=
  ws.findSome? (fun w => if w.startsWith (key ++ "=") then some ((w.drop (key.length + 1)).toString) else none)

/-- a buffered chunk as printed by a harness: its bytes, or (for long chunks) length and FNV-1a 64 -/
inductive ChunkRepr
  | data (d : Bytes)
  | hashed (len : Nat) (h : Nat)

def parseBuf (s : String) : Option (List (Nat × ChunkRepr)) :=
  if s == "" then some [] else
  (s.splitOn ",").mapM (fun item => match item.splitOn ":" with
    | [k, h] => do
      let k ← k.toNat?
      if h.startsWith "#" then
        match ((h.drop 1).toString).splitOn "." with
        | [l, f] => do let l ← l.toNat?; let f ← f.toNat?; pure (k, ChunkRepr.hashed l f)
        | _ => none
      else do let d ← parseHex h; pure (k, ChunkRepr.data d)
    | _ => none)

/-- A hashed chunk is turned back into bytes for `specOKat`: the slice of the stream it must equal if length and
    hash match that slice, otherwise bytes that make the check fail (out of bounds → the length alone fails it;
    hash mismatch → every byte differs from the slice). -/
def resolveChunk (s : Bytes) (k seq : Nat) (c : Nat × ChunkRepr) : Nat × Bytes :=
  match c.2 with
  | .data d => (c.1, d)
  | .hashed len h =>
    let a := k + sub32 c.1 seq
    let d := (s.drop a).take len
    if d.length == len && (fnv d).toNat == h then (c.1, d)
    else if d.length == len then (c.1, d.map (· + 1))
    else (c.1, List.replicate len 0)

def parseInt (s : String) : Option Int :=
  if s.startsWith "-" then (s.drop 1).toString.toNat?.map (fun n => - (n : Int)) else s.toNat?.map (fun n => (n : Int))

/-! ### model mode -/

def showInfo (i : SInfo) : String := s!"{i.ca}.{i.sa}.{i.cp}.{i.sp}"

def showSnap (t : TStream) : String :=
  s!"{t.id}/{t.c.payload.length}.{fnv t.c.payload}/{t.s.payload.length}.{fnv t.s.payload}"

def showEv : LEv → String
  | .data t => "D" ++ showSnap t
  | .fin t => "E" ++ showSnap t

/-- `std::map` iteration order: insertion sort by `StreamInfo::operator<` -/
def sortSessions (m : Sessions) : Sessions :=
  m.foldl (fun acc x =>
    let (lo, hi) := acc.partition (fun y => !x.1.lt y.1)
    lo ++ [x] ++ hi) []

def showSession (e : SInfo × TStream) : String :=
  let b (x : Bool) := if x then "1" else "0"
  s!"{showInfo e.1}|{e.2.id}|{showInfo e.2.info}|{b e.2.synAck}{b e.2.fin}|{showDir e.2.c}|{showDir e.2.s}"

def showTable (f : LFollower) (evs : List LEv) : String :=
  let e := if evs.isEmpty then "-" else joinWith "," (evs.map showEv)
  let s := if f.sessions.isEmpty then "-" else joinWith ";" ((sortSessions f.sessions).map showSession)
  s!"ev={e} sess={s}"

/-- `mpkt <src> <dst> <sport> <dport> <flags> <seq> <ack> <hex|-|~>`; `reparsed`: a TCP PDU parsed from bytes has no
    `RawPDU` layer when there are no payload bytes -/
def parsePkt (ws : List String) (reparsed : Bool) : Option LPkt :=
  match ws with
  | src :: dst :: sp :: dp :: fl :: seq :: ack :: pl :: _ => do
    let src ← src.toNat?; let dst ← dst.toNat?; let sp ← sp.toNat?; let dp ← dp.toNat?
    let fl ← fl.toNat?; let seq ← seq.toNat?; let ack ← ack.toNat?
    let payload : Option Bytes ←
      if pl == "~" then pure none else do
        let d ← parseHex pl
        pure (if reparsed && d.isEmpty then none else some d)
    pure { src := src, dst := dst, sport := sp, dport := dp, flags := fl % 4096, seq := seq, ack := ack, payload := payload }
  | _ => none

def stepSessions (f : LFollower) (ws : List String) : Option (LFollower × String) :=
  match ws with
  | "minit" :: _ => some ({}, showTable {} [])
  | "mconn" :: _ => some (f, "decl")
  | op :: rest =>
    if op == "mpkt" || op == "mpktp" then
      match parsePkt rest (op == "mpktp") with
      | some p => let r := f.callback p; some (r.1, showTable r.1 r.2)
      | none => some (f, "bad-op")
    else none
  | [] => none

/-! ### oracle mode -/

/-- one direction of a session as printed -/
structure DirSeen where
  seq : Nat
  plen : Nat
  ph : Nat
  buf : List (Nat × ChunkRepr)

def parseDir (s : String) : Option DirSeen :=
  match s.splitOn "/" with
  | [seq, plen, ph, fr] => do
    let seq ← seq.toNat?; let plen ← plen.toNat?; let ph ← ph.toNat?; let buf ← parseBuf fr
    pure { seq := seq, plen := plen, ph := ph, buf := buf }
  | _ => none

def parseInfo (s : String) : Option SInfo :=
  match s.splitOn "." with
  | [a, b, c, d] => do
    let a ← a.toNat?; let b ← b.toNat?; let c ← c.toNat?; let d ← d.toNat?
    pure ⟨a, b, c, d⟩
  | _ => none

structure SessSeen where
  raw : String
  key : SInfo
  id : Nat
  info : SInfo
  flags : String
  c : DirSeen
  s : DirSeen

def parseSess (s : String) : Option SessSeen :=
  match s.splitOn "|" with
  | [k, id, info, fl, c, sv] => do
    let k ← parseInfo k; let id ← id.toNat?; let info ← parseInfo info
    let c ← parseDir c; let sv ← parseDir sv
    pure { raw := s, key := k, id := id, info := info, flags := fl, c := c, s := sv }
  | _ => none

structure EvSeen where
  fin : Bool
  id : Nat
  clen : Nat
  ch : Nat
  slen : Nat
  sh : Nat

def parseEv (s : String) : Option EvSeen :=
  let kind := s.take 1
  match ((s.drop 1).toString).splitOn "/" with
  | [id, c, sv] =>
    match c.splitOn ".", sv.splitOn "." with
    | [cl, ch], [sl, sh] => do
      let id ← id.toNat?; let cl ← cl.toNat?; let ch ← ch.toNat?; let sl ← sl.toNat?; let sh ← sh.toNat?
      if kind.toString == "D" then pure ⟨false, id, cl, ch, sl, sh⟩
      else if kind.toString == "E" then pure ⟨true, id, cl, ch, sl, sh⟩ else none
    | _, _ => none
  | _ => none

def parseTable (out : String) : Option (List EvSeen × List SessSeen) := do
  let ow := words out
  let ev ← kv ow "ev"
  let se ← kv ow "sess"
  let evs ← if ev == "-" then pure [] else (ev.splitOn ",").mapM parseEv
  let ss ← if se == "-" then pure [] else (se.splitOn ";").mapM parseSess
  pure (evs, ss)

/-- a declared connection: client endpoint `(ca, cp)`, server endpoint `(sa, sp)`, the two byte streams and what has
    arrived of them; `phase`: 0 no session, 1 SYN seen, 2 established, 3 ended -/
structure OConn where
  idx : Nat
  tuple : SInfo
  cisn : Nat
  sisn : Nat
  sc : Bytes
  ss : Bytes
  hc : List Seg := []
  hs : List Seg := []
  kc : Nat := 0
  ks : Nat := 0
  phase : Nat := 0
  id : Nat := 0
  /-- the connection left the scripted fragment (simultaneous open, data before the handshake completed, ...) -/
  offScript : Bool := false

structure OFol where
  conns : List OConn := []
  created : Nat := 0
  prev : List SessSeen := []

/-- the spec's verdict on one direction of a live session: delivered = the prefix up to the frontier, and
    `specOKat` for the expected sequence number and the buffered fragments -/
def checkDir (tag : String) (s : Bytes) (isn k : Nat) (d : DirSeen) : Option String :=
  let pref := s.take k
  if d.plen != k || d.ph != (fnv pref).toNat then some s!"violates delivered-prefix dir={tag} k={k} plen={d.plen}"
  else
    let buf : Chunks := d.buf.map (resolveChunk s k d.seq)
    let total := (buf.map (fun c => c.2.length)).sum
    if !specOKat s isn k ⟨d.seq, total, pref, buf⟩ then some s!"violates buffered-state dir={tag} k={k}" else none

def firstSome (xs : List (Option String)) : Option String := xs.findSome? id

def setConn (cs : List OConn) (c : OConn) : List OConn := cs.map (fun x => if x.idx == c.idx then c else x)

def sameRaw (a b : List SessSeen) : Bool := a.map (·.raw) == b.map (·.raw)

/-- `mconn <i> <ca> <sa> <cp> <sp> <cisn> <sisn> <chex> <shex>` -/
def parseConn (ws : List String) : Option OConn :=
  match ws with
  | [i, ca, sa, cp, sp, cisn, sisn, ch, sh] => do
    let i ← i.toNat?; let ca ← ca.toNat?; let sa ← sa.toNat?; let cp ← cp.toNat?; let sp ← sp.toNat?
    let cisn ← cisn.toNat?; let sisn ← sisn.toNat?; let sc ← parseHex ch; let ss ← parseHex sh
    pure { idx := i, tuple := ⟨ca, sa, cp, sp⟩, cisn := cisn, sisn := sisn, sc := sc, ss := ss }
  | _ => none

/-- the oracle for one packet.  Clauses (all evaluated on the implementation's own output):
    * `frame-other-session`   sessions of other 4-tuples are exactly as they were;
    * `functor-foreign-stream` every functor call names a stream of the packet's own connection;
    * `stream-id`              at most one stream is created per packet and it gets the next identifier (0, 1, 2, ...);
    * `session-created`        a SYN without ACK on an unknown 4-tuple creates one session, `stream_info()` = the tuple of the
                               SYN, no functor call; nothing else creates a session;
    * `handshake`              the SYN+ACK fixes both expected sequence numbers (client: its ACK number, server: seq + 1);
    * `delivered-prefix` / `buffered-state`   per direction, C06's spec (`specOKat`) for the bytes that arrived so far;
    * `data-functor`           called exactly when one of the two delivered prefixes grew, handed the stream with the
                               grown payload;
    * `end-functor`            called exactly once, for the first segment with FIN or RST after the handshake, after the
                               data functor of that segment; `session-not-erased`: the session is gone afterwards and
                               stays gone (no functor call, no session) until a new SYN. -/
def oraclePkt (st : OFol) (p : LPkt) (off : Option Int) (evs : List EvSeen) (ss : List SessSeen) : OFol × String :=
  let mine (x : SessSeen) : Bool := x.info == p.info || x.info == p.info.swap
  let st1 : OFol := { st with prev := ss }
  if !sameRaw (st.prev.filter (fun x => !mine x)) (ss.filter (fun x => !mine x)) then (st1, "violates frame-other-session")
  else
  let myPrev := st.prev.filter mine
  let myNow := ss.filter mine
  if evs.any (fun e => !(myPrev.any (fun x => x.id == e.id))) then (st1, "violates functor-foreign-stream")
  else
  -- identifiers: at most one stream is created per packet and it gets the next identifier
  let fresh := ss.filter (fun x => !(st.prev.any (fun y => y.id == x.id)))
  if fresh.length > 1 || fresh.any (fun x => x.id != st.created) then
    (st1, s!"violates stream-id want={st.created} got={fresh.map (·.id)}")
  else
  let st1 : OFol := { st1 with created := st.created + fresh.length }
  let st : OFol := { st with created := st.created + fresh.length }
  match st.conns.find? (fun c => !c.offScript && (c.tuple == p.info || c.tuple.swap == p.info)) with
  | none => (st1, "unspecified")
  | some c =>
    let fromClient := c.tuple == p.info && !(c.tuple.swap == p.info && c.phase == 0)
    let leave : OFol × String := ({ st1 with conns := setConn st.conns { c with offScript := true } }, "unspecified")
    if c.tuple == c.tuple.swap then leave else
    if c.phase == 0 || c.phase == 3 then
      if p.syn && !p.ackf then
        if !fromClient || c.phase == 3 then leave else
        match myNow with
        | [x] =>
          if !evs.isEmpty || x.info != c.tuple || fresh.length != 1 || x.flags != "00" then
            (st1, s!"violates session-created id={x.id}")
          else ({ st1 with conns := setConn st.conns { c with phase := 1, id := x.id } }, "ok")
        | _ => (st1, s!"violates session-created sessions={myNow.length}")
      else if !evs.isEmpty then
        (st1, if c.phase == 3 then "violates end-functor repeated-after-end" else "violates session-created functor-without-session")
      else if !myNow.isEmpty then
        (st1, if c.phase == 3 then "violates session-not-erased" else "violates session-created without-syn")
      else (st1, "ok")
    else if c.phase == 1 then
      if p.syn && !p.ackf && fromClient then
        if !evs.isEmpty || !sameRaw myPrev myNow then (st1, "violates handshake syn-retransmission") else (st1, "ok")
      else if p.syn && p.ackf && !fromClient && p.ack == c.cisn && wrap32 (p.seq + 1) == c.sisn then
        match myNow with
        | [x] =>
          if !evs.isEmpty || x.id != c.id || x.info != c.tuple || x.flags != "10" || x.c.seq != c.cisn || x.s.seq != c.sisn
              || x.c.plen != 0 || x.s.plen != 0 || !x.c.buf.isEmpty || !x.s.buf.isEmpty then
            (st1, "violates handshake")
          else ({ st1 with conns := setConn st.conns { c with phase := 2 } }, "ok")
        | _ => (st1, "violates handshake session-lost")
      else leave
    else
      -- established
      if p.syn then leave else
      let arrival : Option (Option Seg) := match p.payload, off with
        | none, _ => some none
        | some d, some o => some (some ⟨o, d.length⟩)
        | some _, none => none
      match arrival with
      | none => leave
      | some a =>
        let c1 : OConn := match a with
          | none => c
          | some g =>
            if fromClient then
              let h := g :: c.hc; { c with hc := h, kc := advanceFrom h c.sc.length (c.sc.length + 1) c.kc }
            else
              let h := g :: c.hs; { c with hs := h, ks := advanceFrom h c.ss.length (c.ss.length + 1) c.ks }
        let grew := decide (c.kc < c1.kc) || decide (c.ks < c1.ks)
        let finishing := p.fin || p.rst
        let c2 : OConn := if finishing then { c1 with phase := 3 } else c1
        let st2 : OFol := { st1 with conns := setConn st.conns c2 }
        let nData := (evs.filter (fun e => !e.fin)).length
        let nEnd := (evs.filter (fun e => e.fin)).length
        let snapOK (e : EvSeen) : Bool :=
          e.id == c.id && e.clen == c1.kc && e.ch == (fnv (c1.sc.take c1.kc)).toNat &&
          e.slen == c1.ks && e.sh == (fnv (c1.ss.take c1.ks)).toNat
        if nData != (if grew then 1 else 0) then (st2, s!"violates data-functor grew={grew} fired={nData}")
        else if nEnd != (if finishing then 1 else 0) then (st2, s!"violates end-functor want={finishing} fired={nEnd}")
        else if (evs.map (·.fin)) != ((if grew then [false] else []) ++ (if finishing then [true] else [])) then
          (st2, "violates end-functor order")
        else if !evs.all snapOK then (st2, "violates functor-snapshot")
        else if finishing then
          if !myNow.isEmpty then (st2, "violates session-not-erased") else (st2, "ok")
        else match myNow with
          | [x] =>
            if x.id != c.id || x.info != c.tuple || x.flags != "10" then (st2, "violates session-identity")
            else match firstSome [checkDir "c" c1.sc c1.cisn c1.kc x.c, checkDir "s" c1.ss c1.sisn c1.ks x.s] with
              | some v => (st2, v)
              | none => (st2, "ok")
          | _ => (st2, s!"violates session-lost sessions={myNow.length}")

def specSessions (st : OFol) (ws : List String) (out : String) : Option (OFol × String) :=
  match ws with
  | "minit" :: _ => some ({}, if words out == ["ev=-", "sess=-"] then "ok" else "violates fresh-follower")
  | "mconn" :: rest =>
    match parseConn rest with
    | some c => some ({ st with conns := c :: st.conns.filter (fun x => x.idx != c.idx) }, "ok")
    | none => some (st, "unspecified")
  | op :: rest =>
    if op == "mpkt" || op == "mpktp" then
      match parsePkt rest (op == "mpktp"), parseTable out with
      | some p, some (evs, ss) =>
        let off : Option Int := (rest.drop 8).head?.bind (fun w => if w.startsWith "@" then parseInt ((w.drop 1).toString) else none)
        some (oraclePkt st p off evs ss)
      | _, _ => some (st, "violates unparsable-output")
    else none
  | [] => none

end Driver.C06
