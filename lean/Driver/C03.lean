import Driver.Wire
import Driver.WireSpec
/- property C03: model mode = the shared wire driver; spec mode = Driver.WireSpec.spec03 -/
namespace Driver.C03
open Driver

def step := Wire.step
def initModel : Wire.State := {}
def specStep := WireSpec.spec03
def initSpec : WireSpec.SState := {}

end Driver.C03
