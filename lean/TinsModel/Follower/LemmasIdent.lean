import TinsModel.Follower.Spec
/- Lemmas about `StreamIdentifier` (model: `mkIdent`, `identOf`) and the reference key. -/
namespace Tins.SF

/-- two (address, port, address, port) tuples name the same unordered pair of endpoints -/
def SameEndpoints (a p b q a' p' b' q' : Nat) : Prop :=
  (a = a' ∧ p = p' ∧ b = b' ∧ q = q') ∨ (a = b' ∧ p = q' ∧ b = a' ∧ q = p')

instance (a p b q a' p' b' q' : Nat) : Decidable (SameEndpoints a p b q a' p' b' q') := by
  unfold SameEndpoints; exact inferInstance

theorem mkIdent_eq_iff (a p b q a' p' b' q' : Nat) :
    mkIdent a p b q = mkIdent a' p' b' q' ↔ SameEndpoints a p b q a' p' b' q' := by
  unfold mkIdent SameEndpoints
  split <;> split <;> (try split) <;> (try split) <;> simp only [Ident.mk.injEq] <;> omega

theorem mkRefKey_eq_iff (v v' : Bool) (a p b q a' p' b' q' : Nat) :
    mkRefKey v a p b q = mkRefKey v' a' p' b' q' ↔ v = v' ∧ SameEndpoints a p b q a' p' b' q' := by
  unfold mkRefKey SameEndpoints
  split <;> split <;> (try split) <;> (try split) <;> simp only [RefKey.mk.injEq] <;>
    (constructor <;> intro h <;> (try refine ⟨h.1, ?_⟩) <;> omega)

theorem pad_inj (v : Bool) (a b : Nat) : pad v a = pad v b ↔ a = b := by
  unfold pad; split <;> omega

/-- the identifier the code computes from a reference key is the identifier of the packet -/
theorem ident_refKeyOf (p : Pkt) : (refKeyOf p).ident = identOf p := by
  unfold refKeyOf RefKey.ident identOf mkRefKey
  split
  · rename_i h
    simp only
    rw [mkIdent_eq_iff]; right; exact ⟨rfl, rfl, rfl, rfl⟩
  · split
    · simp only
      rw [mkIdent_eq_iff]; right
      rename_i h; obtain ⟨h1, _⟩ := h
      refine ⟨by rw [h1], rfl, by rw [h1], rfl⟩
    · simp only

end Tins.SF
