import TinsModel.Follower.LemmasMap
import TinsModel.Follower.LemmasFlow
/- Step-level facts about the follower model: shape of `stepCore` / `touch`, invariants (unique keys, limits). -/
namespace Tins.SF
variable {κ : Type} [DecidableEq κ]

/-- may the packet start a connection: initial SYN, or data when attaching is enabled -/
def startable (cfg : Cfg) (p : Pkt) : Bool := (p.syn && !p.ackf) || (cfg.attach && p.payload.isSome)

/-- the stream created for a packet of no live connection -/
def fresh (cfg : Cfg) (p : Pkt) : Stream :=
  if (p.syn && !p.ackf) then Stream.ofPacket cfg p else (Stream.ofPacket cfg p).established

/-- the stream the packet is processed on (found, or created), if any -/
def target (cfg : Cfg) (keyOf : Pkt → κ) (F : Follower κ) (p : Pkt) : Option Stream :=
  match find? F.streams (keyOf p) with
  | some s => some s
  | none => if startable cfg p then some (fresh cfg p) else none

/-- does the packet make the follower announce a new connection -/
def announces (cfg : Cfg) (keyOf : Pkt → κ) (F : Follower κ) (p : Pkt) : Bool :=
  (find? F.streams (keyOf p)).isNone && startable cfg p

/-- the stream after `Stream::process_packet` -/
def after (s : Stream) (p : Pkt) : Stream := (s.processPacket p).1

/-- is the stream erased at the end of `StreamFollower::process_packet` -/
def erasedNow (cfg : Cfg) (s : Stream) (p : Pkt) : Bool := (after s p).isFinished || terminated cfg (after s p)

/-- the termination reason the limits check reports -/
def limitReason (cfg : Cfg) (s : Stream) : Reason := if overLimit cfg s then .bufferedData else .sackedSegments

theorem established_sid (s : Stream) : s.established.sid = s.sid := rfl
theorem established_isPartial (s : Stream) : s.established.isPartial = s.isPartial := rfl

theorem fresh_sid (cfg : Cfg) (p : Pkt) : (fresh cfg p).sid = (Stream.ofPacket cfg p).sid := by
  unfold fresh; split <;> rfl
theorem fresh_isPartial (cfg : Cfg) (p : Pkt) : (fresh cfg p).isPartial = (Stream.ofPacket cfg p).isPartial := by
  unfold fresh; split <;> rfl

theorem touch_fst (cfg : Cfg) (F : Follower κ) (k : κ) (s : Stream) (p : Pkt) :
    (touch cfg F k s p).1 =
      { F with streams := if erasedNow cfg s p then remove F.streams k else store F.streams k (after s p) } := by
  unfold touch erasedNow after
  simp only
  split <;> rfl

theorem touch_snd (cfg : Cfg) (F : Follower κ) (k : κ) (s : Stream) (p : Pkt) :
    (touch cfg F k s p).2 =
      (s.processPacket p).2.map (liftEv k (after s p).sid) ++
      (if terminated cfg (after s p) then
         [Ev.term k (after s p).sid (limitReason cfg (after s p)) (after s p).chunks (after s p).bytes (after s p).sacked]
       else []) := rfl

theorem stepCore_eq (cfg : Cfg) (keyOf : Pkt → κ) (F : Follower κ) (p : Pkt) :
    stepCore cfg keyOf F p =
      match target cfg keyOf F p with
      | none => (F, [])
      | some s => ((touch cfg F (keyOf p) s p).1,
          (if announces cfg keyOf F p then [Ev.new (keyOf p) s.sid s.isPartial] else []) ++ (touch cfg F (keyOf p) s p).2) := by
  unfold stepCore target announces startable
  dsimp only
  cases h : find? F.streams (keyOf p) with
  | some s => simp
  | none =>
    simp only [Option.isNone_none, Bool.true_and]
    by_cases hs : ((p.syn && !p.ackf) || (cfg.attach && p.payload.isSome)) = true
    · simp only [hs, if_true]
      unfold fresh
      by_cases h2 : (p.syn && !p.ackf) = true
      · simp [h2]
      · simp only [h2]
        simp [established_sid, established_isPartial]
    · simp only [hs]
      simp

/-! ### invariants -/

/-- a stream within the three limits: buffered chunks, buffered bytes, SACKed intervals -/
def within (cfg : Cfg) (s : Stream) : Prop :=
  s.chunks ≤ cfg.maxChunks ∧ s.bytes ≤ cfg.maxBytes ∧ s.sacked ≤ cfg.maxSacked

theorem within_of_not_terminated {cfg : Cfg} {s : Stream} (h : terminated cfg s = false) : within cfg s := by
  unfold terminated overSacked overLimit at h
  simp only [Bool.or_eq_false_iff, Bool.and_eq_false_iff, Bool.not_eq_false', decide_eq_false_iff_not,
    Bool.or_eq_true, decide_eq_true_eq] at h
  unfold within; omega

theorem mem_store {m : List (κ × Stream)} {k : κ} {s : Stream} {e : κ × Stream} :
    e ∈ store m k s ↔ e = (k, s) ∨ (e ∈ m ∧ e.1 ≠ k) := by
  unfold store; rw [List.mem_cons, mem_remove]

theorem stepCore_streams_mem (cfg : Cfg) (keyOf : Pkt → κ) (F : Follower κ) (p : Pkt) (e : κ × Stream)
    (he : e ∈ (stepCore cfg keyOf F p).1.streams) :
    e ∈ F.streams ∨ (∃ s, target cfg keyOf F p = some s ∧ erasedNow cfg s p = false ∧ e = (keyOf p, after s p)) := by
  rw [stepCore_eq] at he
  cases ht : target cfg keyOf F p with
  | none => rw [ht] at he; exact Or.inl he
  | some s =>
    rw [ht] at he
    simp only [touch_fst] at he
    by_cases hr : erasedNow cfg s p = true
    · simp only [hr, if_true] at he; exact Or.inl (mem_remove.1 he).1
    · simp only [hr, Bool.false_eq_true, if_false] at he
      rcases mem_store.1 he with h | h
      · exact Or.inr ⟨s, rfl, by simpa using hr, h⟩
      · exact Or.inl h.1

omit [DecidableEq κ] in
theorem maybeCleanup_streams_mem (cfg : Cfg) (lt : κ → κ → Bool) (F : Follower κ) (ts : Nat) (e : κ × Stream)
    (he : e ∈ (maybeCleanup cfg lt F ts).1.streams) : e ∈ F.streams := by
  unfold maybeCleanup at he
  split at he
  · unfold cleanup at he; exact (List.mem_filter.1 he).1
  · exact he

theorem step_within (cfg : Cfg) (keyOf : Pkt → κ) (lt : κ → κ → Bool) (F : Follower κ) (p : Pkt)
    (h : ∀ e ∈ F.streams, within cfg e.2) : ∀ e ∈ (step cfg keyOf lt F p).1.streams, within cfg e.2 := by
  intro e he
  unfold step at he
  have he := maybeCleanup_streams_mem _ _ _ _ _ he
  rcases stepCore_streams_mem _ _ _ _ _ he with h1 | ⟨s, _, hr, rfl⟩
  · exact h e h1
  · unfold erasedNow at hr
    simp only [Bool.or_eq_false_iff] at hr
    exact within_of_not_terminated hr.2

theorem run_within (cfg : Cfg) (keyOf : Pkt → κ) (lt : κ → κ → Bool) (h : List Pkt) (F : Follower κ)
    (hF : ∀ e ∈ F.streams, within cfg e.2) : ∀ e ∈ (run cfg keyOf lt F h).1.streams, within cfg e.2 := by
  induction h generalizing F with
  | nil => exact hF
  | cons p ps ih => unfold run; exact ih _ (step_within cfg keyOf lt F p hF)

theorem stepCore_unique (cfg : Cfg) (keyOf : Pkt → κ) (F : Follower κ) (p : Pkt) (hu : UniqueKeys F.streams) :
    UniqueKeys (stepCore cfg keyOf F p).1.streams := by
  rw [stepCore_eq]
  cases target cfg keyOf F p with
  | none => exact hu
  | some s =>
    simp only [touch_fst]
    split
    · exact unique_remove hu _
    · exact unique_store hu _ _

omit [DecidableEq κ] in
theorem maybeCleanup_unique (cfg : Cfg) (lt : κ → κ → Bool) (F : Follower κ) (ts : Nat) (hu : UniqueKeys F.streams) :
    UniqueKeys (maybeCleanup cfg lt F ts).1.streams := by
  unfold maybeCleanup
  split
  · unfold cleanup; exact unique_filter hu _
  · exact hu

theorem step_unique (cfg : Cfg) (keyOf : Pkt → κ) (lt : κ → κ → Bool) (F : Follower κ) (p : Pkt) (hu : UniqueKeys F.streams) :
    UniqueKeys (step cfg keyOf lt F p).1.streams := by
  unfold step; exact maybeCleanup_unique _ _ _ _ (stepCore_unique _ _ _ _ hu)

omit [DecidableEq κ] in
theorem empty_unique : UniqueKeys (Follower.empty : Follower κ).streams := by
  unfold UniqueKeys keys Follower.empty; exact List.nodup_nil

end Tins.SF
