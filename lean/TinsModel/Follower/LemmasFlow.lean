import TinsModel.Follower.Model
/- Field-level facts about `Flow::update_state` / the ACK-tracker call / `Flow::process_packet`. -/
namespace Tins.SF
open Tins Tins.DT

theorem updateState_addr (f : Flow) (p : Pkt) :
    (f.updateState p).v6 = f.v6 ∧ (f.updateState p).dst = f.dst ∧ (f.updateState p).dport = f.dport := by
  unfold Flow.updateState
  split
  · exact ⟨rfl, rfl, rfl⟩
  · split
    · exact ⟨rfl, rfl, rfl⟩
    · split
      · exact ⟨rfl, rfl, rfl⟩
      · split <;> exact ⟨rfl, rfl, rfl⟩

theorem trackAck_fields (f : Flow) (p : Pkt) :
    (f.trackAck p).state = f.state ∧ (f.trackAck p).v6 = f.v6 ∧ (f.trackAck p).dst = f.dst ∧
    (f.trackAck p).dport = f.dport ∧ (f.trackAck p).tr = f.tr ∧ (f.trackAck p).ignoreData = f.ignoreData ∧
    (f.trackAck p).ackTracking = f.ackTracking ∧ (f.trackAck p).mss = f.mss ∧
    (f.trackAck p).sackPermitted = f.sackPermitted := by
  unfold Flow.trackAck; split <;> exact ⟨rfl, rfl, rfl, rfl, rfl, rfl, rfl, rfl, rfl⟩

theorem updateState_flags (f : Flow) (p : Pkt) :
    (f.updateState p).ignoreData = f.ignoreData ∧ (f.updateState p).ackTracking = f.ackTracking := by
  unfold Flow.updateState
  split
  · exact ⟨rfl, rfl⟩
  · split
    · exact ⟨rfl, rfl⟩
    · split
      · exact ⟨rfl, rfl⟩
      · split <;> exact ⟨rfl, rfl⟩

theorem pre_fields (f : Flow) (p : Pkt) :
    (f.pre p).state = (f.updateState p).state ∧ (f.pre p).v6 = f.v6 ∧ (f.pre p).dst = f.dst ∧ (f.pre p).dport = f.dport ∧
    (f.pre p).tr = (f.updateState p).tr ∧ (f.pre p).ignoreData = f.ignoreData ∧ (f.pre p).ackTracking = f.ackTracking := by
  obtain ⟨h1, h2, h3⟩ := updateState_addr f p
  obtain ⟨h4, h5⟩ := updateState_flags f p
  obtain ⟨t1, t2, t3, t4, t5, t6, t7, _, _⟩ := trackAck_fields (f.updateState p) p
  unfold Flow.pre
  exact ⟨t1, t2.trans h1, t3.trans h2, t4.trans h3, t5, t6.trans h4, t7.trans h5⟩

/-- outside the `UNKNOWN -> SYN_SENT` transition `update_state` leaves the reassembly state alone -/
theorem updateState_tr (f : Flow) (p : Pkt) (h : f.state ≠ .unknown ∨ p.syn = false ∨ p.rst = true ∨ p.fin = true) :
    (f.updateState p).tr = f.tr := by
  unfold Flow.updateState
  split
  · rfl
  · split
    · rfl
    · split
      · rfl
      · split
        · rename_i h1 h2 _ h4
          rcases h with h | h | h | h
          · exact absurd h4.1 h
          · rw [h4.2] at h; cases h
          · exact absurd h h1
          · exact absurd h h2
        · rfl

/-- the `UNKNOWN -> SYN_SENT` transition sets the expected sequence number to the one after the SYN -/
theorem updateState_tr_syn (f : Flow) (p : Pkt) (hs : f.state = .unknown) (h1 : p.syn = true) (h2 : p.rst = false)
    (h3 : p.fin = false) : (f.updateState p).tr = { f.tr with seq := wrap32 (p.seq + 1) } := by
  unfold Flow.updateState
  simp [hs, h1, h2, h3]

theorem processPacket_none (f : Flow) (p : Pkt) (h : p.payload = none) : f.processPacket p = (f.pre p, none, false) := by
  unfold Flow.processPacket
  simp only [h]
  split <;> rfl

theorem processPacket_some (f : Flow) (p : Pkt) (d : Bytes) (hi : (f.pre p).ignoreData = false) (h : p.payload = some d) :
    f.processPacket p =
      ({ f.pre p with tr := (processPayload (f.pre p).tr p.dataSeq d).1 },
       (if seqCompare (wrap32 (p.dataSeq + d.length)) (f.pre p).tr.seq < 0 ∨ seqCompare p.dataSeq (f.pre p).tr.seq > 0
         then some (p.dataSeq, d) else none),
       (processPayload (f.pre p).tr p.dataSeq d).2) := by
  unfold Flow.processPacket
  simp only [h, hi, Bool.false_eq_true, if_false]

end Tins.SF
