import TinsModel.Follower.Model
/- Field-level facts about `Flow::update_state` / the ACK-tracker call / `Flow::process_packet`. -/
namespace Tins.SF
open Tins Tins.DT

theorem updateState_addr (f : Flow) (p : Pkt) :
    (f.updateState p).v6 = f.v6 ∧ (f.updateState p).dst = f.dst ∧ (f.updateState p).dport = f.dport := by
  unfold Flow.updateState
  split
  · exact ⟨rfl, rfl, rfl⟩
  · split
    · exact ⟨rfl, rfl, rfl⟩
    · split
      · exact ⟨rfl, rfl, rfl⟩
      · split <;> exact ⟨rfl, rfl, rfl⟩

theorem trackAck_fields (f : Flow) (p : Pkt) :
    (f.trackAck p).state = f.state ∧ (f.trackAck p).v6 = f.v6 ∧ (f.trackAck p).dst = f.dst ∧
    (f.trackAck p).dport = f.dport ∧ (f.trackAck p).tr = f.tr ∧ (f.trackAck p).ignoreData = f.ignoreData ∧
    (f.trackAck p).ackTracking = f.ackTracking ∧ (f.trackAck p).mss = f.mss ∧
    (f.trackAck p).sackPermitted = f.sackPermitted := by
  unfold Flow.trackAck; split <;> exact ⟨rfl, rfl, rfl, rfl, rfl, rfl, rfl, rfl, rfl⟩

theorem updateState_flags (f : Flow) (p : Pkt) :
    (f.updateState p).ignoreData = f.ignoreData ∧ (f.updateState p).ackTracking = f.ackTracking := by
  unfold Flow.updateState
  split
  · exact ⟨rfl, rfl⟩
  · split
    · exact ⟨rfl, rfl⟩
    · split
      · exact ⟨rfl, rfl⟩
      · split <;> exact ⟨rfl, rfl⟩

theorem pre_fields (f : Flow) (p : Pkt) :
    (f.pre p).state = (f.updateState p).state ∧ (f.pre p).v6 = f.v6 ∧ (f.pre p).dst = f.dst ∧ (f.pre p).dport = f.dport ∧
    (f.pre p).tr = (f.updateState p).tr ∧ (f.pre p).ignoreData = f.ignoreData ∧ (f.pre p).ackTracking = f.ackTracking := by
  obtain ⟨h1, h2, h3⟩ := updateState_addr f p
  obtain ⟨h4, h5⟩ := updateState_flags f p
  obtain ⟨t1, t2, t3, t4, t5, t6, t7, _, _⟩ := trackAck_fields (f.updateState p) p
  unfold Flow.pre
  exact ⟨t1, t2.trans h1, t3.trans h2, t4.trans h3, t5, t6.trans h4, t7.trans h5⟩

/-- outside the `UNKNOWN -> SYN_SENT` transition `update_state` leaves the reassembly state alone -/
theorem updateState_tr (f : Flow) (p : Pkt) (h : f.state ≠ .unknown ∨ p.syn = false ∨ p.rst = true ∨ p.fin = true) :
    (f.updateState p).tr = f.tr := by
  unfold Flow.updateState
  split
  · rfl
  · split
    · rfl
    · split
      · rfl
      · split
        · rename_i h1 h2 _ h4
          rcases h with h | h | h | h
          · exact absurd h4.1 h
          · rw [h4.2] at h; cases h
          · exact absurd h h1
          · exact absurd h h2
        · rfl

/-- the `UNKNOWN -> SYN_SENT` transition sets the expected sequence number to the one after the SYN -/
theorem updateState_tr_syn (f : Flow) (p : Pkt) (hs : f.state = .unknown) (h1 : p.syn = true) (h2 : p.rst = false)
    (h3 : p.fin = false) : (f.updateState p).tr = { f.tr with seq := wrap32 (p.seq + 1) } := by
  unfold Flow.updateState
  simp [hs, h1, h2, h3]

theorem processPacket_none (f : Flow) (p : Pkt) (h : p.payload = none) : f.processPacket p = (f.pre p, none, false) := by
  unfold Flow.processPacket
  simp only [h]
  split <;> rfl

/-- is the segment out of order for a flow whose tracker expects `cur` -/
def isOoo (p : Pkt) (d : Bytes) (cur : Nat) : Bool :=
  decide (seqCompare (wrap32 (p.dataSeq + d.length)) cur < 0 ∨ seqCompare p.dataSeq cur > 0)

theorem afterOoo_of_none (f1 : Flow) (p : Pkt) (b : Bool) (h : f1.recEnd = none) : f1.afterOoo p b = f1 := by
  unfold Flow.afterOoo; rw [h]; split <;> simp_all

theorem afterOoo_false (f1 : Flow) (p : Pkt) : f1.afterOoo p false = f1 := by
  unfold Flow.afterOoo; split <;> simp_all

theorem afterOoo_fields (f1 : Flow) (p : Pkt) (b : Bool) :
    (f1.afterOoo p b).state = f1.state ∧ (f1.afterOoo p b).v6 = f1.v6 ∧ (f1.afterOoo p b).dst = f1.dst ∧
    (f1.afterOoo p b).dport = f1.dport ∧ (f1.afterOoo p b).ignoreData = f1.ignoreData ∧ (f1.afterOoo p b).ackTr = f1.ackTr := by
  unfold Flow.afterOoo Flow.recover
  split <;> exact ⟨rfl, rfl, rfl, rfl, rfl, rfl⟩

theorem processPacket_some' (f : Flow) (p : Pkt) (d : Bytes) (hi : (f.pre p).ignoreData = false) (h : p.payload = some d) :
    f.processPacket p =
      ({ (f.pre p).afterOoo p (isOoo p d (f.pre p).tr.seq) with
           tr := (processPayload ((f.pre p).afterOoo p (isOoo p d (f.pre p).tr.seq)).tr p.dataSeq d).1 },
       (if seqCompare (wrap32 (p.dataSeq + d.length)) (f.pre p).tr.seq < 0 ∨ seqCompare p.dataSeq (f.pre p).tr.seq > 0
         then some (p.dataSeq, d) else none),
       (processPayload ((f.pre p).afterOoo p (isOoo p d (f.pre p).tr.seq)).tr p.dataSeq d).2) := by
  have e : (if seqCompare (wrap32 (p.dataSeq + d.length)) (f.pre p).tr.seq < 0 ∨ seqCompare p.dataSeq (f.pre p).tr.seq > 0
         then some (p.dataSeq, d) else none).isSome = isOoo p d (f.pre p).tr.seq := by
    unfold isOoo; split <;> simp_all
  unfold Flow.processPacket
  simp only [h, hi, Bool.false_eq_true, if_false, e]

/-- without a recovery handler the out-of-order callback leaves the flow alone -/
theorem processPacket_some (f : Flow) (p : Pkt) (d : Bytes) (hi : (f.pre p).ignoreData = false) (hr : (f.pre p).recEnd = none)
    (h : p.payload = some d) :
    f.processPacket p =
      ({ f.pre p with tr := (processPayload (f.pre p).tr p.dataSeq d).1 },
       (if seqCompare (wrap32 (p.dataSeq + d.length)) (f.pre p).tr.seq < 0 ∨ seqCompare p.dataSeq (f.pre p).tr.seq > 0
         then some (p.dataSeq, d) else none),
       (processPayload (f.pre p).tr p.dataSeq d).2) := by
  rw [processPacket_some' f p d hi h, afterOoo_of_none _ p _ hr]

theorem updateState_recEnd (f : Flow) (p : Pkt) : (f.updateState p).recEnd = f.recEnd := by
  unfold Flow.updateState
  split
  · rfl
  · split
    · rfl
    · split
      · rfl
      · split <;> rfl

theorem pre_recEnd (f : Flow) (p : Pkt) : (f.pre p).recEnd = f.recEnd := by
  have : ∀ g : Flow, (g.trackAck p).recEnd = g.recEnd := by
    intro g; unfold Flow.trackAck; split <;> rfl
  unfold Flow.pre
  rw [this, updateState_recEnd]

end Tins.SF
