import TinsModel.Tcp.DataTracker
/- `DataTracker::process_payload` never reads the delivered payload: it only appends to it.  Hence clearing the payload
   after a delivery (the stream's auto-cleanup) commutes with everything the tracker does. -/
namespace Tins.DT

/-- the tracker with `x` put back in front of its delivered payload -/
def prefixP (x : Bytes) (t : Tracker) : Tracker := { t with payload := x ++ t.payload }

theorem storePayload_prefixP (x : Bytes) (t : Tracker) (q : Nat) (d : Bytes) :
    storePayload (prefixP x t) q d = prefixP x (storePayload t q d) := by
  unfold storePayload prefixP
  simp only
  split
  · rfl
  · split <;> rfl

theorem prefixP_total (x : Bytes) (t : Tracker) (v : Nat) :
    { prefixP x t with total := v } = prefixP x { t with total := v } := rfl

theorem prefixP_deliver (x : Bytes) (t : Tracker) (c : Bytes) (w : Nat) :
    { prefixP x t with payload := (prefixP x t).payload ++ c, seq := w } =
      prefixP x { t with payload := t.payload ++ c, seq := w } := by
  simp [prefixP]

theorem eraseIterator_prefixP (x : Bytes) (t : Tracker) (k c : Nat) :
    eraseIterator (prefixP x t) k c = (prefixP x (eraseIterator t k c).1, (eraseIterator t k c).2) := rfl

theorem drain_prefixP (x : Bytes) (fuel : Nat) (t : Tracker) (it : Option Nat) (a : Bool) :
    drain fuel (prefixP x t) it a = (prefixP x (drain fuel t it a).1, (drain fuel t it a).2) := by
  induction fuel generalizing t it a with
  | zero => rfl
  | succ fuel ih =>
    cases it with
    | none => rfl
    | some key =>
      rw [drain, drain]
      have hb : (prefixP x t).buf = t.buf := rfl
      have hs : (prefixP x t).seq = t.seq := rfl
      have ht : (prefixP x t).total = t.total := rfl
      simp only [hb, hs, ht]
      cases lookup t.buf key with
      | none => rfl
      | some chunk =>
        simp only
        by_cases h1 : seqCompare key t.seq ≤ 0
        · simp only [h1, if_true]
          by_cases h2 : seqCompare key t.seq < 0
          · simp only [h2, if_true]
            by_cases h3 : seqCompare (wrap32 (key + chunk.length)) t.seq > 0
            · simp only [h3, if_true]
              have e1 : ∀ v, ({ seq := t.seq, buf := t.buf, total := v, payload := (prefixP x t).payload } : Tracker) =
                  prefixP x { seq := t.seq, buf := t.buf, total := v, payload := t.payload } := fun _ => rfl
              rw [e1, storePayload_prefixP, eraseIterator_prefixP]
              exact ih _ _ _
            · simp only [h3, if_false]
              rw [eraseIterator_prefixP]
              exact ih _ _ _
          · simp only [h2, if_false]
            have e3 : ∀ w, ({ seq := w, buf := t.buf, total := t.total, payload := (prefixP x t).payload ++ chunk } : Tracker) =
                prefixP x { seq := w, buf := t.buf, total := t.total, payload := t.payload ++ chunk } := by
              intro w; simp [prefixP]
            rw [e3, eraseIterator_prefixP]
            exact ih _ _ _
        · simp only [h1, if_false]

theorem processPayload_prefixP (x : Bytes) (t : Tracker) (q : Nat) (d : Bytes) :
    processPayload (prefixP x t) q d = (prefixP x (processPayload t q d).1, (processPayload t q d).2) := by
  unfold processPayload
  have hs : (prefixP x t).seq = t.seq := rfl
  simp only [hs]
  split
  · rfl
  · simp only [storePayload_prefixP]
    exact drain_prefixP x _ _ _ _

end Tins.DT
