import TinsModel.Follower.Model
import TinsModel.Gen.Limits
/-
  The two default configurations of the stream follower.

  * `Cfg.ofSource`   — what a default-constructed `StreamFollower` holds *in the current source* (generated table
    `Gen.Limits`, a compiled probe reads the private members of `StreamFollower()`): the model side of the driver uses it
    whenever a case line does not override a limit, so the model follows the source.
  * `Cfg.documented` — the documented defaults (512 chunks, 3 MiB, 5 minutes): the spec oracle's side.

  `Props/Limits/C07.lean` proves that the two agree (`limits_agree_follower*`).  When the source changes a default the
  theorem fails and the generator's case that crosses the default limit (read from the same table) gives the
  implementation's trace to the oracle, which judges it by the documented limits.
-/
namespace Tins.SF

def Cfg.ofSource : Cfg :=
  { attach := false, maxChunks := Gen.Limits.followerMaxChunks, maxBytes := Gen.Limits.followerMaxBytes,
    keepAlive := Gen.Limits.followerKeepAliveUs, acl := true }

def Cfg.documented : Cfg := { attach := false, maxChunks := 512, maxBytes := 3145728, keepAlive := 300000000, acl := true }

end Tins.SF
