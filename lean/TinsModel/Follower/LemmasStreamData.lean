import TinsModel.Props.C06
import TinsModel.Follower.LemmasPrefix
import TinsModel.Follower.LemmasFold
/- Composition of C06's refinement theorem (the DataTracker delivers exactly the stream prefix up to the frontier) with
   the flow fold: what a flow hands to its data callback while the segments it is fed carry bytes of one stream. -/
namespace Tins.SF
open Tins Tins.DT

/-- the stream offset the sequence number `q` names, read from the delivery point `k` (half the sequence space either way) -/
def offOf (isn k q : Nat) : Int := (k : Int) + sdiff32 q (wrap32 (isn + k))

/-- the arrival a data packet represents when the delivery point is `k` -/
def segOf (isn k : Nat) (p : Pkt) (d : Bytes) : SegD := ⟨offOf isn k p.dataSeq, d⟩

theorem seqOf_offOf (isn k q : Nat) (hq : q < 4294967296) : seqOf isn (offOf isn k q) = q := by
  unfold seqOf offOf sdiff32 sub32 wrap32
  simp only
  split <;> omega

theorem dataSeq_lt (p : Pkt) : p.dataSeq < 4294967296 := by unfold Pkt.dataSeq wrap32; omega

/-- the arrival history of a direction after one more packet (latest arrival first) -/
def dirStep (s : Bytes) (isn : Nat) (h : List SegD) (p : Pkt) : List SegD :=
  match p.payload with
  | none => h
  | some d => segOf isn (frontier (h.map SegD.seg) s.length) p d :: h

def dirHist (s : Bytes) (isn : Nat) (h : List SegD) (ps : List Pkt) : List SegD := ps.foldl (dirStep s isn) h

/-- the data packet carries bytes of the stream `s`: read at the offset its sequence number names it starts less than
    half the sequence space before the delivery point, ends inside the stream and agrees with it (`SegD.okAt`, the
    hypothesis of C06) -/
def pktOK (s : Bytes) (isn : Nat) (h : List SegD) (p : Pkt) : Prop :=
  match p.payload with
  | none => True
  | some d => (segOf isn (frontier (h.map SegD.seg) s.length) p d).okAt s (frontier (h.map SegD.seg) s.length)

instance (s : Bytes) (isn : Nat) (h : List SegD) (p : Pkt) : Decidable (pktOK s isn h p) := by
  unfold pktOK; split <;> infer_instance

/-- every data packet of the list carries bytes of the stream -/
def DirOK (s : Bytes) (isn : Nat) : List SegD → List Pkt → Prop
  | _, [] => True
  | h, p :: ps => pktOK s isn h p ∧ DirOK s isn (dirStep s isn h p) ps

instance DirOK.instDecidable (s : Bytes) (isn : Nat) : (h : List SegD) → (ps : List Pkt) → Decidable (DirOK s isn h ps)
  | _, [] => isTrue trivial
  | h, p :: ps =>
    have := DirOK.instDecidable s isn (dirStep s isn h p) ps
    (inferInstance : Decidable (pktOK s isn h p ∧ DirOK s isn (dirStep s isn h p) ps))

/-- what the data callback must be handed for one packet: nothing unless the frontier moves; then, with auto-cleanup,
    the bytes between the old and the new frontier, without it the whole prefix up to the new frontier -/
def expectedHanded1 (acl : Bool) (s : Bytes) (isn : Nat) (h : List SegD) (p : Pkt) : Option Bytes :=
  let k := frontier (h.map SegD.seg) s.length
  let k' := frontier ((dirStep s isn h p).map SegD.seg) s.length
  if k < k' then some (if acl then (s.take k').drop k else s.take k') else none

def expectedHanded (acl : Bool) (s : Bytes) (isn : Nat) : List SegD → List Pkt → List Bytes
  | _, [] => []
  | h, p :: ps => (expectedHanded1 acl s isn h p).toList ++ expectedHanded acl s isn (dirStep s isn h p) ps

theorem frontier_cons_mono (g : Seg) (h : List Seg) (n : Nat) : frontier h n ≤ frontier (g :: h) n := by
  apply frontier_ge _ _ _ (frontier_le h n)
  intro p hp
  have h1 := frontier_below h n p hp
  unfold covered at h1 ⊢
  rw [List.any_cons, h1, Bool.or_true]

theorem dirStep_frontier_mono (s : Bytes) (isn : Nat) (h : List SegD) (p : Pkt) :
    frontier (h.map SegD.seg) s.length ≤ frontier ((dirStep s isn h p).map SegD.seg) s.length := by
  unfold dirStep
  split
  · exact Nat.le_refl _
  · simp only [List.map_cons]; exact frontier_cons_mono _ _ _

/-- a tracker that reassembles the stream `s`: with the bytes `D` already handed over and cleared put back, it is C06's
    model run over the arrival history `h` -/
structure TrInv (acl : Bool) (s : Bytes) (isn : Nat) (t : Tracker) (h : List SegD) (D : Bytes) : Prop where
  tr : prefixP D t = runModel isn h
  ok : HistOK s h
  cleared : acl = true → t.payload = []
  whole : acl = false → D = []

theorem take_split (s : Bytes) (k k' : Nat) (h : k ≤ k') : s.take k' = s.take k ++ (s.take k').drop k := by
  have : s.take k = (s.take k').take k := by rw [List.take_take]; congr 1; omega
  rw [this]; exact (List.take_append_drop k (s.take k')).symm

/-- the tracker after the stream's data handler -/
def clearIf (b : Bool) (t : Tracker) : Tracker := if b then { t with payload := [] } else t

/-- one arrival `g` (sequence number `q`, bytes `d`) on a tracker that satisfies the invariant: it fires iff the
    frontier moves, hands over the right bytes, and the invariant holds again (C06's `delivered_is_prefix` and
    `process_payload_true_iff_grew` transported through the payload-prefix commutation) -/
theorem tracker_step (acl : Bool) (s : Bytes) (isn : Nat) (t : Tracker) (h : List SegD) (D : Bytes) (g : SegD) (q : Nat)
    (hs : s.length < 2147483648) (hisn : isn < 4294967296) (inv : TrInv acl s isn t h D)
    (hg : g.okAt s (frontier (h.map SegD.seg) s.length)) (hq : seqOf isn g.off = q) :
    let k := frontier (h.map SegD.seg) s.length
    let k' := frontier ((g :: h).map SegD.seg) s.length
    let r := processPayload t q g.data
    (∃ D', TrInv acl s isn (clearIf (r.2 && acl) r.1) (g :: h) D') ∧
    (r.2 = true ↔ k < k') ∧
    (r.2 = true → r.1.payload = if acl then (s.take k').drop k else s.take k') := by
  intro k k' r
  have hgh : HistOK s (g :: h) := ⟨hg, inv.ok⟩
  have hcomm := processPayload_prefixP D t q g.data
  rw [inv.tr] at hcomm
  have hrun : runModel isn (g :: h) = (processPayload (runModel isn h) q g.data).1 := by
    show (processPayload (runModel isn h) (seqOf isn g.off) g.data).1 = _
    rw [hq]
  have htr' : prefixP D r.1 = runModel isn (g :: h) := by rw [hrun, hcomm]
  have hflag : r.2 = (processPayload (runModel isn h) q g.data).2 := by rw [hcomm]
  have hd0 : (runModel isn h).payload = s.take k := Tins.Props.C06.delivered_is_prefix s isn h hs hisn inv.ok
  have hd1 : (runModel isn (g :: h)).payload = s.take k' := Tins.Props.C06.delivered_is_prefix s isn (g :: h) hs hisn hgh
  have hmono : k ≤ k' := frontier_cons_mono _ _ _
  have hle1 : k' ≤ s.length := frontier_le _ _
  have hgrew := Tins.Props.C06.process_payload_true_iff_grew (runModel isn h) q g.data
  rw [← hrun, hd0, hd1, List.length_take, List.length_take] at hgrew
  have hfire : r.2 = true ↔ k < k' := by rw [hflag, hgrew]; omega
  have hpay : D ++ r.1.payload = s.take k' := by rw [← hd1, ← htr']; rfl
  have hpay0 : D ++ t.payload = s.take k := by rw [← hd0, ← inv.tr]; rfl
  refine ⟨?_, hfire, ?_⟩
  · by_cases hf : r.2 = true
    · cases acl with
      | false =>
        refine ⟨D, ⟨?_, hgh, (by intro h; cases h), inv.whole⟩⟩
        simp only [Bool.and_false, clearIf, Bool.false_eq_true, if_false]; exact htr'
      | true =>
        refine ⟨D ++ r.1.payload, ⟨?_, hgh, ?_, (by intro h; cases h)⟩⟩
        · rw [← htr']; simp [hf, clearIf, prefixP]
        · intro _; simp [hf, clearIf]
    · have hf' : r.2 = false := by simpa using hf
      refine ⟨D, ⟨?_, hgh, ?_, inv.whole⟩⟩
      · simp only [hf', Bool.false_and, clearIf, Bool.false_eq_true, if_false]; exact htr'
      · intro ha
        simp only [hf', Bool.false_and, clearIf, Bool.false_eq_true, if_false]
        have hc : t.payload = [] := inv.cleared ha
        have hkeq : k' = k := by have := mt hfire.2 hf; omega
        rw [hkeq, ← hpay0, hc] at hpay
        exact List.append_cancel_left (by rw [hpay])
  · intro hf
    cases acl with
    | false =>
      have hD : D = [] := inv.whole rfl
      subst hD
      simpa using hpay
    | true =>
      have hc : t.payload = [] := inv.cleared rfl
      rw [hc, List.append_nil] at hpay0
      rw [hpay0, take_split s k k' hmono] at hpay
      simpa using List.append_cancel_left hpay

/-- the state of a flow that reassembles the stream `s`: out of the handshake, data not ignored, tracker as `TrInv` -/
structure FlowInv (acl : Bool) (s : Bytes) (isn : Nat) (f : Flow) (h : List SegD) (D : Bytes) : Prop where
  st : f.state ≠ .unknown
  ig : f.ignoreData = false
  rc : f.recEnd = none          -- no recovery handler bound to the direction (never enabled, or it has removed itself)
  ti : TrInv acl s isn f.tr h D

theorem updateState_not_unknown (f : Flow) (p : Pkt) (h : f.state ≠ .unknown) : (f.updateState p).state ≠ .unknown := by
  unfold Flow.updateState
  split
  · simp
  · split
    · simp
    · split
      · simp
      · split
        · simp
        · exact h

theorem stepIn_some (acl : Bool) (f : Flow) (p : Pkt) (d : Bytes) (hi : (f.pre p).ignoreData = false)
    (hr : (f.pre p).recEnd = none) (h : p.payload = some d) :
    (f.stepIn acl p).tr = clearIf ((processPayload (f.pre p).tr p.dataSeq d).2 && acl) (processPayload (f.pre p).tr p.dataSeq d).1 ∧
    (f.stepIn acl p).state = (f.pre p).state ∧ (f.stepIn acl p).ignoreData = (f.pre p).ignoreData ∧
    (f.stepIn acl p).recEnd = (f.pre p).recEnd ∧
    f.handed p = (if (processPayload (f.pre p).tr p.dataSeq d).2 then some (processPayload (f.pre p).tr p.dataSeq d).1.payload else none) := by
  unfold Flow.stepIn Flow.handed
  rw [processPacket_some f p d hi hr h]
  simp only [clearIf, clearPayload]
  cases (processPayload (f.pre p).tr p.dataSeq d).2 && acl <;> (refine ⟨?_, ?_, ?_, ?_, ?_⟩ <;> first | rfl | trivial)

/-- one packet of the direction on a flow whose tracker, as `update_state` leaves it, satisfies the invariant -/
theorem flow_step_core (acl : Bool) (s : Bytes) (isn : Nat) (f : Flow) (h : List SegD) (D : Bytes) (p : Pkt)
    (hs : s.length < 2147483648) (hisn : isn < 4294967296)
    (hst : (f.pre p).state ≠ .unknown) (hig : (f.pre p).ignoreData = false) (hrc : (f.pre p).recEnd = none)
    (ti : TrInv acl s isn (f.pre p).tr h D) (hp : pktOK s isn h p) :
    (∃ D', FlowInv acl s isn (f.stepIn acl p) (dirStep s isn h p) D') ∧
    f.handed p = expectedHanded1 acl s isn h p := by
  unfold pktOK at hp
  unfold expectedHanded1 dirStep
  cases hpl : p.payload with
  | none =>
    have e1 : f.stepIn acl p = f.pre p := by
      unfold Flow.stepIn; rw [processPacket_none f p hpl]; rfl
    have e2 : f.handed p = none := by
      unfold Flow.handed; rw [processPacket_none f p hpl]; rfl
    rw [e1, e2]
    simp only [Nat.lt_irrefl, if_false]
    exact ⟨⟨D, ⟨hst, hig, hrc, ti⟩⟩, trivial⟩
  | some d =>
    rw [hpl] at hp
    obtain ⟨s1, s2, s3, s5, s4⟩ := stepIn_some acl f p d hig hrc hpl
    have hq : seqOf isn (segOf isn (frontier (h.map SegD.seg) s.length) p d).off = p.dataSeq :=
      seqOf_offOf isn _ p.dataSeq (dataSeq_lt p)
    obtain ⟨⟨D', hD'⟩, hfire, hpay⟩ := tracker_step acl s isn (f.pre p).tr h D
      (segOf isn (frontier (h.map SegD.seg) s.length) p d) p.dataSeq hs hisn ti hp hq
    have hgd : (segOf isn (frontier (h.map SegD.seg) s.length) p d).data = d := rfl
    simp only [hgd] at hD' hfire hpay
    refine ⟨⟨D', ⟨by rw [s2]; exact hst, by rw [s3]; exact hig, by rw [s5]; exact hrc, by rw [s1]; exact hD'⟩⟩, ?_⟩
    rw [s4]
    by_cases hf : (processPayload (f.pre p).tr p.dataSeq d).2 = true
    · simp only [hf, if_true, hfire.1 hf, hpay hf]
    · have hk := mt hfire.2 hf
      simp only [hf, hk, Bool.false_eq_true, if_false]

/-- one packet of the direction, fed to a flow that satisfies the invariant -/
theorem flow_step (acl : Bool) (s : Bytes) (isn : Nat) (f : Flow) (h : List SegD) (D : Bytes) (p : Pkt)
    (hs : s.length < 2147483648) (hisn : isn < 4294967296)
    (inv : FlowInv acl s isn f h D) (hp : pktOK s isn h p) :
    (∃ D', FlowInv acl s isn (f.stepIn acl p) (dirStep s isn h p) D') ∧
    f.handed p = expectedHanded1 acl s isn h p := by
  obtain ⟨q1, _, _, _, q5, q6, _⟩ := pre_fields f p
  have hst : (f.pre p).state ≠ .unknown := by rw [q1]; exact updateState_not_unknown f p inv.st
  have hig : (f.pre p).ignoreData = false := by rw [q6]; exact inv.ig
  have htr : (f.pre p).tr = f.tr := by rw [q5]; exact updateState_tr f p (Or.inl inv.st)
  exact flow_step_core acl s isn f h D p hs hisn hst hig (by rw [pre_recEnd]; exact inv.rc) (by rw [htr]; exact inv.ti) hp

/-- the segment that takes a direction out of `UNKNOWN` — the direction's SYN (or SYN+ACK), before which the flow has
    reassembled nothing: the stream starts one past its sequence number, and the data it carries (TCP Fast Open) is
    the first arrival -/
theorem flow_step_syn (acl : Bool) (s : Bytes) (f : Flow) (a : Nat) (p : Pkt)
    (hs : s.length < 2147483648)
    (hu : f.state = .unknown) (hig : f.ignoreData = false) (hrc : f.recEnd = none) (ht : f.tr = Tracker.init a)
    (h1 : p.syn = true) (h2 : p.rst = false) (h3 : p.fin = false) (hp : pktOK s (wrap32 (p.seq + 1)) [] p) :
    (∃ D', FlowInv acl s (wrap32 (p.seq + 1)) (f.stepIn acl p) (dirStep s (wrap32 (p.seq + 1)) [] p) D') ∧
    f.handed p = expectedHanded1 acl s (wrap32 (p.seq + 1)) [] p := by
  obtain ⟨q1, _, _, _, q5, q6, _⟩ := pre_fields f p
  have hst : (f.pre p).state ≠ .unknown := by
    rw [q1]; unfold Flow.updateState; simp [hu, h1, h2, h3]
  have hig' : (f.pre p).ignoreData = false := by rw [q6]; exact hig
  have htr : (f.pre p).tr = Tracker.init (wrap32 (p.seq + 1)) := by
    rw [q5, updateState_tr_syn f p hu h1 h2 h3, ht]; rfl
  refine flow_step_core acl s _ f [] [] p hs (by unfold wrap32; omega) hst hig' (by rw [pre_recEnd]; exact hrc) ?_ hp
  rw [htr]
  exact ⟨rfl, trivial, fun _ => rfl, fun _ => rfl⟩

/-- **flow fold + C06.**  A flow out of its handshake whose tracker is C06's model after the arrivals `h`, fed any packets
    whose data carries bytes of the stream `s`: it hands its data callback exactly `expectedHanded` — after every packet
    the bytes between the old and the new frontier (auto-cleanup) or the whole prefix up to the new frontier — and
    afterwards its tracker is C06's model after all the arrivals. -/
theorem flow_fold_delivers (acl : Bool) (s : Bytes) (isn : Nat) (hs : s.length < 2147483648) (hisn : isn < 4294967296)
    (ps : List Pkt) (f : Flow) (h : List SegD) (D : Bytes)
    (inv : FlowInv acl s isn f h D) (hp : DirOK s isn h ps) :
    (∃ D', FlowInv acl s isn (f.feed acl ps) (dirHist s isn h ps) D') ∧
    Flow.feedHanded acl f ps = expectedHanded acl s isn h ps := by
  induction ps generalizing f h D with
  | nil => exact ⟨⟨D, inv⟩, rfl⟩
  | cons p ps ih =>
    obtain ⟨hp1, hp2⟩ := hp
    obtain ⟨⟨D1, inv1⟩, hh⟩ := flow_step acl s isn f h D p hs hisn inv hp1
    obtain ⟨i1, i2⟩ := ih (f.stepIn acl p) (dirStep s isn h p) D1 inv1 hp2
    refine ⟨i1, ?_⟩
    show (f.handed p).toList ++ Flow.feedHanded acl (f.stepIn acl p) ps = _
    rw [hh, i2]; rfl

theorem slices_append (s : Bytes) (k k1 k2 : Nat) (h1 : k ≤ k1) (h2 : k1 ≤ k2) :
    (s.take k1).drop k ++ (s.take k2).drop k1 = (s.take k2).drop k := by
  have e : s.take k1 = (s.take k2).take k1 := by rw [List.take_take]; congr 1; omega
  rw [e, List.drop_take]
  have : (s.take k2).drop k1 = ((s.take k2).drop k).drop (k1 - k) := by rw [List.drop_drop]; congr 1; omega
  rw [this]; exact List.take_append_drop _ _

/-- with auto-cleanup, all the pieces handed over are, put together, the stream from the old frontier to the new one -/
theorem expectedHanded_flatten (s : Bytes) (isn : Nat) (ps : List Pkt) (h : List SegD) :
    (expectedHanded true s isn h ps).flatten =
      (s.take (frontier ((dirHist s isn h ps).map SegD.seg) s.length)).drop (frontier (h.map SegD.seg) s.length) ∧
    frontier (h.map SegD.seg) s.length ≤ frontier ((dirHist s isn h ps).map SegD.seg) s.length := by
  induction ps generalizing h with
  | nil =>
    refine ⟨?_, Nat.le_refl _⟩
    simp only [expectedHanded, dirHist, List.foldl_nil, List.flatten_nil]
    rw [List.drop_take]; simp
  | cons p ps ih =>
    obtain ⟨i1, i2⟩ := ih (dirStep s isn h p)
    have hm := dirStep_frontier_mono s isn h p
    have e : dirHist s isn h (p :: ps) = dirHist s isn (dirStep s isn h p) ps := rfl
    rw [e]
    refine ⟨?_, Nat.le_trans hm i2⟩
    simp only [expectedHanded, List.flatten_append, i1, expectedHanded1]
    generalize frontier (h.map SegD.seg) s.length = k at *
    generalize frontier ((dirStep s isn h p).map SegD.seg) s.length = k1 at *
    generalize frontier ((dirHist s isn (dirStep s isn h p) ps).map SegD.seg) s.length = k2 at *
    by_cases hk : k < k1
    · simp only [hk, if_true, Option.toList_some, List.flatten_cons, List.flatten_nil, List.append_nil]
      exact slices_append s k k1 k2 (by omega) i2
    · have hk' : k1 = k := by omega
      simp [hk']

end Tins.SF
