import TinsModel.Follower.Model
/- Lemmas about the association-list map of `streams_` (`find?`, `remove`, `store`, `sortEntries`). -/
namespace Tins.SF
variable {κ : Type} [DecidableEq κ]

def keys (m : List (κ × Stream)) : List κ := m.map (·.1)

/-- `std::map` holds at most one entry per key -/
def UniqueKeys (m : List (κ × Stream)) : Prop := (keys m).Nodup

theorem find?_nil (k : κ) : find? ([] : List (κ × Stream)) k = none := rfl
theorem find?_cons (k' : κ) (s : Stream) (r : List (κ × Stream)) (k : κ) :
    find? ((k', s) :: r) k = if k' = k then some s else find? r k := by rw [find?]

theorem mem_remove {m : List (κ × Stream)} {k : κ} {e : κ × Stream} : e ∈ remove m k ↔ e ∈ m ∧ e.1 ≠ k := by
  unfold remove; simp [List.mem_filter]

theorem keys_remove (m : List (κ × Stream)) (k : κ) : keys (remove m k) = (keys m).filter (fun x => !decide (x = k)) := by
  unfold keys remove
  induction m with
  | nil => rfl
  | cons e r ih =>
    simp only [List.filter_cons, List.map_cons]
    by_cases h : e.1 = k <;> simp [h, ih]

theorem not_mem_keys_remove (m : List (κ × Stream)) (k : κ) : k ∉ keys (remove m k) := by
  rw [keys_remove]; simp [List.mem_filter]

theorem mem_keys_remove {m : List (κ × Stream)} {k k' : κ} : k' ∈ keys (remove m k) ↔ k' ∈ keys m ∧ k' ≠ k := by
  rw [keys_remove]; simp [List.mem_filter]

theorem find?_eq_none_iff {m : List (κ × Stream)} {k : κ} : find? m k = none ↔ k ∉ keys m := by
  induction m with
  | nil => simp [find?_nil, keys]
  | cons e r ih =>
    obtain ⟨k', s⟩ := e
    rw [find?_cons]
    by_cases h : k' = k
    · simp [h, keys]
    · simp only [h, if_false, ih, keys, List.map_cons, List.mem_cons]
      constructor
      · intro hn hc; rcases hc with hc | hc
        · exact h hc.symm
        · exact hn hc
      · intro hn hc; exact hn (Or.inr hc)

theorem find?_isSome_iff {m : List (κ × Stream)} {k : κ} : (find? m k).isSome ↔ k ∈ keys m := by
  have h := @find?_eq_none_iff κ _ m k
  cases hf : find? m k with
  | none => rw [hf] at h; simp only [Option.isSome_none, Bool.false_eq_true, false_iff]; exact h.1 rfl
  | some s =>
    rw [hf] at h; simp only [Option.isSome_some, true_iff]
    exact Classical.byContradiction (fun hn => by have := h.2 hn; simp at this)

theorem mem_of_find? {m : List (κ × Stream)} {k : κ} {s : Stream} (h : find? m k = some s) : (k, s) ∈ m := by
  induction m with
  | nil => simp [find?_nil] at h
  | cons e r ih =>
    obtain ⟨k', s'⟩ := e
    rw [find?_cons] at h
    by_cases hk : k' = k
    · simp only [hk, if_true, Option.some.injEq] at h; subst hk; subst h; exact List.mem_cons_self
    · simp only [hk, if_false] at h; exact List.mem_cons_of_mem _ (ih h)

theorem find?_of_mem {m : List (κ × Stream)} (hu : UniqueKeys m) {k : κ} {s : Stream} (h : (k, s) ∈ m) : find? m k = some s := by
  induction m with
  | nil => simp at h
  | cons e r ih =>
    obtain ⟨k', s'⟩ := e
    unfold UniqueKeys keys at hu
    simp only [List.map_cons, List.nodup_cons] at hu
    rw [find?_cons]
    rcases List.mem_cons.1 h with h | h
    · simp only [Prod.mk.injEq] at h; simp [h.1, h.2]
    · have : k' ≠ k := by
        intro hk; subst hk
        exact hu.1 (List.mem_map.2 ⟨(k', s), h, rfl⟩)
      simp only [this, if_false]; exact ih hu.2 h

theorem find?_remove_self (m : List (κ × Stream)) (k : κ) : find? (remove m k) k = none :=
  find?_eq_none_iff.2 (not_mem_keys_remove m k)

theorem find?_remove_ne (m : List (κ × Stream)) {k k' : κ} (h : k' ≠ k) : find? (remove m k) k' = find? m k' := by
  induction m with
  | nil => rfl
  | cons e r ih =>
    obtain ⟨k'', s⟩ := e
    unfold remove at ih ⊢
    simp only [List.filter_cons]
    by_cases h1 : k'' = k
    · subst h1
      simp only [decide_true, Bool.not_true, Bool.false_eq_true, if_false]
      rw [ih, find?_cons]; simp [Ne.symm h]
    · simp only [h1, decide_false, Bool.not_false, if_true]
      rw [find?_cons, find?_cons, ih]

theorem find?_store_self (m : List (κ × Stream)) (k : κ) (s : Stream) : find? (store m k s) k = some s := by
  simp [store, find?_cons]

theorem find?_store_ne (m : List (κ × Stream)) {k k' : κ} (s : Stream) (h : k' ≠ k) : find? (store m k s) k' = find? m k' := by
  unfold store; rw [find?_cons]; simp only [Ne.symm h, if_false]; exact find?_remove_ne m h

theorem unique_remove {m : List (κ × Stream)} (hu : UniqueKeys m) (k : κ) : UniqueKeys (remove m k) := by
  unfold UniqueKeys at *; rw [keys_remove]; exact hu.filter _

theorem unique_store {m : List (κ × Stream)} (hu : UniqueKeys m) (k : κ) (s : Stream) : UniqueKeys (store m k s) := by
  unfold UniqueKeys store keys
  simp only [List.map_cons, List.nodup_cons]
  exact ⟨not_mem_keys_remove m k, unique_remove hu k⟩

omit [DecidableEq κ] in
theorem unique_filter {m : List (κ × Stream)} (hu : UniqueKeys m) (P : κ × Stream → Bool) : UniqueKeys (m.filter P) := by
  unfold UniqueKeys keys at *
  exact (List.filter_sublist.map _).nodup hu

theorem find?_filter {m : List (κ × Stream)} (hu : UniqueKeys m) (P : κ × Stream → Bool) (k : κ) :
    find? (m.filter P) k = (find? m k).filter (fun s => P (k, s)) := by
  cases h : find? m k with
  | none =>
    simp only [Option.filter_none]
    rw [find?_eq_none_iff] at h ⊢
    intro hc; apply h
    unfold keys at *
    obtain ⟨e, he, rfl⟩ := List.mem_map.1 hc
    exact List.mem_map.2 ⟨e, (List.mem_filter.1 he).1, rfl⟩
  | some s =>
    have hm := mem_of_find? h
    by_cases hp : P (k, s) = true
    · simp only [Option.filter_some, hp, if_true]
      exact find?_of_mem (unique_filter hu P) (List.mem_filter.2 ⟨hm, hp⟩)
    · simp only [Option.filter_some, hp, Bool.false_eq_true, if_false]
      rw [find?_eq_none_iff]
      intro hc
      unfold keys at hc
      obtain ⟨e, he, hk⟩ := List.mem_map.1 hc
      obtain ⟨he1, he2⟩ := List.mem_filter.1 he
      obtain ⟨k', s'⟩ := e
      simp only at hk; subst hk
      have := find?_of_mem hu he1
      rw [h] at this; simp only [Option.some.injEq] at this; subst this
      exact hp he2

/-! insertion sort is a permutation -/

omit [DecidableEq κ] in
theorem insertSorted_perm (lt : κ → κ → Bool) (x : κ × Stream) (l : List (κ × Stream)) : (insertSorted lt x l).Perm (x :: l) := by
  induction l with
  | nil => exact List.Perm.refl _
  | cons y ys ih =>
    unfold insertSorted
    split
    · exact List.Perm.refl _
    · exact (List.Perm.cons y ih).trans (List.Perm.swap x y ys)

omit [DecidableEq κ] in
theorem sortEntries_perm (lt : κ → κ → Bool) (m : List (κ × Stream)) : (sortEntries lt m).Perm m := by
  induction m with
  | nil => exact List.Perm.refl _
  | cons x r ih =>
    unfold sortEntries at *
    simp only [List.foldr_cons]
    exact (insertSorted_perm lt x _).trans (List.Perm.cons x ih)

end Tins.SF
