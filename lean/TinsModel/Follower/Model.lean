import TinsModel.Tcp.DataTracker
import TinsModel.Ack.Model
/-
  Code-shaped model of `Tins::TCPIP::StreamIdentifier`, `Flow`, `Stream` and `StreamFollower`
  (src/tcp_ip/{stream_identifier,flow,stream,stream_follower}.cpp), statement for statement where
  property C07 depends on it.  The per-flow reassembly is the C06 model (`Tins.DT`), the per-flow ACK tracker is the
  C19 model (`Tins.Ack`).

  Representation choices (all validated by the correspondence harness harness/c07_follower.cpp):
  * an address is the big-endian numeric value of its bytes (IPv4 `< 2^32`, IPv6 `< 2^128`); the 16-byte
    `StreamIdentifier::address_type` is the big-endian value of the 16 bytes, so `serialize(IPv4Address)`
    (write 4 bytes, zero-fill the other 12) is `a * 2^96`, `serialize(IPv6Address)` is the identity and
    `std::array::operator<` (lexicographic on bytes) is `<` on `Nat`;
  * `streams_` (a `std::map<stream_id, Stream>`) is an association list with unique keys; the only
    order-dependent operation is the in-order walk of `cleanup_streams`, modelled by sorting the expired
    entries with `operator<` of the key;
  * the model is generic in the key function (`keyOf : Pkt → κ`) so that the reference connection table of the
    spec is the same machine keyed by (family, unordered endpoint pair); the code is `keyOf = identOf`;
  * callbacks are an event trace; the harness installs every callback, so "callback set" tests are `true`;
  * what the application does inside the new-stream callback is part of the configuration (`Cfg`): switch auto-cleanup
    off, `Flow::enable_ack_tracking` per flow, `AckTracker::use_sack` (for streams attached mid-way, whose trackers
    are default-constructed with SACK off), `Stream::ignore_client_data` / `ignore_server_data`,
    `Stream::enable_recovery_mode`;
  * `DEFAULT_MAX_SACKED_INTERVALS` is a parameter (`Cfg.maxSacked`; the check reads the literal from the source);
  * a SACK option whose data is not a whole number of 32-bit edges is skipped by the flow (KF-C07-4, after `fix: a SACK
    option that cannot be decoded made Flow::process_packet throw malformed_option ...`).
-/
namespace Tins.SF
open Tins Tins.DT

/-- what `StreamFollower` reads of a packet `IP|IPv6 / TCP [/ RawPDU]` plus its capture timestamp (µs) -/
structure Pkt where
  v6 : Bool
  src : Nat
  sport : Nat
  dst : Nat
  dport : Nat
  flags : Nat
  seq : Nat
  ack : Nat
  payload : Option Bytes      -- `find_pdu<RawPDU>()`; `none` = no RawPDU layer
  mss : Option Nat            -- `search_option(TCP::MSS)`
  sackOk : Bool               -- `has_sack_permitted()`
  ts : Nat
  sack : Ack.SackOpt := .absent   -- `search_option(TCP::SACK)` and its `to<sack_type>()` conversion
deriving Repr

/-- `tcp.has_flags(F)` for the single-bit flags -/
def Pkt.fin (p : Pkt) : Bool := p.flags.testBit 0
def Pkt.syn (p : Pkt) : Bool := p.flags.testBit 1
def Pkt.rst (p : Pkt) : Bool := p.flags.testBit 2
def Pkt.ackf (p : Pkt) : Bool := p.flags.testBit 4

/-- sequence number of the first payload byte: the SYN flag occupies one sequence number
    (after `fix: payload of a SYN segment starts one past its sequence number`) -/
def Pkt.dataSeq (p : Pkt) : Nat := wrap32 (p.seq + (if p.syn then 1 else 0))

/-! ### StreamIdentifier -/

structure Ident where
  minAddr : Nat
  maxAddr : Nat
  minPort : Nat
  maxPort : Nat
deriving DecidableEq, Repr

/-- `StreamIdentifier::serialize` (IPv4: 4 address bytes then 12 zero bytes; IPv6: the 16 bytes) -/
def pad (v6 : Bool) (a : Nat) : Nat := if v6 then a else a * 79228162514264337593543950336

/-- `StreamIdentifier::StreamIdentifier(client_addr, client_port, server_addr, server_port)` -/
def mkIdent (ca cp sa sp : Nat) : Ident :=
  if ca > sa then ⟨sa, ca, sp, cp⟩
  else if ca = sa ∧ cp > sp then ⟨ca, sa, sp, cp⟩
  else ⟨ca, sa, cp, sp⟩

/-- `StreamIdentifier::make_identifier(const PDU&)` -/
def identOf (p : Pkt) : Ident := mkIdent (pad p.v6 p.src) p.sport (pad p.v6 p.dst) p.dport

/-- `StreamIdentifier::operator<` : `tie(min_address, max_address, min_port, max_port)` lexicographic;
    used by the insertion sort below -/
def Ident.lt (a b : Ident) : Bool :=
  if a.minAddr ≠ b.minAddr then a.minAddr < b.minAddr
  else if a.maxAddr ≠ b.maxAddr then a.maxAddr < b.maxAddr
  else if a.minPort ≠ b.minPort then a.minPort < b.minPort
  else a.maxPort < b.maxPort

/-! ### Flow -/

inductive FState | unknown | synSent | established | finSent | rstSent
deriving DecidableEq, Repr

structure Flow where
  v6 : Bool
  dst : Nat
  dport : Nat
  state : FState
  mss : Int
  sackPermitted : Bool
  tr : Tracker
  ackTracking : Bool := false               -- `flags_.ack_tracking`
  ignoreData : Bool := false                -- `flags_.ignore_data_packets`
  ackTr : Ack.Tracker := Ack.Tracker.default   -- `ack_tracker_` (a member whether or not tracking is enabled)
  /-- recovery mode: `recovery_sequence_number_end` of the `Stream::*_recovery_mode_handler` bound to this direction's
      out-of-order callback (`none`: no such handler installed, or it has removed itself) -/
  recEnd : Option Nat := none

/-- `Flow::Flow(dest_address, dest_port, sequence_number)` + `initialize()` -/
def Flow.init (v6 : Bool) (dst dport seq : Nat) : Flow :=
  { v6 := v6, dst := dst, dport := dport, state := .unknown, mss := -1, sackPermitted := false,
    tr := Tracker.init seq }

/-- `Flow::update_state` (after `fix: RST takes precedence over FIN in Flow::update_state`);
    `ack_tracker_ = AckTracker(tcp.ack_seq())` has `use_sack = true` by default argument -/
def Flow.updateState (f : Flow) (p : Pkt) : Flow :=
  if p.rst then { f with state := .rstSent }
  else if p.fin then { f with state := .finSent }
  else if f.state = .synSent ∧ p.ackf then { f with state := .established, ackTr := Ack.Tracker.init p.ack true }
  else if f.state = .unknown ∧ p.syn then
    { f with state := .synSent,
             ackTr := Ack.Tracker.init p.ack true,
             tr := { f.tr with seq := wrap32 (p.seq + 1) },
             mss := match p.mss with | some m => (m : Int) | none => f.mss,
             sackPermitted := p.sackOk }
  else f

/-- `Flow::packet_belongs` -/
def Flow.packetBelongs (f : Flow) (p : Pkt) : Bool :=
  f.v6 == p.v6 && p.dst == f.dst && p.dport == f.dport

/-- `if (flags_.ack_tracking) ack_tracker_.process_packet(*tcp);` — a SACK option that cannot be decoded is skipped
    (the cumulative ACK of the segment has been processed by then) -/
def Flow.trackAck (f : Flow) (p : Pkt) : Flow :=
  if f.ackTracking then { f with ackTr := (Ack.processPacket f.ackTr p.ack p.sack).1 } else f

/-- the part of `Flow::process_packet` that every TCP segment goes through: `update_state`, then the ACK tracker -/
def Flow.pre (f : Flow) (p : Pkt) : Flow := (f.updateState p).trackAck p

/-- `Stream::client_recovery_mode_handler` / `server_recovery_mode_handler` with `Stream::recovery_mode_handler`, run (after
    the application's own out-of-order callback) for an out-of-order segment at `seq`: plain `uint32_t` comparisons -/
def Flow.recover (f : Flow) (seq e : Nat) : Flow :=
  { f with tr := if seq > f.tr.seq ∧ seq ≤ e then advanceSequence f.tr seq else f.tr,
           recEnd := if e > seq then some e else none }

/-- the flow after the out-of-order callback of `process_packet`: in recovery mode the handler bound to the direction runs
    (for an out-of-order segment) and may advance the sequence number before `process_payload` sees the segment -/
def Flow.afterOoo (f1 : Flow) (p : Pkt) (ooo : Bool) : Flow :=
  match ooo, f1.recEnd with
  | true, some e => f1.recover p.dataSeq e
  | _, _ => f1

/-- `Flow::process_packet`: the new flow, the out-of-order callback arguments (if it fires) and whether the
    data callback fires -/
def Flow.processPacket (f : Flow) (p : Pkt) : Flow × Option (Nat × Bytes) × Bool :=
  let f1 := f.pre p
  -- `if (flags_.ignore_data_packets) return;`
  if f1.ignoreData then (f1, none, false) else
  match p.payload with
  | none => (f1, none, false)
  | some d =>
    let chunkEnd := wrap32 (p.dataSeq + d.length)
    let cur := f1.tr.seq
    let ooo := if seqCompare chunkEnd cur < 0 ∨ seqCompare p.dataSeq cur > 0 then some (p.dataSeq, d) else none
    -- the out-of-order callback runs before `process_payload`
    let f2 := f1.afterOoo p ooo.isSome
    let r := processPayload f2.tr p.dataSeq d
    ({ f2 with tr := r.1 }, ooo, r.2)

/-! ### Stream -/

structure Cfg where
  attach : Bool              -- `attach_to_flows_`
  maxChunks : Nat            -- `max_buffered_chunks_`
  maxBytes : Nat             -- `max_buffered_bytes_`
  keepAlive : Nat            -- `stream_keep_alive_` (µs)
  acl : Bool                 -- auto-cleanup of payloads (harness sets it in the new-stream callback)
  maxSacked : Nat := 1024    -- `DEFAULT_MAX_SACKED_INTERVALS`
  -- what the new-stream callback does to the stream it is handed:
  ackC : Bool := false       -- `client_flow().enable_ack_tracking()`
  ackS : Bool := false       -- `server_flow().enable_ack_tracking()`
  useSack : Bool := false    -- `ack_tracker().use_sack()` on both flows
  ignC : Bool := false       -- `ignore_client_data()`
  ignS : Bool := false       -- `ignore_server_data()`
  cbSet : Bool := true       -- a new-stream callback is installed (`on_new_connection_`); `false`: see `stepX`
  recovery : Option Nat := none   -- `enable_recovery_mode(window)` (after the out-of-order callbacks have been installed)
deriving Repr

/-- the stream as its constructor leaves it: what the new-stream callback would have configured is absent -/
def Cfg.raw (cfg : Cfg) : Cfg :=
  { cfg with acl := true, ackC := false, ackS := false, useSack := false, ignC := false, ignS := false, recovery := none }

structure Stream where
  client : Flow
  server : Flow
  createTime : Nat
  lastSeen : Nat
  isPartial : Bool
  acl : Bool                 -- `auto_cleanup_client_` = `auto_cleanup_server_` (set once in the new-stream callback)

/-- what identifies a stream to the application: `is_v6()`, `client_addr`, `client_port`, `server_addr`, `server_port` -/
structure Sid where
  v6 : Bool
  caddr : Nat
  cport : Nat
  saddr : Nat
  sport : Nat
deriving DecidableEq, Repr

def Stream.sid (s : Stream) : Sid :=
  ⟨s.server.v6, s.server.dst, s.server.dport, s.client.dst, s.client.dport⟩

/-- what the new-stream callback does to one flow -/
def Flow.configure (f : Flow) (ack useSack ign : Bool) (rec : Option Nat) : Flow :=
  { f with ackTracking := ack, ignoreData := ign, ackTr := { f.ackTr with useSack := f.ackTr.useSack || useSack },
           -- `flow.sequence_number() + recovery_window`
           recEnd := rec.map (fun w => wrap32 (f.tr.seq + w)) }

/-- `Stream::Stream(packet, ts)` (`extract_client_flow`, `extract_server_flow`) followed by the new-stream callback -/
def Stream.ofPacket (cfg : Cfg) (p : Pkt) : Stream :=
  { client := (Flow.init p.v6 p.dst p.dport p.dataSeq).configure cfg.ackC cfg.useSack cfg.ignC cfg.recovery,
    server := (Flow.init p.v6 p.src p.sport p.ack).configure cfg.ackS cfg.useSack cfg.ignS cfg.recovery,
    createTime := p.ts, lastSeen := p.ts, isPartial := !p.syn, acl := cfg.acl }

/-- `Stream::is_finished` -/
def Stream.isFinished (s : Stream) : Bool :=
  if s.client.state = .rstSent ∨ s.server.state = .rstSent then true
  else s.client.state = .finSent ∧ s.server.state = .finSent

def Stream.chunks (s : Stream) : Nat := s.client.tr.buf.length + s.server.tr.buf.length
/-- `uint32_t total_buffered_bytes = client + server` (wraps) -/
def Stream.bytes (s : Stream) : Nat := wrap32 (s.client.tr.total + s.server.tr.total)
/-- `uint32_t count = client.acked_intervals().iterative_size() + server...` (wraps) -/
def Stream.sacked (s : Stream) : Nat := wrap32 (s.client.ackTr.ivs.length + s.server.ackTr.ivs.length)

/-- callbacks a stream makes while processing one packet -/
inductive SEv
  | ooo (client : Bool) (seq : Nat) (d : Bytes)
  | data (client : Bool) (payload : Bytes)
  | closed
deriving Repr

def clearPayload (f : Flow) : Flow := { f with tr := { f.tr with payload := [] } }

/-- the flow dispatch of `Stream::process_packet` (`packet_belongs` tests, `Flow::process_packet`, and the inlined
    `on_*_out_of_order` / `on_*_flow_data` handlers incl. auto-cleanup) -/
def Stream.route (s0 : Stream) (p : Pkt) : Stream × List SEv :=
  if s0.client.packetBelongs p then
    let (f, ooo, fired) := s0.client.processPacket p
    let e1 := match ooo with | some (q, d) => [SEv.ooo true q d] | none => []
    let e2 := if fired then [SEv.data true f.tr.payload] else []
    ({ s0 with client := if fired && s0.acl then clearPayload f else f }, e1 ++ e2)
  else if s0.server.packetBelongs p then
    let (f, ooo, fired) := s0.server.processPacket p
    let e1 := match ooo with | some (q, d) => [SEv.ooo false q d] | none => []
    let e2 := if fired then [SEv.data false f.tr.payload] else []
    ({ s0 with server := if fired && s0.acl then clearPayload f else f }, e1 ++ e2)
  else (s0, [])

/-- `Stream::process_packet(packet, ts)` -/
def Stream.processPacket (s : Stream) (p : Pkt) : Stream × List SEv :=
  let r := Stream.route { s with lastSeen := p.ts } p
  (r.1, r.2 ++ (if r.1.isFinished then [SEv.closed] else []))

/-! ### StreamFollower -/

inductive Reason | timeout | bufferedData | sackedSegments
deriving DecidableEq, Repr

/-- the callback trace; `k` is the key of `streams_` under which the stream is (was) stored -/
inductive Ev (κ : Type)
  | new (k : κ) (sid : Sid) (isPartial : Bool)
  | ooo (k : κ) (sid : Sid) (client : Bool) (seq : Nat) (d : Bytes)
  | data (k : κ) (sid : Sid) (client : Bool) (payload : Bytes)
  | closed (k : κ) (sid : Sid)
  | term (k : κ) (sid : Sid) (r : Reason) (chunks bytes sacked : Nat)
deriving Repr

def Ev.key {κ} : Ev κ → κ
  | .new k _ _ => k | .ooo k _ _ _ _ => k | .data k _ _ _ => k | .closed k _ => k | .term k _ _ _ _ _ => k

structure Follower (κ : Type) where
  streams : List (κ × Stream)
  lastCleanup : Nat

def Follower.empty {κ} : Follower κ := ⟨[], 0⟩

section generic
variable {κ : Type} [DecidableEq κ]

def find? (m : List (κ × Stream)) (k : κ) : Option Stream :=
  match m with
  | [] => none
  | (k', s) :: r => if k' = k then some s else find? r k

def remove (m : List (κ × Stream)) (k : κ) : List (κ × Stream) := m.filter (fun e => !decide (e.1 = k))

/-- insert / overwrite the entry of `k` -/
def store (m : List (κ × Stream)) (k : κ) (s : Stream) : List (κ × Stream) := (k, s) :: remove m k

def insertSorted (lt : κ → κ → Bool) (x : κ × Stream) : List (κ × Stream) → List (κ × Stream)
  | [] => [x]
  | y :: ys => if lt x.1 y.1 then x :: y :: ys else y :: insertSorted lt x ys

/-- the order in which `std::map` iteration meets the entries -/
def sortEntries (lt : κ → κ → Bool) (m : List (κ × Stream)) : List (κ × Stream) :=
  m.foldr (insertSorted lt) []

def expired (cfg : Cfg) (now : Nat) (e : κ × Stream) : Bool := decide (e.2.lastSeen + cfg.keepAlive ≤ now)

/-- `StreamFollower::cleanup_streams(now)` -/
def cleanup (cfg : Cfg) (lt : κ → κ → Bool) (F : Follower κ) (now : Nat) : Follower κ × List (Ev κ) :=
  ({ streams := F.streams.filter (fun e => !expired cfg now e), lastCleanup := now },
   (sortEntries lt (F.streams.filter (expired cfg now))).map
      (fun e => Ev.term e.1 e.2.sid .timeout e.2.chunks e.2.bytes e.2.sacked))

/-- `if (last_cleanup_ + stream_keep_alive_ <= ts) cleanup_streams(ts);` -/
def maybeCleanup (cfg : Cfg) (lt : κ → κ → Bool) (F : Follower κ) (ts : Nat) : Follower κ × List (Ev κ) :=
  if F.lastCleanup + cfg.keepAlive ≤ ts then cleanup cfg lt F ts else (F, [])

def liftEv (k : κ) (sid : Sid) : SEv → Ev κ
  | .ooo c q d => .ooo k sid c q d
  | .data c pl => .data k sid c pl
  | .closed => .closed k sid

/-- did the buffering limits of `process_packet` decide to terminate the stream (reason BUFFERED_DATA) -/
def overLimit (cfg : Cfg) (s : Stream) : Bool := decide (s.chunks > cfg.maxChunks) || decide (s.bytes > cfg.maxBytes)

/-- `if (!terminate_stream) { count = ...; terminate_stream = count > DEFAULT_MAX_SACKED_INTERVALS; reason = SACKED_SEGMENTS; }` -/
def overSacked (cfg : Cfg) (s : Stream) : Bool := !overLimit cfg s && decide (s.sacked > cfg.maxSacked)

/-- `terminate_stream` -/
def terminated (cfg : Cfg) (s : Stream) : Bool := overLimit cfg s || overSacked cfg s

/-- the part of `StreamFollower::process_packet` after the stream has been found or created:
    `stream.process_packet`, limits, erase (the sweep is applied by `step`) -/
def touch (cfg : Cfg) (F : Follower κ) (k : κ) (s : Stream) (p : Pkt) : Follower κ × List (Ev κ) :=
  let r := s.processPacket p
  let s' := r.1
  let F1 : Follower κ :=
    if s'.isFinished || terminated cfg s' then { F with streams := remove F.streams k }
    else { F with streams := store F.streams k s' }
  (F1, r.2.map (liftEv k s'.sid) ++
       (if terminated cfg s' then
          [Ev.term k s'.sid (if overLimit cfg s' then .bufferedData else .sackedSegments) s'.chunks s'.bytes s'.sacked]
        else []))

/-- forcing both flows to ESTABLISHED when attaching to a running connection -/
def Stream.established (s : Stream) : Stream :=
  { s with client := { s.client with state := .established }, server := { s.server with state := .established } }

/-- `StreamFollower::process_packet(packet, ts)` up to (excluding) the final sweep test -/
def stepCore (cfg : Cfg) (keyOf : Pkt → κ) (F : Follower κ) (p : Pkt) : Follower κ × List (Ev κ) :=
  let k := keyOf p
  match find? F.streams k with
  | some s => touch cfg F k s p
  | none =>
    let isSyn := p.syn && !p.ackf
    if isSyn || (cfg.attach && p.payload.isSome) then
      let s0 := Stream.ofPacket cfg p
      let s1 := if isSyn then s0 else s0.established
      let r := touch cfg F k s1 p
      (r.1, Ev.new k s0.sid s0.isPartial :: r.2)
    else (F, [])

/-- `StreamFollower::process_packet(packet, ts)` -/
def step (cfg : Cfg) (keyOf : Pkt → κ) (lt : κ → κ → Bool) (F : Follower κ) (p : Pkt) : Follower κ × List (Ev κ) :=
  let r := stepCore cfg keyOf F p
  let c := maybeCleanup cfg lt r.1 p.ts
  (c.1, r.2 ++ c.2)

/-- a whole capture: final state and the trace, one event list per packet -/
def run (cfg : Cfg) (keyOf : Pkt → κ) (lt : κ → κ → Bool) : Follower κ → List Pkt → Follower κ × List (List (Ev κ))
  | F, [] => (F, [])
  | F, p :: ps =>
    let r := step cfg keyOf lt F p
    let rest := run cfg keyOf lt r.1 ps
    (rest.1, r.2 :: rest.2)

/-! ### no new-stream callback installed (`throw callback_not_set()`)

  `StreamFollower::process_packet` inserts the new stream, sets up the flow callbacks and then, finding `on_new_connection_`
  empty, throws `callback_not_set`: the stream stays in `streams_` as constructed (no ESTABLISHED forcing, the packet is not
  processed, no limits check, no sweep).  Later packets of the connection are processed as usual (`step`), but no stream
  callback is installed, so only termination callbacks are observable.  `step` / `run` above describe the follower with
  the callback installed; `stepX` / `runX` add this path (`stepX_of_cbSet`: they coincide when it is installed). -/

/-- would this packet create a stream -/
def creates (cfg : Cfg) (keyOf : Pkt → κ) (F : Follower κ) (p : Pkt) : Bool :=
  (find? F.streams (keyOf p)).isNone && ((p.syn && !p.ackf) || (cfg.attach && p.payload.isSome))

/-- `StreamFollower::process_packet(packet, ts)`, with or without a new-stream callback; the flag says whether
    `callback_not_set` left the call -/
def stepX (cfg : Cfg) (keyOf : Pkt → κ) (lt : κ → κ → Bool) (F : Follower κ) (p : Pkt) : Follower κ × List (Ev κ) × Bool :=
  if !cfg.cbSet && creates cfg keyOf F p then
    ({ F with streams := store F.streams (keyOf p) (Stream.ofPacket cfg.raw p) }, [], true)
  else
    let r := step cfg keyOf lt F p
    (r.1, r.2, false)

def runX (cfg : Cfg) (keyOf : Pkt → κ) (lt : κ → κ → Bool) : Follower κ → List Pkt → Follower κ × List (List (Ev κ) × Bool)
  | F, [] => (F, [])
  | F, p :: ps =>
    let r := stepX cfg keyOf lt F p
    let rest := runX cfg keyOf lt r.1 ps
    (rest.1, (r.2.1, r.2.2) :: rest.2)

end generic

/-- the code: `streams_` keyed by `StreamIdentifier` -/
abbrev Model := Follower Ident
def Model.step (cfg : Cfg) (F : Model) (p : Pkt) : Model × List (Ev Ident) := Tins.SF.step cfg identOf Ident.lt F p
def Model.run (cfg : Cfg) (F : Model) (h : List Pkt) : Model × List (List (Ev Ident)) := Tins.SF.run cfg identOf Ident.lt F h
def Model.stepX (cfg : Cfg) (F : Model) (p : Pkt) : Model × List (Ev Ident) × Bool := Tins.SF.stepX cfg identOf Ident.lt F p

end Tins.SF
