import TinsModel.Follower.LemmasStep
/- In-order delivery through the imported C06 tracker model, and the payload of a SYN segment (KF-C07-3). -/
namespace Tins.SF
open Tins Tins.DT

theorem seqCompare_self (x : Nat) : seqCompare x x = 0 := by unfold seqCompare; simp

theorem seqCompare_ahead (c n : Nat) (hc : c < 4294967296) (h0 : 0 < n) (hn : n < 2147483648) :
    seqCompare (wrap32 (c + n)) c = 1 := by
  unfold seqCompare wrap32
  split
  · omega
  · split
    · split <;> omega
    · split <;> omega

/-- an in-order segment on a tracker with nothing buffered is delivered whole -/
theorem processPayload_in_order (t : Tracker) (d : Bytes) (hb : t.buf = []) (hc : t.seq < 4294967296)
    (h0 : 0 < d.length) (hn : d.length < 2147483648) :
    (processPayload t t.seq d).2 = true ∧ (processPayload t t.seq d).1.payload = t.payload ++ d ∧
    (processPayload t t.seq d).1.seq = wrap32 (t.seq + d.length) ∧ (processPayload t t.seq d).1.buf = [] := by
  unfold processPayload
  have h1 := seqCompare_ahead t.seq d.length hc h0 hn
  simp only [h1, seqCompare_self]
  simp only [storePayload, hb, lookup, put, erase, List.filter_nil]
  have hne : d ≠ [] := by intro h; simp [h] at h0
  simp [drain, lookup, seqCompare_self, eraseIterator, erase, cyclicSucc, minKey?, hne]


/-- KF-C07-3 (fixed): the payload of an initial SYN segment (TCP Fast Open) is delivered whole by the stream the SYN creates,
    and the client direction then expects the byte after it, with nothing buffered (unless the application asked to
    ignore the client's data). -/
theorem syn_payload_delivered (cfg : Cfg) (p : Pkt) (d : Bytes) (hi : cfg.ignC = false)
    (hs : p.syn = true) (hr : p.rst = false) (hf : p.fin = false) (hp : p.payload = some d)
    (h0 : 0 < d.length) (hn : d.length < 2147483648) :
    (Stream.route { (Stream.ofPacket cfg p) with lastSeen := p.ts } p).2 = [SEv.data true d] ∧
    (Stream.route { (Stream.ofPacket cfg p) with lastSeen := p.ts } p).1.client.tr.seq = wrap32 (wrap32 (p.seq + 1) + d.length) ∧
    (Stream.route { (Stream.ofPacket cfg p) with lastSeen := p.ts } p).1.client.tr.buf = [] := by
  have hds : p.dataSeq = wrap32 (p.seq + 1) := by unfold Pkt.dataSeq; simp [hs]
  have hlt : wrap32 (p.seq + 1) < 4294967296 := by unfold wrap32; omega
  obtain ⟨i1, i2, i3, i4⟩ := processPayload_in_order
    { seq := wrap32 (p.seq + 1), buf := [], total := 0, payload := [] } d rfl hlt h0 hn
  have a1 := seqCompare_ahead (wrap32 (p.seq + 1)) d.length hlt h0 hn
  simp only at i1 i2 i3 i4
  have hcl : ((Stream.ofPacket cfg p).client.pre p).ignoreData = false ∧
      ((Stream.ofPacket cfg p).client.pre p).tr = Tracker.init (wrap32 (p.seq + 1)) := by
    obtain ⟨_, _, _, _, q5, q6, _⟩ := pre_fields (Stream.ofPacket cfg p).client p
    refine ⟨q6.trans hi, ?_⟩
    rw [q5, updateState_tr_syn _ p rfl hs hr hf]
    show ({ (Tracker.init p.dataSeq) with seq := wrap32 (p.seq + 1) } : Tracker) = _
    rw [hds]; rfl
  have hb : (Stream.ofPacket cfg p).client.packetBelongs p = true := by
    simp [Stream.ofPacket, Flow.configure, Flow.init, Flow.packetBelongs]
  have hno : isOoo p d (Tracker.init (wrap32 (p.seq + 1))).seq = false := by
    unfold isOoo
    simp only [hds, Tracker.init, a1, seqCompare_self]
    decide
  have hpp := processPacket_some' (Stream.ofPacket cfg p).client p d hcl.1 hp
  rw [hcl.2, hno, afterOoo_false, hcl.2] at hpp
  unfold Stream.route
  simp only [hb, if_true, hpp, hds, Tracker.init, a1, seqCompare_self]
  simp [i1, i2, i3, i4, clearPayload]
  cases h : (Stream.ofPacket cfg p).acl <;> simp [i3, i4]

/-- recovery mode: an out-of-order segment that lies ahead of the expected sequence number, inside the recovery window, on a
    flow with nothing buffered: the handler advances the sequence number to the segment (skipping the hole) and the segment
    is delivered at once; the handler stays installed while the window's end lies beyond the segment -/
theorem recovery_skips_hole (f : Flow) (p : Pkt) (d : Bytes) (e : Nat)
    (hi : (f.pre p).ignoreData = false) (hp : p.payload = some d) (hr : (f.pre p).recEnd = some e)
    (hb : (f.pre p).tr.buf = []) (hahead : seqCompare p.dataSeq (f.pre p).tr.seq > 0)
    (hwin : p.dataSeq > (f.pre p).tr.seq ∧ p.dataSeq ≤ e) (h0 : 0 < d.length) (hn : d.length < 2147483648) :
    (f.processPacket p).2.1 = some (p.dataSeq, d) ∧ (f.processPacket p).2.2 = true ∧
    (f.processPacket p).1.tr.payload = (f.pre p).tr.payload ++ d ∧
    (f.processPacket p).1.tr.seq = wrap32 (p.dataSeq + d.length) ∧ (f.processPacket p).1.tr.buf = [] ∧
    (f.processPacket p).1.recEnd = (if e > p.dataSeq then some e else none) := by
  have hoo : isOoo p d (f.pre p).tr.seq = true := by unfold isOoo; simp [hahead]
  have hlt : p.dataSeq < 4294967296 := by unfold Pkt.dataSeq wrap32; omega
  have hadv : advanceSequence (f.pre p).tr p.dataSeq =
      { seq := p.dataSeq, buf := [], total := (f.pre p).tr.total, payload := (f.pre p).tr.payload } := by
    unfold advanceSequence
    have : ¬ seqCompare p.dataSeq (f.pre p).tr.seq ≤ 0 := by omega
    simp [this, hb]
  obtain ⟨i1, i2, i3, i4⟩ := processPayload_in_order
    { seq := p.dataSeq, buf := [], total := (f.pre p).tr.total, payload := (f.pre p).tr.payload } d rfl hlt h0 hn
  rw [processPacket_some' f p d hi hp, hoo]
  have haf : (f.pre p).afterOoo p true = (f.pre p).recover p.dataSeq e := by
    unfold Flow.afterOoo; rw [hr]
  rw [haf]
  unfold Flow.recover
  simp only [hwin, and_self, if_true, hadv]
  refine ⟨?_, i1, i2, i3, i4, trivial⟩
  have : seqCompare p.dataSeq (f.pre p).tr.seq > 0 := hahead
  simp [this]

end Tins.SF
