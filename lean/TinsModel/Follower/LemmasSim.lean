import TinsModel.Follower.LemmasStep
/- Simulation between two instances of the follower whose key functions are related by a key translation `ψ`
   that is injective on the keys in use: same states up to `ψ`, same callback traces up to `ψ`. -/
namespace Tins.SF
variable {κ₁ κ₂ : Type} [DecidableEq κ₁] [DecidableEq κ₂]

def mapKey (ψ : κ₂ → κ₁) (e : κ₂ × Stream) : κ₁ × Stream := (ψ e.1, e.2)

def Ev.mapKey (ψ : κ₂ → κ₁) : Ev κ₂ → Ev κ₁
  | .new k sid p => .new (ψ k) sid p
  | .ooo k sid c q d => .ooo (ψ k) sid c q d
  | .data k sid c pl => .data (ψ k) sid c pl
  | .closed k sid => .closed (ψ k) sid
  | .term k sid r ch b z => .term (ψ k) sid r ch b z

def InjOn (ψ : κ₂ → κ₁) (K : κ₂ → Prop) : Prop := ∀ a b, K a → K b → ψ a = ψ b → a = b

theorem find?_map (ψ : κ₂ → κ₁) (K : κ₂ → Prop) (hi : InjOn ψ K) (m : List (κ₂ × Stream)) (k : κ₂)
    (hm : ∀ e ∈ m, K e.1) (hk : K k) : find? (m.map (mapKey ψ)) (ψ k) = find? m k := by
  induction m with
  | nil => rfl
  | cons e r ih =>
    obtain ⟨k', s⟩ := e
    simp only [List.map_cons, mapKey, find?_cons]
    have hk' : K k' := hm (k', s) List.mem_cons_self
    have ih := ih (fun e he => hm e (List.mem_cons_of_mem _ he))
    by_cases h : k' = k
    · simp [h]
    · have : ψ k' ≠ ψ k := fun hc => h (hi _ _ hk' hk hc)
      simp only [h, this, if_false]
      exact ih

theorem remove_map (ψ : κ₂ → κ₁) (K : κ₂ → Prop) (hi : InjOn ψ K) (m : List (κ₂ × Stream)) (k : κ₂)
    (hm : ∀ e ∈ m, K e.1) (hk : K k) : remove (m.map (mapKey ψ)) (ψ k) = (remove m k).map (mapKey ψ) := by
  induction m with
  | nil => rfl
  | cons e r ih =>
    obtain ⟨k', s⟩ := e
    have hk' : K k' := hm (k', s) List.mem_cons_self
    have ih := ih (fun e he => hm e (List.mem_cons_of_mem _ he))
    unfold remove at ih ⊢
    simp only [List.map_cons, List.filter_cons, mapKey]
    by_cases h : k' = k
    · simp only [h, decide_true, Bool.not_true, Bool.false_eq_true, if_false]; exact ih
    · have : ψ k' ≠ ψ k := fun hc => h (hi _ _ hk' hk hc)
      simp only [h, this, decide_false, Bool.not_false, if_true, List.map_cons, mapKey]
      rw [ih]

theorem store_map (ψ : κ₂ → κ₁) (K : κ₂ → Prop) (hi : InjOn ψ K) (m : List (κ₂ × Stream)) (k : κ₂) (s : Stream)
    (hm : ∀ e ∈ m, K e.1) (hk : K k) : store (m.map (mapKey ψ)) (ψ k) s = (store m k s).map (mapKey ψ) := by
  unfold store; rw [remove_map ψ K hi m k hm hk]; rfl

omit [DecidableEq κ₁] [DecidableEq κ₂] in
theorem insertSorted_map (ψ : κ₂ → κ₁) (lt₁ : κ₁ → κ₁ → Bool) (lt₂ : κ₂ → κ₂ → Bool)
    (hlt : ∀ a b, lt₂ a b = lt₁ (ψ a) (ψ b)) (x : κ₂ × Stream) (l : List (κ₂ × Stream)) :
    insertSorted lt₁ (mapKey ψ x) (l.map (mapKey ψ)) = (insertSorted lt₂ x l).map (mapKey ψ) := by
  induction l with
  | nil => rfl
  | cons y ys ih =>
    simp only [List.map_cons, insertSorted]
    rw [hlt x.1 y.1]
    simp only [mapKey] at ih ⊢
    by_cases h : lt₁ (ψ x.1) (ψ y.1) = true
    · simp only [h, if_true, List.map_cons, mapKey]
    · simp only [h, Bool.false_eq_true, if_false, List.map_cons, mapKey]; rw [ih]

omit [DecidableEq κ₁] [DecidableEq κ₂] in
theorem sortEntries_map (ψ : κ₂ → κ₁) (lt₁ : κ₁ → κ₁ → Bool) (lt₂ : κ₂ → κ₂ → Bool)
    (hlt : ∀ a b, lt₂ a b = lt₁ (ψ a) (ψ b)) (m : List (κ₂ × Stream)) :
    sortEntries lt₁ (m.map (mapKey ψ)) = (sortEntries lt₂ m).map (mapKey ψ) := by
  induction m with
  | nil => rfl
  | cons x r ih =>
    unfold sortEntries at ih ⊢
    simp only [List.map_cons, List.foldr_cons]
    rw [ih]; exact insertSorted_map ψ lt₁ lt₂ hlt x _

omit [DecidableEq κ₁] [DecidableEq κ₂] in
theorem filter_map_stream (ψ : κ₂ → κ₁) (P : Stream → Bool) (m : List (κ₂ × Stream)) :
    (m.map (mapKey ψ)).filter (fun e => P e.2) = (m.filter (fun e => P e.2)).map (mapKey ψ) := by
  rw [List.filter_map]; rfl

/-- the two followers hold the same streams under corresponding keys -/
def Sim (ψ : κ₂ → κ₁) (K : κ₂ → Prop) (F₁ : Follower κ₁) (F₂ : Follower κ₂) : Prop :=
  F₁.lastCleanup = F₂.lastCleanup ∧ F₁.streams = F₂.streams.map (mapKey ψ) ∧ ∀ e ∈ F₂.streams, K e.1

omit [DecidableEq κ₁] [DecidableEq κ₂] in
theorem liftEv_map (ψ : κ₂ → κ₁) (k : κ₂) (sid : Sid) (l : List SEv) :
    l.map (liftEv (ψ k) sid) = (l.map (liftEv k sid)).map (Ev.mapKey ψ) := by
  rw [List.map_map]; apply List.map_congr_left; intro e _; cases e <;> rfl

theorem touch_sim (cfg : Cfg) (ψ : κ₂ → κ₁) (K : κ₂ → Prop) (hi : InjOn ψ K) (F₁ : Follower κ₁) (F₂ : Follower κ₂)
    (hs : Sim ψ K F₁ F₂) (k : κ₂) (hk : K k) (s : Stream) (p : Pkt) :
    Sim ψ K (touch cfg F₁ (ψ k) s p).1 (touch cfg F₂ k s p).1 ∧
    (touch cfg F₁ (ψ k) s p).2 = (touch cfg F₂ k s p).2.map (Ev.mapKey ψ) := by
  obtain ⟨h1, h2, h3⟩ := hs
  constructor
  · simp only [touch_fst]
    refine ⟨h1, ?_, ?_⟩
    · simp only
      split
      · rw [h2]; exact remove_map ψ K hi _ k h3 hk
      · rw [h2]; exact store_map ψ K hi _ k _ h3 hk
    · simp only
      intro e he
      split at he
      · exact h3 e (mem_remove.1 he).1
      · rcases mem_store.1 he with h | h
        · rw [h]; exact hk
        · exact h3 e h.1
  · simp only [touch_snd, List.map_append, liftEv_map]
    congr 1
    split <;> rfl

theorem stepCore_sim (cfg : Cfg) (ψ : κ₂ → κ₁) (K : κ₂ → Prop) (hi : InjOn ψ K) (key₂ : Pkt → κ₂)
    (F₁ : Follower κ₁) (F₂ : Follower κ₂) (hs : Sim ψ K F₁ F₂) (p : Pkt) (hk : K (key₂ p)) :
    Sim ψ K (stepCore cfg (fun q => ψ (key₂ q)) F₁ p).1 (stepCore cfg key₂ F₂ p).1 ∧
    (stepCore cfg (fun q => ψ (key₂ q)) F₁ p).2 = (stepCore cfg key₂ F₂ p).2.map (Ev.mapKey ψ) := by
  have hf : find? F₁.streams (ψ (key₂ p)) = find? F₂.streams (key₂ p) := by
    rw [hs.2.1]; exact find?_map ψ K hi _ _ hs.2.2 hk
  have ht : target cfg (fun q => ψ (key₂ q)) F₁ p = target cfg key₂ F₂ p := by unfold target; simp only [hf]
  have ha : announces cfg (fun q => ψ (key₂ q)) F₁ p = announces cfg key₂ F₂ p := by unfold announces; simp only [hf]
  rw [stepCore_eq, stepCore_eq, ht, ha]
  cases target cfg key₂ F₂ p with
  | none => exact ⟨hs, rfl⟩
  | some s =>
    have := touch_sim cfg ψ K hi F₁ F₂ hs (key₂ p) hk s p
    refine ⟨this.1, ?_⟩
    simp only [List.map_append, this.2]
    congr 1
    split <;> rfl

omit [DecidableEq κ₁] [DecidableEq κ₂] in
theorem maybeCleanup_sim (cfg : Cfg) (ψ : κ₂ → κ₁) (K : κ₂ → Prop) (lt₁ : κ₁ → κ₁ → Bool) (lt₂ : κ₂ → κ₂ → Bool)
    (hlt : ∀ a b, lt₂ a b = lt₁ (ψ a) (ψ b)) (F₁ : Follower κ₁) (F₂ : Follower κ₂) (hs : Sim ψ K F₁ F₂) (ts : Nat) :
    Sim ψ K (maybeCleanup cfg lt₁ F₁ ts).1 (maybeCleanup cfg lt₂ F₂ ts).1 ∧
    (maybeCleanup cfg lt₁ F₁ ts).2 = (maybeCleanup cfg lt₂ F₂ ts).2.map (Ev.mapKey ψ) := by
  obtain ⟨h1, h2, h3⟩ := hs
  unfold maybeCleanup
  rw [h1]
  split
  · unfold cleanup
    simp only
    refine ⟨⟨rfl, ?_, ?_⟩, ?_⟩
    · rw [h2]; exact filter_map_stream ψ (fun s => !decide (s.lastSeen + cfg.keepAlive ≤ ts)) _
    · intro e he; exact h3 e (List.mem_filter.1 he).1
    · rw [h2]
      have := filter_map_stream ψ (fun s => decide (s.lastSeen + cfg.keepAlive ≤ ts)) F₂.streams
      unfold expired
      rw [this, sortEntries_map ψ lt₁ lt₂ hlt, List.map_map, List.map_map]
      apply List.map_congr_left; intro e _; rfl
  · exact ⟨⟨h1, h2, h3⟩, rfl⟩

theorem step_sim (cfg : Cfg) (ψ : κ₂ → κ₁) (K : κ₂ → Prop) (hi : InjOn ψ K) (key₂ : Pkt → κ₂)
    (lt₁ : κ₁ → κ₁ → Bool) (lt₂ : κ₂ → κ₂ → Bool) (hlt : ∀ a b, lt₂ a b = lt₁ (ψ a) (ψ b))
    (F₁ : Follower κ₁) (F₂ : Follower κ₂) (hs : Sim ψ K F₁ F₂) (p : Pkt) (hk : K (key₂ p)) :
    Sim ψ K (step cfg (fun q => ψ (key₂ q)) lt₁ F₁ p).1 (step cfg key₂ lt₂ F₂ p).1 ∧
    (step cfg (fun q => ψ (key₂ q)) lt₁ F₁ p).2 = (step cfg key₂ lt₂ F₂ p).2.map (Ev.mapKey ψ) := by
  unfold step
  have h1 := stepCore_sim cfg ψ K hi key₂ F₁ F₂ hs p hk
  have h2 := maybeCleanup_sim cfg ψ K lt₁ lt₂ hlt _ _ h1.1 p.ts
  exact ⟨h2.1, by simp only [List.map_append, h1.2, h2.2]⟩

theorem run_sim (cfg : Cfg) (ψ : κ₂ → κ₁) (K : κ₂ → Prop) (hi : InjOn ψ K) (key₂ : Pkt → κ₂)
    (lt₁ : κ₁ → κ₁ → Bool) (lt₂ : κ₂ → κ₂ → Bool) (hlt : ∀ a b, lt₂ a b = lt₁ (ψ a) (ψ b))
    (h : List Pkt) (hK : ∀ p ∈ h, K (key₂ p)) (F₁ : Follower κ₁) (F₂ : Follower κ₂) (hs : Sim ψ K F₁ F₂) :
    Sim ψ K (run cfg (fun q => ψ (key₂ q)) lt₁ F₁ h).1 (run cfg key₂ lt₂ F₂ h).1 ∧
    (run cfg (fun q => ψ (key₂ q)) lt₁ F₁ h).2 = (run cfg key₂ lt₂ F₂ h).2.map (List.map (Ev.mapKey ψ)) := by
  induction h generalizing F₁ F₂ with
  | nil => exact ⟨hs, rfl⟩
  | cons p ps ih =>
    unfold run
    have h1 := step_sim cfg ψ K hi key₂ lt₁ lt₂ hlt F₁ F₂ hs p (hK p List.mem_cons_self)
    have h2 := ih (fun q hq => hK q (List.mem_cons_of_mem _ hq)) _ _ h1.1
    exact ⟨h2.1, by simp only [List.map_cons, h1.2, h2.2]⟩

/-! ### the same with collisions excluded only among simultaneously live connections -/

/-- like `Sim`, with the key translation injective on the keys currently stored -/
def SimLive (ψ : κ₂ → κ₁) (F₁ : Follower κ₁) (F₂ : Follower κ₂) : Prop :=
  F₁.lastCleanup = F₂.lastCleanup ∧ F₁.streams = F₂.streams.map (mapKey ψ) ∧
  InjOn ψ (fun k => k ∈ keys F₂.streams)

/-- the next packets never belong to a connection whose key collides (under `ψ`) with a different live connection -/
def NoLiveCollision (cfg : Cfg) (ψ : κ₂ → κ₁) (key₂ : Pkt → κ₂) (lt₂ : κ₂ → κ₂ → Bool) : Follower κ₂ → List Pkt → Prop
  | _, [] => True
  | F, p :: ps => (∀ e ∈ F.streams, ψ e.1 = ψ (key₂ p) → e.1 = key₂ p) ∧
                  NoLiveCollision cfg ψ key₂ lt₂ (step cfg key₂ lt₂ F p).1 ps

theorem step_simLive (cfg : Cfg) (ψ : κ₂ → κ₁) (key₂ : Pkt → κ₂)
    (lt₁ : κ₁ → κ₁ → Bool) (lt₂ : κ₂ → κ₂ → Bool) (hlt : ∀ a b, lt₂ a b = lt₁ (ψ a) (ψ b))
    (F₁ : Follower κ₁) (F₂ : Follower κ₂) (hs : SimLive ψ F₁ F₂) (p : Pkt)
    (hp : ∀ e ∈ F₂.streams, ψ e.1 = ψ (key₂ p) → e.1 = key₂ p) :
    SimLive ψ (step cfg (fun q => ψ (key₂ q)) lt₁ F₁ p).1 (step cfg key₂ lt₂ F₂ p).1 ∧
    (step cfg (fun q => ψ (key₂ q)) lt₁ F₁ p).2 = (step cfg key₂ lt₂ F₂ p).2.map (Ev.mapKey ψ) := by
  obtain ⟨h1, h2, h3⟩ := hs
  let K : κ₂ → Prop := fun k => k ∈ keys F₂.streams ∨ k = key₂ p
  have hi : InjOn ψ K := by
    intro a b ha hb hab
    rcases ha with ha | ha <;> rcases hb with hb | hb
    · exact h3 a b ha hb hab
    · subst hb
      obtain ⟨e, he, rfl⟩ := List.mem_map.1 ha
      exact hp e he hab
    · subst ha
      obtain ⟨e, he, rfl⟩ := List.mem_map.1 hb
      exact (hp e he hab.symm).symm
    · rw [ha, hb]
  have hsim : Sim ψ K F₁ F₂ := ⟨h1, h2, fun e he => Or.inl (List.mem_map.2 ⟨e, he, rfl⟩)⟩
  obtain ⟨⟨g1, g2, g3⟩, gev⟩ := step_sim cfg ψ K hi key₂ lt₁ lt₂ hlt F₁ F₂ hsim p (Or.inr rfl)
  refine ⟨⟨g1, g2, ?_⟩, gev⟩
  intro a b ha hb hab
  obtain ⟨ea, hea, rfl⟩ := List.mem_map.1 ha
  obtain ⟨eb, heb, rfl⟩ := List.mem_map.1 hb
  exact hi _ _ (g3 ea hea) (g3 eb heb) hab

theorem run_simLive (cfg : Cfg) (ψ : κ₂ → κ₁) (key₂ : Pkt → κ₂)
    (lt₁ : κ₁ → κ₁ → Bool) (lt₂ : κ₂ → κ₂ → Bool) (hlt : ∀ a b, lt₂ a b = lt₁ (ψ a) (ψ b))
    (h : List Pkt) (F₁ : Follower κ₁) (F₂ : Follower κ₂) (hs : SimLive ψ F₁ F₂)
    (hc : NoLiveCollision cfg ψ key₂ lt₂ F₂ h) :
    SimLive ψ (run cfg (fun q => ψ (key₂ q)) lt₁ F₁ h).1 (run cfg key₂ lt₂ F₂ h).1 ∧
    (run cfg (fun q => ψ (key₂ q)) lt₁ F₁ h).2 = (run cfg key₂ lt₂ F₂ h).2.map (List.map (Ev.mapKey ψ)) := by
  induction h generalizing F₁ F₂ with
  | nil => exact ⟨hs, rfl⟩
  | cons p ps ih =>
    unfold NoLiveCollision at hc
    unfold run
    have h1 := step_simLive cfg ψ key₂ lt₁ lt₂ hlt F₁ F₂ hs p hc.1
    have h2 := ih _ _ h1.1 hc.2
    exact ⟨h2.1, by simp only [List.map_cons, h1.2, h2.2]⟩

end Tins.SF
