import TinsModel.Follower.LemmasRoute
import TinsModel.Follower.LemmasLimit
/- Projection of the follower onto one connection: for as long as a connection stays live, what the follower holds
   for it is `Stream::process_packet` folded over the sub-history of its own packets, and each flow of that stream is
   `Flow::process_packet` folded over the packets routed to it — whatever other connections do in between. -/
namespace Tins.SF
open Tins Tins.DT

/-! ### one stream over its own packets -/

/-- `Stream::process_packet` folded over a list of packets -/
def Stream.feed (s : Stream) (ps : List Pkt) : Stream := ps.foldl after s

section
variable {κ : Type} [DecidableEq κ]

/-- the callbacks made for one packet of a connection that stays live: those of the flow dispatch -/
def liveEvents (k : κ) (s : Stream) (p : Pkt) : List (Ev κ) :=
  (Stream.route { s with lastSeen := p.ts } p).2.map (liftEv k (after s p).sid)

/-- the callbacks of connection `k`, packet by packet, while it lives on `s` -/
def feedTrace (k : κ) (keyOf : Pkt → κ) : Stream → List Pkt → List (List (Ev κ))
  | _, [] => []
  | s, p :: ps => if keyOf p = k then liveEvents k s p :: feedTrace k keyOf (after s p) ps else [] :: feedTrace k keyOf s ps

/-- connection `k` is live after every packet of `h` -/
def LiveThrough (cfg : Cfg) (keyOf : Pkt → κ) (lt : κ → κ → Bool) : Follower κ → List Pkt → κ → Prop
  | _, [], _ => True
  | F, p :: ps, k => (find? (step cfg keyOf lt F p).1.streams k).isSome = true ∧
                     LiveThrough cfg keyOf lt (step cfg keyOf lt F p).1 ps k

instance LiveThrough.instDecidable (cfg : Cfg) (keyOf : Pkt → κ) (lt : κ → κ → Bool) :
    (F : Follower κ) → (h : List Pkt) → (k : κ) → Decidable (LiveThrough cfg keyOf lt F h k)
  | _, [], _ => isTrue trivial
  | F, p :: ps, k =>
    have := LiveThrough.instDecidable cfg keyOf lt (step cfg keyOf lt F p).1 ps k
    (inferInstance : Decidable ((find? (step cfg keyOf lt F p).1.streams k).isSome = true ∧
      LiveThrough cfg keyOf lt (step cfg keyOf lt F p).1 ps k))

omit [DecidableEq κ] in
theorem maybeCleanup_find_live [DecidableEq κ] (cfg : Cfg) (lt : κ → κ → Bool) (F : Follower κ) (ts : Nat) (k : κ)
    (hu : UniqueKeys F.streams) (hl : (find? (maybeCleanup cfg lt F ts).1.streams k).isSome = true) :
    find? (maybeCleanup cfg lt F ts).1.streams k = find? F.streams k := by
  unfold maybeCleanup at hl ⊢
  split at hl
  · rename_i hd
    simp only [hd, if_true] at ⊢
    unfold cleanup at hl ⊢
    simp only at hl ⊢
    rw [find?_filter hu] at hl ⊢
    cases hf : find? F.streams k with
    | none => rfl
    | some s =>
      rw [hf] at hl
      simp only [Option.filter_some] at hl ⊢
      split
      · rfl
      · rename_i hx; simp [hx] at hl
  · rename_i hd; simp only [hd, if_false]

theorem sweep_no_event_of_live (cfg : Cfg) (lt : κ → κ → Bool) (F : Follower κ) (ts : Nat) (k : κ)
    (hu : UniqueKeys F.streams) (hl : (find? (maybeCleanup cfg lt F ts).1.streams k).isSome = true) :
    (maybeCleanup cfg lt F ts).2.filter (fun e => decide (e.key = k)) = [] := by
  rw [List.filter_eq_nil_iff]
  intro e he hk
  have hk : e.key = k := of_decide_eq_true hk
  obtain ⟨k', sid, c, y, z, rfl⟩ := sweep_events_timeout cfg lt F ts e he
  have hend : ∃ e ∈ (maybeCleanup cfg lt F ts).2, e.isEnd k = true :=
    ⟨_, he, by simpa [Ev.isEnd, Ev.key] using hk⟩
  have := (cleanup_end_iff cfg lt F ts k hu).1 hend
  have hn := (maybeCleanup_find cfg lt F ts k hu).2 (Or.inr this)
  rw [hn] at hl; cases hl

/-- one `process_packet`, seen from a connection that is live before and after it -/
theorem step_projects (cfg : Cfg) (keyOf : Pkt → κ) (lt : κ → κ → Bool) (F : Follower κ) (p : Pkt) (k : κ) (s : Stream)
    (hu : UniqueKeys F.streams) (hf : find? F.streams k = some s)
    (hl : (find? (step cfg keyOf lt F p).1.streams k).isSome = true) :
    find? (step cfg keyOf lt F p).1.streams k = some (if keyOf p = k then after s p else s) ∧
    (step cfg keyOf lt F p).2.filter (fun e => decide (e.key = k)) = (if keyOf p = k then liveEvents k s p else []) := by
  unfold step at hl ⊢
  simp only at hl ⊢
  have hcu := stepCore_unique cfg keyOf F p hu
  have hfind := maybeCleanup_find_live cfg lt (stepCore cfg keyOf F p).1 p.ts k hcu hl
  have hsweep := sweep_no_event_of_live cfg lt (stepCore cfg keyOf F p).1 p.ts k hcu hl
  rw [hfind, List.filter_append, hsweep, List.append_nil]
  rw [hfind] at hl
  by_cases hk : keyOf p = k
  · subst hk
    simp only [if_true]
    have ht : target cfg keyOf F p = some s := by unfold target; rw [hf]
    rw [stepCore_find_self, ht] at hl ⊢
    simp only at hl ⊢
    have her : erasedNow cfg s p = false := by
      cases h : erasedNow cfg s p with
      | false => rfl
      | true => rw [h] at hl; simp at hl
    simp only [her, Bool.false_eq_true, if_false, true_and]
    rw [stepCore_eq, ht]
    simp only
    have ha : announces cfg keyOf F p = false := by unfold announces; rw [hf]; rfl
    unfold erasedNow at her
    simp only [Bool.or_eq_false_iff] at her
    simp only [ha, Bool.false_eq_true, if_false, List.nil_append, touch_snd, processPacket_events, her.1, her.2,
      List.append_nil]
    unfold liveEvents
    rw [List.filter_eq_self]
    intro e he
    obtain ⟨x, _, rfl⟩ := List.mem_map.1 he
    simp [liftEv_key]
  · have hk' : k ≠ keyOf p := fun h => hk h.symm
    simp only [hk, if_false]
    rw [stepCore_find_other _ _ _ _ _ hk']
    refine ⟨hf, ?_⟩
    rw [List.filter_eq_nil_iff]
    intro e he hke
    have := stepCore_keys cfg keyOf F p e he
    exact hk (this ▸ of_decide_eq_true hke)

/-- **projection.**  While connection `k` stays live, the stream the follower holds for it is `Stream::process_packet`
    folded over the packets of `k` alone, and the callbacks made for `k` are those of that fold — for every interleaving
    with packets of other connections, every configuration and key function. -/
theorem run_projects (cfg : Cfg) (keyOf : Pkt → κ) (lt : κ → κ → Bool) (h : List Pkt) (F : Follower κ) (k : κ) (s : Stream)
    (hu : UniqueKeys F.streams) (hf : find? F.streams k = some s) (hl : LiveThrough cfg keyOf lt F h k) :
    find? (run cfg keyOf lt F h).1.streams k = some (s.feed (h.filter (fun p => decide (keyOf p = k)))) ∧
    (run cfg keyOf lt F h).2.map (List.filter (fun e => decide (e.key = k))) = feedTrace k keyOf s h := by
  induction h generalizing F s with
  | nil => exact ⟨hf, rfl⟩
  | cons p ps ih =>
    obtain ⟨hl1, hl2⟩ := hl
    obtain ⟨h1, h2⟩ := step_projects cfg keyOf lt F p k s hu hf hl1
    have ih := ih (step cfg keyOf lt F p).1 _ (step_unique cfg keyOf lt F p hu) h1 hl2
    unfold run
    simp only [List.map_cons, List.filter_cons, feedTrace, h2]
    by_cases hk : keyOf p = k
    · simp only [hk, if_true, decide_true] at ih ⊢
      exact ⟨ih.1, by rw [ih.2]⟩
    · simp only [hk, if_false, decide_false, Bool.false_eq_true] at ih ⊢
      exact ⟨ih.1, by rw [ih.2]⟩

/-- the packet that creates connection `k` (it is not live, the packet may start it, and it survives the packet) -/
theorem step_creates (cfg : Cfg) (keyOf : Pkt → κ) (lt : κ → κ → Bool) (F : Follower κ) (p : Pkt)
    (hu : UniqueKeys F.streams) (hf : find? F.streams (keyOf p) = none) (hs : startable cfg p = true)
    (hl : (find? (step cfg keyOf lt F p).1.streams (keyOf p)).isSome = true) :
    find? (step cfg keyOf lt F p).1.streams (keyOf p) = some (after (fresh cfg p) p) ∧
    (step cfg keyOf lt F p).2.filter (fun e => decide (e.key = keyOf p)) =
      Ev.new (keyOf p) (fresh cfg p).sid (fresh cfg p).isPartial :: liveEvents (keyOf p) (fresh cfg p) p := by
  unfold step at hl ⊢
  simp only at hl ⊢
  have hcu := stepCore_unique cfg keyOf F p hu
  have hfind := maybeCleanup_find_live cfg lt (stepCore cfg keyOf F p).1 p.ts (keyOf p) hcu hl
  have hsweep := sweep_no_event_of_live cfg lt (stepCore cfg keyOf F p).1 p.ts (keyOf p) hcu hl
  rw [hfind, List.filter_append, hsweep, List.append_nil]
  rw [hfind] at hl
  have ht : target cfg keyOf F p = some (fresh cfg p) := by unfold target; rw [hf]; simp [hs]
  rw [stepCore_find_self, ht] at hl ⊢
  simp only at hl ⊢
  have her : erasedNow cfg (fresh cfg p) p = false := by
    cases h : erasedNow cfg (fresh cfg p) p with
    | false => rfl
    | true => rw [h] at hl; simp at hl
  simp only [her, Bool.false_eq_true, if_false, true_and]
  rw [stepCore_eq, ht]
  simp only
  have ha : announces cfg keyOf F p = true := by unfold announces; rw [hf]; simp [hs]
  unfold erasedNow at her
  simp only [Bool.or_eq_false_iff] at her
  simp only [ha, if_true, touch_snd, processPacket_events, her.1, her.2, List.append_nil, Bool.false_eq_true, if_false,
    List.cons_append, List.nil_append]
  unfold liveEvents
  rw [List.filter_eq_self]
  intro e he
  rcases List.mem_cons.1 he with rfl | he
  · simp [Ev.key]
  · obtain ⟨x, _, rfl⟩ := List.mem_map.1 he
    simp [liftEv_key]

end

/-! ### one flow over the packets routed to it -/

/-- `Flow::process_packet` followed by the stream's data handler (which clears the payload it has just handed over when
    auto-cleanup is on) -/
def Flow.stepIn (acl : Bool) (f : Flow) (p : Pkt) : Flow :=
  if (f.processPacket p).2.2 && acl then clearPayload (f.processPacket p).1 else (f.processPacket p).1

/-- `Flow::process_packet` folded over a list of packets -/
def Flow.feed (acl : Bool) (f : Flow) (ps : List Pkt) : Flow := ps.foldl (Flow.stepIn acl) f

/-- what the data callback is handed for one packet: the flow's payload right after `process_packet`, if it fired -/
def Flow.handed (f : Flow) (p : Pkt) : Option Bytes :=
  if (f.processPacket p).2.2 then some (f.processPacket p).1.tr.payload else none

/-- everything the data callback of a flow is handed over a list of packets, in order -/
def Flow.feedHanded (acl : Bool) : Flow → List Pkt → List Bytes
  | _, [] => []
  | f, p :: ps => (f.handed p).toList ++ Flow.feedHanded acl (f.stepIn acl p) ps

/-- the client flow claims the packet -/
def Stream.toClient (s : Stream) (p : Pkt) : Bool := s.client.packetBelongs p
/-- the server flow claims the packet (`else if`) -/
def Stream.toServer (s : Stream) (p : Pkt) : Bool := !s.client.packetBelongs p && s.server.packetBelongs p

theorem stepIn_belongs (acl : Bool) (f : Flow) (q p : Pkt) : (f.stepIn acl q).packetBelongs p = f.packetBelongs p := by
  obtain ⟨_, h1, h2, h3⟩ := processPacket_flow f q
  unfold Flow.stepIn Flow.packetBelongs
  split <;> simp [clearPayload, h1, h2, h3]

theorem after_flows (s : Stream) (p : Pkt) :
    (after s p).client = (if s.toClient p then s.client.stepIn s.acl p else s.client) ∧
    (after s p).server = (if s.toServer p then s.server.stepIn s.acl p else s.server) ∧
    (after s p).acl = s.acl := by
  unfold after Stream.processPacket Stream.toClient Stream.toServer Flow.stepIn
  simp only
  unfold Stream.route
  simp only
  by_cases h1 : s.client.packetBelongs p = true
  · simp only [h1, if_true, Bool.not_true, Bool.false_and, Bool.false_eq_true, if_false]
    refine ⟨?_, ?_, ?_⟩ <;> first | rfl | trivial
  · have h1 : s.client.packetBelongs p = false := by simpa using h1
    by_cases h2 : s.server.packetBelongs p = true
    · simp only [h1, h2, Bool.false_eq_true, if_false, if_true, Bool.not_false, Bool.and_self]
      refine ⟨?_, ?_, ?_⟩ <;> first | rfl | trivial
    · have h2 : s.server.packetBelongs p = false := by simpa using h2
      simp only [h1, h2, Bool.false_eq_true, if_false, Bool.not_false, Bool.and_false]
      refine ⟨?_, ?_, ?_⟩ <;> first | rfl | trivial

theorem after_routing (s : Stream) (q : Pkt) : (after s q).toClient = s.toClient ∧ (after s q).toServer = s.toServer := by
  obtain ⟨h1, h2, _⟩ := after_flows s q
  have hc : ∀ p, (after s q).client.packetBelongs p = s.client.packetBelongs p := by
    intro p; rw [h1]; split
    · exact stepIn_belongs _ _ _ _
    · rfl
  have hs : ∀ p, (after s q).server.packetBelongs p = s.server.packetBelongs p := by
    intro p; rw [h2]; split
    · exact stepIn_belongs _ _ _ _
    · rfl
  constructor <;> funext p <;> simp [Stream.toClient, Stream.toServer, hc, hs]

/-- **per-flow state is a fold.**  After a stream has processed the packets `ps`, its client flow is
    `Flow::process_packet` folded over exactly those of `ps` the client flow claims (destination = the server endpoint,
    `route_correct`), its server flow over those the server flow claims; the other packets leave it untouched. -/
theorem feed_flows (ps : List Pkt) (s : Stream) :
    (s.feed ps).client = s.client.feed s.acl (ps.filter s.toClient) ∧
    (s.feed ps).server = s.server.feed s.acl (ps.filter s.toServer) ∧
    (s.feed ps).acl = s.acl ∧ (s.feed ps).toClient = s.toClient ∧ (s.feed ps).toServer = s.toServer := by
  induction ps generalizing s with
  | nil => exact ⟨rfl, rfl, rfl, rfl, rfl⟩
  | cons p ps ih =>
    obtain ⟨i1, i2, i3, i4, i5⟩ := ih (after s p)
    obtain ⟨a1, a2, a3⟩ := after_flows s p
    obtain ⟨r1, r2⟩ := after_routing s p
    have e : s.feed (p :: ps) = (after s p).feed ps := rfl
    rw [e, i1, i2, i3, i4, i5, a1, a2, a3, r1, r2]
    refine ⟨?_, ?_, rfl, rfl, rfl⟩
    · simp only [List.filter_cons]
      split <;> rfl
    · simp only [List.filter_cons]
      split <;> rfl

/-- the payloads a list of callbacks hands to the data callback of direction `c` of connection `k` -/
def handedIn {κ : Type} [DecidableEq κ] (k : κ) (c : Bool) (evs : List (Ev κ)) : List Bytes :=
  evs.filterMap (fun e => match e with
    | .data k' _ c' pl => if k' = k ∧ c' = c then some pl else none
    | _ => none)

theorem liveEvents_handed {κ : Type} [DecidableEq κ] (k : κ) (s : Stream) (p : Pkt) :
    handedIn k true (liveEvents k s p) = (if s.toClient p then (s.client.handed p).toList else []) ∧
    handedIn k false (liveEvents k s p) = (if s.toServer p then (s.server.handed p).toList else []) := by
  unfold liveEvents handedIn Stream.toClient Stream.toServer Flow.handed Stream.route
  simp only
  by_cases h1 : s.client.packetBelongs p = true
  · simp only [h1, if_true, Bool.not_true, Bool.false_and, Bool.false_eq_true, if_false]
    cases (s.client.processPacket p).2.1 <;> cases (s.client.processPacket p).2.2 <;>
      simp [liftEv]
  · have h1 : s.client.packetBelongs p = false := by simpa using h1
    by_cases h2 : s.server.packetBelongs p = true
    · simp only [h1, h2, Bool.false_eq_true, if_false, if_true, Bool.not_false, Bool.and_self]
      cases (s.server.processPacket p).2.1 <;> cases (s.server.processPacket p).2.2 <;>
        simp [liftEv]
    · have h2 : s.server.packetBelongs p = false := by simpa using h2
      simp [h1, h2]

/-- the payloads handed to the two data callbacks of connection `k` over the fold of its stream are those the two
    flow folds hand over -/
theorem feedTrace_handed {κ : Type} [DecidableEq κ] (k : κ) (keyOf : Pkt → κ) (h : List Pkt) (s : Stream) :
    handedIn k true (feedTrace k keyOf s h).flatten =
      Flow.feedHanded s.acl s.client ((h.filter (fun p => decide (keyOf p = k))).filter s.toClient) ∧
    handedIn k false (feedTrace k keyOf s h).flatten =
      Flow.feedHanded s.acl s.server ((h.filter (fun p => decide (keyOf p = k))).filter s.toServer) := by
  induction h generalizing s with
  | nil => exact ⟨rfl, rfl⟩
  | cons p ps ih =>
    unfold feedTrace
    by_cases hk : keyOf p = k
    · obtain ⟨i1, i2⟩ := ih (after s p)
      obtain ⟨a1, a2, a3⟩ := after_flows s p
      obtain ⟨r1, r2⟩ := after_routing s p
      obtain ⟨l1, l2⟩ := liveEvents_handed k s p
      simp only [hk, if_true, List.flatten_cons, List.filter_cons, decide_true]
      unfold handedIn at i1 i2 l1 l2 ⊢
      rw [List.filterMap_append, List.filterMap_append, i1, i2, l1, l2, a1, a2, a3, r1, r2]
      constructor
      · by_cases hc : s.toClient p = true
        · simp only [hc, if_true, Flow.feedHanded]
        · simp [hc]
      · by_cases hc : s.toServer p = true
        · simp only [hc, if_true, Flow.feedHanded]
        · simp [hc]
    · simp only [hk, if_false, List.flatten_cons, List.nil_append, List.filter_cons, decide_false, Bool.false_eq_true]
      exact ih s

theorem handedIn_filter {κ : Type} [DecidableEq κ] (k : κ) (c : Bool) (evs : List (Ev κ)) :
    handedIn k c (evs.filter (fun e => decide (e.key = k))) = handedIn k c evs := by
  unfold handedIn
  induction evs with
  | nil => rfl
  | cons e es ih =>
    rw [List.filter_cons]
    by_cases hk : e.key = k
    · simp only [hk, decide_true, if_true, List.filterMap_cons]
      rw [ih]
    · simp only [hk, decide_false, Bool.false_eq_true, if_false, List.filterMap_cons]
      rw [ih]
      cases e <;> simp_all [Ev.key]

theorem handedIn_flatten_filter {κ : Type} [DecidableEq κ] (k : κ) (c : Bool) (L : List (List (Ev κ))) :
    handedIn k c (L.map (List.filter (fun e => decide (e.key = k)))).flatten = handedIn k c L.flatten := by
  induction L with
  | nil => rfl
  | cons x xs ih =>
    simp only [List.map_cons, List.flatten_cons]
    unfold handedIn at ih ⊢
    rw [List.filterMap_append, List.filterMap_append, ih]
    congr 1
    exact handedIn_filter k c x

/-! ### `ignore_client_data` / `ignore_server_data` -/

theorem processPacket_ignored (f : Flow) (p : Pkt) (h : f.ignoreData = true) : f.processPacket p = (f.pre p, none, false) := by
  have := (pre_fields f p).2.2.2.2.2.1
  unfold Flow.processPacket
  simp [this, h]

/-- a flow told to ignore data packets still follows the connection state (and its ACK tracker), but reassembles nothing
    and makes no data / out-of-order callback — for good -/
theorem stepIn_ignored (acl : Bool) (f : Flow) (p : Pkt) (h : f.ignoreData = true) :
    f.stepIn acl p = f.pre p ∧ (f.stepIn acl p).ignoreData = true ∧ f.handed p = none ∧
    (f.processPacket p).2.1 = none := by
  have hi := (pre_fields f p).2.2.2.2.2.1
  unfold Flow.stepIn Flow.handed
  rw [processPacket_ignored f p h]
  simp [hi, h]

theorem feedHanded_ignored (acl : Bool) (ps : List Pkt) (f : Flow) (h : f.ignoreData = true) :
    Flow.feedHanded acl f ps = [] ∧ (f.feed acl ps).ignoreData = true := by
  induction ps generalizing f with
  | nil => exact ⟨rfl, h⟩
  | cons p ps ih =>
    obtain ⟨_, h2, h3, _⟩ := stepIn_ignored acl f p h
    obtain ⟨i1, i2⟩ := ih (f.stepIn acl p) h2
    refine ⟨?_, i2⟩
    show (f.handed p).toList ++ Flow.feedHanded acl (f.stepIn acl p) ps = []
    rw [h3, i1]; rfl

end Tins.SF
