import TinsModel.Follower.LemmasStep
/- Reading connection lifetimes off the callback trace: `liveAfter` / `bracketed`, and the step-level fact that the
   trace of one `process_packet` is consistent with the change of `streams_`. -/
namespace Tins.SF
variable {κ : Type} [DecidableEq κ]

def Ev.isNew (k : κ) : Ev κ → Bool
  | .new k' _ _ => decide (k' = k)
  | _ => false

/-- the stream-closed callback or a termination callback for `k` -/
def Ev.isEnd (k : κ) : Ev κ → Bool
  | .closed k' _ => decide (k' = k)
  | .term k' _ _ _ _ _ => decide (k' = k)
  | _ => false

/-- a callback that presupposes a live connection `k`: data, out-of-order, closed -/
def Ev.isUse (k : κ) : Ev κ → Bool
  | .ooo k' _ _ _ _ => decide (k' = k)
  | .data k' _ _ _ => decide (k' = k)
  | .closed k' _ => decide (k' = k)
  | _ => false

/-- is `k` live after the callback `e`, given whether it was live before -/
def scan1 (k : κ) (b : Bool) (e : Ev κ) : Bool := if e.isNew k then true else if e.isEnd k then false else b

/-- is `k` live at the end of a trace, read off the callbacks alone -/
def liveAfter (k : κ) : Bool → List (Ev κ) → Bool
  | b, [] => b
  | b, e :: es => liveAfter k (scan1 k b e) es

/-- `new k` only while `k` is not live, data / out-of-order / closed callbacks of `k` only while it is -/
def bracketed (k : κ) : Bool → List (Ev κ) → Bool
  | _, [] => true
  | b, e :: es => (if e.isNew k then !b else true) && (if e.isUse k then b else true) && bracketed k (scan1 k b e) es

theorem liveAfter_append (k : κ) (b : Bool) (xs ys : List (Ev κ)) :
    liveAfter k b (xs ++ ys) = liveAfter k (liveAfter k b xs) ys := by
  induction xs generalizing b with
  | nil => rfl
  | cons e es ih => simp only [List.cons_append, liveAfter]; exact ih _

theorem bracketed_append (k : κ) (b : Bool) (xs ys : List (Ev κ)) :
    bracketed k b (xs ++ ys) = (bracketed k b xs && bracketed k (liveAfter k b xs) ys) := by
  induction xs generalizing b with
  | nil => simp [bracketed, liveAfter]
  | cons e es ih => simp only [List.cons_append, bracketed, liveAfter, ih, Bool.and_assoc]

/-- callbacks about other connections change nothing for `k` -/
theorem scan_other (k : κ) (b : Bool) (es : List (Ev κ)) (h : ∀ e ∈ es, e.key ≠ k) :
    liveAfter k b es = b ∧ bracketed k b es = true := by
  induction es generalizing b with
  | nil => exact ⟨rfl, rfl⟩
  | cons e es ih =>
    have hk : e.key ≠ k := h e List.mem_cons_self
    have h1 : e.isNew k = false := by cases e <;> simp_all [Ev.isNew, Ev.key]
    have h2 : e.isEnd k = false := by cases e <;> simp_all [Ev.isEnd, Ev.key]
    have h3 : e.isUse k = false := by cases e <;> simp_all [Ev.isUse, Ev.key]
    have ih := ih b (fun e he => h e (List.mem_cons_of_mem _ he))
    simp only [liveAfter, bracketed, scan1, h1, h2, h3, Bool.false_eq_true, if_false, Bool.true_and]
    exact ih

/-- data / out-of-order callbacks of a live connection keep it live -/
theorem scan_uses (k : κ) (es : List (Ev κ)) (h : ∀ e ∈ es, e.isNew k = false ∧ e.isEnd k = false) :
    liveAfter k true es = true ∧ bracketed k true es = true := by
  induction es with
  | nil => exact ⟨rfl, rfl⟩
  | cons e es ih =>
    obtain ⟨h1, h2⟩ := h e List.mem_cons_self
    have ih := ih (fun e he => h e (List.mem_cons_of_mem _ he))
    simp only [liveAfter, bracketed, scan1, h1, h2, Bool.false_eq_true, if_false, Bool.true_and, ite_self]
    exact ih

/-- a list of termination callbacks ends exactly the connections it names -/
theorem scan_terms (k : κ) (b : Bool) (es : List (Ev κ)) (h : ∀ e ∈ es, ∃ k' sid r c y z, e = Ev.term k' sid r c y z) :
    liveAfter k b es = (b && !(es.any (fun e => decide (e.key = k)))) ∧ bracketed k b es = true := by
  induction es generalizing b with
  | nil => simp [liveAfter, bracketed]
  | cons e es ih =>
    obtain ⟨k', sid, r, c, y, z, rfl⟩ := h _ List.mem_cons_self
    have ih := fun b => ih b (fun e he => h e (List.mem_cons_of_mem _ he))
    simp only [liveAfter, bracketed, scan1, Ev.isNew, Ev.isEnd, Ev.isUse, Ev.key, Bool.false_eq_true, if_false,
      Bool.true_and, List.any_cons]
    by_cases hk : k' = k
    · simp only [hk, decide_true, if_true, Bool.true_or, Bool.not_true, Bool.and_false]
      have := ih false; simp only [Bool.false_and] at this; exact this
    · simp only [hk, decide_false, Bool.false_eq_true, if_false, Bool.false_or]
      exact ih b

/-! ### one `process_packet` -/

theorem route_events_not_closed (s : Stream) (p : Pkt) : ∀ e ∈ (Stream.route s p).2, e ≠ SEv.closed := by
  intro e he
  unfold Stream.route at he
  split at he
  · simp only [List.mem_append] at he
    rcases he with he | he
    · split at he
      · simp only [List.mem_singleton] at he; rw [he]; intro h; cases h
      · cases he
    · split at he
      · simp only [List.mem_singleton] at he; rw [he]; intro h; cases h
      · cases he
  · split at he
    · simp only [List.mem_append] at he
      rcases he with he | he
      · split at he
        · simp only [List.mem_singleton] at he; rw [he]; intro h; cases h
        · cases he
      · split at he
        · simp only [List.mem_singleton] at he; rw [he]; intro h; cases h
        · cases he
    · cases he

omit [DecidableEq κ] in
theorem liftEv_key (k : κ) (sid : Sid) (e : SEv) : (liftEv k sid e).key = k := by cases e <;> rfl

theorem processPacket_events (s : Stream) (p : Pkt) :
    (s.processPacket p).2 = (Stream.route { s with lastSeen := p.ts } p).2 ++ (if (after s p).isFinished then [SEv.closed] else []) := rfl

/-- the callbacks of the found-or-created stream, read as a lifetime -/
theorem touch_scan (cfg : Cfg) (F : Follower κ) (k : κ) (s : Stream) (p : Pkt) :
    liveAfter k true (touch cfg F k s p).2 = !erasedNow cfg s p ∧ bracketed k true (touch cfg F k s p).2 = true := by
  rw [touch_snd, processPacket_events, List.map_append]
  have hr : ∀ e ∈ List.map (liftEv k (after s p).sid) (Stream.route { s with lastSeen := p.ts } p).2,
      e.isNew k = false ∧ e.isEnd k = false := by
    intro e he
    obtain ⟨x, hx, rfl⟩ := List.mem_map.1 he
    have := route_events_not_closed _ _ x hx
    cases x <;> simp_all [liftEv, Ev.isNew, Ev.isEnd]
  obtain ⟨h1, h2⟩ := scan_uses k _ hr
  simp only [liveAfter_append, bracketed_append, h1, h2, Bool.true_and]
  unfold erasedNow
  by_cases hf : (after s p).isFinished = true <;> by_cases ho : terminated cfg (after s p) = true <;>
    simp [hf, ho, liveAfter, bracketed, scan1, liftEv, Ev.isNew, Ev.isEnd, Ev.isUse]

theorem touch_keys (cfg : Cfg) (F : Follower κ) (k : κ) (s : Stream) (p : Pkt) : ∀ e ∈ (touch cfg F k s p).2, e.key = k := by
  intro e he
  rw [touch_snd, List.mem_append] at he
  rcases he with he | he
  · obtain ⟨x, _, rfl⟩ := List.mem_map.1 he; exact liftEv_key _ _ _
  · split at he
    · simp only [List.mem_singleton] at he; rw [he]; rfl
    · cases he

theorem stepCore_keys (cfg : Cfg) (keyOf : Pkt → κ) (F : Follower κ) (p : Pkt) :
    ∀ e ∈ (stepCore cfg keyOf F p).2, e.key = keyOf p := by
  intro e he
  rw [stepCore_eq] at he
  cases ht : target cfg keyOf F p with
  | none => rw [ht] at he; cases he
  | some s =>
    rw [ht] at he
    simp only [List.mem_append] at he
    rcases he with he | he
    · split at he
      · simp only [List.mem_singleton] at he; rw [he]; rfl
      · cases he
    · exact touch_keys _ _ _ _ _ e he

theorem stepCore_find_other (cfg : Cfg) (keyOf : Pkt → κ) (F : Follower κ) (p : Pkt) (k : κ) (hk : k ≠ keyOf p) :
    find? (stepCore cfg keyOf F p).1.streams k = find? F.streams k := by
  rw [stepCore_eq]
  cases target cfg keyOf F p with
  | none => rfl
  | some s =>
    simp only [touch_fst]
    split
    · exact find?_remove_ne _ hk
    · exact find?_store_ne _ _ hk

theorem stepCore_find_self (cfg : Cfg) (keyOf : Pkt → κ) (F : Follower κ) (p : Pkt) :
    find? (stepCore cfg keyOf F p).1.streams (keyOf p) =
      match target cfg keyOf F p with
      | none => none
      | some s => if erasedNow cfg s p then none else some (after s p) := by
  rw [stepCore_eq]
  cases ht : target cfg keyOf F p with
  | none =>
    simp only
    unfold target at ht
    cases hf : find? F.streams (keyOf p) with
    | none => rfl
    | some s => rw [hf] at ht; cases ht
  | some s =>
    simp only [touch_fst]
    split
    · exact find?_remove_self _ _
    · exact find?_store_self _ _ _

/-- the callbacks of `process_packet` before the sweep are consistent with what happens to `streams_` -/
theorem stepCore_scan (cfg : Cfg) (keyOf : Pkt → κ) (F : Follower κ) (p : Pkt) (k : κ) :
    liveAfter k (find? F.streams k).isSome (stepCore cfg keyOf F p).2 = (find? (stepCore cfg keyOf F p).1.streams k).isSome ∧
    bracketed k (find? F.streams k).isSome (stepCore cfg keyOf F p).2 = true := by
  by_cases hk : k = keyOf p
  · subst hk
    rw [stepCore_find_self, stepCore_eq]
    cases ht : target cfg keyOf F p with
    | none =>
      have : find? F.streams (keyOf p) = none := by
        unfold target at ht
        cases hf : find? F.streams (keyOf p) with
        | none => rfl
        | some s => rw [hf] at ht; cases ht
      simp [this, liveAfter, bracketed]
    | some s =>
      simp only
      obtain ⟨h1, h2⟩ := touch_scan cfg F (keyOf p) s p
      unfold announces
      cases hf : find? F.streams (keyOf p) with
      | some s' =>
        simp only [Option.isNone_some, Bool.false_and, Bool.false_eq_true, if_false, List.nil_append, Option.isSome_some, h1, h2]
        cases erasedNow cfg s p <;> simp
      | none =>
        have hst : startable cfg p = true := by
          unfold target at ht; rw [hf] at ht
          by_cases h : startable cfg p = true
          · exact h
          · simp [h] at ht
        simp only [Option.isNone_none, hst, if_true, Option.isSome_none, List.cons_append, List.nil_append,
          liveAfter, bracketed, scan1, Ev.isNew, Ev.isUse, decide_true, Bool.not_false, Bool.and_self, Bool.false_eq_true, if_false,
          h1, h2]
        cases erasedNow cfg s p <;> simp
  · rw [stepCore_find_other _ _ _ _ _ hk]
    exact scan_other k _ _ (fun e he => by rw [stepCore_keys _ _ _ _ e he]; exact fun h => hk h.symm)

/-- the idle sweep: exactly the expired connections are reported (TIMEOUT) and forgotten -/
theorem maybeCleanup_scan (cfg : Cfg) (lt : κ → κ → Bool) (F : Follower κ) (ts : Nat) (k : κ) (hu : UniqueKeys F.streams) :
    liveAfter k (find? F.streams k).isSome (maybeCleanup cfg lt F ts).2 = (find? (maybeCleanup cfg lt F ts).1.streams k).isSome ∧
    bracketed k (find? F.streams k).isSome (maybeCleanup cfg lt F ts).2 = true := by
  unfold maybeCleanup
  split
  · unfold cleanup
    simp only
    have hterm : ∀ e ∈ (sortEntries lt (F.streams.filter (expired cfg ts))).map
        (fun e => Ev.term e.1 e.2.sid Reason.timeout e.2.chunks e.2.bytes e.2.sacked), ∃ k' sid r c y z, e = Ev.term k' sid r c y z := by
      intro e he; obtain ⟨x, _, rfl⟩ := List.mem_map.1 he; exact ⟨_, _, _, _, _, _, rfl⟩
    obtain ⟨h1, h2⟩ := scan_terms k (find? F.streams k).isSome _ hterm
    refine ⟨?_, h2⟩
    rw [h1, find?_filter hu]
    cases hf : find? F.streams k with
    | none => simp
    | some s =>
      simp only [Option.isSome_some, Bool.true_and, Option.filter_some]
      have hmem := mem_of_find? hf
      by_cases hx : expired cfg ts (k, s) = true
      · have : ((sortEntries lt (F.streams.filter (expired cfg ts))).map
            (fun e => Ev.term e.1 e.2.sid Reason.timeout e.2.chunks e.2.bytes e.2.sacked)).any (fun e => decide (e.key = k)) = true := by
          rw [List.any_eq_true]
          refine ⟨Ev.term k s.sid Reason.timeout s.chunks s.bytes s.sacked, ?_, by simp [Ev.key]⟩
          refine List.mem_map.2 ⟨(k, s), ?_, rfl⟩
          exact (sortEntries_perm lt _).mem_iff.2 (List.mem_filter.2 ⟨hmem, hx⟩)
        simp [this, hx]
      · have : ((sortEntries lt (F.streams.filter (expired cfg ts))).map
            (fun e => Ev.term e.1 e.2.sid Reason.timeout e.2.chunks e.2.bytes e.2.sacked)).any (fun e => decide (e.key = k)) = false := by
          rw [List.any_eq_false]
          intro e he
          obtain ⟨x, hx1, rfl⟩ := List.mem_map.1 he
          have hx2 := (sortEntries_perm lt _).mem_iff.1 hx1
          obtain ⟨hx3, hx4⟩ := List.mem_filter.1 hx2
          simp only [Ev.key]
          intro hk
          obtain ⟨k', s'⟩ := x
          have hk : k' = k := of_decide_eq_true hk
          subst hk
          have := find?_of_mem hu hx3
          rw [hf] at this; simp only [Option.some.injEq] at this; subst this
          exact hx hx4
        simp [this, hx]
  · simp [liveAfter, bracketed]

/-- one whole `StreamFollower::process_packet`: reading `new` / `closed` / `term` off the callbacks tells exactly which
    connections are live afterwards, and every callback is legal at the moment it is made -/
theorem step_scan (cfg : Cfg) (keyOf : Pkt → κ) (lt : κ → κ → Bool) (F : Follower κ) (p : Pkt) (k : κ) (hu : UniqueKeys F.streams) :
    liveAfter k (find? F.streams k).isSome (step cfg keyOf lt F p).2 = (find? (step cfg keyOf lt F p).1.streams k).isSome ∧
    bracketed k (find? F.streams k).isSome (step cfg keyOf lt F p).2 = true := by
  unfold step
  obtain ⟨h1, h2⟩ := stepCore_scan cfg keyOf F p k
  obtain ⟨h3, h4⟩ := maybeCleanup_scan cfg lt (stepCore cfg keyOf F p).1 p.ts k (stepCore_unique _ _ _ _ hu)
  simp only [liveAfter_append, bracketed_append, h1, h2, h3, h4, Bool.and_self]
  exact ⟨trivial, trivial⟩

theorem run_scan (cfg : Cfg) (keyOf : Pkt → κ) (lt : κ → κ → Bool) (h : List Pkt) (F : Follower κ) (k : κ) (hu : UniqueKeys F.streams) :
    liveAfter k (find? F.streams k).isSome (run cfg keyOf lt F h).2.flatten = (find? (run cfg keyOf lt F h).1.streams k).isSome ∧
    bracketed k (find? F.streams k).isSome (run cfg keyOf lt F h).2.flatten = true := by
  induction h generalizing F with
  | nil => simp [run, liveAfter, bracketed]
  | cons p ps ih =>
    unfold run
    simp only [List.flatten_cons]
    obtain ⟨h1, h2⟩ := step_scan cfg keyOf lt F p k hu
    obtain ⟨h3, h4⟩ := ih _ (step_unique _ _ _ _ _ hu)
    simp only [liveAfter_append, bracketed_append, h1, h2, Bool.true_and]
    exact ⟨h3, h4⟩

end Tins.SF
