import TinsModel.Follower.LemmasForget
import TinsModel.Follower.LemmasIdent
/- Direction routing inside a stream, the flow state machine in terms of the TCP flags, and the invariant that ties a
   stream to the key it is stored under. -/
namespace Tins.SF

/-! ### the flow state machine -/

theorem updateState_rstSent (f : Flow) (p : Pkt) :
    (f.updateState p).state = .rstSent ↔ (p.rst = true ∨ (p.fin = false ∧ f.state = .rstSent)) := by
  unfold Flow.updateState
  by_cases h1 : p.rst = true
  · simp [h1]
  · by_cases h2 : p.fin = true
    · simp [h1, h2]
    · simp only [h1, h2, Bool.false_eq_true, if_false, false_or]
      split
      · rename_i h; simp [h.1]
      · split
        · rename_i h; simp [h.1]
        · simp

theorem updateState_finSent (f : Flow) (p : Pkt) :
    (f.updateState p).state = .finSent ↔ (p.rst = false ∧ (p.fin = true ∨ f.state = .finSent)) := by
  unfold Flow.updateState
  by_cases h1 : p.rst = true
  · simp [h1]
  · by_cases h2 : p.fin = true
    · simp [h1, h2]
    · simp only [h1, h2, Bool.false_eq_true, if_false, false_or]
      split
      · rename_i h; simp [h.1]
      · split
        · rename_i h; simp [h.1]
        · simp

theorem processPacket_flow (f : Flow) (p : Pkt) :
    (f.processPacket p).1.state = (f.updateState p).state ∧ (f.processPacket p).1.v6 = f.v6 ∧
    (f.processPacket p).1.dst = f.dst ∧ (f.processPacket p).1.dport = f.dport := by
  obtain ⟨h0, h1, h2, h3, _⟩ := pre_fields f p
  by_cases hi : (f.pre p).ignoreData = true
  · unfold Flow.processPacket
    simp only [hi, if_true]
    exact ⟨h0, h1, h2, h3⟩
  · have hi : (f.pre p).ignoreData = false := by simpa using hi
    cases hp : p.payload with
    | none => rw [processPacket_none f p hp]; exact ⟨h0, h1, h2, h3⟩
    | some d =>
      rw [processPacket_some' f p d hi hp]
      obtain ⟨a0, a1, a2, a3, _⟩ := afterOoo_fields (f.pre p) p _
      exact ⟨a0.trans h0, a1.trans h1, a2.trans h2, a3.trans h3⟩

/-! ### routing inside a stream -/

/-- what `Stream::process_packet` does to the two flows: only the flow that claims the packet moves, and it moves by
    `Flow::process_packet` (up to the auto-cleanup of the delivered payload) -/
theorem route_flows (s : Stream) (p : Pkt) :
    (s.client.packetBelongs p = true →
        (Stream.route s p).1.server = s.server ∧
        ((Stream.route s p).1.client = (s.client.processPacket p).1 ∨
         (Stream.route s p).1.client = clearPayload (s.client.processPacket p).1)) ∧
    (s.client.packetBelongs p = false → s.server.packetBelongs p = true →
        (Stream.route s p).1.client = s.client ∧
        ((Stream.route s p).1.server = (s.server.processPacket p).1 ∨
         (Stream.route s p).1.server = clearPayload (s.server.processPacket p).1)) ∧
    (s.client.packetBelongs p = false → s.server.packetBelongs p = false →
        (Stream.route s p).1 = s ∧ (Stream.route s p).2 = []) := by
  unfold Stream.route
  refine ⟨?_, ?_, ?_⟩
  · intro h; simp only [h, if_true]
    refine ⟨by first | rfl | trivial, ?_⟩
    split
    · exact Or.inr rfl
    · exact Or.inl rfl
  · intro h1 h2; simp only [h1, h2, Bool.false_eq_true, if_false, if_true]
    refine ⟨by first | rfl | trivial, ?_⟩
    split
    · exact Or.inr rfl
    · exact Or.inl rfl
  · intro h1 h2; simp [h1, h2]

/-- every data / out-of-order callback of a packet is made for the direction of the flow that claims it -/
theorem route_events_direction (s : Stream) (p : Pkt) :
    ∀ e ∈ (Stream.route s p).2,
      (∃ q d, e = SEv.ooo (s.client.packetBelongs p) q d) ∨ (∃ pl, e = SEv.data (s.client.packetBelongs p) pl) := by
  intro e he
  unfold Stream.route at he
  by_cases h1 : s.client.packetBelongs p = true
  · simp only [h1, if_true, List.mem_append] at he
    rcases he with he | he
    · split at he
      · simp only [List.mem_singleton] at he; exact Or.inl ⟨_, _, by rw [he, h1]⟩
      · cases he
    · split at he
      · simp only [List.mem_singleton] at he; exact Or.inr ⟨_, by rw [he, h1]⟩
      · cases he
  · simp only [h1, Bool.false_eq_true, if_false] at he
    have h1' : s.client.packetBelongs p = false := by simpa using h1
    split at he
    · simp only [List.mem_append] at he
      rcases he with he | he
      · split at he
        · simp only [List.mem_singleton] at he; exact Or.inl ⟨_, _, by rw [he, h1']⟩
        · cases he
      · split at he
        · simp only [List.mem_singleton] at he; exact Or.inr ⟨_, by rw [he, h1']⟩
        · cases he
    · cases he

theorem clearPayload_flow (f : Flow) :
    (clearPayload f).state = f.state ∧ (clearPayload f).v6 = f.v6 ∧ (clearPayload f).dst = f.dst ∧ (clearPayload f).dport = f.dport :=
  ⟨rfl, rfl, rfl, rfl⟩

/-- the endpoints of a stream never change -/
theorem after_sid (s : Stream) (p : Pkt) : (after s p).sid = s.sid ∧ (after s p).client.v6 = s.client.v6 := by
  unfold after Stream.processPacket
  simp only
  obtain ⟨h1, h2, h3⟩ := route_flows { s with lastSeen := p.ts } p
  have hc := processPacket_flow s.client p
  have hs := processPacket_flow s.server p
  unfold Stream.sid
  by_cases hb : s.client.packetBelongs p = true
  · obtain ⟨h4, h5⟩ := h1 hb
    rw [h4]
    rcases h5 with h5 | h5 <;> rw [h5] <;> simp [clearPayload, hc.2.1, hc.2.2.1, hc.2.2.2]
  · have hb : s.client.packetBelongs p = false := by simpa using hb
    by_cases hb2 : s.server.packetBelongs p = true
    · obtain ⟨h4, h5⟩ := h2 hb hb2
      rw [h4]
      rcases h5 with h5 | h5 <;> rw [h5] <;> simp [clearPayload, hs.2.1, hs.2.2.1, hs.2.2.2]
    · have hb2 : s.server.packetBelongs p = false := by simpa using hb2
      rw [(h3 hb hb2).1]; exact ⟨rfl, rfl⟩

/-- when does a stream that is not finished become finished: the packet is claimed by one flow and carries RST, or
    carries FIN while the other direction is already FIN_SENT -/
theorem finished_after_iff (s : Stream) (p : Pkt) (hnf : s.isFinished = false) :
    (after s p).isFinished = true ↔
      ((s.client.packetBelongs p = true ∧ (p.rst = true ∨ (p.fin = true ∧ s.server.state = .finSent))) ∨
       (s.client.packetBelongs p = false ∧ s.server.packetBelongs p = true ∧
          (p.rst = true ∨ (p.fin = true ∧ s.client.state = .finSent)))) := by
  unfold Stream.isFinished at hnf
  have hn1 : s.client.state ≠ .rstSent := by intro h; simp [h] at hnf
  have hn2 : s.server.state ≠ .rstSent := by intro h; simp [h] at hnf
  have hn3 : ¬ (s.client.state = .finSent ∧ s.server.state = .finSent) := by intro h; simp [h.1, h.2] at hnf
  unfold after Stream.processPacket
  simp only
  obtain ⟨h1, h2, h3⟩ := route_flows { s with lastSeen := p.ts } p
  have hc := (processPacket_flow s.client p).1
  have hs := (processPacket_flow s.server p).1
  have hcr := updateState_rstSent s.client p
  have hcf := updateState_finSent s.client p
  have hsr := updateState_rstSent s.server p
  have hsf := updateState_finSent s.server p
  unfold Stream.isFinished
  by_cases hb : s.client.packetBelongs p = true
  · obtain ⟨h4, h5⟩ := h1 hb
    have hst : (Stream.route { s with lastSeen := p.ts } p).1.client.state = (s.client.updateState p).state := by
      rcases h5 with h5 | h5 <;> rw [h5] <;> simp [clearPayload, hc]
    simp only [h4, hst, hb, true_and, Bool.true_eq_false, false_and, or_false]
    by_cases hr : p.rst = true
    · simp [hcr.2 (Or.inl hr), hr]
    · have hr' : p.rst = false := by simpa using hr
      have : (s.client.updateState p).state ≠ .rstSent := fun h => by
        rcases hcr.1 h with h | h
        · exact hr h
        · exact hn1 h.2
      simp only [this, hn2, or_self, if_false, hr, Bool.false_eq_true, false_or, decide_eq_true_eq]
      rw [hcf]
      simp only [hr', true_and]
      constructor
      · rintro ⟨h6 | h6, h7⟩
        · exact ⟨h6, h7⟩
        · exact absurd ⟨h6, h7⟩ hn3
      · rintro ⟨h6, h7⟩; exact ⟨Or.inl h6, h7⟩
  · have hb : s.client.packetBelongs p = false := by simpa using hb
    by_cases hb2 : s.server.packetBelongs p = true
    · obtain ⟨h4, h5⟩ := h2 hb hb2
      have hst : (Stream.route { s with lastSeen := p.ts } p).1.server.state = (s.server.updateState p).state := by
        rcases h5 with h5 | h5 <;> rw [h5] <;> simp [clearPayload, hs]
      simp only [h4, hst, hb, hb2, Bool.false_eq_true, false_and, true_and, false_or]
      by_cases hr : p.rst = true
      · simp [hsr.2 (Or.inl hr), hr]
      · have hr' : p.rst = false := by simpa using hr
        have : (s.server.updateState p).state ≠ .rstSent := fun h => by
          rcases hsr.1 h with h | h
          · exact hr h
          · exact hn2 h.2
        simp only [this, hn1, or_self, if_false, hr, Bool.false_eq_true, false_or, decide_eq_true_eq]
        rw [hsf]
        simp only [hr', true_and]
        constructor
        · rintro ⟨h7, h6 | h6⟩
          · exact ⟨h6, h7⟩
          · exact absurd ⟨h7, h6⟩ hn3
        · rintro ⟨h6, h7⟩; exact ⟨h7, Or.inl h6⟩
    · have hb2 : s.server.packetBelongs p = false := by simpa using hb2
      rw [(h3 hb hb2).1]
      simp only [hb, hb2, Bool.false_eq_true, false_and]
      simp [hn1, hn2, hn3]

/-! ### a stream is stored under the key of its own endpoints -/

def Sid.ident (x : Sid) : Ident := mkIdent (pad x.v6 x.caddr) x.cport (pad x.v6 x.saddr) x.sport
def Sid.refKey (x : Sid) : RefKey := mkRefKey x.v6 x.caddr x.cport x.saddr x.sport

/-- the endpoints of the packet read as (client, server) -/
def Pkt.sid (p : Pkt) : Sid := ⟨p.v6, p.src, p.sport, p.dst, p.dport⟩

/-- every stream is stored under the key of its endpoints, its two flows have one family, and it is not finished -/
def Tied {κ : Type} (keyOfSid : Sid → κ) (m : List (κ × Stream)) : Prop :=
  ∀ e ∈ m, e.1 = keyOfSid e.2.sid ∧ e.2.client.v6 = e.2.server.v6 ∧ e.2.isFinished = false

theorem fresh_tied (cfg : Cfg) (p : Pkt) : (fresh cfg p).sid = p.sid ∧ (fresh cfg p).client.v6 = (fresh cfg p).server.v6 := by
  unfold fresh; split <;> exact ⟨rfl, rfl⟩

section
variable {κ : Type} [DecidableEq κ]

theorem step_tied (cfg : Cfg) (keyOf : Pkt → κ) (lt : κ → κ → Bool) (keyOfSid : Sid → κ)
    (hkey : ∀ p, keyOf p = keyOfSid p.sid) (F : Follower κ) (p : Pkt) (h : Tied keyOfSid F.streams) :
    Tied keyOfSid (step cfg keyOf lt F p).1.streams := by
  intro e he
  unfold step at he
  have he := maybeCleanup_streams_mem _ _ _ _ _ he
  rcases stepCore_streams_mem _ _ _ _ _ he with h1 | ⟨s, ht, hr, rfl⟩
  · exact h e h1
  · have hs : keyOf p = keyOfSid s.sid ∧ s.client.v6 = s.server.v6 := by
      unfold target at ht
      cases hf : find? F.streams (keyOf p) with
      | some s' =>
        rw [hf] at ht; simp only [Option.some.injEq] at ht; subst ht
        have := h _ (mem_of_find? hf)
        exact ⟨this.1, this.2.1⟩
      | none =>
        rw [hf] at ht
        by_cases hst : startable cfg p = true
        · simp only [hst, if_true, Option.some.injEq] at ht; subst ht
          obtain ⟨h1, h2⟩ := fresh_tied cfg p
          exact ⟨by rw [h1]; exact hkey p, h2⟩
        · simp [hst] at ht
    obtain ⟨h1, h2⟩ := after_sid s p
    unfold erasedNow at hr
    simp only [Bool.or_eq_false_iff] at hr
    refine ⟨by simp only [h1]; exact hs.1, ?_, hr.1⟩
    have h3 : (after s p).server.v6 = s.server.v6 := by
      have := congrArg Sid.v6 h1; exact this
    rw [h2, h3]; exact hs.2

theorem run_tied (cfg : Cfg) (keyOf : Pkt → κ) (lt : κ → κ → Bool) (keyOfSid : Sid → κ)
    (hkey : ∀ p, keyOf p = keyOfSid p.sid) (h : List Pkt) (F : Follower κ) (hF : Tied keyOfSid F.streams) :
    Tied keyOfSid (run cfg keyOf lt F h).1.streams := by
  induction h generalizing F with
  | nil => exact hF
  | cons p ps ih => unfold run; exact ih _ (step_tied cfg keyOf lt keyOfSid hkey F p hF)

end

theorem beq_and_decide (a b c d : Nat) : (a == b && c == d) = decide (a = b ∧ c = d) := by
  by_cases h1 : a = b <;> by_cases h2 : c = d <;> simp [h1, h2]

/-- a packet whose identifier is that of the stream, of the stream's family, between two distinct endpoints, is claimed
    by exactly one flow: the one whose destination endpoint the packet names -/
theorem belongs_iff (s : Stream) (p : Pkt) (hv : s.client.v6 = s.server.v6) (hk : identOf p = s.sid.ident)
    (hfam : p.v6 = s.sid.v6) (hne : ¬ (p.src = p.dst ∧ p.sport = p.dport)) :
    (s.client.packetBelongs p = decide (p.dst = s.sid.saddr ∧ p.dport = s.sid.sport)) ∧
    (s.server.packetBelongs p = !decide (p.dst = s.sid.saddr ∧ p.dport = s.sid.sport)) := by
  unfold identOf Sid.ident at hk
  rw [mkIdent_eq_iff] at hk
  unfold SameEndpoints at hk
  rw [hfam] at hk
  simp only [pad_inj] at hk
  unfold Flow.packetBelongs
  unfold Stream.sid at hk hfam ⊢
  simp only at hk hfam ⊢
  rw [hv, ← hfam]
  simp only [beq_self_eq_true, Bool.true_and, beq_and_decide]
  refine ⟨trivial, ?_⟩
  rcases hk with ⟨h1, h2, h3, h4⟩ | ⟨h1, h2, h3, h4⟩
  · have hY : ¬ (p.dst = s.server.dst ∧ p.dport = s.server.dport) := by
      rintro ⟨h5, h6⟩; exact hne ⟨by rw [h1, h5], by rw [h2, h6]⟩
    have hX : p.dst = s.client.dst ∧ p.dport = s.client.dport := ⟨h3, h4⟩
    rw [decide_eq_true hX, decide_eq_false hY]; rfl
  · have hX : ¬ (p.dst = s.client.dst ∧ p.dport = s.client.dport) := by
      rintro ⟨h5, h6⟩; exact hne ⟨by rw [h1, h5], by rw [h2, h6]⟩
    have hY : p.dst = s.server.dst ∧ p.dport = s.server.dport := ⟨h3, h4⟩
    rw [decide_eq_true hY, decide_eq_false hX]; rfl

/-- KF-C07-1, the consequence: a packet of the other family belongs to neither flow of the stream its identifier
    selects — its segment is dropped -/
theorem cross_family_dropped (s : Stream) (p : Pkt) (hv : s.client.v6 = s.server.v6) (hfam : p.v6 ≠ s.sid.v6) :
    s.client.packetBelongs p = false ∧ s.server.packetBelongs p = false := by
  unfold Flow.packetBelongs Stream.sid at *
  simp only at hfam
  have h1 : (s.server.v6 == p.v6) = false := by simp; exact fun h => hfam h.symm
  have h2 : (s.client.v6 == p.v6) = false := by rw [hv]; exact h1
  simp [h1, h2]

end Tins.SF
