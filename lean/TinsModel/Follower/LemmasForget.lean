import TinsModel.Follower.LemmasTrace
/- When is a connection forgotten, and which callback reports it: step-level characterisation. -/
namespace Tins.SF
variable {κ : Type} [DecidableEq κ]

/-- the sweep test of `process_packet` fires -/
def sweepDue (cfg : Cfg) (F : Follower κ) (ts : Nat) : Prop := F.lastCleanup + cfg.keepAlive ≤ ts

/-- connection `k` ends in this `process_packet`: it is the packet's own connection and finishes (FIN both ways / RST)
    or exceeds a buffering limit, or the sweep runs and finds it idle for the keep-alive -/
def EndsNow (cfg : Cfg) (keyOf : Pkt → κ) (F : Follower κ) (p : Pkt) (k : κ) : Prop :=
  (k = keyOf p ∧ ∃ s, target cfg keyOf F p = some s ∧ erasedNow cfg s p = true) ∨
  (sweepDue cfg (stepCore cfg keyOf F p).1 p.ts ∧
    ∃ s, find? (stepCore cfg keyOf F p).1.streams k = some s ∧ expired cfg p.ts (k, s) = true)

theorem touch_end_iff (cfg : Cfg) (F : Follower κ) (k0 : κ) (s : Stream) (p : Pkt) (k : κ) :
    (∃ e ∈ (touch cfg F k0 s p).2, e.isEnd k = true) ↔ (k = k0 ∧ erasedNow cfg s p = true) := by
  rw [touch_snd, processPacket_events, List.map_append]
  constructor
  · rintro ⟨e, he, hend⟩
    have hkey : e.key = k0 := by
      have := touch_keys cfg F k0 s p e (by rw [touch_snd, processPacket_events, List.map_append]; exact he)
      exact this
    have hk : k = k0 := by
      rw [← hkey]; cases e <;> simp_all [Ev.isEnd, Ev.key]
    refine ⟨hk, ?_⟩
    unfold erasedNow
    simp only [List.mem_append] at he
    rcases he with (he | he) | he
    · obtain ⟨x, hx, rfl⟩ := List.mem_map.1 he
      have := route_events_not_closed _ _ x hx
      cases x <;> simp_all [liftEv, Ev.isEnd]
    · by_cases hf : (after s p).isFinished = true
      · simp [hf]
      · simp [hf] at he
    · by_cases ho : terminated cfg (after s p) = true
      · simp [ho]
      · simp [ho] at he
  · rintro ⟨rfl, her⟩
    unfold erasedNow at her
    simp only [Bool.or_eq_true] at her
    rcases her with hf | ho
    · refine ⟨Ev.closed k (after s p).sid, ?_, by simp [Ev.isEnd]⟩
      simp [hf, liftEv]
    · refine ⟨Ev.term k (after s p).sid (limitReason cfg (after s p)) (after s p).chunks (after s p).bytes (after s p).sacked,
        ?_, by simp [Ev.isEnd]⟩
      simp [ho]

theorem stepCore_end_iff (cfg : Cfg) (keyOf : Pkt → κ) (F : Follower κ) (p : Pkt) (k : κ) :
    (∃ e ∈ (stepCore cfg keyOf F p).2, e.isEnd k = true) ↔
      (k = keyOf p ∧ ∃ s, target cfg keyOf F p = some s ∧ erasedNow cfg s p = true) := by
  rw [stepCore_eq]
  cases ht : target cfg keyOf F p with
  | none => simp
  | some s =>
    simp only [Option.some.injEq, exists_eq_left']
    rw [← touch_end_iff cfg F (keyOf p) s p k]
    constructor
    · rintro ⟨e, he, hend⟩
      rcases List.mem_append.1 he with he | he
      · split at he
        · simp only [List.mem_singleton] at he; rw [he] at hend; simp [Ev.isEnd] at hend
        · cases he
      · exact ⟨e, he, hend⟩
    · rintro ⟨e, he, hend⟩
      exact ⟨e, List.mem_append.2 (Or.inr he), hend⟩

theorem cleanup_end_iff (cfg : Cfg) (lt : κ → κ → Bool) (F : Follower κ) (ts : Nat) (k : κ) (hu : UniqueKeys F.streams) :
    (∃ e ∈ (maybeCleanup cfg lt F ts).2, e.isEnd k = true) ↔
      (sweepDue cfg F ts ∧ ∃ s, find? F.streams k = some s ∧ expired cfg ts (k, s) = true) := by
  unfold maybeCleanup sweepDue
  by_cases hd : F.lastCleanup + cfg.keepAlive ≤ ts
  · simp only [hd, if_true, true_and]
    unfold cleanup
    simp only
    constructor
    · rintro ⟨e, he, hend⟩
      obtain ⟨x, hx1, rfl⟩ := List.mem_map.1 he
      obtain ⟨hx3, hx4⟩ := List.mem_filter.1 ((sortEntries_perm lt _).mem_iff.1 hx1)
      obtain ⟨k', s'⟩ := x
      have hk : k' = k := by simpa [Ev.isEnd] using hend
      subst hk
      exact ⟨s', find?_of_mem hu hx3, hx4⟩
    · rintro ⟨s, hf, hx⟩
      refine ⟨Ev.term k s.sid .timeout s.chunks s.bytes s.sacked, ?_, by simp [Ev.isEnd]⟩
      exact List.mem_map.2 ⟨(k, s), (sortEntries_perm lt _).mem_iff.2 (List.mem_filter.2 ⟨mem_of_find? hf, hx⟩), rfl⟩
  · simp [hd]

/-- an end callback (closed / terminated) for `k` is made in this step exactly when `k` ends now -/
theorem end_event_iff (cfg : Cfg) (keyOf : Pkt → κ) (lt : κ → κ → Bool) (F : Follower κ) (p : Pkt) (k : κ)
    (hu : UniqueKeys F.streams) :
    (∃ e ∈ (step cfg keyOf lt F p).2, e.isEnd k = true) ↔ EndsNow cfg keyOf F p k := by
  unfold step EndsNow
  simp only [List.mem_append]
  rw [← stepCore_end_iff, ← cleanup_end_iff cfg lt _ p.ts k (stepCore_unique _ _ _ _ hu)]
  constructor
  · rintro ⟨e, he | he, hend⟩
    · exact Or.inl ⟨e, he, hend⟩
    · exact Or.inr ⟨e, he, hend⟩
  · rintro (⟨e, he, hend⟩ | ⟨e, he, hend⟩)
    · exact ⟨e, Or.inl he, hend⟩
    · exact ⟨e, Or.inr he, hend⟩

theorem maybeCleanup_find (cfg : Cfg) (lt : κ → κ → Bool) (F : Follower κ) (ts : Nat) (k : κ) (hu : UniqueKeys F.streams) :
    find? (maybeCleanup cfg lt F ts).1.streams k = none ↔
      (find? F.streams k = none ∨ (sweepDue cfg F ts ∧ ∃ s, find? F.streams k = some s ∧ expired cfg ts (k, s) = true)) := by
  unfold maybeCleanup sweepDue
  by_cases hd : F.lastCleanup + cfg.keepAlive ≤ ts
  · simp only [hd, if_true, true_and]
    unfold cleanup
    simp only
    rw [find?_filter hu]
    cases hf : find? F.streams k with
    | none => simp
    | some s =>
      simp only [Option.filter_some, Option.some.injEq, exists_eq_left']
      by_cases hx : expired cfg ts (k, s) = true <;> simp [hx]
  · simp only [hd, if_false, false_and, or_false]

theorem target_isSome_iff (cfg : Cfg) (keyOf : Pkt → κ) (F : Follower κ) (p : Pkt) :
    (target cfg keyOf F p).isSome = ((find? F.streams (keyOf p)).isSome || announces cfg keyOf F p) := by
  unfold target announces
  cases find? F.streams (keyOf p) with
  | some s => simp
  | none => by_cases h : startable cfg p = true <;> simp [h]

/-- a connection that was live before the packet, or is announced by it, is not live afterwards exactly when it ends now -/
theorem forgotten_iff (cfg : Cfg) (keyOf : Pkt → κ) (lt : κ → κ → Bool) (F : Follower κ) (p : Pkt) (k : κ)
    (hu : UniqueKeys F.streams) :
    (((find? F.streams k).isSome = true ∨ (k = keyOf p ∧ announces cfg keyOf F p = true)) ∧
      find? (step cfg keyOf lt F p).1.streams k = none) ↔ EndsNow cfg keyOf F p k := by
  unfold step EndsNow
  simp only
  rw [maybeCleanup_find cfg lt _ p.ts k (stepCore_unique _ _ _ _ hu)]
  by_cases hk : k = keyOf p
  · subst hk
    have hti := target_isSome_iff cfg keyOf F p
    rw [stepCore_find_self]
    cases ht : target cfg keyOf F p with
    | none =>
      rw [ht] at hti
      simp only [Option.isSome_none, Bool.false_eq, Bool.or_eq_false_iff] at hti
      simp [hti.1, hti.2]
    | some s =>
      rw [ht] at hti
      have hlive : ((find? F.streams (keyOf p)).isSome = true ∨ announces cfg keyOf F p = true) := by
        simp only [Option.isSome_some, Bool.true_eq, Bool.or_eq_true] at hti
        exact hti
      by_cases he : erasedNow cfg s p = true
      · simp [he, hlive]
      · simp [he, hlive]
  · rw [stepCore_find_other _ _ _ _ _ hk]
    simp only [hk, false_and, or_false, false_or]
    constructor
    · rintro ⟨hl, hn | hn⟩
      · rw [hn] at hl; simp at hl
      · exact hn
    · rintro ⟨hd, s, hf, hx⟩
      exact ⟨by rw [hf]; rfl, Or.inr ⟨hd, s, hf, hx⟩⟩

/-! ### which callback, which reason -/

def Ev.isClosed (k : κ) : Ev κ → Bool
  | .closed k' _ => decide (k' = k)
  | _ => false

def Ev.isTerm (k : κ) (r : Reason) : Ev κ → Bool
  | .term k' _ r' _ _ _ => decide (k' = k) && decide (r' = r)
  | _ => false

omit [DecidableEq κ] in
theorem sweep_events_timeout (cfg : Cfg) (lt : κ → κ → Bool) (F : Follower κ) (ts : Nat) :
    ∀ e ∈ (maybeCleanup cfg lt F ts).2, ∃ k' sid c y z, e = Ev.term k' sid .timeout c y z := by
  intro e he
  unfold maybeCleanup at he
  split at he
  · unfold cleanup at he
    obtain ⟨x, _, rfl⟩ := List.mem_map.1 he
    exact ⟨_, _, _, _, _, rfl⟩
  · cases he

theorem core_events_shape (cfg : Cfg) (keyOf : Pkt → κ) (F : Follower κ) (p : Pkt) (e : Ev κ)
    (he : e ∈ (stepCore cfg keyOf F p).2) :
    ∃ s, target cfg keyOf F p = some s ∧
      ((announces cfg keyOf F p = true ∧ e = Ev.new (keyOf p) s.sid s.isPartial) ∨
       (∃ x ∈ (Stream.route { s with lastSeen := p.ts } p).2, e = liftEv (keyOf p) (after s p).sid x) ∨
       ((after s p).isFinished = true ∧ e = Ev.closed (keyOf p) (after s p).sid) ∨
       (terminated cfg (after s p) = true ∧
          e = Ev.term (keyOf p) (after s p).sid (limitReason cfg (after s p)) (after s p).chunks (after s p).bytes
                (after s p).sacked)) := by
  rw [stepCore_eq] at he
  cases ht : target cfg keyOf F p with
  | none => rw [ht] at he; cases he
  | some s =>
    rw [ht] at he
    refine ⟨s, rfl, ?_⟩
    simp only [touch_snd, processPacket_events, List.map_append, List.mem_append] at he
    rcases he with he | (he | he) | he
    · split at he
      · rename_i ha; simp only [List.mem_singleton] at he; exact Or.inl ⟨ha, he⟩
      · cases he
    · obtain ⟨x, hx, rfl⟩ := List.mem_map.1 he
      exact Or.inr (Or.inl ⟨x, hx, rfl⟩)
    · by_cases hf : (after s p).isFinished = true
      · simp only [hf, if_true, List.map_cons, List.map_nil, List.mem_singleton] at he
        exact Or.inr (Or.inr (Or.inl ⟨hf, he⟩))
      · simp [hf] at he
    · by_cases ho : terminated cfg (after s p) = true
      · simp only [ho, if_true, List.mem_singleton] at he
        exact Or.inr (Or.inr (Or.inr ⟨ho, he⟩))
      · simp [ho] at he

/-- the stream-closed callback is made exactly for the packet's own connection when it is finished after the packet -/
theorem closed_iff (cfg : Cfg) (keyOf : Pkt → κ) (lt : κ → κ → Bool) (F : Follower κ) (p : Pkt) (k : κ) :
    (∃ e ∈ (step cfg keyOf lt F p).2, Ev.isClosed k e = true) ↔
      (k = keyOf p ∧ ∃ s, target cfg keyOf F p = some s ∧ (after s p).isFinished = true) := by
  unfold step
  simp only [List.mem_append]
  constructor
  · rintro ⟨e, he | he, hc⟩
    · obtain ⟨s, ht, h⟩ := core_events_shape cfg keyOf F p e he
      rcases h with ⟨_, rfl⟩ | ⟨x, hx, rfl⟩ | ⟨hf, rfl⟩ | ⟨_, rfl⟩
      · simp [Ev.isClosed] at hc
      · have := route_events_not_closed _ _ x hx
        cases x <;> simp_all [liftEv, Ev.isClosed]
      · exact ⟨(by simpa [Ev.isClosed] using hc : keyOf p = k).symm, s, ht, hf⟩
      · simp [Ev.isClosed] at hc
    · obtain ⟨_, _, _, _, _, rfl⟩ := sweep_events_timeout cfg lt _ _ e he
      simp [Ev.isClosed] at hc
  · rintro ⟨rfl, s, ht, hf⟩
    refine ⟨Ev.closed (keyOf p) (after s p).sid, Or.inl ?_, by simp [Ev.isClosed]⟩
    rw [stepCore_eq, ht]
    simp only [touch_snd, processPacket_events, List.map_append, List.mem_append]
    exact Or.inr (Or.inl (Or.inr (by simp [hf, liftEv])))

theorem limitReason_buffered (cfg : Cfg) (s : Stream) : limitReason cfg s = .bufferedData ↔ overLimit cfg s = true := by
  unfold limitReason; by_cases h : overLimit cfg s = true <;> simp [h]

theorem limitReason_sacked (cfg : Cfg) (s : Stream) : limitReason cfg s = .sackedSegments ↔ overLimit cfg s = false := by
  unfold limitReason; by_cases h : overLimit cfg s = true <;> simp [h]

/-- a limit termination with reason `r` is reported exactly for the packet's own connection when the limits check
    terminates it after the packet and names that reason -/
theorem term_limit_iff (cfg : Cfg) (keyOf : Pkt → κ) (lt : κ → κ → Bool) (F : Follower κ) (p : Pkt) (k : κ) (r : Reason)
    (hr : r ≠ .timeout) :
    (∃ e ∈ (step cfg keyOf lt F p).2, Ev.isTerm k r e = true) ↔
      (k = keyOf p ∧ ∃ s, target cfg keyOf F p = some s ∧ terminated cfg (after s p) = true ∧ limitReason cfg (after s p) = r) := by
  unfold step
  simp only [List.mem_append]
  constructor
  · rintro ⟨e, he | he, hc⟩
    · obtain ⟨s, ht, h⟩ := core_events_shape cfg keyOf F p e he
      rcases h with ⟨_, rfl⟩ | ⟨x, hx, rfl⟩ | ⟨hf, rfl⟩ | ⟨ho, rfl⟩
      · simp [Ev.isTerm] at hc
      · cases x <;> simp [liftEv, Ev.isTerm] at hc
      · simp [Ev.isTerm] at hc
      · simp only [Ev.isTerm, Bool.and_eq_true, decide_eq_true_eq] at hc
        exact ⟨hc.1.symm, s, ht, ho, hc.2⟩
    · obtain ⟨_, _, _, _, _, rfl⟩ := sweep_events_timeout cfg lt _ _ e he
      simp only [Ev.isTerm, Bool.and_eq_true, decide_eq_true_eq] at hc
      exact absurd hc.2.symm hr
  · rintro ⟨rfl, s, ht, ho, hrr⟩
    refine ⟨Ev.term (keyOf p) (after s p).sid (limitReason cfg (after s p)) (after s p).chunks (after s p).bytes (after s p).sacked,
      Or.inl ?_, by simp [Ev.isTerm, hrr]⟩
    rw [stepCore_eq, ht]
    simp only [touch_snd, List.mem_append]
    exact Or.inr (Or.inr (by simp [ho]))

/-- BUFFERED_DATA is reported exactly for the packet's own connection when it is over a buffering limit after the packet -/
theorem term_buffered_iff (cfg : Cfg) (keyOf : Pkt → κ) (lt : κ → κ → Bool) (F : Follower κ) (p : Pkt) (k : κ) :
    (∃ e ∈ (step cfg keyOf lt F p).2, Ev.isTerm k .bufferedData e = true) ↔
      (k = keyOf p ∧ ∃ s, target cfg keyOf F p = some s ∧ overLimit cfg (after s p) = true) := by
  rw [term_limit_iff cfg keyOf lt F p k .bufferedData (by decide)]
  constructor
  · rintro ⟨hk, s, ht, _, hr⟩; exact ⟨hk, s, ht, (limitReason_buffered _ _).1 hr⟩
  · rintro ⟨hk, s, ht, ho⟩
    exact ⟨hk, s, ht, by unfold terminated; simp [ho], (limitReason_buffered _ _).2 ho⟩

/-- SACKED_SEGMENTS is reported exactly for the packet's own connection when, after the packet, it is within both
    buffering limits and its two ACK trackers hold more than `maxSacked` intervals -/
theorem term_sacked_iff (cfg : Cfg) (keyOf : Pkt → κ) (lt : κ → κ → Bool) (F : Follower κ) (p : Pkt) (k : κ) :
    (∃ e ∈ (step cfg keyOf lt F p).2, Ev.isTerm k .sackedSegments e = true) ↔
      (k = keyOf p ∧ ∃ s, target cfg keyOf F p = some s ∧ overLimit cfg (after s p) = false ∧
        (after s p).sacked > cfg.maxSacked) := by
  rw [term_limit_iff cfg keyOf lt F p k .sackedSegments (by decide)]
  constructor
  · rintro ⟨hk, s, ht, hterm, hr⟩
    have ho := (limitReason_sacked _ _).1 hr
    unfold terminated overSacked at hterm
    simp only [ho, Bool.false_or, Bool.not_false, Bool.true_and, decide_eq_true_eq] at hterm
    exact ⟨hk, s, ht, ho, hterm⟩
  · rintro ⟨hk, s, ht, ho, hc⟩
    refine ⟨hk, s, ht, ?_, (limitReason_sacked _ _).2 ho⟩
    unfold terminated overSacked
    simp [ho, hc]

/-- TIMEOUT is reported exactly when the sweep runs and the connection (as left by the packet) has been idle for the keep-alive -/
theorem term_timeout_iff (cfg : Cfg) (keyOf : Pkt → κ) (lt : κ → κ → Bool) (F : Follower κ) (p : Pkt) (k : κ)
    (hu : UniqueKeys F.streams) :
    (∃ e ∈ (step cfg keyOf lt F p).2, Ev.isTerm k .timeout e = true) ↔
      (sweepDue cfg (stepCore cfg keyOf F p).1 p.ts ∧
        ∃ s, find? (stepCore cfg keyOf F p).1.streams k = some s ∧ s.lastSeen + cfg.keepAlive ≤ p.ts) := by
  have hc := cleanup_end_iff cfg lt (stepCore cfg keyOf F p).1 p.ts k (stepCore_unique _ _ _ _ hu)
  unfold expired at hc
  simp only [decide_eq_true_eq] at hc
  rw [← hc]
  unfold step
  simp only [List.mem_append]
  constructor
  · rintro ⟨e, he | he, hc⟩
    · obtain ⟨s, ht, h⟩ := core_events_shape cfg keyOf F p e he
      rcases h with ⟨_, rfl⟩ | ⟨x, hx, rfl⟩ | ⟨hf, rfl⟩ | ⟨ho, rfl⟩
      · simp [Ev.isTerm] at hc
      · cases x <;> simp [liftEv, Ev.isTerm] at hc
      · simp [Ev.isTerm] at hc
      · simp only [Ev.isTerm, Bool.and_eq_true, decide_eq_true_eq] at hc
        have := hc.2; unfold limitReason at this; split at this <;> cases this
    · refine ⟨e, he, ?_⟩
      obtain ⟨_, _, _, _, _, rfl⟩ := sweep_events_timeout cfg lt _ _ e he
      simpa [Ev.isTerm, Ev.isEnd] using hc
  · rintro ⟨e, he, hend⟩
    refine ⟨e, Or.inr he, ?_⟩
    obtain ⟨_, _, _, _, _, rfl⟩ := sweep_events_timeout cfg lt _ _ e he
    simpa [Ev.isTerm, Ev.isEnd] using hend

end Tins.SF
