import TinsModel.Follower.LemmasForget
/- The limits check terminates a connection at most once per `process_packet`, and no connection is terminated twice in
   one step (limit + sweep). -/
namespace Tins.SF
variable {κ : Type} [DecidableEq κ]

/-- a termination callback (any reason) for `k` -/
def Ev.isTermOf (k : κ) : Ev κ → Bool
  | .term k' _ _ _ _ _ => decide (k' = k)
  | _ => false

theorem countP_key_le_one {m : List (κ × Stream)} (hu : UniqueKeys m) (k : κ) :
    m.countP (fun e => decide (e.1 = k)) ≤ 1 := by
  induction m with
  | nil => simp
  | cons e r ih =>
    unfold UniqueKeys keys at hu
    simp only [List.map_cons, List.nodup_cons] at hu
    rw [List.countP_cons]
    by_cases h : e.1 = k
    · have : r.countP (fun e => decide (e.1 = k)) = 0 := by
        rw [List.countP_eq_zero]
        intro x hx
        simp only [decide_eq_true_eq]
        intro hxk
        apply hu.1
        rw [h, ← hxk]
        exact List.mem_map.2 ⟨x, hx, rfl⟩
      simp [h, this]
    · simp only [h, decide_false, Bool.false_eq_true, if_false, Nat.add_zero]
      exact ih hu.2

omit [DecidableEq κ] in
theorem countP_key_zero [DecidableEq κ] {m : List (κ × Stream)} {k : κ} (h : find? m k = none) :
    m.countP (fun e => decide (e.1 = k)) = 0 := by
  rw [List.countP_eq_zero]
  intro x hx
  simp only [decide_eq_true_eq]
  intro hxk
  exact (find?_eq_none_iff.1 h) (List.mem_map.2 ⟨x, hx, hxk⟩)

theorem touch_term_count (cfg : Cfg) (F : Follower κ) (k0 : κ) (s : Stream) (p : Pkt) (k : κ) :
    (touch cfg F k0 s p).2.countP (Ev.isTermOf k) = if terminated cfg (after s p) ∧ k0 = k then 1 else 0 := by
  rw [touch_snd, List.countP_append]
  have h0 : (List.map (liftEv k0 (after s p).sid) (s.processPacket p).2).countP (Ev.isTermOf k) = 0 := by
    rw [List.countP_eq_zero]
    intro e he
    obtain ⟨x, _, rfl⟩ := List.mem_map.1 he
    cases x <;> simp [liftEv, Ev.isTermOf]
  rw [h0]
  by_cases ht : terminated cfg (after s p) = true
  · by_cases hk : k0 = k <;> simp [ht, hk, Ev.isTermOf]
  · simp [ht]

theorem stepCore_term_count (cfg : Cfg) (keyOf : Pkt → κ) (F : Follower κ) (p : Pkt) (k : κ) :
    (stepCore cfg keyOf F p).2.countP (Ev.isTermOf k) ≤ 1 ∧
    ((stepCore cfg keyOf F p).2.countP (Ev.isTermOf k) ≠ 0 → find? (stepCore cfg keyOf F p).1.streams k = none) := by
  rw [stepCore_eq]
  cases ht : target cfg keyOf F p with
  | none => simp
  | some s =>
    simp only [List.countP_append, touch_term_count]
    have hn : (if announces cfg keyOf F p = true then [Ev.new (keyOf p) s.sid s.isPartial] else []).countP (Ev.isTermOf k) = 0 := by
      split <;> simp [Ev.isTermOf]
    rw [hn]
    refine ⟨by split <;> omega, ?_⟩
    intro hne
    split at hne
    · rename_i hc
      obtain ⟨hterm, rfl⟩ := hc
      simp only [touch_fst]
      have : erasedNow cfg s p = true := by unfold erasedNow; simp [hterm]
      simp only [this, if_true]
      exact find?_remove_self _ _
    · exact absurd rfl hne

theorem cleanup_term_count (cfg : Cfg) (lt : κ → κ → Bool) (F : Follower κ) (ts : Nat) (k : κ) (hu : UniqueKeys F.streams) :
    (maybeCleanup cfg lt F ts).2.countP (Ev.isTermOf k) ≤ 1 ∧
    (find? F.streams k = none → (maybeCleanup cfg lt F ts).2.countP (Ev.isTermOf k) = 0) := by
  unfold maybeCleanup
  split
  · unfold cleanup
    simp only
    have e1 : ∀ l : List (κ × Stream),
        (l.map (fun e => Ev.term e.1 e.2.sid Reason.timeout e.2.chunks e.2.bytes e.2.sacked)).countP (Ev.isTermOf k) =
        l.countP (fun e => decide (e.1 = k)) := by
      intro l; rw [List.countP_map]; rfl
    rw [e1, (sortEntries_perm lt _).countP_eq]
    refine ⟨countP_key_le_one (unique_filter hu _) k, ?_⟩
    intro hf
    apply countP_key_zero
    rw [find?_filter hu, hf]; rfl
  · simp

/-- in one `process_packet` a connection is reported terminated at most once (limits check and sweep together) -/
theorem step_term_count (cfg : Cfg) (keyOf : Pkt → κ) (lt : κ → κ → Bool) (F : Follower κ) (p : Pkt) (k : κ)
    (hu : UniqueKeys F.streams) : (step cfg keyOf lt F p).2.countP (Ev.isTermOf k) ≤ 1 := by
  unfold step
  simp only [List.countP_append]
  obtain ⟨h1, h2⟩ := stepCore_term_count cfg keyOf F p k
  obtain ⟨h3, h4⟩ := cleanup_term_count cfg lt (stepCore cfg keyOf F p).1 p.ts k (stepCore_unique _ _ _ _ hu)
  by_cases h0 : (stepCore cfg keyOf F p).2.countP (Ev.isTermOf k) = 0
  · omega
  · have := h4 (h2 h0); omega

/-! ### the path without a new-stream callback -/

theorem stepX_of_cbSet (cfg : Cfg) (keyOf : Pkt → κ) (lt : κ → κ → Bool) (F : Follower κ) (p : Pkt) (h : cfg.cbSet = true) :
    stepX cfg keyOf lt F p = ((step cfg keyOf lt F p).1, (step cfg keyOf lt F p).2, false) := by
  unfold stepX; simp [h]

theorem runX_of_cbSet (cfg : Cfg) (keyOf : Pkt → κ) (lt : κ → κ → Bool) (h : List Pkt) (F : Follower κ) (hc : cfg.cbSet = true) :
    (runX cfg keyOf lt F h).1 = (run cfg keyOf lt F h).1 ∧
    (runX cfg keyOf lt F h).2 = (run cfg keyOf lt F h).2.map (fun evs => (evs, false)) := by
  induction h generalizing F with
  | nil => exact ⟨rfl, rfl⟩
  | cons p ps ih =>
    unfold runX run
    simp only [stepX_of_cbSet cfg keyOf lt F p hc]
    obtain ⟨i1, i2⟩ := ih (step cfg keyOf lt F p).1
    exact ⟨i1, by rw [i2]; rfl⟩

theorem raw_stream_within (cfg : Cfg) (p : Pkt) : within cfg (Stream.ofPacket cfg.raw p) := by
  unfold within Stream.chunks Stream.bytes Stream.sacked Stream.ofPacket Flow.configure Flow.init DT.Tracker.init
  simp [Ack.Tracker.default, wrap32]

theorem stepX_within (cfg : Cfg) (keyOf : Pkt → κ) (lt : κ → κ → Bool) (F : Follower κ) (p : Pkt)
    (h : ∀ e ∈ F.streams, within cfg e.2) : ∀ e ∈ (stepX cfg keyOf lt F p).1.streams, within cfg e.2 := by
  unfold stepX
  split
  · intro e he
    rcases mem_store.1 he with h1 | h1
    · rw [h1]; exact raw_stream_within cfg p
    · exact h e h1.1
  · exact step_within cfg keyOf lt F p h

theorem runX_within (cfg : Cfg) (keyOf : Pkt → κ) (lt : κ → κ → Bool) (h : List Pkt) (F : Follower κ)
    (hF : ∀ e ∈ F.streams, within cfg e.2) : ∀ e ∈ (runX cfg keyOf lt F h).1.streams, within cfg e.2 := by
  induction h generalizing F with
  | nil => exact hF
  | cons p ps ih => unfold runX; exact ih _ (stepX_within cfg keyOf lt F p hF)

theorem stepX_unique (cfg : Cfg) (keyOf : Pkt → κ) (lt : κ → κ → Bool) (F : Follower κ) (p : Pkt) (hu : UniqueKeys F.streams) :
    UniqueKeys (stepX cfg keyOf lt F p).1.streams := by
  unfold stepX
  split
  · exact unique_store hu _ _
  · exact step_unique cfg keyOf lt F p hu

theorem runX_unique (cfg : Cfg) (keyOf : Pkt → κ) (lt : κ → κ → Bool) (h : List Pkt) (F : Follower κ)
    (hu : UniqueKeys F.streams) : UniqueKeys (runX cfg keyOf lt F h).1.streams := by
  induction h generalizing F with
  | nil => exact hu
  | cons p ps ih => unfold runX; exact ih _ (stepX_unique cfg keyOf lt F p hu)

/-- when `callback_not_set` leaves `process_packet` the packet's connection was not live, the packet could start it, and
    it is live afterwards, held as `Stream(packet)` left it; nothing else changed and no callback was made -/
theorem stepX_throws_iff (cfg : Cfg) (keyOf : Pkt → κ) (lt : κ → κ → Bool) (F : Follower κ) (p : Pkt) :
    ((stepX cfg keyOf lt F p).2.2 = true ↔
      (cfg.cbSet = false ∧ find? F.streams (keyOf p) = none ∧ startable cfg p = true)) ∧
    ((stepX cfg keyOf lt F p).2.2 = true →
      (stepX cfg keyOf lt F p).2.1 = [] ∧
      find? (stepX cfg keyOf lt F p).1.streams (keyOf p) = some (Stream.ofPacket cfg.raw p) ∧
      ∀ k, k ≠ keyOf p → find? (stepX cfg keyOf lt F p).1.streams k = find? F.streams k) := by
  unfold stepX creates startable
  by_cases hc : (!cfg.cbSet && ((find? F.streams (keyOf p)).isNone && (p.syn && !p.ackf || cfg.attach && p.payload.isSome))) = true
  · simp only [hc, if_true, true_iff, true_imp_iff]
    simp only [Bool.and_eq_true, Bool.not_eq_true', Option.isNone_iff_eq_none] at hc
    refine ⟨⟨hc.1, hc.2.1, hc.2.2⟩, ?_, ?_, ?_⟩
    · trivial
    · exact find?_store_self _ _ _
    · exact fun k hk => find?_store_ne _ _ hk
  · simp only [hc, Bool.false_eq_true, if_false, false_iff, false_imp_iff, and_true]
    intro ⟨h1, h2, h3⟩
    apply hc
    simp [h1, h2, h3]

end Tins.SF
