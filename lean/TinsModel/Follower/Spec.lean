import TinsModel.Follower.Model
import TinsModel.Tcp.Spec
import TinsModel.Ack.Spec
/-
  Specification side of property C07, written from the property text (not from libtins):

  1. `RefKey` / `refKeyOf`: the key of the *reference connection table* — address family plus the unordered pair of
     (address, port) endpoints, no padding.  `Ref.run` is the follower keyed that way (the reference machine of the
     refinement theorem `trace_refines_reference`).
  2. the run-time **oracle**: a reference table of live connections that judges, clause by clause, the callback trace
     the implementation produced for one packet:
       announce  – `new` exactly when the packet belongs to no live connection and is an initial SYN (SYN without ACK)
                   or, with attaching enabled, carries data; client = sender, server = receiver;
       route     – every data / out-of-order callback names the packet's own connection and the direction given by
                   the packet's destination endpoint; nothing at all for a packet of no connection;
       deliver   – the bytes handed over in a direction are the declared stream from the first owed byte up to the
                   C06 frontier (`Tins.DT.frontier`) of the segments that arrived in that direction;
       forget    – `closed` exactly in the step after which both directions carried a FIN or one carried an RST;
                   the connection is then gone (`find_stream` fails);
       limits    – BUFFERED_DATA termination iff the counters shown with it exceed a limit; a connection that stays
                   live is within both limits and its byte counter equals the bytes really held;
       timeout   – a TIMEOUT is reported only for a live connection idle for at least the keep-alive, once; with
                   non-decreasing timestamps no connection stays live once idle for two keep-alive periods;
       sacklimit – SACKED_SEGMENTS termination iff the connection is within both buffering limits and the SACKed-interval
                   count shown with it exceeds the limit; a connection that stays live holds at most that many intervals;
       acktrack  – a flow without ACK tracking records no interval; a flow with ACK tracking shows, from the segment that
                   completes its direction's handshake on and for as long as the acknowledgements it carries are what a
                   receiver emits (C19's `pktOK`), the cumulative ACK and exactly the maximal runs of SACKed positions
                   above it (C19's `stateVerdict`, the set-of-acknowledged-bytes definition);
       exception – no exception leaves `process_packet` (every callback is installed).
-/
namespace Tins.SF
open Tins Tins.DT

/-! ### reference key -/

structure RefKey where
  v6 : Bool
  loAddr : Nat
  loPort : Nat
  hiAddr : Nat
  hiPort : Nat
deriving DecidableEq, Repr

/-- family + unordered endpoint pair (endpoints ordered by address, then port) -/
def mkRefKey (v6 : Bool) (a ap b bp : Nat) : RefKey :=
  if a > b then ⟨v6, b, bp, a, ap⟩
  else if a = b ∧ ap > bp then ⟨v6, a, bp, b, ap⟩
  else ⟨v6, a, ap, b, bp⟩

def refKeyOf (p : Pkt) : RefKey := mkRefKey p.v6 p.src p.sport p.dst p.dport

/-- the identifier the code would compute for a reference key -/
def RefKey.ident (k : RefKey) : Ident := mkIdent (pad k.v6 k.loAddr) k.loPort (pad k.v6 k.hiAddr) k.hiPort

/-- simultaneous time-outs are reported in the order of the padded identifiers (any fixed order would do) -/
def RefKey.lt (a b : RefKey) : Bool := Ident.lt a.ident b.ident

abbrev Ref := Follower RefKey
def Ref.step (cfg : Cfg) (F : Ref) (p : Pkt) : Ref × List (Ev RefKey) := Tins.SF.step cfg refKeyOf RefKey.lt F p
def Ref.run (cfg : Cfg) (F : Ref) (h : List Pkt) : Ref × List (List (Ev RefKey)) := Tins.SF.run cfg refKeyOf RefKey.lt F h

/-! ### run-time oracle -/

structure Endp where
  addr : Nat
  port : Nat
deriving DecidableEq, Repr

/-- an observed callback (payloads as length + FNV-1a hash) -/
inductive ObsEv
  | new (sid : Sid) (isPartial : Bool)
  | data (sid : Sid) (client : Bool) (len hash : Nat)
  | ooo (sid : Sid) (client : Bool)
  | closed (sid : Sid)
  | term (sid : Sid) (r : Reason) (chunks bytes sacked : Nat)
  | exc (name : String)
deriving DecidableEq, Repr

/-- observed ACK-tracker state of one flow -/
structure ObsAck where
  tracking : Bool := false
  ack : Nat := 0
  ivn : Nat := 0
  ivs : Option (List (Nat × Nat)) := none     -- `none`: not shown / not parsed
deriving Repr

/-- observed counters of a live stream -/
structure ObsStatus where
  sid : Sid
  cch : Nat
  sch : Nat
  cb : Nat
  sb : Nat
  real : Nat
  cak : ObsAck := {}
  sak : ObsAck := {}
deriving Repr

/-- one direction of a reference connection -/
structure RDir where
  fin : Bool := false
  rst : Bool := false
  base : Option Nat := none      -- sequence number of the first byte owed to the application
  segs : List Seg := []          -- arrivals in this direction, offsets relative to `base`
  delivered : Nat := 0           -- bytes handed over so far
  specified : Bool := true       -- all data so far is consistent with the declared stream
  -- what an observer of this direction's acknowledgements knows (positions are absolute: numbers at or above the first
  -- acknowledgement number, whose own value is its 32-bit image)
  akPhase : Nat := 0             -- 0 nothing seen, 1 the direction's SYN seen, 2 handshake complete: `akA`, `akSeen` valid
  akA : Nat := 0                 -- cumulative ACK
  akSeen : List Ack.Spec.Blk := []
  akSack : Bool := true          -- SACK blocks are taken into account
  akSpec : Bool := true          -- the acknowledgements so far are what a receiver emits
deriving Repr

structure RConn where
  v6 : Bool
  cl : Endp
  sv : Endp
  c2s : RDir
  s2c : RDir
  lastSeen : Nat
deriving Repr

def RConn.sid (c : RConn) : Sid := ⟨c.v6, c.cl.addr, c.cl.port, c.sv.addr, c.sv.port⟩

/-- declared byte stream of one direction: `data[i]` has sequence number `isn + 1 + i` -/
structure Decl where
  v6 : Bool
  src : Endp
  dst : Endp
  isn : Nat
  data : Bytes
deriving Repr

structure Oracle where
  cfg : Cfg := { attach := false, maxChunks := 512, maxBytes := 3145728, keepAlive := 300000000, acl := true }
  decls : List Decl := []
  conns : List RConn := []
  monotone : Bool := true
  lastTs : Nat := 0
  broken : Bool := false         -- a violation was reported: the reference is out of step with the implementation

inductive Verdict
  | ok
  | unspecified
  | violates (clause : String) (detail : String)
deriving Repr

def Pkt.srcE (p : Pkt) : Endp := ⟨p.src, p.sport⟩
def Pkt.dstE (p : Pkt) : Endp := ⟨p.dst, p.dport⟩

def RConn.has (c : RConn) (v6 : Bool) (a b : Endp) : Bool :=
  c.v6 == v6 && ((c.cl == a && c.sv == b) || (c.cl == b && c.sv == a))

/-- signed 32-bit difference `a - b` of two sequence numbers -/
def sdiff32 (a b : Nat) : Int :=
  let d := sub32 (a % 4294967296) (b % 4294967296)
  if d < 2147483648 then (d : Int) else (d : Int) - 4294967296

/-- is the payload what the declared stream holds at offset `o` (bytes before the stream start are free) -/
def consistentAt (data : Bytes) (o : Int) : Bytes → Nat → Bool
  | [], _ => true
  | b :: r, i =>
    let pos := o + (i : Int)
    (if pos < 0 then true
     else match data[pos.toNat]? with
       | some x => x == b
       | none => false) && consistentAt data o r (i + 1)

def fnv64 (bs : Bytes) : Nat :=
  (bs.foldl (fun (h : UInt64) b => (h ^^^ b.toUInt64) * 1099511628211) 14695981039346656037).toNat

def isTimeout : ObsEv → Bool
  | .term _ .timeout _ _ _ => true
  | _ => false

/-- rank of an event kind in the order a single packet can produce them -/
def evRank : ObsEv → Nat
  | .new _ _ => 0 | .ooo _ _ => 1 | .data _ _ _ _ => 1 | .closed _ => 2
  | .term _ .timeout _ _ _ => 4 | .term _ _ _ _ _ => 3 | .exc _ => 5

def ranksSorted : List Nat → Bool
  | a :: b :: r => decide (a ≤ b) && ranksSorted (b :: r)
  | _ => true

/-- do two connections of different families have the same zero-padded identifier (the known StreamIdentifier defect) -/
def crossFamilyTwin (conns : List RConn) (v6 : Bool) (a b : Endp) : Bool :=
  conns.any (fun c => c.v6 != v6 &&
    mkIdent (pad c.v6 c.cl.addr) c.cl.port (pad c.v6 c.sv.addr) c.sv.port == mkIdent (pad v6 a.addr) a.port (pad v6 b.addr) b.port)

/-- update of one direction by a packet travelling in it; returns the direction and the expected delivery
    `(lo, hi, decl)` : bytes `[lo, hi)` of the declared stream are owed after this packet (when specified) -/
def RDir.advance (d : RDir) (p : Pkt) (decl : Option Decl) : RDir :=
  let d1 : RDir :=
    if p.syn && d.base.isNone then
      if p.fin || p.rst || d.fin || d.rst then { d with specified := false }
      else { d with base := some (wrap32 (p.seq + 1)) }
    else d
  let d2 : RDir := { d1 with fin := d1.fin || p.fin, rst := d1.rst || p.rst }
  match p.payload with
  | none => d2
  | some pl =>
    if !d2.specified then d2 else
    match d2.base, decl with
    | some b, some dc =>
      let o := sdiff32 p.dataSeq (dc.isn + 1)      -- a SYN occupies one sequence number
      let bo := sdiff32 b (dc.isn + 1)
      if consistentAt dc.data o pl 0 && decide (0 ≤ bo) && decide (bo ≤ (dc.data.length : Int))
         && decide (o + (pl.length : Int) ≤ (dc.data.length : Int)) then
        { d2 with segs := ⟨o - bo, pl.length⟩ :: d2.segs }
      else { d2 with specified := false }
    | _, _ => { d2 with specified := false }

/-- the owed prefix `[baseOff, baseOff + k)` of the declared stream -/
def RDir.owed (d : RDir) (decl : Option Decl) : Option (Nat × Nat × Bytes) :=
  match d.base, decl with
  | some b, some dc =>
    let bo := (sdiff32 b (dc.isn + 1)).toNat
    some (bo, frontier d.segs (dc.data.length - bo), dc.data)
  | _, _ => none

def lookupDecl (decls : List Decl) (v6 : Bool) (src dst : Endp) : Option Decl :=
  decls.find? (fun d => d.v6 == v6 && d.src == src && d.dst == dst)

def viol (o : Oracle) (twin : Bool) (clause detail : String) : Oracle × Verdict :=
  ({ o with broken := true },
   if twin then .violates "xfam-collision" (clause ++ " " ++ detail) else .violates clause detail)

/-- the deliver clause for one packet: `evs` are the data callbacks of the packet's direction -/
def checkDeliver (acl : Bool) (d d' : RDir) (decl : Option Decl) (evs : List (Nat × Nat)) : Option String :=
  if !d'.specified then none else
  match d'.owed decl with
  | none => if evs.isEmpty then none else some "data before the stream start is known"
  | some (bo, k, data) =>
    let k0 := d.delivered
    match evs with
    | [] => if k > k0 then some s!"owed {k - k0} more bytes, no data callback" else none
    | [(len, hash)] =>
      if acl then
        if len != k - k0 || k < k0 then some s!"callback hands over {len} bytes, owed {k - k0}"
        else if hash != fnv64 ((data.drop (bo + k0)).take (k - k0)) then some "callback bytes differ from the stream"
        else none
      else
        if len != k then some s!"payload holds {len} bytes, owed {k}"
        else if hash != fnv64 ((data.drop bo).take k) then some "payload bytes differ from the stream"
        else none
    | _ => some "more than one data callback for one packet"

/-- SACK blocks of a segment as absolute half-open blocks, read forward from the segment's own (absolute) ACK;
    a trailing odd edge is no block -/
def blocksAbs (A : Nat) : List Nat → List Ack.Spec.Blk
  | l :: r :: rest => let la := Ack.Spec.unwrapFwd A l; (la, la + sub32 r l) :: blocksAbs A rest
  | _ => []

/-- the acknowledgement side of a packet travelling in direction `d` -/
def RDir.advanceAck (d : RDir) (p : Pkt) : RDir :=
  if !d.akSpec then d else
  match d.akPhase with
  | 0 => if p.syn && !p.fin && !p.rst then { d with akPhase := 1 } else { d with akSpec := false }
  | 1 =>
    if p.fin || p.rst then { d with akSpec := false }
    else if !p.ackf then d
    else
      -- the handshake of this direction is complete: knowledge starts here (the value of the ACK number is its own image)
      let bl := match p.sack with | .edges e => blocksAbs p.ack e | _ => []
      let k : Ack.Spec.Pkt := ⟨p.ack, bl⟩
      if Ack.Spec.pktOK p.ack [] k then { d with akPhase := 2, akA := p.ack, akSeen := bl, akSack := true }
      else { d with akSpec := false }
  | _ =>
    if !p.ackf then { d with akSpec := false } else
    let a := Ack.Spec.unwrapFwd d.akA p.ack
    let bl := match p.sack with | .edges e => blocksAbs a e | _ => []
    let k : Ack.Spec.Pkt := ⟨a, bl⟩
    if Ack.Spec.pktOK d.akA d.akSeen k then { d with akA := a, akSeen := if d.akSack then d.akSeen ++ bl else d.akSeen }
    else { d with akSpec := false }

/-- judge what a flow shows of its ACK tracker against the direction's reference -/
def ackVerdict (tracking : Bool) (d : RDir) (a : ObsAck) : Option String :=
  if a.tracking != tracking then some "ack_tracking_enabled differs from what the application asked for" else
  if !tracking then
    if a.ivn != 0 then some "a flow without ACK tracking recorded SACKed intervals" else none
  else if !d.akSpec || d.akPhase != 2 then none
  else match a.ivs with
    | none => none
    | some ivs =>
      if ivs.length != a.ivn then some "interval count differs from the intervals shown" else
      if ivs.length > 48 then none else
      let v := Ack.Spec.stateVerdict d.akA d.akSeen a.ack ivs
      if v == "" then none else some v

/-- the idle sweep: judge the TIMEOUT terminations reported after a packet at time `ts` -/
def Oracle.sweep (o : Oracle) (twin : Bool) (ts : Nat) (evs : List ObsEv) : Oracle × Verdict :=
  match evs with
  | [] =>
    if o.monotone && o.conns.any (fun c => decide (c.lastSeen + 2 * o.cfg.keepAlive ≤ ts)) then
      viol o twin "timeout" "a connection idle for two keep-alive periods is still live"
    else (o, .ok)
  | e :: r =>
    match e with
    | .term sid _ _ _ _ =>
      match o.conns.find? (fun c => c.sid == sid) with
      | none => viol o twin "timeout" "time-out reported for a connection that is not live"
      | some c =>
        if !decide (c.lastSeen + o.cfg.keepAlive ≤ ts) then viol o twin "timeout" "time-out before the keep-alive elapsed"
        else Oracle.sweep { o with conns := o.conns.filter (fun c => c.sid != sid) } twin ts r
    | _ => viol o twin "order" "unexpected callback during the sweep"


/-- judge the implementation's trace `evs` and status `st` for packet `p` -/
def Oracle.packet (o : Oracle) (p : Pkt) (evs : List ObsEv) (st : Option ObsStatus) : Oracle × Verdict :=
  if o.broken then (o, .unspecified) else
  let src := p.srcE; let dst := p.dstE
  if src == dst then ({ o with broken := true }, .unspecified) else
  let twin := crossFamilyTwin o.conns p.v6 src dst
  let mono := o.monotone && decide (o.lastTs ≤ p.ts)
  let o := { o with monotone := mono, lastTs := p.ts }
  let main := evs.filter (fun e => !isTimeout e)
  let sweep := evs.filter isTimeout
  if !ranksSorted (evs.map evRank) then viol o twin "order" "callbacks in an impossible order" else
  -- announce
  let live := o.conns.find? (·.has p.v6 src dst)
  let isSyn := p.syn && !p.ackf
  let create := live.isNone && (isSyn || (o.cfg.attach && p.payload.isSome))
  -- no new-stream callback installed: the packet that would start a connection makes `callback_not_set` leave the call,
  -- after the stream has been stored; nothing else happens (the packet is not processed, no sweep)
  if !o.cfg.cbSet && create then
    if evs != [ObsEv.exc "callback_not_set"] then
      viol o twin "exception" "no new-stream callback is installed and the packet starts a connection: callback_not_set expected, alone"
    else match st with
      | none => viol o twin "find" "the stream stored before callback_not_set was thrown is not found"
      | some s =>
        if s.sid != ⟨p.v6, p.src, p.sport, p.dst, p.dport⟩ then viol o twin "find" "find_stream returns another connection" else
        ({ o with conns := { v6 := p.v6, cl := src, sv := dst, lastSeen := p.ts, c2s := { specified := false, akSpec := false },
                             s2c := { specified := false, akSpec := false } } ::
                           o.conns.filter (fun c => !c.has p.v6 src dst) }, .ok)
  else
  match evs.find? (fun e => match e with | .exc _ => true | _ => false) with
  | some (.exc n) => viol o twin "exception" s!"{n} left process_packet"
  | _ =>
  if !o.cfg.cbSet && main.any (fun e => match e with | .term _ _ _ _ _ => false | _ => true) then
    viol o twin "exception" "a stream callback was made although no new-stream callback (which installs them) is set" else
  let news := main.filter (fun e => match e with | .new _ _ => true | _ => false)
  let expectNew := if create then [ObsEv.new ⟨p.v6, p.src, p.sport, p.dst, p.dport⟩ (!p.syn)] else []
  if news != expectNew then
    viol o twin "announce" (if create then "connection not announced (or announced wrongly)" else "unexpected new-stream callback") else
  let others := o.conns.filter (fun c => !c.has p.v6 src dst)
  let conn? : Option RConn :=
    match live with
    | some c => some c
    | none =>
      if create then
        -- in recovery mode a flow gives up holes on purpose: the deliver clause does not apply (correspondence only)
        let sp := o.cfg.recovery.isNone
        some { v6 := p.v6, cl := src, sv := dst, lastSeen := p.ts,
               -- attached mid-stream: both trackers are default-constructed (ACK number 0, SACK only after use_sack)
               c2s := if isSyn then { specified := sp } else { base := some p.dataSeq, akPhase := 2, akSack := o.cfg.useSack, specified := sp },
               s2c := if isSyn then { specified := sp } else { base := some p.ack, akPhase := 2, akSack := o.cfg.useSack, specified := sp } }
      else none
  let rest := main.filter (fun e => match e with | .new _ _ => false | _ => true)
  match conn? with
  | none =>
    if !rest.isEmpty then viol o twin "route" "callbacks for a packet of no live connection" else
    if st.isSome then viol o twin "find" "find_stream succeeds for a connection that is not live" else
    Oracle.sweep { o with conns := others } twin p.ts sweep
  | some c =>
    let toServer := dst == c.sv
    let sid := c.sid
    -- route: every callback names this connection and this direction
    let misrouted := rest.any (fun e => match e with
      | .data s cl _ _ => s != sid || cl != toServer
      | .ooo s cl => s != sid || cl != toServer
      | .closed s => s != sid
      | .term s _ _ _ _ => s != sid
      | .new _ _ => false
      | .exc _ => false)
    if misrouted then viol o twin "route" "callback for another connection or direction" else
    let decl := lookupDecl o.decls p.v6 src dst
    let d := if toServer then c.c2s else c.s2c
    let ignored := o.cfg.cbSet && (if toServer then o.cfg.ignC else o.cfg.ignS)
    let d' := (d.advance p decl).advanceAck p
    let dataEvs := rest.filterMap (fun e => match e with | .data _ _ l h => some (l, h) | _ => none)
    if ignored && !(dataEvs.isEmpty && !rest.any (fun e => match e with | .ooo _ _ => true | _ => false)) then
      viol o twin "ignore" "data / out-of-order callback for a direction the application asked to ignore" else
    match (if ignored || !o.cfg.cbSet then none else checkDeliver o.cfg.acl d d' decl dataEvs) with
    | some msg => viol o twin "deliver" msg
    | none =>
    let d'' : RDir := match d'.owed decl with
      | some (_, k, _) => if d'.specified then { d' with delivered := k } else d'
      | none => d'
    let c' : RConn := if toServer then { c with c2s := d'', lastSeen := p.ts } else { c with s2c := d'', lastSeen := p.ts }
    -- forget
    let finished := (c'.c2s.fin && c'.s2c.fin) || c'.c2s.rst || c'.s2c.rst
    let closedEvs := rest.filter (fun e => match e with | .closed _ => true | _ => false)
    if closedEvs != (if finished && o.cfg.cbSet then [ObsEv.closed sid] else []) then
      viol o twin "forget" (if finished then "connection finished (FIN both ways or RST) but not reported closed"
                            else "closed callback for a connection that is not finished") else
    -- limits
    let terms := rest.filterMap (fun e => match e with | .term _ r ch b sk => some (r, ch, b, sk) | _ => none)
    match terms with
    | _ :: _ :: _ => viol o twin "limits" "terminated twice"
    | [(r, ch, b, sk)] =>
      let overBuf := decide (ch > o.cfg.maxChunks) || decide (b > o.cfg.maxBytes)
      if r == .timeout then viol o twin "limits" "unexpected reason" else
      if r == .bufferedData && !overBuf then
        viol o twin "limits" s!"terminated with {ch} chunks / {b} bytes buffered, within the limits" else
      if r == .sackedSegments && overBuf then
        viol o twin "sacklimit" s!"SACKED_SEGMENTS reported with {ch} chunks / {b} bytes buffered, over the buffering limits" else
      if r == .sackedSegments && !decide (sk > o.cfg.maxSacked) then
        viol o twin "sacklimit" s!"terminated with {sk} SACKed intervals, within the limit" else
      if st.isSome then viol o twin "forget" "terminated connection is still found" else
      Oracle.sweep { o with conns := others } twin p.ts sweep
    | [] =>
      if finished then
        if st.isSome then viol o twin "forget" "finished connection is still found" else
        Oracle.sweep { o with conns := others } twin p.ts sweep
      else
        match st with
        | none => viol o twin "forget" "live connection is not found after its packet"
        | some s =>
          if s.sid != sid then viol o twin "find" "find_stream returns another connection" else
          if s.cch + s.sch > o.cfg.maxChunks || s.cb + s.sb > o.cfg.maxBytes then
            viol o twin "limits" s!"live connection holds {s.cch + s.sch} chunks / {s.cb + s.sb} bytes, over the limits" else
          if s.real != s.cb + s.sb then viol o twin "limits" "byte counter differs from the bytes held" else
          if s.cak.ivn + s.sak.ivn > o.cfg.maxSacked then
            viol o twin "sacklimit" s!"live connection holds {s.cak.ivn + s.sak.ivn} SACKed intervals, over the limit" else
          match ackVerdict (o.cfg.ackC && o.cfg.cbSet) c'.c2s s.cak, ackVerdict (o.cfg.ackS && o.cfg.cbSet) c'.s2c s.sak with
          | some m, _ => viol o twin "acktrack" ("client flow: " ++ m)
          | none, some m => viol o twin "acktrack" ("server flow: " ++ m)
          | none, none =>
          Oracle.sweep { o with conns := c' :: others } twin p.ts sweep

/-- judge a `find_stream` result -/
def Oracle.find (o : Oracle) (v6 : Bool) (a b : Endp) (st : Option ObsStatus) : Oracle × Verdict :=
  if o.broken then (o, .unspecified) else
  if a == b then (o, .unspecified) else
  let twin := crossFamilyTwin o.conns v6 a b
  match o.conns.find? (·.has v6 a b), st with
  | none, none => (o, .ok)
  | some c, some s => if s.sid == c.sid then (o, .ok) else viol o twin "find" "find_stream returns another connection"
  | none, some _ => viol o twin "find" "find_stream succeeds for a connection that is not live"
  | some _, none => viol o twin "find" "find_stream fails for a live connection"

end Tins.SF
