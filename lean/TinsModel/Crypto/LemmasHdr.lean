import TinsModel.Crypto.Ccmp
import TinsModel.Crypto.Spec
/-
  C09 — header variants: the parser model inverts `Hdr.bytes`; the AAD / nonce that
  `ccmp_decrypt_unicast` builds from the parsed fields are the AAD / nonce of IEEE 802.11 built from the
  header bytes, for every to/from-DS, 4-address and QoS combination.
-/
set_option linter.unusedSimpArgs false
namespace Tins.Crypto

theorem forall_uint8 (P : UInt8 → Prop) (h : ∀ n : Fin 256, P (UInt8.ofNat n.val)) : ∀ x, P x := by
  intro x
  have := h ⟨x.toNat, x.toNat_lt⟩
  simpa using this

theorem len6 (a : Bytes) (h : a.length = 6) : ∃ x0 x1 x2 x3 x4 x5, a = [x0, x1, x2, x3, x4, x5] := by
  match a, h with
  | [x0, x1, x2, x3, x4, x5], _ => exact ⟨x0, x1, x2, x3, x4, x5, rfl⟩

set_option maxRecDepth 8000 in
theorem both_iff : ∀ x : UInt8, ((x &&& 2 != 0) && (x &&& 1 != 0)) = decide (x &&& 3 = 3) :=
  forall_uint8 _ (by decide)

set_option maxRecDepth 8000 in
theorem qosbit_iff : ∀ x : UInt8, (((x >>> 4) &&& 8) != 0) = decide (x &&& 0x80 ≠ 0) :=
  forall_uint8 _ (by decide)

set_option maxRecDepth 8000 in
theorem qos_parse_iff : ∀ x : UInt8, ((x >>> 4) < (4 : UInt8) ∨ (8 : UInt8) ≤ (x >>> 4)) →
    decide ((x >>> 4) > (4 : UInt8)) = decide (x &&& 0x80 ≠ 0) :=
  forall_uint8 _ (by decide)

set_option maxRecDepth 8000 in
theorem aad_fc0 : ∀ x : UInt8,
    (x &&& (3 : UInt8)) ||| (((x >>> 2) &&& (3 : UInt8)) <<< 2) ||| (((x >>> 4) <<< 4) &&& (0x80 : UInt8)) = x &&& 0x8f :=
  forall_uint8 _ (by decide)

set_option maxRecDepth 8000 in
theorem aad_fc1 : ∀ x : UInt8,
    (0x40 : UInt8) ||| boolByte (x &&& 1 != 0) ||| (boolByte (x &&& 2 != 0) <<< 1) ||| (((x >>> 2) &&& (1 : UInt8)) <<< 2) |||
      (((x >>> 7) &&& (1 : UInt8)) <<< 7) = (x &&& 0xc7) ||| 0x40 :=
  forall_uint8 _ (by decide)

set_option maxRecDepth 8000 in
theorem order_mask : ∀ x : UInt8, ((x >>> 7) &&& (1 : UInt8)) = 0 → (x &&& 0x47) ||| 0x40 = (x &&& 0xc7) ||| 0x40 :=
  forall_uint8 _ (by decide)

theorem aadFc0_eq (h : Hdr) : aadFc0 h = h.fc0 &&& 0x8f := aad_fc0 h.fc0
theorem aadFc1_eq (h : Hdr) : aadFc1 h = (h.fc1 &&& 0xc7) ||| 0x40 := aad_fc1 h.fc1

set_option maxRecDepth 8000 in
theorem tid_low : ∀ q : UInt8, (q.toNat % 16).toUInt8 = q &&& 0x0f :=
  forall_uint8 _ (by decide)

theorem tid_eq (q0 q1 : UInt8) : ((q0.toNat + 256 * q1.toNat) % 16).toUInt8 = q0 &&& 0x0f := by
  have : (q0.toNat + 256 * q1.toNat) % 16 = q0.toNat % 16 := by omega
  rw [this, tid_low]

/-- the priority byte of the nonce, from the header bytes -/
def specPrio (hb : Bytes) : UInt8 := if Spec.hasQos hb then hb.getD (Spec.qosOffset hb) 0 &&& 0x0f else 0

/-- **AAD and nonce.** For every well-formed data-frame header (to/from-DS, 4-address, QoS or not) the 32-byte
    AAD array and the priority byte built by `ccmp_decrypt_unicast` are the encoded AAD (length prefix, zero
    padding) and the nonce priority of IEEE 802.11 computed from the header bytes. -/
theorem ccmpAad_spec (h : Hdr) (wf : h.WF) (hsub : h.subtype < 4 ∨ 8 ≤ h.subtype) (hh : h.htc = false) :
    ccmpAad h = .ok (padZero 32 (Spec.be16 (Spec.ccmpAad h.bytes).length ++ Spec.ccmpAad h.bytes), specPrio h.bytes) ∧
    (∀ pn, Spec.ccmpNonce h.bytes pn = [specPrio h.bytes] ++ h.addr2 ++ Spec.pnBytes pn) ∧
    (22 ≤ (Spec.ccmpAad h.bytes).length ∧ (Spec.ccmpAad h.bytes).length ≤ 30) := by
  obtain ⟨fc0, fc1, d0, d1, a1, a2, a3, sc0, sc1, a4, qos⟩ := h
  obtain ⟨x0, x1, x2, x3, x4, x5, rfl⟩ := len6 a1 wf.a1
  obtain ⟨y0, y1, y2, y3, y4, y5, rfl⟩ := len6 a2 wf.a2
  obtain ⟨z0, z1, z2, z3, z4, z5, rfl⟩ := len6 a3 wf.a3
  obtain ⟨w0, w1, w2, w3, w4, w5, rfl⟩ := len6 a4 wf.a4
  have hsub' : fc0 >>> 4 < (4 : UInt8) ∨ (8 : UInt8) ≤ fc0 >>> 4 := hsub
  have hq : qos.isSome = decide (fc0 >>> 4 > (4 : UInt8)) := wf.qos
  rw [qos_parse_iff fc0 hsub'] at hq
  clear wf hsub
  have hb := both_iff fc1
  have hqb := qosbit_iff fc0
  have hm : qos.isSome = true → (fc1 &&& 0x47) ||| 0x40 = (fc1 &&& 0xc7) ||| 0x40 := by
    intro hs
    apply order_mask
    simpa [Hdr.htc, Hdr.order, hs] using hh
  clear hh
  by_cases hboth : fc1 &&& 3 = 3 <;> by_cases hqos : fc0 &&& 0x80 ≠ 0
  · -- 4-address, QoS
    have hq' : qos.isSome = true := by rw [hq]; simp [hqos]
    have hm' := hm hq'
    obtain ⟨⟨q0, q1⟩, rfl⟩ := Option.isSome_iff_exists.mp hq'
    have hb' : (fc1 &&& 2 != 0 && fc1 &&& 1 != 0) = true := by rw [hb]; simp [hboth]
    have hqb' : (fc0 >>> 4 &&& 8 != 0) = true := by rw [hqb]; simp [hqos]
    constructor
    · simp [ccmpAad, aadFc0_eq, aadFc1_eq, qosTid, Hdr.fromDS, Hdr.toDS, Hdr.subtype, Hdr.fragNum,
        Hdr.qosControl, Hdr.bytes, hb', hqb', Spec.ccmpAad, Spec.fc1Mask, Spec.hasA4, Spec.hasQos, Spec.qosOffset, hboth, hqos,
        specPrio, padZero, Spec.be16, boolByte, tid_eq, hm']
    refine ⟨?_, ?_⟩
    · intro pn
      simp [Hdr.fromDS, Hdr.toDS, Hdr.bytes, hb', Spec.ccmpNonce, Spec.hasA4, Spec.hasQos, Spec.qosOffset, hboth, hqos,
        specPrio]
    · simp [Hdr.fromDS, Hdr.toDS, Hdr.bytes, hb', Spec.ccmpAad, Spec.fc1Mask, Spec.hasA4, Spec.hasQos, Spec.qosOffset, hboth, hqos]
  · -- 4-address, no QoS
    have hq' : qos = none := by
      cases qos with
      | none => rfl
      | some q => simp [hqos] at hq
    subst hq'
    have hb' : (fc1 &&& 2 != 0 && fc1 &&& 1 != 0) = true := by rw [hb]; simp [hboth]
    have hqb' : (fc0 >>> 4 &&& 8 != 0) = false := by rw [hqb]; simpa using hqos
    constructor
    · simp [ccmpAad, aadFc0_eq, aadFc1_eq, qosTid, Hdr.fromDS, Hdr.toDS, Hdr.subtype, Hdr.fragNum,
        Hdr.qosControl, Hdr.bytes, hb', hqb', Spec.ccmpAad, Spec.fc1Mask, Spec.hasA4, Spec.hasQos, Spec.qosOffset, hboth, hqos,
        specPrio, padZero, Spec.be16, boolByte, tid_eq]
    refine ⟨?_, ?_⟩
    · intro pn
      simp [Hdr.fromDS, Hdr.toDS, Hdr.bytes, hb', Spec.ccmpNonce, Spec.hasA4, Spec.hasQos, Spec.qosOffset, hboth, hqos,
        specPrio]
    · simp [Hdr.fromDS, Hdr.toDS, Hdr.bytes, hb', Spec.ccmpAad, Spec.fc1Mask, Spec.hasA4, Spec.hasQos, Spec.qosOffset, hboth, hqos]
  · -- 3-address, QoS
    have hq' : qos.isSome = true := by rw [hq]; simp [hqos]
    have hm' := hm hq'
    obtain ⟨⟨q0, q1⟩, rfl⟩ := Option.isSome_iff_exists.mp hq'
    have hb' : (fc1 &&& 2 != 0 && fc1 &&& 1 != 0) = false := by rw [hb]; simp [hboth]
    have hqb' : (fc0 >>> 4 &&& 8 != 0) = true := by rw [hqb]; simp [hqos]
    constructor
    · simp [ccmpAad, aadFc0_eq, aadFc1_eq, qosTid, Hdr.fromDS, Hdr.toDS, Hdr.subtype, Hdr.fragNum,
        Hdr.qosControl, Hdr.bytes, hb', hqb', Spec.ccmpAad, Spec.fc1Mask, Spec.hasA4, Spec.hasQos, Spec.qosOffset, hboth, hqos,
        specPrio, padZero, Spec.be16, boolByte, tid_eq, hm']
    refine ⟨?_, ?_⟩
    · intro pn
      simp [Hdr.fromDS, Hdr.toDS, Hdr.bytes, hb', Spec.ccmpNonce, Spec.hasA4, Spec.hasQos, Spec.qosOffset, hboth, hqos,
        specPrio]
    · simp [Hdr.fromDS, Hdr.toDS, Hdr.bytes, hb', Spec.ccmpAad, Spec.fc1Mask, Spec.hasA4, Spec.hasQos, Spec.qosOffset, hboth, hqos]
  · -- 3-address, no QoS
    have hq' : qos = none := by
      cases qos with
      | none => rfl
      | some q => simp [hqos] at hq
    subst hq'
    have hb' : (fc1 &&& 2 != 0 && fc1 &&& 1 != 0) = false := by rw [hb]; simp [hboth]
    have hqb' : (fc0 >>> 4 &&& 8 != 0) = false := by rw [hqb]; simpa using hqos
    constructor
    · simp [ccmpAad, aadFc0_eq, aadFc1_eq, qosTid, Hdr.fromDS, Hdr.toDS, Hdr.subtype, Hdr.fragNum,
        Hdr.qosControl, Hdr.bytes, hb', hqb', Spec.ccmpAad, Spec.fc1Mask, Spec.hasA4, Spec.hasQos, Spec.qosOffset, hboth, hqos,
        specPrio, padZero, Spec.be16, boolByte, tid_eq]
    refine ⟨?_, ?_⟩
    · intro pn
      simp [Hdr.fromDS, Hdr.toDS, Hdr.bytes, hb', Spec.ccmpNonce, Spec.hasA4, Spec.hasQos, Spec.qosOffset, hboth, hqos,
        specPrio]
    · simp [Hdr.fromDS, Hdr.toDS, Hdr.bytes, hb', Spec.ccmpAad, Spec.fc1Mask, Spec.hasA4, Spec.hasQos, Spec.qosOffset, hboth, hqos]

/-- **The parser inverts `Hdr.bytes`.** A protected data frame made of the bytes of a well-formed header and a
    non-empty body parses to exactly that header with the body as a `RawPDU`. -/
theorem parseFrame_bytes (ip : InnerParser) (h : Hdr) (wf : h.WF) (hw : h.wep = true) (body : Bytes) (hb : body ≠ []) :
    parseFrame ip (h.bytes ++ body) = .ok (.data ⟨h, .raw body⟩) := by
  obtain ⟨fc0, fc1, d0, d1, a1, a2, a3, sc0, sc1, a4, qos⟩ := h
  obtain ⟨x0, x1, x2, x3, x4, x5, rfl⟩ := len6 a1 wf.a1
  obtain ⟨y0, y1, y2, y3, y4, y5, rfl⟩ := len6 a2 wf.a2
  obtain ⟨z0, z1, z2, z3, z4, z5, rfl⟩ := len6 a3 wf.a3
  obtain ⟨w0, w1, w2, w3, w4, w5, rfl⟩ := len6 a4 wf.a4
  have hq : qos.isSome = decide (fc0 >>> 4 > (4 : UInt8)) := wf.qos
  have hty : (fc0 >>> 2) &&& 3 = 2 := wf.isData
  have ha4 := wf.a4zero
  have hw' : (fc1 &&& 0x40 != 0) = true := hw
  have hbe : body.isEmpty = false := by cases body <;> simp_all
  simp only [Hdr.fromDS, Hdr.toDS] at ha4
  by_cases hboth : ((fc1 &&& 2 != 0) && (fc1 &&& 1 != 0)) = true <;> by_cases hqos : fc0 >>> 4 > (4 : UInt8)
  · have hq' : qos.isSome = true := by rw [hq]; simp [hqos]
    obtain ⟨⟨q0, q1⟩, rfl⟩ := Option.isSome_iff_exists.mp hq'
    have hboth' : ((fc1 &&& 1 != 0) && (fc1 &&& 2 != 0)) = true := by rw [Bool.and_comm]; exact hboth
    simp [parseFrame, Hdr.bytes, Hdr.fromDS, Hdr.toDS, Hdr.wep, hboth, hboth', hqos, hty, hw', hbe]
    try (repeat (rw [if_neg (by omega)]))
  · have hq' : qos = none := by
      cases qos with
      | none => rfl
      | some q => simp [hqos] at hq
    subst hq'
    have hboth' : ((fc1 &&& 1 != 0) && (fc1 &&& 2 != 0)) = true := by rw [Bool.and_comm]; exact hboth
    simp [parseFrame, Hdr.bytes, Hdr.fromDS, Hdr.toDS, Hdr.wep, hboth, hboth', hqos, hty, hw', hbe]
    try (repeat (rw [if_neg (by omega)]))
  · have hq' : qos.isSome = true := by rw [hq]; simp [hqos]
    obtain ⟨⟨q0, q1⟩, rfl⟩ := Option.isSome_iff_exists.mp hq'
    have hbf : ((fc1 &&& 2 != 0) && (fc1 &&& 1 != 0)) = false := by simpa using hboth
    have hboth' : ((fc1 &&& 1 != 0) && (fc1 &&& 2 != 0)) = false := by rw [Bool.and_comm]; exact hbf
    have := ha4 hbf
    simp at this
    obtain ⟨rfl, rfl, rfl, rfl, rfl, rfl⟩ := this
    simp [parseFrame, Hdr.bytes, Hdr.fromDS, Hdr.toDS, Hdr.wep, hbf, hboth', hqos, hty, hw', hbe]
    try (repeat (rw [if_neg (by omega)]))
  · have hq' : qos = none := by
      cases qos with
      | none => rfl
      | some q => simp [hqos] at hq
    subst hq'
    have hbf : ((fc1 &&& 2 != 0) && (fc1 &&& 1 != 0)) = false := by simpa using hboth
    have hboth' : ((fc1 &&& 1 != 0) && (fc1 &&& 2 != 0)) = false := by rw [Bool.and_comm]; exact hbf
    have := ha4 hbf
    simp at this
    obtain ⟨rfl, rfl, rfl, rfl, rfl, rfl⟩ := this
    simp [parseFrame, Hdr.bytes, Hdr.fromDS, Hdr.toDS, Hdr.wep, hbf, hboth', hqos, hty, hw', hbe]
    try (repeat (rw [if_neg (by omega)]))

end Tins.Crypto
