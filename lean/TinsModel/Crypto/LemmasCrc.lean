import TinsModel.Crypto.Crc
/-
  C09 — `Utils::crc32` (nibble table, register kept complemented) computes the IEEE CRC-32:
  `crc32 d = crc32Spec d` for every byte string.
-/
namespace Tins.Crypto

abbrev W := BitVec 32

theorem and_xor_right (a b c : W) : (a ^^^ b) &&& c = (a &&& c) ^^^ (b &&& c) := by
  ext i hi; simp [Bool.and_xor_distrib_right]

theorem and_xor_left (a c d : W) : a &&& (c ^^^ d) = (a &&& c) ^^^ (a &&& d) := by
  ext i hi; simp [Bool.and_xor_distrib_left]

theorem and_one_cases (c : W) : c &&& 1#32 = 0#32 ∨ c &&& 1#32 = 1#32 := by
  have h : (c &&& 1#32).toNat = c.toNat % 2 := by
    rw [BitVec.toNat_and]; simp [Nat.and_one_is_mod]
  rcases Nat.mod_two_eq_zero_or_one c.toNat with h0 | h1
  · left; apply BitVec.eq_of_toNat_eq; rw [h, h0]; rfl
  · right; apply BitVec.eq_of_toNat_eq; rw [h, h1]; rfl

theorem crcBit_of_even (c : W) (h : c &&& 1#32 = 0#32) : crcBit c = c >>> 1 := by
  simp [crcBit, h]

theorem crcBit_of_odd (c : W) (h : c &&& 1#32 = 1#32) : crcBit c = (c >>> 1) ^^^ crcPoly := by
  simp [crcBit, h]

/-- one CRC bit step is linear over GF(2) -/
theorem crcBit_xor (a b : W) : crcBit (a ^^^ b) = crcBit a ^^^ crcBit b := by
  have hx : (a ^^^ b) &&& 1#32 = (a &&& 1#32) ^^^ (b &&& 1#32) := and_xor_right ..
  have hs : (a ^^^ b) >>> 1 = (a >>> 1) ^^^ (b >>> 1) := BitVec.ushiftRight_xor_distrib ..
  rcases and_one_cases a with ha | ha <;> rcases and_one_cases b with hb | hb
  · have : (a ^^^ b) &&& 1#32 = 0#32 := by rw [hx, ha, hb]; rfl
    rw [crcBit_of_even _ this, crcBit_of_even _ ha, crcBit_of_even _ hb, hs]
  · have : (a ^^^ b) &&& 1#32 = 1#32 := by rw [hx, ha, hb]; rfl
    rw [crcBit_of_odd _ this, crcBit_of_even _ ha, crcBit_of_odd _ hb, hs, BitVec.xor_assoc]
  · have : (a ^^^ b) &&& 1#32 = 1#32 := by rw [hx, ha, hb]; rfl
    rw [crcBit_of_odd _ this, crcBit_of_odd _ ha, crcBit_of_even _ hb, hs]
    ac_rfl
  · have : (a ^^^ b) &&& 1#32 = 0#32 := by rw [hx, ha, hb]; rfl
    rw [crcBit_of_even _ this, crcBit_of_odd _ ha, crcBit_of_odd _ hb, hs]
    have : ∀ x y p : W, (x ^^^ p) ^^^ (y ^^^ p) = x ^^^ y := by
      intro x y p
      calc (x ^^^ p) ^^^ (y ^^^ p) = (x ^^^ y) ^^^ (p ^^^ p) := by ac_rfl
        _ = x ^^^ y := by rw [BitVec.xor_self, BitVec.xor_zero]
    rw [this]

theorem crcBit4_xor (a b : W) : crcBit4 (a ^^^ b) = crcBit4 a ^^^ crcBit4 b := by
  simp only [crcBit4, crcBit_xor]

/-! the low nibble of a register with four trailing zero bits is shifted out unchanged -/

theorem and_one_eq_zero_of_even (a : W) (h : a.toNat % 2 = 0) : a &&& 1#32 = 0#32 := by
  apply BitVec.eq_of_toNat_eq
  rw [BitVec.toNat_and]
  simp [Nat.and_one_is_mod, h]

theorem crcBit_of_toNat_even (a : W) (h : a.toNat % 2 = 0) : crcBit a = a >>> 1 :=
  crcBit_of_even a (and_one_eq_zero_of_even a h)

theorem toNat_shr1 (a : W) : (a >>> 1).toNat = a.toNat / 2 := by
  rw [BitVec.toNat_ushiftRight, Nat.shiftRight_eq_div_pow]

theorem crcBit4_of_low_zero (a : W) (h : a.toNat % 16 = 0) : crcBit4 a = a >>> 4 := by
  have h1 : a.toNat % 2 = 0 := by omega
  have h2 : (a >>> 1).toNat % 2 = 0 := by rw [toNat_shr1]; omega
  have h3 : ((a >>> 1) >>> 1).toNat % 2 = 0 := by rw [toNat_shr1, toNat_shr1]; omega
  have h4 : (((a >>> 1) >>> 1) >>> 1).toNat % 2 = 0 := by rw [toNat_shr1, toNat_shr1, toNat_shr1]; omega
  unfold crcBit4
  rw [crcBit_of_toNat_even a h1, crcBit_of_toNat_even _ h2, crcBit_of_toNat_even _ h3, crcBit_of_toNat_even _ h4]
  simp

def maskHi : W := 0xFFFFFFF0#32
def maskLo : W := 0x0000000F#32
def ones : W := BitVec.allOnes 32

theorem split_nibble (s : W) : (s &&& maskHi) ^^^ (s &&& maskLo) = s := by
  rw [← and_xor_left]
  have : maskHi ^^^ maskLo = BitVec.allOnes 32 := by decide
  rw [this, BitVec.and_allOnes]

theorem and_maskHi_toNat (s : W) : (s &&& maskHi).toNat % 16 = 0 := by
  have : (s &&& maskHi) &&& maskLo = 0#32 := by
    rw [BitVec.and_assoc]
    have : maskHi &&& maskLo = 0#32 := by decide
    rw [this, BitVec.and_zero]
  have h2 : ((s &&& maskHi) &&& maskLo).toNat = (s &&& maskHi).toNat % 16 := by
    rw [BitVec.toNat_and (s &&& maskHi) maskLo]
    exact Nat.and_two_pow_sub_one_eq_mod _ 4
  rw [← h2, this]; rfl

theorem shr4_and_maskHi (s : W) : (s &&& maskHi) >>> 4 = s >>> 4 := by
  apply BitVec.eq_of_toNat_eq
  rw [BitVec.ushiftRight_and_distrib, BitVec.toNat_and]
  have : (maskHi >>> 4).toNat = 2 ^ 28 - 1 := by decide
  rw [this, Nat.and_two_pow_sub_one_eq_mod]
  have : (s >>> 4).toNat < 2 ^ 28 := by
    rw [BitVec.toNat_ushiftRight, Nat.shiftRight_eq_div_pow]
    have := s.isLt
    omega
  exact Nat.mod_eq_of_lt this

/-- `crc_table`, entry by entry: the table of the complemented register -/
theorem crcTable_spec : ∀ n, n < 16 →
    Gen.crcTable.getD ((BitVec.ofNat 32 n ^^^ maskLo).toNat) 0#32 = crcBit4 (BitVec.ofNat 32 n) ^^^ 0xF0000000#32 := by
  decide

theorem and_maskLo_lt (y : W) : (y &&& maskLo).toNat < 16 := by
  rw [BitVec.toNat_and]
  have : maskLo.toNat = 2 ^ 4 - 1 := by decide
  rw [this, Nat.and_two_pow_sub_one_eq_mod]
  exact Nat.mod_lt _ (by decide)

/-- one nibble step of `Utils::crc32` on the complemented register = four bit steps of the CRC -/
theorem nibble_step (s x : W) :
    ((s ^^^ ones) >>> 4) ^^^ crcTab ((s ^^^ ones) ^^^ x) = crcBit4 (s ^^^ (x &&& maskLo)) ^^^ ones := by
  -- the table index
  let k : W := (s ^^^ x) &&& maskLo
  have hk : ((s ^^^ ones) ^^^ x) &&& maskLo = k ^^^ maskLo := by
    have : (s ^^^ ones) ^^^ x = (s ^^^ x) ^^^ ones := by ac_rfl
    rw [this, and_xor_right]
    have : ones &&& maskLo = maskLo := by decide
    rw [this]
  have hklt : k.toNat < 16 := and_maskLo_lt _
  have htab : crcTab ((s ^^^ ones) ^^^ x) = crcBit4 k ^^^ 0xF0000000#32 := by
    unfold crcTab
    have : (0x0F#32 : W) = maskLo := rfl
    rw [this, hk]
    have := crcTable_spec k.toNat hklt
    rw [BitVec.ofNat_toNat, BitVec.setWidth_eq] at this
    exact this
  -- the spec side
  have hsx : s ^^^ (x &&& maskLo) = (s &&& maskHi) ^^^ k := by
    show _ = (s &&& maskHi) ^^^ ((s ^^^ x) &&& maskLo)
    rw [and_xor_right]
    conv => lhs; rw [← split_nibble s]
    ac_rfl
  rw [hsx, crcBit4_xor, crcBit4_of_low_zero _ (and_maskHi_toNat s), shr4_and_maskHi, htab,
    BitVec.ushiftRight_xor_distrib]
  have : ones >>> 4 = 0x0FFFFFFF#32 := by decide
  rw [this]
  have h2 : (0x0FFFFFFF#32 : W) ^^^ 0xF0000000#32 = ones := by decide
  calc (s >>> 4 ^^^ 0x0FFFFFFF#32) ^^^ (crcBit4 k ^^^ 0xF0000000#32)
      = (s >>> 4 ^^^ crcBit4 k) ^^^ ((0x0FFFFFFF#32 : W) ^^^ 0xF0000000#32) := by ac_rfl
    _ = _ := by rw [h2]

set_option maxRecDepth 8000 in
/-- the high nibble of a byte, as the second nibble step sees it -/
theorem byte_hi_nibble : ∀ n, n < 256 →
    (byte32 (UInt8.ofNat n) &&& maskHi) >>> 4 = byte32 (UInt8.ofNat n >>> 4) &&& maskLo := by
  decide

theorem byte_hi (b : UInt8) : (byte32 b &&& maskHi) >>> 4 = byte32 (b >>> 4) &&& maskLo := by
  have := byte_hi_nibble b.toNat b.toNat_lt
  rwa [UInt8.ofNat_toNat] at this

/-- one byte of `Utils::crc32` on the complemented register = eight bit steps of the CRC -/
theorem crcStep_compl (s : W) (b : UInt8) : crcStep (s ^^^ ones) b = crcByteSpec s b ^^^ ones := by
  unfold crcStep crcByteSpec
  simp only []
  rw [nibble_step s (byte32 b), nibble_step]
  congr 1
  -- crcBit4 (s ^ B) = crcBit4 (s ^ lo B) ^ hi B
  have hB : s ^^^ byte32 b = (s ^^^ (byte32 b &&& maskLo)) ^^^ (byte32 b &&& maskHi) := by
    conv => lhs; rw [← split_nibble (byte32 b)]
    ac_rfl
  rw [hB, crcBit4_xor (s ^^^ (byte32 b &&& maskLo)), crcBit4_of_low_zero _ (and_maskHi_toNat (byte32 b)), byte_hi]

theorem foldl_crcStep_compl (d : Bytes) (s : W) :
    d.foldl crcStep (s ^^^ ones) = d.foldl crcByteSpec s ^^^ ones := by
  induction d generalizing s with
  | nil => rfl
  | cons b d ih => simp only [List.foldl_cons, crcStep_compl, ih]

/-- **`Utils::crc32` is the IEEE 802.3 CRC-32**, for every input -/
theorem crc32_eq_spec (d : Bytes) : crc32 d = crc32Spec d := by
  unfold crc32 crc32Spec
  have h0 : (0#32 : W) = BitVec.allOnes 32 ^^^ ones := by decide
  rw [h0, foldl_crcStep_compl]
  generalize d.foldl crcByteSpec (BitVec.allOnes 32) = r
  unfold ones
  exact BitVec.xor_allOnes

end Tins.Crypto
