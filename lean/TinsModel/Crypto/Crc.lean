import TinsModel.Crypto.Basic
import TinsModel.Gen.C09Tables
/-
  C09 — `Utils::crc32` (src/utils/checksum_utils.cpp), code-shaped: 16-entry table, two nibble steps
  per byte, register starts at 0 and is returned as is.  The table is regenerated from the source.
  The 32-bit register is a `BitVec 32`.  (Own copy for the crypto area; C05 has its own.)
-/
namespace Tins.Crypto

/-- a byte widened to the 32-bit register (`crc ^ data[i]`) -/
def byte32 (b : UInt8) : BitVec 32 := BitVec.ofNat 32 b.toNat

/-- `crc_table[k & 0x0F]` -/
def crcTab (k : BitVec 32) : BitVec 32 := Gen.crcTable.getD (k &&& 0x0F#32).toNat 0#32

/-- the loop body of `Utils::crc32` for one byte -/
def crcStep (crc : BitVec 32) (b : UInt8) : BitVec 32 :=
  let crc := (crc >>> 4) ^^^ crcTab (crc ^^^ byte32 b)
  (crc >>> 4) ^^^ crcTab (crc ^^^ byte32 (b >>> 4))

/-- `Utils::crc32(data, size)` -/
def crc32 (data : Bytes) : BitVec 32 := data.foldl crcStep 0#32

/-- the four bytes of a 32-bit word, least significant first (how the ICV is laid out in the frame) -/
def le32 (w : BitVec 32) : Bytes :=
  [(w.toNat % 256).toUInt8, (w.toNat / 256 % 256).toUInt8, (w.toNat / 65536 % 256).toUInt8, (w.toNat / 16777216 % 256).toUInt8]

@[simp] theorem le32_length (w : BitVec 32) : (le32 w).length = 4 := rfl

/-! ### Specification: CRC-32 of IEEE 802.3 / 802.11 (reflected polynomial 0xEDB88320, register preset to
    all ones, result complemented), bit by bit. -/

def crcPoly : BitVec 32 := 0xEDB88320#32

def crcBit (c : BitVec 32) : BitVec 32 :=
  if c &&& 1#32 = 1#32 then (c >>> 1) ^^^ crcPoly else c >>> 1

def crcBit4 (c : BitVec 32) : BitVec 32 := crcBit (crcBit (crcBit (crcBit c)))

def crcByteSpec (c : BitVec 32) (b : UInt8) : BitVec 32 := crcBit4 (crcBit4 (c ^^^ byte32 b))

def crc32Spec (data : Bytes) : BitVec 32 := ~~~ (data.foldl crcByteSpec (BitVec.allOnes 32))

end Tins.Crypto
