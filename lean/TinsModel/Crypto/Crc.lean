import TinsModel.Crypto.Basic
import TinsModel.Gen.C09Tables
/-
  C09 — `Utils::crc32` (src/utils/checksum_utils.cpp), code-shaped: 16-entry table, two nibble steps
  per byte, register starts at 0 and is returned as is.  The table is regenerated from the source.
  (Own copy for the crypto area; C05 has its own.)
-/
namespace Tins.Crypto

/-- `crc_table[k & 0x0F]` -/
def crcTab (k : UInt32) : UInt32 := Gen.crcTable.getD (k &&& 0x0F).toNat 0

/-- the loop body of `Utils::crc32` for one byte -/
def crcStep (crc : UInt32) (b : UInt8) : UInt32 :=
  let crc := (crc >>> 4) ^^^ crcTab (crc ^^^ b.toUInt32)
  (crc >>> 4) ^^^ crcTab (crc ^^^ (b >>> 4).toUInt32)

/-- `Utils::crc32(data, size)` -/
def crc32 (data : Bytes) : UInt32 := data.foldl crcStep 0

/-! ### Specification: CRC-32 of IEEE 802.3 / 802.11 (reflected polynomial 0xEDB88320, register preset to
    all ones, result complemented), bit by bit. -/

def crcBit (c : UInt32) : UInt32 :=
  if c &&& 1 = 1 then (c >>> 1) ^^^ 0xEDB88320 else c >>> 1

def crcByteSpec (c : UInt32) (b : UInt8) : UInt32 :=
  crcBit (crcBit (crcBit (crcBit (crcBit (crcBit (crcBit (crcBit (c ^^^ b.toUInt32))))))))

def crc32Spec (data : Bytes) : UInt32 := ~~~ (data.foldl crcByteSpec 0xFFFFFFFF)

end Tins.Crypto
