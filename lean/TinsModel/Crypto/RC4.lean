import TinsModel.Crypto.Basic
/-
  C09 — RC4 as written in src/crypto.cpp: `RC4Key(start, end)` (key schedule with a wrapping key
  iterator) and `rc4(start, end, key, output)` (the stream XORed onto the data).
-/
namespace Tins.Crypto

/-- `RC4Key::data` — 256 bytes -/
abbrev RC4State := Array UInt8

def rc4Init : RC4State := (Array.range 256).map (fun i => i.toUInt8)

structure KsaSt where
  S : RC4State
  j : Nat
  /-- position of the key iterator `iter - start` -/
  pos : Nat

/-- one iteration of the second loop of `RC4Key::RC4Key`:
    `j = (j + data[i] + *iter++) % 256; if (iter == end) iter = start; swap(data[i], data[j]);` -/
def ksaStep (key : Bytes) (st : KsaSt) (i : Nat) : KsaSt :=
  let j := (st.j + (st.S.getD i 0).toNat + (key.getD st.pos 0).toNat) % 256
  let pos := st.pos + 1
  let pos := if pos = key.length then 0 else pos
  ⟨st.S.swapIfInBounds i j, j, pos⟩

/-- `RC4Key(key.begin(), key.end())` (the key must not be empty: the C++ dereferences `start` first) -/
def rc4Key (key : Bytes) : RC4State :=
  ((List.range 256).foldl (ksaStep key) ⟨rc4Init, 0, 0⟩).S

/-- `rc4(start, end, key, output)`: returns the bytes written through `output`; `i`, `j` are the two
    stream indices, `S` is `key.data` (mutated as the stream advances). -/
def rc4Xor : RC4State → Nat → Nat → Bytes → Bytes
  | _, _, _, [] => []
  | S, i, j, x :: xs =>
    let i := (i + 1) % 256
    let j := (j + (S.getD i 0).toNat) % 256
    let S := S.swapIfInBounds i j
    (x ^^^ S.getD (((S.getD i 0).toNat + (S.getD j 0).toNat) % 256) 0) :: rc4Xor S i j xs

/-- `rc4(data.begin(), data.end(), key, out)` with a fresh key -/
def rc4 (key : Bytes) (data : Bytes) : Bytes := rc4Xor (rc4Key key) 0 0 data

@[simp] theorem rc4Xor_length (S : RC4State) (i j : Nat) (d : Bytes) : (rc4Xor S i j d).length = d.length := by
  induction d generalizing S i j with
  | nil => rfl
  | cons x xs ih => simp [rc4Xor, ih]

/-- the stream does not depend on the data, hence applying it twice gives the data back -/
theorem rc4Xor_involutive (S : RC4State) (i j : Nat) (d : Bytes) : rc4Xor S i j (rc4Xor S i j d) = d := by
  induction d generalizing S i j with
  | nil => rfl
  | cons x xs ih =>
    simp only [rc4Xor, ih]
    congr 1
    rw [UInt8.xor_assoc, UInt8.xor_self, UInt8.xor_zero]

@[simp] theorem rc4_length (key d : Bytes) : (rc4 key d).length = d.length := by simp [rc4]

theorem rc4_involutive (key d : Bytes) : rc4 key (rc4 key d) = d := rc4Xor_involutive _ _ _ _

theorem rc4Xor_append (S : RC4State) (i j : Nat) (a b : Bytes) :
    (rc4Xor S i j (a ++ b)).take a.length = rc4Xor S i j a := by
  induction a generalizing S i j with
  | nil => simp [rc4Xor]
  | cons x xs ih => simp [rc4Xor, ih]

end Tins.Crypto
