import TinsModel.Crypto.LemmasCcm
import TinsModel.Crypto.LemmasHdr
/-
  C09 — `ccmp_decrypt_unicast` refines the specification's CCMP decapsulation, for every block function.
-/
set_option linter.unusedSimpArgs false
namespace Tins.Crypto

theorem toUInt8_toNat (x : UInt8) : x.toNat.toUInt8 = x := by simp

theorem tscByte_pn (b0 b1 b2 b3 b4 b5 : UInt8) (k : Nat) (hk : k < 6) :
    Spec.tscByte (b0.toNat + 256 * (b1.toNat + 256 * (b2.toNat + 256 * (b3.toNat + 256 * (b4.toNat + 256 * b5.toNat))))) k
      = [b0, b1, b2, b3, b4, b5].getD k 0 := by
  have h0 := b0.toNat_lt; have h1 := b1.toNat_lt; have h2 := b2.toNat_lt
  have h3 := b3.toNat_lt; have h4 := b4.toNat_lt; have h5 := b5.toNat_lt
  unfold Spec.tscByte
  generalize hN : b0.toNat + 256 * (b1.toNat + 256 * (b2.toNat + 256 * (b3.toNat + 256 * (b4.toNat + 256 * b5.toNat)))) = N
  have : k = 0 ∨ k = 1 ∨ k = 2 ∨ k = 3 ∨ k = 4 ∨ k = 5 := by omega
  rcases this with rfl | rfl | rfl | rfl | rfl | rfl
  · have : N / 256 ^ 0 % 256 = b0.toNat := by simp only [Nat.reducePow]; omega
    rw [this]; simp
  · have : N / 256 ^ 1 % 256 = b1.toNat := by simp only [Nat.reducePow]; omega
    rw [this]; simp
  · have : N / 256 ^ 2 % 256 = b2.toNat := by simp only [Nat.reducePow]; omega
    rw [this]; simp
  · have : N / 256 ^ 3 % 256 = b3.toNat := by simp only [Nat.reducePow]; omega
    rw [this]; simp
  · have : N / 256 ^ 4 % 256 = b4.toNat := by simp only [Nat.reducePow]; omega
    rw [this]; simp
  · have : N / 256 ^ 5 % 256 = b5.toNat := by simp only [Nat.reducePow]; omega
    rw [this]; simp

theorem getD_eq_getElem (l : Bytes) (i : Nat) (h : i < l.length) : l.getD i 0 = l[i] := by
  simp [List.getD, List.getElem?_eq_getElem h]

theorem pnBytes_pnOf (pload : Bytes) (h : 8 ≤ pload.length) :
    Spec.pnBytes (Spec.ccmpPnOf pload) = [pload[7], pload[6], pload[5], pload[4], pload[1], pload[0]] := by
  unfold Spec.pnBytes Spec.ccmpPnOf
  simp only [List.map_cons, List.map_nil]
  rw [tscByte_pn _ _ _ _ _ _ 5 (by omega), tscByte_pn _ _ _ _ _ _ 4 (by omega), tscByte_pn _ _ _ _ _ _ 3 (by omega),
      tscByte_pn _ _ _ _ _ _ 2 (by omega), tscByte_pn _ _ _ _ _ _ 1 (by omega), tscByte_pn _ _ _ _ _ _ 0 (by omega)]
  simp [getD_eq_getElem, h, show 7 < pload.length by omega, show 6 < pload.length by omega,
    show 5 < pload.length by omega, show 4 < pload.length by omega, show 1 < pload.length by omega,
    show 0 < pload.length by omega]

theorem padZero_length (n : Nat) (b : Bytes) (h : b.length ≤ n) : (padZero n b).length = n := by
  simp [padZero]; omega

/-- **Refinement.** For every block function with 16-byte output, every well-formed data-frame header and every
    protected body longer than 16 bytes, `ccmp_decrypt_unicast` returns the LLC/SNAP parse of the specification's
    CCMP decapsulation over the header bytes (null when the MIC does not verify). -/
theorem ccmpDecrypt_refines (ip : InnerParser) (E : BlockFn) (hE : ∀ b, (E b).length = 16) (h : Hdr) (wf : h.WF)
    (hsub : h.subtype < 4 ∨ 8 ≤ h.subtype) (hh : h.htc = false) (pload : Bytes) (hn : 16 < pload.length) :
    ∃ p', ccmpDecrypt ip E h pload = .ok (snapResult ip (Spec.ccmpDecap E h.bytes pload), p') := by
  have hmin : Gen.ccmpMin = 16 := rfl
  obtain ⟨haad, hnonce, hal1, hal2⟩ := ccmpAad_spec h wf hsub hh
  unfold ccmpDecrypt
  simp only [hmin, if_neg (show ¬ pload.length ≤ 16 by omega), haad,
    rd_ok_of_lt _ pload 7 (by omega), rd_ok_of_lt _ pload 6 (by omega), rd_ok_of_lt _ pload 5 (by omega),
    rd_ok_of_lt _ pload 4 (by omega), rd_ok_of_lt _ pload 1 (by omega), rd_ok_of_lt _ pload 0 (by omega),
    rdRange_ok_of_le _ pload (pload.length - 8) 8 (by omega), Out.bind_ok, Out.pure_eq, bind_pure_comp, pure_bind]
  -- the nonce
  have hN : [specPrio h.bytes] ++ h.addr2 ++ [pload[7], pload[6], pload[5], pload[4], pload[1], pload[0]]
      = Spec.ccmpNonce h.bytes (Spec.ccmpPnOf pload) := by
    rw [hnonce, pnBytes_pnOf pload (by omega)]
  rw [hN]
  generalize hNd : Spec.ccmpNonce h.bytes (Spec.ccmpPnOf pload) = N
  have hNlen : N.length = 13 := by
    rw [← hNd, hnonce]; simp [wf.a2, Spec.pnBytes]
  -- the encoded AAD
  generalize hA : Spec.be16 (Spec.ccmpAad h.bytes).length ++ Spec.ccmpAad h.bytes = a
  have hal : 16 < a.length ∧ a.length ≤ 32 := by
    rw [← hA]; simp [Spec.be16]; omega
  -- the loop
  generalize htot : pload.length - 16 = total
  have hloop := ccmLoop_eq E ([1] ++ N) pload total ((total + 15) / 16) rfl (by omega)
    ((total + 15) / 16) 1
    (E (xorInto (E (xorInto (E ([89] ++ N ++ [(total / 256 % 256).toUInt8, (total % 256).toUInt8]))
      ((padZero 32 a).take 16))) (((padZero 32 a).drop 16).take 16))) [] (by omega) (by omega)
  have h8 : 8 + 16 * (1 - 1) = 8 := rfl
  rw [h8] at hloop
  simp only [Nat.sub_self, Nat.mul_zero, List.drop_zero, List.nil_append] at hloop
  rw [hloop]
  simp only [Out.bind_ok]
  generalize hc : (pload.drop 8).take total = c
  have hclen : c.length = total := by rw [← hc]; simp; omega
  have hfuel : c.length ≤ 16 * ((total + 15) / 16) := by omega
  rw [ccmPure_mic E hE _ _ _ _ _ (hE _), ccmPure_out E N]
  generalize hm : Spec.ctrXor E N ((total + 15) / 16) 1 c = m
  have hmlen : m.length = total := by rw [← hm, ctrXor_length E hE N _ _ _ hfuel, hclen]
  -- the specification side
  unfold Spec.ccmpDecap
  rw [if_neg (show ¬ pload.length < 16 by omega)]
  simp only [hNd, htot, hc]
  rw [ctrXor_fuel E N c.length ((total + 15) / 16) 1 c (by omega) hfuel, hm]
  generalize hmic : (Spec.blocks16 ((total + 15) / 16) m).foldl (fun x b => E (xorBytes x b))
    (E (xorInto (E (xorInto (E ([89] ++ N ++ [(total / 256 % 256).toUInt8, (total % 256).toUInt8]))
      ((padZero 32 a).take 16))) (((padZero 32 a).drop 16).take 16))) = mic
  have htag : Spec.ccmTag E N (Spec.ccmpAad h.bytes) m = mic.take 8 := by
    unfold Spec.ccmTag Spec.cbcMac
    dsimp only
    rw [hA, blocks16_two a hal.1 hal.2, blocks16_fuel m.length ((total + 15) / 16) m (by omega) (by omega)]
    simp only [List.foldl_cons, List.cons_append, List.nil_append]
    have hb0 : (89 :: (N ++ Spec.be16 m.length) : Bytes).length = 16 := by simp [hNlen, Spec.be16]
    have hz : xorBytes (List.replicate 16 0) (89 :: (N ++ Spec.be16 m.length)) = 89 :: (N ++ Spec.be16 m.length) := by
      have := zeros_xor (89 :: (N ++ Spec.be16 m.length))
      rwa [hb0] at this
    rw [hz]
    have hx1 : ∀ x : Bytes, x.length = 16 → xorInto x ((padZero 32 a).take 16) = xorBytes x ((padZero 32 a).take 16) := by
      intro x hx; apply xorInto_full; simp [padZero_length 32 a hal.2, hx]
    have hx2 : ∀ x : Bytes, x.length = 16 →
        xorInto x (((padZero 32 a).drop 16).take 16) = xorBytes x (((padZero 32 a).drop 16).take 16) := by
      intro x hx; apply xorInto_full; simp [padZero_length 32 a hal.2, hx]
    rw [hx1 _ (hE _), hx2 _ (hE _)] at hmic
    simp only [List.cons_append, List.nil_append] at hmic
    have hbe : Spec.be16 m.length = [(total / 256 % 256).toUInt8, (total % 256).toUInt8] := by rw [hmlen]; rfl
    rw [hbe, hmic]
  simp only [htag]
  -- the tag comparison and the plain text
  have htk : (pload.drop (pload.length - 8)).take 8 = pload.drop (pload.length - 8) :=
    List.take_of_length_le (by simp; omega)
  have hpt : (m ++ pload.drop m.length).take total = m := by
    rw [List.take_append_of_le_length (by omega), List.take_of_length_le (by omega)]
  rw [htk, hpt]
  have hctr0 : E ([1] ++ N ++ [0, 0]) = Spec.ctrBlock E N 0 := rfl
  rw [hctr0]
  by_cases hv : xorBytes ((Spec.ctrBlock E N 0).take 8) (pload.drop (pload.length - 8)) = mic.take 8
  · simp only [hv, beq_self_eq_true, if_true]
    cases hs : snapParse ip m with
    | ok s => exact ⟨m ++ pload.drop m.length, by simp [snapResult, hs]⟩
    | throw e => exact ⟨m ++ pload.drop m.length, by simp [snapResult, hs]⟩
    | fault x y z => have := snapParse_not_fault ip m; simp [hs] at this
  · have : (xorBytes ((Spec.ctrBlock E N 0).take 8) (pload.drop (pload.length - 8)) == mic.take 8) = false := by
      simpa using hv
    simp only [this, if_neg hv, Bool.false_eq_true, if_false]
    exact ⟨m ++ pload.drop m.length, by simp [snapResult]⟩

theorem tscByte_toNat (n k : Nat) : (Spec.tscByte n k).toNat = n / 256 ^ k % 256 := by
  unfold Spec.tscByte
  simp

/-- the packet number is read back from the CCMP header -/
theorem ccmpPnOf_header (pn : Nat) (hpn : pn < 2 ^ 48) (kid : UInt8) (rest : Bytes) :
    Spec.ccmpPnOf (Spec.ccmpHeader pn kid ++ rest) = pn := by
  unfold Spec.ccmpPnOf Spec.ccmpHeader
  simp only [List.cons_append, List.nil_append, List.getD_cons_zero, List.getD_cons_succ, tscByte_toNat, Nat.reducePow]
  have : (2 : Nat) ^ 48 = 281474976710656 := by decide
  omega

/-- **CCMP round trip at the specification level**, for every block function with 16-byte output, every header,
    48-bit packet number, key-id byte and data. -/
theorem spec_ccmp_roundtrip (E : BlockFn) (hE : ∀ b, (E b).length = 16) (hb : Bytes) (pn : Nat) (hpn : pn < 2 ^ 48)
    (kid : UInt8) (m : Bytes) : Spec.ccmpDecap E hb (Spec.ccmpEncap E hb pn kid m) = some m := by
  unfold Spec.ccmpEncap
  dsimp only
  generalize hN : Spec.ccmpNonce hb pn = N
  generalize hC : Spec.ctrXor E N m.length 1 m = c
  have hclen : c.length = m.length := by rw [← hC, ctrXor_length E hE N _ _ _ (by omega)]
  generalize hT : xorBytes ((Spec.ctrBlock E N 0).take 8) (Spec.ccmTag E N (Spec.ccmpAad hb) m) = t
  have hs0 : ((Spec.ctrBlock E N 0).take 8).length = 8 := by simp [Spec.ctrBlock, hE]
  have htlen : t.length = 8 := by rw [← hT]; simp [hs0, ccmTag_length E hE]
  have hhdr : (Spec.ccmpHeader pn kid).length = 8 := rfl
  unfold Spec.ccmpDecap
  have hlen : (Spec.ccmpHeader pn kid ++ c ++ t).length = m.length + 16 := by simp [hhdr, hclen, htlen]; omega
  rw [if_neg (by omega)]
  have hpn' : Spec.ccmpPnOf (Spec.ccmpHeader pn kid ++ c ++ t) = pn := by
    rw [List.append_assoc]; exact ccmpPnOf_header pn hpn kid _
  have hcc : ((Spec.ccmpHeader pn kid ++ c ++ t).drop 8).take ((Spec.ccmpHeader pn kid ++ c ++ t).length - 16) = c := by
    rw [hlen, List.append_assoc, List.drop_append_of_le_length (by omega), List.drop_of_length_le (by omega),
      List.nil_append, List.take_append_of_le_length (by omega), List.take_of_length_le (by omega)]
  have htt : (Spec.ccmpHeader pn kid ++ c ++ t).drop ((Spec.ccmpHeader pn kid ++ c ++ t).length - 8) = t := by
    rw [hlen, List.drop_append_of_le_length (by simp [hhdr, hclen]; omega), List.drop_of_length_le (by simp [hhdr, hclen]; omega),
      List.nil_append]
  simp only [hpn', hN, hcc, htt]
  have hmm : Spec.ctrXor E N c.length 1 c = m := by
    rw [hclen, ← hC, ctrXor_involutive E hE N _ _ _ (by omega)]
  rw [hmm, ← hT, xorBytes_cancel_left _ _ (by simp [hs0, ccmTag_length E hE])]
  simp

end Tins.Crypto
