import TinsModel.Crypto.Wpa2
/-
  C09 — `RSNHandshakeCapturer` (src/handshake_capturer.cpp), `SessionKeys(handshake, pmk)` and the complete
  `WPA2Decrypter::decrypt` (src/crypto.cpp), code-shaped.  HMAC-SHA1 (PRF), the MIC function and PBKDF2 are
  parameters (`prf`, `micf`; the PMK arrives as a value).
-/
namespace Tins.Crypto

/-- `std::min` / `std::max` on `HWAddress` -/
def addrMin (a b : Addr) : Addr := if addrLt b a then b else a
def addrMax (a b : Addr) : Addr := if addrLt a b then b else a

/-- `handshakes_` : partial handshakes per (min, max) address pair -/
abbrev HsMap := List (AddrPair × List Eapol)

/-- a completed handshake: `EAPOLHandshake(client_address, supplicant_address, messages)` -/
structure Handshake where
  a1 : Addr
  a2 : Addr
  msgs : List Eapol
deriving DecidableEq, Repr

structure Capturer where
  hs : HsMap := []
  completed : List Handshake := []
deriving Repr

/-- `do_insert(key, eapol, expected)` -/
def doInsert (m : HsMap) (key : AddrPair) (e : Eapol) (expected : Nat) : HsMap × Bool :=
  match lookup m key with
  | some l =>
    if l.length != expected then
      -- skip repeated
      if l.length != expected + 1 then (insertKV m key [], false) else (m, false)
    else (insertKV m key (l ++ [e]), true)
  | none => (m, false)

/-- `RSNHandshakeCapturer::process_packet` for a frame with a `Dot11Data` header `h` and an `RSNEAPOL` `e` -/
def Capturer.process (c : Capturer) (h : Hdr) (e : Eapol) : Capturer × Bool :=
  let key : AddrPair := (addrMin h.srcAddr h.dstAddr, addrMax h.srcAddr h.dstAddr)
  -- 1st packet
  if e.keyT && e.keyAck && !e.keyMic && !e.install then
    ({ c with hs := insertKV c.hs key [e] }, false)
  -- 2nd and 4th packets
  else if e.keyT && !e.keyAck && e.keyMic && !e.install then
    -- 2nd packet won't have the secure bit set
    if !e.secure then ({ c with hs := (doInsert c.hs key e 1).1 }, false)
    -- Otherwise, this should be the 4th and last packet
    else
      let (m, ok) := doInsert c.hs key e 3
      if ok then
        ({ hs := eraseK m key, completed := c.completed ++ [⟨key.1, key.2, (lookup m key).getD []⟩] }, true)
      else ({ c with hs := m }, false)
  -- 3rd packet
  else if e.keyT && e.keyAck && e.keyMic && e.install then
    ({ c with hs := (doInsert c.hs key e 2).1 }, false)
  else (c, false)

/-- `std::lexicographical_compare` on byte strings -/
def lexLt : Bytes → Bytes → Bool
  | [], [] => false
  | [], _ :: _ => true
  | _ :: _, [] => false
  | a :: as, b :: bs => if a < b then true else if b < a then false else lexLt as bs

/-- "Pairwise key expansion" followed by the terminating NUL -/
def pkeLabel : Bytes :=
  [80, 97, 105, 114, 119, 105, 115, 101, 32, 107, 101, 121, 32, 101, 120, 112, 97, 110, 115, 105, 111, 110, 0]

/-- `SessionKeys::SessionKeys(const RSNHandshake& hs, const pmk_type& pmk)`; `none` = `invalid_handshake` thrown.
    `prf key data` is HMAC-SHA1, `micf isCcmp key data` is HMAC-SHA1 / HMAC-MD5. -/
def deriveKeys (prf : Bytes → Bytes → Bytes) (micf : Bool → Bytes → Bytes → Bytes) (hs : Handshake) (pmk : Bytes) :
    Option SessionKeys :=
  if pmk.length != 32 then none else
  match hs.msgs with
  | [_, m2, m3, m4] =>
    let isCcmp := m4.keyDescriptor == 2
    let lo := if addrLt hs.a1 hs.a2 then hs.a1 else hs.a2
    let hi := if addrLt hs.a1 hs.a2 then hs.a2 else hs.a1
    let n1 := m2.nonce
    let n2 := m3.nonce
    let pke := pkeLabel ++ lo ++ hi ++ (if lexLt n1 n2 then n1 ++ n2 else n2 ++ n1)
    let ptk := ((List.range 4).map fun i => (prf pmk (pke ++ [i.toUInt8])).take 20).flatten
    let buf := m4.serialize
    let buf := buf.take 81 ++ List.replicate 16 0 ++ buf.drop 97
    let mic := micf isCcmp (ptk.take 16) buf
    if mic.take 16 == m4.mic then some ⟨ptk, isCcmp⟩ else none
  | _ => none

/-- the decrypter: `pmks_` (ssid → pmk), `aps_` (bssid → (ssid, pmk)), `keys_`, `capturer_` -/
structure Wpa2State where
  pmks : List (Bytes × Bytes) := []
  aps : List (Addr × (Bytes × Bytes)) := []
  keys : KeyTable := []
  cap : Capturer := {}
deriving Repr

/-- `std::map::insert`: an existing entry is kept -/
def insertIfAbsent {κ α} [DecidableEq κ] (m : List (κ × α)) (k : κ) (v : α) : List (κ × α) :=
  match lookup m k with
  | some _ => m
  | none => (k, v) :: m

inductive Event where
  | apFound (ssid : Bytes) (bssid : Addr)
  | handshake (ssid : Bytes) (bssid client : Addr)
deriving DecidableEq, Repr

/-- `add_ap_data(psk, ssid)` with the PMK = PBKDF2(psk, ssid) as a value -/
def Wpa2State.addApData (st : Wpa2State) (ssid pmk : Bytes) : Wpa2State :=
  { st with pmks := insertIfAbsent st.pmks ssid pmk }

/-- `SupplicantData::SupplicantData(psk, ssid)`: `PKCS5_PBKDF2_HMAC_SHA1(psk, psk.size(), ssid, ssid.size(), 4096,
    pmk_.size() = 32, &pmk_[0])`; PBKDF2-HMAC-SHA1 is a parameter `pbkdf2 password salt iterations octets` -/
def supplicantPmk (pbkdf2 : Bytes → Bytes → Nat → Nat → Bytes) (psk ssid : Bytes) : Bytes := pbkdf2 psk ssid 4096 32

/-- `add_ap_data(psk, ssid)`: `pmks_.insert(make_pair(ssid, SupplicantData(psk, ssid)))` -/
def Wpa2State.addApDataPsk (pbkdf2 : Bytes → Bytes → Nat → Nat → Bytes) (st : Wpa2State) (psk ssid : Bytes) : Wpa2State :=
  st.addApData ssid (supplicantPmk pbkdf2 psk ssid)

/-- `add_access_point(ssid, addr)`; `none` = `runtime_error("Supplicant data not registered")` -/
def Wpa2State.addAccessPoint (st : Wpa2State) (ssid : Bytes) (addr : Addr) : Option (Wpa2State × List Event) :=
  match lookup st.pmks ssid with
  | none => none
  | some pmk => some ({ st with aps := insertIfAbsent st.aps addr (ssid, pmk) }, [.apFound ssid addr])

/-- `find_ap(dot11)` -/
def findApAddr (h : Hdr) : Addr :=
  if h.fromDS && !h.toDS then h.addr2 else if !h.fromDS && h.toDS then h.addr1 else h.addr3

/-- `try_add_keys(dot11, hs)` -/
def Wpa2State.tryAddKeys (prf : Bytes → Bytes → Bytes) (micf : Bool → Bytes → Bytes → Bytes) (st : Wpa2State) (h : Hdr)
    (hs : Handshake) : Wpa2State × List Event :=
  match lookup st.aps (findApAddr h) with
  | none => (st, [])
  | some (ssid, pmk) =>
    let pair := extractAddrPair h
    match deriveKeys prf micf hs pmk with
    | some k =>
      let bssid := h.bssidAddr
      let client := if bssid = pair.1 then pair.2 else pair.1
      ({ st with keys := insertKV st.keys pair k }, [.handshake ssid bssid client])
    | none => (st, [])

/-- `bool WPA2Decrypter::decrypt(PDU& pdu)` for a parsed frame: new state, result, the frame afterwards, callbacks -/
def wpa2Decrypt (ip : InnerParser) (aes : Bytes → BlockFn) (prf : Bytes → Bytes → Bytes)
    (micf : Bool → Bytes → Bytes → Bytes) (st : Wpa2State) (p : Parsed) : Out (Wpa2State × Bool × Parsed × List Event) :=
  match p with
  | .data fr =>
    let dataPath (st : Wpa2State) : Out (Wpa2State × Bool × Parsed × List Event) :=
      match wpa2DecryptData ip aes st.keys fr with
      | .ok (r, fr') => .ok (st, r, .data fr', [])
      | .throw e => .throw e
      | .fault a b c => .fault a b c
    match fr.inner.findEapol with
    | some e =>
      let (cap, done) := st.cap.process fr.hdr e
      if done then
        match cap.completed with
        | hs :: _ =>
          let (st', ev) := ({ st with cap := cap }).tryAddKeys prf micf fr.hdr hs
          .ok ({ st' with cap := { cap with completed := [] } }, false, p, ev)
        | [] => .ok ({ st with cap := cap }, false, p, [])
      else dataPath { st with cap := cap }
    | none => dataPath st
  | .beacon a3 ssid =>
    match lookup st.aps a3, ssid with
    | none, some s =>
      match st.addAccessPoint s a3 with
      | some (st', ev) => .ok (st', false, p, ev)
      | none => .ok (st, false, p, [])
    | _, _ => .ok (st, false, p, [])
  | .notData => .ok (st, false, p, [])

end Tins.Crypto
