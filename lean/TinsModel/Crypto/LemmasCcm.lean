import TinsModel.Crypto.Ccmp
import TinsModel.Crypto.Spec
/-
  C09 — the decryption loop of `ccmp_decrypt_unicast` (index arithmetic over the payload vector, CBC-MAC
  updated with partial blocks) is counter mode + CBC-MAC of the specification, for every block function.
-/
namespace Tins.Crypto

/-- the loop with the payload indices abstracted away: `rem` is the cipher text not yet consumed -/
def ccmPure (E : BlockFn) (pre : Bytes) : Nat → Nat → Bytes → Bytes → Bytes × Bytes
  | 0, _, _, mic => (mic, [])
  | f + 1, i, rem, mic =>
    if rem.isEmpty then (mic, []) else
    let p := xorBytes (E (pre ++ [(i / 256 % 256).toUInt8, (i % 256).toUInt8])) (rem.take 16)
    let r := ccmPure E pre f (i + 1) (rem.drop 16) (E (xorInto mic p))
    (r.1, p ++ r.2)

theorem take_drop_take (l : Bytes) (a t k b : Nat) (h : k + b ≤ t) :
    ((l.drop a).take t |>.drop k).take b = (l.drop (a + k)).take b := by
  rw [List.drop_take, List.take_take, List.drop_drop]
  congr 1
  omega

/-- the model loop, started at block `i`, computes `ccmPure` on the rest of the cipher text -/
theorem ccmLoop_eq (E : BlockFn) (pre pload : Bytes) (total blocks : Nat)
    (hblocks : blocks = (total + 15) / 16) (hlen : 8 + total ≤ pload.length) :
    ∀ (fuel i : Nat) (mic out : Bytes), 1 ≤ i → fuel + i = blocks + 1 →
      ccmLoop E pre pload total blocks fuel i (8 + 16 * (i - 1)) mic out =
        let r := ccmPure E pre fuel i (((pload.drop 8).take total).drop (16 * (i - 1))) mic
        .ok (r.1, out ++ r.2) := by
  intro fuel
  induction fuel with
  | zero => intro i mic out _ _; simp [ccmLoop, ccmPure]
  | succ f ih =>
    intro i mic out hi hfi
    have hile : i ≤ blocks := by omega
    have hrem : 16 * (i - 1) < total := by omega
    unfold ccmLoop ccmPure
    rw [if_neg (by omega)]
    have hne : ¬ (((pload.drop 8).take total).drop (16 * (i - 1))).isEmpty = true := by
      rw [List.isEmpty_iff]; intro h
      have := congrArg List.length h
      simp at this; omega
    rw [if_neg hne]
    -- the block size the C++ computes is the number of bytes left, capped at 16
    have hbs : (if (if i = blocks then total % 16 else 16) = 0 then 16 else (if i = blocks then total % 16 else 16))
        = min 16 (total - 16 * (i - 1)) := by
      by_cases hib : i = blocks
      · subst hib; simp only [if_true]; split <;> omega
      · simp only [if_neg hib]
        have : (if (16 : Nat) = 0 then 16 else 16) = 16 := by simp
        rw [this]; omega
    simp only [hbs]
    have hrd : rdRange "ccmp_decrypt_unicast &pload[offset]" pload (8 + 16 * (i - 1)) (min 16 (total - 16 * (i - 1)))
        = .ok ((((pload.drop 8).take total).drop (16 * (i - 1))).take 16) := by
      rw [rdRange_ok_of_le _ _ _ _ (by omega)]
      congr 1
      rw [List.drop_take, List.take_take, List.drop_drop]
    rw [hrd]
    simp only []
    have hoff : 8 + 16 * (i - 1) + min 16 (total - 16 * (i - 1)) = 8 + 16 * (i + 1 - 1) ∨ i = blocks := by omega
    rcases Nat.lt_or_ge i blocks with hlt | hge
    · have hoff' : 8 + 16 * (i - 1) + min 16 (total - 16 * (i - 1)) = 8 + 16 * (i + 1 - 1) := by omega
      rw [hoff', ih (i + 1) _ _ (by omega) (by omega)]
      simp only [List.append_assoc, List.drop_drop]
      have : 16 * (i - 1) + 16 = 16 * (i + 1 - 1) := by omega
      rw [this]
    · -- last block: the recursive call stops on `i + 1 > blocks`, and nothing is left
      have hf : f = 0 := by omega
      subst hf
      simp [ccmLoop, ccmPure]

/-! ### `ccmPure` is counter mode + CBC-MAC of the specification -/

theorem ccmPure_nil (E : BlockFn) (pre : Bytes) (f i : Nat) (mic : Bytes) : ccmPure E pre f i [] mic = (mic, []) := by
  cases f <;> simp [ccmPure]

theorem ccmPure_out (E : BlockFn) (nonce : Bytes) (f i : Nat) (rem mic : Bytes) :
    (ccmPure E ([0x01] ++ nonce) f i rem mic).2 = Spec.ctrXor E nonce f i rem := by
  induction f generalizing i rem mic with
  | zero => rfl
  | succ f ih =>
    unfold ccmPure Spec.ctrXor
    by_cases he : rem.isEmpty = true
    · simp [he]
    · simp only [he, if_false, Bool.false_eq_true]
      rw [ih]
      rfl

theorem xorBytes_zeros (l : Bytes) : xorBytes l (List.replicate l.length 0) = l := by
  induction l with
  | nil => rfl
  | cons a l ih => simp [List.replicate_succ, xorBytes_cons, ih]

/-- XOR-ing a partial block into the MAC state = XOR-ing the zero-padded block -/
theorem xorInto_eq_pad (mic p : Bytes) (h : p.length ≤ mic.length) :
    xorInto mic p = xorBytes mic (p ++ List.replicate (mic.length - p.length) 0) := by
  unfold xorInto
  induction mic generalizing p with
  | nil => cases p with
    | nil => rfl
    | cons b p => simp at h
  | cons a mic ih =>
    cases p with
    | nil =>
      simp only [List.length_nil, Nat.sub_zero, List.nil_append, List.drop_zero, xorBytes_nil_right]
      rw [xorBytes_zeros]
    | cons b p =>
      simp only [List.length_cons, List.cons_append, xorBytes_cons, List.drop_succ_cons, Nat.add_sub_add_right]
      rw [ih p (by simpa using h)]

theorem xorBytes_length_eq (a b : Bytes) (h : b.length ≤ a.length) : (xorBytes a b).length = b.length := by
  simp; omega

/-- the MAC state after the loop: CBC-MAC continued over the zero-padded blocks of the plain text -/
theorem ccmPure_mic (E : BlockFn) (hE : ∀ b, (E b).length = 16) (pre : Bytes) (f i : Nat) (rem mic : Bytes)
    (hmic : mic.length = 16) :
    (ccmPure E pre f i rem mic).1 =
      (Spec.blocks16 f (ccmPure E pre f i rem mic).2).foldl (fun x b => E (xorBytes x b)) mic := by
  induction f generalizing i rem mic with
  | zero => rfl
  | succ f ih =>
    unfold ccmPure
    by_cases he : rem.isEmpty = true
    · simp [he, Spec.blocks16]
    · simp only [he, if_false, Bool.false_eq_true]
      have hrem : 0 < rem.length := by
        cases rem with
        | nil => simp at he
        | cons a r => simp
      generalize hp : xorBytes (E (pre ++ [(i / 256 % 256).toUInt8, (i % 256).toUInt8])) (rem.take 16) = p
      have hplen : p.length = min 16 rem.length := by rw [← hp]; simp [hE]
      generalize hr : ccmPure E pre f (i + 1) (rem.drop 16) (E (xorInto mic p)) = r
      have hih := ih (i + 1) (rem.drop 16) (E (xorInto mic p)) (hE _)
      rw [hr] at hih
      -- the first block of the plain text is `p`, the rest is `r.2`
      have hne : ¬ (p ++ r.2).isEmpty = true := by
        rw [List.isEmpty_iff]; intro h
        have hp0 : p = [] := (List.append_eq_nil_iff.mp h).1
        rw [hp0] at hplen
        simp at hplen; omega
      have hr2 : p.length < 16 → r.2 = [] := by
        intro hlt
        have : rem.drop 16 = [] := by apply List.drop_of_length_le; omega
        rw [← hr, this, ccmPure_nil]
      have htake : (p ++ r.2).take 16 = p := by
        by_cases h16 : p.length = 16
        · rw [List.take_append_of_le_length (by omega), List.take_of_length_le (by omega)]
        · rw [hr2 (by omega), List.append_nil, List.take_of_length_le (by omega)]
      have hdrop : (p ++ r.2).drop 16 = r.2 := by
        by_cases h16 : p.length = 16
        · rw [List.drop_append_of_le_length (by omega), List.drop_of_length_le (by omega), List.nil_append]
        · rw [hr2 (by omega), List.append_nil, List.drop_of_length_le (by omega)]
      have hmin : min (p ++ r.2).length 16 = p.length := by
        by_cases h16 : p.length = 16
        · simp; omega
        · rw [hr2 (by omega)]; simp; omega
      show r.1 = _
      unfold Spec.blocks16
      rw [if_neg hne, List.foldl_cons, htake, hdrop, hmin, hih]
      congr 2
      rw [xorInto_eq_pad mic p (by omega), hmic]

/-! ### fuel independence of the specification's chunked recursions -/

theorem ctrXor_fuel (E : BlockFn) (nonce : Bytes) (f1 f2 i : Nat) (d : Bytes)
    (h1 : d.length ≤ 16 * f1) (h2 : d.length ≤ 16 * f2) :
    Spec.ctrXor E nonce f1 i d = Spec.ctrXor E nonce f2 i d := by
  induction f1 generalizing f2 i d with
  | zero =>
    have : d = [] := List.eq_nil_of_length_eq_zero (by omega)
    subst this
    cases f2 <;> simp [Spec.ctrXor]
  | succ f1 ih =>
    cases f2 with
    | zero =>
      have : d = [] := List.eq_nil_of_length_eq_zero (by omega)
      subst this
      simp [Spec.ctrXor]
    | succ f2 =>
      unfold Spec.ctrXor
      by_cases he : d.isEmpty = true
      · simp [he]
      · simp only [he, if_false, Bool.false_eq_true]
        rw [ih f2 (i + 1) (d.drop 16) (by simp; omega) (by simp; omega)]

theorem blocks16_fuel (f1 f2 : Nat) (d : Bytes) (h1 : d.length ≤ 16 * f1) (h2 : d.length ≤ 16 * f2) :
    Spec.blocks16 f1 d = Spec.blocks16 f2 d := by
  induction f1 generalizing f2 d with
  | zero =>
    have : d = [] := List.eq_nil_of_length_eq_zero (by omega)
    subst this
    cases f2 <;> simp [Spec.blocks16]
  | succ f1 ih =>
    cases f2 with
    | zero =>
      have : d = [] := List.eq_nil_of_length_eq_zero (by omega)
      subst this
      simp [Spec.blocks16]
    | succ f2 =>
      unfold Spec.blocks16
      by_cases he : d.isEmpty = true
      · simp [he]
      · simp only [he, if_false, Bool.false_eq_true]
        rw [ih f2 (d.drop 16) (by simp; omega) (by simp; omega)]

theorem ctrXor_length (E : BlockFn) (hE : ∀ b, (E b).length = 16) (nonce : Bytes) (f i : Nat) (d : Bytes)
    (h : d.length ≤ 16 * f) : (Spec.ctrXor E nonce f i d).length = d.length := by
  induction f generalizing i d with
  | zero =>
    have : d = [] := List.eq_nil_of_length_eq_zero (by omega)
    subst this; rfl
  | succ f ih =>
    unfold Spec.ctrXor
    by_cases he : d.isEmpty = true
    · have : d = [] := List.isEmpty_iff.mp he
      subst this; simp
    · simp only [he, if_false, Bool.false_eq_true]
      rw [List.length_append, ih (i + 1) (d.drop 16) (by simp; omega)]
      simp [Spec.ctrBlock, hE]
      omega

theorem zeros_xor (b : Bytes) : xorBytes (List.replicate b.length 0) b = b := by
  induction b with
  | nil => rfl
  | cons a b ih => simp [List.replicate_succ, xorBytes_cons, ih]

theorem xorInto_full (mic p : Bytes) (h : p.length = mic.length) : xorInto mic p = xorBytes mic p := by
  unfold xorInto
  rw [List.drop_of_length_le (by omega), List.append_nil]

/-- the two AAD blocks of the specification are the two halves of the zero-padded 32-byte array -/
theorem blocks16_two (a : Bytes) (h1 : 16 < a.length) (h2 : a.length ≤ 32) :
    Spec.blocks16 a.length a = [(padZero 32 a).take 16, ((padZero 32 a).drop 16).take 16] := by
  rw [blocks16_fuel a.length 2 a (by omega) (by omega)]
  have hne : a.isEmpty = false := by cases a <;> simp_all
  have hne2 : (a.drop 16).isEmpty = false := by
    cases hd : a.drop 16 with
    | nil => have := congrArg List.length hd; simp at this; omega
    | cons _ _ => rfl
  simp only [Spec.blocks16, hne, hne2, if_false, Bool.false_eq_true]
  unfold padZero
  have e1 : (a ++ List.replicate (32 - a.length) 0).take 16 = a.take 16 := List.take_append_of_le_length (by omega)
  have e2 : ((a ++ List.replicate (32 - a.length) 0).drop 16).take 16 =
      a.drop 16 ++ List.replicate (32 - a.length) 0 := by
    rw [List.drop_append_of_le_length (by omega), List.take_of_length_le (by simp; omega)]
  rw [e1, e2]
  have m1 : min a.length 16 = 16 := by omega
  have m2 : 16 - min (a.drop 16).length 16 = 32 - a.length := by simp; omega
  rw [m1, m2]
  have t2 : (a.drop 16).take 16 = a.drop 16 := List.take_of_length_le (by simp; omega)
  rw [t2]
  simp

/-! ### specification-level round trip of CCM, for every block function -/

theorem ctrXor_nil (E : BlockFn) (nonce : Bytes) (f i : Nat) : Spec.ctrXor E nonce f i [] = [] := by
  cases f <;> simp [Spec.ctrXor]

/-- counter mode is an involution -/
theorem ctrXor_involutive (E : BlockFn) (hE : ∀ b, (E b).length = 16) (nonce : Bytes) (f i : Nat) (d : Bytes)
    (h : d.length ≤ 16 * f) : Spec.ctrXor E nonce f i (Spec.ctrXor E nonce f i d) = d := by
  induction f generalizing i d with
  | zero =>
    have : d = [] := List.eq_nil_of_length_eq_zero (by omega)
    subst this; rfl
  | succ f ih =>
    by_cases he : d.isEmpty = true
    · have : d = [] := List.isEmpty_iff.mp he
      subst this; simp [Spec.ctrXor]
    · have hd : 0 < d.length := by
        cases d with
        | nil => simp at he
        | cons a r => simp
      have h1 : Spec.ctrXor E nonce (f + 1) i d =
          xorBytes (Spec.ctrBlock E nonce i) (d.take 16) ++ Spec.ctrXor E nonce f (i + 1) (d.drop 16) := by
        rw [Spec.ctrXor]; simp [he]
      generalize hK : Spec.ctrBlock E nonce i = K at h1
      have hKlen : K.length = 16 := by rw [← hK]; simp [Spec.ctrBlock, hE]
      generalize hp : xorBytes K (d.take 16) = p at h1
      have hplen : p.length = min 16 d.length := by rw [← hp]; simp [hKlen]
      generalize hr : Spec.ctrXor E nonce f (i + 1) (d.drop 16) = r at h1
      have hrnil : p.length < 16 → r = [] := by
        intro hlt
        have : d.drop 16 = [] := List.drop_of_length_le (by omega)
        rw [← hr, this, ctrXor_nil]
      have hne : ¬ (p ++ r).isEmpty = true := by
        rw [List.isEmpty_iff]; intro hh
        have hp0 : p = [] := (List.append_eq_nil_iff.mp hh).1
        rw [hp0] at hplen; simp at hplen; omega
      have htake : (p ++ r).take 16 = p := by
        by_cases h16 : p.length = 16
        · rw [List.take_append_of_le_length (by omega), List.take_of_length_le (by omega)]
        · rw [hrnil (by omega), List.append_nil, List.take_of_length_le (by omega)]
      have hdrop : (p ++ r).drop 16 = r := by
        by_cases h16 : p.length = 16
        · rw [List.drop_append_of_le_length (by omega), List.drop_of_length_le (by omega), List.nil_append]
        · rw [hrnil (by omega), List.append_nil, List.drop_of_length_le (by omega)]
      rw [h1, Spec.ctrXor]
      simp only [hne, if_false, Bool.false_eq_true]
      rw [htake, hdrop, hK, ← hp, xorBytes_cancel_left K _ (by simp [hKlen]; omega), ← hr,
        ih (i + 1) (d.drop 16) (by simp; omega), List.take_append_drop]

theorem foldl_mac_length (E : BlockFn) (hE : ∀ b, (E b).length = 16) (l : List Bytes) (x : Bytes)
    (hx : x.length = 16) : (l.foldl (fun x b => E (xorBytes x b)) x).length = 16 := by
  induction l generalizing x with
  | nil => exact hx
  | cons b l ih => rw [List.foldl_cons]; exact ih _ (hE _)

theorem cbcMac_length (E : BlockFn) (hE : ∀ b, (E b).length = 16) (b0 : Bytes) (bs : List Bytes) :
    (Spec.cbcMac E (b0 :: bs)).length = 16 := by
  unfold Spec.cbcMac
  rw [List.foldl_cons]
  exact foldl_mac_length E hE bs _ (hE _)

theorem ccmTag_length (E : BlockFn) (hE : ∀ b, (E b).length = 16) (nonce aad m : Bytes) :
    (Spec.ccmTag E nonce aad m).length = 8 := by
  unfold Spec.ccmTag
  simp only [List.length_take, cbcMac_length E hE]
  rfl

end Tins.Crypto
