import TinsModel.Crypto.Basic
/-
  C09 — AES-128 block encryption (FIPS-197), only so that the driver can *run* the CCMP model and the
  CCMP reference encryptor.  No theorem depends on it: every CCMP theorem is stated for an arbitrary
  block function `E`.  Validated against OpenSSL's `AES_encrypt` by the check (FIPS-197 vector + random blocks).
-/
namespace Tins.Crypto.Aes

def xtime (a : UInt8) : UInt8 := if a &&& 0x80 != 0 then (a <<< 1) ^^^ 0x1b else a <<< 1

def gmul (a b : UInt8) : UInt8 := Id.run do
  let mut r : UInt8 := 0
  let mut a := a
  let mut b := b
  for _ in [0:8] do
    if b &&& 1 != 0 then r := r ^^^ a
    a := xtime a
    b := b >>> 1
  return r

def ginv (x : UInt8) : UInt8 :=
  if x == 0 then 0 else
  match (List.range 256).find? (fun y => gmul x y.toUInt8 == 1) with
  | some y => y.toUInt8
  | none => 0

def rotl8 (x : UInt8) (n : UInt8) : UInt8 := (x <<< n) ||| (x >>> (8 - n))

/-- the AES S-box from its definition: inverse in GF(2^8) followed by the affine map -/
def sboxArr : Array UInt8 :=
  (Array.range 256).map fun i =>
    let v := ginv i.toUInt8
    v ^^^ rotl8 v 1 ^^^ rotl8 v 2 ^^^ rotl8 v 3 ^^^ rotl8 v 4 ^^^ 0x63

def sb (x : UInt8) : UInt8 := sboxArr.getD x.toNat 0

def rcon : Array UInt8 := #[0x01, 0x02, 0x04, 0x08, 0x10, 0x20, 0x40, 0x80, 0x1b, 0x36]

/-- 176 bytes of round keys -/
def expandKey (key : Bytes) : Array UInt8 := Id.run do
  let mut w : Array UInt8 := (key.take 16 ++ List.replicate (16 - min key.length 16) 0).toArray
  for i in [4:44] do
    let t0 := w.getD (4 * (i - 1)) 0
    let t1 := w.getD (4 * (i - 1) + 1) 0
    let t2 := w.getD (4 * (i - 1) + 2) 0
    let t3 := w.getD (4 * (i - 1) + 3) 0
    let (u0, u1, u2, u3) :=
      if i % 4 == 0 then (sb t1 ^^^ rcon.getD (i / 4 - 1) 0, sb t2, sb t3, sb t0) else (t0, t1, t2, t3)
    w := w.push (w.getD (4 * (i - 4)) 0 ^^^ u0)
    w := w.push (w.getD (4 * (i - 4) + 1) 0 ^^^ u1)
    w := w.push (w.getD (4 * (i - 4) + 2) 0 ^^^ u2)
    w := w.push (w.getD (4 * (i - 4) + 3) 0 ^^^ u3)
  return w

def addRoundKey (s : Array UInt8) (w : Array UInt8) (r : Nat) : Array UInt8 :=
  (Array.range 16).map fun i => s.getD i 0 ^^^ w.getD (16 * r + i) 0

def subShift (s : Array UInt8) : Array UInt8 :=
  (Array.range 16).map fun i => let r := i % 4; let c := i / 4; sb (s.getD (r + 4 * ((c + r) % 4)) 0)

def mixColumns (s : Array UInt8) : Array UInt8 :=
  (Array.range 16).map fun i =>
    let r := i % 4; let c := i / 4
    let a (k : Nat) := s.getD (4 * c + (r + k) % 4) 0
    gmul (a 0) 2 ^^^ gmul (a 1) 3 ^^^ a 2 ^^^ a 3

/-- AES-128 encryption of one block under the expanded key -/
def encryptBlockW (w : Array UInt8) (block : Bytes) : Bytes := Id.run do
  let mut s := addRoundKey (block.take 16 ++ List.replicate (16 - min block.length 16) 0).toArray w 0
  for r in [1:10] do
    s := addRoundKey (mixColumns (subShift s)) w r
  s := addRoundKey (subShift s) w 10
  return s.toList

def encryptBlock (key block : Bytes) : Bytes := encryptBlockW (expandKey key) block

end Tins.Crypto.Aes
