import TinsModel.Crypto.Basic
/-
  C09 — the part of the 802.11 data-frame and LLC/SNAP parsers the decrypters depend on
  (src/dot11/dot11_base.cpp `Dot11::from_bytes`, src/dot11/dot11_data.cpp, src/snap.cpp), code-shaped:
  header fields are read with the same masks/shifts as the C++ bit-fields (little-endian branch).
-/
namespace Tins.Crypto

/-- the fixed and optional header fields of a parsed `Dot11Data` / `Dot11QoSData` -/
structure Hdr where
  fc0 : UInt8
  fc1 : UInt8
  dur0 : UInt8 := 0
  dur1 : UInt8 := 0
  addr1 : Bytes
  addr2 : Bytes
  addr3 : Bytes
  sc0 : UInt8
  sc1 : UInt8
  /-- `addr4_` (all zero when the frame has no fourth address: the member is value-initialised) -/
  addr4 : Bytes := [0, 0, 0, 0, 0, 0]
  /-- the two `qos_control_` bytes when the object is a `Dot11QoSData` (subtype > 4 in `from_bytes`) -/
  qos : Option (UInt8 × UInt8) := none
deriving DecidableEq, Repr

namespace Hdr
def protocol (h : Hdr) : UInt8 := h.fc0 &&& 3
def type (h : Hdr) : UInt8 := (h.fc0 >>> 2) &&& 3
def subtype (h : Hdr) : UInt8 := h.fc0 >>> 4
def toDS (h : Hdr) : Bool := h.fc1 &&& 1 != 0
def fromDS (h : Hdr) : Bool := h.fc1 &&& 2 != 0
def moreFrag (h : Hdr) : UInt8 := (h.fc1 >>> 2) &&& 1
def wep (h : Hdr) : Bool := h.fc1 &&& 0x40 != 0
def order (h : Hdr) : UInt8 := (h.fc1 >>> 7) &&& 1
def fragNum (h : Hdr) : UInt8 := h.sc0 &&& 0x0f
/-- `dot11->wep(0)` -/
def clearWep (h : Hdr) : Hdr := { h with fc1 := h.fc1 &&& 0xBF }
/-- +HTC: the frame is a QoS data frame with the Order bit set, so that on the air a 4-octet HT Control field follows
    the QoS control field.  libtins knows no such field: `Dot11QoSData` takes those octets for the start of the body. -/
def htc (h : Hdr) : Bool := h.qos.isSome && h.order != 0
/-- `Dot11QoSData::qos_control()` (little-endian 16-bit value) -/
def qosControl (h : Hdr) : Nat := match h.qos with | some (a, b) => a.toNat + 256 * b.toNat | none => 0

/-- `Dot11Data::src_addr()` -/
def srcAddr (h : Hdr) : Bytes :=
  if !h.fromDS && !h.toDS then h.addr2 else if !h.fromDS && h.toDS then h.addr2 else h.addr3
/-- `Dot11Data::dst_addr()` -/
def dstAddr (h : Hdr) : Bytes :=
  if !h.fromDS && !h.toDS then h.addr1 else if !h.fromDS && h.toDS then h.addr3 else h.addr1
/-- `Dot11Data::bssid_addr()` -/
def bssidAddr (h : Hdr) : Bytes :=
  if !h.fromDS && !h.toDS then h.addr3 else if !h.fromDS && h.toDS then h.addr1 else h.addr2
end Hdr

/-- the MAC header bytes a parsed header came from (frame order) -/
def Hdr.bytes (h : Hdr) : Bytes :=
  [h.fc0, h.fc1, h.dur0, h.dur1] ++ h.addr1 ++ h.addr2 ++ h.addr3 ++ [h.sc0, h.sc1] ++
  (if h.fromDS && h.toDS then h.addr4 else []) ++
  (match h.qos with | some (a, b) => [a, b] | none => [])

/-- the invariants `Dot11::from_bytes` establishes for a data frame -/
structure Hdr.WF (h : Hdr) : Prop where
  a1 : h.addr1.length = 6
  a2 : h.addr2.length = 6
  a3 : h.addr3.length = 6
  a4 : h.addr4.length = 6
  isData : h.type = 2
  /-- the object is a `Dot11QoSData` exactly when `from_bytes` saw a subtype above 4 -/
  qos : h.qos.isSome = decide (h.subtype > 4)
  a4zero : (h.fromDS && h.toDS) = false → h.addr4 = [0, 0, 0, 0, 0, 0]

/-- a parsed `RSNEAPOL` (src/eapol.cpp): EAPOL version and packet type, descriptor type, the 94-byte
    `rsn_eapol_header` as read, the key data and what follows it (a `RawPDU`) -/
structure Eapol where
  version : UInt8
  packetType : UInt8
  descType : UInt8
  hdr : Bytes
  key : Bytes
  trailing : Bytes
deriving DecidableEq, Repr

namespace Eapol
def info0 (e : Eapol) : UInt8 := e.hdr.getD 0 0
def info1 (e : Eapol) : UInt8 := e.hdr.getD 1 0
def keyMic (e : Eapol) : Bool := e.info0 &&& 1 != 0
def secure (e : Eapol) : Bool := e.info0 &&& 2 != 0
def keyDescriptor (e : Eapol) : UInt8 := e.info1 &&& 7
def keyT (e : Eapol) : Bool := e.info1 &&& 8 != 0
def install (e : Eapol) : Bool := e.info1 &&& 0x40 != 0
def keyAck (e : Eapol) : Bool := e.info1 &&& 0x80 != 0
def nonce (e : Eapol) : Bytes := (e.hdr.drop 12).take 32
def mic (e : Eapol) : Bytes := (e.hdr.drop 76).take 16

def be16 (n : Nat) : Bytes := [(n / 256 % 256).toUInt8, (n % 256).toUInt8]

/-- `RSNEAPOL::serialize()`: the EAPOL length is recomputed (`length(total_sz - 4)`); when there is key data
    `write_body` rewrites the key-data length (`wpa_length(key_.size())`), nothing else -/
def serialize (e : Eapol) : Bytes :=
  let total := 99 + e.key.length + e.trailing.length
  let hdr := if e.key.isEmpty then e.hdr else e.hdr.take 92 ++ be16 (e.key.length % 65536)
  [e.version, e.packetType] ++ be16 ((total - 4) % 65536) ++ [e.descType] ++ hdr ++ e.key ++ e.trailing
end Eapol

/-- `EAPOL::from_bytes` restricted to its RSN branch (`none`: the descriptor type is not RSN / WPA) -/
def parseEapol (b : Bytes) : Except Exc (Option Eapol) :=
  if b.length < 5 then .error .malformedPacket else
  let dataLen := (b.getD 2 0).toNat * 256 + (b.getD 3 0).toNat + 4
  -- `switch (ptr->type)` reads the caller's buffer, whatever `total_sz = min(total_sz, data_len)` has become
  let t := b.getD 4 0
  let b := b.take (min b.length dataLen)
  if t == 2 || t == 254 then
    if b.length < 99 then .error .malformedPacket else
    let hdr := (b.drop 5).take 94
    let wpaLen := (hdr.getD 92 0).toNat * 256 + (hdr.getD 93 0).toNat
    let rest := b.drop 99
    if rest.length ≥ wpaLen then
      .ok (some ⟨b.getD 0 0, b.getD 1 0, t, hdr, rest.take wpaLen, rest.drop wpaLen⟩)
    else .ok (some ⟨b.getD 0 0, b.getD 1 0, t, hdr, [], []⟩)
  else .ok none

/-- what a `SNAP` carries below it -/
inductive SnapInner where
  | none
  | raw (b : Bytes)
  /-- some other PDU class (`pdu_type()` number) and the `RawPDU` that `find_pdu<RawPDU>` reaches below it -/
  | pdu (type : Nat) (rawBelow : Option Bytes)
  | eapol (e : Eapol)
deriving DecidableEq, Repr

structure Snap where
  dsap : UInt8
  ssap : UInt8
  control : UInt8
  org : Nat
  eth : Nat
  inner : SnapInner
deriving DecidableEq, Repr

/-- `Internals::pdu_from_flag(eth_type, ptr, size)` as a parameter (external parsers): the PDU built for the
    non-empty rest of a SNAP payload, or the exception its constructor throws -/
abbrev InnerParser := Nat → Bytes → Except Exc SnapInner

/-- `SNAP::SNAP(buffer, total_sz)` -/
def snapParse (ip : InnerParser) (b : Bytes) : Out Snap :=
  match b with
  | d :: s :: c :: o0 :: o1 :: o2 :: e0 :: e1 :: rest =>
    let eth := e0.toNat * 256 + e1.toNat
    let mk (i : SnapInner) : Snap := ⟨d, s, c, (o0.toNat * 256 + o1.toNat) * 256 + o2.toNat, eth, i⟩
    if rest.isEmpty then .ok (mk .none)
    else match ip eth rest with
      | .ok i => .ok (mk i)
      | .error e => .throw e
  | _ => .throw .malformedPacket

theorem snapParse_not_fault (ip : InnerParser) (b : Bytes) : (snapParse ip b).isFault = false := by
  unfold snapParse
  split
  · split
    · rfl
    · dsimp only
      split <;> rfl
  · rfl

/-- what the decrypt functions return for decapsulated data `m?`: the SNAP built from it, null when there is no
    data or the SNAP constructor throws (`catch (exception_base&) { return 0; }`) -/
def snapResult (ip : InnerParser) (m : Option Bytes) : Option Snap :=
  match m with
  | none => none
  | some m => match snapParse ip m with
    | .ok s => some s
    | _ => none

/-- what hangs below the `Dot11Data` -/
inductive Inner where
  | none
  | raw (b : Bytes)
  | snap (s : Snap)
deriving DecidableEq, Repr

structure Frame where
  hdr : Hdr
  inner : Inner
deriving DecidableEq, Repr

/-- `pdu.find_pdu<RawPDU>()` below a `Dot11Data` -/
def Inner.findRaw : Inner → Option Bytes
  | .none => Option.none
  | .raw b => some b
  | .snap s => match s.inner with
    | .none => Option.none
    | .raw b => some b
    | .pdu _ r => r
    | .eapol e => if e.trailing.isEmpty then Option.none else some e.trailing

/-- `pdu.find_pdu<RSNEAPOL>()` below a `Dot11Data` -/
def Inner.findEapol : Inner → Option Eapol
  | .snap s => match s.inner with
    | .eapol e => some e
    | _ => Option.none
  | _ => Option.none

/-- the payload of that `RawPDU` after it has been modified in place -/
def Inner.setRaw (i : Inner) (nb : Bytes) : Inner :=
  match i with
  | .none => .none
  | .raw _ => .raw nb
  | .snap s => match s.inner with
    | .none => i
    | .raw _ => .snap { s with inner := .raw nb }
    | .pdu t r => .snap { s with inner := .pdu t (r.map fun _ => nb) }
    | .eapol e => .snap { s with inner := .eapol { e with trailing := nb } }

inductive Parsed where
  | notData
  | data (f : Frame)
  /-- a `Dot11Beacon`: `addr3()` and the data of the first SSID element, if any -/
  | beacon (addr3 : Bytes) (ssid : Option Bytes)
deriving Repr

/-- `Dot11::parse_tagged_parameters` + `search_option(SSID)`: the first element with id 0 -/
def parseTagged : Nat → Bytes → Option Bytes → Out (Option Bytes)
  | 0, _, acc => .ok acc
  | f + 1, b, acc =>
    match b with
    | id :: len :: rest =>
      if rest.length < len.toNat then .throw .malformedPacket
      else parseTagged f (rest.drop len.toNat) (if acc.isNone && id == 0 then some (rest.take len.toNat) else acc)
    | _ => .ok acc

/-- `Dot11Beacon(buffer, total_sz)` (management header, 12 bytes of fixed parameters, tagged parameters) -/
def parseBeacon (f : Bytes) : Out Parsed :=
  let both := (f.getD 1 0 &&& 1 != 0) && (f.getD 1 0 &&& 2 != 0)
  let hl := 24 + (if both then 6 else 0)
  if f.length < hl + 12 then .throw .malformedPacket else
  match parseTagged f.length (f.drop (hl + 12)) Option.none with
  | .ok ssid => .ok (.beacon ((f.drop 16).take 6) ssid)
  | .throw e => .throw e
  | .fault a b c => .fault a b c

/-- `Dot11::from_bytes` for data frames (`Dot11Data(buffer, sz)` / `Dot11QoSData(buffer, sz)`);
    other frame types are outside this model (`notData`). -/
def parseFrame (ip : InnerParser) (f : Bytes) : Out Parsed :=
  match f with
  | fc0 :: fc1 :: rest0 =>
    if (fc0 >>> 2) &&& 3 == 0 && fc0 >>> 4 == 8 then parseBeacon f else
    if (fc0 >>> 2) &&& 3 != 2 then .ok .notData else
    let both := (fc1 &&& 1 != 0) && (fc1 &&& 2 != 0)
    let isQos := decide ((fc0 >>> 4) > 4)
    -- duration(2) addr1(6) | addr2(6) addr3(6) frag_seq(2) | [addr4(6)] | [qos(2)]
    if rest0.length < 22 then .throw .malformedPacket else
    let dur0 := rest0.getD 0 0
    let dur1 := rest0.getD 1 0
    let a1 := (rest0.drop 2).take 6
    let a2 := (rest0.drop 8).take 6
    let a3 := (rest0.drop 14).take 6
    let sc0 := rest0.getD 20 0
    let sc1 := rest0.getD 21 0
    let rest1 := rest0.drop 22
    if both && rest1.length < 6 then .throw .malformedPacket else
    let a4 := if both then rest1.take 6 else [0, 0, 0, 0, 0, 0]
    let rest2 := if both then rest1.drop 6 else rest1
    if isQos && rest2.length < 2 then .throw .malformedPacket else
    let qos := if isQos then some (rest2.getD 0 0, rest2.getD 1 0) else Option.none
    let body := if isQos then rest2.drop 2 else rest2
    let hdr : Hdr := { fc0 := fc0, fc1 := fc1, dur0 := dur0, dur1 := dur1, addr1 := a1, addr2 := a2, addr3 := a3,
                       sc0 := sc0, sc1 := sc1, addr4 := a4, qos := qos }
    if body.isEmpty then .ok (.data ⟨hdr, .none⟩)
    else if hdr.wep then .ok (.data ⟨hdr, .raw body⟩)
    else match snapParse ip body with
      | .ok s => .ok (.data ⟨hdr, .snap s⟩)
      | .throw e => .throw e
      | .fault a b c => .fault a b c
  | _ => .throw .malformedPacket

/-- an association list as the model of `std::map` with `operator[]` assignment, `find`, `erase` -/
def lookup {κ α} [DecidableEq κ] (m : List (κ × α)) (k : κ) : Option α :=
  match m with
  | [] => none
  | (k', v) :: r => if k' = k then some v else lookup r k

def insertKV {κ α} [DecidableEq κ] (m : List (κ × α)) (k : κ) (v : α) : List (κ × α) :=
  (k, v) :: m.filter (fun p => p.1 ≠ k)

def eraseK {κ α} [DecidableEq κ] (m : List (κ × α)) (k : κ) : List (κ × α) :=
  m.filter (fun p => p.1 ≠ k)

end Tins.Crypto
