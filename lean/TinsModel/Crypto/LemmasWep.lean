import TinsModel.Crypto.Wep
import TinsModel.Crypto.LemmasCrc
import TinsModel.Crypto.LemmasRc4
/-
  C09 — WEP: the model of `WEPDecrypter::decrypt(RawPDU&, password)` refines the specification's
  decapsulation; round trip against the reference encapsulation; no out-of-bounds access.
-/
namespace Tins.Crypto

theorem take4_drop {α} (l : List α) (i : Nat) (h : i + 4 ≤ l.length) :
    (l.drop i).take 4 = [l[i], l[i + 1], l[i + 2], l[i + 3]] := by
  apply List.ext_getElem
  · simp; omega
  · intro k h1 h2
    simp at h2
    have : k = 0 ∨ k = 1 ∨ k = 2 ∨ k = 3 := by omega
    rcases this with rfl | rfl | rfl | rfl <;> simp

/-- the four ICV comparisons are raw reads; inside the buffer they compare the four bytes with the CRC -/
theorem icvMatches_eq (site : String) (buf : Bytes) (i : Nat) (crc : BitVec 32) (h : i + 4 ≤ buf.length) :
    icvMatches site buf i crc = .ok (decide ((buf.drop i).take 4 = le32 crc)) := by
  unfold icvMatches
  rw [rd_ok_of_lt site buf i (by omega), rd_ok_of_lt site buf (i + 1) (by omega),
      rd_ok_of_lt site buf (i + 2) (by omega), rd_ok_of_lt site buf (i + 3) (by omega)]
  simp only [Out.bind_ok, Out.pure_eq]
  rw [take4_drop buf i h]
  congr 1
  by_cases hh : [buf[i], buf[i + 1], buf[i + 2], buf[i + 3]] = le32 crc <;> simp [hh]

/-- the payload vector after the in-place RC4 pass of the WEP path -/
def wepScrambled (pload password : Bytes) : Bytes :=
  rc4 (pload.take 3 ++ password) (pload.drop 4) ++ pload.drop (pload.length - 4)

/-- **refinement**: on every payload longer than 8 bytes the model returns exactly the SNAP parse of the
    specification's decapsulation (null when the ICV does not verify) -/
theorem wepDecryptRaw_refines (ip : InnerParser) (pload pw : Bytes) (hn : 8 < pload.length) :
    wepDecryptRaw ip pload pw = .ok (snapResult ip (Spec.wepDecap pw pload), wepScrambled pload pw) := by
  have hmin : Gen.wepMin = 8 := rfl
  have hkey : 0 < (pload.take 3 ++ pw).length := by simp; omega
  unfold wepDecryptRaw
  rw [hmin, if_neg (by omega)]
  simp only []
  -- the decrypted bytes are the specification's `p`
  have hdec : rc4 (pload.take 3 ++ pw) (pload.drop 4) =
      xorBytes (Spec.rc4Stream (pload.take 3 ++ pw) (pload.drop 4).length) (pload.drop 4) := rc4_eq_spec _ _ hkey
  generalize hp : rc4 (pload.take 3 ++ pw) (pload.drop 4) = p at *
  have hplen : p.length = pload.length - 4 := by rw [← hp]; simp
  have htake : (p ++ pload.drop (pload.length - 4)).take (pload.length - 8) = p.take (p.length - 4) := by
    rw [List.take_append_of_le_length (by omega)]; congr 1; omega
  have hicv : ((p ++ pload.drop (pload.length - 4)).drop (pload.length - 8)).take 4 = p.drop (p.length - 4) := by
    rw [List.drop_append_of_le_length (by omega), List.take_append_of_le_length (by simp; omega)]
    have : pload.length - 8 = p.length - 4 := by omega
    rw [this, List.take_of_length_le (by simp; omega)]
  rw [icvMatches_eq _ _ _ _ (by simp; omega), htake, hicv, crc32_eq_spec]
  unfold Spec.wepDecap
  rw [if_neg (by omega)]
  simp only []
  rw [← hdec]
  by_cases hv : p.drop (p.length - 4) = le32 (crc32Spec (p.take (p.length - 4)))
  · simp only [hv, decide_true, if_true, snapResult, wepScrambled, hp]
    have := snapParse_not_fault ip (p.take (p.length - 4))
    cases hs : snapParse ip (p.take (p.length - 4)) <;> simp_all
  · simp [hv, snapResult, wepScrambled, hp]

/-- short payloads are refused without touching them -/
theorem wepDecryptRaw_short (ip : InnerParser) (pload pw : Bytes) (hn : pload.length ≤ 8) :
    wepDecryptRaw ip pload pw = .ok (none, pload) := by
  have hmin : Gen.wepMin = 8 := rfl
  unfold wepDecryptRaw
  rw [hmin, if_pos hn]

/-- specification-level round trip: decapsulation inverts encapsulation for every key, IV, key id and data -/
theorem spec_wep_roundtrip (key iv : Bytes) (kid : UInt8) (m : Bytes) (hiv : iv.length = 3) :
    Spec.wepDecap key (Spec.wepEncap key iv kid m) = some m := by
  unfold Spec.wepDecap Spec.wepEncap
  have hlen : (iv ++ [kid] ++ xorBytes (Spec.rc4Stream (iv ++ key) (m.length + 4)) (m ++ le32 (crc32Spec m))).length
      = m.length + 8 := by simp [hiv]; omega
  rw [if_neg (by omega)]
  have htake : (iv ++ [kid] ++ xorBytes (Spec.rc4Stream (iv ++ key) (m.length + 4)) (m ++ le32 (crc32Spec m))).take 3 = iv := by
    rw [List.append_assoc, List.take_append_of_le_length (by omega), List.take_of_length_le (by omega)]
  have hdrop : (iv ++ [kid] ++ xorBytes (Spec.rc4Stream (iv ++ key) (m.length + 4)) (m ++ le32 (crc32Spec m))).drop 4 =
      xorBytes (Spec.rc4Stream (iv ++ key) (m.length + 4)) (m ++ le32 (crc32Spec m)) := by
    rw [List.drop_append_of_le_length (by simp [hiv]), List.drop_of_length_le (by simp [hiv]), List.nil_append]
  simp only [htake, hdrop]
  have hx : (xorBytes (Spec.rc4Stream (iv ++ key) (m.length + 4)) (m ++ le32 (crc32Spec m))).length = m.length + 4 := by simp
  rw [hx, xorBytes_cancel_left _ _ (by simp)]
  have h1 : (m ++ le32 (crc32Spec m)).length - 4 = m.length := by simp
  rw [h1, List.take_left' rfl, List.drop_left' rfl]
  simp

theorem wepDecryptRaw_total (ip : InnerParser) (pload pw : Bytes) :
    ∃ r p', wepDecryptRaw ip pload pw = .ok (r, p') := by
  by_cases hn : pload.length ≤ 8
  · exact ⟨_, _, wepDecryptRaw_short ip pload pw hn⟩
  · exact ⟨_, _, wepDecryptRaw_refines ip pload pw (by omega)⟩

theorem clearWep_wep (h : Hdr) : h.clearWep.wep = false := by
  unfold Hdr.clearWep Hdr.wep
  simp only []
  rw [UInt8.and_assoc]
  have : (0xBF : UInt8) &&& 0x40 = 0 := by decide
  rw [this, UInt8.and_zero]
  rfl

/-- frame level: `WEPDecrypter::decrypt(PDU&)` in terms of the specification's decapsulation -/
theorem wepDecrypt_eq (ip : InnerParser) (pws : WepPasswords) (fr : Frame) :
    wepDecrypt ip pws fr = .ok (
      if !fr.hdr.wep then (false, fr) else
      match fr.inner.findRaw with
      | none => (false, fr)
      | some pload =>
        match lookup pws (wepLookupAddr fr.hdr) with
        | none => (false, fr)
        | some pw =>
          match (if 8 < pload.length then snapResult ip (Spec.wepDecap pw pload) else none) with
          | some s => (true, ⟨fr.hdr.clearWep, .snap s⟩)
          | none => (false, ⟨fr.hdr, .none⟩)) := by
  unfold wepDecrypt
  cases hw : fr.hdr.wep with
  | false => rfl
  | true =>
  simp only [Bool.not_true, Bool.false_eq_true, if_false]
  cases hraw : fr.inner.findRaw with
  | none => rfl
  | some pload =>
    simp only []
    cases hk : lookup pws (wepLookupAddr fr.hdr) with
    | none => rfl
    | some pw =>
      simp only []
      by_cases hn : 8 < pload.length
      · rw [wepDecryptRaw_refines ip pload pw hn, if_pos hn]
        cases snapResult ip (Spec.wepDecap pw pload) <;> rfl
      · rw [wepDecryptRaw_short ip pload pw (by omega), if_neg hn]

end Tins.Crypto
