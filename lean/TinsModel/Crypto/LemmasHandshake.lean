import TinsModel.Crypto.Handshake
/-
  C09 — `RSNHandshakeCapturer` over handshake histories: from any state, for any station pair, a history whose
  projection on the pair ends with  M1 · M2⁺ · M3⁺ · M4  (retransmissions allowed, frames of other pairs
  interleaved anywhere) completes exactly the handshake [M1, first M2, first M3, M4].
-/
set_option linter.unusedSimpArgs false
namespace Tins.Crypto

/-! ### association-list facts -/

theorem lookup_insertKV_self {κ α} [DecidableEq κ] (m : List (κ × α)) (k : κ) (v : α) :
    lookup (insertKV m k v) k = some v := by
  simp [insertKV, lookup]

theorem lookup_filter_keep {κ α} [DecidableEq κ] (m : List (κ × α)) (q : κ × α → Bool) (k' : κ)
    (hq : ∀ p : κ × α, p.1 = k' → q p = true) : lookup (m.filter q) k' = lookup m k' := by
  induction m with
  | nil => rfl
  | cons p m ih =>
    obtain ⟨a, b⟩ := p
    rw [List.filter_cons]
    by_cases hak' : a = k'
    · have : q (a, b) = true := hq (a, b) hak'
      rw [if_pos this]
      simp [lookup, hak']
    · cases hqa : q (a, b)
      · simp only [Bool.false_eq_true, if_false]
        rw [ih]; simp [lookup, hak']
      · simp only [if_true]
        simp [lookup, hak', ih]

theorem lookup_filter_ne {κ α} [DecidableEq κ] (m : List (κ × α)) (k k' : κ) (h : k' ≠ k) :
    lookup (m.filter (fun p => p.1 ≠ k)) k' = lookup m k' := by
  apply lookup_filter_keep
  intro p hp
  simp [hp, h]

theorem lookup_filter_drop' {κ α} [DecidableEq κ] (m : List (κ × α)) (q : κ × α → Bool) (k : κ)
    (hq : ∀ p : κ × α, p.1 = k → q p = false) : lookup (m.filter q) k = none := by
  induction m with
  | nil => rfl
  | cons p m ih =>
    obtain ⟨a, b⟩ := p
    rw [List.filter_cons]
    by_cases hak : a = k
    · have : q (a, b) = false := hq (a, b) hak
      rw [this]
      simpa using ih
    · cases hqa : q (a, b)
      · simpa using ih
      · simp only [if_true]
        simp [lookup, hak, ih]

theorem lookup_filter_drop {κ α} [DecidableEq κ] (m : List (κ × α)) (k : κ) :
    lookup (m.filter (fun p => p.1 ≠ k)) k = none := by
  apply lookup_filter_drop'
  intro p hp
  simp [hp]

theorem lookup_insertKV_ne {κ α} [DecidableEq κ] (m : List (κ × α)) (k k' : κ) (v : α) (h : k' ≠ k) :
    lookup (insertKV m k v) k' = lookup m k' := by
  unfold insertKV
  have : k ≠ k' := fun e => h e.symm
  simp only [lookup, this, if_false]
  exact lookup_filter_ne m k k' h

theorem lookup_eraseK_self {κ α} [DecidableEq κ] (m : List (κ × α)) (k : κ) : lookup (eraseK m k) k = none :=
  lookup_filter_drop m k

theorem lookup_eraseK_ne {κ α} [DecidableEq κ] (m : List (κ × α)) (k k' : κ) (h : k' ≠ k) :
    lookup (eraseK m k) k' = lookup m k' := lookup_filter_ne m k k' h

/-! ### message classes, as `process_packet` tests them -/

def isM1 (e : Eapol) : Bool := e.keyT && e.keyAck && !e.keyMic && !e.install
def isM2 (e : Eapol) : Bool := e.keyT && !e.keyAck && e.keyMic && !e.install && !e.secure
def isM3 (e : Eapol) : Bool := e.keyT && e.keyAck && e.keyMic && e.install
def isM4 (e : Eapol) : Bool := e.keyT && !e.keyAck && e.keyMic && !e.install && e.secure

/-- the (min, max) station pair a data frame belongs to -/
def pairOf (h : Hdr) : AddrPair := (addrMin h.srcAddr h.dstAddr, addrMax h.srcAddr h.dstAddr)

/-- the partial handshake stored for a pair -/
def Capturer.entry (c : Capturer) (k : AddrPair) : Option (List Eapol) := lookup c.hs k

theorem doInsert_other (m : HsMap) (k k' : AddrPair) (e : Eapol) (n : Nat) (h : k' ≠ k) :
    lookup (doInsert m k e n).1 k' = lookup m k' := by
  unfold doInsert
  cases lookup m k with
  | none => rfl
  | some l =>
    simp only []
    split
    · split
      · exact lookup_insertKV_ne _ _ _ _ h
      · rfl
    · exact lookup_insertKV_ne _ _ _ _ h

/-- frames of other pairs never touch a pair's partial handshake -/
theorem process_other (c : Capturer) (h : Hdr) (e : Eapol) (k : AddrPair) (hk : k ≠ pairOf h) :
    (c.process h e).1.entry k = c.entry k := by
  unfold Capturer.process Capturer.entry
  have hp : pairOf h = (addrMin h.srcAddr h.dstAddr, addrMax h.srcAddr h.dstAddr) := rfl
  rw [← hp]
  simp only []
  split
  · exact lookup_insertKV_ne _ _ _ _ hk
  · split
    · split
      · exact doInsert_other _ _ _ _ _ hk
      · generalize hd : doInsert c.hs (pairOf h) e 3 = d
        obtain ⟨m, ok⟩ := d
        have := doInsert_other c.hs (pairOf h) k e 3 hk
        rw [hd] at this
        cases ok
        · simpa using this
        · simp only [if_true]
          rw [lookup_eraseK_ne _ _ _ hk]; exact this
    · split
      · exact doInsert_other _ _ _ _ _ hk
      · rfl

/-- message 1 (re)starts the pair's handshake, whatever was stored before -/
theorem process_m1 (c : Capturer) (h : Hdr) (e : Eapol) (he : isM1 e = true) :
    (c.process h e).1.entry (pairOf h) = some [e] ∧ (c.process h e).2 = false ∧
    (c.process h e).1.completed = c.completed := by
  unfold isM1 at he
  unfold Capturer.process Capturer.entry
  simp only [he, if_true]
  refine ⟨lookup_insertKV_self _ _ _, ?_, ?_⟩ <;> first | rfl | trivial

theorem m2_flags (e : Eapol) (he : isM2 e = true) :
    (e.keyT && e.keyAck && !e.keyMic && !e.install) = false ∧
    (e.keyT && !e.keyAck && e.keyMic && !e.install) = true ∧ (!e.secure) = true := by
  unfold isM2 at he
  generalize e.keyT = a, e.keyAck = b, e.keyMic = c, e.install = d, e.secure = s at he ⊢
  revert he; cases a <;> cases b <;> cases c <;> cases d <;> cases s <;> simp

theorem m3_flags (e : Eapol) (he : isM3 e = true) :
    (e.keyT && e.keyAck && !e.keyMic && !e.install) = false ∧
    (e.keyT && !e.keyAck && e.keyMic && !e.install) = false ∧ (e.keyT && e.keyAck && e.keyMic && e.install) = true := by
  unfold isM3 at he
  generalize e.keyT = a, e.keyAck = b, e.keyMic = c, e.install = d at he ⊢
  revert he; cases a <;> cases b <;> cases c <;> cases d <;> simp

theorem m4_flags (e : Eapol) (he : isM4 e = true) :
    (e.keyT && e.keyAck && !e.keyMic && !e.install) = false ∧
    (e.keyT && !e.keyAck && e.keyMic && !e.install) = true ∧ (!e.secure) = false := by
  unfold isM4 at he
  generalize e.keyT = a, e.keyAck = b, e.keyMic = c, e.install = d, e.secure = s at he ⊢
  revert he; cases a <;> cases b <;> cases c <;> cases d <;> cases s <;> simp

/-- message 2: the first one after message 1 is stored, retransmissions are skipped -/
theorem process_m2 (c : Capturer) (h : Hdr) (e : Eapol) (he : isM2 e = true) (m1 : Eapol) :
    (c.entry (pairOf h) = some [m1] → (c.process h e).1.entry (pairOf h) = some [m1, e]) ∧
    (∀ m2, c.entry (pairOf h) = some [m1, m2] → (c.process h e).1.entry (pairOf h) = some [m1, m2]) ∧
    (c.process h e).2 = false ∧ (c.process h e).1.completed = c.completed := by
  obtain ⟨f1, f2, f3⟩ := m2_flags e he
  unfold Capturer.process Capturer.entry
  have hp : pairOf h = (addrMin h.srcAddr h.dstAddr, addrMax h.srcAddr h.dstAddr) := rfl
  rw [← hp]
  simp only [f1, f2, f3, if_true, if_false, Bool.false_eq_true]
  refine ⟨?_, ?_, ?_, ?_⟩
  rotate_left 2
  · first | rfl | trivial
  · first | rfl | trivial
  · intro hl
    unfold doInsert
    rw [hl]
    simp [lookup_insertKV_self]
  · intro m2 hl
    unfold doInsert
    rw [hl]
    simp [hl]

/-- message 3: the first one after message 2 is stored, retransmissions are skipped -/
theorem process_m3 (c : Capturer) (h : Hdr) (e : Eapol) (he : isM3 e = true) (m1 m2 : Eapol) :
    (c.entry (pairOf h) = some [m1, m2] → (c.process h e).1.entry (pairOf h) = some [m1, m2, e]) ∧
    (∀ m3, c.entry (pairOf h) = some [m1, m2, m3] → (c.process h e).1.entry (pairOf h) = some [m1, m2, m3]) ∧
    (c.process h e).2 = false ∧ (c.process h e).1.completed = c.completed := by
  obtain ⟨f1, f2, f3⟩ := m3_flags e he
  unfold Capturer.process Capturer.entry
  have hp : pairOf h = (addrMin h.srcAddr h.dstAddr, addrMax h.srcAddr h.dstAddr) := rfl
  rw [← hp]
  simp only [f1, f2, f3, if_true, if_false, Bool.false_eq_true]
  refine ⟨?_, ?_, ?_, ?_⟩
  rotate_left 2
  · first | rfl | trivial
  · first | rfl | trivial
  · intro hl
    unfold doInsert
    rw [hl]
    simp [lookup_insertKV_self]
  · intro m3 hl
    unfold doInsert
    rw [hl]
    simp [hl]

/-- message 4 completes the handshake: `process_packet` returns true, the four messages are handed over in order
    and the pair's partial handshake is dropped -/
theorem process_m4 (c : Capturer) (h : Hdr) (e : Eapol) (he : isM4 e = true) (m1 m2 m3 : Eapol)
    (hl : c.entry (pairOf h) = some [m1, m2, m3]) :
    (c.process h e).2 = true ∧
    (c.process h e).1.completed = c.completed ++ [⟨(pairOf h).1, (pairOf h).2, [m1, m2, m3, e]⟩] ∧
    (c.process h e).1.entry (pairOf h) = none := by
  obtain ⟨f1, f2, f3⟩ := m4_flags e he
  unfold Capturer.process Capturer.entry
  have hp : pairOf h = (addrMin h.srcAddr h.dstAddr, addrMax h.srcAddr h.dstAddr) := rfl
  rw [← hp]
  unfold Capturer.entry at hl
  simp only [f1, f2, f3, if_true, if_false, Bool.false_eq_true]
  unfold doInsert
  rw [hl]
  simp [lookup_insertKV_self, lookup_eraseK_self]

/-! ### histories -/

/-- the capturer after a history of (header, EAPOL) frames -/
def Capturer.run (c : Capturer) (l : List (Hdr × Eapol)) : Capturer :=
  l.foldl (fun c x => (c.process x.1 x.2).1) c

/-- the first message of pair `k` in a history -/
def firstOf (k : AddrPair) (s : List (Hdr × Eapol)) : Option Eapol :=
  (s.find? (fun x => pairOf x.1 = k)).map (·.2)

/-- a stretch of the history in which pair `k` only sees (re)transmissions of one message class, the first of them
    being `m`; frames of other pairs may be interleaved anywhere -/
def Segment (k : AddrPair) (cls : Eapol → Bool) (m : Eapol) (s : List (Hdr × Eapol)) : Prop :=
  (∀ x ∈ s, pairOf x.1 = k → cls x.2 = true) ∧ firstOf k s = some m

theorem run_m2s (k : AddrPair) (m1 m2 : Eapol) (s : List (Hdr × Eapol))
    (hall : ∀ x ∈ s, pairOf x.1 = k → isM2 x.2 = true) (c : Capturer) :
    (c.entry k = some [m1, m2] → (c.run s).entry k = some [m1, m2]) ∧
    (c.entry k = some [m1] → firstOf k s = some m2 → (c.run s).entry k = some [m1, m2]) := by
  induction s generalizing c with
  | nil => exact ⟨fun h => h, fun _ h => by simp [firstOf] at h⟩
  | cons x s ih =>
    have hall' : ∀ y ∈ s, pairOf y.1 = k → isM2 y.2 = true := fun y hy => hall y (List.mem_cons_of_mem _ hy)
    have ihc := ih hall' (c.process x.1 x.2).1
    by_cases hx : pairOf x.1 = k
    · have hm := hall x (List.mem_cons_self ..) hx
      obtain ⟨p1, p2, _, _⟩ := process_m2 c x.1 x.2 hm m1
      rw [hx] at p1 p2
      constructor
      · intro he
        exact ihc.1 (p2 m2 he)
      · intro he hf
        have : x.2 = m2 := by simpa [firstOf, List.find?, hx] using hf
        subst this
        exact ihc.1 (p1 he)
    · have hother := process_other c x.1 x.2 k (fun e => hx e.symm)
      constructor
      · intro he
        exact ihc.1 (by rw [hother]; exact he)
      · intro he hf
        have hf' : firstOf k s = some m2 := by simpa [firstOf, List.find?, hx] using hf
        exact ihc.2 (by rw [hother]; exact he) hf'

theorem run_m3s (k : AddrPair) (m1 m2 m3 : Eapol) (s : List (Hdr × Eapol))
    (hall : ∀ x ∈ s, pairOf x.1 = k → isM3 x.2 = true) (c : Capturer) :
    (c.entry k = some [m1, m2, m3] → (c.run s).entry k = some [m1, m2, m3]) ∧
    (c.entry k = some [m1, m2] → firstOf k s = some m3 → (c.run s).entry k = some [m1, m2, m3]) := by
  induction s generalizing c with
  | nil => exact ⟨fun h => h, fun _ h => by simp [firstOf] at h⟩
  | cons x s ih =>
    have hall' : ∀ y ∈ s, pairOf y.1 = k → isM3 y.2 = true := fun y hy => hall y (List.mem_cons_of_mem _ hy)
    have ihc := ih hall' (c.process x.1 x.2).1
    by_cases hx : pairOf x.1 = k
    · have hm := hall x (List.mem_cons_self ..) hx
      obtain ⟨p1, p2, _, _⟩ := process_m3 c x.1 x.2 hm m1 m2
      rw [hx] at p1 p2
      constructor
      · intro he
        exact ihc.1 (p2 m3 he)
      · intro he hf
        have : x.2 = m3 := by simpa [firstOf, List.find?, hx] using hf
        subst this
        exact ihc.1 (p1 he)
    · have hother := process_other c x.1 x.2 k (fun e => hx e.symm)
      constructor
      · intro he
        exact ihc.1 (by rw [hother]; exact he)
      · intro he hf
        have hf' : firstOf k s = some m3 := by simpa [firstOf, List.find?, hx] using hf
        exact ihc.2 (by rw [hother]; exact he) hf'

/-- **handshake_complete.** From *any* capturer state and after *any* earlier history `pre`, a history whose
    frames of pair `k` are  M1 · M2⁺ · M3⁺ · M4  (retransmissions of M2 / M3, frames of other station pairs
    interleaved anywhere) makes `process_packet` return true on M4 and hand over exactly
    [M1, first M2, first M3, M4] for the pair; the partial handshake is dropped. -/
theorem capturer_completes (c : Capturer) (k : AddrPair) (pre s2 s3 : List (Hdr × Eapol)) (h1 h4 : Hdr)
    (m1 m2 m3 m4 : Eapol) (hk1 : pairOf h1 = k) (hk4 : pairOf h4 = k) (hm1 : isM1 m1 = true) (hm4 : isM4 m4 = true)
    (hs2 : Segment k isM2 m2 s2) (hs3 : Segment k isM3 m3 s3) :
    let c' := ((((c.run pre).process h1 m1).1.run s2).run s3)
    (c'.process h4 m4).2 = true ∧
    (c'.process h4 m4).1.completed = c'.completed ++ [⟨k.1, k.2, [m1, m2, m3, m4]⟩] ∧
    (c'.process h4 m4).1.entry k = none := by
  intro c'
  have e1 : ((c.run pre).process h1 m1).1.entry k = some [m1] := by
    have := (process_m1 (c.run pre) h1 m1 hm1).1
    rwa [hk1] at this
  have e2 : (((c.run pre).process h1 m1).1.run s2).entry k = some [m1, m2] :=
    (run_m2s k m1 m2 s2 hs2.1 _).2 e1 hs2.2
  have e3 : c'.entry k = some [m1, m2, m3] := (run_m3s k m1 m2 m3 s3 hs3.1 _).2 e2 hs3.2
  have := process_m4 c' h4 m4 hm4 m1 m2 m3 (by rw [hk4]; exact e3)
  rwa [hk4] at this

/-! ### key learning in `WPA2Decrypter::decrypt` -/

theorem process_not_done (c : Capturer) (h : Hdr) (e : Eapol) (hd : (c.process h e).2 = false) :
    (c.process h e).1.completed = c.completed := by
  unfold Capturer.process at hd ⊢
  simp only [] at hd ⊢
  split
  · rfl
  · split
    · split
      · rfl
      · generalize hdi : doInsert c.hs (addrMin h.srcAddr h.dstAddr, addrMax h.srcAddr h.dstAddr) e 3 = d at hd ⊢
        obtain ⟨m, ok⟩ := d
        cases ok
        · rfl
        · simp_all
    · split <;> rfl

/-- **keys_learned.** When message 4 of a station pair arrives while the capturer holds [M1, M2, M3] for the pair, the
    access point of the frame is known (PSK / SSID registered and BSSID seen) and the handshake verifies under the
    network's PMK (`deriveKeys`: PTK from the sorted addresses and nonces of this attempt, MIC of message 4),
    `WPA2Decrypter::decrypt` installs exactly those session keys for the frame's (bssid, station) pair, reports the
    handshake through the callback, and leaves its capturer without pending completed handshakes. -/
theorem decrypt_learns_keys (ip : InnerParser) (aes : Bytes → BlockFn) (prf : Bytes → Bytes → Bytes)
    (micf : Bool → Bytes → Bytes → Bytes) (st : Wpa2State) (fr : Frame) (m1 m2 m3 m4 : Eapol) (ssid pmk : Bytes)
    (k : SessionKeys) (he : fr.inner.findEapol = some m4) (hm4 : isM4 m4 = true)
    (hentry : st.cap.entry (pairOf fr.hdr) = some [m1, m2, m3]) (hcomp : st.cap.completed = [])
    (hap : lookup st.aps (findApAddr fr.hdr) = some (ssid, pmk))
    (hd : deriveKeys prf micf ⟨(pairOf fr.hdr).1, (pairOf fr.hdr).2, [m1, m2, m3, m4]⟩ pmk = some k) :
    ∃ st' client, wpa2Decrypt ip aes prf micf st (.data fr) =
        .ok (st', false, .data fr, [.handshake ssid fr.hdr.bssidAddr client]) ∧
      lookup st'.keys (extractAddrPair fr.hdr) = some k ∧ st'.cap.completed = [] ∧
      st'.cap.entry (pairOf fr.hdr) = none := by
  obtain ⟨p1, p2, p3⟩ := process_m4 st.cap fr.hdr m4 hm4 m1 m2 m3 hentry
  unfold wpa2Decrypt
  simp only [he]
  generalize hpr : st.cap.process fr.hdr m4 = pr at p1 p2 p3
  obtain ⟨cap, done⟩ := pr
  simp only at p1 p2 p3
  subst p1
  rw [hcomp] at p2
  simp only [List.nil_append] at p2
  simp only [if_true, p2]
  unfold Wpa2State.tryAddKeys
  simp only [hap, hd]
  refine ⟨_, _, rfl, ?_, rfl, ?_⟩
  · exact lookup_insertKV_self _ _ _
  · exact p3

theorem addAccessPoint_cap (st st' : Wpa2State) (s : Bytes) (a : Addr) (ev : List Event)
    (h : st.addAccessPoint s a = some (st', ev)) : st'.cap = st.cap := by
  unfold Wpa2State.addAccessPoint at h
  cases hl : lookup st.pmks s with
  | none => simp [hl] at h
  | some pmk => simp [hl] at h; rw [← h.1]

theorem wpa2Decrypt_keeps_completed_empty (ip : InnerParser) (aes : Bytes → BlockFn) (prf : Bytes → Bytes → Bytes)
    (micf : Bool → Bytes → Bytes → Bytes) (st st' : Wpa2State) (p p' : Parsed) (r : Bool) (ev : List Event)
    (hcomp : st.cap.completed = []) (h : wpa2Decrypt ip aes prf micf st p = .ok (st', r, p', ev)) :
    st'.cap.completed = [] := by
  unfold wpa2Decrypt at h
  cases p with
  | notData => simp at h; rw [← h.1]; exact hcomp
  | beacon a3 ssid =>
    simp only at h
    cases hl : lookup st.aps a3 with
    | some v => simp [hl] at h; rw [← h.1]; exact hcomp
    | none =>
      cases ssid with
      | none => simp [hl] at h; rw [← h.1]; exact hcomp
      | some s =>
        simp only [hl] at h
        cases ha : st.addAccessPoint s a3 with
        | none => simp [ha] at h; rw [← h.1]; exact hcomp
        | some v =>
          obtain ⟨st2, ev2⟩ := v
          simp [ha] at h
          rw [← h.1, addAccessPoint_cap st st2 s a3 ev2 ha]; exact hcomp
  | data fr =>
    simp only at h
    cases hfe : fr.inner.findEapol with
    | none =>
      simp only [hfe] at h
      cases hd : wpa2DecryptData ip aes st.keys fr with
      | ok v => obtain ⟨r0, fr0⟩ := v; simp [hd] at h; rw [← h.1]; exact hcomp
      | throw e => simp [hd] at h
      | fault a b c => simp [hd] at h
    | some e =>
      simp only [hfe] at h
      generalize hpr : st.cap.process fr.hdr e = pr at h
      obtain ⟨cap, done⟩ := pr
      cases done
      · simp only [Bool.false_eq_true, if_false] at h
        have hc : cap.completed = [] := by
          have := process_not_done st.cap fr.hdr e (by rw [hpr])
          rw [hpr] at this; simp only at this; rw [this, hcomp]
        cases hd : wpa2DecryptData ip aes st.keys fr with
        | ok v => obtain ⟨r0, fr0⟩ := v; simp [hd] at h; rw [← h.1]; exact hc
        | throw e => simp [hd] at h
        | fault a b c => simp [hd] at h
      · simp only [if_true] at h
        split at h
        · simp at h; rw [← h.1]
        · simp at h; rw [← h.1]; simp_all

end Tins.Crypto
