import TinsModel.Crypto.Crc
import TinsModel.Crypto.RC4
import TinsModel.Crypto.Aes
/-
  C09 — specification: WEP, TKIP and CCMP encapsulation / decapsulation written from IEEE 802.11
  (2007/2012 clause 11), not from libtins.  Everything works on the *bytes* of the MAC header and of the
  protected frame body.  The CCMP block cipher is a parameter `E`.
  Used (a) as the reference encryptors of the round-trip theorems and (b) verbatim as the run-time oracle.
-/
namespace Tins.Crypto.Spec
open Tins.Crypto

/-! ### RC4 (textbook) -/

def ksaStep (key : Bytes) (st : RC4State × Nat) (i : Nat) : RC4State × Nat :=
  let j := (st.2 + (st.1.getD i 0).toNat + (key.getD (i % key.length) 0).toNat) % 256
  (st.1.swapIfInBounds i j, j)

def ksa (key : Bytes) : RC4State := ((List.range 256).foldl (ksaStep key) (rc4Init, 0)).1

/-- the key stream: `n` output bytes from state `S`, indices `i`, `j` -/
def prga : RC4State → Nat → Nat → Nat → Bytes
  | _, _, _, 0 => []
  | S, i, j, n + 1 =>
    let i := (i + 1) % 256
    let j := (j + (S.getD i 0).toNat) % 256
    let S := S.swapIfInBounds i j
    S.getD (((S.getD i 0).toNat + (S.getD j 0).toNat) % 256) 0 :: prga S i j n

def rc4Stream (key : Bytes) (n : Nat) : Bytes := prga (ksa key) 0 0 n

/-! ### WEP (11.2.2): body = IV(3) ‖ KeyID byte ‖ RC4(IV ‖ key, data ‖ ICV), ICV = CRC-32(data) -/

def wepEncap (key iv : Bytes) (keyIdByte : UInt8) (m : Bytes) : Bytes :=
  iv ++ [keyIdByte] ++ xorBytes (rc4Stream (iv ++ key) (m.length + 4)) (m ++ le32 (crc32Spec m))

/-- decapsulation: the data if the ICV verifies -/
def wepDecap (key body : Bytes) : Option Bytes :=
  if body.length < 8 then none else
  let iv := body.take 3
  let c := body.drop 4
  let p := xorBytes (rc4Stream (iv ++ key) c.length) c
  let m := p.take (p.length - 4)
  if p.drop (p.length - 4) = le32 (crc32Spec m) then some m else none

/-! ### TKIP (11.4.2) -/

/-- TKIP S-box from the AES S-box: `Sbox[i] = (2·s)‖(3·s)`, `S[x] = Sbox[Lo8 x] ⊕ swap(Sbox[Hi8 x])` -/
def tkipSboxLo (i : UInt8) : UInt16 :=
  let s := Aes.sb i
  let d := Aes.xtime s
  (d.toUInt16 <<< 8) ||| (d ^^^ s).toUInt16

def swap16 (v : UInt16) : UInt16 := (v <<< 8) ||| (v >>> 8)

def tkipS (x : UInt16) : UInt16 := tkipSboxLo x.toUInt8 ^^^ swap16 (tkipSboxLo (x >>> 8).toUInt8)

def mk16 (hi lo : UInt8) : UInt16 := hi.toUInt16 * 256 + lo.toUInt16
def rotR1 (v : UInt16) : UInt16 := (v >>> 1) ||| (v <<< 15)
def tkB (tk : Bytes) (i : Nat) : UInt8 := tk.getD i 0

/-- byte `k` (0 = least significant) of the 48-bit TSC -/
def tscByte (tsc : Nat) (k : Nat) : UInt8 := (tsc / 256 ^ k % 256).toUInt8

/-- PHASE1_STEP2, iteration `i` -/
def phase1Step (tk : Bytes) (t : List UInt16) (i : Nat) : List UInt16 :=
  let j := 2 * (i % 2)
  let g (k : Nat) := t.getD k 0
  let t0 := g 0 + tkipS (g 4 ^^^ mk16 (tkB tk (1 + j)) (tkB tk (0 + j)))
  let t1 := g 1 + tkipS (t0 ^^^ mk16 (tkB tk (5 + j)) (tkB tk (4 + j)))
  let t2 := g 2 + tkipS (t1 ^^^ mk16 (tkB tk (9 + j)) (tkB tk (8 + j)))
  let t3 := g 3 + tkipS (t2 ^^^ mk16 (tkB tk (13 + j)) (tkB tk (12 + j)))
  let t4 := g 4 + tkipS (t3 ^^^ mk16 (tkB tk (1 + j)) (tkB tk (0 + j))) + i.toUInt16
  [t0, t1, t2, t3, t4]

/-- phase 1: TTAK from TA, TK and TSC2..TSC5 -/
def phase1 (tk ta : Bytes) (tsc : Nat) : List UInt16 :=
  let t := [mk16 (tscByte tsc 3) (tscByte tsc 2), mk16 (tscByte tsc 5) (tscByte tsc 4),
            mk16 (ta.getD 1 0) (ta.getD 0 0), mk16 (ta.getD 3 0) (ta.getD 2 0), mk16 (ta.getD 5 0) (ta.getD 4 0)]
  (List.range 8).foldl (phase1Step tk) t

/-- phase 2: the 16-byte WEP seed from TTAK, TK and TSC0..TSC1 -/
def phase2 (tk : Bytes) (ttak : List UInt16) (tsc : Nat) : Bytes :=
  let g (k : Nat) := ttak.getD k 0
  let iv16 := mk16 (tscByte tsc 1) (tscByte tsc 0)
  let p5 := g 4 + iv16
  let p0 := g 0 + tkipS (p5 ^^^ mk16 (tkB tk 1) (tkB tk 0))
  let p1 := g 1 + tkipS (p0 ^^^ mk16 (tkB tk 3) (tkB tk 2))
  let p2 := g 2 + tkipS (p1 ^^^ mk16 (tkB tk 5) (tkB tk 4))
  let p3 := g 3 + tkipS (p2 ^^^ mk16 (tkB tk 7) (tkB tk 6))
  let p4 := g 4 + tkipS (p3 ^^^ mk16 (tkB tk 9) (tkB tk 8))
  let p5 := p5 + tkipS (p4 ^^^ mk16 (tkB tk 11) (tkB tk 10))
  let p0 := p0 + rotR1 (p5 ^^^ mk16 (tkB tk 13) (tkB tk 12))
  let p1 := p1 + rotR1 (p0 ^^^ mk16 (tkB tk 15) (tkB tk 14))
  let p2 := p2 + rotR1 p1
  let p3 := p3 + rotR1 p2
  let p4 := p4 + rotR1 p3
  let p5 := p5 + rotR1 p4
  let lo (v : UInt16) : UInt8 := v.toUInt8
  let hi (v : UInt16) : UInt8 := (v >>> 8).toUInt8
  [tscByte tsc 1, (tscByte tsc 1 ||| 0x20) &&& 0x7f, tscByte tsc 0, lo ((p5 ^^^ mk16 (tkB tk 1) (tkB tk 0)) >>> 1),
   lo p0, hi p0, lo p1, hi p1, lo p2, hi p2, lo p3, hi p3, lo p4, hi p4, lo p5, hi p5]

def tkipSeed (tk ta : Bytes) (tsc : Nat) : Bytes := phase2 tk (phase1 tk ta tsc) tsc

/-- the 8-byte TKIP header: TSC1, WEPSeed[1], TSC0, KeyID byte (ExtIV set), TSC2..TSC5 -/
def tkipHeader (tsc : Nat) (keyIdByte : UInt8) : Bytes :=
  [tscByte tsc 1, (tscByte tsc 1 ||| 0x20) &&& 0x7f, tscByte tsc 0, keyIdByte,
   tscByte tsc 2, tscByte tsc 3, tscByte tsc 4, tscByte tsc 5]

/-- the TSC carried by a TKIP header -/
def tkipTscOf (body : Bytes) : Nat :=
  let b (k : Nat) := (body.getD k 0).toNat
  b 2 + 256 * (b 0 + 256 * (b 4 + 256 * (b 5 + 256 * (b 6 + 256 * b 7))))

/-- TKIP encapsulation of one MPDU; `mic` is the 8-byte Michael value of the MSDU (computed by the caller) -/
def tkipEncap (tk ta : Bytes) (tsc : Nat) (keyIdByte : UInt8) (m mic : Bytes) : Bytes :=
  let d := m ++ mic
  tkipHeader tsc keyIdByte ++ xorBytes (rc4Stream (tkipSeed tk ta tsc) (d.length + 4)) (d ++ le32 (crc32Spec d))

/-- decapsulation: (data, Michael field) if the ICV verifies -/
def tkipDecap (tk ta body : Bytes) : Option (Bytes × Bytes) :=
  if body.length < 20 then none else
  let c := body.drop 8
  let p := xorBytes (rc4Stream (tkipSeed tk ta (tkipTscOf body)) c.length) c
  let d := p.take (p.length - 4)
  if p.drop (p.length - 4) = le32 (crc32Spec d) then some (d.take (d.length - 8), d.drop (d.length - 8)) else none

/-! Michael (11.4.2.3) -/

def le32Of (b : Bytes) (k : Nat) : UInt32 :=
  (b.getD k 0).toUInt32 ||| ((b.getD (k + 1) 0).toUInt32 <<< 8) ||| ((b.getD (k + 2) 0).toUInt32 <<< 16) |||
    ((b.getD (k + 3) 0).toUInt32 <<< 24)

def rol32 (v : UInt32) (n : UInt32) : UInt32 := (v <<< n) ||| (v >>> (32 - n))
def ror32 (v : UInt32) (n : UInt32) : UInt32 := (v >>> n) ||| (v <<< (32 - n))
def xswap (v : UInt32) : UInt32 := ((v &&& 0xff00ff00) >>> 8) ||| ((v &&& 0x00ff00ff) <<< 8)

def michaelBlock (lr : UInt32 × UInt32) (w : UInt32) : UInt32 × UInt32 :=
  let l := lr.1 ^^^ w
  let r := lr.2 ^^^ rol32 l 17
  let l := l + r
  let r := r ^^^ xswap l
  let l := l + r
  let r := r ^^^ rol32 l 3
  let l := l + r
  let r := r ^^^ ror32 l 2
  let l := l + r
  (l, r)

def michael (key da sa : Bytes) (prio : UInt8) (data : Bytes) : Bytes :=
  let m := da ++ sa ++ [prio, 0, 0, 0] ++ data ++ [0x5a, 0, 0, 0, 0]
  let m := m ++ List.replicate ((4 - m.length % 4) % 4) 0
  let (l, r) := (List.range (m.length / 4)).foldl (fun lr k => michaelBlock lr (le32Of m (4 * k))) (le32Of key 0, le32Of key 4)
  le32 l.toBitVec ++ le32 r.toBitVec

/-- destination / source address of the MSDU, from the MAC header bytes -/
def daOf (h : Bytes) : Bytes :=
  if h.getD 1 0 &&& 1 != 0 then (h.drop 16).take 6 else (h.drop 4).take 6
def saOf (h : Bytes) : Bytes :=
  let toDS := h.getD 1 0 &&& 1 != 0
  let fromDS := h.getD 1 0 &&& 2 != 0
  if toDS && fromDS then (h.drop 24).take 6 else if fromDS then (h.drop 16).take 6 else (h.drop 10).take 6

/-- Michael verification of a decapsulated TKIP MSDU carried in one MPDU with MAC header `h`: the MIC key is
    PTK[48..56) for frames from the authenticator (from-DS) and PTK[56..64) for frames from the supplicant (to-DS);
    for IBSS / 4-address frames the key half is not defined by the pairwise key hierarchy and nothing is demanded -/
def michaelVerifies (ptk h m mic : Bytes) : Bool :=
  let toDS := h.getD 1 0 &&& 1 != 0
  let fromDS := h.getD 1 0 &&& 2 != 0
  if toDS == fromDS then true else
  let key := if toDS then (ptk.drop 56).take 8 else (ptk.drop 48).take 8
  let prio : UInt8 := if h.getD 0 0 &&& 0x80 != 0 then h.getD (if toDS && fromDS then 30 else 24) 0 &&& 0x0f else 0
  michael key (daOf h) (saOf h) prio m == mic

/-! ### CCMP (11.4.3) over the MAC header bytes `h` (24, 26, 30 or 32 bytes; 4 more with an HT Control field) -/

def hasA4 (h : Bytes) : Bool := h.getD 1 0 &&& 3 = 3
/-- QoS data subtypes: bit 7 of the first frame-control byte -/
def hasQos (h : Bytes) : Bool := h.getD 0 0 &&& 0x80 ≠ 0
/-- +HTC: a QoS data frame with the Order bit set carries a 4-octet HT Control field behind the QoS control field
    (8.2.4.1.10, 8.2.4.6) -/
def hasHtc (h : Bytes) : Bool := hasQos h && h.getD 1 0 &&& 0x80 != 0
def hdrLen (h : Bytes) : Nat :=
  24 + (if hasA4 h then 6 else 0) + (if hasQos h then 2 else 0) + (if hasHtc h then 4 else 0)
def qosOffset (h : Bytes) : Nat := if hasA4 h then 30 else 24

/-- mask of the second frame-control octet in the AAD: Retry, PwrMgt, MoreData masked; the Order bit masked in all
    data frames that contain a QoS control field, unmasked otherwise -/
def fc1Mask (h : Bytes) : UInt8 := if hasQos h then 0x47 else 0xc7

/-- AAD (11.4.3.3.3): FC with subtype bits 4-6, Retry, PwrMgt, MoreData (and Order, for QoS data frames) masked and
    Protected set; A1 A2 A3; SC with the sequence number masked; A4 if present; QC with all but the TID masked if
    present.  The HT Control field is not part of the AAD. -/
def ccmpAad (h : Bytes) : Bytes :=
  [h.getD 0 0 &&& 0x8f, (h.getD 1 0 &&& fc1Mask h) ||| 0x40] ++ (h.drop 4).take 18 ++ [h.getD 22 0 &&& 0x0f, 0] ++
  (if hasA4 h then (h.drop 24).take 6 else []) ++
  (if hasQos h then [h.getD (qosOffset h) 0 &&& 0x0f, 0] else [])

/-- the six PN bytes, most significant first -/
def pnBytes (pn : Nat) : Bytes := [5, 4, 3, 2, 1, 0].map (tscByte pn)

/-- nonce (11.4.3.3.4): priority ‖ A2 ‖ PN -/
def ccmpNonce (h : Bytes) (pn : Nat) : Bytes :=
  [if hasQos h then h.getD (qosOffset h) 0 &&& 0x0f else 0] ++ (h.drop 10).take 6 ++ pnBytes pn

/-- the 8-byte CCMP header: PN0 PN1 Rsvd KeyID-byte(ExtIV set) PN2 PN3 PN4 PN5 -/
def ccmpHeader (pn : Nat) (keyIdByte : UInt8) : Bytes :=
  [tscByte pn 0, tscByte pn 1, 0, keyIdByte, tscByte pn 2, tscByte pn 3, tscByte pn 4, tscByte pn 5]

def ccmpPnOf (body : Bytes) : Nat :=
  let b (k : Nat) := (body.getD k 0).toNat
  b 0 + 256 * (b 1 + 256 * (b 4 + 256 * (b 5 + 256 * (b 6 + 256 * b 7))))

/-- 16-byte blocks of a byte string, the last one zero-padded (fuel = length) -/
def blocks16 : Nat → Bytes → List Bytes
  | 0, _ => []
  | f + 1, b => if b.isEmpty then [] else (b.take 16 ++ List.replicate (16 - min b.length 16) 0) :: blocks16 f (b.drop 16)

/-- CBC-MAC with zero IV (RFC 3610 §2.2) -/
def cbcMac (E : Bytes → Bytes) (blocks : List Bytes) : Bytes :=
  blocks.foldl (fun x b => E (xorBytes x b)) (List.replicate 16 0)

def be16 (n : Nat) : Bytes := [(n / 256 % 256).toUInt8, (n % 256).toUInt8]

/-- counter-mode key stream block `i` (RFC 3610 §2.3) with L = 2 -/
def ctrBlock (E : Bytes → Bytes) (nonce : Bytes) (i : Nat) : Bytes := E ([0x01] ++ nonce ++ be16 i)

def ctrXor (E : Bytes → Bytes) (nonce : Bytes) : Nat → Nat → Bytes → Bytes
  | 0, _, _ => []
  | f + 1, i, d => if d.isEmpty then [] else xorBytes (ctrBlock E nonce i) (d.take 16) ++ ctrXor E nonce f (i + 1) (d.drop 16)

/-- the CCM authentication value T (M = 8, L = 2): first 8 bytes of the CBC-MAC over B0, the encoded AAD, the message -/
def ccmTag (E : Bytes → Bytes) (nonce aad m : Bytes) : Bytes :=
  let b0 := [0x59] ++ nonce ++ be16 m.length
  let a := be16 aad.length ++ aad
  (cbcMac E (b0 :: (blocks16 a.length a ++ blocks16 m.length m))).take 8

/-- CCMP encapsulation of one MPDU -/
def ccmpEncap (E : Bytes → Bytes) (h : Bytes) (pn : Nat) (keyIdByte : UInt8) (m : Bytes) : Bytes :=
  let nonce := ccmpNonce h pn
  ccmpHeader pn keyIdByte ++ ctrXor E nonce m.length 1 m ++
    xorBytes ((ctrBlock E nonce 0).take 8) (ccmTag E nonce (ccmpAad h) m)

/-- decapsulation: the data if the MIC verifies -/
def ccmpDecap (E : Bytes → Bytes) (h body : Bytes) : Option Bytes :=
  if body.length < 16 then none else
  let nonce := ccmpNonce h (ccmpPnOf body)
  let c := (body.drop 8).take (body.length - 16)
  let m := ctrXor E nonce c.length 1 c
  let t := xorBytes ((ctrBlock E nonce 0).take 8) (body.drop (body.length - 8))
  if t = ccmTag E nonce (ccmpAad h) m then some m else none

end Tins.Crypto.Spec
