import TinsModel.Crypto.LemmasCcmp
import TinsModel.Crypto.LemmasWep
import TinsModel.Crypto.Wpa2
/-
  C09 — memory safety of the TKIP / CCMP paths: for every protected body (every length, every content) the
  guards of the (fixed) code keep every raw access inside the payload vector, and nothing is thrown.
-/
set_option linter.unusedSimpArgs false
namespace Tins.Crypto

/-- the QoS-cast precondition `Dot11::from_bytes` guarantees: a frame whose subtype has the QoS bit is a `Dot11QoSData` -/
def Hdr.QosCastOk (h : Hdr) : Prop := (h.subtype &&& 8 != 0) = true → h.qos.isSome = true

set_option maxRecDepth 8000 in
theorem qosbit_gt4 : ∀ x : UInt8, ((x >>> 4) &&& 8 != 0) = true → (x >>> 4) > (4 : UInt8) :=
  forall_uint8 _ (by decide)

theorem Hdr.WF.qosCastOk {h : Hdr} (wf : h.WF) : h.QosCastOk := by
  intro hb
  rw [wf.qos]
  have : h.subtype > (4 : UInt8) := qosbit_gt4 h.fc0 hb
  simpa using this

theorem ccmpAad_ok (h : Hdr) (hq : h.QosCastOk) : ∃ v, ccmpAad h = .ok v := by
  unfold ccmpAad
  by_cases hb : (h.subtype &&& 8 != 0) = true
  · have := hq hb
    obtain ⟨q, hq'⟩ := Option.isSome_iff_exists.mp this
    simp [hb, hq']
  · simp [hb]

/-- `ccmp_decrypt_unicast` on an arbitrary body: a value, never a fault, never an exception -/
theorem ccmpDecrypt_total (ip : InnerParser) (E : BlockFn) (h : Hdr) (hq : h.QosCastOk) (pload : Bytes) :
    ∃ r p', ccmpDecrypt ip E h pload = .ok (r, p') := by
  have hmin : Gen.ccmpMin = 16 := rfl
  by_cases hn : pload.length ≤ 16
  · exact ⟨none, pload, by unfold ccmpDecrypt; simp [hmin, hn]⟩
  · obtain ⟨⟨aad, prio⟩, haad⟩ := ccmpAad_ok h hq
    unfold ccmpDecrypt
    simp only [hmin, if_neg hn, haad,
      rd_ok_of_lt _ pload 7 (by omega), rd_ok_of_lt _ pload 6 (by omega), rd_ok_of_lt _ pload 5 (by omega),
      rd_ok_of_lt _ pload 4 (by omega), rd_ok_of_lt _ pload 1 (by omega), rd_ok_of_lt _ pload 0 (by omega),
      rdRange_ok_of_le _ pload (pload.length - 8) 8 (by omega), Out.bind_ok, Out.pure_eq, bind_pure_comp, pure_bind]
    generalize htot : pload.length - 16 = total
    have hloop := ccmLoop_eq E (([1] : Bytes) ++ ([prio] ++ h.addr2 ++ [pload[7], pload[6], pload[5], pload[4], pload[1], pload[0]]))
      pload total ((total + 15) / 16) rfl (by omega) ((total + 15) / 16) 1
    have h8 : 8 + 16 * (1 - 1) = 8 := rfl
    rw [h8] at hloop
    rw [hloop _ [] (by omega) (by omega)]
    simp only [Out.bind_ok]
    split
    · cases hs : snapParse ip _ with
      | ok s => exact ⟨_, _, rfl⟩
      | throw e => exact ⟨_, _, rfl⟩
      | fault x y z => have := congrArg Out.isFault hs; rw [snapParse_not_fault] at this; simp at this
    · exact ⟨_, _, rfl⟩

/-- `tkip_decrypt_unicast` on an arbitrary body: a value, never a fault, never an exception -/
theorem tkipDecrypt_total (ip : InnerParser) (ptk : Bytes) (h : Hdr) (pload : Bytes) :
    ∃ r p', tkipDecrypt ip ptk h pload = .ok (r, p') := by
  have hmin : Gen.tkipMin = 20 := rfl
  unfold tkipDecrypt
  by_cases hn : pload.length ≤ 20
  · exact ⟨none, pload, by simp [hmin, hn]⟩
  · simp only [hmin, if_neg hn]
    have hseed : ∃ k, tkipSeed ptk h pload = .ok k := by
      unfold tkipSeed
      simp only [rd_ok_of_lt _ pload 7 (by omega), rd_ok_of_lt _ pload 6 (by omega), rd_ok_of_lt _ pload 5 (by omega),
        rd_ok_of_lt _ pload 4 (by omega), rd_ok_of_lt _ pload 2 (by omega), rd_ok_of_lt _ pload 0 (by omega),
        Out.bind_ok, Out.pure_eq]
      exact ⟨_, rfl⟩
    obtain ⟨k, hk⟩ := hseed
    rw [hk]
    simp only []
    rw [icvMatches_eq _ _ _ _ (by simp; omega)]
    split
    · next hh =>
      cases hs : snapParse ip _ with
      | ok s => exact ⟨_, _, rfl⟩
      | throw e => exact ⟨_, _, rfl⟩
      | fault x y z => have := congrArg Out.isFault hs; rw [snapParse_not_fault] at this; simp at this
    · exact ⟨_, _, rfl⟩
    · next e hh => cases hh
    · next a b c hh => cases hh

/-- the data-frame branch of `WPA2Decrypter::decrypt`: a value for every frame and key table -/
theorem wpa2DecryptData_total (ip : InnerParser) (aes : Bytes → BlockFn) (keys : KeyTable) (fr : Frame)
    (hq : fr.hdr.QosCastOk) : ∃ r fr', wpa2DecryptData ip aes keys fr = .ok (r, fr') := by
  unfold wpa2DecryptData
  cases fr.inner.findRaw with
  | none => exact ⟨_, _, rfl⟩
  | some pload =>
    simp only []
    split
    · exact ⟨_, _, rfl⟩
    · cases findKeys keys fr.hdr with
      | none => exact ⟨_, _, rfl⟩
      | some k =>
        simp only []
        have : ∃ r p', decryptUnicast ip aes k fr.hdr pload = .ok (r, p') := by
          unfold decryptUnicast
          split
          · exact ccmpDecrypt_total ip _ fr.hdr hq pload
          · exact tkipDecrypt_total ip _ fr.hdr pload
        obtain ⟨r, p', hd⟩ := this
        rw [hd]
        cases r <;> exact ⟨_, _, rfl⟩

end Tins.Crypto
