import TinsModel.Crypto.Tkip
import TinsModel.Crypto.Spec
import TinsModel.Crypto.LemmasWep
import TinsModel.Crypto.LemmasHdr
import TinsModel.Crypto.LemmasCcmp
/-
  C09 — TKIP: the key mixing of `RC4Key::from_packet` (tables from the source, four double iterations, byte
  joins with shift/or) is the phase 1 / phase 2 key mixing of IEEE 802.11 (S-box derived from the AES S-box,
  eight iterations, Mk16 = 256·hi + lo); `tkip_decrypt_unicast` refines the specification's decapsulation.
-/
set_option linter.unusedSimpArgs false
namespace Tins.Crypto

theorem joinBytes_eq (a b : UInt8) : joinBytes a b = Spec.mk16 a b := by
  unfold joinBytes Spec.mk16
  apply UInt16.toNat_inj.mp
  have ha := a.toNat_lt; have hb := b.toNat_lt
  simp only [UInt16.toNat_or, UInt16.toNat_shiftLeft, UInt16.toNat_add, UInt16.toNat_mul, UInt8.toNat_toUInt16]
  have h8 : UInt16.toNat 8 % 16 = 8 := by decide
  have h256 : UInt16.toNat 256 = 256 := by decide
  rw [h8, h256, Nat.shiftLeft_eq]
  have e1 : a.toNat * 2 ^ 8 % 2 ^ 16 = a.toNat * 2 ^ 8 := Nat.mod_eq_of_lt (by omega)
  have e2 : a.toNat * 256 % 2 ^ 16 = a.toNat * 256 := Nat.mod_eq_of_lt (by omega)
  rw [e1]
  have := Nat.shiftLeft_add_eq_or_of_lt hb a.toNat
  rw [Nat.shiftLeft_eq] at this
  rw [← this, Nat.mod_eq_of_lt (by omega)]

theorem rotate_eq (v : UInt16) : rotate v = Spec.rotR1 v := by
  unfold rotate Spec.rotR1
  congr 1
  apply UInt16.toNat_inj.mp
  have hv := v.toNat_lt
  simp only [UInt16.toNat_and, UInt16.toNat_shiftRight]
  have h1 : UInt16.toNat 1 % 16 = 1 := by decide
  have h2 : UInt16.toNat 0x7fff = 2 ^ 15 - 1 := by decide
  rw [h1, h2, Nat.and_two_pow_sub_one_eq_mod, Nat.shiftRight_eq_div_pow]
  exact Nat.mod_eq_of_lt (by omega)

theorem lowerByte_eq (v : UInt16) : (lowerByte v).toUInt8 = v.toUInt8 := by
  unfold lowerByte
  apply UInt8.toNat_inj.mp
  simp only [UInt16.toNat_toUInt8, UInt16.toNat_and]
  have h2 : UInt16.toNat 0xff = 2 ^ 8 - 1 := by decide
  rw [h2, Nat.and_two_pow_sub_one_eq_mod]
  omega

theorem upperByte_eq (v : UInt16) : (upperByte v).toUInt8 = (v >>> 8).toUInt8 := by
  unfold upperByte
  apply UInt8.toNat_inj.mp
  simp only [UInt16.toNat_toUInt8, UInt16.toNat_and]
  have h2 : UInt16.toNat 0xff = 2 ^ 8 - 1 := by decide
  rw [h2, Nat.and_two_pow_sub_one_eq_mod]
  omega

/-- the S-box tables of src/crypto.cpp are the TKIP S-box of the standard: `Sbox[i] = (2·s)‖(3·s)` with `s` the AES
    S-box, and the second table is the first with its bytes swapped -/
theorem sboxTables_spec : ∀ n : Fin 256,
    Gen.sboxTable0.getD n.val 0 = Spec.tkipSboxLo (UInt8.ofNat n.val) ∧
    Gen.sboxTable1.getD n.val 0 = Spec.swap16 (Spec.tkipSboxLo (UInt8.ofNat n.val)) := by
  decide +kernel

theorem sbox_eq (x : UInt16) : sbox x = Spec.tkipS x := by
  unfold sbox Spec.tkipS
  have hx := x.toNat_lt
  have h1 : (x &&& (0xff : UInt16)).toNat = x.toUInt8.toNat := by
    simp only [UInt16.toNat_and, UInt16.toNat_toUInt8]
    have h2 : UInt16.toNat 0xff = 2 ^ 8 - 1 := by decide
    rw [h2, Nat.and_two_pow_sub_one_eq_mod]
  have h2 : (x >>> 8).toNat = (x >>> 8).toUInt8.toNat := by
    simp only [UInt16.toNat_toUInt8, UInt16.toNat_shiftRight]
    have h8 : UInt16.toNat 8 % 16 = 8 := by decide
    rw [h8, Nat.shiftRight_eq_div_pow]
    omega
  rw [h1, h2]
  have a := sboxTables_spec ⟨x.toUInt8.toNat, x.toUInt8.toNat_lt⟩
  have b := sboxTables_spec ⟨(x >>> 8).toUInt8.toNat, (x >>> 8).toUInt8.toNat_lt⟩
  simp only [UInt8.ofNat_toNat] at a b
  rw [a.1, b.2]

def Ppk.toList (p : Ppk) : List UInt16 := [p.p0, p.p1, p.p2, p.p3, p.p4]

/-- one double iteration of the C++ loop = two iterations (even, odd) of PHASE1_STEP2 -/
theorem phase1Iter_eq (tk : Bytes) (p : Ppk) (i : Nat) (hi : i = 0 ∨ i = 1 ∨ i = 2 ∨ i = 3) :
    (phase1Iter tk p i).toList = Spec.phase1Step tk (Spec.phase1Step tk p.toList (2 * i)) (2 * i + 1) := by
  rcases hi with rfl | rfl | rfl | rfl <;>
    simp [phase1Iter, Spec.phase1Step, Ppk.toList, tkw, Spec.tkB, sbox_eq, joinBytes_eq, UInt16.add_assoc]

theorem mk16_toNat (a b : UInt8) : (Spec.mk16 a b).toNat = a.toNat * 256 + b.toNat := by
  unfold Spec.mk16
  have ha := a.toNat_lt; have hb := b.toNat_lt
  simp only [UInt16.toNat_add, UInt16.toNat_mul, UInt8.toNat_toUInt16]
  have h256 : UInt16.toNat 256 = 256 := by decide
  rw [h256, Nat.mod_eq_of_lt (a := a.toNat * 256) (by omega), Nat.mod_eq_of_lt (by omega)]

theorem mk16_hi (a b : UInt8) : (Spec.mk16 a b >>> 8).toUInt8 = a := by
  apply UInt8.toNat_inj.mp
  have ha := a.toNat_lt; have hb := b.toNat_lt
  simp only [UInt16.toNat_toUInt8, UInt16.toNat_shiftRight, mk16_toNat]
  have h8 : UInt16.toNat 8 % 16 = 8 := by decide
  rw [h8, Nat.shiftRight_eq_div_pow]
  omega

theorem mk16_lo (a b : UInt8) : (Spec.mk16 a b).toUInt8 = b := by
  apply UInt8.toNat_inj.mp
  have ha := a.toNat_lt; have hb := b.toNat_lt
  simp only [UInt16.toNat_toUInt8, mk16_toNat]
  omega

theorem range8 : List.range 8 = [0, 1, 2, 3, 4, 5, 6, 7] := by decide

/-- phase 1: four double iterations = eight iterations of the standard -/
theorem phase1_fold_eq (tk : Bytes) (p : Ppk) :
    ([0, 1, 2, 3].foldl (phase1Iter tk) p).toList = (List.range 8).foldl (Spec.phase1Step tk) p.toList := by
  rw [range8]
  simp only [List.foldl_cons, List.foldl_nil]
  have e0 := phase1Iter_eq tk p 0 (by omega)
  have e1 := phase1Iter_eq tk (phase1Iter tk p 0) 1 (by omega)
  have e2 := phase1Iter_eq tk (phase1Iter tk (phase1Iter tk p 0) 1) 2 (by omega)
  have e3 := phase1Iter_eq tk (phase1Iter tk (phase1Iter tk (phase1Iter tk p 0) 1) 2) 3 (by omega)
  simp only [Nat.mul_zero, Nat.zero_add, Nat.mul_one, Nat.reduceMul, Nat.reduceAdd] at e0 e1 e2 e3
  rw [e3, e2, e1, e0]

/-- the TSC bytes the specification extracts from `b2 + 256·(b0 + 256·(b4 + …))` are the header bytes -/
theorem tkip_tsc_bytes (b0 b2 b4 b5 b6 b7 : UInt8) (k : Nat) (hk : k < 6) :
    Spec.tscByte (b2.toNat + 256 * (b0.toNat + 256 * (b4.toNat + 256 * (b5.toNat + 256 * (b6.toNat + 256 * b7.toNat))))) k
      = [b2, b0, b4, b5, b6, b7].getD k 0 := tscByte_pn b2 b0 b4 b5 b6 b7 k hk

/-- **key mixing**: `RC4Key::from_packet` computes the WEP seed of IEEE 802.11 TKIP phase 1 + phase 2 -/
theorem tkipMix_eq (tk ta : Bytes) (b0 b2 b4 b5 b6 b7 : UInt8) :
    tkipPhase2 tk (tkipPhase1 tk ta b4 b5 b6 b7) b0 b2 =
      Spec.tkipSeed tk ta (b2.toNat + 256 * (b0.toNat + 256 * (b4.toNat + 256 * (b5.toNat + 256 * (b6.toNat + 256 * b7.toNat))))) := by
  unfold Spec.tkipSeed Spec.phase1
  simp only [tkip_tsc_bytes _ _ _ _ _ _ 2 (by omega), tkip_tsc_bytes _ _ _ _ _ _ 3 (by omega),
    tkip_tsc_bytes _ _ _ _ _ _ 4 (by omega), tkip_tsc_bytes _ _ _ _ _ _ 5 (by omega),
    List.getD_cons_zero, List.getD_cons_succ]
  have hp1 := phase1_fold_eq tk ⟨joinBytes b5 b4, joinBytes b7 b6, joinBytes (ta.getD 1 0) (ta.getD 0 0),
    joinBytes (ta.getD 3 0) (ta.getD 2 0), joinBytes (ta.getD 5 0) (ta.getD 4 0)⟩
  simp only [Ppk.toList, joinBytes_eq] at hp1
  rw [← hp1]
  unfold tkipPhase1
  simp only [joinBytes_eq]
  generalize [0, 1, 2, 3].foldl (phase1Iter tk) _ = q
  obtain ⟨q0, q1, q2, q3, q4⟩ := q
  unfold Spec.phase2
  simp only [tkip_tsc_bytes _ _ _ _ _ _ 0 (by omega), tkip_tsc_bytes _ _ _ _ _ _ 1 (by omega),
    List.getD_cons_zero, List.getD_cons_succ]
  simp only [tkipPhase2, Ppk.toList, tkw, Spec.tkB, sbox_eq, joinBytes_eq, rotate_eq, lowerByte_eq, upperByte_eq, mk16_hi, mk16_lo,
    List.getD_cons_zero, List.getD_cons_succ]

theorem specSeed_length (tk ta : Bytes) (tsc : Nat) : (Spec.tkipSeed tk ta tsc).length = 16 := rfl

/-- `RC4Key::from_packet` on a body of at least 8 bytes: the WEP seed of the specification for the TSC in the header -/
theorem tkipSeed_eq_spec (ptk : Bytes) (h : Hdr) (pload : Bytes) (hn : 8 ≤ pload.length) :
    tkipSeed ptk h pload = .ok (Spec.tkipSeed (ptk.drop 32) h.addr2 (Spec.tkipTscOf pload)) := by
  unfold tkipSeed
  simp only [rd_ok_of_lt _ pload 7 (by omega), rd_ok_of_lt _ pload 6 (by omega), rd_ok_of_lt _ pload 5 (by omega),
    rd_ok_of_lt _ pload 4 (by omega), rd_ok_of_lt _ pload 2 (by omega), rd_ok_of_lt _ pload 0 (by omega),
    Out.bind_ok, Out.pure_eq]
  rw [tkipMix_eq]
  unfold Spec.tkipTscOf
  simp only [getD_eq_getElem pload 0 (by omega), getD_eq_getElem pload 2 (by omega), getD_eq_getElem pload 4 (by omega),
    getD_eq_getElem pload 5 (by omega), getD_eq_getElem pload 6 (by omega), getD_eq_getElem pload 7 (by omega)]

/-- **refinement**: on every body longer than 20 bytes `tkip_decrypt_unicast` returns the SNAP parse of the data part of
    the specification's TKIP decapsulation (null when the ICV does not verify) -/
theorem tkipDecrypt_refines (ip : InnerParser) (ptk : Bytes) (h : Hdr) (pload : Bytes) (hn : 20 < pload.length) :
    ∃ p', tkipDecrypt ip ptk h pload =
      .ok (snapResult ip ((Spec.tkipDecap (ptk.drop 32) h.addr2 pload).map (·.1)), p') := by
  have hmin : Gen.tkipMin = 20 := rfl
  unfold tkipDecrypt
  rw [hmin, if_neg (by omega), tkipSeed_eq_spec ptk h pload (by omega)]
  simp only []
  generalize hkey : Spec.tkipSeed (ptk.drop 32) h.addr2 (Spec.tkipTscOf pload) = key
  have hklen : 0 < key.length := by rw [← hkey, specSeed_length]; omega
  have hdec : rc4 key (pload.drop 8) = xorBytes (Spec.rc4Stream key (pload.drop 8).length) (pload.drop 8) :=
    rc4_eq_spec _ _ hklen
  generalize hp : rc4 key (pload.drop 8) = p at *
  have hplen : p.length = pload.length - 8 := by rw [← hp]; simp
  have htake : (p ++ pload.drop (pload.length - 8)).take (pload.length - 12) = p.take (p.length - 4) := by
    rw [List.take_append_of_le_length (by omega)]; congr 1; omega
  have hicv : ((p ++ pload.drop (pload.length - 8)).drop (pload.length - 12)).take 4 = p.drop (p.length - 4) := by
    rw [List.drop_append_of_le_length (by omega), List.take_append_of_le_length (by simp; omega)]
    have : pload.length - 12 = p.length - 4 := by omega
    rw [this, List.take_of_length_le (by simp; omega)]
  have hsnap : (p ++ pload.drop (pload.length - 8)).take (pload.length - 20) =
      (p.take (p.length - 4)).take ((p.take (p.length - 4)).length - 8) := by
    rw [List.take_append_of_le_length (by omega), List.take_take]
    congr 1
    simp; omega
  rw [icvMatches_eq _ _ _ _ (by simp; omega), htake, hicv, hsnap, crc32_eq_spec]
  unfold Spec.tkipDecap
  rw [if_neg (by omega)]
  simp only [hkey]
  rw [← hdec]
  by_cases hv : p.drop (p.length - 4) = le32 (crc32Spec (p.take (p.length - 4)))
  · simp only [hv, decide_true, if_true, Option.map_some]
    cases hs : snapParse ip ((p.take (p.length - 4)).take ((p.take (p.length - 4)).length - 8)) with
    | ok s => exact ⟨p ++ pload.drop (pload.length - 8), by simp only [snapResult, hs]⟩
    | throw e => exact ⟨p ++ pload.drop (pload.length - 8), by simp only [snapResult, hs]⟩
    | fault x y z => have := congrArg Out.isFault hs; rw [snapParse_not_fault] at this; simp at this
  · simp only [hv, decide_false, if_false, Bool.false_eq_true, Option.map_none]
    exact ⟨p ++ pload.drop (pload.length - 8), by simp only [snapResult]⟩

theorem tkipTscOf_header (tsc : Nat) (htsc : tsc < 2 ^ 48) (kid : UInt8) (rest : Bytes) :
    Spec.tkipTscOf (Spec.tkipHeader tsc kid ++ rest) = tsc := by
  unfold Spec.tkipTscOf Spec.tkipHeader
  simp only [List.cons_append, List.nil_append, List.getD_cons_zero, List.getD_cons_succ, tscByte_toNat, Nat.reducePow]
  have : (2 : Nat) ^ 48 = 281474976710656 := by decide
  omega

/-- **TKIP round trip at the specification level**: every temporal key, transmitter address, 48-bit TSC, key-id byte,
    data and 8-byte Michael value -/
theorem spec_tkip_roundtrip (tk ta : Bytes) (tsc : Nat) (htsc : tsc < 2 ^ 48) (kid : UInt8) (m mic : Bytes)
    (hmic : mic.length = 8) : Spec.tkipDecap tk ta (Spec.tkipEncap tk ta tsc kid m mic) = some (m, mic) := by
  unfold Spec.tkipEncap
  dsimp only
  generalize hseed : Spec.tkipSeed tk ta tsc = seed
  generalize hx : xorBytes (Spec.rc4Stream seed ((m ++ mic).length + 4)) (m ++ mic ++ le32 (crc32Spec (m ++ mic))) = x
  have hxlen : x.length = m.length + 12 := by rw [← hx]; simp [hmic]
  have hhdr : (Spec.tkipHeader tsc kid).length = 8 := rfl
  unfold Spec.tkipDecap
  rw [if_neg (by simp [hhdr, hxlen]; omega)]
  have htsc' : Spec.tkipTscOf (Spec.tkipHeader tsc kid ++ x) = tsc := tkipTscOf_header tsc htsc kid x
  have hdrop : (Spec.tkipHeader tsc kid ++ x).drop 8 = x := by
    rw [List.drop_append_of_le_length (by omega), List.drop_of_length_le (by omega), List.nil_append]
  simp only [htsc', hdrop, hseed]
  have hcancel : xorBytes (Spec.rc4Stream seed x.length) x = m ++ mic ++ le32 (crc32Spec (m ++ mic)) := by
    have hl : x.length = (m ++ mic).length + 4 := by rw [hxlen]; simp [hmic]
    rw [hl, ← hx, xorBytes_cancel_left _ _ (by simp; omega)]
  rw [hcancel]
  have h1 : (m ++ mic ++ le32 (crc32Spec (m ++ mic))).length - 4 = (m ++ mic).length := by simp; omega
  rw [h1, List.take_left' rfl, List.drop_left' rfl]
  simp only [if_true]
  have h2 : (m ++ mic).length - 8 = m.length := by simp [hmic]
  rw [h2, List.take_left' rfl, List.drop_left' rfl]

end Tins.Crypto
