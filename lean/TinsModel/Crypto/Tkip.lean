import TinsModel.Crypto.Wep
/-
  C09 — TKIP: `RC4Key::from_packet` (phase 1 / phase 2 key mixing, src/crypto.cpp l.228-291) and
  `SessionKeys::tkip_decrypt_unicast`, code-shaped, `uint16_t` arithmetic.
-/
namespace Tins.Crypto

/-- `sbox(i)` -/
def sbox (i : UInt16) : UInt16 :=
  Gen.sboxTable0.getD (i &&& (0xff : UInt16)).toNat 0 ^^^ Gen.sboxTable1.getD (i >>> 8).toNat 0

/-- `join_bytes(b1, b2)` -/
def joinBytes (b1 b2 : UInt8) : UInt16 := (b1.toUInt16 <<< 8) ||| b2.toUInt16
/-- `rotate(value)` -/
def rotate (v : UInt16) : UInt16 := ((v >>> 1) &&& (0x7fff : UInt16)) ||| (v <<< 15)
def upperByte (v : UInt16) : UInt16 := (v >>> 8) &&& (0xff : UInt16)
def lowerByte (v : UInt16) : UInt16 := v &&& (0xff : UInt16)

/-- `join_bytes(tk[hi], tk[lo])` -/
def tkw (tk : Bytes) (hi lo : Nat) : UInt16 := joinBytes (tk.getD hi 0) (tk.getD lo 0)

structure Ppk where
  p0 : UInt16
  p1 : UInt16
  p2 : UInt16
  p3 : UInt16
  p4 : UInt16
deriving DecidableEq, Repr

/-- one iteration `i` of the `for (size_t i = 0; i < 4; ++i)` loop of phase 1 -/
def phase1Iter (tk : Bytes) (p : Ppk) (i : Nat) : Ppk :=
  let p0 := p.p0 + sbox (p.p4 ^^^ tkw tk 1 0)
  let p1 := p.p1 + sbox (p0 ^^^ tkw tk 5 4)
  let p2 := p.p2 + sbox (p1 ^^^ tkw tk 9 8)
  let p3 := p.p3 + sbox (p2 ^^^ tkw tk 13 12)
  let p4 := p.p4 + (sbox (p3 ^^^ tkw tk 1 0) + (2 * i).toUInt16)
  let p0 := p0 + sbox (p4 ^^^ tkw tk 3 2)
  let p1 := p1 + sbox (p0 ^^^ tkw tk 7 6)
  let p2 := p2 + sbox (p1 ^^^ tkw tk 11 10)
  let p3 := p3 + sbox (p2 ^^^ tkw tk 15 14)
  let p4 := p4 + (sbox (p3 ^^^ tkw tk 3 2) + (2 * i + 1).toUInt16)
  ⟨p0, p1, p2, p3, p4⟩

/-- phase 1: `ppk[0..4]` from the upper four TSC bytes (`pload[4..7]`) and the transmitter address -/
def tkipPhase1 (tk ta : Bytes) (b4 b5 b6 b7 : UInt8) : Ppk :=
  let p : Ppk := ⟨joinBytes b5 b4, joinBytes b7 b6,
                  joinBytes (ta.getD 1 0) (ta.getD 0 0), joinBytes (ta.getD 3 0) (ta.getD 2 0),
                  joinBytes (ta.getD 5 0) (ta.getD 4 0)⟩
  [0, 1, 2, 3].foldl (phase1Iter tk) p

/-- phase 2: the 16-byte RC4 key from `ppk[0..4]`, the temporal key and the lower two TSC bytes
    (`pload[0]` = TSC1, `pload[2]` = TSC0) -/
def tkipPhase2 (tk : Bytes) (p : Ppk) (b0 b2 : UInt8) : Bytes :=
  let iv16 := joinBytes b0 b2
  let p5 := p.p4 + iv16
  let p0 := p.p0 + sbox (p5 ^^^ tkw tk 1 0)
  let p1 := p.p1 + sbox (p0 ^^^ tkw tk 3 2)
  let p2 := p.p2 + sbox (p1 ^^^ tkw tk 5 4)
  let p3 := p.p3 + sbox (p2 ^^^ tkw tk 7 6)
  let p4 := p.p4 + sbox (p3 ^^^ tkw tk 9 8)
  let p5 := p5 + sbox (p4 ^^^ tkw tk 11 10)
  let p0 := p0 + rotate (p5 ^^^ tkw tk 13 12)
  let p1 := p1 + rotate (p0 ^^^ tkw tk 15 14)
  let p2 := p2 + rotate p1
  let p3 := p3 + rotate p2
  let p4 := p4 + rotate p3
  let p5 := p5 + rotate p4
  let k0 := (upperByte iv16).toUInt8
  [k0, (k0 ||| 0x20) &&& 0x7f, (lowerByte iv16).toUInt8,
   (lowerByte ((p5 ^^^ tkw tk 1 0) >>> 1)).toUInt8,
   (lowerByte p0).toUInt8, (upperByte p0).toUInt8, (lowerByte p1).toUInt8, (upperByte p1).toUInt8,
   (lowerByte p2).toUInt8, (upperByte p2).toUInt8, (lowerByte p3).toUInt8, (upperByte p3).toUInt8,
   (lowerByte p4).toUInt8, (upperByte p4).toUInt8, (lowerByte p5).toUInt8, (upperByte p5).toUInt8]

/-- `RC4Key::from_packet(dot11, raw, ptk)`: the eight header bytes `pload[0..7]` are raw reads -/
def tkipSeed (ptk : Bytes) (h : Hdr) (pload : Bytes) : Out Bytes := do
  let site := "RC4Key::from_packet pload[0..7]"
  let b0 ← rd site pload 0
  let b2 ← rd site pload 2
  let b4 ← rd site pload 4
  let b5 ← rd site pload 5
  let b6 ← rd site pload 6
  let b7 ← rd site pload 7
  let tk := ptk.drop 32
  pure (tkipPhase2 tk (tkipPhase1 tk h.addr2 b4 b5 b6 b7) b0 b2)

/-- `SNAP* SessionKeys::tkip_decrypt_unicast(dot11, raw)`: the SNAP (or null) and the payload afterwards -/
def tkipDecrypt (ip : InnerParser) (ptk : Bytes) (h : Hdr) (pload : Bytes) : Out (Option Snap × Bytes) :=
  let n := pload.length
  -- at least 20 bytes for IV + crc + stuff
  if n ≤ Gen.tkipMin then .ok (none, pload) else
  match tkipSeed ptk h pload with
  | .ok key =>
    let dec := rc4 key (pload.drop 8)
    let pload' := dec ++ pload.drop (n - 8)
    let crc := crc32 (pload'.take (n - 12))
    match icvMatches "tkip_decrypt_unicast pload[size-12..size-9]" pload' (n - 12) crc with
    | .ok true =>
      match snapParse ip (pload'.take (n - 20)) with
      | .ok s => .ok (some s, pload')
      | .throw _ => .ok (none, pload')              -- catch (exception_base&) { return 0; }
      | .fault a b c => .fault a b c
    | .ok false => .ok (none, pload')
    | .throw e => .throw e
    | .fault a b c => .fault a b c
  | .throw e => .throw e
  | .fault a b c => .fault a b c

end Tins.Crypto
