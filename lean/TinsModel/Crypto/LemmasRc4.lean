import TinsModel.Crypto.RC4
import TinsModel.Crypto.Spec
/-
  C09 — the RC4 of src/crypto.cpp (wrapping key iterator, XOR applied while the stream advances) is the
  textbook RC4 of the specification (key byte `i mod len`, key stream XORed afterwards).
-/
namespace Tins.Crypto

theorem next_pos (i len : Nat) (hlen : 0 < len) :
    (if i % len + 1 = len then 0 else i % len + 1) = (i + 1) % len := by
  have hp : i % len < len := Nat.mod_lt _ hlen
  have hdiv : len * (i / len) + i % len = i := Nat.div_add_mod i len
  generalize i % len = r at *
  generalize i / len = q at *
  subst hdiv
  by_cases h : r + 1 = len
  · rw [if_pos h]
    have : len * q + r + 1 = len * q + len := by omega
    rw [this, Nat.mul_add_mod_self_left, Nat.mod_self]
  · rw [if_neg h]
    have : len * q + r + 1 = len * q + (r + 1) := by omega
    rw [this, Nat.mul_add_mod_self_left, Nat.mod_eq_of_lt (by omega)]

theorem ksa_fold (key : Bytes) (hlen : 0 < key.length) (n i0 : Nat) (S : RC4State) (j : Nat) :
    let m := (List.range' i0 n).foldl (ksaStep key) ⟨S, j, i0 % key.length⟩
    let s := (List.range' i0 n).foldl (Spec.ksaStep key) (S, j)
    m.S = s.1 ∧ m.j = s.2 ∧ m.pos = (i0 + n) % key.length := by
  induction n generalizing i0 S j with
  | zero => simp
  | succ n ih =>
    simp only [List.range'_succ, List.foldl_cons]
    have hstep : ksaStep key ⟨S, j, i0 % key.length⟩ i0 =
        ⟨(Spec.ksaStep key (S, j) i0).1, (Spec.ksaStep key (S, j) i0).2, (i0 + 1) % key.length⟩ := by
      simp only [ksaStep, Spec.ksaStep, next_pos i0 key.length hlen]
    rw [hstep]
    have := ih (i0 + 1) (Spec.ksaStep key (S, j) i0).1 (Spec.ksaStep key (S, j) i0).2
    simp only at this
    refine ⟨this.1, this.2.1, ?_⟩
    rw [this.2.2]; congr 1; omega

/-- the key schedule with the wrapping iterator is the textbook key schedule (non-empty key) -/
theorem rc4Key_eq_spec (key : Bytes) (hlen : 0 < key.length) : rc4Key key = Spec.ksa key := by
  unfold rc4Key Spec.ksa
  rw [List.range_eq_range']
  have := ksa_fold key hlen 256 0 rc4Init 0
  simp only [Nat.zero_mod] at this
  exact this.1

theorem rc4Xor_eq_stream (S : RC4State) (i j : Nat) (d : Bytes) :
    rc4Xor S i j d = xorBytes (Spec.prga S i j d.length) d := by
  induction d generalizing S i j with
  | nil => simp [rc4Xor, xorBytes]
  | cons x xs ih =>
    simp only [rc4Xor, List.length_cons, Spec.prga, xorBytes_cons, ih]
    congr 1
    exact UInt8.xor_comm ..

/-- `rc4` of the model = XOR with the specification's key stream -/
theorem rc4_eq_spec (key d : Bytes) (hlen : 0 < key.length) :
    rc4 key d = xorBytes (Spec.rc4Stream key d.length) d := by
  unfold rc4 Spec.rc4Stream
  rw [rc4Key_eq_spec key hlen, rc4Xor_eq_stream]

@[simp] theorem prga_length (S : RC4State) (i j n : Nat) : (Spec.prga S i j n).length = n := by
  induction n generalizing S i j with
  | zero => rfl
  | succ n ih => simp [Spec.prga, ih]

@[simp] theorem rc4Stream_length (key : Bytes) (n : Nat) : (Spec.rc4Stream key n).length = n := by
  simp [Spec.rc4Stream]

end Tins.Crypto
