import TinsModel.Crypto.Crc
import TinsModel.Crypto.RC4
import TinsModel.Crypto.Frame
/-
  C09 — `WEPDecrypter` (src/crypto.cpp l.309-384), code-shaped.
-/
namespace Tins.Crypto

/-- the four comparisons `pload[n - k] != ((crc >> s) & 0xff)` — raw reads of the payload vector -/
def icvMatches (site : String) (pload : Bytes) (at_ : Nat) (crc : BitVec 32) : Out Bool := do
  let b0 ← rd site pload at_
  let b1 ← rd site pload (at_ + 1)
  let b2 ← rd site pload (at_ + 2)
  let b3 ← rd site pload (at_ + 3)
  pure ([b0, b1, b2, b3] == le32 crc)

/-- `PDU* WEPDecrypter::decrypt(RawPDU& raw, const string& password)`:
    result = the SNAP built from the decrypted bytes (or null), and the payload vector afterwards
    (RC4 writes its output four bytes to the left, in place). -/
def wepDecryptRaw (ip : InnerParser) (pload : Bytes) (password : Bytes) : Out (Option Snap × Bytes) :=
  let n := pload.length
  -- We require at least the IV, the encrypted checksum and something to decrypt
  if n ≤ Gen.wepMin then .ok (none, pload) else
  -- key_buffer_ = IV (3 bytes) followed by the password
  let key := pload.take 3 ++ password
  let dec := rc4 key (pload.drop 4)
  let pload' := dec ++ pload.drop (n - 4)
  let payloadSize := n - 8
  let crc := crc32 (pload'.take payloadSize)
  match icvMatches "WEPDecrypter::decrypt pload[size-8..size-5]" pload' (n - 8) crc with
  | .ok true =>
    match snapParse ip (pload'.take payloadSize) with
    | .ok s => .ok (some s, pload')
    | .throw _ => .ok (none, pload')              -- catch (exception_base&) { return 0; }
    | .fault a b c => .fault a b c
  | .ok false => .ok (none, pload')
  | .throw e => .throw e
  | .fault a b c => .fault a b c

abbrev Addr := Bytes
/-- `passwords_` -/
abbrev WepPasswords := List (Addr × Bytes)

/-- the address `WEPDecrypter::decrypt(PDU&)` looks the password up with -/
def wepLookupAddr (h : Hdr) : Addr :=
  if !h.fromDS && !h.toDS then h.addr3
  else if !h.fromDS && h.toDS then h.addr1
  else if h.fromDS && !h.toDS then h.addr2
  else h.addr3

/-- `bool WEPDecrypter::decrypt(PDU& pdu)`: returns the result and the frame afterwards.
    (`dot11->inner_pdu(decrypt(*raw, pw))` replaces — and frees — whatever hung below the Dot11Data,
    also when the result is null.) -/
def wepDecrypt (ip : InnerParser) (pws : WepPasswords) (fr : Frame) : Out (Bool × Frame) :=
  -- if (dot11 && dot11->wep())
  if !fr.hdr.wep then .ok (false, fr) else
  match fr.inner.findRaw with
  | none => .ok (false, fr)
  | some pload =>
    match lookup pws (wepLookupAddr fr.hdr) with
    | none => .ok (false, fr)
    | some pw =>
      match wepDecryptRaw ip pload pw with
      | .ok (some s, _) => .ok (true, ⟨fr.hdr.clearWep, .snap s⟩)
      | .ok (none, _) => .ok (false, ⟨fr.hdr, .none⟩)
      | .throw e => .throw e
      | .fault a b c => .fault a b c

end Tins.Crypto
