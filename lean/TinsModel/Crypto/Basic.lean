/-
  C09 — shared definitions of the crypto area: byte strings, the fault-explicit outcome type
  (DESIGN.md §2), raw reads, XOR of byte strings, little-endian words.
  Core Lean only (the driver imports this file).
-/
namespace Tins.Crypto

abbrev Bytes := List UInt8

/-- the libtins exceptions that can occur on the decryption paths -/
inductive Exc where
  | malformedPacket
  | invalidHandshake
  | other
deriving DecidableEq, Repr

def Exc.name : Exc → String
  | .malformedPacket => "malformed_packet"
  | .invalidHandshake => "invalid_handshake"
  | .other => "other"

/-- Outcome of a piece of C++ that contains raw (unchecked) memory accesses:
    a value, a C++ exception, or an out-of-bounds access (`site`, index, length of the buffer). -/
inductive Out (α : Type) where
  | ok (a : α)
  | throw (e : Exc)
  | fault (site : String) (idx len : Nat)
deriving Repr

namespace Out

def bind {α β} (x : Out α) (f : α → Out β) : Out β :=
  match x with
  | .ok a => f a
  | .throw e => .throw e
  | .fault s i l => .fault s i l

instance : Monad Out where
  pure := .ok
  bind := Out.bind

def isFault {α} : Out α → Bool
  | .fault .. => true
  | _ => false

def isThrow {α} : Out α → Bool
  | .throw _ => true
  | _ => false

@[simp] theorem bind_ok {α β} (a : α) (f : α → Out β) : (Out.ok a >>= f) = f a := rfl
@[simp] theorem bind_throw {α β} (e : Exc) (f : α → Out β) : (Out.throw e >>= f) = .throw e := rfl
@[simp] theorem bind_fault {α β} (s i l) (f : α → Out β) : (Out.fault s i l >>= f) = .fault s i l := rfl
@[simp] theorem pure_eq {α} (a : α) : (pure a : Out α) = .ok a := rfl
@[simp] theorem isFault_ok {α} (a : α) : (Out.ok a).isFault = false := rfl
@[simp] theorem isFault_throw {α} (e : Exc) : (Out.throw e : Out α).isFault = false := rfl
@[simp] theorem isFault_fault {α} (s i l) : (Out.fault s i l : Out α).isFault = true := rfl

end Out

/-- a raw, unchecked read `buf[i]` of the C++ (`vector::operator[]`, `*ptr`): faults when out of bounds -/
def rd (site : String) (buf : Bytes) (i : Nat) : Out UInt8 :=
  match buf[i]? with
  | some b => .ok b
  | none => .fault site i buf.length

/-- a raw read of the `n` bytes starting at `i` (`&buf[i]` handed to a loop / memcpy of length `n`) -/
def rdRange (site : String) (buf : Bytes) (i n : Nat) : Out Bytes :=
  if i + n ≤ buf.length then .ok ((buf.drop i).take n) else .fault site (i + n) buf.length

theorem rd_ok_of_lt (site : String) (buf : Bytes) (i : Nat) (h : i < buf.length) :
    rd site buf i = .ok buf[i] := by
  simp [rd, List.getElem?_eq_getElem h]

theorem rdRange_ok_of_le (site : String) (buf : Bytes) (i n : Nat) (h : i + n ≤ buf.length) :
    rdRange site buf i n = .ok ((buf.drop i).take n) := by
  simp [rdRange, h]

/-- byte-wise XOR; the result has the length of the shorter argument (`xor_range` over `min` bytes) -/
def xorBytes (a b : Bytes) : Bytes := List.zipWith (· ^^^ ·) a b

@[simp] theorem xorBytes_length (a b : Bytes) : (xorBytes a b).length = min a.length b.length := by
  simp [xorBytes]

theorem xorBytes_nil_left (b : Bytes) : xorBytes [] b = [] := by simp [xorBytes]
theorem xorBytes_nil_right (a : Bytes) : xorBytes a [] = [] := by simp [xorBytes]

theorem xorBytes_cons (x y : UInt8) (a b : Bytes) : xorBytes (x :: a) (y :: b) = (x ^^^ y) :: xorBytes a b := rfl

/-- (k ⊕ x) ⊕ k = x on the common prefix -/
theorem xorBytes_cancel_left (k x : Bytes) (h : x.length ≤ k.length) : xorBytes k (xorBytes k x) = x := by
  induction k generalizing x with
  | nil => cases x with
    | nil => rfl
    | cons a x => simp at h
  | cons a k ih =>
    cases x with
    | nil => simp [xorBytes]
    | cons b x =>
      simp only [xorBytes_cons]
      have : a ^^^ (a ^^^ b) = b := by rw [← UInt8.xor_assoc, UInt8.xor_self, UInt8.zero_xor]
      rw [this, ih x (by simpa using h)]

def Bytes.toNatBE (b : Bytes) : Nat := b.foldl (fun acc x => acc * 256 + x.toNat) 0

end Tins.Crypto
