import TinsModel.Crypto.Tkip
import TinsModel.Crypto.Ccmp
/-
  C09 — `WPA2Decrypter` (src/crypto.cpp l.613-751): key table, address-pair extraction and the data-frame
  branch of `decrypt`, code-shaped.  The block cipher is a parameter `aes key block`.
-/
namespace Tins.Crypto

/-- `HWAddress::operator<` (lexicographic) -/
def addrLt : Bytes → Bytes → Bool
  | [], [] => false
  | [], _ :: _ => true
  | _ :: _, [] => false
  | a :: as, b :: bs => if a < b then true else if b < a then false else addrLt as bs

abbrev AddrPair := Addr × Addr

/-- `make_addr_pair` -/
def makeAddrPair (a b : Addr) : AddrPair := if addrLt a b then (a, b) else (b, a)

/-- `extract_addr_pair` -/
def extractAddrPair (h : Hdr) : AddrPair :=
  if h.fromDS && !h.toDS then makeAddrPair h.addr2 h.addr3
  else if !h.fromDS && h.toDS then makeAddrPair h.addr1 h.addr2
  else makeAddrPair h.addr2 h.addr3

/-- `extract_addr_pair_dst` -/
def extractAddrPairDst (h : Hdr) : AddrPair :=
  if h.fromDS && !h.toDS then makeAddrPair h.addr1 h.addr2
  else if !h.fromDS && h.toDS then makeAddrPair h.addr1 h.addr3
  else makeAddrPair h.addr1 h.addr3

/-- `WPA2::SessionKeys` -/
structure SessionKeys where
  ptk : Bytes
  isCcmp : Bool
deriving DecidableEq, Repr

/-- `keys_` -/
abbrev KeyTable := List (AddrPair × SessionKeys)

/-- `SessionKeys::decrypt_unicast`; the AES key is `ptk[32..48)` -/
def decryptUnicast (ip : InnerParser) (aes : Bytes → BlockFn) (k : SessionKeys) (h : Hdr) (pload : Bytes) :
    Out (Option Snap × Bytes) :=
  if k.isCcmp then ccmpDecrypt ip (aes ((k.ptk.drop 32).take 16)) h pload
  else tkipDecrypt ip k.ptk h pload

/-- the key `decrypt` uses for a frame: the (bssid, source) pair first, then the (bssid, destination) pair;
    the other way round for from-DS frames -/
def findKeys (keys : KeyTable) (h : Hdr) : Option SessionKeys :=
  let fromDs := h.fromDS && !h.toDS
  match lookup keys (if fromDs then extractAddrPairDst h else extractAddrPair h) with
  | some k => some k
  | none => lookup keys (if fromDs then extractAddrPair h else extractAddrPairDst h)

/-- the last branch of `WPA2Decrypter::decrypt` (protected data frames) -/
def wpa2DecryptData (ip : InnerParser) (aes : Bytes → BlockFn) (keys : KeyTable) (fr : Frame) : Out (Bool × Frame) :=
  match fr.inner.findRaw with
  | none => .ok (false, fr)
  | some pload =>
    if !fr.hdr.wep then .ok (false, fr) else
    match findKeys keys fr.hdr with
    | none => .ok (false, fr)
    | some k =>
      match decryptUnicast ip aes k fr.hdr pload with
      | .ok (some s, _) => .ok (true, ⟨fr.hdr.clearWep, .snap s⟩)
      | .ok (none, pload') => .ok (false, ⟨fr.hdr, fr.inner.setRaw pload'⟩)
      | .throw e => .throw e
      | .fault a b c => .fault a b c

/-- `add_decryption_keys(addresses, session_keys)` -/
def addDecryptionKeys (keys : KeyTable) (a b : Addr) (k : SessionKeys) : KeyTable :=
  insertKV keys (makeAddrPair a b) k

end Tins.Crypto
