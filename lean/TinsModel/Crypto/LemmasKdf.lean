import TinsModel.Crypto.Handshake
import TinsModel.Crypto.SpecKdf
/-
  C09 — `SessionKeys::SessionKeys(handshake, pmk)` computes the IEEE 802.11 pairwise key hierarchy:
  lexicographic `<` on equally long octet strings is `<` on their big-endian values, the `PKE` buffer is
  label ‖ 0 ‖ Min/Max(addresses) ‖ Min/Max(nonces) ‖ counter, the four HMAC outputs are PRF-640 (whose first 512 / 384
  bits are PRF-512 / PRF-384), the MIC is HMAC-MD5 / HMAC-SHA1-128 by descriptor version over the frame with the
  MIC field zeroed.  Every keyed hash is a parameter.
-/
namespace Tins.Crypto

/-! ### big-endian value versus lexicographic order -/

theorem foldl_be (l : Bytes) (init : Nat) :
    l.foldl (fun acc x => acc * 256 + x.toNat) init = init * 256 ^ l.length + l.foldl (fun acc x => acc * 256 + x.toNat) 0 := by
  induction l generalizing init with
  | nil => simp
  | cons a l ih =>
    simp only [List.foldl_cons, List.length_cons]
    rw [ih (init * 256 + a.toNat), ih (0 * 256 + a.toNat)]
    rw [Nat.pow_succ]
    simp only [Nat.zero_mul, Nat.zero_add, Nat.add_mul]
    rw [Nat.mul_assoc, Nat.mul_comm 256 (256 ^ l.length)]
    omega

theorem toNatBE_cons (a : UInt8) (l : Bytes) : Bytes.toNatBE (a :: l) = a.toNat * 256 ^ l.length + Bytes.toNatBE l := by
  unfold Bytes.toNatBE
  simp only [List.foldl_cons]
  rw [foldl_be]
  simp

theorem toNatBE_lt (l : Bytes) : Bytes.toNatBE l < 256 ^ l.length := by
  induction l with
  | nil => simp [Bytes.toNatBE]
  | cons a l ih =>
    rw [toNatBE_cons, List.length_cons, Nat.pow_succ]
    have ha : a.toNat < 256 := a.toNat_lt
    have : a.toNat * 256 ^ l.length + 256 ^ l.length ≤ 256 ^ l.length * 256 := by
      rw [Nat.mul_comm (256 ^ l.length) 256, ← Nat.succ_mul]
      exact Nat.mul_le_mul_right _ ha
    omega

/-- `HWAddress::operator<` and `std::lexicographical_compare` are the same function -/
theorem addrLt_eq_lexLt (a b : Bytes) : addrLt a b = lexLt a b := by
  induction a generalizing b with
  | nil => cases b <;> rfl
  | cons x a ih =>
    cases b with
    | nil => rfl
    | cons y b => simp only [addrLt, lexLt, ih]

/-- on equally long octet strings, lexicographic `<` is `<` of the big-endian values -/
theorem lexLt_iff_lt (a b : Bytes) (h : a.length = b.length) :
    lexLt a b = decide (Bytes.toNatBE a < Bytes.toNatBE b) := by
  induction a generalizing b with
  | nil =>
    cases b with
    | nil => simp [lexLt]
    | cons y b => simp at h
  | cons x a ih =>
    cases b with
    | nil => simp at h
    | cons y b =>
      have hl : a.length = b.length := by simpa using h
      rw [toNatBE_cons, toNatBE_cons, ← hl]
      have ha := toNatBE_lt a
      have hb := toNatBE_lt b
      rw [← hl] at hb
      simp only [lexLt]
      by_cases hxy : x < y
      · have h1 : x.toNat + 1 ≤ y.toNat := UInt8.lt_iff_toNat_lt.mp hxy
        have h2 : (x.toNat + 1) * 256 ^ a.length ≤ y.toNat * 256 ^ a.length := Nat.mul_le_mul_right _ h1
        rw [Nat.succ_mul] at h2
        simp only [hxy, if_true]
        symm; apply decide_eq_true; omega
      · by_cases hyx : y < x
        · have h1 : y.toNat + 1 ≤ x.toNat := UInt8.lt_iff_toNat_lt.mp hyx
          have h2 : (y.toNat + 1) * 256 ^ a.length ≤ x.toNat * 256 ^ a.length := Nat.mul_le_mul_right _ h1
          rw [Nat.succ_mul] at h2
          simp only [hxy, hyx, if_true, if_false]
          symm; apply decide_eq_false; omega
        · have hxe : x.toNat = y.toNat := by
            have h1 : ¬ x.toNat < y.toNat := fun h => hxy (UInt8.lt_iff_toNat_lt.mpr h)
            have h2 : ¬ y.toNat < x.toNat := fun h => hyx (UInt8.lt_iff_toNat_lt.mpr h)
            omega
          simp only [hxy, hyx, if_false]
          rw [ih b hl, hxe]
          congr 1
          apply propext
          constructor <;> intro h <;> omega

/-- equally long octet strings with the same big-endian value are equal -/
theorem toNatBE_inj (a b : Bytes) (h : a.length = b.length) (hv : Bytes.toNatBE a = Bytes.toNatBE b) : a = b := by
  induction a generalizing b with
  | nil =>
    cases b with
    | nil => rfl
    | cons y b => simp at h
  | cons x a ih =>
    cases b with
    | nil => simp at h
    | cons y b =>
      have hl : a.length = b.length := by simpa using h
      rw [toNatBE_cons, toNatBE_cons, ← hl] at hv
      have ha := toNatBE_lt a
      have hb := toNatBE_lt b
      rw [← hl] at hb
      have hxy : x.toNat = y.toNat := by
        rcases Nat.lt_trichotomy x.toNat y.toNat with h1 | h1 | h1
        · have h2 : (x.toNat + 1) * 256 ^ a.length ≤ y.toNat * 256 ^ a.length := Nat.mul_le_mul_right _ h1
          rw [Nat.succ_mul] at h2; omega
        · exact h1
        · have h2 : (y.toNat + 1) * 256 ^ a.length ≤ x.toNat * 256 ^ a.length := Nat.mul_le_mul_right _ h1
          rw [Nat.succ_mul] at h2; omega
      rw [hxy] at hv
      have : Bytes.toNatBE a = Bytes.toNatBE b := by omega
      rw [UInt8.toNat_inj.mp hxy, ih b hl this]

/-! ### `std::min` / `std::max` / the nonce ordering are Min / Max of the standard -/

/-- `min(a, b).copy(PKE + 23); max(a, b).copy(PKE + 29)` as written in `SessionKeys` (the model's `lo` / `hi`) -/
theorem lohi_eq_minmax (a b : Bytes) (h : a.length = b.length) :
    (if addrLt a b then a else b) = Spec.natMin a b ∧ (if addrLt a b then b else a) = Spec.natMax a b := by
  rw [addrLt_eq_lexLt, lexLt_iff_lt a b h]
  unfold Spec.natMin Spec.natMax
  by_cases hlt : Bytes.toNatBE a < Bytes.toNatBE b
  · have : Bytes.toNatBE a ≤ Bytes.toNatBE b := by omega
    simp [hlt, this]
  · by_cases heq : Bytes.toNatBE a = Bytes.toNatBE b
    · have := toNatBE_inj a b h heq
      subst this
      simp
    · have : ¬ Bytes.toNatBE a ≤ Bytes.toNatBE b := by omega
      simp [hlt, this]

theorem natMin_comm (a b : Bytes) (h : a.length = b.length) : Spec.natMin a b = Spec.natMin b a := by
  unfold Spec.natMin
  by_cases h1 : Bytes.toNatBE a ≤ Bytes.toNatBE b <;> by_cases h2 : Bytes.toNatBE b ≤ Bytes.toNatBE a
  · have := toNatBE_inj a b h (by omega); subst this; rfl
  · simp [h1, h2]
  · simp [h1, h2]
  · omega

theorem natMax_comm (a b : Bytes) (h : a.length = b.length) : Spec.natMax a b = Spec.natMax b a := by
  unfold Spec.natMax
  by_cases h1 : Bytes.toNatBE a ≤ Bytes.toNatBE b <;> by_cases h2 : Bytes.toNatBE b ≤ Bytes.toNatBE a
  · have := toNatBE_inj a b h (by omega); subst this; rfl
  · simp [h1, h2]
  · simp [h1, h2]
  · omega

/-- the `lexicographical_compare(nonce1, …, nonce2, …)` branch of `SessionKeys` -/
theorem nonces_eq_minmax (n1 n2 : Bytes) (h : n1.length = n2.length) :
    (if lexLt n1 n2 then n1 ++ n2 else n2 ++ n1) = Spec.natMin n1 n2 ++ Spec.natMax n1 n2 := by
  have := lohi_eq_minmax n1 n2 h
  rw [addrLt_eq_lexLt] at this
  rw [← this.1, ← this.2]
  cases lexLt n1 n2 <;> simp

/-- the data block `B` of the PRF as the constructor lays it out, for the two addresses in either order
    (`client_address` / `supplicant_address` of a captured handshake are the smaller / larger one, not AA / SPA) -/
theorem pke_data_eq (a1 a2 aa spa anonce snonce : Bytes) (hlen : aa.length = spa.length)
    (hn : snonce.length = anonce.length) (haddr : (a1 = aa ∧ a2 = spa) ∨ (a1 = spa ∧ a2 = aa)) :
    (if addrLt a1 a2 then a1 else a2) ++ (if addrLt a1 a2 then a2 else a1) ++
      (if lexLt snonce anonce then snonce ++ anonce else anonce ++ snonce) = Spec.ptkData aa spa anonce snonce := by
  unfold Spec.ptkData
  rw [nonces_eq_minmax snonce anonce hn, natMin_comm snonce anonce hn, natMax_comm snonce anonce hn]
  rcases haddr with ⟨h1, h2⟩ | ⟨h1, h2⟩
  · subst h1; subst h2
    obtain ⟨e1, e2⟩ := lohi_eq_minmax a1 a2 hlen
    rw [e1, e2]; simp
  · subst h1; subst h2
    obtain ⟨e1, e2⟩ := lohi_eq_minmax a1 a2 hlen.symm
    rw [e1, e2, natMin_comm a1 a2 hlen.symm, natMax_comm a1 a2 hlen.symm]; simp

/-! ### the four HMAC calls are PRF-640; its prefixes are PRF-512 and PRF-384 -/

/-- `uint8_t PKE[100] = "Pairwise key expansion"`: the label, then the zero octet `Y` (the string terminator) -/
theorem pkeLabel_eq : pkeLabel = Spec.pairwiseLabel ++ [0] := by decide

theorem prfR_length (H : Spec.Mac) (hH : ∀ k d, (H k d).length = 20) (K A B : Bytes) (n : Nat) :
    (Spec.prfR H K A B n).length = 20 * n := by
  induction n with
  | zero => rfl
  | succ n ih => simp only [Spec.prfR, List.length_append, ih, Spec.prfBlock, hH]; omega

/-- the loop `for (int i(0); i < 4; ++i) { PKE[99] = i; HMAC(sha1, pmk, PKE, 100, &ptk_[0] + i * 20) }` -/
theorem ptk_loop_eq_prf640 (H : Spec.Mac) (hH : ∀ k d, (H k d).length = 20) (K B : Bytes) :
    ((List.range 4).map fun i => (H K (pkeLabel ++ B ++ [i.toUInt8])).take 20).flatten =
      Spec.prf H K Spec.pairwiseLabel B 640 := by
  have hr : List.range 4 = [0, 1, 2, 3] := by decide
  have ht : ∀ d, (H K d).take 20 = H K d := fun d => List.take_of_length_le (by rw [hH]; omega)
  unfold Spec.prf
  have h4 : (640 + 159) / 160 = 4 := by decide
  have h80 : 640 / 8 = 80 := by decide
  rw [h4, h80, List.take_of_length_le (by rw [prfR_length H hH]; omega)]
  rw [hr, pkeLabel_eq]
  simp only [List.map_cons, List.map_nil, List.flatten_cons, List.flatten_nil, ht, Spec.prfR, Spec.prfBlock,
    List.append_assoc, List.nil_append, List.append_nil]

/-- L(PRF-640, 0, 512) = PRF-512 -/
theorem prf640_take64 (H : Spec.Mac) (K A B : Bytes) : (Spec.prf H K A B 640).take 64 = Spec.prf H K A B 512 := by
  show List.take 64 (List.take 80 (Spec.prfR H K A B 4)) = List.take 64 (Spec.prfR H K A B 4)
  rw [List.take_take]
  rfl

/-- L(PRF-640, 0, 384) = PRF-384 -/
theorem prf640_take48 (H : Spec.Mac) (hH : ∀ k d, (H k d).length = 20) (K A B : Bytes) :
    (Spec.prf H K A B 640).take 48 = Spec.prf H K A B 384 := by
  show List.take 48 (List.take 80 (Spec.prfR H K A B 3 ++ Spec.prfBlock H K A B 3)) = List.take 48 (Spec.prfR H K A B 3)
  rw [List.take_take]
  show List.take 48 (Spec.prfR H K A B 3 ++ Spec.prfBlock H K A B 3) = _
  rw [List.take_append_of_le_length (by rw [prfR_length H hH]; decide)]

/-! ### the MIC of message 4 -/

theorem mic_offset : Spec.KeyField.mic.offset = 81 ∧ Spec.KeyField.mic.size = 16 ∧ Spec.KeyField.nonce.offset = 17 ∧
    Spec.KeyField.keyInfo.offset = 5 := by decide

/-- `fill(buffer.begin() + 81, buffer.begin() + 81 + 16, 0)` zeroes exactly the Key MIC field -/
theorem fill_eq_micZeroed (buf : Bytes) : buf.take 81 ++ List.replicate 16 0 ++ buf.drop 97 = Spec.micZeroed buf := by
  unfold Spec.micZeroed
  rw [mic_offset.1, mic_offset.2.1]

/-! ### `SessionKeys::SessionKeys(handshake, pmk)` -/

theorem keyDescriptor_cases (e : Eapol) (hv : e.keyDescriptor = 1 ∨ e.keyDescriptor = 2) :
    (e.keyDescriptor == 2) = (e.keyDescriptor.toNat == 2) ∧ (e.keyDescriptor.toNat = 1 ∨ e.keyDescriptor.toNat = 2) := by
  rcases hv with h | h <;> rw [h] <;> decide

/-- **derive_keys_is_prf512**, core: for every keyed hash `H` with 20-byte output (the PRF's HMAC), every pair of MIC
    functions, every PMK of 32 octets, all addresses `aa` / `spa` of equal length in either order of storage, all
    nonces of equal length and every message 4 with key descriptor version 1 or 2, the constructor accepts exactly when the
    specification does and stores exactly the specification's PTK. -/
theorem deriveKeys_eq_spec (H : Spec.Mac) (micf : Bool → Spec.Mac) (hH : ∀ k d, (H k d).length = 20)
    (aa spa pmk : Bytes) (hlen : aa.length = spa.length) (hpmk : pmk.length = 32) (m1 m2 m3 m4 : Eapol)
    (hn : m2.nonce.length = m3.nonce.length) (hs : Handshake) (hmsgs : hs.msgs = [m1, m2, m3, m4])
    (haddr : (hs.a1 = aa ∧ hs.a2 = spa) ∨ (hs.a1 = spa ∧ hs.a2 = aa))
    (hver : m4.keyDescriptor = 1 ∨ m4.keyDescriptor = 2) :
    deriveKeys H micf hs pmk =
      (Spec.sessionKeys H (micf false) (micf true) pmk aa spa m3.nonce m2.nonce m4.keyDescriptor.toNat m4.serialize
        m4.mic).map fun (ptk, ccmp) => ⟨ptk, ccmp⟩ := by
  obtain ⟨hc, hv⟩ := keyDescriptor_cases m4 hver
  unfold deriveKeys Spec.sessionKeys Spec.ptk
  simp only [hpmk, bne_self_eq_false, Bool.false_eq_true, if_false, hmsgs]
  rw [List.append_assoc, List.append_assoc, ← List.append_assoc (if addrLt hs.a1 hs.a2 = true then hs.a1 else hs.a2),
    pke_data_eq hs.a1 hs.a2 aa spa m3.nonce m2.nonce hlen hn haddr, ptk_loop_eq_prf640 H hH, fill_eq_micZeroed]
  unfold Spec.keyMic Spec.kck
  rcases hv with h1 | h2
  · have hne : (m4.keyDescriptor == 2) = false := by rw [hc, h1]; rfl
    simp only [h1, if_true, hne, Option.some.injEq, beq_iff_eq]
    split <;> simp_all
  · have he : (m4.keyDescriptor == 2) = true := by rw [hc, h2]; rfl
    simp only [h2, if_true, he, Option.some.injEq, beq_iff_eq, show ¬ (2 : Nat) = 1 by decide, if_false]
    split <;> simp_all

theorem ite_none_left_some {α : Type} {c : Prop} [Decidable c] {e : Option α} {k : α}
    (h : (if c then none else e) = some k) : ¬ c ∧ e = some k := by
  split at h
  · cases h
  · exact ⟨by assumption, h⟩

theorem ite_some_none_some {α : Type} {c : Prop} [Decidable c] {x k : α}
    (h : (if c then some x else none) = some k) : c ∧ x = k := by
  split at h
  · exact ⟨by assumption, by simpa using h⟩
  · cases h

/-- whatever the key descriptor version: an accepted handshake carries a MIC that verifies under the first 16 octets
    of the derived PTK — HMAC-SHA1 for version 2, HMAC-MD5 for every other version — compared on all 16 octets -/
theorem deriveKeys_some_mic (H : Spec.Mac) (micf : Bool → Spec.Mac) (hs : Handshake) (pmk : Bytes) (k : SessionKeys)
    (m1 m2 m3 m4 : Eapol) (hmsgs : hs.msgs = [m1, m2, m3, m4]) (hd : deriveKeys H micf hs pmk = some k) :
    k.isCcmp = (m4.keyDescriptor == 2) ∧
    (micf (m4.keyDescriptor == 2) (k.ptk.take 16) (Spec.micZeroed m4.serialize)).take 16 = m4.mic := by
  unfold deriveKeys at hd
  simp only [hmsgs, fill_eq_micZeroed] at hd
  obtain ⟨_, hd⟩ := ite_none_left_some hd
  obtain ⟨hm, hk⟩ := ite_some_none_some hd
  subst hk
  exact ⟨rfl, by simpa using hm⟩

/-- key descriptor versions other than 2 are treated like version 1 by libtins (HMAC-MD5, TKIP): for versions the
    specification does not cover (0, 3 … 7) a handshake is accepted only when an HMAC-MD5 MIC verifies -/
theorem deriveKeys_other_versions (H : Spec.Mac) (micf : Bool → Spec.Mac) (hs : Handshake) (pmk : Bytes) (k : SessionKeys)
    (m1 m2 m3 m4 : Eapol) (hmsgs : hs.msgs = [m1, m2, m3, m4]) (hv : m4.keyDescriptor ≠ 2)
    (hd : deriveKeys H micf hs pmk = some k) :
    k.isCcmp = false ∧ (micf false (k.ptk.take 16) (Spec.micZeroed m4.serialize)).take 16 = m4.mic := by
  have hne : (m4.keyDescriptor == 2) = false := by simpa using hv
  have := deriveKeys_some_mic H micf hs pmk k m1 m2 m3 m4 hmsgs hd
  rwa [hne] at this

end Tins.Crypto
