import TinsModel.Crypto.Basic
/-
  C09 — SHA-1, MD5 and HMAC, only so that the driver can *run* the key-learning model (PTK derivation and the
  MIC of message 4).  No theorem depends on them: the handshake theorems take the PRF and the MIC function as
  parameters.  Validated against OpenSSL / hashlib by the correspondence (learned PTKs are compared byte for byte).
-/
namespace Tins.Crypto.Hash

def rotl (x : UInt32) (n : UInt32) : UInt32 := (x <<< n) ||| (x >>> (32 - n))

def be32 (b : Array UInt8) (i : Nat) : UInt32 :=
  ((b.getD i 0).toUInt32 <<< 24) ||| ((b.getD (i + 1) 0).toUInt32 <<< 16) ||| ((b.getD (i + 2) 0).toUInt32 <<< 8) |||
    (b.getD (i + 3) 0).toUInt32

def le32r (b : Array UInt8) (i : Nat) : UInt32 :=
  (b.getD i 0).toUInt32 ||| ((b.getD (i + 1) 0).toUInt32 <<< 8) ||| ((b.getD (i + 2) 0).toUInt32 <<< 16) |||
    ((b.getD (i + 3) 0).toUInt32 <<< 24)

def u32be (w : UInt32) : Bytes := [(w >>> 24).toUInt8, (w >>> 16).toUInt8, (w >>> 8).toUInt8, w.toUInt8]
def u32le (w : UInt32) : Bytes := [w.toUInt8, (w >>> 8).toUInt8, (w >>> 16).toUInt8, (w >>> 24).toUInt8]

/-- Merkle–Damgård padding: 0x80, zeros, 64-bit bit length (big or little endian) -/
def pad (msg : Bytes) (bigEndian : Bool) : Array UInt8 :=
  let n := msg.length
  let zeros := (55 + 64 - n % 64) % 64
  let bits := n * 8
  let lenLE : Bytes := (List.range 8).map fun k => (bits / 256 ^ k % 256).toUInt8
  (msg ++ [0x80] ++ List.replicate zeros 0 ++ (if bigEndian then lenLE.reverse else lenLE)).toArray

def sha1 (msg : Bytes) : Bytes := Id.run do
  let p := pad msg true
  let mut h0 : UInt32 := 0x67452301
  let mut h1 : UInt32 := 0xEFCDAB89
  let mut h2 : UInt32 := 0x98BADCFE
  let mut h3 : UInt32 := 0x10325476
  let mut h4 : UInt32 := 0xC3D2E1F0
  for blk in [0:p.size / 64] do
    let mut w : Array UInt32 := Array.mkEmpty 80
    for t in [0:16] do
      w := w.push (be32 p (64 * blk + 4 * t))
    for t in [16:80] do
      w := w.push (rotl (w.getD (t - 3) 0 ^^^ w.getD (t - 8) 0 ^^^ w.getD (t - 14) 0 ^^^ w.getD (t - 16) 0) 1)
    let mut a := h0
    let mut b := h1
    let mut c := h2
    let mut d := h3
    let mut e := h4
    for t in [0:80] do
      let (f, k) : UInt32 × UInt32 :=
        if t < 20 then ((b &&& c) ||| ((~~~b) &&& d), 0x5A827999)
        else if t < 40 then (b ^^^ c ^^^ d, 0x6ED9EBA1)
        else if t < 60 then ((b &&& c) ||| (b &&& d) ||| (c &&& d), 0x8F1BBCDC)
        else (b ^^^ c ^^^ d, 0xCA62C1D6)
      let tmp := rotl a 5 + f + e + k + w.getD t 0
      e := d
      d := c
      c := rotl b 30
      b := a
      a := tmp
    h0 := h0 + a
    h1 := h1 + b
    h2 := h2 + c
    h3 := h3 + d
    h4 := h4 + e
  return u32be h0 ++ u32be h1 ++ u32be h2 ++ u32be h3 ++ u32be h4

def md5K : Array UInt32 := #[0xd76aa478, 0xe8c7b756, 0x242070db, 0xc1bdceee, 0xf57c0faf, 0x4787c62a, 0xa8304613, 0xfd469501, 0x698098d8, 0x8b44f7af, 0xffff5bb1, 0x895cd7be, 0x6b901122, 0xfd987193, 0xa679438e, 0x49b40821, 0xf61e2562, 0xc040b340, 0x265e5a51, 0xe9b6c7aa, 0xd62f105d, 0x02441453, 0xd8a1e681, 0xe7d3fbc8, 0x21e1cde6, 0xc33707d6, 0xf4d50d87, 0x455a14ed, 0xa9e3e905, 0xfcefa3f8, 0x676f02d9, 0x8d2a4c8a, 0xfffa3942, 0x8771f681, 0x6d9d6122, 0xfde5380c, 0xa4beea44, 0x4bdecfa9, 0xf6bb4b60, 0xbebfbc70, 0x289b7ec6, 0xeaa127fa, 0xd4ef3085, 0x04881d05, 0xd9d4d039, 0xe6db99e5, 0x1fa27cf8, 0xc4ac5665, 0xf4292244, 0x432aff97, 0xab9423a7, 0xfc93a039, 0x655b59c3, 0x8f0ccc92, 0xffeff47d, 0x85845dd1, 0x6fa87e4f, 0xfe2ce6e0, 0xa3014314, 0x4e0811a1, 0xf7537e82, 0xbd3af235, 0x2ad7d2bb, 0xeb86d391]
def md5S : Array UInt32 := #[7, 12, 17, 22, 7, 12, 17, 22, 7, 12, 17, 22, 7, 12, 17, 22, 5, 9, 14, 20, 5, 9, 14, 20, 5, 9, 14, 20, 5, 9, 14, 20, 4, 11, 16, 23, 4, 11, 16, 23, 4, 11, 16, 23, 4, 11, 16, 23, 6, 10, 15, 21, 6, 10, 15, 21, 6, 10, 15, 21, 6, 10, 15, 21]

def md5 (msg : Bytes) : Bytes := Id.run do
  let p := pad msg false
  let mut a0 : UInt32 := 0x67452301
  let mut b0 : UInt32 := 0xefcdab89
  let mut c0 : UInt32 := 0x98badcfe
  let mut d0 : UInt32 := 0x10325476
  for blk in [0:p.size / 64] do
    let mut a := a0
    let mut b := b0
    let mut c := c0
    let mut d := d0
    for i in [0:64] do
      let (f, g) : UInt32 × Nat :=
        if i < 16 then ((b &&& c) ||| ((~~~b) &&& d), i)
        else if i < 32 then ((d &&& b) ||| ((~~~d) &&& c), (5 * i + 1) % 16)
        else if i < 48 then (b ^^^ c ^^^ d, (3 * i + 5) % 16)
        else (c ^^^ (b ||| (~~~d)), (7 * i) % 16)
      let f2 := f + a + md5K.getD i 0 + le32r p (64 * blk + 4 * g)
      a := d
      d := c
      c := b
      b := b + rotl f2 (md5S.getD i 0)
    a0 := a0 + a
    b0 := b0 + b
    c0 := c0 + c
    d0 := d0 + d
  return u32le a0 ++ u32le b0 ++ u32le c0 ++ u32le d0

/-- HMAC (RFC 2104) over a 64-byte-block hash -/
def hmac (hash : Bytes → Bytes) (key msg : Bytes) : Bytes :=
  let k0 := if key.length > 64 then hash key else key
  let k := k0 ++ List.replicate (64 - k0.length) 0
  hash (k.map (· ^^^ 0x5c) ++ hash (k.map (· ^^^ 0x36) ++ msg))

def hmacSha1 (key msg : Bytes) : Bytes := hmac sha1 key msg
def hmacMd5 (key msg : Bytes) : Bytes := hmac md5 key msg

end Tins.Crypto.Hash
