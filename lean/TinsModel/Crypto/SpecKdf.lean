import TinsModel.Crypto.Basic
/-
  C09 — specification of the pairwise key hierarchy, written from IEEE 802.11 (2012: 11.6.1.2 PRF, 11.6.1.3
  pairwise key hierarchy, 11.6.2 EAPOL-Key frames; 2016: 12.7.1.2, 12.7.1.3, 12.7.2), not from libtins.
  Every keyed hash (HMAC-SHA-1, HMAC-MD5, PBKDF2) is a *parameter*.  Core Lean only: the driver runs these
  definitions verbatim as the run-time oracle.
-/
namespace Tins.Crypto.Spec
open Tins.Crypto

/-- a keyed hash: key → message → digest -/
abbrev Mac := Bytes → Bytes → Bytes

/-! ### PRF (11.6.1.2)

    PRF(K, A, B, Len):  for i ← 0 …  R ← R ‖ H-SHA-1(K, A, B, i);  return L(R, 0, Len)
    H-SHA-1(K, A, B, X) = HMAC-SHA-1(K, A ‖ Y ‖ B ‖ X), Y a single octet containing 0, X a single octet containing i -/

/-- one application of H-SHA-1 with counter `i` -/
def prfBlock (H : Mac) (K A B : Bytes) (i : Nat) : Bytes := H K (A ++ [0] ++ B ++ [UInt8.ofNat i])

/-- `R` after `n` iterations (counter 0 … n-1) -/
def prfR (H : Mac) (K A B : Bytes) : Nat → Bytes
  | 0 => []
  | n + 1 => prfR H K A B n ++ prfBlock H K A B n

/-- PRF-`len` (`len` in bits): the first `len` bits of `R` after ⌈len / 160⌉ iterations -/
def prf (H : Mac) (K A B : Bytes) (len : Nat) : Bytes := (prfR H K A B ((len + 159) / 160)).take (len / 8)

/-! ### Pairwise key hierarchy (11.6.1.3)

    PTK ← PRF-X(PMK, "Pairwise key expansion", Min(AA,SPA) ‖ Max(AA,SPA) ‖ Min(ANonce,SNonce) ‖ Max(ANonce,SNonce))
    where Min / Max compare the operands as unsigned integers, first octet most significant. -/

/-- "Pairwise key expansion" (22 characters, no terminator) -/
def pairwiseLabel : Bytes :=
  ['P', 'a', 'i', 'r', 'w', 'i', 's', 'e', ' ', 'k', 'e', 'y', ' ', 'e', 'x', 'p', 'a', 'n', 's', 'i', 'o', 'n'].map
    fun c => UInt8.ofNat c.toNat

/-- Min / Max of two octet strings read as big-endian integers -/
def natMin (a b : Bytes) : Bytes := if a.toNatBE ≤ b.toNatBE then a else b
def natMax (a b : Bytes) : Bytes := if a.toNatBE ≤ b.toNatBE then b else a

def ptkData (aa spa anonce snonce : Bytes) : Bytes :=
  natMin aa spa ++ natMax aa spa ++ natMin anonce snonce ++ natMax anonce snonce

/-- PTK of `len` bits (384 for CCMP, 512 for TKIP; libtins keeps 640 = four whole HMAC-SHA-1 outputs) -/
def ptk (H : Mac) (pmk aa spa anonce snonce : Bytes) (len : Nat) : Bytes :=
  prf H pmk pairwiseLabel (ptkData aa spa anonce snonce) len

/-- KCK = L(PTK, 0, 128), KEK = L(PTK, 128, 128), TK = L(PTK, 256, 128) (CCMP) / L(PTK, 256, 256) (TKIP: the temporal
    encryption key followed by the two Michael keys) -/
def kck (ptk : Bytes) : Bytes := ptk.take 16
def kek (ptk : Bytes) : Bytes := (ptk.drop 16).take 16
def tk (ptk : Bytes) : Bytes := (ptk.drop 32).take 16
def tkipTk (ptk : Bytes) : Bytes := (ptk.drop 32).take 32

/-- PSK = PBKDF2(passphrase, ssid, 4096, 256 bits) (Annex M.4 / J.4) with PBKDF2-HMAC-SHA1 as a parameter
    `pbkdf2 password salt iterations octets` -/
def pskOf (pbkdf2 : Bytes → Bytes → Nat → Nat → Bytes) (passphrase ssid : Bytes) : Bytes := pbkdf2 passphrase ssid 4096 32

/-! ### EAPOL-Key frames (11.6.2, Figure 11-29 / 12-32)

    protocol version 1 · packet type 1 · packet body length 2 · descriptor type 1 · key information 2 · key length 2 ·
    key replay counter 8 · key nonce 32 · EAPOL-Key IV 16 · key RSC 8 · reserved 8 · key MIC 16 · key data length 2 · key data -/

inductive KeyField
  | version | packetType | bodyLength | descriptorType | keyInfo | keyLength | replayCounter | nonce | keyIv | rsc | reserved
  | mic | keyDataLength
deriving DecidableEq, Repr

def KeyField.size : KeyField → Nat
  | .version => 1 | .packetType => 1 | .bodyLength => 2 | .descriptorType => 1 | .keyInfo => 2 | .keyLength => 2
  | .replayCounter => 8 | .nonce => 32 | .keyIv => 16 | .rsc => 8 | .reserved => 8 | .mic => 16 | .keyDataLength => 2

def keyFieldOrder : List KeyField :=
  [.version, .packetType, .bodyLength, .descriptorType, .keyInfo, .keyLength, .replayCounter, .nonce, .keyIv, .rsc, .reserved,
   .mic, .keyDataLength]

/-- offset of a field = total size of the fields before it -/
def offsetIn : List KeyField → KeyField → Nat
  | [], _ => 0
  | g :: r, f => if g = f then 0 else g.size + offsetIn r f

def KeyField.offset (f : KeyField) : Nat := offsetIn keyFieldOrder f

def field (frame : Bytes) (f : KeyField) : Bytes := (frame.drop f.offset).take f.size

/-- Key Information: bits 0-2 descriptor version, 3 key type (pairwise), 6 install, 7 ack, 8 MIC, 9 secure
    (16-bit big-endian field: bits 8-15 are in the first octet) -/
def keyInfoOf (frame : Bytes) : Nat := (field frame .keyInfo).toNatBE
def descriptorVersion (frame : Bytes) : Nat := keyInfoOf frame % 8
def bit (n k : Nat) : Bool := n / 2 ^ k % 2 == 1

/-- the EAPOL-Key frame with its Key MIC field set to 0 (what the MIC is computed over) -/
def micZeroed (frame : Bytes) : Bytes :=
  frame.take KeyField.mic.offset ++ List.replicate KeyField.mic.size 0 ++ frame.drop (KeyField.mic.offset + KeyField.mic.size)

/-- Key MIC (11.6.2 e): descriptor version 1 → HMAC-MD5; version 2 → HMAC-SHA1-128 (the first 128 bits);
    other versions (3 = AES-128-CMAC) are not covered by this specification -/
def keyMic (hmacMd5 hmacSha1 : Mac) (version : Nat) (kck frame : Bytes) : Option Bytes :=
  if version = 1 then some ((hmacMd5 kck (micZeroed frame)).take 16)
  else if version = 2 then some ((hmacSha1 kck (micZeroed frame)).take 16)
  else none

/-- what a passive observer that knows the PMK derives from a completed handshake: the PTK (640 bits: libtins keeps
    four whole HMAC outputs; the standard's PRF-512 / PRF-384 are its prefixes), accepted exactly when the Key MIC of
    message 4 verifies under its KCK; the cipher is CCMP for descriptor version 2, TKIP for version 1 -/
def sessionKeys (H : Mac) (hmacMd5 hmacSha1 : Mac) (pmk aa spa anonce snonce : Bytes) (version : Nat)
    (msg4 msg4Mic : Bytes) : Option (Bytes × Bool) :=
  let ptk := ptk H pmk aa spa anonce snonce 640
  if keyMic hmacMd5 hmacSha1 version (kck ptk) msg4 = some msg4Mic then some (ptk, version == 2) else none

/-! ### The four-way handshake as a grammar (11.6.6)

    For one station pair the EAPOL-Key messages of valid histories are  ( M1⁺ [ M2⁺ [ M3⁺ [ M4⁺ ] ] ] )*  : an attempt
    starts with message 1 (retransmissions allowed, the last one opens the attempt — the authenticator may restart with
    a new ANonce and any replay counter, including the one of an abandoned attempt), each later message may be
    retransmitted (the first copy counts), an attempt may be abandoned at any point, and a pair may run the handshake
    any number of times (re-association, PTK rekey). -/

inductive Msg | m1 | m2 | m3 | m4
deriving DecidableEq, Repr

/-- classification by Key Information (11.6.6.2-5): all four are pairwise (key type 1);
    M1: Ack, no MIC, no Install.  M2: MIC, no Ack, no Install, not Secure.  M3: Ack, MIC, Install.
    M4: MIC, no Ack, no Install, Secure. -/
def msgOfInfo (info : Nat) : Option Msg :=
  let pairwise := bit info 3
  let install := bit info 6
  let ack := bit info 7
  let mic := bit info 8
  let secure := bit info 9
  if !pairwise then none
  else if ack && !mic && !install then some .m1
  else if !ack && mic && !install && !secure then some .m2
  else if ack && mic && install then some .m3
  else if !ack && mic && !install && secure then some .m4
  else none

/-- where a pair stands inside an attempt, with the messages that count so far -/
inductive Phase (α : Type) where
  | start
  | got1 (m1 : α)
  | got2 (m1 m2 : α)
  | got3 (m1 m2 m3 : α)
  | done
deriving Repr

/-- one step of the grammar: the new phase and, when message 4 completes an attempt, its four messages;
    `none` = this message cannot come here in a valid history -/
def Phase.next {α : Type} : Phase α → Msg → α → Option (Phase α × Option (α × α × α × α))
  | _, .m1, x => some (.got1 x, none)
  | .got1 a, .m2, x => some (.got2 a x, none)
  | .got2 a b, .m2, _ => some (.got2 a b, none)
  | .got2 a b, .m3, x => some (.got3 a b x, none)
  | .got3 a b c, .m3, _ => some (.got3 a b c, none)
  | .got3 a b c, .m4, x => some (.done, some (a, b, c, x))
  | .done, .m4, _ => some (.done, none)
  | _, _, _ => none

/-! ### Frames on the air (for the run-time oracle): which 802.11 frames are EAPOL-Key messages of a pairwise handshake,
    which are beacons, what they say — written from the frame formats of clause 8, on the bytes -/

def be16At (b : Bytes) (i : Nat) : Nat := (b.getD i 0).toNat * 256 + (b.getD (i + 1) 0).toNat

/-- LLC/SNAP header of an EAPOL frame (RFC 1042 encapsulation, EtherType 88-8E) -/
def llcSnapEapol : Bytes := [0xaa, 0xaa, 3, 0, 0, 0, 0x88, 0x8e]

structure KeyFrame where
  ap : Bytes
  sta : Bytes
  fromAp : Bool
  /-- the EAPOL-Key frame: protocol version … key data, `4 + packet body length` octets -/
  eapol : Bytes
deriving Repr

/-- an unprotected Data / QoS Data frame between a station and its access point (to-DS with DA = BSSID, or from-DS with
    SA = BSSID) that carries a complete EAPOL-Key frame with an RSN (2) or WPA (254) key descriptor -/
def keyFrameOf (f : Bytes) : Option KeyFrame :=
  let fc0 := f.getD 0 0
  let fc1 := f.getD 1 0
  let toDS := fc1 &&& 1 != 0
  let fromDS := fc1 &&& 2 != 0
  let qos := fc0 &&& 0x80 != 0
  if f.length < 24 then none
  else if fc0 &&& 0x7f != 0x08 then none                     -- protocol 0, type Data, subtype Data or QoS Data
  else if fc1 &&& 0x40 != 0 then none                         -- not protected
  else if qos && fc1 &&& 0x80 != 0 then none                  -- +HTC frames are not considered
  else if toDS == fromDS then none
  else
    let body := f.drop (24 + (if qos then 2 else 0))
    if body.take 8 != llcSnapEapol then none else
    let e := body.drop 8
    if e.length < 4 then none else
    let total := 4 + be16At e 2
    if e.length < total then none else
    let e := e.take total
    if total < 99 then none
    else if e.getD 1 0 != 3 then none                         -- packet type EAPOL-Key
    else if e.getD 4 0 != 2 && e.getD 4 0 != 254 then none
    else if total < 99 + be16At e KeyField.keyDataLength.offset then none
    else
      let a1 := (f.drop 4).take 6
      let a2 := (f.drop 10).take 6
      let a3 := (f.drop 16).take 6
      if toDS then (if a3 == a1 then some ⟨a1, a2, false, e⟩ else none)
      else (if a3 == a2 then some ⟨a2, a1, true, e⟩ else none)

/-- the elements of a management frame body: (id, information) pairs; `none` when a length runs past the end -/
def elements : Nat → Bytes → Option (List (UInt8 × Bytes))
  | 0, _ => some []
  | fuel + 1, b =>
    match b with
    | id :: len :: rest =>
      if rest.length < len.toNat then none
      else (elements fuel (rest.drop len.toNat)).map fun l => (id, rest.take len.toNat) :: l
    | _ => some []

/-- a Beacon frame: its BSSID (address 3) and the SSID it announces (the first SSID element), if any -/
def beaconOf (f : Bytes) : Option (Bytes × Option Bytes) :=
  if f.length < 36 then none
  else if f.getD 0 0 != 0x80 then none                        -- protocol 0, type Management, subtype Beacon
  else if f.getD 1 0 &&& 3 != 0 then none
  else
    match elements f.length (f.drop 36) with
    | none => none
    | some els => some ((f.drop 16).take 6, (els.find? fun p => p.1 == 0).map (·.2))

end Tins.Crypto.Spec
