import TinsModel.Crypto.Frame
import TinsModel.Gen.C09Tables
/-
  C09 — `SessionKeys::ccmp_decrypt_unicast` (src/crypto.cpp), code-shaped, with the block cipher as a
  parameter `E` (`AES_encrypt(·, ·, &ctx)` under the temporal key).
  In-place writes (`&pload[(i-1)*16]`, eight bytes behind the read position) are modelled by the bytes
  written; every read of the loop happens before the position is overwritten.
-/
namespace Tins.Crypto

abbrev BlockFn := Bytes → Bytes

/-- `xor_range(MIC, src, MIC, |src|)`: the first `|src|` bytes of `mic` are XORed, the rest kept -/
def xorInto (mic src : Bytes) : Bytes := xorBytes mic src ++ mic.drop src.length

def padZero (n : Nat) (b : Bytes) : Bytes := b ++ List.replicate (n - b.length) 0

def boolByte (b : Bool) : UInt8 := if b then 1 else 0

/-- `AAD[2] = dot11.protocol() | (dot11.type() << 2) | ((dot11.subtype() << 4) & 0x80)` -/
def aadFc0 (h : Hdr) : UInt8 := h.protocol ||| (h.type <<< 2) ||| ((h.subtype <<< 4) &&& 0x80)

/-- `AAD[3] = 0x40 | dot11.to_ds() | (dot11.from_ds() << 1) | (dot11.more_frag() << 2) | (dot11.order() << 7)` -/
def aadFc1 (h : Hdr) : UInt8 :=
  (0x40 : UInt8) ||| boolByte h.toDS ||| (boolByte h.fromDS <<< 1) ||| (h.moreFrag <<< 2) ||| (h.order <<< 7)

/-- `qos_control() & 0x0f` -/
def qosTid (h : Hdr) : UInt8 := (h.qosControl % 16).toUInt8

/-- the 32-byte `AAD` array (two length bytes, the masked header, zero padding) and the priority byte
    `counter[1]`.  The `static_cast<const Dot11QoSData&>` is only valid when the object is one. -/
def ccmpAad (h : Hdr) : Out (Bytes × UInt8) := do
  let both := h.fromDS && h.toDS
  -- has_qos_control = (subtype & QOS_DATA_DATA) != 0
  let isQos := h.subtype &&& 8 != 0
  let len : UInt8 := 22 + 6 * boolByte both + (if isQos then 2 else 0)
  let base := [0, len, aadFc0 h, aadFc1 h] ++ h.addr1 ++ h.addr2 ++ h.addr3 ++ [h.fragNum, 0] ++ (if both then h.addr4 else [])
  if isQos then
    match h.qos with
    | some _ =>
      let tid := qosTid h
      -- AAD[offset] = qos_control() & 0x0f with offset = 30 or 24: right after what has been filled so far
      pure (padZero 32 (base ++ [tid]), tid)
    | none => .fault "ccmp_decrypt_unicast static_cast<const Dot11QoSData&>" 0 0
  else pure (padZero 32 base, 0)

/-- the decryption loop `for (size_t i = 1; i <= blocks; ++i)`: returns the CBC-MAC state and the bytes
    written to `pload[0 .. total)`.  `pre` is `counter[0..13]` (flags 1, priority, A2, PN). -/
def ccmLoop (E : BlockFn) (pre : Bytes) (pload : Bytes) (total blocks : Nat) :
    Nat → Nat → Nat → Bytes → Bytes → Out (Bytes × Bytes)
  | 0, _, _, mic, out => .ok (mic, out)
  | fuel + 1, i, offset, mic, out =>
    if i > blocks then .ok (mic, out) else
    let bs0 := if i = blocks then total % 16 else 16
    let bs := if bs0 = 0 then 16 else bs0
    let s := E (pre ++ [(i / 256 % 256).toUInt8, (i % 256).toUInt8])
    match rdRange "ccmp_decrypt_unicast &pload[offset]" pload offset bs with
    | .ok src =>
      let p := xorBytes s src
      let mic := E (xorInto mic p)
      ccmLoop E pre pload total blocks fuel (i + 1) (offset + bs) mic (out ++ p)
    | .throw e => .throw e
    | .fault a b c => .fault a b c

/-- `SNAP* SessionKeys::ccmp_decrypt_unicast(dot11, raw)`: the SNAP (or null) and the payload afterwards -/
def ccmpDecrypt (ip : InnerParser) (E : BlockFn) (h : Hdr) (pload : Bytes) : Out (Option Snap × Bytes) := do
  let n := pload.length
  -- at least 16 bytes for the CCMP header + MIC and something to decrypt
  if n ≤ Gen.ccmpMin then return (none, pload)
  let site := "ccmp_decrypt_unicast pload[0..7]"
  let pn := [← rd site pload 7, ← rd site pload 6, ← rd site pload 5, ← rd site pload 4, ← rd site pload 1, ← rd site pload 0]
  let (aad, prio) ← ccmpAad h
  let total := n - 16
  let blocks := (total + 15) / 16
  let nonce := [prio] ++ h.addr2 ++ pn
  -- B0, then the two AAD blocks
  let mic := E ([0x59] ++ nonce ++ [(total / 256 % 256).toUInt8, (total % 256).toUInt8])
  let mic := E (xorInto mic (aad.take 16))
  let mic := E (xorInto mic ((aad.drop 16).take 16))
  let pre := [0x01] ++ nonce
  let s0 := E (pre ++ [0, 0])
  let niceMic := xorBytes (s0.take 8) (← rdRange "ccmp_decrypt_unicast pload.begin()+size-8" pload (n - 8) 8)
  let (mic, out) ← ccmLoop E pre pload total blocks blocks 1 8 mic []
  let pload' := out ++ pload.drop out.length
  if niceMic == mic.take 8 then
    match snapParse ip (pload'.take total) with
    | .ok s => return (some s, pload')
    | .throw _ => return (none, pload')             -- catch (exception_base&) { return 0; }
    | .fault a b c => .fault a b c
  else return (none, pload')

end Tins.Crypto
