import TinsModel.Crypto.LemmasHandshake
import TinsModel.Crypto.LemmasSafety
import TinsModel.Crypto.LemmasKdf
/-
  C09 — handshake capture over ALL valid histories.

  The grammar of a pair's EAPOL-Key messages is `Spec.Phase.next` (SpecKdf.lean):  ( M1⁺ [ M2⁺ [ M3⁺ [ M4⁺ ] ] ] )*  —
  retransmitted messages, abandoned attempts (whatever their replay counters), any number of complete runs of the same
  pair.  A history is a list of frames as `WPA2Decrypter::decrypt` / `RSNHandshakeCapturer::process_packet` see them;
  frames that are not messages 1-4 of the pair (beacons, data frames, EAPOL frames of other pairs, group-key messages,
  non-data frames) may be interleaved anywhere.  `track` follows the grammar and collects the completed attempts;
  the theorems say that after any history the grammar accepts
    * the stand-alone capturer has handed over exactly the completed attempts, in order (`capturer_valid_history`);
    * the decrypter's key table entry of the pair is the session keys of the LAST completed attempt that verifies
      (`keys_after_valid_history`).
-/
set_option linter.unusedSimpArgs false
namespace Tins.Crypto

/-! ### classification -/

/-- the class `process_packet` puts an RSNEAPOL in -/
def msgClass (e : Eapol) : Option Spec.Msg :=
  if isM1 e then some .m1 else if isM2 e then some .m2 else if isM3 e then some .m3 else if isM4 e then some .m4 else none

theorem msgClass_spec (e : Eapol) :
    (msgClass e = some .m1 ∧ isM1 e = true) ∨ (msgClass e = some .m2 ∧ isM2 e = true) ∨
    (msgClass e = some .m3 ∧ isM3 e = true) ∨ (msgClass e = some .m4 ∧ isM4 e = true) ∨
    (msgClass e = none ∧ isM1 e = false ∧ isM2 e = false ∧ isM3 e = false ∧ isM4 e = false) := by
  unfold msgClass isM1 isM2 isM3 isM4
  generalize e.keyT = a, e.keyAck = b, e.keyMic = c, e.install = d, e.secure = s
  cases a <;> cases b <;> cases c <;> cases d <;> cases s <;> simp

set_option maxRecDepth 8000 in
theorem mask_bits : ∀ x : UInt8,
    (x &&& 1 != 0) = (x.toNat % 2 == 1) ∧ (x &&& 2 != 0) = (x.toNat / 2 % 2 == 1) ∧ (x &&& 8 != 0) = (x.toNat / 8 % 2 == 1) ∧
    (x &&& 0x40 != 0) = (x.toNat / 64 % 2 == 1) ∧ (x &&& 0x80 != 0) = (x.toNat / 128 % 2 == 1) :=
  forall_uint8 _ (by decide)

/-- **libtins' message classification is the standard's**: the tests of `process_packet` on `key_t`, `key_ack`,
    `key_mic`, `install`, `secure` select the same class as 11.6.6.2-5 on the 16-bit Key Information field -/
theorem msgClass_is_ieee (e : Eapol) : msgClass e = Spec.msgOfInfo (e.info0.toNat * 256 + e.info1.toNat) := by
  have h0 := mask_bits e.info0
  have h1 := mask_bits e.info1
  have hb : e.info1.toNat < 256 := e.info1.toNat_lt
  unfold msgClass isM1 isM2 isM3 isM4 Eapol.keyT Eapol.keyAck Eapol.keyMic Eapol.install Eapol.secure Spec.msgOfInfo Spec.bit
  rw [h0.1, h0.2.1, h1.2.2.1, h1.2.2.2.1, h1.2.2.2.2]
  have e3 : (e.info0.toNat * 256 + e.info1.toNat) / 2 ^ 3 % 2 = e.info1.toNat / 8 % 2 := by omega
  have e6 : (e.info0.toNat * 256 + e.info1.toNat) / 2 ^ 6 % 2 = e.info1.toNat / 64 % 2 := by omega
  have e7 : (e.info0.toNat * 256 + e.info1.toNat) / 2 ^ 7 % 2 = e.info1.toNat / 128 % 2 := by omega
  have e8 : (e.info0.toNat * 256 + e.info1.toNat) / 2 ^ 8 % 2 = e.info0.toNat % 2 := by omega
  have e9 : (e.info0.toNat * 256 + e.info1.toNat) / 2 ^ 9 % 2 = e.info0.toNat / 2 % 2 := by omega
  simp only [e3, e6, e7, e8, e9]
  generalize (e.info1.toNat / 8 % 2 == 1) = a, (e.info1.toNat / 128 % 2 == 1) = b, (e.info0.toNat % 2 == 1) = c,
    (e.info1.toNat / 64 % 2 == 1) = d, (e.info0.toNat / 2 % 2 == 1) = s
  cases a <;> cases b <;> cases c <;> cases d <;> cases s <;> rfl

/-- an RSNEAPOL that is none of the four messages leaves the capturer alone -/
theorem process_noclass (c : Capturer) (h : Hdr) (e : Eapol) (h1 : isM1 e = false) (h2 : isM2 e = false)
    (h3 : isM3 e = false) (h4 : isM4 e = false) : c.process h e = (c, false) := by
  unfold isM1 at h1; unfold isM2 at h2; unfold isM3 at h3; unfold isM4 at h4
  unfold Capturer.process
  generalize e.keyT = a, e.keyAck = b, e.keyMic = cc, e.install = d, e.secure = s at h1 h2 h3 h4 ⊢
  revert h1 h2 h3 h4
  cases a <;> cases b <;> cases cc <;> cases d <;> cases s <;> simp

/-- message 4 for a pair that has nothing pending (a retransmission after completion) changes nothing -/
theorem process_m4_idle (c : Capturer) (h : Hdr) (e : Eapol) (he : isM4 e = true) (hl : c.entry (pairOf h) = none) :
    (c.process h e).2 = false ∧ (c.process h e).1.entry (pairOf h) = none ∧
    (c.process h e).1.completed = c.completed := by
  obtain ⟨f1, f2, f3⟩ := m4_flags e he
  unfold Capturer.process Capturer.entry
  have hp : pairOf h = (addrMin h.srcAddr h.dstAddr, addrMax h.srcAddr h.dstAddr) := rfl
  rw [← hp]
  unfold Capturer.entry at hl
  simp only [f1, f2, f3, if_true, if_false, Bool.false_eq_true]
  unfold doInsert
  rw [hl]
  simp [hl]

/-- `process_packet` returns true only on a message 4 -/
theorem process_done_isM4 (c : Capturer) (h : Hdr) (e : Eapol) (hd : (c.process h e).2 = true) : isM4 e = true := by
  rcases msgClass_spec e with ⟨_, h1⟩ | ⟨_, h2⟩ | ⟨_, h3⟩ | ⟨_, h4⟩ | ⟨_, n1, n2, n3, n4⟩
  · rw [(process_m1 c h e h1).2.1] at hd; cases hd
  · rw [(process_m2 c h e h2 e).2.2.1] at hd; cases hd
  · rw [(process_m3 c h e h3 e e).2.2.1] at hd; cases hd
  · exact h4
  · rw [process_noclass c h e n1 n2 n3 n4] at hd; cases hd

/-! ### the grammar over histories -/

/-- where the capturer must stand for a pair, given the pair's position in the grammar -/
def phaseEntry : Spec.Phase Eapol → Option (List Eapol) → Prop
  | .start, _ => True
  | .got1 a, x => x = some [a]
  | .got2 a b, x => x = some [a, b]
  | .got3 a b c, x => x = some [a, b, c]
  | .done, x => x = none

abbrev Attempt := Eapol × Eapol × Eapol × Eapol

def Attempt.handshake (k : AddrPair) (a : Attempt) : Handshake := ⟨k.1, k.2, [a.1, a.2.1, a.2.2.1, a.2.2.2]⟩

structure Track where
  phase : Spec.Phase Eapol := .start
  completed : List Attempt := []

/-- one frame of a capturer history, followed through the grammar of pair `k`; `none` = not a valid history -/
def Track.stepCap (k : AddrPair) (t : Track) (x : Hdr × Eapol) : Option Track :=
  if pairOf x.1 = k then
    match msgClass x.2 with
    | some c => (t.phase.next c x.2).map fun r => ⟨r.1, t.completed ++ r.2.toList⟩
    | none => some t
  else some t

def Track.runCap (k : AddrPair) (t : Track) : List (Hdr × Eapol) → Option Track
  | [] => some t
  | x :: xs => (t.stepCap k x).bind fun t' => t'.runCap k xs

/-- the completed handshakes of pair `k` among those a capturer holds -/
def ofPair (k : AddrPair) (l : List Handshake) : List Handshake := l.filter fun h => decide ((h.a1, h.a2) = k)

theorem ofPair_append_self (k : AddrPair) (l : List Handshake) (m : List Eapol) :
    ofPair k (l ++ [⟨k.1, k.2, m⟩]) = ofPair k l ++ [⟨k.1, k.2, m⟩] := by
  simp [ofPair, List.filter_append]

/-- when `process_packet` returns true it has appended one handshake of the frame's pair -/
theorem process_done_completed (c : Capturer) (h : Hdr) (e : Eapol) (hd : (c.process h e).2 = true) :
    ∃ m, (c.process h e).1.completed = c.completed ++ [⟨(pairOf h).1, (pairOf h).2, m⟩] := by
  unfold Capturer.process at hd ⊢
  have hp : pairOf h = (addrMin h.srcAddr h.dstAddr, addrMax h.srcAddr h.dstAddr) := rfl
  rw [← hp] at hd ⊢
  simp only [] at hd ⊢
  split
  · simp_all
  · split
    · split
      · simp_all
      · generalize hdi : doInsert c.hs (pairOf h) e 3 = d at hd ⊢
        obtain ⟨m, ok⟩ := d
        cases ok
        · simp_all
        · exact ⟨_, rfl⟩
    · split <;> simp_all

/-- whatever the frame, `process_packet` leaves the completed handshakes alone or appends one of the frame's pair -/
theorem process_completed_shape (c : Capturer) (h : Hdr) (e : Eapol) :
    (c.process h e).1.completed = c.completed ∨
    ∃ m, (c.process h e).1.completed = c.completed ++ [⟨(pairOf h).1, (pairOf h).2, m⟩] := by
  cases hd : (c.process h e).2 with
  | false => exact Or.inl (process_not_done c h e hd)
  | true => exact Or.inr (process_done_completed c h e hd)

theorem process_other_completed (c : Capturer) (h : Hdr) (e : Eapol) (k : AddrPair) (hk : pairOf h ≠ k) :
    ofPair k (c.process h e).1.completed = ofPair k c.completed := by
  rcases process_completed_shape c h e with h1 | ⟨m, h1⟩
  · rw [h1]
  · rw [h1]
    simp [ofPair, List.filter_append, hk]

/-- one step of the stand-alone capturer keeps it in line with the grammar -/
theorem capturer_step (k : AddrPair) (c : Capturer) (t t' : Track) (x : Hdr × Eapol) (done0 : List Handshake)
    (hc : ofPair k c.completed = done0 ++ t.completed.map (Attempt.handshake k)) (hp : phaseEntry t.phase (c.entry k))
    (ht : t.stepCap k x = some t') :
    ofPair k (c.process x.1 x.2).1.completed = done0 ++ t'.completed.map (Attempt.handshake k) ∧
    phaseEntry t'.phase ((c.process x.1 x.2).1.entry k) := by
  unfold Track.stepCap at ht
  by_cases hk : pairOf x.1 = k
  · rw [if_pos hk] at ht
    subst hk
    rcases msgClass_spec x.2 with ⟨hm, h1⟩ | ⟨hm, h2⟩ | ⟨hm, h3⟩ | ⟨hm, h4⟩ | ⟨hm, n1, n2, n3, n4⟩
    · -- message 1
      rw [hm] at ht
      obtain ⟨p1, _, p3⟩ := process_m1 c x.1 x.2 h1
      cases hph : t.phase <;> simp [hph, Spec.Phase.next] at ht <;> subst ht <;>
        exact ⟨by rw [p3, hc], by simpa [phaseEntry] using p1⟩
    · -- message 2
      rw [hm] at ht
      cases hph : t.phase with
      | got1 a =>
        obtain ⟨p1, _, _, p4⟩ := process_m2 c x.1 x.2 h2 a
        simp [hph, Spec.Phase.next] at ht; subst ht
        rw [hph] at hp
        exact ⟨by rw [p4, hc], by simpa [phaseEntry] using p1 hp⟩
      | got2 a b =>
        obtain ⟨_, p2, _, p4⟩ := process_m2 c x.1 x.2 h2 a
        simp [hph, Spec.Phase.next] at ht; subst ht
        rw [hph] at hp
        exact ⟨by rw [p4, hc], by simpa [phaseEntry] using p2 b hp⟩
      | start => simp [hph, Spec.Phase.next] at ht
      | got3 a b d => simp [hph, Spec.Phase.next] at ht
      | done => simp [hph, Spec.Phase.next] at ht
    · -- message 3
      rw [hm] at ht
      cases hph : t.phase with
      | got2 a b =>
        obtain ⟨p1, _, _, p4⟩ := process_m3 c x.1 x.2 h3 a b
        simp [hph, Spec.Phase.next] at ht; subst ht
        rw [hph] at hp
        exact ⟨by rw [p4, hc], by simpa [phaseEntry] using p1 hp⟩
      | got3 a b d =>
        obtain ⟨_, p2, _, p4⟩ := process_m3 c x.1 x.2 h3 a b
        simp [hph, Spec.Phase.next] at ht; subst ht
        rw [hph] at hp
        exact ⟨by rw [p4, hc], by simpa [phaseEntry] using p2 d hp⟩
      | start => simp [hph, Spec.Phase.next] at ht
      | got1 a => simp [hph, Spec.Phase.next] at ht
      | done => simp [hph, Spec.Phase.next] at ht
    · -- message 4
      rw [hm] at ht
      cases hph : t.phase with
      | got3 a b d =>
        rw [hph] at hp
        obtain ⟨_, p2, p3⟩ := process_m4 c x.1 x.2 h4 a b d hp
        simp [hph, Spec.Phase.next] at ht; subst ht
        refine ⟨?_, by simpa [phaseEntry] using p3⟩
        rw [p2, ofPair_append_self, hc]
        simp [Attempt.handshake]
      | done =>
        rw [hph] at hp
        obtain ⟨_, p2, p3⟩ := process_m4_idle c x.1 x.2 h4 hp
        simp [hph, Spec.Phase.next] at ht; subst ht
        exact ⟨by rw [p3, hc], by simpa [phaseEntry] using p2⟩
      | start => simp [hph, Spec.Phase.next] at ht
      | got1 a => simp [hph, Spec.Phase.next] at ht
      | got2 a b => simp [hph, Spec.Phase.next] at ht
    · rw [hm] at ht
      simp at ht; subst ht
      rw [process_noclass c x.1 x.2 n1 n2 n3 n4]
      exact ⟨hc, hp⟩
  · rw [if_neg hk] at ht
    simp at ht; subst ht
    have hother := process_other c x.1 x.2 k (fun e => hk e.symm)
    exact ⟨by rw [process_other_completed c x.1 x.2 k hk, hc], by rw [hother]; exact hp⟩

theorem capturer_run_valid (k : AddrPair) (xs : List (Hdr × Eapol)) (c : Capturer) (t t' : Track) (done0 : List Handshake)
    (hc : ofPair k c.completed = done0 ++ t.completed.map (Attempt.handshake k)) (hp : phaseEntry t.phase (c.entry k))
    (ht : t.runCap k xs = some t') :
    ofPair k (c.run xs).completed = done0 ++ t'.completed.map (Attempt.handshake k) ∧
    phaseEntry t'.phase ((c.run xs).entry k) := by
  induction xs generalizing c t with
  | nil =>
    simp [Track.runCap] at ht; subst ht
    exact ⟨hc, hp⟩
  | cons x xs ih =>
    simp only [Track.runCap] at ht
    cases hs : t.stepCap k x with
    | none => simp [hs] at ht
    | some t1 =>
      simp only [hs, Option.bind_some] at ht
      obtain ⟨h1, h2⟩ := capturer_step k c t t1 x done0 hc hp hs
      exact ih (c.process x.1 x.2).1 t1 h1 h2 ht

/-! ### the decrypter over histories -/

def Parsed.castOk : Parsed → Prop
  | .data fr => fr.hdr.QosCastOk
  | _ => True

/-- the decrypter after one `decrypt` call that returns -/
def Wpa2State.step (ip : InnerParser) (aes : Bytes → BlockFn) (prf : Bytes → Bytes → Bytes)
    (micf : Bool → Bytes → Bytes → Bytes) (st : Wpa2State) (p : Parsed) : Option Wpa2State :=
  match wpa2Decrypt ip aes prf micf st p with
  | .ok r => some r.1
  | _ => none

def Wpa2State.run (ip : InnerParser) (aes : Bytes → BlockFn) (prf : Bytes → Bytes → Bytes)
    (micf : Bool → Bytes → Bytes → Bytes) (st : Wpa2State) : List Parsed → Option Wpa2State
  | [] => some st
  | p :: ps => (st.step ip aes prf micf p).bind fun st' => st'.run ip aes prf micf ps

/-- one frame of a decrypter history followed through the grammar of capturer pair `k`, whose keys go under the key-table
    entry `kk` and whose access point is `ap`.  Not valid: a message of the pair out of place; a message 4 of the pair
    that names another key-table entry or access point; a message 4 of another pair that names this pair's entry. -/
def Track.stepDec (k kk : AddrPair) (ap : Addr) (t : Track) (p : Parsed) : Option Track :=
  match p with
  | .data fr =>
    match fr.inner.findEapol with
    | some e =>
      if pairOf fr.hdr = k then
        match msgClass e with
        | some c =>
          if c = .m4 ∧ ¬ (extractAddrPair fr.hdr = kk ∧ findApAddr fr.hdr = ap) then none
          else (t.phase.next c e).map fun r => ⟨r.1, t.completed ++ r.2.toList⟩
        | none => some t
      else if msgClass e = some .m4 ∧ extractAddrPair fr.hdr = kk then none else some t
    | none => some t
  | _ => some t

def Track.runDec (k kk : AddrPair) (ap : Addr) (t : Track) : List Parsed → Option Track
  | [] => some t
  | p :: ps => (t.stepDec k kk ap p).bind fun t' => t'.runDec k kk ap ps

/-- what one completed attempt does to the pair's key-table entry: replaced when the handshake verifies under the PMK -/
def learnStep (prf : Bytes → Bytes → Bytes) (micf : Bool → Bytes → Bytes → Bytes) (k : AddrPair) (pmk : Bytes)
    (acc : Option SessionKeys) (a : Attempt) : Option SessionKeys :=
  match deriveKeys prf micf (a.handshake k) pmk with
  | some key => some key
  | none => acc

/-- the entry after a list of completed attempts: the keys of the last one that verifies, else the initial entry -/
def expectedKeys (prf : Bytes → Bytes → Bytes) (micf : Bool → Bytes → Bytes → Bytes) (k : AddrPair) (pmk : Bytes)
    (init : Option SessionKeys) (cs : List Attempt) : Option SessionKeys :=
  cs.foldl (learnStep prf micf k pmk) init

theorem lookup_insertIfAbsent_keep {κ α} [DecidableEq κ] (m : List (κ × α)) (k k' : κ) (v v' : α)
    (h : lookup m k = some v) : lookup (insertIfAbsent m k' v') k = some v := by
  unfold insertIfAbsent
  cases hl : lookup m k' with
  | some _ => exact h
  | none =>
    have hne : k' ≠ k := by intro e; rw [e, h] at hl; cases hl
    simp [lookup, hne, h]

/-- a beacon (or a frame that is not a data frame) leaves capturer and keys alone and only ever adds access points -/
theorem wpa2Decrypt_nondata (ip : InnerParser) (aes : Bytes → BlockFn) (prf : Bytes → Bytes → Bytes)
    (micf : Bool → Bytes → Bytes → Bytes) (st : Wpa2State) (p : Parsed) (hnd : ∀ fr, p ≠ .data fr) :
    ∃ st' r p' ev, wpa2Decrypt ip aes prf micf st p = .ok (st', r, p', ev) ∧ st'.cap = st.cap ∧ st'.keys = st.keys ∧
      ∀ a v, lookup st.aps a = some v → lookup st'.aps a = some v := by
  unfold wpa2Decrypt
  cases p with
  | data fr => exact absurd rfl (hnd fr)
  | notData => exact ⟨st, _, _, _, rfl, rfl, rfl, fun _ _ h => h⟩
  | beacon a3 ssid =>
    simp only []
    cases hl : lookup st.aps a3 with
    | some v => exact ⟨st, _, _, _, rfl, rfl, rfl, fun _ _ h => h⟩
    | none =>
      cases ssid with
      | none => exact ⟨st, _, _, _, rfl, rfl, rfl, fun _ _ h => h⟩
      | some s =>
        simp only []
        unfold Wpa2State.addAccessPoint
        cases hp : lookup st.pmks s with
        | none => exact ⟨st, _, _, _, rfl, rfl, rfl, fun _ _ h => h⟩
        | some pmk =>
          exact ⟨_, _, _, _, rfl, rfl, rfl, fun a v h => lookup_insertIfAbsent_keep _ _ _ _ _ h⟩

/-- a data frame that does not complete a handshake goes down the data path with the capturer updated;
    keys and access points are untouched -/
theorem wpa2Decrypt_data_path (ip : InnerParser) (aes : Bytes → BlockFn) (prf : Bytes → Bytes → Bytes)
    (micf : Bool → Bytes → Bytes → Bytes) (st : Wpa2State) (fr : Frame) (hq : fr.hdr.QosCastOk) (cap : Capturer)
    (hcap : match fr.inner.findEapol with
      | some e => st.cap.process fr.hdr e = (cap, false)
      | none => cap = st.cap) :
    ∃ r p' ev, wpa2Decrypt ip aes prf micf st (.data fr) = .ok ({ st with cap := cap }, r, p', ev) := by
  obtain ⟨r, fr', hd⟩ := wpa2DecryptData_total ip aes st.keys fr hq
  unfold wpa2Decrypt
  cases he : fr.inner.findEapol with
  | none =>
    rw [he] at hcap; subst hcap
    simp only [he, hd]
    exact ⟨_, _, _, rfl⟩
  | some e =>
    rw [he] at hcap
    simp only [he, hcap, hd, Bool.false_eq_true, if_false]
    exact ⟨_, _, _, rfl⟩

/-- a frame that completes a handshake: `try_add_keys` on the completed handshake, capturer drained -/
theorem wpa2Decrypt_done (ip : InnerParser) (aes : Bytes → BlockFn) (prf : Bytes → Bytes → Bytes)
    (micf : Bool → Bytes → Bytes → Bytes) (st : Wpa2State) (fr : Frame) (e : Eapol) (he : fr.inner.findEapol = some e)
    (hcomp : st.cap.completed = []) (hd : (st.cap.process fr.hdr e).2 = true) :
    ∃ m st' ev, (st.cap.process fr.hdr e).1.completed = [⟨(pairOf fr.hdr).1, (pairOf fr.hdr).2, m⟩] ∧
      wpa2Decrypt ip aes prf micf st (.data fr) = .ok (st', false, .data fr, ev) ∧
      st'.aps = st.aps ∧ st'.cap.completed = [] ∧ st'.cap.hs = (st.cap.process fr.hdr e).1.hs ∧
      st'.keys = (match lookup st.aps (findApAddr fr.hdr) with
        | none => st.keys
        | some (_, pmk) =>
          match deriveKeys prf micf ⟨(pairOf fr.hdr).1, (pairOf fr.hdr).2, m⟩ pmk with
          | some key => insertKV st.keys (extractAddrPair fr.hdr) key
          | none => st.keys) := by
  obtain ⟨m, hm⟩ := process_done_completed st.cap fr.hdr e hd
  rw [hcomp, List.nil_append] at hm
  refine ⟨m, ?_⟩
  suffices hs : ∃ st' ev, wpa2Decrypt ip aes prf micf st (.data fr) = .ok (st', false, .data fr, ev) ∧
      st'.aps = st.aps ∧ st'.cap.completed = [] ∧ st'.cap.hs = (st.cap.process fr.hdr e).1.hs ∧
      st'.keys = (match lookup st.aps (findApAddr fr.hdr) with
        | none => st.keys
        | some (_, pmk) =>
          match deriveKeys prf micf ⟨(pairOf fr.hdr).1, (pairOf fr.hdr).2, m⟩ pmk with
          | some key => insertKV st.keys (extractAddrPair fr.hdr) key
          | none => st.keys) by
    obtain ⟨st', ev, h1, h2⟩ := hs
    exact ⟨st', ev, hm, h1, h2⟩
  unfold wpa2Decrypt
  simp only [he]
  generalize hpr : st.cap.process fr.hdr e = pr at hd hm
  obtain ⟨cap, done⟩ := pr
  simp only at hd hm
  subst hd
  simp only [if_true, hm]
  unfold Wpa2State.tryAddKeys
  simp only []
  cases hap : lookup st.aps (findApAddr fr.hdr) with
  | none => exact ⟨_, _, rfl, rfl, rfl, rfl, rfl⟩
  | some v =>
    obtain ⟨ssid, pmk⟩ := v
    simp only []
    cases hdk : deriveKeys prf micf ⟨(pairOf fr.hdr).1, (pairOf fr.hdr).2, m⟩ pmk with
    | none => exact ⟨_, _, rfl, rfl, rfl, rfl, rfl⟩
    | some key => exact ⟨_, _, rfl, rfl, rfl, rfl, rfl⟩

/-- what ties the decrypter to the grammar's view of pair `k` -/
structure DecInv (prf : Bytes → Bytes → Bytes) (micf : Bool → Bytes → Bytes → Bytes) (k kk : AddrPair) (ap : Addr)
    (ssid pmk : Bytes) (init : Option SessionKeys) (st : Wpa2State) (t : Track) : Prop where
  drained : st.cap.completed = []
  apKnown : lookup st.aps ap = some (ssid, pmk)
  keys : lookup st.keys kk = expectedKeys prf micf k pmk init t.completed
  entry : phaseEntry t.phase (st.cap.entry k)

/-- a data frame with an RSNEAPOL on which `process_packet` returns false -/
theorem dec_nodone (ip : InnerParser) (aes : Bytes → BlockFn) (prf : Bytes → Bytes → Bytes)
    (micf : Bool → Bytes → Bytes → Bytes) (st : Wpa2State) (fr : Frame) (e : Eapol) (hq : fr.hdr.QosCastOk)
    (he : fr.inner.findEapol = some e) (h2 : (st.cap.process fr.hdr e).2 = false) :
    ∃ st', st.step ip aes prf micf (.data fr) = some st' ∧ st'.cap = (st.cap.process fr.hdr e).1 ∧
      st'.keys = st.keys ∧ st'.aps = st.aps := by
  have hcap : (match fr.inner.findEapol with
      | some e' => st.cap.process fr.hdr e' = ((st.cap.process fr.hdr e).1, false)
      | none => (st.cap.process fr.hdr e).1 = st.cap) := by
    rw [he]; exact Prod.ext rfl h2
  obtain ⟨r, p', ev, hd⟩ := wpa2Decrypt_data_path ip aes prf micf st fr hq (st.cap.process fr.hdr e).1 hcap
  exact ⟨{ st with cap := (st.cap.process fr.hdr e).1 }, by unfold Wpa2State.step; rw [hd], rfl, rfl, rfl⟩

theorem expectedKeys_snoc (prf : Bytes → Bytes → Bytes) (micf : Bool → Bytes → Bytes → Bytes) (k : AddrPair) (pmk : Bytes)
    (init : Option SessionKeys) (cs : List Attempt) (a : Attempt) :
    expectedKeys prf micf k pmk init (cs ++ [a]) = learnStep prf micf k pmk (expectedKeys prf micf k pmk init cs) a := by
  simp [expectedKeys, List.foldl_append]

/-- one `decrypt` call keeps the decrypter in line with the grammar -/
theorem decrypter_step (ip : InnerParser) (aes : Bytes → BlockFn) (prf : Bytes → Bytes → Bytes)
    (micf : Bool → Bytes → Bytes → Bytes) (k kk : AddrPair) (ap : Addr) (ssid pmk : Bytes) (init : Option SessionKeys)
    (st : Wpa2State) (t t' : Track) (p : Parsed) (inv : DecInv prf micf k kk ap ssid pmk init st t)
    (ht : t.stepDec k kk ap p = some t') (hq : p.castOk) :
    ∃ st', st.step ip aes prf micf p = some st' ∧ DecInv prf micf k kk ap ssid pmk init st' t' := by
  -- frames that are not data frames
  have nondata : (∀ fr, p ≠ .data fr) → t' = t →
      ∃ st', st.step ip aes prf micf p = some st' ∧ DecInv prf micf k kk ap ssid pmk init st' t' := by
    intro hnd htt
    obtain ⟨st', r, p', ev, hd, hc, hk, ha⟩ := wpa2Decrypt_nondata ip aes prf micf st p hnd
    refine ⟨st', by unfold Wpa2State.step; rw [hd], ?_⟩
    subst htt
    exact ⟨by rw [hc]; exact inv.drained, ha _ _ inv.apKnown, by rw [hk]; exact inv.keys, by rw [hc]; exact inv.entry⟩
  -- data frames on which `process_packet` returns false, given what they do to the pair's entry
  have quiet : ∀ (fr : Frame) (e : Eapol), p = .data fr → fr.inner.findEapol = some e →
      (st.cap.process fr.hdr e).2 = false → t'.completed = t.completed →
      phaseEntry t'.phase ((st.cap.process fr.hdr e).1.entry k) →
      ∃ st', st.step ip aes prf micf p = some st' ∧ DecInv prf micf k kk ap ssid pmk init st' t' := by
    intro fr e hp he h2 hcs hent
    subst hp
    obtain ⟨st', hs, hc, hk, ha⟩ := dec_nodone ip aes prf micf st fr e hq he h2
    refine ⟨st', hs, ?_⟩
    exact ⟨by rw [hc, process_not_done _ _ _ h2]; exact inv.drained, by rw [ha]; exact inv.apKnown,
      by rw [hk, hcs]; exact inv.keys, by rw [hc]; exact hent⟩
  cases p with
  | notData => exact nondata (fun fr h => by cases h) (by simpa [Track.stepDec] using ht.symm)
  | beacon a3 s => exact nondata (fun fr h => by cases h) (by simpa [Track.stepDec] using ht.symm)
  | data fr =>
    unfold Track.stepDec at ht
    simp only [] at ht
    cases he : fr.inner.findEapol with
    | none =>
      simp only [he] at ht
      cases ht
      have hcap : (match fr.inner.findEapol with
          | some e => st.cap.process fr.hdr e = (st.cap, false)
          | none => st.cap = st.cap) := by rw [he]
      obtain ⟨r, p', ev, hd⟩ := wpa2Decrypt_data_path ip aes prf micf st fr hq st.cap hcap
      exact ⟨_, by unfold Wpa2State.step; rw [hd], inv.drained, inv.apKnown, inv.keys, inv.entry⟩
    | some e =>
      simp only [he] at ht
      by_cases hk : pairOf fr.hdr = k
      · rw [if_pos hk] at ht
        subst hk
        rcases msgClass_spec e with ⟨hm, h1⟩ | ⟨hm, h2⟩ | ⟨hm, h3⟩ | ⟨hm, h4⟩ | ⟨hm, n1, n2, n3, n4⟩
        · -- message 1
          rw [hm] at ht
          obtain ⟨p1, p2, _⟩ := process_m1 st.cap fr.hdr e h1
          cases hph : t.phase <;> simp [hph, Spec.Phase.next] at ht <;> subst ht <;>
            exact quiet fr e rfl he p2 (by simp) (by simpa [phaseEntry] using p1)
        · -- message 2
          rw [hm] at ht
          have hent := inv.entry
          cases hph : t.phase with
          | got1 a =>
            obtain ⟨p1, _, p3, _⟩ := process_m2 st.cap fr.hdr e h2 a
            simp [hph, Spec.Phase.next] at ht; subst ht
            rw [hph] at hent
            exact quiet fr e rfl he p3 (by simp) (by simpa [phaseEntry] using p1 hent)
          | got2 a b =>
            obtain ⟨_, p2, p3, _⟩ := process_m2 st.cap fr.hdr e h2 a
            simp [hph, Spec.Phase.next] at ht; subst ht
            rw [hph] at hent
            exact quiet fr e rfl he p3 (by simp) (by simpa [phaseEntry] using p2 b hent)
          | start => simp [hph, Spec.Phase.next] at ht
          | got3 a b d => simp [hph, Spec.Phase.next] at ht
          | done => simp [hph, Spec.Phase.next] at ht
        · -- message 3
          rw [hm] at ht
          have hent := inv.entry
          cases hph : t.phase with
          | got2 a b =>
            obtain ⟨p1, _, p3, _⟩ := process_m3 st.cap fr.hdr e h3 a b
            simp [hph, Spec.Phase.next] at ht; subst ht
            rw [hph] at hent
            exact quiet fr e rfl he p3 (by simp) (by simpa [phaseEntry] using p1 hent)
          | got3 a b d =>
            obtain ⟨_, p2, p3, _⟩ := process_m3 st.cap fr.hdr e h3 a b
            simp [hph, Spec.Phase.next] at ht; subst ht
            rw [hph] at hent
            exact quiet fr e rfl he p3 (by simp) (by simpa [phaseEntry] using p2 d hent)
          | start => simp [hph, Spec.Phase.next] at ht
          | got1 a => simp [hph, Spec.Phase.next] at ht
          | done => simp [hph, Spec.Phase.next] at ht
        · -- message 4
          rw [hm] at ht
          have hent := inv.entry
          simp only [true_and] at ht
          by_cases hkk : extractAddrPair fr.hdr = kk ∧ findApAddr fr.hdr = ap
          · simp only [hkk, and_self, not_true_eq_false, if_false] at ht
            obtain ⟨hkk1, hkk2⟩ := hkk
            cases hph : t.phase with
            | got3 a b d =>
              rw [hph] at hent
              obtain ⟨q1, q2, q3⟩ := process_m4 st.cap fr.hdr e h4 a b d hent
              simp [hph, Spec.Phase.next] at ht; subst ht
              obtain ⟨m, st', ev, c1, c2, c3, c4, c5, c6⟩ := wpa2Decrypt_done ip aes prf micf st fr e he inv.drained q1
              rw [q2, inv.drained, List.nil_append] at c1
              have hmm : m = [a, b, d, e] := by
                have := List.cons.inj c1
                exact (Handshake.mk.inj this.1).2.2.symm
              subst hmm
              refine ⟨st', by unfold Wpa2State.step; rw [c2], c4, by rw [c3]; exact inv.apKnown, ?_, ?_⟩
              · show lookup st'.keys kk = expectedKeys prf micf (pairOf fr.hdr) pmk init (t.completed ++ [(a, b, d, e)])
                rw [expectedKeys_snoc, c6, hkk2, inv.apKnown, ← inv.keys]
                simp only [learnStep, Attempt.handshake]
                cases hdk : deriveKeys prf micf ⟨(pairOf fr.hdr).1, (pairOf fr.hdr).2, [a, b, d, e]⟩ pmk with
                | none => rfl
                | some key => simp only []; rw [hkk1]; exact lookup_insertKV_self _ _ _
              · show phaseEntry .done (lookup st'.cap.hs (pairOf fr.hdr))
                rw [c5]; exact q3
            | done =>
              rw [hph] at hent
              obtain ⟨q1, q2, _⟩ := process_m4_idle st.cap fr.hdr e h4 hent
              simp [hph, Spec.Phase.next] at ht; subst ht
              exact quiet fr e rfl he q1 (by simp) (by simpa [phaseEntry] using q2)
            | start => simp [hph, Spec.Phase.next] at ht
            | got1 a => simp [hph, Spec.Phase.next] at ht
            | got2 a b => simp [hph, Spec.Phase.next] at ht
          · simp [hkk] at ht
        · rw [hm] at ht
          simp at ht; subst ht
          have hpr := process_noclass st.cap fr.hdr e n1 n2 n3 n4
          exact quiet fr e rfl he (by rw [hpr]) rfl (by rw [hpr]; exact inv.entry)
      · rw [if_neg hk] at ht
        have hother := process_other st.cap fr.hdr e k (fun x => hk x.symm)
        cases hd : (st.cap.process fr.hdr e).2 with
        | false =>
          have htt : t' = t := by
            split at ht
            · cases ht
            · exact (Option.some.inj ht).symm
          subst htt
          exact quiet fr e rfl he hd rfl (by rw [hother]; exact inv.entry)
        | true =>
          have h4 := process_done_isM4 st.cap fr.hdr e hd
          have hm4 : msgClass e = some .m4 := by
            rcases msgClass_spec e with ⟨_, h1⟩ | ⟨_, h2⟩ | ⟨_, h3⟩ | ⟨hm, _⟩ | ⟨_, _, _, _, n4⟩
            · unfold isM1 at h1; unfold isM4 at h4; revert h1 h4
              generalize e.keyT = a, e.keyAck = b, e.keyMic = c, e.install = d, e.secure = s
              cases a <;> cases b <;> cases c <;> cases d <;> cases s <;> simp
            · unfold isM2 at h2; unfold isM4 at h4; revert h2 h4
              generalize e.keyT = a, e.keyAck = b, e.keyMic = c, e.install = d, e.secure = s
              cases a <;> cases b <;> cases c <;> cases d <;> cases s <;> simp
            · unfold isM3 at h3; unfold isM4 at h4; revert h3 h4
              generalize e.keyT = a, e.keyAck = b, e.keyMic = c, e.install = d, e.secure = s
              cases a <;> cases b <;> cases c <;> cases d <;> cases s <;> simp
            · exact hm
            · rw [h4] at n4; cases n4
          have hne : extractAddrPair fr.hdr ≠ kk := by
            intro hx
            simp [hm4, hx] at ht
          have htt : t' = t := by
            simp [hm4, hne] at ht
            exact ht.symm
          subst htt
          obtain ⟨m, st', ev, c1, c2, c3, c4, c5, c6⟩ := wpa2Decrypt_done ip aes prf micf st fr e he inv.drained hd
          refine ⟨st', by unfold Wpa2State.step; rw [c2], c4, by rw [c3]; exact inv.apKnown, ?_, ?_⟩
          · rw [c6, ← inv.keys]
            have hne' : kk ≠ extractAddrPair fr.hdr := fun x => hne x.symm
            split
            · rfl
            · split
              · exact lookup_insertKV_ne _ _ _ _ hne'
              · rfl
          · show phaseEntry t'.phase (lookup st'.cap.hs k)
            rw [c5]
            have h := inv.entry
            rw [← hother] at h
            exact h

theorem decrypter_run_valid (ip : InnerParser) (aes : Bytes → BlockFn) (prf : Bytes → Bytes → Bytes)
    (micf : Bool → Bytes → Bytes → Bytes) (k kk : AddrPair) (ap : Addr) (ssid pmk : Bytes) (init : Option SessionKeys)
    (ps : List Parsed) (st : Wpa2State) (t t' : Track) (inv : DecInv prf micf k kk ap ssid pmk init st t)
    (ht : t.runDec k kk ap ps = some t') (hq : ∀ p ∈ ps, p.castOk) :
    ∃ st', st.run ip aes prf micf ps = some st' ∧ DecInv prf micf k kk ap ssid pmk init st' t' := by
  induction ps generalizing st t with
  | nil =>
    simp [Track.runDec] at ht; subst ht
    exact ⟨st, rfl, inv⟩
  | cons p ps ih =>
    simp only [Track.runDec] at ht
    cases hs : t.stepDec k kk ap p with
    | none => simp [hs] at ht
    | some t1 =>
      simp only [hs, Option.bind_some] at ht
      obtain ⟨st1, h1, inv1⟩ := decrypter_step ip aes prf micf k kk ap ssid pmk init st t t1 p inv hs
        (hq p (List.mem_cons_self ..))
      obtain ⟨st', h2, inv'⟩ := ih st1 t1 inv1 ht (fun q hq' => hq q (List.mem_cons_of_mem _ hq'))
      exact ⟨st', by simp only [Wpa2State.run, h1, Option.bind_some]; exact h2, inv'⟩

/-- the entry after a non-empty list of completed attempts whose last one verifies: that attempt's keys -/
theorem expectedKeys_last (prf : Bytes → Bytes → Bytes) (micf : Bool → Bytes → Bytes → Bytes) (k : AddrPair) (pmk : Bytes)
    (init : Option SessionKeys) (cs : List Attempt) (a : Attempt) (key : SessionKeys)
    (hd : deriveKeys prf micf (a.handshake k) pmk = some key) :
    expectedKeys prf micf k pmk init (cs ++ [a]) = some key := by
  rw [expectedKeys_snoc]; simp [learnStep, hd]

/-! ### the key-table entry of an infrastructure frame is the capturer's pair -/

theorem lexLt_irrefl (a : Bytes) : lexLt a a = false := by
  induction a with
  | nil => rfl
  | cons x a ih => simp [lexLt, ih]

theorem lexLt_asymm (a b : Bytes) (h : lexLt a b = true) : lexLt b a = false := by
  induction a generalizing b with
  | nil => cases b <;> simp_all [lexLt]
  | cons x a ih =>
    cases b with
    | nil => simp [lexLt] at h
    | cons y b =>
      simp only [lexLt] at h ⊢
      by_cases hxy : x < y
      · have : ¬ y < x := fun h' => by
          have h1 := UInt8.lt_iff_toNat_lt.mp hxy
          have h2 := UInt8.lt_iff_toNat_lt.mp h'
          omega
        simp [this, hxy]
      · by_cases hyx : y < x
        · simp [hxy, hyx] at h
        · simp only [hxy, hyx, if_false] at h ⊢
          exact ih b h

/-- lexicographic order on octet strings is total -/
theorem lexLt_total (a b : Bytes) (h1 : lexLt a b = false) (h2 : lexLt b a = false) : a = b := by
  induction a generalizing b with
  | nil => cases b <;> simp_all [lexLt]
  | cons x a ih =>
    cases b with
    | nil => simp [lexLt] at h2
    | cons y b =>
      simp only [lexLt] at h1 h2
      by_cases hxy : x < y
      · simp [hxy] at h1
      · by_cases hyx : y < x
        · simp [hyx] at h2
        · simp only [hxy, hyx, if_false] at h1 h2
          have hxe : x = y := by
            have h1' : ¬ x.toNat < y.toNat := fun h => hxy (UInt8.lt_iff_toNat_lt.mpr h)
            have h2' : ¬ y.toNat < x.toNat := fun h => hyx (UInt8.lt_iff_toNat_lt.mpr h)
            exact UInt8.toNat_inj.mp (by omega)
          rw [hxe, ih b h1 h2]

/-- `(min(a, b), max(a, b))` of `process_packet` and `make_addr_pair(a, b)` of `WPA2Decrypter` name the same pair,
    in either order of the arguments -/
theorem minmax_eq_makeAddrPair (a b : Bytes) :
    (addrMin a b, addrMax a b) = makeAddrPair a b ∧ (addrMin a b, addrMax a b) = makeAddrPair b a := by
  unfold addrMin addrMax makeAddrPair
  rw [addrLt_eq_lexLt, addrLt_eq_lexLt]
  cases hab : lexLt a b <;> cases hba : lexLt b a
  · have := lexLt_total a b hab hba; subst this; simp
  · simp
  · simp
  · rw [lexLt_asymm a b hab] at hba; cases hba

/-- for a frame a station sends to its access point (message 4 is one: to-DS, destination = the access point itself,
    addr3 = addr1) the capturer's pair, the decrypter's key-table entry and the access point looked up coincide with
    (station, access point) -/
theorem pairOf_eq_extract (h : Hdr) (h1 : h.toDS = true) (h2 : h.fromDS = false) (h3 : h.addr3 = h.addr1) :
    pairOf h = extractAddrPair h ∧ findApAddr h = h.addr1 := by
  unfold pairOf extractAddrPair findApAddr Hdr.srcAddr Hdr.dstAddr
  simp only [h1, h2, h3, Bool.not_false, Bool.not_true, Bool.and_true, Bool.and_false, Bool.false_eq_true, if_false, if_true,
    Bool.true_and]
  exact ⟨(minmax_eq_makeAddrPair h.addr2 h.addr1).2, trivial⟩

end Tins.Crypto
