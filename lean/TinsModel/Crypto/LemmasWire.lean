import TinsModel.Crypto.Frame
import TinsModel.Crypto.LemmasHdr
import TinsModel.Wire.Wifi.Eapol
import TinsModel.Wire.Wifi.Tagged
/-
  C09 — the parsing / serialization models the decrypters' models use (`parseEapol`, `Eapol.serialize`, `parseBeacon`,
  `parseTagged` in Crypto/Frame.lean) agree with the byte-level models of the Wifi wire family
  (`Wire.Wifi.Eapol.fromBytes` / `write`, `Wire.Wifi.Dot11.parse "Dot11Beacon"`, `Tagged.searchOption`), which carry
  the C02 / C03 / C01 theorems of RSNEAPOL and Dot11Beacon.  So "frame bytes → handshake message fields / SSID" is
  covered by those theorems.
-/
set_option linter.unusedSimpArgs false
namespace Tins.CryptoWire
open Tins.Crypto

abbrev WEapol := Tins.Wire.Wifi.Eapol
abbrev WInner := Tins.Wire.Inner

/-- the C09 view of an `RSNEAPOL` object of the wire family with what its constructor hung below it -/
def eapolView (r : WEapol × WInner) : Eapol :=
  ⟨r.1.hdr.getD 0 0, r.1.hdr.getD 1 0, r.1.hdr.getD 4 0, r.1.sub, r.1.key,
   match r.2 with
   | .raw b => b
   | _ => []⟩

theorem beNat_two (x y : UInt8) : Tins.Cursor.beNat [x, y] = x.toNat * 256 + y.toNat := by
  simp [Tins.Cursor.beNat]

theorem drop_take_two (l : Bytes) (i : Nat) (h : i + 2 ≤ l.length) : (l.drop i).take 2 = [l.getD i 0, l.getD (i + 1) 0] := by
  induction i generalizing l with
  | zero =>
    match l, h with
    | x :: y :: r, _ => simp
  | succ i ih =>
    match l, h with
    | a :: l', h => simpa using ih l' (by simpa using h)

theorem beAt_eq (l : Bytes) (i : Nat) (h : i + 2 ≤ l.length) :
    Tins.Wire.Wifi.Eapol.beAt l i 2 = (l.getD i 0).toNat * 256 + (l.getD (i + 1) 0).toNat := by
  unfold Tins.Wire.Wifi.Eapol.beAt
  rw [drop_take_two l i h, beNat_two]

/-- `RSNEAPOL::RSNEAPOL(buffer, total_sz)` on at least 99 bytes -/
theorem wire_parse_rsn (b : Bytes) (h99 : 99 ≤ b.length) :
    let sub := (b.drop 5).take 94
    let klen := (sub.getD 92 0).toNat * 256 + (sub.getD 93 0).toNat
    let rest := b.drop 99
    Tins.Wire.Wifi.Eapol.parse true b =
      if rest.length ≥ klen then
        .ok (⟨true, b.take 5, sub, rest.take klen⟩, if rest.length > klen then .raw (rest.drop klen) else .none)
      else .ok (⟨true, b.take 5, sub, []⟩, .none) := by
  intro sub klen rest
  have hsub : sub.length = 94 := by simp [sub]; omega
  have hk : Tins.Wire.Wifi.Eapol.beAt sub 92 2 = klen := beAt_eq sub 92 (by omega)
  have hrest : rest.length = b.length - 99 := by simp [rest]
  unfold Tins.Wire.Wifi.Eapol.parse
  simp only [Tins.Cursor.ofBytes, Tins.Cursor.read, Tins.Cursor.skip, Tins.Cursor.canRead, Tins.Wire.Wifi.Eapol.subLen,
    Tins.Wire.Wifi.Eapol.keyLenOff, if_true, bind, Tins.Out.bind, pure]
  have c1 : (5 ≤ b.length) := by omega
  have c2 : ¬ (5 > b.length) := by omega
  have c3 : ¬ (b.length < 5) := by omega
  have c4 : (94 ≤ b.length - 5) := by omega
  have c5 : ¬ ((b.drop 5).length < 94) := by simp; omega
  simp only [c1, c2, c3, c4, c5, decide_true, decide_false, Bool.not_true, Bool.not_false, Bool.false_eq_true, if_false, if_true]
  show (if b.length - 5 - 94 ≥ Tins.Wire.Wifi.Eapol.beAt sub 92 2 then _ else _) = _
  rw [hk]
  have hdd : List.drop 94 (List.drop 5 b) = rest := by simp [rest, List.drop_drop]
  by_cases hge : rest.length ≥ klen
  · have hge' : b.length - 5 - 94 ≥ klen := by omega
    simp only [hge, hge', if_true, hdd]
    have c6 : klen ≤ b.length - 5 - 94 := by omega
    have c7 : ¬ (rest.length < klen) := by omega
    simp only [c6, c7, decide_true, Bool.not_true, Bool.false_eq_true, if_false]
    by_cases hgt : rest.length > klen
    · have : (b.length - 5 - 94 - klen > 0) := by omega
      simp only [Tins.Cursor.toBool, this, decide_true, if_true, hgt, Tins.Wire.Cursor.rest, Tins.rdN]
      have : 0 + (b.length - 5 - 94 - klen) ≤ (rest.drop klen).length := by simp; omega
      simp only [this, if_true, List.drop_zero]
      have : List.take (b.length - 5 - 94 - klen) (rest.drop klen) = rest.drop klen :=
        List.take_of_length_le (by simp; omega)
      rw [this]
    · have : ¬ (b.length - 5 - 94 - klen > 0) := by omega
      simp only [Tins.Cursor.toBool, this, decide_false, Bool.false_eq_true, if_false, hgt]
      rfl
  · have hge' : ¬ (b.length - 5 - 94 ≥ klen) := by omega
    simp only [hge, hge', if_false]
    rfl

/-- `RSNEAPOL::RSNEAPOL(buffer, total_sz)` on fewer than 99 bytes: `malformed_packet` from one of the two reads -/
theorem wire_parse_rsn_short (b : Bytes) (h : b.length < 99) :
    Tins.Wire.Wifi.Eapol.parse true b = .throw .malformedPacket := by
  unfold Tins.Wire.Wifi.Eapol.parse
  simp only [Tins.Cursor.ofBytes, Tins.Cursor.read, Tins.Cursor.skip, Tins.Cursor.canRead, Tins.Wire.Wifi.Eapol.subLen,
    if_true, bind, Tins.Out.bind, pure]
  by_cases h5 : 5 ≤ b.length
  · have c2 : ¬ (5 > b.length) := by omega
    have c3 : ¬ (b.length < 5) := by omega
    have c4 : ¬ (94 ≤ b.length - 5) := by omega
    simp only [h5, c2, c3, c4, decide_true, decide_false, Bool.not_true, Bool.not_false, Bool.false_eq_true, if_false, if_true]
  · simp only [h5, decide_false, Bool.not_false, if_true]

theorem getD_take (l : Bytes) (n i : Nat) (h : i < n) : (l.take n).getD i 0 = l.getD i 0 := by
  simp [List.getD, List.getElem?_take, h]

/-- **RSNEAPOL parsing tie.** `EAPOL::from_bytes` as the decrypters' model sees it (`parseEapol`) and as the wire family
    models it (`Wire.Wifi.Eapol.fromBytes`, the object of the C01 / C02 / C03 theorems of RSNEAPOL) agree on every
    byte string: both throw `malformed_packet`, or both build the same `RSNEAPOL` (same version, packet type, descriptor
    type, same 94-byte header, same key data, same trailing `RawPDU`), or the key descriptor is neither RSN nor WPA. -/
theorem parseEapol_agrees (b : Bytes) :
    (b.length < 5 → parseEapol b = .error .malformedPacket ∧ Tins.Wire.Wifi.Eapol.fromBytes b = .throw .malformedPacket) ∧
    (5 ≤ b.length → (b.getD 4 0 = 2 ∨ b.getD 4 0 = 254) →
      (parseEapol b = .error .malformedPacket ∧ Tins.Wire.Wifi.Eapol.fromBytes b = .throw .malformedPacket) ∨
      ∃ r, Tins.Wire.Wifi.Eapol.fromBytes b = .ok (some r) ∧ r.1.rsn = true ∧ parseEapol b = .ok (some (eapolView r))) ∧
    (5 ≤ b.length → b.getD 4 0 ≠ 2 → b.getD 4 0 ≠ 254 →
      parseEapol b = .ok none ∧ (b.getD 4 0 ≠ 1 → Tins.Wire.Wifi.Eapol.fromBytes b = .ok none)) := by
  refine ⟨?_, ?_, ?_⟩
  · intro h
    constructor
    · unfold parseEapol; simp [h]
    · unfold Tins.Wire.Wifi.Eapol.fromBytes; simp [h]
  · intro h5 ht
    have hl : ¬ b.length < 5 := by omega
    -- the wire model's view of the fixed header
    have hrd : Tins.rdN "EAPOL::from_bytes ptr->length/type" b 0 5 = .ok (b.take 5) := by
      unfold Tins.rdN; simp [show 0 + 5 ≤ b.length by omega]
    have hlen : Tins.Wire.Wifi.Eapol.beAt (b.take 5) 2 2 = (b.getD 2 0).toNat * 256 + (b.getD 3 0).toNat := by
      rw [beAt_eq (b.take 5) 2 (by simp; omega), getD_take b 5 2 (by omega), getD_take b 5 3 (by omega)]
    have hty : Tins.Wire.Wifi.byteAt (b.take 5) 4 = (b.getD 4 0).toNat := by
      unfold Tins.Wire.Wifi.byteAt; rw [getD_take b 5 4 (by omega)]
    generalize hdl : (b.getD 2 0).toNat * 256 + (b.getD 3 0).toNat + 4 = dataLen
    have htot : (if b.length < dataLen then b.length else dataLen) = min b.length dataLen := by
      by_cases hh : b.length < dataLen
      · simp [hh]; omega
      · simp [hh]; omega
    have hwire : Tins.Wire.Wifi.Eapol.fromBytes b =
        (Tins.Wire.Wifi.Eapol.parse true (b.take (min b.length dataLen))) >>= fun r => pure (some r) := by
      unfold Tins.Wire.Wifi.Eapol.fromBytes
      simp only [hl, if_false, hrd, Tins.Out.bind_ok, hlen, hty, hdl, htot]
      rcases ht with ht | ht <;> rw [ht] <;> rfl
    have hcry : parseEapol b =
        (let b' := b.take (min b.length dataLen)
         if b'.length < 99 then .error .malformedPacket else
         let hdr := (b'.drop 5).take 94
         let wpaLen := (hdr.getD 92 0).toNat * 256 + (hdr.getD 93 0).toNat
         let rest := b'.drop 99
         if rest.length ≥ wpaLen then
           .ok (some ⟨b'.getD 0 0, b'.getD 1 0, b.getD 4 0, hdr, rest.take wpaLen, rest.drop wpaLen⟩)
         else .ok (some ⟨b'.getD 0 0, b'.getD 1 0, b.getD 4 0, hdr, [], []⟩)) := by
      unfold parseEapol
      simp only [hl, if_false, hdl]
      rcases ht with ht | ht <;> rw [ht] <;> rfl
    rw [hwire, hcry]
    have hb4 : 99 ≤ (b.take (min b.length dataLen)).length → (b.take (min b.length dataLen)).getD 4 0 = b.getD 4 0 := by
      intro h; exact getD_take b _ 4 (by simp at h; omega)
    generalize b.take (min b.length dataLen) = b' at hb4
    by_cases h99 : b'.length < 99
    · left
      rw [wire_parse_rsn_short b' h99]
      simp [h99]
    · right
      have h99' : 99 ≤ b'.length := by omega
      have hp := wire_parse_rsn b' h99'
      simp only [] at hp
      rw [hp]
      simp only [h99, if_false]
      by_cases hge : (b'.drop 99).length ≥ ((List.take 94 (List.drop 5 b')).getD 92 0).toNat * 256 +
          ((List.take 94 (List.drop 5 b')).getD 93 0).toNat
      · simp only [hge, if_true, Tins.Out.bind_ok, pure]
        refine ⟨_, rfl, rfl, ?_⟩
        unfold eapolView
        simp only [getD_take b' 5 0 (by omega), getD_take b' 5 1 (by omega), getD_take b' 5 4 (by omega), hb4 h99']
        by_cases hgt : (b'.drop 99).length > ((List.take 94 (List.drop 5 b')).getD 92 0).toNat * 256 +
            ((List.take 94 (List.drop 5 b')).getD 93 0).toNat
        · simp only [hgt, if_true]
        · simp only [hgt, if_false]
          have hnil : List.drop (((List.take 94 (List.drop 5 b')).getD 92 0).toNat * 256 +
              ((List.take 94 (List.drop 5 b')).getD 93 0).toNat) (List.drop 99 b') = [] :=
            List.drop_eq_nil_of_le (by omega)
          rw [hnil]
      · simp only [hge, if_false, Tins.Out.bind_ok, pure]
        refine ⟨_, rfl, rfl, ?_⟩
        unfold eapolView
        simp only [getD_take b' 5 0 (by omega), getD_take b' 5 1 (by omega), getD_take b' 5 4 (by omega), hb4 h99']
  · intro h5 h2 h254
    have hl : ¬ b.length < 5 := by omega
    constructor
    · unfold parseEapol
      simp only [hl, if_false]
      have e1 : (b.getD 4 0 == 2) = false := by simpa using h2
      have e2 : (b.getD 4 0 == 254) = false := by simpa using h254
      simp only [e1, e2, Bool.or_self, Bool.false_eq_true, if_false]
    · intro h1
      have hrd : Tins.rdN "EAPOL::from_bytes ptr->length/type" b 0 5 = .ok (b.take 5) := by
        unfold Tins.rdN; simp [show 0 + 5 ≤ b.length by omega]
      have hty : Tins.Wire.Wifi.byteAt (b.take 5) 4 = (b.getD 4 0).toNat := by
        unfold Tins.Wire.Wifi.byteAt; rw [getD_take b 5 4 (by omega)]
      have n1 : ((b.getD 4 0).toNat == 1) = false := by
        simp only [beq_eq_false_iff_ne, ne_eq]; intro h; exact h1 (UInt8.toNat_inj.mp h)
      have n2 : ((b.getD 4 0).toNat == 2) = false := by
        simp only [beq_eq_false_iff_ne, ne_eq]; intro h; exact h2 (UInt8.toNat_inj.mp h)
      have n3 : ((b.getD 4 0).toNat == 254) = false := by
        simp only [beq_eq_false_iff_ne, ne_eq]; intro h; exact h254 (UInt8.toNat_inj.mp h)
      unfold Tins.Wire.Wifi.Eapol.fromBytes
      simp only [hl, if_false, hrd, Tins.Out.bind_ok, hty, n1, n2, n3, Bool.or_self, Bool.false_eq_true]
      rfl

/-! ### `RSNEAPOL::serialize()` -/

theorem beBytes_two (v : Nat) : Tins.OutCursor.beBytes 2 v = [UInt8.ofNat (v / 256 % 256), UInt8.ofNat (v % 256)] := by
  simp [Tins.OutCursor.beBytes]

theorem be16_eq (n : Nat) : Eapol.be16 n = [UInt8.ofNat (n / 256 % 256), UInt8.ofNat (n % 256)] := rfl

theorem write_ok (o : Tins.OutCursor) (bs : Bytes) (h1 : bs.length ≤ o.size) (h2 : bs.length ≤ o.rest.length) :
    o.write bs = .ok ⟨o.done ++ bs, o.rest.drop bs.length, o.size - bs.length⟩ := by
  unfold Tins.OutCursor.write
  simp [show ¬ o.size < bs.length by omega, show ¬ o.rest.length < bs.length by omega]

/-- **RSNEAPOL serialization tie.** For every RSNEAPOL as `from_bytes` builds them (94-byte header), whatever the
    stored EAPOL length field and whatever the destination buffer held before, `write_serialization` of the wire family
    (`Wire.Wifi.Eapol.write`: length field, header, `write_body`, the redundant `memcpy`) followed by the trailing
    `RawPDU` produces exactly `Eapol.serialize` — the byte string the MIC of message 4 is computed over. -/
theorem serialize_agrees (e : Eapol) (hh : e.hdr.length = 94) (l0 l1 : UInt8) (pre : Bytes)
    (hpre : pre.length = 99 + e.key.length) :
    Tins.Wire.Wifi.Eapol.write ⟨true, [e.version, e.packetType, l0, l1, e.descType], e.hdr, e.key⟩ (pre ++ e.trailing) =
      .ok e.serialize := by
  have hreg : (pre ++ e.trailing).length = 99 + e.key.length + e.trailing.length := by simp [hpre]
  generalize hL : 99 + e.key.length + e.trailing.length = L at hreg
  have hLen : Tins.OutCursor.beBytes 2 (((pre ++ e.trailing).length + 4294967296 - 4) % 4294967296) =
      Eapol.be16 ((L - 4) % 65536) := by
    rw [hreg, beBytes_two, be16_eq]
    have h4 : 4 ≤ L := by omega
    have a1 : (L + 4294967296 - 4) % 4294967296 / 256 % 256 = (L - 4) % 65536 / 256 % 256 := by omega
    have a2 : (L + 4294967296 - 4) % 4294967296 % 256 = (L - 4) % 65536 % 256 := by omega
    rw [a1, a2]
  have hhdr : Tins.Wire.Wifi.Dot11.patch [e.version, e.packetType, l0, l1, e.descType] 2 (Eapol.be16 ((L - 4) % 65536)) =
      [e.version, e.packetType] ++ Eapol.be16 ((L - 4) % 65536) ++ [e.descType] := by
    rw [be16_eq]; rfl
  have hsub : Tins.Wire.Wifi.Eapol.subForWrite ⟨true, [e.version, e.packetType, l0, l1, e.descType], e.hdr, e.key⟩ =
      (if e.key.isEmpty then e.hdr else e.hdr.take 92 ++ Eapol.be16 (e.key.length % 65536)) := by
    unfold Tins.Wire.Wifi.Eapol.subForWrite
    cases hk : e.key with
    | nil => simp
    | cons x xs =>
      simp only [List.length_cons, Nat.add_one_ne_zero, beq_iff_eq, if_false, Bool.not_true, Bool.false_eq_true,
        List.isEmpty_cons]
      unfold Tins.Wire.Wifi.Dot11.patch
      rw [beBytes_two, be16_eq]
      have : 92 + [UInt8.ofNat ((xs.length + 1) / 256 % 256), UInt8.ofNat ((xs.length + 1) % 256)].length ≤ e.hdr.length := by
        simp [hh]
      simp only [this, if_true]
      have hd : List.drop (92 + [UInt8.ofNat ((xs.length + 1) / 256 % 256), UInt8.ofNat ((xs.length + 1) % 256)].length) e.hdr = [] :=
        List.drop_eq_nil_of_le (by simp [hh])
      rw [hd, List.append_nil]
      have b1 : (xs.length + 1) % 65536 / 256 % 256 = (xs.length + 1) / 256 % 256 := by omega
      have b2 : (xs.length + 1) % 65536 % 256 = (xs.length + 1) % 256 := by omega
      rw [b1, b2]
  unfold Tins.Wire.Wifi.Eapol.write
  simp only [hLen, hhdr, hsub]
  generalize hs : (if e.key.isEmpty then e.hdr else e.hdr.take 92 ++ Eapol.be16 (e.key.length % 65536)) = sub
  have hsl : sub.length = 94 := by
    rw [← hs]; split
    · exact hh
    · simp [be16_eq, hh]
  generalize hH : [e.version, e.packetType] ++ Eapol.be16 ((L - 4) % 65536) ++ [e.descType] = H
  have hHl : H.length = 5 := by rw [← hH]; simp [be16_eq]
  simp only [Tins.Wire.Wifi.Dot11.writeAll, Tins.OutCursor.ofRegion, bind, Tins.Out.bind, pure]
  rw [write_ok _ H (by simp [hHl, hpre]; omega) (by simp [hHl, hpre]; omega)]
  simp only []
  rw [write_ok _ sub (by simp [hHl, hsl, hpre]; omega) (by simp [hHl, hsl, hpre]; omega)]
  simp only []
  rw [write_ok _ e.key (by simp [hHl, hsl, hpre]; omega) (by simp [hHl, hsl, hpre]; omega)]
  simp only [Tins.OutCursor.buffer, List.nil_append]
  unfold Tins.Wire.poke
  have hfit : 0 + H.length ≤ (H ++ sub ++ e.key ++ List.drop e.key.length (List.drop sub.length (List.drop H.length (pre ++ e.trailing)))).length := by
    simp
  simp only [hfit, if_true, List.take_zero, List.nil_append, Nat.zero_add]
  have hdrop : List.drop e.key.length (List.drop sub.length (List.drop H.length (pre ++ e.trailing))) = e.trailing := by
    rw [List.drop_drop, List.drop_drop, hHl, hsl]
    rw [List.drop_append_of_le_length (by omega)]
    rw [List.drop_eq_nil_of_le (by omega), List.nil_append]
  rw [hdrop]
  have : List.drop H.length (H ++ sub ++ e.key ++ e.trailing) = sub ++ e.key ++ e.trailing := by
    simp [List.append_assoc]
  rw [this]
  unfold Eapol.serialize
  have hle : H.length ≤ (H ++ (sub ++ (e.key ++ e.trailing))).length := by simp
  simp only [hL, hs, hH, List.append_assoc, hle, if_true]

/-! ### `Dot11Beacon`: tagged parameters and the SSID -/

open Tins.Wire.Wifi in
/-- the SSID `Dot11ManagementFrame::ssid()` finds: the data of the first option with code 0 -/
def firstSsid (os : List Opt) : Option Bytes := (Tagged.searchOption os Tagged.SSID).map (·.data)

open Tins.Wire.Wifi in
theorem firstSsid_snoc (os : List Opt) (o : Opt) :
    firstSsid (os ++ [o]) = if (firstSsid os).isNone && o.code == 0 then some o.data else firstSsid os := by
  unfold firstSsid Tagged.searchOption Tagged.SSID
  rw [List.find?_append]
  cases h : List.find? (fun o => o.code == 0) os with
  | some x => simp
  | none => by_cases hc : o.code == 0 <;> simp [hc]

theorem layout_beacon : Tins.Wire.Wifi.layoutOf "Dot11Beacon" = some ⟨.mgmt, [12], true, false⟩ := by
  simp [Tins.Wire.Wifi.layoutOf]

open Tins.Wire.Wifi in
/-- `Dot11::parse_tagged_parameters` of the wire family and the C09 model's loop agree from any position: both throw
    `malformed_packet`, or the first SSID among the options found is the one the C09 model returns -/
theorem tagged_agrees (fuel1 : Nat) (m : Bytes) (acc : List Opt) (sz fuel2 : Nat) (h1 : m.length < 2 * fuel1)
    (h2 : m.length < 2 * fuel2) :
    (∃ opts osz, Dot11.taggedLoop fuel1 ⟨m, m.length⟩ acc sz = .ok (opts, osz) ∧
        parseTagged fuel2 m (firstSsid acc) = .ok (firstSsid opts)) ∨
    (Dot11.taggedLoop fuel1 ⟨m, m.length⟩ acc sz = .throw .malformedPacket ∧
        parseTagged fuel2 m (firstSsid acc) = .throw .malformedPacket) := by
  induction fuel1 generalizing m acc sz fuel2 with
  | zero => omega
  | succ fuel1 ih =>
    cases fuel2 with
    | zero => omega
    | succ fuel2 =>
      match m with
      | [] => left; exact ⟨acc, sz, by simp [Dot11.taggedLoop], by simp [parseTagged]⟩
      | [x] => left; exact ⟨acc, sz, by simp [Dot11.taggedLoop], by simp [parseTagged]⟩
      | id :: len :: rest =>
        have h1' : rest.length + 2 < 2 * (fuel1 + 1) := by simpa using h1
        have h2' : rest.length + 2 < 2 * (fuel2 + 1) := by simpa using h2
        simp only [Dot11.taggedLoop, parseTagged, List.length_cons]
        have hs : rest.length + 1 + 1 ≥ 2 := by omega
        simp only [hs, if_true, Tins.Cursor.readU8, Tins.Cursor.readBE, Tins.Cursor.read, Tins.Cursor.canRead, bind,
          Tins.Out.bind, pure]
        have c1 : (1 ≤ rest.length + 1 + 1) := by omega
        have c2 : ¬ ((id :: len :: rest).length < 1) := by simp
        have c3 : (1 ≤ rest.length + 1 + 1 - 1) := by omega
        have c4 : ¬ ((len :: rest).length < 1) := by simp
        simp only [c1, c2, c3, c4, decide_true, Bool.not_true, Bool.false_eq_true, if_false, List.take_succ_cons, List.take_zero,
          List.drop_succ_cons, List.drop_zero, Tins.Cursor.beNat, List.foldl_cons, List.foldl_nil, Nat.zero_mul, Nat.zero_add]
        have hsz : rest.length + 1 + 1 - 1 - 1 = rest.length := by omega
        rw [hsz]
        by_cases hlen : rest.length < len.toNat
        · right
          have : ¬ (len.toNat ≤ rest.length) := by omega
          simp [hlen, this]
        · have hle : len.toNat ≤ rest.length := by omega
          simp only [hle, decide_true, Bool.not_true, Bool.false_eq_true, if_false, hlen, Tins.Cursor.peek, Tins.rdN,
            Nat.zero_add, if_true, List.drop_zero, Tins.Cursor.skip, show ¬ (len.toNat > rest.length) by omega]
          have hr := ih (rest.drop len.toNat) (acc ++ [⟨id.toNat, len.toNat, rest.take len.toNat⟩])
            ((sz + len.toNat + 2) % 4294967296) fuel2 (by simp; omega) (by simp; omega)
          rw [firstSsid_snoc] at hr
          have hid : (id.toNat == 0) = (id == 0) := by
            by_cases h : id = 0
            · subst h; rfl
            · have hn : id.toNat ≠ 0 := fun e => h (UInt8.toNat_inj.mp (by simpa using e))
              rw [beq_eq_false_iff_ne.mpr hn, beq_eq_false_iff_ne.mpr h]
          simp only [hid, List.length_drop] at hr
          exact hr

open Tins.Wire.Wifi in
theorem parseOpts_agrees (m : Bytes) (fuel2 : Nat) (h2 : m.length < 2 * fuel2) :
    (∃ opts osz, Dot11.parseOpts true ⟨m, m.length⟩ = .ok (opts, osz) ∧ parseTagged fuel2 m none = .ok (firstSsid opts)) ∨
    (Dot11.parseOpts true ⟨m, m.length⟩ = .throw .malformedPacket ∧ parseTagged fuel2 m none = .throw .malformedPacket) := by
  unfold Dot11.parseOpts Dot11.parseTagged
  simp only [if_true, Tins.Cursor.toBool]
  by_cases hm : m.length > 0
  · simp only [hm, decide_true, if_true]
    exact tagged_agrees (m.length / 2 + 1) m [] 0 fuel2 (by omega) h2
  · have : m = [] := List.eq_nil_of_length_eq_zero (by omega)
    subst this
    left
    refine ⟨[], 0, by simp, ?_⟩
    cases fuel2 with
    | zero => simp at h2
    | succ n => simp [parseTagged, firstSsid, Tins.Wire.Wifi.Tagged.searchOption]

set_option maxRecDepth 8000 in
theorem both_bits : ∀ x : UInt8, (x.toNat % 4 == 3) = ((x &&& 1 != 0) && (x &&& 2 != 0)) :=
  forall_uint8 _ (by decide)

open Tins.Wire.Wifi in
/-- the `Dot11Beacon(buffer, total_sz)` constructor chain of the wire family in closed form -/
theorem wire_beacon_eq (f : Bytes) :
    Dot11.parse "Dot11Beacon" f =
      (let both := (f.getD 1 0 &&& 1 != 0) && (f.getD 1 0 &&& 2 != 0)
       let off := if both then 30 else 24
       if f.length < off + 12 then .throw .malformedPacket else
       match Dot11.parseOpts true ⟨f.drop (off + 12), f.length - (off + 12)⟩ with
       | .ok r => .ok (⟨"Dot11Beacon", ⟨.mgmt, [12], true, false⟩, f.take 10, (f.drop 10).take 14,
                        if both then (f.drop 24).take 6 else zeros 6, (f.drop off).take 12, r.1, r.2⟩, .none)
       | .throw e => .throw e
       | .fault s => .fault s) := by
  unfold Dot11.parse
  rw [layout_beacon]
  simp only []
  unfold Dot11.parseWith Dot11.parseBase Dot11.parseExt
  simp only [Tins.Cursor.ofBytes, Tins.Cursor.read, Tins.Cursor.skip, Tins.Cursor.canRead, bind, Tins.Out.bind, pure,
    Bool.false_eq_true, if_false, Dot11.readChunks]
  by_cases h24 : 24 ≤ f.length
  · have hboth : bothDS (f.take 10) = ((f.getD 1 0 &&& 1 != 0) && (f.getD 1 0 &&& 2 != 0)) := by
      unfold bothDS byteAt
      rw [getD_take f 10 1 (by omega)]
      exact both_bits _
    have h10 : 10 ≤ f.length := by omega
    have c1 : ¬ (f.length < 10) := by omega
    have c2 : ¬ (10 > f.length) := by omega
    have c3 : 14 ≤ f.length - 10 := by omega
    have c4 : ¬ ((f.drop 10).length < 14) := by simp; omega
    simp only [h10, c1, c2, c3, c4, decide_true, Bool.not_true, Bool.false_eq_true, if_false]
    rw [hboth]
    have e3 : List.drop 14 (List.drop 10 f) = List.drop 24 f := by simp [List.drop_drop]
    cases hb : ((f.getD 1 0 &&& 1 != 0) && (f.getD 1 0 &&& 2 != 0))
    · -- three addresses
      by_cases h36 : 36 ≤ f.length
      · have e1 : List.drop 12 (List.drop 24 f) = List.drop 36 f := by simp [List.drop_drop]
        have e2 : f.length - 24 - 12 = f.length - 36 := by omega
        simp [show ¬ f.length < 24 by omega, show ¬ f.length < 36 by omega, show 12 ≤ f.length - 24 by omega,
          show ¬ f.length - 24 < 12 by omega, e1, e2]
        cases Dot11.parseOpts true ⟨List.drop 36 f, f.length - 36⟩ <;> rfl
      · simp [show ¬ f.length < 24 by omega, show f.length < 36 by omega, show ¬ 12 ≤ f.length - 24 by omega]
    · -- four addresses
      by_cases h42 : 42 ≤ f.length
      · have e1 : List.drop 12 (List.drop 30 f) = List.drop 42 f := by simp [List.drop_drop]
        have e2 : f.length - 30 - 12 = f.length - 42 := by omega
        simp [show 6 ≤ f.length - 10 - 14 by omega, show ¬ f.length - 24 < 6 by omega, show ¬ f.length - 10 - 14 < 6 by omega,
          show ¬ f.length < 30 by omega, show ¬ f.length < 42 by omega, show 12 ≤ f.length - 30 by omega,
          show ¬ f.length - 30 < 12 by omega, e1, e2, e3]
        cases Dot11.parseOpts true ⟨List.drop 42 f, f.length - 42⟩ <;> rfl
      · by_cases h30 : 30 ≤ f.length
        · simp [show 6 ≤ f.length - 10 - 14 by omega, show ¬ f.length - 24 < 6 by omega, show ¬ f.length - 10 - 14 < 6 by omega, e3,
            show ¬ f.length < 30 by omega, show f.length < 42 by omega, show ¬ 12 ≤ f.length - 30 by omega]
        · simp [show ¬ 6 ≤ f.length - 10 - 14 by omega, show f.length < 42 by omega]
  · have hlt : f.length < (if ((f.getD 1 0 &&& 1 != 0) && (f.getD 1 0 &&& 2 != 0)) = true then 30 else 24) + 12 := by
      split <;> omega
    rw [if_pos hlt]
    by_cases h10 : 10 ≤ f.length
    · simp [h10, show ¬ f.length < 10 by omega, show ¬ 14 ≤ f.length - 10 by omega]
    · simp [h10]

open Tins.Wire.Wifi in
/-- **Dot11Beacon parsing tie.** On every byte string, the `Dot11Beacon` constructor of the wire family (management
    header, optional fourth address, 12 octets of fixed parameters, `parse_tagged_parameters`) and the C09 model's
    `parseBeacon` agree: both throw `malformed_packet`, or the model's BSSID is `addr3()` of the object and the model's
    SSID is what `ssid()` / `search_option(SSID)` finds among the object's options. -/
theorem parseBeacon_agrees (f : Bytes) :
    (∃ d i, Dot11.parse "Dot11Beacon" f = .ok (d, i) ∧
        parseBeacon f = .ok (.beacon ((d.ext.drop 6).take 6) (firstSsid d.opts))) ∨
    (Dot11.parse "Dot11Beacon" f = .throw .malformedPacket ∧ parseBeacon f = .throw .malformedPacket) := by
  rw [wire_beacon_eq]
  unfold parseBeacon
  simp only []
  generalize hoff : (if ((f.getD 1 0 &&& 1 != 0) && (f.getD 1 0 &&& 2 != 0)) = true then 30 else 24) = off
  have hhl : 24 + (if ((f.getD 1 0 &&& 1 != 0) && (f.getD 1 0 &&& 2 != 0)) = true then 6 else 0) = off := by
    rw [← hoff]; split <;> rfl
  rw [hhl]
  by_cases hlen : f.length < off + 12
  · right; simp only [hlen, if_true, and_self]
  · simp only [hlen, if_false]
    have hge : 24 ≤ off := by rw [← hoff]; split <;> omega
    have hsz : f.length - (off + 12) = (f.drop (off + 12)).length := by simp
    rw [hsz]
    rcases parseOpts_agrees (f.drop (off + 12)) f.length (by simp; omega) with ⟨opts, osz, h1, h2⟩ | ⟨h1, h2⟩
    · left
      rw [h1, h2]
      refine ⟨_, _, rfl, ?_⟩
      simp only []
      have : List.take 6 (List.drop 6 (List.take 14 (List.drop 10 f))) = List.take 6 (List.drop 16 f) := by
        rw [List.drop_take, List.take_take, List.drop_drop]
        simp
      rw [this]
    · right
      rw [h1, h2]
      exact ⟨rfl, rfl⟩

/-! ### `Dot11Data` / `Dot11QoSData`: the header fields the decrypters and the capturer read -/

theorem layout_data : Tins.Wire.Wifi.layoutOf "Dot11Data" = some ⟨.data, [], false, true⟩ := by
  simp [Tins.Wire.Wifi.layoutOf]

theorem layout_qosdata : Tins.Wire.Wifi.layoutOf "Dot11QoSData" = some ⟨.data, [2], false, true⟩ := by
  simp [Tins.Wire.Wifi.layoutOf]

open Tins.Wire.Wifi in
/-- what the `Dot11Data` / `Dot11QoSData` constructor leaves below the header -/
def wireInner (f : Bytes) (n : Nat) : Tins.Wire.Inner :=
  if f.length ≤ n then .none
  else if byteAt (f.take 10) 1 / 64 % 2 == 1 then .raw (f.drop n) else .cls "SNAP" (f.drop n) false

open Tins.Wire.Wifi in
/-- the `Dot11Data(buffer, total_sz)` / `Dot11QoSData(buffer, total_sz)` constructor chains of the wire family in
    closed form (`q` = 0 / 2 octets of QoS control) -/
theorem wire_data_eq (f : Bytes) (qosCls : Bool) :
    Dot11.parse (if qosCls then "Dot11QoSData" else "Dot11Data") f =
      (let both := (f.getD 1 0 &&& 1 != 0) && (f.getD 1 0 &&& 2 != 0)
       let off := if both then 30 else 24
       let q := if qosCls then 2 else 0
       if f.length < off + q then .throw .malformedPacket else
       .ok (⟨if qosCls then "Dot11QoSData" else "Dot11Data", ⟨.data, if qosCls then [2] else [], false, true⟩, f.take 10,
             (f.drop 10).take 14, if both then (f.drop 24).take 6 else zeros 6, (f.drop off).take q, [], 0⟩,
            wireInner f (off + q))) := by
  unfold Dot11.parse
  cases qosCls
  · -- Dot11Data
    simp only [Bool.false_eq_true, if_false, layout_data]
    unfold Dot11.parseWith Dot11.parseBase Dot11.parseExt wireInner
    simp only [Tins.Cursor.ofBytes, Tins.Cursor.read, Tins.Cursor.skip, Tins.Cursor.canRead, bind, Tins.Out.bind, pure,
      Bool.false_eq_true, if_false, Dot11.readChunks, Dot11.parseOpts, if_true, Tins.Cursor.toBool, Tins.Wire.Cursor.rest,
      Tins.rdN]
    by_cases h24 : 24 ≤ f.length
    · have hboth : bothDS (f.take 10) = ((f.getD 1 0 &&& 1 != 0) && (f.getD 1 0 &&& 2 != 0)) := by
        unfold bothDS byteAt
        rw [getD_take f 10 1 (by omega)]
        exact both_bits _
      have h10 : 10 ≤ f.length := by omega
      simp only [h10, show ¬ (f.length < 10) by omega, show ¬ (10 > f.length) by omega, show 14 ≤ f.length - 10 by omega,
        show ¬ ((f.drop 10).length < 14) by simp; omega, decide_true, Bool.not_true, Bool.false_eq_true, if_false]
      rw [hboth]
      have e3 : List.drop 14 (List.drop 10 f) = List.drop 24 f := by simp [List.drop_drop]
      cases hb : ((f.getD 1 0 &&& 1 != 0) && (f.getD 1 0 &&& 2 != 0))
      · by_cases hgt : f.length ≤ 24
        · have : f.length = 24 := by omega
          simp [this, hgt]
        · simp [show ¬ f.length < 24 by omega, hgt, show f.length - 24 > 0 by omega,
            show 0 + (f.length - 24) ≤ (f.drop 24).length by simp]
          split <;> simp [List.take_of_length_le]
      · by_cases h30 : 30 ≤ f.length
        · by_cases hgt : f.length ≤ 30
          · have : f.length = 30 := by omega
            simp [this, e3]
          · simp [show 6 ≤ f.length - 10 - 14 by omega, show ¬ f.length - 24 < 6 by omega, show ¬ f.length - 10 - 14 < 6 by omega,
              e3, show ¬ f.length < 30 by omega, hgt, show f.length - 30 > 0 by omega,
              show 0 + (f.length - 30) ≤ (f.drop 30).length by simp]
            split <;> simp [List.take_of_length_le]
        · simp [show ¬ 6 ≤ f.length - 10 - 14 by omega, show f.length < 30 by omega]
    · have hlt : f.length < (if ((f.getD 1 0 &&& 1 != 0) && (f.getD 1 0 &&& 2 != 0)) = true then 30 else 24) + 0 := by
        split <;> omega
      rw [if_pos hlt]
      by_cases h10 : 10 ≤ f.length
      · simp [h10, show ¬ f.length < 10 by omega, show ¬ 14 ≤ f.length - 10 by omega]
      · simp [h10]
  · -- Dot11QoSData
    simp only [if_true, layout_qosdata]
    unfold Dot11.parseWith Dot11.parseBase Dot11.parseExt wireInner
    simp only [Tins.Cursor.ofBytes, Tins.Cursor.read, Tins.Cursor.skip, Tins.Cursor.canRead, bind, Tins.Out.bind, pure,
      Bool.false_eq_true, if_false, Dot11.readChunks, Dot11.parseOpts, if_true, Tins.Cursor.toBool, Tins.Wire.Cursor.rest,
      Tins.rdN]
    by_cases h24 : 24 ≤ f.length
    · have hboth : bothDS (f.take 10) = ((f.getD 1 0 &&& 1 != 0) && (f.getD 1 0 &&& 2 != 0)) := by
        unfold bothDS byteAt
        rw [getD_take f 10 1 (by omega)]
        exact both_bits _
      have h10 : 10 ≤ f.length := by omega
      simp only [h10, show ¬ (f.length < 10) by omega, show ¬ (10 > f.length) by omega, show 14 ≤ f.length - 10 by omega,
        show ¬ ((f.drop 10).length < 14) by simp; omega, decide_true, Bool.not_true, Bool.false_eq_true, if_false]
      rw [hboth]
      have e3 : List.drop 14 (List.drop 10 f) = List.drop 24 f := by simp [List.drop_drop]
      cases hb : ((f.getD 1 0 &&& 1 != 0) && (f.getD 1 0 &&& 2 != 0))
      · by_cases h26 : 26 ≤ f.length
        · have e1 : List.drop 2 (List.drop 24 f) = List.drop 26 f := by simp [List.drop_drop]
          by_cases hgt : f.length ≤ 26
          · have : f.length = 26 := by omega
            simp [this, e1]
          · simp [show ¬ f.length < 24 by omega, show ¬ f.length < 26 by omega, show 2 ≤ f.length - 24 by omega,
              show ¬ f.length - 24 < 2 by omega, e1, hgt, show f.length - 24 - 2 > 0 by omega,
              show 0 + (f.length - 24 - 2) ≤ (f.drop 26).length by simp; omega]
            rw [if_pos (by omega), List.take_of_length_le (by simp; omega)]
            simp only []
            split <;> rfl
        · simp [show ¬ f.length < 24 by omega, show f.length < 26 by omega, show ¬ 2 ≤ f.length - 24 by omega]
      · by_cases h32 : 32 ≤ f.length
        · have e1 : List.drop 2 (List.drop 30 f) = List.drop 32 f := by simp [List.drop_drop]
          by_cases hgt : f.length ≤ 32
          · have : f.length = 32 := by omega
            simp [this, e1, e3]
          · simp [show 6 ≤ f.length - 10 - 14 by omega, show ¬ f.length - 24 < 6 by omega, show ¬ f.length - 10 - 14 < 6 by omega,
              e3, show ¬ f.length < 30 by omega, show ¬ f.length < 32 by omega, show 2 ≤ f.length - 30 by omega,
              show ¬ f.length - 30 < 2 by omega, e1, hgt, show f.length - 30 - 2 > 0 by omega,
              show 0 + (f.length - 30 - 2) ≤ (f.drop 32).length by simp; omega]
            rw [if_pos (by omega), List.take_of_length_le (by simp; omega)]
            simp only []
            split <;> rfl
        · by_cases h30 : 30 ≤ f.length
          · simp [show 6 ≤ f.length - 10 - 14 by omega, show ¬ f.length - 24 < 6 by omega, show ¬ f.length - 10 - 14 < 6 by omega,
              e3, show ¬ f.length < 30 by omega, show f.length < 32 by omega, show ¬ 2 ≤ f.length - 30 by omega]
          · simp [show ¬ 6 ≤ f.length - 10 - 14 by omega, show f.length < 32 by omega]
    · have hlt : f.length < (if ((f.getD 1 0 &&& 1 != 0) && (f.getD 1 0 &&& 2 != 0)) = true then 30 else 24) + 2 := by
        split <;> omega
      rw [if_pos hlt]
      by_cases h10 : 10 ≤ f.length
      · simp [h10, show ¬ f.length < 10 by omega, show ¬ 14 ≤ f.length - 10 by omega]
      · simp [h10]

open Tins.Wire.Wifi in
/-- the C09 view of a `Dot11Data` / `Dot11QoSData` object of the wire family -/
def dataHdrView (d : Dot11) : Hdr :=
  { fc0 := d.hdr.getD 0 0, fc1 := d.hdr.getD 1 0, dur0 := d.hdr.getD 2 0, dur1 := d.hdr.getD 3 0,
    addr1 := (d.hdr.drop 4).take 6, addr2 := d.ext.take 6, addr3 := (d.ext.drop 6).take 6,
    sc0 := d.ext.getD 12 0, sc1 := d.ext.getD 13 0, addr4 := d.addr4,
    qos := if d.lay.body == [2] then some (d.body.getD 0 0, d.body.getD 1 0) else none }

/-- what `Dot11Data` hangs below itself, in the C09 model: nothing, a `RawPDU` (protected frames), or the `SNAP` the
    constructor builds (whose exceptions propagate: there is no try / catch around `new SNAP`) -/
def frameOf (ip : InnerParser) (h : Hdr) (i : Tins.Wire.Inner) : Tins.Crypto.Out Parsed :=
  match i with
  | .none => Tins.Crypto.Out.ok (.data ⟨h, .none⟩)
  | .raw b => Tins.Crypto.Out.ok (.data ⟨h, .raw b⟩)
  | .cls _ b _ =>
    match snapParse ip b with
    | Tins.Crypto.Out.ok s => Tins.Crypto.Out.ok (.data ⟨h, .snap s⟩)
    | Tins.Crypto.Out.throw e => Tins.Crypto.Out.throw e
    | Tins.Crypto.Out.fault a b c => Tins.Crypto.Out.fault a b c

set_option maxRecDepth 8000 in
theorem data_dispatch : ∀ x : UInt8, (x >>> 2) &&& 3 = 2 →
    x.toNat / 4 % 4 = 2 ∧ (decide (x.toNat / 16 % 16 ≤ 4) = !decide ((x >>> 4) > (4 : UInt8))) :=
  forall_uint8 _ (by decide)

set_option maxRecDepth 8000 in
theorem wep_bit : ∀ x : UInt8, (x.toNat / 64 % 2 == 1) = (x &&& 0x40 != 0) :=
  forall_uint8 _ (by decide)

open Tins.Wire.Wifi in
theorem fromBytes_data (fc0 fc1 : UInt8) (r : Bytes) (hty : (fc0 >>> 2) &&& 3 = 2) :
    Dot11.fromBytes (fc0 :: fc1 :: r) =
      Dot11.parse (if decide ((fc0 >>> 4) > (4 : UInt8)) then "Dot11QoSData" else "Dot11Data") (fc0 :: fc1 :: r) := by
  obtain ⟨h1, h2⟩ := data_dispatch fc0 hty
  unfold Dot11.fromBytes
  simp only [List.length_cons, show ¬ (r.length + 1 + 1 < 2) by omega, if_false, Tins.rdN,
    show 0 + 2 ≤ r.length + 1 + 1 by omega, if_true, Tins.Out.bind_ok, List.drop_zero, List.take_succ_cons, List.take_zero]
  have hb : byteAt [fc0, fc1] 0 = fc0.toNat := rfl
  rw [hb]
  unfold Dot11.dispatch
  simp only [h1]
  cases hq : decide ((fc0 >>> 4) > (4 : UInt8))
  · rw [hq] at h2
    have : fc0.toNat / 16 % 16 ≤ 4 := by simpa using h2
    simp [this]
  · rw [hq] at h2
    have : ¬ fc0.toNat / 16 % 16 ≤ 4 := by simpa using h2
    simp [this]

theorem zeros6 : Tins.Wire.Wifi.zeros 6 = [0, 0, 0, 0, 0, 0] := rfl

theorem getD_drop' (l : Bytes) (n i : Nat) : (l.drop n).getD i 0 = l.getD (n + i) 0 := by
  simp [List.getD, List.getElem?_drop]

open Tins.Wire.Wifi in
/-- the header fields of the wire object, read back through the C09 view, are the fields `parseFrame` reads -/
theorem hdr_view_eq (cls : String) (fc0 fc1 : UInt8) (r a4 qb : Bytes) (qs : Bool) (h22 : 22 ≤ r.length) :
    dataHdrView ⟨cls, ⟨.data, if qs then [2] else [], false, true⟩, List.take 10 (fc0 :: fc1 :: r),
        List.take 14 (List.drop 10 (fc0 :: fc1 :: r)), a4, qb, [], 0⟩ =
      { fc0 := fc0, fc1 := fc1, dur0 := r.getD 0 0, dur1 := r.getD 1 0, addr1 := (r.drop 2).take 6,
        addr2 := (r.drop 8).take 6, addr3 := (r.drop 14).take 6, sc0 := r.getD 20 0, sc1 := r.getD 21 0, addr4 := a4,
        qos := if qs then some (qb.getD 0 0, qb.getD 1 0) else none } := by
  unfold dataHdrView
  have e10 : List.take 10 (fc0 :: fc1 :: r) = fc0 :: fc1 :: List.take 8 r := by simp
  have ed : List.drop 10 (fc0 :: fc1 :: r) = List.drop 8 r := by simp
  simp only [e10, ed, List.getD_cons_zero, List.getD_cons_succ, List.drop_succ_cons]
  have a1 : List.take 6 (List.drop 2 (List.take 8 r)) = List.take 6 (List.drop 2 r) := by
    rw [List.drop_take, List.take_take]; simp
  have a2 : List.take 6 (List.take 14 (List.drop 8 r)) = List.take 6 (List.drop 8 r) := by
    rw [List.take_take]; simp
  have a3 : List.take 6 (List.drop 6 (List.take 14 (List.drop 8 r))) = List.take 6 (List.drop 14 r) := by
    rw [List.drop_take, List.take_take, List.drop_drop]; simp
  have s0 : (List.take 14 (List.drop 8 r)).getD 12 0 = r.getD 20 0 := by
    rw [getD_take _ 14 12 (by omega), getD_drop']
  have s1 : (List.take 14 (List.drop 8 r)).getD 13 0 = r.getD 21 0 := by
    rw [getD_take _ 14 13 (by omega), getD_drop']
  have d0 : (List.take 8 r).getD 0 0 = r.getD 0 0 := getD_take r 8 0 (by omega)
  have d1 : (List.take 8 r).getD 1 0 = r.getD 1 0 := getD_take r 8 1 (by omega)
  rw [a1, a2, a3, s0, s1, d0, d1]
  cases qs <;> rfl

open Tins.Wire.Wifi in
/-- **Dot11Data / Dot11QoSData parsing tie.** On every byte string whose frame-control type is Data, `Dot11::from_bytes`
    of the wire family and the C09 model's `parseFrame` agree: both throw `malformed_packet`, or the model's header is
    the view of the wire object (frame control, duration, the three / four addresses, sequence control, QoS control
    exactly for the `Dot11QoSData` class) and the model's payload is what the constructor hangs below it. -/
theorem parseFrame_data_agrees (ip : InnerParser) (fc0 fc1 : UInt8) (r : Bytes) (hty : (fc0 >>> 2) &&& 3 = 2) :
    (∃ d i, Dot11.fromBytes (fc0 :: fc1 :: r) = .ok (d, i) ∧
        parseFrame ip (fc0 :: fc1 :: r) = frameOf ip (dataHdrView d) i) ∨
    (Dot11.fromBytes (fc0 :: fc1 :: r) = .throw .malformedPacket ∧
        parseFrame ip (fc0 :: fc1 :: r) = Tins.Crypto.Out.throw .malformedPacket) := by
  rw [fromBytes_data fc0 fc1 r hty, wire_data_eq]
  have hnb : ((fc0 >>> 2) &&& 3 == 0 && fc0 >>> 4 == 8) = false := by rw [hty]; rfl
  have hnd : ((fc0 >>> 2) &&& 3 != 2) = false := by rw [hty]; rfl
  have hwep : (byteAt (List.take 10 (fc0 :: fc1 :: r)) 1 / 64 % 2 == 1) = (fc1 &&& 0x40 != 0) := by
    have : byteAt (List.take 10 (fc0 :: fc1 :: r)) 1 = fc1.toNat := by simp [byteAt]
    rw [this]; exact wep_bit fc1
  unfold parseFrame
  simp only [hnb, hnd, Bool.false_eq_true, if_false, List.getD_cons_succ, List.getD_cons_zero, List.length_cons]
  cases hb : ((fc1 &&& 1 != 0) && (fc1 &&& 2 != 0)) <;> cases hq : decide ((fc0 >>> 4) > (4 : UInt8))
  all_goals simp only [Bool.false_eq_true, if_false, if_true, Bool.false_and, Bool.true_and, decide_eq_true_eq,
    Nat.add_zero]
  · -- three addresses, Dot11Data
    by_cases hl : r.length < 22
    · right; simp [hl, show r.length + 1 + 1 < 24 by omega]
    · left
      simp only [hl, if_false, show ¬ (r.length + 1 + 1 < 24) by omega]
      refine ⟨_, _, rfl, ?_⟩
      have hv := hdr_view_eq "Dot11Data" fc0 fc1 r (zeros 6) (List.take 0 (List.drop 24 (fc0 :: fc1 :: r))) false (by omega)
      simp only [Bool.false_eq_true, if_false] at hv
      rw [hv, zeros6]
      unfold wireInner frameOf
      rw [hwep]
      have hd : List.drop 24 (fc0 :: fc1 :: r) = List.drop 22 r := by simp
      simp only [List.length_cons, hd]
      by_cases he : r.length + 1 + 1 ≤ 24
      · have : (List.drop 22 r).isEmpty = true := by simp; omega
        simp [he, this]
      · have : (List.drop 22 r).isEmpty = false := by
          cases hx : List.drop 22 r with
          | nil => have := List.drop_eq_nil_iff.mp hx; omega
          | cons a l => rfl
        simp only [he, if_false, this, Bool.false_eq_true, Hdr.wep]
        by_cases hw : (fc1 &&& 0x40 != 0) = true
        · simp [hw]
        · simp [hw]
          cases snapParse ip (List.drop 22 r) <;> rfl
  · -- three addresses, Dot11QoSData
    by_cases hl : r.length < 24
    · right
      have h1 : r.length + 1 + 1 < 24 + 2 := by omega
      refine ⟨by simp only [h1, if_true], ?_⟩
      by_cases h22 : r.length < 22
      · simp [h22]
      · simp [h22, show ¬ r.length < 22 by omega]; intros; omega
    · left
      simp only [show ¬ (r.length + 1 + 1 < 24 + 2) by omega, if_false]
      refine ⟨_, _, rfl, ?_⟩
      have hv := hdr_view_eq "Dot11QoSData" fc0 fc1 r (zeros 6) (List.take 2 (List.drop 24 (fc0 :: fc1 :: r))) true (by omega)
      simp only [Bool.false_eq_true, if_false, if_true] at hv
      rw [hv]
      unfold wireInner frameOf
      rw [hwep]
      have hd : List.drop (24 + 2) (fc0 :: fc1 :: r) = List.drop 24 r := by simp
      have hd4 : List.drop 24 (fc0 :: fc1 :: r) = List.drop 22 r := by simp
      have hdq : List.drop 24 (fc0 :: fc1 :: r) = List.drop 22 r := by simp
      have hdd : List.drop 2 (List.drop 22 r) = List.drop 24 r := by simp [List.drop_drop]
      have hdd6 : List.drop 6 (List.drop 22 r) = List.drop 28 r := by simp [List.drop_drop]
      have hq0 : (List.take 2 (List.drop 22 r)).getD 0 0 = (List.drop 22 r).getD 0 0 := getD_take _ 2 0 (by omega)
      have hq1 : (List.take 2 (List.drop 22 r)).getD 1 0 = (List.drop 22 r).getD 1 0 := getD_take _ 2 1 (by omega)
      simp only [List.length_cons, hd, hd4, hdq, hdd, hdd6, hq0, hq1, zeros6, List.length_drop,
        show ¬ r.length < 22 by omega, show ¬ r.length - 22 < 2 by omega, if_false]
      by_cases he : r.length + 1 + 1 ≤ 24 + 2
      · have : (List.drop 24 r).isEmpty = true := by simp; omega
        simp [he, this]
      · have : (List.drop 24 r).isEmpty = false := by
          cases hx : List.drop 24 r with
          | nil => have := List.drop_eq_nil_iff.mp hx; omega
          | cons a l => rfl
        simp only [he, if_false, this, Bool.false_eq_true, Hdr.wep]
        by_cases hw : (fc1 &&& 0x40 != 0) = true
        · simp [hw]
        · simp [hw]
          cases snapParse ip (List.drop 24 r) <;> rfl
  · -- four addresses, Dot11Data
    by_cases hl : r.length < 28
    · right
      have h1 : r.length + 1 + 1 < 30 + 0 := by omega
      refine ⟨by simp only [h1, if_true], ?_⟩
      by_cases h22 : r.length < 22
      · simp [h22]
      · simp [h22, show ¬ r.length < 22 by omega]; intros; omega
    · left
      simp only [show ¬ (r.length + 1 + 1 < 30 + 0) by omega, if_false]
      refine ⟨_, _, rfl, ?_⟩
      have hv := hdr_view_eq "Dot11Data" fc0 fc1 r (List.take 6 (List.drop 24 (fc0 :: fc1 :: r))) (List.take 0 (List.drop 30 (fc0 :: fc1 :: r))) false (by omega)
      simp only [Bool.false_eq_true, if_false, if_true] at hv
      rw [hv]
      unfold wireInner frameOf
      rw [hwep]
      have hd : List.drop (30 + 0) (fc0 :: fc1 :: r) = List.drop 28 r := by simp
      have hd4 : List.drop 24 (fc0 :: fc1 :: r) = List.drop 22 r := by simp
      have hdq : List.drop 30 (fc0 :: fc1 :: r) = List.drop 28 r := by simp
      have hdd : List.drop 2 (List.drop 28 r) = List.drop 30 r := by simp [List.drop_drop]
      have hdd6 : List.drop 6 (List.drop 22 r) = List.drop 28 r := by simp [List.drop_drop]
      have hq0 : (List.take 2 (List.drop 28 r)).getD 0 0 = (List.drop 28 r).getD 0 0 := getD_take _ 2 0 (by omega)
      have hq1 : (List.take 2 (List.drop 28 r)).getD 1 0 = (List.drop 28 r).getD 1 0 := getD_take _ 2 1 (by omega)
      simp only [List.length_cons, hd, hd4, hdq, hdd, hdd6, hq0, hq1, zeros6, List.length_drop,
        show ¬ r.length < 22 by omega, show ¬ r.length - 22 < 6 by omega, if_false]
      by_cases he : r.length + 1 + 1 ≤ 30 + 0
      · have : (List.drop 28 r).isEmpty = true := by simp; omega
        simp [he, this]
      · have : (List.drop 28 r).isEmpty = false := by
          cases hx : List.drop 28 r with
          | nil => have := List.drop_eq_nil_iff.mp hx; omega
          | cons a l => rfl
        simp only [he, if_false, this, Bool.false_eq_true, Hdr.wep]
        by_cases hw : (fc1 &&& 0x40 != 0) = true
        · simp [hw]
        · simp [hw]
          cases snapParse ip (List.drop 28 r) <;> rfl
  · -- four addresses, Dot11QoSData
    by_cases hl : r.length < 30
    · right
      have h1 : r.length + 1 + 1 < 30 + 2 := by omega
      refine ⟨by simp only [h1, if_true], ?_⟩
      by_cases h22 : r.length < 22
      · simp [h22]
      · simp [h22, show ¬ r.length < 22 by omega]; intros; omega
    · left
      simp only [show ¬ (r.length + 1 + 1 < 30 + 2) by omega, if_false]
      refine ⟨_, _, rfl, ?_⟩
      have hv := hdr_view_eq "Dot11QoSData" fc0 fc1 r (List.take 6 (List.drop 24 (fc0 :: fc1 :: r))) (List.take 2 (List.drop 30 (fc0 :: fc1 :: r))) true (by omega)
      simp only [Bool.false_eq_true, if_false, if_true] at hv
      rw [hv]
      unfold wireInner frameOf
      rw [hwep]
      have hd : List.drop (30 + 2) (fc0 :: fc1 :: r) = List.drop 30 r := by simp
      have hd4 : List.drop 24 (fc0 :: fc1 :: r) = List.drop 22 r := by simp
      have hdq : List.drop 30 (fc0 :: fc1 :: r) = List.drop 28 r := by simp
      have hdd : List.drop 2 (List.drop 28 r) = List.drop 30 r := by simp [List.drop_drop]
      have hdd6 : List.drop 6 (List.drop 22 r) = List.drop 28 r := by simp [List.drop_drop]
      have hq0 : (List.take 2 (List.drop 28 r)).getD 0 0 = (List.drop 28 r).getD 0 0 := getD_take _ 2 0 (by omega)
      have hq1 : (List.take 2 (List.drop 28 r)).getD 1 0 = (List.drop 28 r).getD 1 0 := getD_take _ 2 1 (by omega)
      simp only [List.length_cons, hd, hd4, hdq, hdd, hdd6, hq0, hq1, zeros6, List.length_drop,
        show ¬ r.length < 22 by omega, show ¬ r.length - 22 < 6 by omega, show ¬ r.length - 28 < 2 by omega, if_false]
      by_cases he : r.length + 1 + 1 ≤ 30 + 2
      · have : (List.drop 30 r).isEmpty = true := by simp; omega
        simp [he, this]
      · have : (List.drop 30 r).isEmpty = false := by
          cases hx : List.drop 30 r with
          | nil => have := List.drop_eq_nil_iff.mp hx; omega
          | cons a l => rfl
        simp only [he, if_false, this, Bool.false_eq_true, Hdr.wep]
        by_cases hw : (fc1 &&& 0x40 != 0) = true
        · simp [hw]
        · simp [hw]
          cases snapParse ip (List.drop 30 r) <;> rfl

end Tins.CryptoWire
