import TinsModel.Capture.Sniffer
import TinsModel.Capture.Writer
/-
  Specification of C17, written from the property text: reading a capture yields, in order, exactly the frames the
  filter accepts and that parse, each with its microsecond timestamp; the iteration ends cleanly at the end of the
  file; what was written comes back with identical bytes and timestamps.
-/
namespace Tins.Capture
open Tins Tins.Gen.Capture

/-- the dissector class "parsing a frame of this link type" means, declaratively (no state, no faults):
    Ethernet frames whose length/type high byte is below 8 are 802.3, raw-IP frames are told apart by the version
    nibble, every other link type has one class. `none`: the frame is not a packet of this link type. -/
def classOf : HandlerKind → Bytes → Option String
  | .generic cls, _ => some cls
  | .eth, b => match b[12]? with
    | some x => if x.toNat < 8 then some "Dot3" else some "EthernetII"
    | none => some "EthernetII"
  | .raw, b => match b[0]? with
    | some x => if x.toNat / 16 = 4 then some "IP" else if x.toNat / 16 = 6 then some "IPv6" else none
    | none => none
  | .dot11, _ => some "Dot11"
  | .throws _, _ => none
  | .unknown _, _ => none

/-- `parses(f)`: the PDU a frame stands for, if it is a well-formed packet of the link type -/
def parsesAs {P : Type} (parse : String → Bytes → POut P) (hk : HandlerKind) (f : Frame) : Option P :=
  match classOf hk f.data with
  | none => none
  | some cls => match parse cls f.data with
    | .ok p => some p
    | .throw _ => none

/-- microsecond timestamp of a frame -/
def Frame.ts (f : Frame) : Timestamp := Timestamp.ofTimeval f.tv

/-- `frames_out = [f in frames_in | filter(f) and parses(f)]`, with timestamps, in order -/
def expectedPackets {P : Type} (parse : String → Bytes → POut P) (hk : HandlerKind) (filter : Frame → Bool)
    (frames : List Frame) : List (P × Timestamp) :=
  (frames.filter filter).filterMap (fun f => (parsesAs parse hk f).map (fun p => (p, f.ts)))

/-- a frame on which the dissector raises something other than what the handler is allowed to swallow -/
def throwsOther {P : Type} (parse : String → Bytes → POut P) (hk : HandlerKind) (f : Frame) : Bool :=
  match classOf hk f.data with
  | none => false
  | some cls => match parse cls f.data with
    | .ok _ => false
    | .throw e => e != Exc.malformedPacket

/-- the frame a reader must see for one written packet -/
def Written.frame (w : Written) : Frame :=
  { tv := ⟨w.ts.seconds, w.ts.microseconds⟩, caplen := w.ser.length, len := wrap32 w.adv, data := w.ser }

/-- how many packets `sniff_loop` / a range-for hands to the functor, given the packets the file holds:
    it stops after the first packet on which the functor returns false (or throws something that is not caught),
    or after `maxPackets` packets when `maxPackets ≠ 0`, or at the end -/
def deliveredCount {P : Type} (catches : List String) (cb : List (P × Timestamp) → P × Timestamp → CbOut) :
    List (P × Timestamp) → Nat → List (P × Timestamp) → Nat
  | [], _, _ => 0
  | p :: rest, maxPackets, hist =>
    match cb hist p with
    | .stop => 1
    | .continue_ => if maxPackets = 1 then 1 else 1 + deliveredCount catches cb rest (maxPackets - 1) (hist ++ [p])
    | .throw e =>
      if caughtBy catches e then
        (if maxPackets = 1 then 1 else 1 + deliveredCount catches cb rest (maxPackets - 1) (hist ++ [p]))
      else 1

/-! ### sessions: the property for any sequence of calls on one live sniffer -/

/-- the per-frame handler `next_packet` works with for a raw mode and a link type -/
def modeKind (raw : Bool) (dlt : Nat) : HandlerKind :=
  match selectHandler raw dlt with
  | .ok hk => hk
  | .error _ => .unknown "none"

/-- what a frame contributes to the output when `next_packet` reaches it while raw mode `e.2.1` and filter `e.2.2`
    are in force: the packet it parses to, if the filter accepts it and it parses; nothing otherwise -/
def deliver {P : Type} (parse : String → Bytes → POut P) (dlt : Nat) (e : Frame × Bool × (Frame → Bool)) :
    Option (P × Timestamp) :=
  if e.2.2 e.1 then (parsesAs parse (modeKind e.2.1 dlt) e.1).map (fun p => (p, e.1.ts)) else none

end Tins.Capture
