import TinsModel.Capture.Spec
/-
  Round trip through the savefile format: what `pcap_dump` writes, `pcap_next_packet` reads back, record by record;
  time stamps survive `Timestamp -> timeval -> 32-bit fields -> timeval -> Timestamp`.
-/
namespace Tins.Capture
open Tins Tins.Gen.Capture

theorem byte_toNat (n : Nat) : (byte n).toNat = n % 256 := by
  simp [byte]

theorem hasAtLeast_iff (bs : Bytes) (k : Nat) : hasAtLeast bs k = decide (k ≤ bs.length) := by
  cases k with
  | zero => simp [hasAtLeast]
  | succ k =>
    simp only [hasAtLeast]
    by_cases h : k + 1 ≤ bs.length
    · have : bs.drop k ≠ [] := by
        intro hn
        have := List.drop_eq_nil_iff.mp hn
        omega
      simp [h, this]
    · have : bs.drop k = [] := List.drop_eq_nil_iff.mpr (by omega)
      simp [h, this]

theorem rd32_le32 (n : Nat) (h : n < 4294967296) (rest : Bytes) : rd32 (le32 n ++ rest) = n := by
  simp only [le32, rd32, List.cons_append, List.nil_append, byte_toNat]
  omega

theorem le32_length (n : Nat) : (le32 n).length = 4 := rfl

theorem readRecs_cons (snap fuel : Nat) (hsnap : snap ≤ maxSnaplen) (r : Rec) (hwf : RecWf snap r) (rest : Bytes) :
    readRecs snap (fuel + 1) (encodeRec r ++ rest) =
      (frameOfRec r :: (readRecs snap fuel rest).1, (readRecs snap fuel rest).2) := by
  have hcap : r.caplen < 4294967296 := by
    have := hwf.cap; unfold maxSnaplen at hsnap; omega
  have e : encodeRec r ++ rest =
      le32 r.sec ++ (le32 r.usec ++ (le32 r.caplen ++ (le32 r.len ++ (r.data ++ rest)))) := by
    simp [encodeRec, List.append_assoc]
  have d4 : ∀ (n : Nat) (t : Bytes), (le32 n ++ t).drop 4 = t := fun n t => by simp [le32]
  have hne : (encodeRec r ++ rest).isEmpty = false := by rw [e]; simp [le32]
  have h16 : hasAtLeast (encodeRec r ++ rest) 16 = true := by
    rw [hasAtLeast_iff, e]; simp [le32_length]; omega
  have hsec : rd32 (encodeRec r ++ rest) = r.sec := by rw [e]; exact rd32_le32 _ hwf.sec _
  have husec : rd32 ((encodeRec r ++ rest).drop 4) = r.usec := by rw [e, d4]; exact rd32_le32 _ hwf.usec _
  have hcl : rd32 ((encodeRec r ++ rest).drop 8) = r.caplen := by
    have : (encodeRec r ++ rest).drop 8 = le32 r.caplen ++ (le32 r.len ++ (r.data ++ rest)) := by
      rw [e, show (8 : Nat) = 4 + 4 from rfl, ← List.drop_drop, d4, d4]
    rw [this]; exact rd32_le32 _ hcap _
  have hln : rd32 ((encodeRec r ++ rest).drop 12) = r.len := by
    have : (encodeRec r ++ rest).drop 12 = le32 r.len ++ (r.data ++ rest) := by
      rw [e, show (12 : Nat) = 4 + (4 + 4) from rfl, ← List.drop_drop, ← List.drop_drop, d4, d4, d4]
    rw [this]; exact rd32_le32 _ hwf.len _
  have hbody : (encodeRec r ++ rest).drop 16 = r.data ++ rest := by
    rw [e, show (16 : Nat) = 4 + (4 + (4 + 4)) from rfl, ← List.drop_drop, ← List.drop_drop, ← List.drop_drop,
      d4, d4, d4, d4]
  have hmax : ¬ r.caplen > maxSnaplen := by have := hwf.cap; omega
  have hbl : hasAtLeast (r.data ++ rest) r.caplen = true := by
    rw [hasAtLeast_iff]; simp [hwf.data]
  have hkeep : (if r.caplen > snap then snap else r.caplen) = r.caplen := by
    have := hwf.cap; simp; omega
  have htake : (r.data ++ rest).take r.caplen = r.data := List.take_left' hwf.data
  have hdrop : (r.data ++ rest).drop r.caplen = rest := List.drop_left' hwf.data
  simp only [readRecs, hne, h16, hsec, husec, hcl, hln, hbody, hmax, hbl, hkeep, htake, hdrop, frameOfRec]
  simp

theorem readRecs_nil (snap fuel : Nat) : readRecs snap (fuel + 1) [] = ([], false) := by
  simp [readRecs]

/-- reading back what was dumped: every record, in order, then a clean end of file -/
theorem readRecs_encode (snap : Nat) (hsnap : snap ≤ maxSnaplen) :
    ∀ (recs : List Rec) (fuel : Nat), (∀ r ∈ recs, RecWf snap r) → recs.length < fuel →
      readRecs snap fuel (recs.flatMap encodeRec) = (recs.map frameOfRec, false) := by
  intro recs
  induction recs with
  | nil =>
    intro fuel _ hf
    obtain ⟨k, rfl⟩ : ∃ k, fuel = k + 1 := ⟨fuel - 1, by simp at hf; omega⟩
    simp [readRecs_nil]
  | cons r rs ih =>
    intro fuel hwf hf
    obtain ⟨k, rfl⟩ : ∃ k, fuel = k + 1 := ⟨fuel - 1, by simp at hf; omega⟩
    have hk : rs.length < k := by simp at hf; omega
    rw [List.flatMap_cons, readRecs_cons snap k hsnap r (hwf r (by simp)),
      ih k (fun x hx => hwf x (by simp [hx])) hk]
    simp

theorem flatMap_encode_length (recs : List Rec) : recs.length ≤ (recs.flatMap encodeRec).length := by
  induction recs with
  | nil => simp
  | cons r rs ih =>
    simp only [List.flatMap_cons, List.length_append, List.length_cons]
    have : 16 ≤ (encodeRec r).length := by simp [encodeRec, le32_length]; omega
    omega

/-- `pcap_open_offline` on a file `pcap_dump_open` + `pcap_dump` produced: the declared link type and snapshot length
    and every record come back, and the file ends cleanly -/
theorem openFile_encodeFile (dlt snap : Nat) (hdlt : dltToLinktype dlt < 65536)
    (hrt : linktypeToDlt (dltToLinktype dlt) = dlt) (hs0 : 0 < snap) (hs1 : snap ≤ maxSnaplen)
    (recs : List Rec) (hwf : ∀ r ∈ recs, RecWf snap r) :
    openFile (encodeFile dlt snap recs) =
      some { dlt := dlt, snaplen := snap, frames := recs.map frameOfRec, err := false } := by
  have hsn : snap < 4294967296 := by unfold maxSnaplen at hs1; omega
  have hlk : dltToLinktype dlt < 4294967296 := by omega
  generalize hbody : recs.flatMap encodeRec = body
  have e : encodeFile dlt snap recs =
      le32 2712847316 ++ (le16 2 ++ (le16 4 ++ (le32 0 ++ (le32 0 ++ (le32 snap ++ (le32 (dltToLinktype dlt) ++ body)))))) := by
    simp [encodeFile, fileHeader, List.append_assoc, hbody]
  have d4 : ∀ (n : Nat) (t : Bytes), (le32 n ++ t).drop 4 = t := fun n t => by simp [le32]
  have h24 : hasAtLeast (encodeFile dlt snap recs) 24 = true := by
    rw [hasAtLeast_iff, e]; simp [le32_length, le16]; omega
  have hmagic : rd32 (encodeFile dlt snap recs) = 2712847316 := by rw [e]; exact rd32_le32 _ (by omega) _
  have hver : rd32 ((encodeFile dlt snap recs).drop 4) = 262146 := by
    rw [e, d4]; simp [le16, rd32, byte_toNat]
  have hd8 : (encodeFile dlt snap recs).drop 8 =
      le32 0 ++ (le32 0 ++ (le32 snap ++ (le32 (dltToLinktype dlt) ++ body))) := by
    rw [e, show (8 : Nat) = 4 + 4 from rfl, ← List.drop_drop, d4]; simp [le16]
  have hd16 : (encodeFile dlt snap recs).drop 16 = le32 snap ++ (le32 (dltToLinktype dlt) ++ body) := by
    rw [show (16 : Nat) = 8 + (4 + 4) from rfl, ← List.drop_drop, hd8, ← List.drop_drop, d4, d4]
  have hd20 : (encodeFile dlt snap recs).drop 20 = le32 (dltToLinktype dlt) ++ body := by
    rw [show (20 : Nat) = 16 + 4 from rfl, ← List.drop_drop, hd16, d4]
  have hd24 : (encodeFile dlt snap recs).drop 24 = body := by
    rw [show (24 : Nat) = 20 + 4 from rfl, ← List.drop_drop, hd20, d4]
  have hsnap : rd32 ((encodeFile dlt snap recs).drop 16) = snap := by rw [hd16]; exact rd32_le32 _ hsn _
  have hlt : rd32 ((encodeFile dlt snap recs).drop 20) = dltToLinktype dlt := by rw [hd20]; exact rd32_le32 _ hlk _
  have hsel : (if snap = 0 ∨ snap > 2147483647 then maxSnaplen else snap) = snap := by
    unfold maxSnaplen at hs1; simp; omega
  have hread := readRecs_encode snap hs1 recs (body.length + 1) hwf
    (by have := flatMap_encode_length recs; rw [hbody] at this; omega)
  rw [hbody] at hread
  simp only [openFile, h24, hmagic, hver, hsnap, hlt, hd24, hsel, hread]
  simp [Nat.mod_eq_of_lt hdlt, hrt]

/-- the byte-level model of this file satisfies the facts the theorems assume about libpcap's savefile code -/
theorem modelSavefile_facts : SavefileFacts modelSavefile :=
  ⟨fun dlt snap hdlt hrt hs0 hs1 recs hwf => openFile_encodeFile dlt snap hdlt hrt hs0 hs1 recs hwf⟩

/-! ### the writer's records -/

theorem writerSnaplen_pos : 0 < writerSnaplen := by decide
theorem writerSnaplen_le_max : writerSnaplen ≤ maxSnaplen := by decide

theorem low32_nat (n : Nat) : low32 (n : Int) = n % 4294967296 := by
  unfold low32; omega

theorem writePacket_wf (w : Written) (hser : w.ser.length ≤ writerSnaplen) :
    RecWf writerSnaplen (writePacket w.ts w.ser w.adv) := by
  have hmax := writerSnaplen_le_max
  unfold maxSnaplen at hmax
  have hcl : wrap32 w.ser.length = w.ser.length := by unfold wrap32; omega
  refine ⟨?_, ?_, ?_, ?_, ?_⟩
  · simp only [writePacket, writePdu, Timestamp.toTimeval, low32_nat]; omega
  · simp only [writePacket, writePdu, Timestamp.toTimeval, low32_nat]; omega
  · simp only [writePacket, writePdu, wrap32]; omega
  · simp only [writePacket, writePdu, hcl, List.take_length]
  · simp only [writePacket, writePdu, hcl]; exact hser

theorem frameOfRec_writePacket (w : Written) (hser : w.ser.length ≤ writerSnaplen)
    (hsec : w.ts.seconds < 2147483648) : frameOfRec (writePacket w.ts w.ser w.adv) = w.frame := by
  have hmax := writerSnaplen_le_max
  unfold maxSnaplen at hmax
  have hcl : wrap32 w.ser.length = w.ser.length := by unfold wrap32; omega
  have hus : w.ts.microseconds < 1000000 := by unfold Timestamp.microseconds; omega
  have h1 : toI32 (low32 (w.ts.seconds : Int)) = (w.ts.seconds : Int) := by
    rw [low32_nat]; unfold toI32; split <;> omega
  have h2 : toI32 (low32 (w.ts.microseconds : Int)) = (w.ts.microseconds : Int) := by
    rw [low32_nat]; unfold toI32; split <;> omega
  simp only [frameOfRec, writePacket, writePdu, Timestamp.toTimeval, Written.frame, hcl, List.take_length, h1, h2]

theorem toU64_natCast (n : Nat) : toU64 (n : Int) = n % 18446744073709551616 := by
  unfold toU64; omega

theorem ofTimeval_nat (s u : Nat) :
    (Timestamp.ofTimeval ⟨s, u⟩).us = (s * 1000000 + u) % 18446744073709551616 := by
  have h : ((s : Int) * 1000000 + (u : Int)) = ((s * 1000000 + u : Nat) : Int) := by
    simp only [Int.natCast_add, Int.natCast_mul]; rfl
  simp only [Timestamp.ofTimeval, h, toU64_natCast]

/-- the frame read back for a written packet carries the packet's time stamp -/
theorem frame_ts (w : Written) (hus : w.ts.us < 18446744073709551616) : w.frame.ts = w.ts := by
  have : (Timestamp.ofTimeval ⟨w.ts.seconds, w.ts.microseconds⟩).us = w.ts.us := by
    rw [ofTimeval_nat]
    unfold Timestamp.seconds Timestamp.microseconds
    rw [Nat.mod_eq_of_lt (by omega)]
    omega
  cases hw : w.ts with
  | mk us =>
    simp only [Frame.ts, Written.frame, hw] at this ⊢
    cases h2 : Timestamp.ofTimeval ⟨(Timestamp.mk us).seconds, (Timestamp.mk us).microseconds⟩ with
    | mk us' => rw [h2] at this; simp at this; rw [this]

/-! ### the writer as a state machine -/

/-- the record `write(pdu, tv)` dumps for one element of the specification's list -/
def recFor (e : Timeval × Item) : Rec := writePdu e.1 e.2.ser e.2.adv

theorem writeRange_recs : ∀ (xs : List (Timeval × Item)) (w : WriterSt),
    (w.writeRange xs).recs = w.recs ++ xs.map recFor ∧ (w.writeRange xs).dlt = w.dlt := by
  intro xs
  induction xs with
  | nil => intro w; simp [WriterSt.writeRange]
  | cons x xs ih =>
    intro w
    obtain ⟨now, it⟩ := x
    have := ih (w.writePduNow now it)
    simp only [WriterSt.writeRange]
    rw [this.1, this.2]
    simp [WriterSt.writePduNow, recFor]

theorem call_recs (w : WriterSt) (c : WCall) :
    (w.call c).1.recs = w.recs ++ c.written.map recFor ∧ (w.call c).1.dlt = w.dlt := by
  cases c with
  | pdu now x => simp [WriterSt.call, WriterSt.writePduNow, WCall.written, recFor]
  | packet ts x => simp [WriterSt.call, WriterSt.writePkt, WCall.written, recFor, writePacket]
  | range xs => simpa [WriterSt.call, WCall.written] using writeRange_recs xs w
  | moveConstruct => simp [WriterSt.call, writerMoveConstruct, writerMoveAssign, WCall.written]
  | moveAssignInto other => simp [WriterSt.call, writerMoveAssign, WCall.written]

/-- any interleaving of write calls and moves: the open file holds, in order, one record per element the calls
    asked to write, and nothing else; the link type never changes -/
theorem run_recs : ∀ (calls : List WCall) (w : WriterSt),
    (w.run calls).recs = w.recs ++ (calls.flatMap WCall.written).map recFor ∧ (w.run calls).dlt = w.dlt := by
  intro calls
  induction calls with
  | nil => intro w; simp [WriterSt.run]
  | cons c cs ih =>
    intro w
    have h1 := call_recs w c
    have h2 := ih (w.call c).1
    simp only [WriterSt.run, h2, h1, List.flatMap_cons, List.map_append, List.append_assoc]
    simp

theorem recFor_wf (e : Timeval × Item) (h : Storable e) : RecWf writerSnaplen (recFor e) := by
  obtain ⟨_, _, _, _, hser⟩ := h
  have hmax := writerSnaplen_le_max
  unfold maxSnaplen at hmax
  have hcl : wrap32 e.2.ser.length = e.2.ser.length := by unfold wrap32; omega
  refine ⟨?_, ?_, ?_, ?_, ?_⟩
  · simp only [recFor, writePdu, low32]; omega
  · simp only [recFor, writePdu, low32]; omega
  · simp only [recFor, writePdu, wrap32]; omega
  · simp only [recFor, writePdu, hcl, List.take_length]
  · simp only [recFor, writePdu, hcl]; exact hser

theorem frameOfRec_recFor (e : Timeval × Item) (h : Storable e) : frameOfRec (recFor e) = frameFor e := by
  obtain ⟨h1, h2, h3, h4, hser⟩ := h
  have hmax := writerSnaplen_le_max
  unfold maxSnaplen at hmax
  have hcl : wrap32 e.2.ser.length = e.2.ser.length := by unfold wrap32; omega
  have a1 : toI32 (low32 e.1.sec) = e.1.sec := by unfold toI32 low32; split <;> omega
  have a2 : toI32 (low32 e.1.usec) = e.1.usec := by unfold toI32 low32; split <;> omega
  simp only [frameOfRec, recFor, writePdu, frameFor, hcl, List.take_length, a1, a2]

end Tins.Capture
