import TinsModel.Capture.LemmasLoop
/-
  The four per-frame handlers of src/sniffer.cpp behave like the pure classification `frameOutcome` on every frame
  libpcap can deliver (`caplen` bytes of data), and never read outside the captured bytes.
-/
namespace Tins.Capture
open Tins Tins.Gen.Capture

/-- the catch clauses guarding the dissector call of a handler -/
def kindCatches : HandlerKind → List String
  | .dot11 => dot11Catches
  | _ => safeAllocCatches

/-- what a frame amounts to for a handler kind: a packet, a skipped frame, or an escaping exception -/
def frameOutcome {P : Type} (parse : String → Bytes → POut P) (hk : HandlerKind) (f : Frame) : FOut P :=
  match classOf hk f.data with
  | none => .skip
  | some cls =>
    match parse cls f.data with
    | .ok p => .pkt p
    | .throw e => if caughtBy (kindCatches hk) e then .skip else .escape e

section
variable {P : Type} (parse : String → Bytes → POut P)

theorem take_caplen (f : Frame) (hwf : f.data.length = f.caplen) : f.data.take f.caplen = f.data :=
  List.take_of_length_le (by omega)

theorem assignAlloc_eq (cls : String) (f : Frame) (hwf : f.data.length = f.caplen) (tv : Timeval) (pr : Bool) :
    assignAlloc parse cls f ⟨tv, none, pr⟩ =
      match parse cls f.data with
      | .ok p => .ret ⟨tv, some p, pr⟩
      | .throw e => if caughtBy safeAllocCatches e then .ret ⟨tv, none, pr⟩ else .escape e := by
  simp only [assignAlloc, safeAlloc, take_caplen f hwf]
  cases parse cls f.data with
  | ok p => rfl
  | throw e => by_cases hc : caughtBy safeAllocCatches e = true <;> simp [hc]

/-- the classification a guarded dissector call stands for -/
def allocOutcome (catches : List String) (r : POut P) : FOut P :=
  match r with
  | .ok p => .pkt p
  | .throw e => if caughtBy catches e then .skip else .escape e

theorem assignAlloc_outcome (cls : String) (f : Frame) (hwf : f.data.length = f.caplen) :
    assignAlloc parse cls f ⟨f.tv, none, true⟩ = byOutcome f (allocOutcome safeAllocCatches (parse cls f.data)) := by
  rw [assignAlloc_eq parse cls f hwf]
  cases parse cls f.data with
  | ok p => rfl
  | throw e => by_cases hc : caughtBy safeAllocCatches e = true <;> simp [hc, byOutcome, allocOutcome]

theorem frameOutcome_eq (hk : HandlerKind) (f : Frame) :
    frameOutcome parse hk f =
      match classOf hk f.data with
      | none => .skip
      | some cls => allocOutcome (kindCatches hk) (parse cls f.data) := by
  simp only [frameOutcome, allocOutcome]

theorem generic_behaves (cls : String) (f : Frame) (hwf : f.data.length = f.caplen) :
    Behaves (handlerGeneric parse cls) (frameOutcome parse (.generic cls)) f := by
  intro d hp
  obtain ⟨tv, pdu, pr⟩ := d
  simp only at hp; subst hp
  simp only [handlerGeneric, assignAlloc_outcome parse cls f hwf, frameOutcome_eq, classOf, kindCatches]

theorem eth_behaves (f : Frame) (hwf : f.data.length = f.caplen) :
    Behaves (handlerEth parse) (frameOutcome parse .eth) f := by
  intro d hp
  obtain ⟨tv, pdu, pr⟩ := d
  simp only at hp; subst hp
  simp only [handlerEth, isDot3, rd, frameOutcome_eq, classOf, kindCatches]
  by_cases h13 : f.caplen ≥ 13
  · have hlt : 12 < f.data.length := by omega
    simp only [h13, if_true, List.getElem?_eq_getElem hlt, Option.map_some]
    by_cases h8 : (f.data[12]).toNat < 8
    · simp only [h8, decide_true, if_true, assignAlloc_outcome parse "Dot3" f hwf]
    · simp only [h8, decide_false, if_false, assignAlloc_outcome parse "EthernetII" f hwf]
  · have hnone : f.data[12]? = none := List.getElem?_eq_none (by omega)
    simp only [h13, if_false, hnone, assignAlloc_outcome parse "EthernetII" f hwf]

theorem raw_behaves (f : Frame) (hwf : f.data.length = f.caplen) :
    Behaves (handlerRaw parse) (frameOutcome parse .raw) f := by
  intro d hp
  obtain ⟨tv, pdu, pr⟩ := d
  simp only at hp; subst hp
  simp only [handlerRaw, rd, frameOutcome_eq, classOf, kindCatches]
  by_cases h0 : f.caplen < 1
  · have hnone : f.data[0]? = none := List.getElem?_eq_none (by omega)
    simp [h0, hnone, byOutcome]
  · have hlt : 0 < f.data.length := by omega
    simp only [h0, if_false, List.getElem?_eq_getElem hlt]
    by_cases h4 : (f.data[0]).toNat / 16 = 4
    · rw [if_pos h4, if_pos h4]
      exact assignAlloc_outcome parse "IP" f hwf
    · rw [if_neg h4, if_neg h4]
      by_cases h6 : (f.data[0]).toNat / 16 = 6
      · rw [if_pos h6, if_pos h6]
        exact assignAlloc_outcome parse "IPv6" f hwf
      · rw [if_neg h6, if_neg h6]
        rfl

theorem dot11_behaves (f : Frame) (hwf : f.data.length = f.caplen) :
    Behaves (handlerDot11 parse) (frameOutcome parse .dot11) f := by
  intro d hp
  obtain ⟨tv, pdu, pr⟩ := d
  simp only at hp; subst hp
  simp only [handlerDot11, take_caplen f hwf, frameOutcome_eq, classOf, kindCatches, allocOutcome]
  cases parse "Dot11" f.data with
  | ok p => rfl
  | throw e => by_cases hc : caughtBy dot11Catches e = true <;> simp [hc, byOutcome]

/-- every callback of the dispatch table behaves like `frameOutcome` on frames with `caplen` captured bytes -/
theorem handler_behaves (hk : HandlerKind) (h : Frame → SniffData P → HOut P) (hh : runHandler parse hk = some h)
    (f : Frame) (hwf : f.data.length = f.caplen) : Behaves h (frameOutcome parse hk) f := by
  cases hk with
  | generic cls => simp only [runHandler, Option.some.injEq] at hh; subst hh; exact generic_behaves parse cls f hwf
  | eth => simp only [runHandler, Option.some.injEq] at hh; subst hh; exact eth_behaves parse f hwf
  | raw => simp only [runHandler, Option.some.injEq] at hh; subst hh; exact raw_behaves parse f hwf
  | dot11 => simp only [runHandler, Option.some.injEq] at hh; subst hh; exact dot11_behaves parse f hwf
  | throws e => simp [runHandler] at hh
  | unknown n => simp [runHandler] at hh

theorem assignAlloc_no_fault (cls : String) (f : Frame) (d : SniffData P) (i n : Nat) :
    assignAlloc parse cls f d ≠ .fault i n := by
  simp only [assignAlloc]
  split <;> simp

/-- no handler reads a byte outside the captured ones, whatever the frame content and the state it is entered in -/
theorem handler_no_fault (hk : HandlerKind) (h : Frame → SniffData P → HOut P) (hh : runHandler parse hk = some h)
    (f : Frame) (hwf : f.data.length = f.caplen) (d : SniffData P) (i n : Nat) : h f d ≠ .fault i n := by
  cases hk with
  | generic cls =>
    simp only [runHandler, Option.some.injEq] at hh; subst hh
    exact assignAlloc_no_fault parse cls f _ i n
  | eth =>
    simp only [runHandler, Option.some.injEq] at hh; subst hh
    simp only [handlerEth, isDot3, rd]
    by_cases h13 : f.caplen ≥ 13
    · have hlt : 12 < f.data.length := by omega
      simp only [h13, if_true, List.getElem?_eq_getElem hlt, Option.map_some]
      split
      · simp_all
      · exact assignAlloc_no_fault parse _ f _ i n
      · exact assignAlloc_no_fault parse _ f _ i n
    · simp only [h13, if_false]
      exact assignAlloc_no_fault parse _ f _ i n
  | raw =>
    simp only [runHandler, Option.some.injEq] at hh; subst hh
    simp only [handlerRaw, rd]
    by_cases h0 : f.caplen < 1
    · simp [h0]
    · have hlt : 0 < f.data.length := by omega
      simp only [h0, if_false, List.getElem?_eq_getElem hlt]
      split
      · exact assignAlloc_no_fault parse _ f _ i n
      · split
        · exact assignAlloc_no_fault parse _ f _ i n
        · simp
  | dot11 =>
    simp only [runHandler, Option.some.injEq] at hh; subst hh
    simp only [handlerDot11]
    split
    · simp
    · split <;> simp
  | throws e => simp [runHandler] at hh
  | unknown n => simp [runHandler] at hh

end
end Tins.Capture
