import TinsModel.Capture.Pcap
/-
  `PacketWriter` (src/packet_writer.cpp): what goes into the file for one `write` call.  The serialization of the
  PDU and its `advertised_size()` are inputs (the dissectors/serializers are not part of C17's model).
-/
namespace Tins.Capture
open Tins Tins.Gen.Capture

/-- low 32 bits of a 64-bit signed value (`pcap_dump` stores `tv_sec` / `tv_usec` in 32-bit fields) -/
def low32 (x : Int) : Nat := (x % 4294967296).toNat

/-- `PacketWriter::write(PDU&, const timeval&)`:
    `header.ts = tv; header.len = advertised_size(); buffer = serialize(); header.caplen = buffer.size();
     pcap_dump(dumper_, &header, &buffer[0]);` — `pcap_dump` writes `caplen` bytes -/
def writePdu (tv : Timeval) (ser : Bytes) (adv : Nat) : Rec :=
  let caplen := wrap32 ser.length
  { sec := low32 tv.sec, usec := low32 tv.usec, caplen := caplen, len := wrap32 adv, data := ser.take caplen }

/-- `PacketWriter::write(Packet&)`: `tv.tv_sec = ts.seconds(); tv.tv_usec = ts.microseconds(); write(*pdu, tv)` -/
def writePacket (ts : Timestamp) (ser : Bytes) (adv : Nat) : Rec :=
  writePdu ts.toTimeval ser adv

/-- one `write(Packet&)` call as data: the packet's timestamp, its serialization, its advertised size -/
structure Written where
  ts : Timestamp
  ser : Bytes
  adv : Nat
deriving Repr, DecidableEq

/-- the bytes of the file after `PacketWriter w(path, lt); for (p : ws) w.write(p);` and destruction of `w` -/
def writtenFile (dlt : Nat) (ws : List Written) : Bytes :=
  encodeFile dlt writerSnaplen (ws.map (fun w => writePacket w.ts w.ser w.adv))

/-! ## the writer as a state machine over call sequences

  `PacketWriter` holds `handle_` / `dumper_`: an open savefile, i.e. its link type and the records dumped so far.
  The wall clock is an input: every `write(PDU&)` (also through `write(T&)` and `write(begin, end)`) reads
  `gettimeofday` once; the reading is part of the call. -/

/-- a PDU as the writer sees it: its serialization and its `advertised_size()` -/
structure Item where
  ser : Bytes
  adv : Nat
deriving Repr, DecidableEq

/-- the open file behind a `PacketWriter` -/
structure WriterSt where
  dlt : Nat
  recs : List Rec
deriving Repr, DecidableEq

/-- `PacketWriter::write(PDU& pdu)`: `gettimeofday(&tv, 0); write(pdu, tv);` -/
def WriterSt.writePduNow (w : WriterSt) (now : Timeval) (x : Item) : WriterSt :=
  { w with recs := w.recs ++ [writePdu now x.ser x.adv] }

/-- `PacketWriter::write(Packet&)` -/
def WriterSt.writePkt (w : WriterSt) (ts : Timestamp) (x : Item) : WriterSt :=
  { w with recs := w.recs ++ [writePacket ts x.ser x.adv] }

/-- `write(ForwardIterator start, ForwardIterator end)`:
    `while (start != end) { write(Utils::dereference_until_pdu(*start++)); }` -/
def WriterSt.writeRange (w : WriterSt) : List (Timeval × Item) → WriterSt
  | [] => w
  | (now, x) :: rest => WriterSt.writeRange (w.writePduNow now x) rest

/-- `PacketWriter& operator=(PacketWriter&& rhs)`: `std::swap(handle_, rhs.handle_); std::swap(dumper_, rhs.dumper_);`
    — (`*this`, `rhs`) after the call; `none` = no file (`handle_ == 0`) -/
def writerMoveAssign (dst rhs : Option WriterSt) : Option WriterSt × Option WriterSt := (rhs, dst)

/-- `PacketWriter(PacketWriter&& rhs) : handle_(0), dumper_(0) { *this = std::move(rhs); }` -/
def writerMoveConstruct (rhs : Option WriterSt) : Option WriterSt × Option WriterSt := writerMoveAssign none rhs

/-- the calls on a live writer -/
inductive WCall where
  | pdu (now : Timeval) (x : Item)              -- `write(PDU&)`, `write(T&)` for a (smart) pointer
  | packet (ts : Timestamp) (x : Item)          -- `write(Packet&)`
  | range (xs : List (Timeval × Item))          -- `write(begin, end)` over PDUs / pointers / smart pointers
  | moveConstruct                               -- `PacketWriter n(std::move(w));` — the session goes on with `n`
  | moveAssignInto (other : Option WriterSt)    -- `other = std::move(w);` — goes on with `other`; `w` (now holding
                                                --  `other`'s previous file) is destroyed, which closes that file

/-- one call; the second component is a file that got closed by the call (the previous file of `other`) -/
def WriterSt.call (w : WriterSt) : WCall → WriterSt × Option WriterSt
  | .pdu now x => (w.writePduNow now x, none)
  | .packet ts x => (w.writePkt ts x, none)
  | .range xs => (w.writeRange xs, none)
  | .moveConstruct => (((writerMoveConstruct (some w)).1).getD w, none)
  | .moveAssignInto other => (((writerMoveAssign other (some w)).1).getD w, (writerMoveAssign other (some w)).2)

def WriterSt.run (w : WriterSt) : List WCall → WriterSt
  | [] => w
  | c :: cs => WriterSt.run (w.call c).1 cs

/-- `~PacketWriter()`: `pcap_dump_close` flushes; the bytes of the file -/
def WriterSt.close (w : WriterSt) : Bytes := encodeFile w.dlt writerSnaplen w.recs

/-- specification side: what one call asks to be written, in order — (time stamp, PDU) -/
def WCall.written : WCall → List (Timeval × Item)
  | .pdu now x => [(now, x)]
  | .packet ts x => [(ts.toTimeval, x)]
  | .range xs => xs
  | .moveConstruct => []
  | .moveAssignInto _ => []

/-- the frame a reader must see for a PDU written with time stamp `tv` -/
def frameFor (e : Timeval × Item) : Frame :=
  { tv := e.1, caplen := e.2.ser.length, len := wrap32 e.2.adv, data := e.2.ser }

/-- a time stamp the savefile format can hold (signed 32-bit seconds and microseconds, no negative values) and a
    serialization within the declared snapshot length -/
def Storable (e : Timeval × Item) : Prop :=
  0 ≤ e.1.sec ∧ e.1.sec < 2147483648 ∧ 0 ≤ e.1.usec ∧ e.1.usec < 2147483648 ∧ e.2.ser.length ≤ writerSnaplen

end Tins.Capture
