import TinsModel.Capture.Pcap
/-
  `PacketWriter` (src/packet_writer.cpp): what goes into the file for one `write` call.  The serialization of the
  PDU and its `advertised_size()` are inputs (the dissectors/serializers are not part of C17's model).
-/
namespace Tins.Capture
open Tins Tins.Gen.Capture

/-- low 32 bits of a 64-bit signed value (`pcap_dump` stores `tv_sec` / `tv_usec` in 32-bit fields) -/
def low32 (x : Int) : Nat := (x % 4294967296).toNat

/-- `PacketWriter::write(PDU&, const timeval&)`:
    `header.ts = tv; header.len = advertised_size(); buffer = serialize(); header.caplen = buffer.size();
     pcap_dump(dumper_, &header, &buffer[0]);` — `pcap_dump` writes `caplen` bytes -/
def writePdu (tv : Timeval) (ser : Bytes) (adv : Nat) : Rec :=
  let caplen := wrap32 ser.length
  { sec := low32 tv.sec, usec := low32 tv.usec, caplen := caplen, len := wrap32 adv, data := ser.take caplen }

/-- `PacketWriter::write(Packet&)`: `tv.tv_sec = ts.seconds(); tv.tv_usec = ts.microseconds(); write(*pdu, tv)` -/
def writePacket (ts : Timestamp) (ser : Bytes) (adv : Nat) : Rec :=
  writePdu ts.toTimeval ser adv

/-- one `write(Packet&)` call as data: the packet's timestamp, its serialization, its advertised size -/
structure Written where
  ts : Timestamp
  ser : Bytes
  adv : Nat
deriving Repr, DecidableEq

/-- the bytes of the file after `PacketWriter w(path, lt); for (p : ws) w.write(p);` and destruction of `w` -/
def writtenFile (dlt : Nat) (ws : List Written) : Bytes :=
  encodeFile dlt writerSnaplen (ws.map (fun w => writePacket w.ts w.ser w.adv))

end Tins.Capture
