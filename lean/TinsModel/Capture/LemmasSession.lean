import TinsModel.Capture.LemmasHandlers
import TinsModel.Capture.Session
/-
  Any sequence of public calls on one live sniffer (`Capture/Session.lean`) refines the frame-by-frame reading of the
  property: every `next_packet` moves past a block of frames and hands back exactly what `deliver` says about that
  block under the raw mode and the filter in force during the call.
-/
namespace Tins.Capture
open Tins Tins.Gen.Capture

theorem isErrorRet_neg_two : isErrorRet (-2) = true := by decide

section
variable {P : Type}

/-- the packets a `next_packet` result hands to the caller -/
def npPkts : NPOut P → List (P × Timestamp)
  | .pkt p ts => [(p, ts)]
  | _ => []

/-! ### `break_loop` -/

/-- while `break_loop` is clear the loop of `next_packet` on a handle is the loop of `Sniffer.lean` -/
theorem npLoop_nobrk (m : Method) (handler : Frame → SniffData P → HOut P) :
    ∀ (fuel : Nat) (h : Handle) (d : SniffData P), h.brk = false →
      npLoop m handler fuel h d =
        ((nextPacketLoop m h.filter handler fuel ⟨h.frames, h.err⟩ d).1,
         { h with frames := (nextPacketLoop m h.filter handler fuel ⟨h.frames, h.err⟩ d).2.frames,
                  err := (nextPacketLoop m h.filter handler fuel ⟨h.frames, h.err⟩ d).2.err }) := by
  intro fuel
  induction fuel with
  | zero => intro h d _; simp [npLoop, nextPacketLoop]
  | succ k ih =>
    intro h d hb
    obtain ⟨dlt, frames, err, filter, brk⟩ := h
    simp only at hb
    subst hb
    obtain ⟨tv, pdu, pr⟩ := d
    simp only [npLoop, nextPacketLoop, readOne]
    by_cases hc : (pdu.isNone && pr) = true
    · simp only [hc, if_true, Bool.false_eq_true, if_false]
      generalize sniffOnce m filter handler err frames { tv := tv, pdu := pdu, processed := false } = r
      obtain ⟨ret, ho, src⟩ := r
      cases ho with
      | ret d' =>
        simp only
        by_cases he : isErrorRet ret = true
        · simp [he]
        · simp only [he, if_false, Bool.false_eq_true]
          exact ih ⟨dlt, src.frames, src.err, filter, false⟩ d' rfl
      | escape e => simp
      | fault i n => simp
    · simp only [hc, if_false, Bool.false_eq_true]
      cases pdu <;> simp

/-- with `break_loop` set, `next_packet` reads nothing, hands back no packet and clears the flag — for every
    sniffing method -/
theorem npLoop_brk (m : Method) (handler : Frame → SniffData P → HOut P) (k : Nat) (h : Handle)
    (hb : h.brk = true) :
    npLoop m handler (k + 2) h SniffData.init = (.null, { h with brk := false }) := by
  cases m <;>
    simp [npLoop, readOne, hb, SniffData.init, Method.breakRet, isErrorRet_neg_two, isErrorRet_zero]

/-! ### the assumed behaviour of a sniffing method (`ReadFacts`) determines `readOne` -/

theorem readFacts_readOne : ReadFacts (readOne (P := P)) := by
  refine ⟨?_, ?_, ?_, ?_⟩
  · intro m handler h d hb; simp [readOne, hb]
  · intro m handler h d hb hf
    obtain ⟨dlt, frames, err, filter, brk⟩ := h
    simp only at hb hf; subst hb hf
    simp [readOne, sniffOnce]
  · intro m handler h d f fs hb hf hr
    obtain ⟨dlt, frames, err, filter, brk⟩ := h
    simp only at hb hf hr; subst hb hf
    simp [readOne, sniffOnce, hr]
  · intro m handler h d f fs hb hf hr
    obtain ⟨dlt, frames, err, filter, brk⟩ := h
    simp only at hb hf hr; subst hb hf
    simp [readOne, sniffOnce, hr]

theorem readFacts_unique
    (read : Method → (Frame → SniffData P → HOut P) → Handle → SniffData P → Int × HOut P × Handle)
    (hr : ReadFacts read) (m : Method) (handler : Frame → SniffData P → HOut P) (d : SniffData P) :
    ∀ (h : Handle), read m handler h d = readOne m handler h d := by
  have hm := readFacts_readOne (P := P)
  intro h
  obtain ⟨dlt, frames, err, filter, brk⟩ := h
  cases brk with
  | true => rw [hr.r1_break _ _ _ _ rfl, hm.r1_break _ _ _ _ rfl]
  | false =>
    induction frames with
    | nil => rw [hr.r2_end _ _ _ _ rfl rfl, hm.r2_end _ _ _ _ rfl rfl]
    | cons f fs ih =>
      cases hf : filter f with
      | false =>
        rw [hr.r3_reject m handler ⟨dlt, f :: fs, err, filter, false⟩ d f fs rfl rfl hf,
          hm.r3_reject m handler ⟨dlt, f :: fs, err, filter, false⟩ d f fs rfl rfl hf]
        exact ih
      | true =>
        rw [hr.r4_accept m handler ⟨dlt, f :: fs, err, filter, false⟩ d f fs rfl rfl hf,
          hm.r4_accept m handler ⟨dlt, f :: fs, err, filter, false⟩ d f fs rfl rfl hf]

/-! ### the handler `next_packet` selects -/

theorem runHandler_of_isCallback (parse : String → Bytes → POut P) (hk : HandlerKind) (h : isCallback hk = true) :
    ∃ handler, runHandler parse hk = some handler := by
  cases hk <;> simp_all [isCallback, runHandler]

theorem selected (parse : String → Bytes → POut P) (dlt : Nat) (hdisp : dispatches dlt = true) (raw : Bool) :
    ∃ handler, selectHandler raw dlt = .ok (modeKind raw dlt) ∧
      runHandler parse (modeKind raw dlt) = some handler := by
  cases raw with
  | true =>
    have h1 : selectHandler true dlt = .ok extractRawHandler := by simp [selectHandler]
    have h2 : modeKind true dlt = extractRawHandler := by simp [modeKind, h1]
    rw [h2]
    exact ⟨handlerGeneric parse "RawPDU", h1, rfl⟩
  | false =>
    unfold dispatches at hdisp
    cases hs : selectHandler false dlt with
    | error e => rw [hs] at hdisp; simp at hdisp
    | ok hk =>
      rw [hs] at hdisp
      have h2 : modeKind false dlt = hk := by simp [modeKind, hs]
      rw [h2]
      obtain ⟨handler, hh⟩ := runHandler_of_isCallback parse hk hdisp
      exact ⟨handler, rfl, hh⟩

/-! ### `specNext` as "move past a block of frames" -/

theorem specNext_split (filter : Frame → Bool) (outcome : Frame → FOut P) (err : Bool) :
    ∀ (frames : List Frame), (∀ f ∈ frames, filter f = true → ∀ e, outcome f ≠ .escape e) →
      ∃ pre, frames = pre ++ (specNext filter outcome err frames).2.frames ∧
        npPkts (specNext filter outcome err frames).1 =
          pre.filterMap (fun f => if filter f then
            (match outcome f with | .pkt p => some (p, f.ts) | _ => none) else none) ∧
        (∀ e, (specNext filter outcome err frames).1 ≠ .escape e) := by
  intro frames
  induction frames with
  | nil => intro _; exact ⟨[], by simp [specNext, npPkts]⟩
  | cons f fs ih =>
    intro hne
    obtain ⟨pre, h1, h2, h3⟩ := ih (fun g hg => hne g (by simp [hg]))
    cases hf : filter f with
    | false =>
      refine ⟨f :: pre, ?_, ?_, ?_⟩
      · simp only [specNext, hf, Bool.false_eq_true, if_false, List.cons_append]; rw [← h1]
      · simp only [specNext, hf, Bool.false_eq_true, if_false, List.filterMap_cons]; exact h2
      · simp only [specNext, hf, Bool.false_eq_true, if_false]; exact h3
    | true =>
      cases ho : outcome f with
      | pkt p =>
        refine ⟨[f], ?_, ?_, ?_⟩ <;> simp [specNext, hf, ho, npPkts]
      | skip =>
        refine ⟨f :: pre, ?_, ?_, ?_⟩
        · simp only [specNext, hf, ho, if_true, List.cons_append]; rw [← h1]
        · simp only [specNext, hf, ho, if_true, List.filterMap_cons]; exact h2
        · simp only [specNext, hf, ho, if_true]; exact h3
      | escape e => exact absurd ho (hne f (by simp) hf e)

/-! ### the classification of a frame and the declarative `parsesAs` -/

variable (parse : String → Bytes → POut P)

theorem kindCatches_malformed (hk : HandlerKind) : caughtBy (kindCatches hk) .malformedPacket = true := by
  have h1 : caughtBy safeAllocCatches .malformedPacket = true := by decide
  have h2 : caughtBy dot11Catches .malformedPacket = true := by decide
  cases hk <;> simp [kindCatches, h1, h2]

theorem frameOutcome_no_escape (hk : HandlerKind) (f : Frame) (h : throwsOther parse hk f = false) :
    ∀ e, frameOutcome parse hk f ≠ .escape e := by
  intro e
  rw [frameOutcome_eq]
  simp only [throwsOther] at h
  cases hc : classOf hk f.data with
  | none => simp
  | some cls =>
    rw [hc] at h
    simp only at h ⊢
    cases hp : parse cls f.data with
    | ok p => simp [allocOutcome]
    | throw x =>
      rw [hp] at h
      have hx : x = .malformedPacket := by simpa using h
      subst hx
      simp [allocOutcome, kindCatches_malformed hk]

theorem frameOutcome_parsesAs (hk : HandlerKind) (f : Frame) :
    (match frameOutcome parse hk f with | .pkt p => some (p, f.ts) | _ => none) =
      (parsesAs parse hk f).map (fun p => (p, f.ts)) := by
  rw [frameOutcome_eq]
  simp only [parsesAs]
  cases hc : classOf hk f.data with
  | none => rfl
  | some cls =>
    simp only
    cases hp : parse cls f.data with
    | ok p => simp [allocOutcome]
    | throw x => by_cases hcc : caughtBy (kindCatches hk) x = true <;> simp [allocOutcome, hcc]

/-! ### one `next_packet` call -/

/-- a frame libpcap can deliver, on which no dissector — in either raw mode — throws anything but
    `malformed_packet` (the dissectors' own guarantee, C01) -/
structure FrameOk (dlt : Nat) (f : Frame) : Prop where
  wf : f.data.length = f.caplen
  noThrow : ∀ raw, throwsOther parse (modeKind raw dlt) f = false

/-- what the theorems need to know about a live sniffer -/
structure Inv (dlt : Nat) (t : Traced) : Prop where
  hdlt : t.s.handle.dlt = dlt
  ok : ∀ f ∈ t.s.handle.frames, FrameOk parse dlt f

/-- the ghost tag of a frame: raw mode and filter in force -/
def tagOf (t : Traced) (f : Frame) : Frame × Bool × (Frame → Bool) := (f, t.s.extractRaw, t.s.handle.filter)

theorem nextPacket_step (dlt : Nat) (hdisp : dispatches dlt = true) (t : Traced) (hinv : Inv parse dlt t) :
    ∃ chunk : List Frame,
      t.s.handle.frames = chunk ++ (t.nextPacket parse).2.s.handle.frames ∧
      (t.nextPacket parse).2.log = t.log ++ chunk.map (tagOf t) ∧
      npPkts (t.nextPacket parse).1 = (chunk.map (tagOf t)).filterMap (deliver parse dlt) ∧
      (∀ e, (t.nextPacket parse).1 ≠ .escape e) ∧ (∀ i n, (t.nextPacket parse).1 ≠ .fault i n) ∧
      (t.nextPacket parse).2.s.handle.dlt = dlt ∧
      (t.nextPacket parse).2.s.extractRaw = t.s.extractRaw ∧
      (t.nextPacket parse).2.s.handle.filter = t.s.handle.filter ∧
      (t.nextPacket parse).2.s.handle.brk = false ∧
      (t.s.handle.brk = false → (t.nextPacket parse).1 = .null → (t.nextPacket parse).2.s.handle.frames = []) := by
  obtain ⟨handler, hsel, hrun⟩ := selected parse dlt hdisp t.s.extractRaw
  have hd := hinv.hdlt
  cases hb : t.s.handle.brk with
  | true =>
    have hnp : t.s.nextPacket parse = (.null, { t.s with handle := { t.s.handle with brk := false } }) := by
      simp only [Sniffer.nextPacket, hd, hsel, hrun, npLoop_brk t.s.method handler _ t.s.handle hb]
    refine ⟨[], ?_⟩
    simp [Traced.nextPacket, hnp, npPkts, hd]
  | false =>
    have hbeh : ∀ f ∈ t.s.handle.frames, Behaves handler (frameOutcome parse (modeKind t.s.extractRaw dlt)) f :=
      fun f hf => handler_behaves parse _ handler hrun f (hinv.ok f hf).wf
    have hspec := nextPacket_spec t.s.method t.s.handle.filter handler
      (frameOutcome parse (modeKind t.s.extractRaw dlt)) ⟨t.s.handle.frames, t.s.handle.err⟩ hbeh
    simp only [nextPacket] at hspec
    have hnp : t.s.nextPacket parse =
        ((specNext t.s.handle.filter (frameOutcome parse (modeKind t.s.extractRaw dlt)) t.s.handle.err
            t.s.handle.frames).1,
         { t.s with handle := { t.s.handle with
            frames := (specNext t.s.handle.filter (frameOutcome parse (modeKind t.s.extractRaw dlt)) t.s.handle.err
              t.s.handle.frames).2.frames,
            err := (specNext t.s.handle.filter (frameOutcome parse (modeKind t.s.extractRaw dlt)) t.s.handle.err
              t.s.handle.frames).2.err } }) := by
      simp only [Sniffer.nextPacket, hd, hsel, hrun, npLoop_nobrk t.s.method handler _ t.s.handle _ hb, hspec]
    obtain ⟨pre, h1, h2, h3⟩ := specNext_split t.s.handle.filter
      (frameOutcome parse (modeKind t.s.extractRaw dlt)) t.s.handle.err t.s.handle.frames
      (fun f hf _ => frameOutcome_no_escape parse _ f ((hinv.ok f hf).noThrow t.s.extractRaw))
    have hk : t.s.handle.frames.length -
        (specNext t.s.handle.filter (frameOutcome parse (modeKind t.s.extractRaw dlt)) t.s.handle.err
          t.s.handle.frames).2.frames.length = pre.length := by
      have := congrArg List.length h1
      simp only [List.length_append] at this
      omega
    have htake : t.s.handle.frames.take pre.length = pre := by
      rw [h1]; exact List.take_left' rfl
    refine ⟨pre, ?_, ?_, ?_, ?_, ?_, ?_, ?_, ?_, ?_, ?_⟩
    · simp only [Traced.nextPacket, hnp]; exact h1
    · simp only [Traced.nextPacket, hnp, hk, htake]; rfl
    · simp only [Traced.nextPacket, hnp, h2, List.filterMap_map]
      congr 1
      funext f
      simp only [Function.comp, tagOf, deliver, frameOutcome_parsesAs]
      rfl
    · simp only [Traced.nextPacket, hnp]; exact h3
    · simp only [Traced.nextPacket, hnp]; exact specNext_no_fault _ _ _ _
    · simp only [Traced.nextPacket, hnp]; exact hd
    · simp only [Traced.nextPacket, hnp]
    · simp only [Traced.nextPacket, hnp]
    · simp only [Traced.nextPacket, hnp]; exact hb
    · intro _ hnull
      simp only [Traced.nextPacket, hnp] at hnull ⊢
      exact specNext_null_frames _ _ _ _ hnull

/-- `next_packet` keeps what the theorems need to know -/
theorem nextPacket_inv (dlt : Nat) (hdisp : dispatches dlt = true) (t : Traced) (hinv : Inv parse dlt t) :
    Inv parse dlt (t.nextPacket parse).2 := by
  obtain ⟨chunk, h1, _, _, _, _, h6, _⟩ := nextPacket_step parse dlt hdisp t hinv
  exact ⟨h6, fun f hf => hinv.ok f (by rw [h1]; simp [hf])⟩

/-! ### configuration calls and moves touch neither the read position nor the link type -/

theorem cfg_frames (s : Sniffer) (c : Cfg) :
    (s.cfg c).2.handle.frames = s.handle.frames ∧ (s.cfg c).2.handle.dlt = s.handle.dlt := by
  cases c with
  | setRaw v => simp [Sniffer.cfg]
  | setFilter f => cases f <;> simp [Sniffer.cfg]
  | setMethod m => simp [Sniffer.cfg]
  | stopSniff => simp [Sniffer.cfg]

theorem cfgs_frames (cs : List Cfg) : ∀ (s : Sniffer),
    (s.cfgs cs).handle.frames = s.handle.frames ∧ (s.cfgs cs).handle.dlt = s.handle.dlt := by
  induction cs with
  | nil => intro s; simp [Sniffer.cfgs]
  | cons c cs ih =>
    intro s
    simp only [Sniffer.cfgs]
    have h1 := ih (s.cfg c).2
    have h2 := cfg_frames s c
    exact ⟨h1.1.trans h2.1, h1.2.trans h2.2⟩

/-- a move hands the whole state — read position, installed filter, `break_loop`, raw mode, sniffing method — to
    the target object -/
theorem moveAssign_fst (dst rhs : Sniffer) : (Sniffer.moveAssign dst rhs).1 = rhs := by
  cases rhs; rfl

theorem moveConstruct_fst (rhs : Sniffer) : (Sniffer.moveConstruct rhs).1 = rhs := by
  cases rhs; rfl

/-- the other object of a move assignment gets the target's previous state (it closes that handle when destroyed) -/
theorem moveAssign_snd (dst rhs : Sniffer) : (Sniffer.moveAssign dst rhs).2 = dst := by
  cases dst; rfl

/-! ### `sniff_loop` / range-for, one call, any sequence of calls -/

/-- how a loop can end when no dissector misbehaves: never with an exception out of a handler nor a fault; an
    exception that does come out is one the functor itself threw and the loop has no catch clause for -/
def LoopEndOk (catches : List String) (cb : Functor P) (e : LoopEnd) : Prop :=
  (∀ x, e ≠ .escape x) ∧ (∀ i n, e ≠ .fault i n) ∧
  (∀ x, e = .cbEscape x → caughtBy catches x = false ∧ ∃ hist p, (cb hist p).2 = .throw x)

/-- the shape every step has: the call moved past the frames of `chunk` (each tagged with the raw mode and filter in
    force when `next_packet` reached it), logged exactly them, and delivered what `deliver` says about them -/
structure Advance (dlt : Nat) (t t' : Traced) (chunk : List (Frame × Bool × (Frame → Bool)))
    (out : List (P × Timestamp)) : Prop where
  frames : t.s.handle.frames = chunk.map (·.1) ++ t'.s.handle.frames
  log : t'.log = t.log ++ chunk
  out : out = chunk.filterMap (deliver parse dlt)
  inv : Inv parse dlt t'

theorem Advance.trans {dlt : Nat} {t t' t'' : Traced} {c1 c2 : List (Frame × Bool × (Frame → Bool))}
    {o1 o2 : List (P × Timestamp)} (a : Advance parse dlt t t' c1 o1) (b : Advance parse dlt t' t'' c2 o2) :
    Advance parse dlt t t'' (c1 ++ c2) (o1 ++ o2) where
  frames := by rw [a.frames, b.frames]; simp
  log := by rw [b.log, a.log]; simp
  out := by rw [a.out, b.out]; simp
  inv := b.inv

theorem map_tagOf_fst (t : Traced) (l : List Frame) : (l.map (tagOf t)).map (·.1) = l := by
  induction l with
  | nil => rfl
  | cons f fs ih => simp [tagOf] at ih ⊢; exact ih

/-- one `next_packet` call as an `Advance` -/
theorem nextPacket_advance (dlt : Nat) (hdisp : dispatches dlt = true) (t : Traced) (hinv : Inv parse dlt t) :
    ∃ chunk, Advance parse dlt t (t.nextPacket parse).2 chunk (npPkts (t.nextPacket parse).1) ∧
      (∀ e, (t.nextPacket parse).1 ≠ .escape e) ∧ (∀ i n, (t.nextPacket parse).1 ≠ .fault i n) ∧
      (∀ p ts, (t.nextPacket parse).1 = .pkt p ts →
        (t.nextPacket parse).2.s.handle.frames.length < t.s.handle.frames.length) := by
  obtain ⟨chunk, h1, h2, h3, h4, h5, _⟩ := nextPacket_step parse dlt hdisp t hinv
  refine ⟨chunk.map (tagOf t), ⟨?_, h2, h3, nextPacket_inv parse dlt hdisp t hinv⟩, h4, h5, ?_⟩
  · rw [map_tagOf_fst]; exact h1
  · intro p ts hp
    rw [hp] at h3
    have hne : chunk ≠ [] := by
      intro hn; subst hn; simp [npPkts] at h3
    have := congrArg List.length h1
    simp only [List.length_append] at this
    have : 0 < chunk.length := List.length_pos_iff.mpr hne
    omega

theorem cfgs_advance (dlt : Nat) (t : Traced) (hinv : Inv parse dlt t) (cs : List Cfg) :
    Advance parse dlt t { t with s := t.s.cfgs cs } [] [] where
  frames := by simp [(cfgs_frames cs t.s).1]
  log := by simp
  out := by simp
  inv := ⟨by simp [(cfgs_frames cs t.s).2, hinv.hdlt], fun f hf => hinv.ok f (by simpa [(cfgs_frames cs t.s).1] using hf)⟩

theorem loop_advance (dlt : Nat) (hdisp : dispatches dlt = true) (catches : List String) (cb : Functor P) :
    ∀ (fuel : Nat) (t : Traced) (mx : Nat) (acc : List (P × Timestamp)),
      Inv parse dlt t → t.s.handle.frames.length + 1 ≤ fuel →
      ∃ chunk out, Advance parse dlt t (Traced.loop parse catches cb fuel t mx acc).2.2 chunk out ∧
        (Traced.loop parse catches cb fuel t mx acc).2.1 = acc ++ out ∧
        LoopEndOk catches cb (Traced.loop parse catches cb fuel t mx acc).1 := by
  intro fuel
  induction fuel with
  | zero => intro t mx acc _ h; omega
  | succ k ih =>
    intro t mx acc hinv hfuel
    obtain ⟨chunk1, ha, hne, hnf, hlt⟩ := nextPacket_advance parse dlt hdisp t hinv
    simp only [Traced.loop]
    generalize t.nextPacket parse = r at ha hne hnf hlt
    obtain ⟨o, t'⟩ := r
    cases o with
    | null => exact ⟨chunk1, [], ha, by simp, by simp [LoopEndOk]⟩
    | escape e => exact absurd rfl (hne e)
    | fault i n => exact absurd rfl (hnf i n)
    | pkt p ts =>
      simp only [npPkts] at ha
      have hlen : t'.s.handle.frames.length < t.s.handle.frames.length := hlt p ts rfl
      dsimp only
      generalize hrc : cb acc (p, ts) = rc
      obtain ⟨cfgs, outc⟩ := rc
      have hb := cfgs_advance parse dlt t' ha.inv cfgs
      have hab := ha.trans parse hb
      simp only [List.append_nil] at hab
      have hfr : ({ t' with s := t'.s.cfgs cfgs } : Traced).s.handle.frames.length + 1 ≤ k := by
        simp only [(cfgs_frames cfgs t'.s).1]; omega
      -- ending here
      have hstop : ∀ e : LoopEnd, LoopEndOk catches cb e →
          ∃ chunk out, Advance parse dlt t { t' with s := t'.s.cfgs cfgs } chunk out ∧
            acc ++ [(p, ts)] = acc ++ out ∧ LoopEndOk catches cb e :=
        fun e he => ⟨_, _, hab, rfl, he⟩
      -- going on
      have hcont : ∃ chunk out,
          Advance parse dlt t
            (if mx ≠ 0 ∧ wrap32 (mx + 4294967295) = 0 then
              ((LoopEnd.maxReached, acc ++ [(p, ts)], ({ t' with s := t'.s.cfgs cfgs } : Traced)) :
                LoopEnd × List (P × Timestamp) × Traced)
             else Traced.loop parse catches cb k { t' with s := t'.s.cfgs cfgs }
               (if mx ≠ 0 then wrap32 (mx + 4294967295) else 0) (acc ++ [(p, ts)])).2.2 chunk out ∧
          (if mx ≠ 0 ∧ wrap32 (mx + 4294967295) = 0 then
              ((LoopEnd.maxReached, acc ++ [(p, ts)], ({ t' with s := t'.s.cfgs cfgs } : Traced)) :
                LoopEnd × List (P × Timestamp) × Traced)
             else Traced.loop parse catches cb k { t' with s := t'.s.cfgs cfgs }
               (if mx ≠ 0 then wrap32 (mx + 4294967295) else 0) (acc ++ [(p, ts)])).2.1 = acc ++ out ∧
          LoopEndOk catches cb
            (if mx ≠ 0 ∧ wrap32 (mx + 4294967295) = 0 then
              ((LoopEnd.maxReached, acc ++ [(p, ts)], ({ t' with s := t'.s.cfgs cfgs } : Traced)) :
                LoopEnd × List (P × Timestamp) × Traced)
             else Traced.loop parse catches cb k { t' with s := t'.s.cfgs cfgs }
               (if mx ≠ 0 then wrap32 (mx + 4294967295) else 0) (acc ++ [(p, ts)])).1 := by
        by_cases hc : mx ≠ 0 ∧ wrap32 (mx + 4294967295) = 0
        · rw [if_pos hc]
          exact ⟨_, _, hab, rfl, by simp [LoopEndOk]⟩
        · rw [if_neg hc]
          obtain ⟨c2, o2, a2, e2, l2⟩ := ih { t' with s := t'.s.cfgs cfgs }
            (if mx ≠ 0 then wrap32 (mx + 4294967295) else 0) (acc ++ [(p, ts)]) hab.inv hfr
          exact ⟨_, _, hab.trans parse a2, by rw [e2]; simp, l2⟩
      cases outc with
      | stop => exact hstop _ (by simp [LoopEndOk])
      | continue_ => exact hcont
      | throw x =>
        by_cases hcx : caughtBy catches x = true
        · simp only [hcx, if_true]; exact hcont
        · simp only [hcx, Bool.false_eq_true, if_false]
          refine hstop _ ⟨by simp, by simp, ?_⟩
          intro y hy
          have : y = x := by injection hy with h; exact h.symm
          subst this
          exact ⟨by simpa using hcx, acc, (p, ts), by rw [hrc]⟩

/-- how a single call may end -/
def RetOk (r : Ret P) : Prop :=
  match r with
  | .packet o => (∀ e, o ≠ .escape e) ∧ (∀ i n, o ≠ .fault i n)
  | .loop e _ => (∀ x, e ≠ .escape x) ∧ (∀ i n, e ≠ .fault i n)
  | _ => True

theorem call_advance (dlt : Nat) (hdisp : dispatches dlt = true) (t : Traced) (hinv : Inv parse dlt t)
    (c : Call P) :
    ∃ chunk, Advance parse dlt t (t.call parse c).2 chunk (t.call parse c).1.pkts ∧ RetOk (t.call parse c).1 := by
  cases c with
  | nextPacket =>
    obtain ⟨chunk, ha, hne, hnf, _⟩ := nextPacket_advance parse dlt hdisp t hinv
    refine ⟨chunk, ?_, hne, hnf⟩
    simp only [Traced.call]
    cases h : (t.nextPacket parse).1 <;> simp only [h, Ret.pkts, npPkts] at ha ⊢ <;> exact ha
  | sniffLoop cb mx =>
    obtain ⟨chunk, out, ha, he, hl⟩ := loop_advance parse dlt hdisp sniffLoopCatches cb
      (t.s.handle.frames.length + 1) t mx [] hinv (Nat.le_refl _)
    simp only [List.nil_append] at he
    exact ⟨chunk, by simp only [Traced.call, Ret.pkts, he]; exact ha, hl.1, hl.2.1⟩
  | rangeFor cb =>
    obtain ⟨chunk, out, ha, he, hl⟩ := loop_advance parse dlt hdisp [] cb
      (t.s.handle.frames.length + 1) t 0 [] hinv (Nat.le_refl _)
    simp only [List.nil_append] at he
    exact ⟨chunk, by simp only [Traced.call, Ret.pkts, he]; exact ha, hl.1, hl.2.1⟩
  | cfg c =>
    refine ⟨[], ?_, trivial⟩
    have := cfgs_advance parse dlt t hinv [c]
    simpa [Traced.call, Ret.pkts, Sniffer.cfgs] using this
  | moveConstruct =>
    refine ⟨[], ?_, trivial⟩
    simp only [Traced.call, Ret.pkts, moveConstruct_fst]
    exact ⟨by simp, by simp, by simp, hinv⟩
  | moveAssignInto target =>
    refine ⟨[], ?_, trivial⟩
    simp only [Traced.call, Ret.pkts, moveAssign_fst]
    exact ⟨by simp, by simp, by simp, hinv⟩
  | linkType =>
    refine ⟨[], ?_, trivial⟩
    simp only [Traced.call, Ret.pkts]
    exact ⟨by simp, by simp, by simp, hinv⟩

theorem run_advance (dlt : Nat) (hdisp : dispatches dlt = true) :
    ∀ (calls : List (Call P)) (t : Traced), Inv parse dlt t →
      ∃ chunk, Advance parse dlt t (t.run parse calls).2 chunk (delivered (t.run parse calls).1) ∧
        ∀ r ∈ (t.run parse calls).1, RetOk r := by
  intro calls
  induction calls with
  | nil =>
    intro t hinv
    exact ⟨[], ⟨by simp [Traced.run], by simp [Traced.run], by simp [Traced.run, delivered], hinv⟩,
      by simp [Traced.run]⟩
  | cons c cs ih =>
    intro t hinv
    obtain ⟨c1, a1, r1⟩ := call_advance parse dlt hdisp t hinv c
    obtain ⟨c2, a2, r2⟩ := ih (t.call parse c).2 a1.inv
    refine ⟨c1 ++ c2, ?_, ?_⟩
    · have := a1.trans parse a2
      simpa [Traced.run, delivered] using this
    · intro r hr
      simp only [Traced.run, List.mem_cons] at hr
      cases hr with
      | inl h => rw [h]; exact r1
      | inr h => exact r2 r h

end
end Tins.Capture
