import TinsModel.Capture.Timestamp
import TinsModel.Gen.Capture
/-
  The classic pcap savefile as libpcap 1.10 writes (`pcap_dump`) and reads (`pcap_open_offline`,
  `pcap_next_packet` of sf-pcap.c) it, little-endian microsecond flavour (the only one `pcap_dump_open` produces on
  this platform).  This is the *assumed environment* of the property: it is exercised by the correspondence, never
  proved about libpcap.  Field widths are explicit (`wrap32`), time fields are read back as signed 32-bit.
-/
namespace Tins.Capture
open Tins

/-- a record as it is stored: four 32-bit fields and the captured bytes -/
structure Rec where
  sec : Nat
  usec : Nat
  caplen : Nat
  len : Nat
  data : Bytes
deriving Repr, DecidableEq

/-- what libpcap hands to a `pcap_handler`: `pcap_pkthdr` (ts, caplen, len) and the bytes -/
structure Frame where
  tv : Timeval
  caplen : Nat
  len : Nat
  data : Bytes
deriving Repr, DecidableEq

def byte (n : Nat) : UInt8 := UInt8.ofNat (n % 256)

def le16 (n : Nat) : Bytes := [byte n, byte (n / 256)]
def le32 (n : Nat) : Bytes := [byte n, byte (n / 256), byte (n / 65536), byte (n / 16777216)]

/-- little-endian 32-bit read of the first four bytes (0 when there are fewer: callers check the length first) -/
def rd32 : Bytes → Nat
  | a :: b :: c :: d :: _ => a.toNat + 256 * b.toNat + 65536 * c.toNat + 16777216 * d.toNat
  | _ => 0

/-- `k ≤ bs.length` without walking the whole list -/
def hasAtLeast (bs : Bytes) (k : Nat) : Bool :=
  match k with
  | 0 => true
  | k + 1 => !(bs.drop k).isEmpty

/-- libpcap's `MAXIMUM_SNAPLEN` (`max_snaplen_for_dlt` for every link type used here) -/
def maxSnaplen : Nat := 262144

/-- DLT ↦ LINKTYPE value stored in the file header (`dlt_to_linktype`; only DLT_RAW differs on this platform) -/
def dltToLinktype (dlt : Nat) : Nat := if dlt = 12 then 101 else dlt
/-- `linktype_to_dlt` -/
def linktypeToDlt (lt : Nat) : Nat := if lt = 101 then 12 else lt

/-- `pcap_dump_open` on a `pcap_open_dead(linktype, snaplen)` handle: the 24-byte file header -/
def fileHeader (dlt snaplen : Nat) : Bytes :=
  le32 2712847316 ++ le16 2 ++ le16 4 ++ le32 0 ++ le32 0 ++ le32 snaplen ++ le32 (dltToLinktype dlt)

/-- `pcap_dump`: 16-byte record header, then `caplen` bytes -/
def encodeRec (r : Rec) : Bytes :=
  le32 r.sec ++ le32 r.usec ++ le32 r.caplen ++ le32 r.len ++ r.data

def encodeFile (dlt snaplen : Nat) (recs : List Rec) : Bytes :=
  fileHeader dlt snaplen ++ recs.flatMap encodeRec

/-- `pcap_next_packet` repeated until the end: the frames delivered in order, and whether the file ends in an
    error (short record header, capture length above `MAXIMUM_SNAPLEN`, short data) instead of a clean end -/
def readRecs (snap : Nat) : Nat → Bytes → List Frame × Bool
  | 0, _ => ([], false)
  | fuel + 1, bs =>
    if bs.isEmpty then ([], false)
    else if !hasAtLeast bs 16 then ([], true)
    else
      let sec := rd32 bs
      let usec := rd32 (bs.drop 4)
      let caplen := rd32 (bs.drop 8)
      let len := rd32 (bs.drop 12)
      let body := bs.drop 16
      if caplen > maxSnaplen then ([], true)
      else if !hasAtLeast body caplen then ([], true)
      else
        let keep := if caplen > snap then snap else caplen
        let fr : Frame := { tv := ⟨toI32 sec, toI32 usec⟩, caplen := keep, len := len, data := body.take keep }
        let r := readRecs snap fuel (body.drop caplen)
        (fr :: r.1, r.2)

/-- an opened savefile -/
structure Opened where
  dlt : Nat
  snaplen : Nat
  frames : List Frame
  err : Bool
deriving Repr, DecidableEq

/-- `pcap_open_offline`: `none` = the open fails (`pcap_error` from the `FileSniffer` constructor).
    Only the native little-endian microsecond magic is modelled (what `PacketWriter` produces). -/
def openFile (bs : Bytes) : Option Opened :=
  if !hasAtLeast bs 24 then none
  else if rd32 bs != 2712847316 then none
  else if rd32 (bs.drop 4) % 65536 < 2 then none
  else
    let snap0 := rd32 (bs.drop 16)
    let snap := if snap0 = 0 ∨ snap0 > 2147483647 then maxSnaplen else snap0
    let body := bs.drop 24
    let r := readRecs snap (body.length + 1) body
    some { dlt := linktypeToDlt (rd32 (bs.drop 20) % 65536), snaplen := snap, frames := r.1, err := r.2 }

/-- a record as `PacketWriter` produces it for a reader with snapshot length `snap` -/
structure RecWf (snap : Nat) (r : Rec) : Prop where
  sec : r.sec < 4294967296
  usec : r.usec < 4294967296
  len : r.len < 4294967296
  data : r.data.length = r.caplen
  cap : r.caplen ≤ snap

/-- the frame libpcap delivers for a stored record -/
def frameOfRec (r : Rec) : Frame :=
  { tv := ⟨toI32 r.sec, toI32 r.usec⟩, caplen := r.caplen, len := r.len, data := r.data }

/-! ## what the theorems assume about libpcap

  C17's theorems are about libtins' code on top of libpcap.  Everything they use about libpcap's savefile code is
  collected here as named hypotheses; the byte-level functions above (`encodeFile`, `openFile`) are one
  implementation that satisfies them (`modelSavefile_facts`, proved in LemmasPcap.lean), and that implementation is
  what the harness compares with the real library on every run: the bytes `pcap_dump` wrote against `encodeFile`
  (size and hash of the whole file, every link type of the writer's API, time stamps at the boundaries of the 32-bit
  fields) and the frames `pcap_open_offline` + the sniffing methods deliver against `openFile`.
  The reader-side facts (one call of a sniffing method with `cnt = 1`) are `ReadFacts` in Session.lean. -/

/-- an implementation of the savefile calls libtins makes -/
structure Savefile where
  /-- `pcap_open_dead(dlt, snaplen)`, `pcap_dump_open`, one `pcap_dump` per record, `pcap_dump_close`: the file -/
  dump : Nat → Nat → List Rec → Bytes
  /-- `pcap_open_offline` and `pcap_next_packet` until the end: link type, snapshot length, frames, clean end or error;
      `none`: the open fails -/
  openOffline : Bytes → Option Opened

/-- **S1 (dump/open round trip).**  A file produced by `pcap_dump` from records whose 32-bit fields hold their
    values, whose data has `caplen` bytes and whose `caplen` is within the declared snapshot length (itself positive
    and at most `MAXIMUM_SNAPLEN`), for a link type that survives the DLT ↦ LINKTYPE mapping, opens with that link
    type and snapshot length and delivers one frame per record, in order, with the stored bytes, lengths and the
    time fields read as signed 32-bit values; then the file ends cleanly. -/
structure SavefileFacts (L : Savefile) : Prop where
  roundtrip : ∀ (dlt snap : Nat), dltToLinktype dlt < 65536 → linktypeToDlt (dltToLinktype dlt) = dlt →
    0 < snap → snap ≤ maxSnaplen → ∀ (recs : List Rec), (∀ r ∈ recs, RecWf snap r) →
    L.openOffline (L.dump dlt snap recs) =
      some { dlt := dlt, snaplen := snap, frames := recs.map frameOfRec, err := false }

/-- the byte-level model of this file as a `Savefile` -/
def modelSavefile : Savefile := { dump := encodeFile, openOffline := openFile }

end Tins.Capture
