import TinsModel.Basic.Seq32
/-
  `struct timeval`, `Tins::Timestamp` (src/timestamp.cpp) with the integer widths the C++ uses made explicit:
  `tv_sec` / `tv_usec` are 64-bit signed (`time_t`, `suseconds_t` on this platform), `timestamp_` is `uint64_t`.
-/
namespace Tins.Capture

/-- 2^64 -/
def two64 : Nat := 18446744073709551616

/-- value of a signed 64-bit quantity after conversion to `uint64_t` -/
def toU64 (x : Int) : Nat := (x % 18446744073709551616).toNat

/-- the low 32 bits of a 32-bit file field reinterpreted as a signed `int32` (libpcap's `bpf_int32` time fields) -/
def toI32 (x : Nat) : Int := if x < 2147483648 then (x : Int) else (x : Int) - 4294967296

structure Timeval where
  sec : Int
  usec : Int
deriving Repr, DecidableEq

/-- `Tins::Timestamp`: microseconds in a `uint64_t` -/
structure Timestamp where
  us : Nat
deriving Repr, DecidableEq

/-- `Timestamp::Timestamp()` -/
def Timestamp.zero : Timestamp := ⟨0⟩

/-- `Timestamp::Timestamp(const timeval&)`:
    `timestamp_ = static_cast<uint64_t>(tv_sec) * MICROSECONDS_IN_SECOND + tv_usec` (all in `uint64_t`) -/
def Timestamp.ofTimeval (tv : Timeval) : Timestamp := ⟨toU64 (tv.sec * 1000000 + tv.usec)⟩

/-- `Timestamp::seconds()`: `static_cast<seconds_type>(timestamp_ / MICROSECONDS_IN_SECOND)` -/
def Timestamp.seconds (t : Timestamp) : Nat := t.us / 1000000

/-- `Timestamp::microseconds()`: `timestamp_ % MICROSECONDS_IN_SECOND` -/
def Timestamp.microseconds (t : Timestamp) : Nat := t.us % 1000000

/-- the `timeval` `PacketWriter::write(Packet&)` builds from a packet's timestamp -/
def Timestamp.toTimeval (t : Timestamp) : Timeval := ⟨t.seconds, t.microseconds⟩

end Tins.Capture
