import TinsModel.Capture.Sniffer
/-
  `BaseSniffer` as a state machine over sequences of public calls (src/sniffer.cpp, include/tins/sniffer.h).

  The object state is what the members hold: `handle_` (a `pcap_t` of a savefile: link type, read position, the
  installed BPF program, the `break_loop` flag), `extract_raw_`, `pcap_sniffing_method_` (`mask_` plays no role for a
  savefile).  The public calls are the constructors of `Call`; `Sniffer.run` executes any sequence of them on ONE live
  sniffer.  `next_packet` is the code-shaped loop of `Sniffer.lean` on top of `readOne` (one call of the sniffing
  method with `cnt = 1`, now with libpcap's `break_loop` check in front).

  `Traced` pairs the object with a ghost log used only to STATE the theorem: for every `next_packet` call the frames
  the call moved past, each tagged with the raw mode and the filter in force during that call.  No result depends on
  the log.
-/
namespace Tins.Capture
open Tins Tins.Gen.Capture

/-- what lives inside the `pcap_t` of an opened savefile -/
structure Handle where
  dlt : Nat                      -- `pcap_datalink`
  frames : List Frame            -- the records not yet read
  err : Bool                     -- the file ends in a broken record
  filter : Frame → Bool          -- the installed program (`fun _ => true` while none is installed)
  brk : Bool                     -- `break_loop`, set by `pcap_breakloop`

/-- the members of `BaseSniffer` -/
structure Sniffer where
  handle : Handle
  extractRaw : Bool
  method : Method

/-- value a sniffing method returns when it finds `break_loop` set before reading anything: `pcap_loop` /
    `pcap_dispatch` hand `PCAP_ERROR_BREAK` (-2) through; the harness's exact-copy method maps the -2 of
    `pcap_next_ex` to 0 (it cannot tell it from the end of the file) -/
def Method.breakRet : Method → Int
  | .loop => -2
  | .dispatch => -2
  | .exact => 0

section
variable {P : Type}

/-- one call `pcap_sniffing_method_(handle_, 1, handler, &data)`: `pcap_offline_read` first tests `break_loop`
    (set: clear it, deliver nothing, read nothing), then reads as `sniffOnce` says -/
def readOne (m : Method) (handler : Frame → SniffData P → HOut P) (h : Handle) (d : SniffData P) :
    Int × HOut P × Handle :=
  if h.brk then (m.breakRet, .ret d, { h with brk := false })
  else
    let r := sniffOnce m h.filter handler h.err h.frames d
    (r.1, r.2.1, { h with frames := r.2.2.frames, err := r.2.2.err })

/-- **R1–R4: what the theorems assume about one call `method(handle, 1, handler, user)` of a sniffing method on a
    savefile handle** (`pcap_loop`, `pcap_dispatch`, the harness's exact-copy method over `pcap_next_ex`).
    `readOne` is the function these four equations define (`readFacts_readOne`, `readFacts_unique` in
    LemmasSession.lean), so every theorem about `next_packet` holds for any `read` that satisfies them.
    * R1 `break_loop` set: it is cleared, nothing is read, the handler is not called, the method's break value comes back;
    * R2 end of the file: the handler is not called; 0 comes back, or -1 once when the file ends in a broken record;
    * R3 the installed filter rejects the next frame: the frame is dropped and reading goes on within the same call;
    * R4 it accepts the next frame: the handler runs on it once, the frame is consumed, the method's success value
      comes back (`>= 0`).
    The filter, the link type and `break_loop` live in the handle and change only through `pcap_setfilter` /
    `pcap_breakloop`; `pcap_setfilter` replaces the installed program; `pcap_compile` of something that is not a filter
    expression fails and changes nothing (`Sniffer.cfg`). -/
structure ReadFacts
    (read : Method → (Frame → SniffData P → HOut P) → Handle → SniffData P → Int × HOut P × Handle) : Prop where
  r1_break : ∀ m handler (h : Handle) d, h.brk = true →
    read m handler h d = (m.breakRet, .ret d, { h with brk := false })
  r2_end : ∀ m handler (h : Handle) d, h.brk = false → h.frames = [] →
    read m handler h d = (if h.err then -1 else 0, .ret d, { h with err := false })
  r3_reject : ∀ m handler (h : Handle) d f fs, h.brk = false → h.frames = f :: fs → h.filter f = false →
    read m handler h d = read m handler { h with frames := fs } d
  r4_accept : ∀ m handler (h : Handle) d f fs, h.brk = false → h.frames = f :: fs → h.filter f = true →
    read m handler h d = (m.okRet, handler f d, { h with frames := fs })

/-- the `while (data.pdu == 0 && data.packet_processed)` loop of `BaseSniffer::next_packet` on a handle -/
def npLoop (m : Method) (handler : Frame → SniffData P → HOut P) : Nat → Handle → SniffData P → NPOut P × Handle
  | 0, h, _ => (.null, h)
  | fuel + 1, h, d =>
    if d.pdu.isNone && d.processed then
      let d := { d with processed := false }
      match readOne m handler h d with
      | (r, .ret d', h') =>
        if isErrorRet r then (.null, h')                       -- `return PtrPacket(0, Timestamp());`
        else npLoop m handler fuel h' d'
      | (_, .escape e, h') => (.escape e, h')
      | (_, .fault i n, h') => (.fault i n, h')
    else
      match d.pdu with
      | some p => (.pkt p (Timestamp.ofTimeval d.tv), h)      -- `return PtrPacket(data.pdu, data.tv);`
      | none => (.null, h)

variable (parse : String → Bytes → POut P)

/-- `BaseSniffer::next_packet()`: the handler is selected on every call from `extract_raw_` and the link type, then
    the loop runs on the handle with the current sniffing method -/
def Sniffer.nextPacket (s : Sniffer) : NPOut P × Sniffer :=
  match selectHandler s.extractRaw s.handle.dlt with
  | .error e => (.escape (Exc.ofName e), s)                    -- `throw unknown_link_type();`
  | .ok hk =>
    match runHandler parse hk with
    | none => (.escape (.other "no-handler"), s)
    | some handler =>
      let r := npLoop s.method handler (s.handle.frames.length + 2) s.handle SniffData.init
      (r.1, { s with handle := r.2 })

/-- the calls that only change the configuration (they may also be made from inside a functor) -/
inductive Cfg where
  | setRaw (v : Bool)                          -- `set_extract_raw_pdus(v)`
  | setFilter (f : Option (Frame → Bool))      -- `set_filter(expr)`; `none`: `pcap_compile` fails
  | setMethod (m : Method)                     -- `set_pcap_sniffing_method(m)`
  | stopSniff                                  -- `stop_sniff()` = `pcap_breakloop(handle_)`

/-- effect of a configuration call; the Boolean is what `set_filter` returns (`true` for the `void` calls).
    `set_filter`: `if (pcap_compile(...) == -1) return false; pcap_setfilter(...)` — the new program REPLACES the
    installed one; an expression that does not compile leaves everything as it was. -/
def Sniffer.cfg (s : Sniffer) : Cfg → Bool × Sniffer
  | .setRaw v => (true, { s with extractRaw := v })
  | .setFilter (some f) => (true, { s with handle := { s.handle with filter := f } })
  | .setFilter none => (false, s)
  | .setMethod m => (true, { s with method := m })
  | .stopSniff => (true, { s with handle := { s.handle with brk := true } })

def Sniffer.cfgs (s : Sniffer) : List Cfg → Sniffer
  | [] => s
  | c :: cs => Sniffer.cfgs (s.cfg c).2 cs

/-- `BaseSniffer& operator=(BaseSniffer&& rhs)`: `swap(handle_, rhs.handle_); swap(mask_, rhs.mask_);
    swap(extract_raw_, rhs.extract_raw_); swap(pcap_sniffing_method_, rhs.pcap_sniffing_method_);`
    — returns (`*this`, `rhs`) after the call -/
def Sniffer.moveAssign (dst rhs : Sniffer) : Sniffer × Sniffer :=
  ({ handle := rhs.handle, extractRaw := rhs.extractRaw, method := rhs.method },
   { handle := dst.handle, extractRaw := dst.extractRaw, method := dst.method })

/-- `handle_ = 0` -/
def Handle.null : Handle := { dlt := 0, frames := [], err := false, filter := fun _ => true, brk := false }

/-- `BaseSniffer(BaseSniffer&& rhs) : handle_(0), mask_(), extract_raw_(false), pcap_sniffing_method_(pcap_loop)
    { *this = std::move(rhs); }` — returns (the new object, `rhs`) -/
def Sniffer.moveConstruct (rhs : Sniffer) : Sniffer × Sniffer :=
  Sniffer.moveAssign { handle := Handle.null, extractRaw := false, method := .loop } rhs

/-- the object and the ghost log -/
structure Traced where
  s : Sniffer
  log : List (Frame × Bool × (Frame → Bool))

/-- `next_packet()` with the ghost log extended by the frames this call moved past, tagged with the raw mode and
    the filter in force during the call -/
def Traced.nextPacket (t : Traced) : NPOut P × Traced :=
  let r := t.s.nextPacket parse
  let k := t.s.handle.frames.length - r.2.handle.frames.length
  (r.1, { s := r.2,
          log := t.log ++ (t.s.handle.frames.take k).map (fun f => (f, t.s.extractRaw, t.s.handle.filter)) })

/-- a user functor: given the packets it has seen in this call and the current one, the configuration calls it makes
    on the sniffer and how it ends -/
abbrev Functor (P : Type) := List (P × Timestamp) → P × Timestamp → List Cfg × CbOut

/-- `sniff_loop(function, max_packets)` (`catches` = the two catch clauses) and a range-for over the sniffer
    (`catches = []`, `.stop` = `break`):
    `for (it = begin(); it != end(); ++it) { try { if (!function(*it)) return; } catch (...) {}
     if (max_packets && --max_packets == 0) return; }` — `begin()` / `++it` call `next_packet()`, a null packet makes
    `it == end()`.  The configuration calls of the functor take effect before the next `next_packet()`. -/
def Traced.loop (catches : List String) (cb : Functor P) :
    Nat → Traced → Nat → List (P × Timestamp) → LoopEnd × List (P × Timestamp) × Traced
  | 0, t, _, acc => (.exhausted, acc, t)
  | fuel + 1, t, maxPackets, acc =>
    match t.nextPacket parse with
    | (.null, t') => (.exhausted, acc, t')
    | (.escape e, t') => (.escape e, acc, t')
    | (.fault i n, t') => (.fault i n, acc, t')
    | (.pkt p ts, t') =>
      let acc' := acc ++ [(p, ts)]
      let r := cb acc (p, ts)
      let t'' : Traced := { t' with s := t'.s.cfgs r.1 }
      let afterCall : Unit → LoopEnd × List (P × Timestamp) × Traced := fun _ =>
        if maxPackets ≠ 0 ∧ wrap32 (maxPackets + 4294967295) = 0 then (.maxReached, acc', t'')
        else Traced.loop catches cb fuel t''
          (if maxPackets ≠ 0 then wrap32 (maxPackets + 4294967295) else 0) acc'
      match r.2 with
      | .stop => (.stopped, acc', t'')
      | .continue_ => afterCall ()
      | .throw e => if caughtBy catches e then afterCall () else (.cbEscape e, acc', t'')

/-- the public calls -/
inductive Call (P : Type) where
  | nextPacket
  | sniffLoop (cb : Functor P) (maxPackets : Nat)      -- `sniff_loop(cb, max_packets)`, `max_packets : uint32_t`
  | rangeFor (cb : Functor P)                          -- `for (auto& p : sniffer)` / explicit `begin()`, `++`, `end()`
  | cfg (c : Cfg)
  | moveConstruct                                      -- `FileSniffer n(std::move(s));` — the session goes on with `n`
  | moveAssignInto (target : Sniffer)                  -- `target = std::move(s);` — the session goes on with `target`
  | linkType                                           -- `link_type()`

/-- what a call hands back -/
inductive Ret (P : Type) where
  | packet (o : NPOut P)
  | loop (e : LoopEnd) (pkts : List (P × Timestamp))
  | flag (b : Bool)                                    -- `set_filter`'s result / a `void` call returned
  | linkType (dlt : Nat)

/-- the packets a call delivered to the user -/
def Ret.pkts : Ret P → List (P × Timestamp)
  | .packet (.pkt p ts) => [(p, ts)]
  | .packet _ => []
  | .loop _ ps => ps
  | .flag _ => []
  | .linkType _ => []

def Traced.call (t : Traced) : Call P → Ret P × Traced
  | .nextPacket => let r := t.nextPacket parse; (.packet r.1, r.2)
  | .sniffLoop cb mx =>
    let r := Traced.loop parse sniffLoopCatches cb (t.s.handle.frames.length + 1) t mx []
    (.loop r.1 r.2.1, r.2.2)
  | .rangeFor cb =>
    let r := Traced.loop parse [] cb (t.s.handle.frames.length + 1) t 0 []
    (.loop r.1 r.2.1, r.2.2)
  | .cfg c => let r := t.s.cfg c; (.flag r.1, { t with s := r.2 })
  | .moveConstruct => (.flag true, { t with s := (Sniffer.moveConstruct t.s).1 })
  | .moveAssignInto target => (.flag true, { t with s := (Sniffer.moveAssign target t.s).1 })
  | .linkType => (.linkType t.s.handle.dlt, t)

/-- any sequence of calls on one live sniffer -/
def Traced.run (t : Traced) : List (Call P) → List (Ret P) × Traced
  | [] => ([], t)
  | c :: cs =>
    let r := t.call parse c
    let rs := Traced.run r.2 cs
    (r.1 :: rs.1, rs.2)

/-- all packets handed to the user during a session, in order -/
def delivered (rs : List (Ret P)) : List (P × Timestamp) := rs.flatMap Ret.pkts

end
end Tins.Capture
