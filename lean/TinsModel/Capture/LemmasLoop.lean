import TinsModel.Capture.Spec
/-
  Lemmas about the capture loop: the code-shaped `nextPacketLoop` / `sniffAll` / `sniffLoop` refine list-level
  specifications, for every handler that behaves like a pure per-frame classification.
-/
namespace Tins.Capture
open Tins Tins.Gen.Capture

/-! ### facts about the generated constants (re-checked whenever the source changes) -/

theorem isErrorRet_neg_one : isErrorRet (-1) = true := by decide
theorem isErrorRet_zero : isErrorRet 0 = false := by decide
theorem isErrorRet_okRet (m : Method) : isErrorRet m.okRet = false := by cases m <;> decide

/-! ### per-frame classification -/

/-- what a frame amounts to for the loop -/
inductive FOut (P : Type) where
  | pkt (p : P)
  | skip
  | escape (e : Exc)

/-- the handler result a classification stands for -/
def byOutcome {P : Type} (f : Frame) : FOut P → HOut P
  | .pkt p => .ret ⟨f.tv, some p, true⟩
  | .skip => .ret ⟨f.tv, none, true⟩
  | .escape e => .escape e

/-- `handler` acts on frame `f` as the classification `o` says, whenever it is entered with `data.pdu == 0`
    (which the loop of `next_packet` guarantees) -/
def Behaves {P : Type} (handler : Frame → SniffData P → HOut P) (outcome : Frame → FOut P) (f : Frame) : Prop :=
  ∀ d : SniffData P, d.pdu = none → handler f d = byOutcome f (outcome f)

section
variable {P : Type}

/-- list-level `next_packet`: first accepted frame that is a packet, or the first escape, or the end -/
def specNext (filter : Frame → Bool) (outcome : Frame → FOut P) (err : Bool) : List Frame → NPOut P × Source
  | [] => (.null, ⟨[], false⟩)
  | f :: fs =>
    if filter f then
      match outcome f with
      | .pkt p => (.pkt p f.ts, ⟨fs, err⟩)
      | .skip => specNext filter outcome err fs
      | .escape e => (.escape e, ⟨fs, err⟩)
    else specNext filter outcome err fs

theorem sniffOnce_reject (m : Method) (filter : Frame → Bool) (h : Frame → SniffData P → HOut P) (err : Bool)
    (f : Frame) (fs : List Frame) (d : SniffData P) (hf : filter f = false) :
    sniffOnce m filter h err (f :: fs) d = sniffOnce m filter h err fs d := by
  simp [sniffOnce, hf]

theorem nextPacketLoop_reject (m : Method) (filter : Frame → Bool) (h : Frame → SniffData P → HOut P) (err : Bool)
    (f : Frame) (fs : List Frame) (d : SniffData P) (k : Nat) (hf : filter f = false)
    (hp : d.pdu = none) (hpr : d.processed = true) :
    nextPacketLoop m filter h (k + 1) ⟨f :: fs, err⟩ d = nextPacketLoop m filter h (k + 1) ⟨fs, err⟩ d := by
  simp only [nextPacketLoop, sniffOnce_reject m filter h err f fs _ hf, hp, hpr, Option.isNone_none, Bool.and_self,
    if_true]

/-- the loop of `next_packet` computes `specNext` (for every sniffing method, any amount of spare fuel) -/
theorem nextPacketLoop_spec (m : Method) (filter : Frame → Bool) (h : Frame → SniffData P → HOut P)
    (outcome : Frame → FOut P) (err : Bool) :
    ∀ (frames : List Frame) (fuel : Nat) (d : SniffData P),
      (∀ f ∈ frames, Behaves h outcome f) → d.pdu = none → d.processed = true → frames.length + 2 ≤ fuel →
      nextPacketLoop m filter h fuel ⟨frames, err⟩ d = specNext filter outcome err frames := by
  intro frames
  induction frames with
  | nil =>
    intro fuel d _ hp hpr hfuel
    obtain ⟨k, rfl⟩ : ∃ k, fuel = k + 2 := ⟨fuel - 2, by simp at hfuel; omega⟩
    cases err with
    | true => simp [nextPacketLoop, sniffOnce, specNext, hp, hpr, isErrorRet_neg_one]
    | false => simp [nextPacketLoop, sniffOnce, specNext, hp, hpr, isErrorRet_zero]
  | cons f fs ih =>
    intro fuel d hb hp hpr hfuel
    obtain ⟨k, rfl⟩ : ∃ k, fuel = k + 1 := ⟨fuel - 1, by simp at hfuel; omega⟩
    have hk : fs.length + 2 ≤ k := by simp at hfuel; omega
    have hbf := hb f (by simp)
    have hbfs : ∀ g ∈ fs, Behaves h outcome g := fun g hg => hb g (by simp [hg])
    cases hf : filter f with
    | false =>
      rw [nextPacketLoop_reject m filter h err f fs d k hf hp hpr]
      rw [ih (k + 1) d hbfs hp hpr (by omega)]
      simp [specNext, hf]
    | true =>
      obtain ⟨tv, pdu, pr⟩ := d
      simp only at hp hpr
      subst hp hpr
      have hcall := hbf ⟨tv, none, false⟩ rfl
      obtain ⟨k', rfl⟩ : ∃ k', k = k' + 1 := ⟨k - 1, by omega⟩
      cases ho : outcome f with
      | pkt p =>
        rw [ho] at hcall
        simp [nextPacketLoop, sniffOnce, specNext, hf, hcall, ho, byOutcome, isErrorRet_okRet, Frame.ts]
      | skip =>
        rw [ho] at hcall
        have := ih (k' + 1) ⟨f.tv, none, true⟩ hbfs rfl rfl (by omega)
        simp [nextPacketLoop, sniffOnce, specNext, hf, hcall, ho, byOutcome, isErrorRet_okRet] at this ⊢
        exact this
      | escape e =>
        rw [ho] at hcall
        simp [nextPacketLoop, sniffOnce, specNext, hf, hcall, ho, byOutcome]

theorem nextPacket_spec (m : Method) (filter : Frame → Bool) (h : Frame → SniffData P → HOut P)
    (outcome : Frame → FOut P) (s : Source) (hb : ∀ f ∈ s.frames, Behaves h outcome f) :
    nextPacket m filter h s = specNext filter outcome s.err s.frames := by
  cases s with
  | mk frames err => exact nextPacketLoop_spec m filter h outcome err frames _ _ hb rfl rfl (Nat.le_refl _)

/-- list-level "drain the file": the packets in order and how the iteration ends -/
def specAll (filter : Frame → Bool) (outcome : Frame → FOut P) : List Frame → List (P × Timestamp) × End
  | [] => ([], .eof)
  | f :: fs =>
    if filter f then
      match outcome f with
      | .pkt p => ((p, f.ts) :: (specAll filter outcome fs).1, (specAll filter outcome fs).2)
      | .skip => specAll filter outcome fs
      | .escape e => ([], .escape e)
    else specAll filter outcome fs

theorem specNext_mem (filter : Frame → Bool) (outcome : Frame → FOut P) (err : Bool) :
    ∀ (frames : List Frame), ∀ g ∈ (specNext filter outcome err frames).2.frames, g ∈ frames := by
  intro frames
  induction frames with
  | nil => simp [specNext]
  | cons f fs ih =>
    intro g hg
    simp only [specNext] at hg
    split at hg
    · split at hg
      · simp at hg; simp [hg]
      · simp [ih g hg]
      · simp at hg; simp [hg]
    · simp [ih g hg]

theorem specNext_length (filter : Frame → Bool) (outcome : Frame → FOut P) (err : Bool) :
    ∀ (frames : List Frame), (specNext filter outcome err frames).2.frames.length ≤ frames.length := by
  intro frames
  induction frames with
  | nil => simp [specNext]
  | cons f fs ih =>
    simp only [specNext]
    split
    · split
      · simp
      · simp; omega
      · simp
    · simp; omega

theorem specNext_length_pkt (filter : Frame → Bool) (outcome : Frame → FOut P) (err : Bool) :
    ∀ (frames : List Frame) (p : P) (ts : Timestamp), (specNext filter outcome err frames).1 = .pkt p ts →
      (specNext filter outcome err frames).2.frames.length < frames.length := by
  intro frames
  induction frames with
  | nil => simp [specNext]
  | cons f fs ih =>
    intro p ts
    simp only [specNext]
    split
    · split
      · simp
      · intro h; have := ih p ts h; simp; omega
      · simp
    · intro h; have := ih p ts h; simp; omega

theorem specNext_null_frames (filter : Frame → Bool) (outcome : Frame → FOut P) (err : Bool) :
    ∀ (frames : List Frame), (specNext filter outcome err frames).1 = .null →
      (specNext filter outcome err frames).2.frames = [] := by
  intro frames
  induction frames with
  | nil => simp [specNext]
  | cons f fs ih =>
    simp only [specNext]
    split
    · split
      · simp
      · exact ih
      · simp
    · exact ih

theorem specNext_no_fault (filter : Frame → Bool) (outcome : Frame → FOut P) (err : Bool) :
    ∀ (frames : List Frame) (i n : Nat), (specNext filter outcome err frames).1 ≠ .fault i n := by
  intro frames
  induction frames with
  | nil => simp [specNext]
  | cons f fs ih =>
    intro i n
    simp only [specNext]
    split
    · split
      · simp
      · exact ih i n
      · simp
    · exact ih i n

/-- `specAll` unfolds along `specNext` -/
theorem specAll_step (filter : Frame → Bool) (outcome : Frame → FOut P) (err : Bool) :
    ∀ (frames : List Frame),
      specAll filter outcome frames =
        match specNext filter outcome err frames with
        | (.pkt p ts, s') => ((p, ts) :: (specAll filter outcome s'.frames).1, (specAll filter outcome s'.frames).2)
        | (.null, _) => ([], .eof)
        | (.escape e, _) => ([], .escape e)
        | (.fault _ _, _) => ([], .eof) := by
  intro frames
  induction frames with
  | nil => simp [specAll, specNext]
  | cons f fs ih =>
    simp only [specAll, specNext]
    split
    · split <;> simp_all
    · exact ih

theorem specAll_no_fault (filter : Frame → Bool) (outcome : Frame → FOut P) :
    ∀ (frames : List Frame) (i n : Nat), (specAll filter outcome frames).2 ≠ .fault i n := by
  intro frames
  induction frames with
  | nil => simp [specAll]
  | cons f fs ih =>
    intro i n
    simp only [specAll]
    split
    · split
      · exact ih i n
      · exact ih i n
      · simp
    · exact ih i n

/-- draining with `next_packet` computes `specAll` -/
theorem sniffAll_spec (m : Method) (filter : Frame → Bool) (h : Frame → SniffData P → HOut P)
    (outcome : Frame → FOut P) :
    ∀ (fuel : Nat) (frames : List Frame) (err : Bool),
      (∀ f ∈ frames, Behaves h outcome f) → frames.length + 1 ≤ fuel →
      (sniffAll m filter h fuel ⟨frames, err⟩).1 = (specAll filter outcome frames).1 ∧
      (sniffAll m filter h fuel ⟨frames, err⟩).2.1 = (specAll filter outcome frames).2 := by
  intro fuel
  induction fuel with
  | zero => intro frames err _ h; omega
  | succ k ih =>
    intro frames err hb hfuel
    have hnp := nextPacket_spec m filter h outcome ⟨frames, err⟩ hb
    have hstep := specAll_step filter outcome err frames
    have hmem := specNext_mem filter outcome err frames
    have hlen := specNext_length_pkt filter outcome err frames
    simp only [sniffAll, hnp]
    generalize hr : specNext filter outcome err frames = r at *
    obtain ⟨o, s'⟩ := r
    cases o with
    | pkt p ts =>
      have hl := hlen p ts rfl
      have := ih s'.frames s'.err (fun g hg => hb g (hmem g hg)) (by simp at hl ⊢; omega)
      simp only [hstep]
      exact ⟨by rw [this.1], by rw [this.2]⟩
    | null => simp [hstep]
    | escape e => simp [hstep]
    | fault i n => exact absurd (by rw [hr]) (specNext_no_fault filter outcome err frames i n)

/-- without escaping frames, draining yields the filtered, parsed frames in order and a clean end -/
theorem specAll_filterMap (filter : Frame → Bool) (outcome : Frame → FOut P) :
    ∀ (frames : List Frame), (∀ f ∈ frames, filter f = true → ∀ e, outcome f ≠ .escape e) →
      specAll filter outcome frames =
        ((frames.filter filter).filterMap (fun f => match outcome f with | .pkt p => some (p, f.ts) | _ => none),
         .eof) := by
  intro frames
  induction frames with
  | nil => simp [specAll]
  | cons f fs ih =>
    intro hne
    have ih' := ih (fun g hg => hne g (by simp [hg]))
    simp only [specAll]
    cases hf : filter f with
    | false => simp [hf, ih', List.filter_cons]
    | true =>
      cases ho : outcome f with
      | pkt p => simp [hf, ho, ih', List.filter_cons]
      | skip => simp [hf, ho, ih', List.filter_cons]
      | escape e => exact absurd ho (hne f (by simp) hf e)

end
end Tins.Capture

namespace Tins.Capture
section
variable {P : Type}

/-- the frame makes an exception leave its handler -/
def FOut.isEscape : FOut P → Bool
  | .escape _ => true
  | _ => false

/-- the frame does not end the iteration with an exception: the filter rejects it, or its handler returns -/
def passes (filter : Frame → Bool) (outcome : Frame → FOut P) (f : Frame) : Bool :=
  !(filter f && (outcome f).isEscape)

/-- up to the first accepted frame whose handler lets an exception out, draining behaves as if the file ended
    there; from that frame on nothing is delivered -/
theorem specAll_takeWhile (filter : Frame → Bool) (outcome : Frame → FOut P) :
    ∀ (frames : List Frame),
      (specAll filter outcome frames).1 = (specAll filter outcome (frames.takeWhile (passes filter outcome))).1 ∧
      (specAll filter outcome (frames.takeWhile (passes filter outcome))).2 = .eof ∧
      ((specAll filter outcome frames).2 = .eof ↔ ∀ f ∈ frames, passes filter outcome f = true) := by
  intro frames
  induction frames with
  | nil => simp [specAll]
  | cons f fs ih =>
    obtain ⟨ih1, ih2, ih3⟩ := ih
    cases hf : filter f with
    | false =>
      have hp : passes filter outcome f = true := by simp [passes, hf]
      simp only [List.takeWhile_cons, hp, if_true, specAll, hf, List.mem_cons, forall_eq_or_imp]
      exact ⟨ih1, ih2, by simp [ih3]⟩
    | true =>
      cases ho : outcome f with
      | pkt p =>
        have hp : passes filter outcome f = true := by simp [passes, ho, FOut.isEscape]
        simp only [List.takeWhile_cons, hp, if_true, specAll, hf, ho, List.mem_cons, forall_eq_or_imp]
        exact ⟨by rw [ih1], ih2, by simp [ih3]⟩
      | skip =>
        have hp : passes filter outcome f = true := by simp [passes, ho, FOut.isEscape]
        simp only [List.takeWhile_cons, hp, if_true, specAll, hf, ho, List.mem_cons, forall_eq_or_imp]
        exact ⟨ih1, ih2, by simp [ih3]⟩
      | escape e =>
        have hp : passes filter outcome f = false := by simp [passes, hf, ho, FOut.isEscape]
        simp [List.takeWhile_cons, hp, specAll, hf, ho]

end
end Tins.Capture
