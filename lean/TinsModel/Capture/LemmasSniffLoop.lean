import TinsModel.Capture.LemmasLoop
/-
  `sniff_loop` / range-for over a sniffer: the functor sees a prefix of the packets the file holds, in order, and
  nothing beyond that prefix is consumed.
-/
namespace Tins.Capture
open Tins Tins.Gen.Capture

section
variable {P : Type}

theorem dec32 (n : Nat) (h0 : n ≠ 0) (hlt : n < 4294967296) : wrap32 (n + 4294967295) = n - 1 := by
  unfold wrap32; omega

theorem sniffLoop_spec (m : Method) (filter : Frame → Bool) (h : Frame → SniffData P → HOut P)
    (outcome : Frame → FOut P) (catches : List String) (cb : List (P × Timestamp) → P × Timestamp → CbOut) :
    ∀ (fuel : Nat) (frames : List Frame) (err : Bool) (maxPackets : Nat) (acc : List (P × Timestamp)),
      (∀ f ∈ frames, Behaves h outcome f) → frames.length + 1 ≤ fuel → maxPackets < 4294967296 →
      (specAll filter outcome frames).2 = .eof →
      let r := sniffLoop m filter h catches cb fuel ⟨frames, err⟩ maxPackets acc
      let all := (specAll filter outcome frames).1
      let k := deliveredCount catches cb all maxPackets acc
      r.2.1 = acc ++ all.take k ∧
      (specAll filter outcome r.2.2.frames).1 = all.drop k ∧
      (specAll filter outcome r.2.2.frames).2 = .eof ∧
      (∀ g ∈ r.2.2.frames, g ∈ frames) ∧
      (∀ e, r.1 ≠ .escape e) ∧ (∀ i n, r.1 ≠ .fault i n) ∧ r.2.2.frames.length ≤ frames.length := by
  intro fuel
  induction fuel with
  | zero => intro frames err mx acc _ hf; omega
  | succ k ih =>
    intro frames err mx acc hb hfuel hmx hclean
    have hnp := nextPacket_spec m filter h outcome ⟨frames, err⟩ hb
    have hstep := specAll_step filter outcome err frames
    have hmem := specNext_mem filter outcome err frames
    have hlen := specNext_length_pkt filter outcome err frames
    have hnf := specNext_no_fault filter outcome err frames
    simp only [sniffLoop, hnp]
    generalize hr : specNext filter outcome err frames = r at *
    obtain ⟨o, ⟨sf, se⟩⟩ := r
    cases o with
    | null =>
      simp only [hstep]
      have hsf : sf = [] := by
        have := specNext_null_frames filter outcome err frames
        rw [hr] at this
        exact this rfl
      simp [deliveredCount, hsf, specAll]
    | escape e =>
      rw [hstep] at hclean
      simp at hclean
    | fault i n => exact absurd rfl (hnf i n)
    | pkt p ts =>
      have hl : sf.length < frames.length := hlen p ts rfl
      have hl' : sf.length + 1 ≤ k := by omega
      have hb' : ∀ g ∈ sf, Behaves h outcome g := fun g hg => hb g (hmem g hg)
      have hclean' : (specAll filter outcome sf).2 = .eof := by
        rw [hstep] at hclean; exact hclean
      have hall : (specAll filter outcome frames).1 = (p, ts) :: (specAll filter outcome sf).1 := by
        rw [hstep]
      simp only [hall, deliveredCount]
      -- the continuation shared by `continue_` and a caught exception
      have hcont :
          let r := (if mx ≠ 0 ∧ wrap32 (mx + 4294967295) = 0 then (LoopEnd.maxReached, acc ++ [(p, ts)], ⟨sf, se⟩)
            else sniffLoop m filter h catches cb k ⟨sf, se⟩ (if mx ≠ 0 then wrap32 (mx + 4294967295) else 0)
              (acc ++ [(p, ts)]))
          let k' := (if mx = 1 then 1
            else 1 + deliveredCount catches cb (specAll filter outcome sf).1 (mx - 1) (acc ++ [(p, ts)]))
          r.2.1 = acc ++ ((p, ts) :: (specAll filter outcome sf).1).take k' ∧
          (specAll filter outcome r.2.2.frames).1 = ((p, ts) :: (specAll filter outcome sf).1).drop k' ∧
          (specAll filter outcome r.2.2.frames).2 = .eof ∧
          (∀ g ∈ r.2.2.frames, g ∈ frames) ∧
          (∀ e, r.1 ≠ .escape e) ∧ (∀ i n, r.1 ≠ .fault i n) ∧ r.2.2.frames.length ≤ frames.length := by
        by_cases h1 : mx = 1
        · subst h1
          simp [wrap32, hclean']
          exact ⟨hmem, by omega⟩
        · have hcond : ¬ (mx ≠ 0 ∧ wrap32 (mx + 4294967295) = 0) := by
            intro hc
            have := dec32 mx hc.1 hmx
            omega
          have hmx' : (if mx ≠ 0 then wrap32 (mx + 4294967295) else 0) = mx - 1 := by
            by_cases h0 : mx = 0
            · simp [h0]
            · simp [h0, dec32 mx h0 hmx]
          simp only [hcond, if_false, h1, hmx']
          have := ih sf se (mx - 1) (acc ++ [(p, ts)]) hb' hl' (by omega) hclean'
          obtain ⟨a1, a2, a3, a4, a5, a6, a7⟩ := this
          refine ⟨?_, ?_, a3, fun g hg => hmem g (a4 g hg), a5, a6, by omega⟩
          · rw [a1, Nat.add_comm 1, List.take_succ_cons]; simp
          · rw [a2, Nat.add_comm 1, List.drop_succ_cons]
      cases hcb : cb acc (p, ts) with
      | stop => simp [hclean']; exact ⟨hmem, by omega⟩
      | continue_ => exact hcont
      | throw e =>
        by_cases hc : caughtBy catches e = true
        · simp only [hc, if_true]; exact hcont
        · simp [hc, hclean']; exact ⟨hmem, by omega⟩

end
end Tins.Capture
