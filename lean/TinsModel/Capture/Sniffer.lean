import TinsModel.Capture.Pcap
/-
  Code-shaped model of the capture loop (src/sniffer.cpp, include/tins/sniffer.h).

  * The dissectors are NOT modelled here: `parse cls bytes` is a parameter (the constructor `cls(bytes, caplen)`
    either yields a PDU or throws).  The loop logic around them is what C17 is about.
  * libpcap is an abstract frame source: `sniffOnce` is one call `method(handle, 1, handler, user)`.
  * Raw reads of the frame bytes (`ptr[12]`, `header->version`) go through `rd`, which reports an out-of-bounds
    read as a fault, so "the handlers never read past caplen" is a theorem about this model.
-/
namespace Tins.Capture
open Tins Tins.Gen.Capture

/-- exception kinds that matter to the loop -/
inductive Exc where
  | malformedPacket
  | pduNotFound
  | other (name : String)
deriving Repr, DecidableEq

def Exc.ofName (s : String) : Exc :=
  if s = "malformed_packet" then .malformedPacket
  else if s = "pdu_not_found" then .pduNotFound
  else .other s

def Exc.name : Exc → String
  | .malformedPacket => "malformed_packet"
  | .pduNotFound => "pdu_not_found"
  | .other s => s

/-- `catch (T&)` clauses as a predicate on the thrown exception -/
def caughtBy (clauses : List String) (e : Exc) : Bool := (clauses.map Exc.ofName).contains e

/-- outcome of running a dissector constructor on a frame -/
inductive POut (P : Type) where
  | ok (p : P)
  | throw (e : Exc)
deriving Repr

/-- `struct sniff_data` -/
structure SniffData (P : Type) where
  tv : Timeval
  pdu : Option P
  processed : Bool

/-- how a `pcap_handler` invocation ends: it returns, an exception unwinds out of it (through libpcap's C frames),
    or it reads frame byte `idx` although only `len` bytes were captured -/
inductive HOut (P : Type) where
  | ret (d : SniffData P)
  | escape (e : Exc)
  | fault (idx len : Nat)

/-- raw read `bytes[i]`; `none` = outside the captured bytes -/
def rd (b : Bytes) (i : Nat) : Option UInt8 := b[i]?

section Handlers
variable {P : Type} (parse : String → Bytes → POut P)

/-- `safe_alloc<T>(bytes, len)`: `try { return new T(bytes, len); } catch (malformed_packet&) { return 0; }` -/
def safeAlloc (cls : String) (bytes : Bytes) (len : Nat) : Except Exc (Option P) :=
  match parse cls (bytes.take len) with
  | .ok p => .ok (some p)
  | .throw e => if caughtBy safeAllocCatches e then .ok none else .error e

/-- `data->pdu = safe_alloc<T>(bytes, h->caplen);` -/
def assignAlloc (cls : String) (h : Frame) (d : SniffData P) : HOut P :=
  match safeAlloc parse cls h.data h.caplen with
  | .ok r => .ret { d with pdu := r }
  | .error e => .escape e

/-- `sniff_loop_handler<T>` -/
def handlerGeneric (cls : String) (h : Frame) (d : SniffData P) : HOut P :=
  let d := { d with processed := true, tv := h.tv }
  assignAlloc parse cls h d

/-- `Internals::is_dot3(ptr, sz)`: `sz >= 13 && ptr[12] < 8`; `none` = the read is out of bounds -/
def isDot3 (bytes : Bytes) (sz : Nat) : Option Bool :=
  if sz ≥ 13 then (rd bytes 12).map (fun b => decide (b.toNat < 8)) else some false

/-- `sniff_loop_eth_handler` -/
def handlerEth (h : Frame) (d : SniffData P) : HOut P :=
  let d := { d with processed := true, tv := h.tv }
  match isDot3 h.data h.caplen with
  | none => .fault 12 h.data.length
  | some true => assignAlloc parse "Dot3" h d
  | some false => assignAlloc parse "EthernetII" h d

/-- `sniff_loop_raw_handler`: the version nibble of the first byte selects IP / IPv6; nothing is read from an
    empty frame -/
def handlerRaw (h : Frame) (d : SniffData P) : HOut P :=
  let d := { d with processed := true, tv := h.tv }
  if h.caplen < 1 then .ret d
  else match rd h.data 0 with
    | none => .fault 0 h.data.length
    | some b0 =>
      if b0.toNat / 16 = 4 then assignAlloc parse "IP" h d
      else if b0.toNat / 16 = 6 then assignAlloc parse "IPv6" h d
      else .ret d

/-- `sniff_loop_dot11_handler`: `try { data->pdu = Dot11::from_bytes(bytes, h->caplen); } catch(malformed_packet&) {}` -/
def handlerDot11 (h : Frame) (d : SniffData P) : HOut P :=
  let d := { d with processed := true, tv := h.tv }
  match parse "Dot11" (h.data.take h.caplen) with
  | .ok p => .ret { d with pdu := some p }
  | .throw e => if caughtBy dot11Catches e then .ret d else .escape e

/-- the callback a `HandlerKind` of the generated dispatch table stands for (`none`: no callback is selected) -/
def runHandler : HandlerKind → Option (Frame → SniffData P → HOut P)
  | .generic cls => some (handlerGeneric parse cls)
  | .eth => some (handlerEth parse)
  | .raw => some (handlerRaw parse)
  | .dot11 => some (handlerDot11 parse)
  | .throws _ => none
  | .unknown _ => none

end Handlers

/-- table look-up standing for `switch (iface_type)` -/
def lookupDlt (dlt : Nat) : List (Nat × HandlerKind) → Option HandlerKind
  | [] => none
  | (k, h) :: rest => if k = dlt then some h else lookupDlt dlt rest

/-- handler selection at the top of `next_packet`; `.error name` = `next_packet` itself throws `name` -/
def selectHandler (extractRaw : Bool) (dlt : Nat) : Except String HandlerKind :=
  if extractRaw then .ok extractRawHandler
  else match lookupDlt dlt dispatchTable with
    | some (.throws e) => .error e
    | some h => .ok h
    | none => .error defaultThrows

/-- the table entry selects a real per-frame callback -/
def isCallback : HandlerKind → Bool
  | .generic _ => true
  | .eth => true
  | .raw => true
  | .dot11 => true
  | .throws _ => false
  | .unknown _ => false

/-- `next_packet` finds a callback for this link type (it does not throw `unknown_link_type`) -/
def dispatches (dlt : Nat) : Bool :=
  match selectHandler false dlt with
  | .ok h => isCallback h
  | .error _ => false

/-- the sniffing method: value returned after the handler ran on one frame (`pcap_loop` returns 0 when its count
    runs out, `pcap_dispatch` and the harness's exact-copy method return the number of frames processed) -/
inductive Method where
  | loop | dispatch | exact
deriving Repr, DecidableEq

def Method.okRet : Method → Int
  | .loop => 0
  | .dispatch => 1
  | .exact => 1

/-- remaining part of an opened savefile plus the installed filter -/
structure Source where
  frames : List Frame
  err : Bool

/-- the comparison `next_packet` applies to the sniffing method's result (operator and constant from the source) -/
def isErrorRet (r : Int) : Bool :=
  match errorTest.1 with
  | .lt => decide (r < errorTest.2)
  | .le => decide (r ≤ errorTest.2)
  | .eq => decide (r = errorTest.2)
  | .ne => decide (r ≠ errorTest.2)
  | .gt => decide (r > errorTest.2)
  | .ge => decide (r ≥ errorTest.2)
  | .unknown => false

section Loop
variable {P : Type}

/-- one call `pcap_sniffing_method_(handle_, 1, handler, &data)` on a savefile: libpcap skips the frames the
    installed filter rejects, runs the handler on the first accepted frame and returns `okRet`; at the end of the
    file it returns 0 without calling the handler, after a broken record -1 (once; the end is then sticky). -/
def sniffOnce (m : Method) (filter : Frame → Bool) (handler : Frame → SniffData P → HOut P) (err : Bool) :
    List Frame → SniffData P → Int × HOut P × Source
  | [], d => (if err then -1 else 0, .ret d, ⟨[], false⟩)
  | f :: fs, d =>
    if filter f then (m.okRet, handler f d, ⟨fs, err⟩)
    else sniffOnce m filter handler err fs d

/-- what `next_packet` hands back -/
inductive NPOut (P : Type) where
  | pkt (p : P) (ts : Timestamp)     -- `PtrPacket(data.pdu, data.tv)` with a PDU
  | null                             -- a `PtrPacket` without PDU (end of file or error)
  | escape (e : Exc)                 -- an exception left a handler and unwound through `next_packet`
  | fault (idx len : Nat)            -- a handler read outside the captured bytes

/-- the `while (data.pdu == 0 && data.packet_processed)` loop of `BaseSniffer::next_packet` -/
def nextPacketLoop (m : Method) (filter : Frame → Bool) (handler : Frame → SniffData P → HOut P) :
    Nat → Source → SniffData P → NPOut P × Source
  | 0, s, _ => (.null, s)
  | fuel + 1, s, d =>
    if d.pdu.isNone && d.processed then
      let d := { d with processed := false }
      match sniffOnce m filter handler s.err s.frames d with
      | (r, .ret d', s') =>
        if isErrorRet r then (.null, s')                      -- `return PtrPacket(0, Timestamp());`
        else nextPacketLoop m filter handler fuel s' d'
      | (_, .escape e, s') => (.escape e, s')
      | (_, .fault i n, s') => (.fault i n, s')
    else
      match d.pdu with
      | some p => (.pkt p (Timestamp.ofTimeval d.tv), s)      -- `return PtrPacket(data.pdu, data.tv);`
      | none => (.null, s)

/-- `sniff_data data;` -/
def SniffData.init : SniffData P := { tv := ⟨0, 0⟩, pdu := none, processed := true }

/-- `BaseSniffer::next_packet()` once the handler is selected -/
def nextPacket (m : Method) (filter : Frame → Bool) (handler : Frame → SniffData P → HOut P) (s : Source) :
    NPOut P × Source :=
  nextPacketLoop m filter handler (s.frames.length + 2) s SniffData.init

/-- calling `next_packet()` until it returns no PDU (the harness's `drain`, the simplest consumer) -/
inductive End where
  | eof                              -- a null packet ended the iteration
  | escape (e : Exc)
  | fault (idx len : Nat)
deriving Repr, DecidableEq

def sniffAll (m : Method) (filter : Frame → Bool) (handler : Frame → SniffData P → HOut P) :
    Nat → Source → List (P × Timestamp) × End × Source
  | 0, s => ([], .eof, s)
  | fuel + 1, s =>
    match nextPacket m filter handler s with
    | (.pkt p ts, s') =>
      let r := sniffAll m filter handler fuel s'
      ((p, ts) :: r.1, r.2.1, r.2.2)
    | (.null, s') => ([], .eof, s')
    | (.escape e, s') => ([], .escape e, s')
    | (.fault i n, s') => ([], .fault i n, s')

/-- result of the user's functor on one packet -/
inductive CbOut where
  | continue_                        -- returned true
  | stop                             -- returned false
  | throw (e : Exc)
deriving Repr, DecidableEq

/-- how `sniff_loop` / a range-for ends -/
inductive LoopEnd where
  | exhausted                        -- `it == end()`
  | stopped                          -- functor returned false / `break`
  | maxReached                       -- `max_packets` ran out
  | cbEscape (e : Exc)               -- an exception of the functor that `sniff_loop` does not catch
  | escape (e : Exc)                 -- an exception left a handler inside `next_packet`
  | fault (idx len : Nat)
deriving Repr, DecidableEq

/-- `BaseSniffer::sniff_loop(function, max_packets)`:
    `for (it = begin(); it != end(); ++it) { try { if (!function(*it)) return; } catch (malformed_packet&) {}
     catch (pdu_not_found&) {}  if (max_packets && --max_packets == 0) return; }`
    `begin()` and `++it` call `next_packet()` (SnifferIterator::advance); a null packet makes `it == end()`.
    `catches` = the catch clauses around the functor (`[]` for a plain range-for with `break`).
    `cb hist p` = the functor's result on `p` after having seen `hist`. -/
def sniffLoop (m : Method) (filter : Frame → Bool) (handler : Frame → SniffData P → HOut P)
    (catches : List String) (cb : List (P × Timestamp) → P × Timestamp → CbOut) :
    Nat → Source → Nat → List (P × Timestamp) → LoopEnd × List (P × Timestamp) × Source
  | 0, s, _, acc => (.exhausted, acc, s)
  | fuel + 1, s, maxPackets, acc =>
    match nextPacket m filter handler s with
    | (.null, s') => (.exhausted, acc, s')
    | (.escape e, s') => (.escape e, acc, s')
    | (.fault i n, s') => (.fault i n, acc, s')
    | (.pkt p ts, s') =>
      let acc' := acc ++ [(p, ts)]
      let afterCall : Unit → LoopEnd × List (P × Timestamp) × Source := fun _ =>
        if maxPackets ≠ 0 ∧ wrap32 (maxPackets + 4294967295) = 0 then (.maxReached, acc', s')
        else sniffLoop m filter handler catches cb fuel s'
          (if maxPackets ≠ 0 then wrap32 (maxPackets + 4294967295) else 0) acc'
      match cb acc (p, ts) with
      | .stop => (.stopped, acc', s')
      | .continue_ => afterCall ()
      | .throw e => if caughtBy catches e then afterCall () else (.cbEscape e, acc', s')

end Loop

end Tins.Capture
