import TinsModel.Threads.Spec
/- C18 — proofs about the abstract machine: a step of another thread is invisible, a thread's own step is
   determined by its view, hence every interleaving projects to the run-alone execution. -/
namespace Tins.Threads

variable {Loc σ : Type} [DecidableEq Loc]

theorem writeAll_notin (m : Mem Loc) (ps : List (Loc × Nat)) (l : Loc) (h : ∀ p ∈ ps, p.1 ≠ l) :
    writeAll m ps l = m l := by
  induction ps generalizing m with
  | nil => rfl
  | cons p ps ih =>
    obtain ⟨l', v⟩ := p
    simp only [writeAll]
    rw [ih]
    · have : l' ≠ l := h (l', v) (by simp)
      simp only [Mem.set]
      split
      · next e => exact absurd e.symm this
      · rfl
    · intro q hq; exact h q (by simp [hq])

theorem writeAll_congr (m m' : Mem Loc) (ps : List (Loc × Nat)) (l : Loc) (h : m l = m' l) :
    writeAll m ps l = writeAll m' ps l := by
  induction ps generalizing m m' with
  | nil => exact h
  | cons p ps ih =>
    obtain ⟨l', v⟩ := p
    simp only [writeAll]
    apply ih
    simp only [Mem.set]
    split <;> simp_all

omit [DecidableEq Loc] in
theorem map_congr_mem (m m' : Mem Loc) (ls : List Loc) (h : ∀ l ∈ ls, m l = m' l) : ls.map m = ls.map m' := by
  induction ls with
  | nil => rfl
  | cons x xs ih =>
    simp only [List.map_cons]
    rw [h x (by simp), ih (fun l hl => h l (by simp [hl]))]

theorem fst_mem_of_mem_zip {α β} {a : α} {b : β} {xs : List α} {ys : List β} (h : (a, b) ∈ xs.zip ys) : a ∈ xs :=
  (List.of_mem_zip h).1

section
variable {T : Nat → Thread Loc σ} {R W : Nat → Loc → Prop}

/-- a step of thread `j` changes nothing that a different thread `i` can observe -/
theorem step_other_invisible (hR : Respects T R W) (hD : DisjointFootprints R W) (c : Cfg Loc σ) {i j : Nat}
    (hij : j ≠ i) : SameView R W i (step T c j) c := by
  constructor
  · simp only [step]
    split
    · next e => exact absurd e.symm hij
    · rfl
  · intro l hl
    simp only [step, stepThread]
    cases hn : (T j).next (c.loc j) with
    | none => rfl
    | some a =>
      simp only
      apply writeAll_notin
      intro p hp
      obtain ⟨l', v⟩ := p
      have hw : l' ∈ a.wr := fst_mem_of_mem_zip hp
      have hW : W j l' := (hR j _ a hn).2 l' hw
      intro e
      have e' : l' = l := e
      subst e'
      have := hD j i hij l' hW
      rcases hl with h | h
      · exact this.1 h
      · exact this.2 h

/-- the step of thread `i` is a function of its view: from configurations it cannot tell apart it reaches
    configurations it cannot tell apart -/
theorem step_self_determined (hR : Respects T R W) (c c' : Cfg Loc σ) (i : Nat) (h : SameView R W i c c') :
    SameView R W i (step T c i) (step T c' i) := by
  obtain ⟨hloc, hmem⟩ := h
  simp only [SameView, step, stepThread, if_true]
  rw [← hloc]
  cases hn : (T i).next (c.loc i) with
  | none => exact ⟨rfl, hmem⟩
  | some a =>
    have hfp := hR i _ a hn
    have hrd : a.rd.map c.mem = a.rd.map c'.mem :=
      map_congr_mem _ _ _ (fun l hl => hmem l (Or.inl (hfp.1 l hl)))
    simp only
    rw [← hrd]
    refine ⟨rfl, ?_⟩
    intro l hl
    exact writeAll_congr _ _ _ _ (hmem l hl)

omit [DecidableEq Loc] in
theorem sameView_trans {i : Nat} {a b c : Cfg Loc σ} (h1 : SameView R W i a b) (h2 : SameView R W i b c) :
    SameView R W i a c :=
  ⟨h1.1.trans h2.1, fun l hl => (h1.2 l hl).trans (h2.2 l hl)⟩

omit [DecidableEq Loc] in
theorem sameView_refl (i : Nat) (c : Cfg Loc σ) : SameView R W i c c := ⟨rfl, fun _ _ => rfl⟩

omit [DecidableEq Loc] in
theorem sameView_symm {i : Nat} {a b : Cfg Loc σ} (h : SameView R W i a b) : SameView R W i b a :=
  ⟨h.1.symm, fun l hl => (h.2 l hl).symm⟩

/-- projection of an arbitrary interleaving onto thread `i`, from indistinguishable starting points -/
theorem run_projects (hR : Respects T R W) (hD : DisjointFootprints R W) (sched : List Nat) (i : Nat) :
    ∀ c c' : Cfg Loc σ, SameView R W i c c' →
      SameView R W i (run T c sched) (runAlone T c' i (sched.count i)) := by
  induction sched with
  | nil => intro c c' h; simpa [run, runAlone] using h
  | cons j sched ih =>
    intro c c' h
    by_cases hj : j = i
    · subst hj
      have hc : (j :: sched).count j = sched.count j + 1 := by simp
      rw [hc]
      simp only [run, runAlone, List.replicate_succ]
      exact ih _ _ (step_self_determined hR c c' j h)
    · have hc : (j :: sched).count i = sched.count i := by
        simp [hj]
      rw [hc]
      simp only [run]
      exact ih _ _ (sameView_trans (step_other_invisible hR hD c hj) h)

end

section
variable {T : Nat → Thread Loc σ} {R W : Nat → Loc → Prop}

omit [DecidableEq Loc] in
theorem respectsAt_of_respects (hR : Respects T R W) (c : Cfg Loc σ) : RespectsAt T R W c :=
  fun i a h => hR i _ a h

theorem step_other_invisible_at (hD : DisjointFootprints R W) (c : Cfg Loc σ) (hR : RespectsAt T R W c) {i j : Nat}
    (hij : j ≠ i) : SameView R W i (step T c j) c := by
  constructor
  · simp only [step]
    split
    · next e => exact absurd e.symm hij
    · rfl
  · intro l hl
    simp only [step, stepThread]
    cases hn : (T j).next (c.loc j) with
    | none => rfl
    | some a =>
      simp only
      apply writeAll_notin
      intro p hp
      obtain ⟨l', v⟩ := p
      have hW : W j l' := (hR j a hn).2 l' (fst_mem_of_mem_zip hp)
      intro e
      have e' : l' = l := e
      subst e'
      have := hD j i hij l' hW
      rcases hl with h | h
      · exact this.1 h
      · exact this.2 h

theorem step_self_determined_at (c c' : Cfg Loc σ) (hR : RespectsAt T R W c) (i : Nat) (h : SameView R W i c c') :
    SameView R W i (step T c i) (step T c' i) := by
  obtain ⟨hloc, hmem⟩ := h
  simp only [SameView, step, stepThread, if_true]
  rw [← hloc]
  cases hn : (T i).next (c.loc i) with
  | none => exact ⟨rfl, hmem⟩
  | some a =>
    have hfp := hR i a hn
    have hrd : a.rd.map c.mem = a.rd.map c'.mem :=
      map_congr_mem _ _ _ (fun l hl => hmem l (Or.inl (hfp.1 l hl)))
    simp only
    rw [← hrd]
    exact ⟨rfl, fun l hl => writeAll_congr _ _ _ _ (hmem l hl)⟩

/-- projection of an interleaving when footprints are only known to be respected in the configurations the
    interleaving actually passes through -/
theorem run_projects_at (hD : DisjointFootprints R W) (sched : List Nat) (i : Nat) :
    ∀ c c' : Cfg Loc σ, SameView R W i c c' →
      (∀ p, p <+: sched → RespectsAt T R W (run T c p)) →
      SameView R W i (run T c sched) (runAlone T c' i (sched.count i)) := by
  induction sched with
  | nil => intro c c' h _; simpa [run, runAlone] using h
  | cons j sched ih =>
    intro c c' h hR
    have hc0 : RespectsAt T R W c := hR [] (List.nil_prefix)
    have hrest : ∀ p, p <+: sched → RespectsAt T R W (run T (step T c j) p) := by
      intro p hp
      have := hR (j :: p) ((List.cons_prefix_cons).mpr ⟨rfl, hp⟩)
      simpa [run] using this
    by_cases hj : j = i
    · subst hj
      have hc : (j :: sched).count j = sched.count j + 1 := by simp
      rw [hc]
      simp only [run, runAlone, List.replicate_succ]
      exact ih _ _ (step_self_determined_at c c' hc0 j h) hrest
    · have hc : (j :: sched).count i = sched.count i := by simp [hj]
      rw [hc]
      simp only [run]
      exact ih _ _ (sameView_trans (step_other_invisible_at hD c hc0 hj) h) hrest

end

/-- enabled actions of different threads never conflict when footprints are respected and disjoint -/
theorem conflictAt_false {T : Nat → Thread Loc σ} {R W : Nat → Loc → Prop} (hR : Respects T R W)
    (hD : DisjointFootprints R W) (c : Cfg Loc σ) {i j : Nat} (hij : i ≠ j) : conflictAt T c i j = false := by
  unfold conflictAt
  cases hi : (T i).next (c.loc i) with
  | none => rfl
  | some a =>
    cases hj : (T j).next (c.loc j) with
    | none => rfl
    | some b =>
      have ha := hR i _ a hi
      have hb := hR j _ b hj
      simp only [Bool.or_eq_false_iff, List.any_eq_false, List.contains_iff_mem, Bool.or_eq_true]
      constructor
      · intro l hl hc
        have := hD i j hij l (ha.2 l hl)
        rcases hc with h | h
        · exact this.1 (hb.1 l h)
        · exact this.2 (hb.2 l h)
      · intro l hl hc
        have := hD j i (Ne.symm hij) l (hb.2 l hl)
        rcases hc with h | h
        · exact this.1 (ha.1 l h)
        · exact this.2 (ha.2 l h)

theorem count_seqSchedule (n : Nat → Nat) (k i : Nat) :
    (seqSchedule n k).count i = if i < k then n i else 0 := by
  induction k with
  | zero => simp [seqSchedule]
  | succ k ih =>
    simp only [seqSchedule, List.count_append, ih, List.count_replicate]
    by_cases h1 : i < k
    · have : ¬ (k = i) := by omega
      have h2 : i < k + 1 := by omega
      simp [h1, h2, this]
    · by_cases h3 : k = i
      · subst h3; simp
      · have h2 : ¬ i < k + 1 := by omega
        simp [h1, h2, h3]

end Tins.Threads
