/- C18 — abstract shared-memory machine (executable, core Lean only).

   Threads are deterministic programs over a private local state; one *action* is one atomic step that
   loads the locations `rd`, computes, and stores to the locations `wr`.  The footprint of an action is part of
   the action, so a step can depend on memory only through what it declares to read and can change memory only
   where it declares to write — exactly the information a happens-before race detector works with.

   A schedule is a list of thread indices; `run` executes it.  Nothing here knows about libtins; the instance
   used for libtins (private object cells + the static variables of `Gen.StaticVars`) is in `Threads/Policy.lean`. -/
namespace Tins.Threads

/-- shared memory over an arbitrary type of locations -/
abbrev Mem (Loc : Type) := Loc → Nat

/-- one atomic step: values at `rd` (in order) ↦ next local state and the values stored to `wr` (positionally;
    surplus values / locations are ignored, as `List.zip` does) -/
structure Action (Loc σ : Type) where
  rd : List Loc
  wr : List Loc
  k  : List Nat → σ × List Nat

/-- a thread program: the next action in a local state; `none` = the thread has finished -/
structure Thread (Loc σ : Type) where
  next : σ → Option (Action Loc σ)

variable {Loc σ : Type} [DecidableEq Loc]

def Mem.set (m : Mem Loc) (l : Loc) (v : Nat) : Mem Loc := fun x => if x = l then v else m x

/-- stores are performed left to right -/
def writeAll (m : Mem Loc) : List (Loc × Nat) → Mem Loc
  | [] => m
  | (l, v) :: ps => writeAll (m.set l v) ps

/-- one step of one thread on its local state and the shared memory (a finished thread stutters) -/
def stepThread (t : Thread Loc σ) (s : σ) (m : Mem Loc) : σ × Mem Loc :=
  match t.next s with
  | none => (s, m)
  | some a =>
    let r := a.k (a.rd.map m)
    (r.1, writeAll m (a.wr.zip r.2))

/-- configuration of the whole system: every thread's local state + the shared memory -/
structure Cfg (Loc σ : Type) where
  loc : Nat → σ
  mem : Mem Loc

/-- thread `i` takes one step -/
def step (T : Nat → Thread Loc σ) (c : Cfg Loc σ) (i : Nat) : Cfg Loc σ :=
  let r := stepThread (T i) (c.loc i) c.mem
  { loc := fun j => if j = i then r.1 else c.loc j, mem := r.2 }

/-- execute a schedule (an arbitrary interleaving: the list of thread indices in the order they step) -/
def run (T : Nat → Thread Loc σ) (c : Cfg Loc σ) : List Nat → Cfg Loc σ
  | [] => c
  | i :: sched => run T (step T c i) sched

/-- thread `i` runs alone for `n` steps -/
def runAlone (T : Nat → Thread Loc σ) (c : Cfg Loc σ) (i n : Nat) : Cfg Loc σ :=
  run T c (List.replicate n i)

/-- the two enabled actions of threads `i` and `j` conflict in configuration `c`: one writes a location the other
    reads or writes (what a race detector reports when the two steps are not ordered by synchronisation) -/
def conflictAt (T : Nat → Thread Loc σ) (c : Cfg Loc σ) (i j : Nat) : Bool :=
  match (T i).next (c.loc i), (T j).next (c.loc j) with
  | some a, some b => a.wr.any (fun l => b.rd.contains l || b.wr.contains l)
                      || b.wr.any (fun l => a.rd.contains l || a.wr.contains l)
  | _, _ => false

end Tins.Threads
