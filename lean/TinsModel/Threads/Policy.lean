import TinsModel.Gen.StaticVars
import TinsModel.Gen.ExternCalls
import TinsModel.Threads.Spec
/- C18 — the libtins instance of the abstract machine and the policy applied to the generated tables
   (core Lean only; the tables are regenerated from the source on every run). -/
namespace Tins.Threads
open Tins.Gen.StaticVars (StaticVar)

/-- Registration functions a user calls explicitly (normally once, before any parsing).  The property's workloads
    (parse / build / copy / serialise / reassemble / decrypt on thread-private objects) never call them, so a static
    written *only* there is read-only on the property paths. -/
def userTriggeredWriters : List String := ["Tins::Internals::PDUAllocator::register_allocator"]

/-- a static that threads owning disjoint object graphs can nevertheless both reach, and that some function on
    the property paths may write -/
def sharedMutable (v : StaticVar) : Bool :=
  !v.hookOnly && !v.threadLocal && !v.isConst && !(v.writeSites.all (fun w => userTriggeredWriters.contains w))

/-- verification-hook statics (compiled only with the guard) must not introduce races of their own -/
def hookSynchronised (v : StaticVar) : Bool :=
  !v.hookOnly || v.atomic || v.writeSites.isEmpty

/-- memory cells of a libtins process whose threads own disjoint object graphs -/
inductive Cell where
  | priv (owner : Nat) (k : Nat)     -- k-th cell of the objects (and stack) owned by thread `owner`
  | static (v : Nat)                 -- the v-th row of the static-variable table
  deriving DecidableEq, Repr

/-- a thread may read its own cells and every static -/
def libR (i : Nat) : Cell → Prop
  | .priv o _ => o = i
  | .static _ => True

/-- a thread may write its own cells and those statics the table marks as writable on the property paths -/
def libW (writable : Nat → Bool) (i : Nat) : Cell → Prop
  | .priv o _ => o = i
  | .static v => writable v = true

def tableWritable (tbl : List StaticVar) (v : Nat) : Bool :=
  match tbl[v]? with
  | some sv => sharedMutable sv
  | none => false

/-! ### external calls -/

/-- translation units that are not on the property paths: live capture, sending, OS interface / routing tables,
    name resolution, BPF compilation, pcap file writing (C17 covers the file paths) -/
def offPathFiles : List String :=
  ["src/sniffer.cpp", "src/packet_sender.cpp", "src/packet_writer.cpp", "src/network_interface.cpp",
   "src/offline_packet_filter.cpp", "src/utils/resolve_utils.cpp", "src/utils/routing_utils.cpp"]

/-- C-linkage callees that are safe to call concurrently on distinct objects: glibc functions documented
    "MT-Safe" (possibly "MT-Safe locale": the workloads never call setlocale) in the glibc manual, and the
    OpenSSL (≥ 1.1) primitives used with caller-owned contexts and output buffers -/
def mtSafe : List String :=
  ["memcpy", "memmove", "memset", "memcmp", "strlen", "strcmp", "sprintf", "snprintf",
   "inet_pton", "inet_ntop", "log2", "round", "gettimeofday", "__assert_fail",
   "AES_encrypt", "AES_set_encrypt_key", "EVP_md5", "EVP_sha1", "HMAC", "PKCS5_PBKDF2_HMAC_SHA1"]

def externOK (e : String × List String × List String) : Bool :=
  offPathFiles.contains e.1 || e.2.1.all (fun c => mtSafe.contains c)

end Tins.Threads
