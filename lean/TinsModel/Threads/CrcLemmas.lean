import TinsModel.Threads.Crc
import TinsModel.Threads.Spec
/- C18 — the code-shaped `crc32` (nibble table read from the static `crc_table`, register kept complemented,
   initial value 0, no final xor) computes the bitwise IEEE 802.3 CRC-32 for every input.
   Route: `crcBitStep` is linear over xor; four steps on a word whose low nibble is clear are a shift by four;
   hence four steps are "shift by four, xor the entry of the low nibble"; the generated table is that entry table
   re-indexed by `xor 15` and offset by 0xF0000000, which is exactly what the complemented register needs. -/
namespace Tins.Threads

/-! ### word-level facts -/

theorem bv_and_xor (x a b : BitVec 32) : x &&& (a ^^^ b) = (x &&& a) ^^^ (x &&& b) := by
  ext i hi
  simp only [BitVec.getElem_and, BitVec.getElem_xor]
  cases x[i] <;> cases a[i] <;> cases b[i] <;> rfl

theorem and_xor_left (x a b : UInt32) : x &&& (a ^^^ b) = (x &&& a) ^^^ (x &&& b) := by
  apply UInt32.toBitVec_inj.mp
  simp only [UInt32.toBitVec_and, UInt32.toBitVec_xor]
  exact bv_and_xor _ _ _

theorem xor_and_right (a b x : UInt32) : (a ^^^ b) &&& x = (a &&& x) ^^^ (b &&& x) := by
  rw [UInt32.and_comm, and_xor_left, UInt32.and_comm x a, UInt32.and_comm x b]

theorem and_one_cases (x : UInt32) : x &&& 1 = 0 ∨ x &&& 1 = 1 := by
  have : (x &&& 1).toNat = x.toNat % 2 := by simp [UInt32.toNat_and, Nat.and_one_is_mod]
  rcases Nat.mod_two_eq_zero_or_one x.toNat with h | h
  · left; apply UInt32.toNat_inj.mp; simp [this, h]
  · right; apply UInt32.toNat_inj.mp; simp [this, h]

theorem shr4 (x : UInt32) : (((x >>> 1) >>> 1) >>> 1) >>> 1 = x >>> 4 := by
  apply UInt32.toNat_inj.mp
  simp [UInt32.toNat_shiftRight, Nat.shiftRight_eq_div_pow]
  omega

theorem not_eq_xor (x : UInt32) : ~~~x = x ^^^ 0xFFFFFFFF := by
  have : (0xFFFFFFFF : UInt32) = -1 := by decide
  rw [this, UInt32.xor_neg_one]

/-! ### the bit step -/

theorem crcBitStep_xor (x y : UInt32) : crcBitStep (x ^^^ y) = crcBitStep x ^^^ crcBitStep y := by
  unfold crcBitStep
  rw [xor_and_right, UInt32.shiftRight_xor]
  rcases and_one_cases x with hx | hx <;> rcases and_one_cases y with hy | hy <;> simp only [hx, hy]
  · simp
  · simp; ac_rfl
  · simp; ac_rfl
  · simp
    have : ∀ a b p : UInt32, a ^^^ b = a ^^^ p ^^^ (b ^^^ p) := by
      intro a b p
      have h : a ^^^ p ^^^ (b ^^^ p) = a ^^^ b ^^^ (p ^^^ p) := by ac_rfl
      rw [h, UInt32.xor_self, UInt32.xor_zero]
    exact this _ _ _

theorem crcBitStep_even (x : UInt32) (h : x &&& 1 = 0) : crcBitStep x = x >>> 1 := by
  unfold crcBitStep
  simp [h]

/-- four bit steps -/
def crcStep4 (x : UInt32) : UInt32 := crcBitStep (crcBitStep (crcBitStep (crcBitStep x)))

theorem crcStep4_xor (x y : UInt32) : crcStep4 (x ^^^ y) = crcStep4 x ^^^ crcStep4 y := by
  simp only [crcStep4, crcBitStep_xor]

/-- on a word whose low nibble is clear, four steps are a shift -/
theorem crcStep4_high (x : UInt32) : crcStep4 (x &&& 0xFFFFFFF0) = x >>> 4 := by
  have e0 : (x &&& 0xFFFFFFF0) &&& 1 = 0 := by
    rw [UInt32.and_assoc]; have : (0xFFFFFFF0 : UInt32) &&& 1 = 0 := by decide
    rw [this, UInt32.and_zero]
  have e1 : ((x &&& 0xFFFFFFF0) >>> 1) &&& 1 = 0 := by
    rw [UInt32.shiftRight_and, UInt32.and_assoc]
    have : ((0xFFFFFFF0 : UInt32) >>> 1) &&& 1 = 0 := by decide
    rw [this, UInt32.and_zero]
  have e2 : (((x &&& 0xFFFFFFF0) >>> 1) >>> 1) &&& 1 = 0 := by
    rw [UInt32.shiftRight_and, UInt32.shiftRight_and, UInt32.and_assoc]
    have : (((0xFFFFFFF0 : UInt32) >>> 1) >>> 1) &&& 1 = 0 := by decide
    rw [this, UInt32.and_zero]
  have e3 : ((((x &&& 0xFFFFFFF0) >>> 1) >>> 1) >>> 1) &&& 1 = 0 := by
    rw [UInt32.shiftRight_and, UInt32.shiftRight_and, UInt32.shiftRight_and, UInt32.and_assoc]
    have : ((((0xFFFFFFF0 : UInt32) >>> 1) >>> 1) >>> 1) &&& 1 = 0 := by decide
    rw [this, UInt32.and_zero]
  unfold crcStep4
  rw [crcBitStep_even _ e0, crcBitStep_even _ e1, crcBitStep_even _ e2, crcBitStep_even _ e3, shr4,
    UInt32.shiftRight_and]
  have hc : (0xFFFFFFF0 : UInt32) >>> 4 = (0xFFFFFFFF : UInt32) >>> 4 := by decide
  rw [hc, ← UInt32.shiftRight_and]
  have : (0xFFFFFFFF : UInt32) = -1 := by decide
  rw [this, UInt32.and_neg_one]

theorem split_nibble (x : UInt32) : x = (x &&& 0xFFFFFFF0) ^^^ (x &&& 0xF) := by
  rw [← and_xor_left]
  have : (0xFFFFFFF0 : UInt32) ^^^ 0xF = -1 := by decide
  rw [this, UInt32.and_neg_one]

/-- four bit steps = shift by four, xor the four-step image of the low nibble -/
theorem crcStep4_eq (x : UInt32) : crcStep4 x = (x >>> 4) ^^^ crcStep4 (x &&& 0xF) := by
  conv => lhs; rw [split_nibble x]
  rw [crcStep4_xor, crcStep4_high]

/-! ### the table -/

/-- the generated `crc_table`, entry by entry (sixteen closed facts) -/
theorem crcTbl_entries : ∀ i : Fin 16, crcTbl i.val.toUInt32 = crcStep4 (i.val.toUInt32 ^^^ 15) ^^^ 0xF0000000 := by
  decide

theorem nibble_lt (x : UInt32) : (x &&& 0xF).toNat < 16 := by
  rw [UInt32.toNat_and]
  have : (0xF : UInt32).toNat = 15 := by decide
  rw [this]
  exact Nat.lt_succ_of_le Nat.and_le_right

theorem crcTbl_nibble (x : UInt32) :
    crcTbl (x &&& 0xF) = crcStep4 ((x &&& 0xF) ^^^ 15) ^^^ 0xF0000000 := by
  have h := crcTbl_entries ⟨(x &&& 0xF).toNat, nibble_lt x⟩
  have e : (x &&& 0xF).toNat.toUInt32 = x &&& 0xF := by
    apply UInt32.toNat_inj.mp
    have := nibble_lt x
    simp only [Nat.toUInt32, UInt32.toNat_ofNat']
    omega
  simpa only [e] using h

/-! ### one nibble of the model against four steps of the spec -/

/-- the loop body's half step: `crc = (crc >> 4) ^ crc_table[(crc ^ v) & 0x0F]` -/
def crcNibble (crc v : UInt32) : UInt32 := (crc >>> 4) ^^^ crcTbl ((crc ^^^ v) &&& 0x0F)

theorem crcNibble_not (c v : UInt32) : crcNibble (~~~c) v = ~~~ (crcStep4 (c ^^^ (v &&& 0xF))) := by
  unfold crcNibble
  -- index: low nibble of the complemented register xor the data nibble = (low nibble of c xor v) xor 15
  have hidx : ((~~~c) ^^^ v) &&& 0x0F = (((c ^^^ v) &&& 0xF) ^^^ 15) := by
    rw [UInt32.not_xor, not_eq_xor, xor_and_right]
    have : (0xFFFFFFFF : UInt32) &&& 0xF = 15 := by decide
    rw [this]
  have hmask : (((c ^^^ v) &&& 0xF) ^^^ 15) = ((c ^^^ v) ^^^ 15) &&& 0xF := by
    have h := xor_and_right (c ^^^ v) 15 0xF
    have : (15 : UInt32) &&& 0xF = 15 := by decide
    rw [this] at h
    exact h.symm
  rw [hidx, hmask, crcTbl_nibble, ← hmask]
  have hh : ((c ^^^ v) &&& 0xF ^^^ 15) ^^^ 15 = (c ^^^ v) &&& 0xF := by
    rw [UInt32.xor_assoc, UInt32.xor_self, UInt32.xor_zero]
  rw [hh]
  -- high part: (~c) >> 4 = ~(c >> 4) xor 0xF0000000
  have hhi : (~~~c) >>> 4 = ~~~(c >>> 4) ^^^ 0xF0000000 := by
    rw [not_eq_xor, UInt32.shiftRight_xor, not_eq_xor]
    have : (0xFFFFFFFF : UInt32) >>> 4 = 0xFFFFFFFF ^^^ 0xF0000000 := by decide
    rw [this]; ac_rfl
  rw [hhi]
  -- the spec side
  have hspec : crcStep4 (c ^^^ (v &&& 0xF)) = (c >>> 4) ^^^ crcStep4 ((c ^^^ v) &&& 0xF) := by
    rw [crcStep4_eq, UInt32.shiftRight_xor]
    have h0 : (v &&& 0xF) >>> 4 = 0 := by
      rw [UInt32.shiftRight_and]
      have : (0xF : UInt32) >>> 4 = 0 := by decide
      rw [this, UInt32.and_zero]
    have h1 : (c ^^^ (v &&& 0xF)) &&& 0xF = (c ^^^ v) &&& 0xF := by
      rw [xor_and_right, xor_and_right, UInt32.and_assoc]
      have : (0xF : UInt32) &&& 0xF = 0xF := by decide
      rw [this]
    rw [h0, h1, UInt32.xor_zero]
  rw [hspec, not_eq_xor (c >>> 4), not_eq_xor]
  have : ∀ a t k m : UInt32, a ^^^ m ^^^ k ^^^ (t ^^^ k) = a ^^^ t ^^^ m := by
    intro a t k m
    have h : a ^^^ m ^^^ k ^^^ (t ^^^ k) = a ^^^ t ^^^ m ^^^ (k ^^^ k) := by ac_rfl
    rw [h, UInt32.xor_self, UInt32.xor_zero]
  exact this _ _ _ _

/-! ### one byte -/

theorem crcByte_eq (crc : UInt32) (b : UInt8) :
    crcByte crc b = crcNibble (crcNibble crc b.toUInt32) (b.toUInt32 >>> 4) := rfl

theorem byte_lt (b : UInt8) : b.toUInt32 &&& 0xFF = b.toUInt32 := by
  have h : (0xFF : UInt32) = (255 : UInt8).toUInt32 := by decide
  have h2 : (255 : UInt8) = -1 := by decide
  rw [h, ← UInt8.toUInt32_and, h2, UInt8.and_neg_one]

theorem crcByte_not (c : UInt32) (b : UInt8) : crcByte (~~~c) b = ~~~ (crcByteSpec c b) := by
  rw [crcByte_eq, crcNibble_not, crcNibble_not]
  congr 1
  -- spec: eight steps of (c xor b) = four steps of (four steps of (c xor low nibble) xor high nibble)
  have hb : b.toUInt32 = (b.toUInt32 &&& 0xF) ^^^ (b.toUInt32 &&& 0xF0) := by
    rw [← and_xor_left]
    have : (0xF : UInt32) ^^^ 0xF0 = 0xFF := by decide
    rw [this, byte_lt]
  have hhigh : crcStep4 (b.toUInt32 &&& 0xF0) = (b.toUInt32 >>> 4) &&& 0xF := by
    have e : b.toUInt32 &&& 0xF0 = (b.toUInt32 &&& 0xF0) &&& 0xFFFFFFF0 := by
      rw [UInt32.and_assoc]
      have : (0xF0 : UInt32) &&& 0xFFFFFFF0 = 0xF0 := by decide
      rw [this]
    rw [e, crcStep4_high, UInt32.shiftRight_and]
    have : (0xF0 : UInt32) >>> 4 = 0xF := by decide
    rw [this]
  show crcStep4 (crcStep4 (c ^^^ (b.toUInt32 &&& 0xF)) ^^^ ((b.toUInt32 >>> 4) &&& 0xF)) = crcByteSpec c b
  unfold crcByteSpec
  show _ = crcStep4 (crcStep4 (c ^^^ b.toUInt32))
  congr 1
  conv => rhs; rw [hb, ← UInt32.xor_assoc, crcStep4_xor, hhigh]

/-! ### the whole buffer -/

theorem foldl_crcByte_not (data : List UInt8) (c : UInt32) :
    data.foldl crcByte (~~~c) = ~~~ (data.foldl crcByteSpec c) := by
  induction data generalizing c with
  | nil => rfl
  | cons b bs ih => simp only [List.foldl_cons, crcByte_not, ih]

/-- the code-shaped CRC (table read from the generated static) is the IEEE 802.3 CRC-32, for every input -/
theorem crc32_eq_spec (data : List UInt8) : crc32 data = crc32Spec data := by
  unfold crc32 crc32Spec
  have h0 : (0 : UInt32) = ~~~ (0xFFFFFFFF : UInt32) := by decide
  rw [h0, foldl_crcByte_not, not_eq_xor]

end Tins.Threads
