import TinsModel.Threads.Machine
/- C18 — what the property demands, stated over the abstract machine (core Lean only).

   "Each thread obtains exactly the results the same calls produce when run alone, under every interleaving, and
   there is no unsynchronised access to shared mutable state."                                              -/
namespace Tins.Threads

variable {Loc σ : Type} [DecidableEq Loc]

/-- declared footprints are respected: in every local state the next action of thread `i` loads only from `R i`
    and stores only to `W i` -/
def Respects (T : Nat → Thread Loc σ) (R W : Nat → Loc → Prop) : Prop :=
  ∀ i s a, (T i).next s = some a → (∀ l ∈ a.rd, R i l) ∧ (∀ l ∈ a.wr, W i l)

/-- the same, but only for the actions enabled in one configuration (footprints may depend on the state reached) -/
def RespectsAt (T : Nat → Thread Loc σ) (R W : Nat → Loc → Prop) (c : Cfg Loc σ) : Prop :=
  ∀ i a, (T i).next (c.loc i) = some a → (∀ l ∈ a.rd, R i l) ∧ (∀ l ∈ a.wr, W i l)

/-- no thread writes what another thread reads or writes -/
def DisjointFootprints (R W : Nat → Loc → Prop) : Prop :=
  ∀ i j, i ≠ j → ∀ l, W i l → ¬ R j l ∧ ¬ W j l

/-- everything thread `i` can observe is the same in two configurations: its local state (its results) and the
    memory inside its footprint -/
def SameView (R W : Nat → Loc → Prop) (i : Nat) (c c' : Cfg Loc σ) : Prop :=
  c.loc i = c'.loc i ∧ ∀ l, (R i l ∨ W i l) → c.mem l = c'.mem l

/-- THE PROPERTY (results): after any interleaving, every thread sees what it sees after running alone for the
    same number of its own steps from the same initial configuration -/
def Independent (T : Nat → Thread Loc σ) (R W : Nat → Loc → Prop) : Prop :=
  ∀ (c : Cfg Loc σ) (sched : List Nat) (i : Nat),
    SameView R W i (run T c sched) (runAlone T c i (sched.count i))

/-- THE PROPERTY (races): in no reachable configuration do two different threads have conflicting enabled actions -/
def RaceFree (T : Nat → Thread Loc σ) : Prop :=
  ∀ (c : Cfg Loc σ) (sched : List Nat) (i j : Nat), i ≠ j → conflictAt T (run T c sched) i j = false

/-- the sequential run the harness compares with: thread 0 to completion (n 0 steps), then thread 1, … -/
def seqSchedule (n : Nat → Nat) : Nat → List Nat
  | 0 => []
  | k + 1 => seqSchedule n k ++ List.replicate (n k) k

/-! ### run-time oracle for the harness lines -/

/-- IEEE 802.3 CRC-32 written from the standard, bit by bit (reflected polynomial 0xEDB88320, initial value and
    final xor 0xFFFFFFFF) — the value `Utils::crc32` must return, whatever table it reads -/
def crcBitStep (c : UInt32) : UInt32 :=
  if c &&& 1 = 1 then (c >>> 1) ^^^ 0xEDB88320 else c >>> 1

def crcByteSpec (c : UInt32) (b : UInt8) : UInt32 :=
  let c := c ^^^ b.toUInt32
  crcBitStep (crcBitStep (crcBitStep (crcBitStep (crcBitStep (crcBitStep (crcBitStep (crcBitStep c)))))))

def crc32Spec (data : List UInt8) : UInt32 :=
  (data.foldl crcByteSpec 0xFFFFFFFF) ^^^ 0xFFFFFFFF

/-- the oracle of a `go` line: every thread's concurrent digest, and the digest of the same workload repeated
    afterwards on one thread of the same process, equal its run-alone digest; no race report -/
def goVerdict (alone conc seq : List String) (races : Nat) : String :=
  if conc.length ≠ alone.length ∨ seq.length ≠ alone.length then
    s!"violates thread-count alone={alone.length} conc={conc.length} seq={seq.length}"
  else
    let idx := List.range alone.length
    match idx.filter (fun i => alone[i]? ≠ conc[i]?), idx.filter (fun i => alone[i]? ≠ seq[i]?) with
    | i :: _, _ => s!"violates per-thread-results thread={i} alone={alone[i]?.getD ""} concurrent={conc[i]?.getD ""}"
    | [], i :: _ => s!"violates run-alone-result thread={i} alone={alone[i]?.getD ""} sequential={seq[i]?.getD ""}"
    | [], [] => if races ≠ 0 then s!"violates race-report n={races}" else "ok"

end Tins.Threads
