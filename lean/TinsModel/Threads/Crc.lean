import TinsModel.Gen.StaticVars
/- C18 — code-shaped model of `Tins::Utils::crc32` (src/utils/checksum_utils.cpp), the one function on the property
   paths that reads a non-const static (`crc_table`).  The table is the generated initialiser, not a copy. -/
namespace Tins.Threads

/-- `static uint32_t crc_table[]` as initialised in the source -/
def crcTable : List UInt32 := Tins.Gen.StaticVars.crcTableInit.map (fun n => n.toUInt32)

def crcTbl (i : UInt32) : UInt32 := crcTable.getD i.toNat 0

/-- loop body: `crc = (crc >> 4) ^ crc_table[(crc ^ data[i]) & 0x0F];`
               `crc = (crc >> 4) ^ crc_table[(crc ^ (data[i] >> 4)) & 0x0F];` -/
def crcByte (crc : UInt32) (b : UInt8) : UInt32 :=
  let crc := (crc >>> 4) ^^^ crcTbl ((crc ^^^ b.toUInt32) &&& 0x0F)
  (crc >>> 4) ^^^ crcTbl ((crc ^^^ (b.toUInt32 >>> 4)) &&& 0x0F)

/-- `uint32_t i, crc = 0; for (i = 0; i < data_size; ++i) …; return crc;` -/
def crc32 (data : List UInt8) : UInt32 := data.foldl crcByte 0

end Tins.Threads
