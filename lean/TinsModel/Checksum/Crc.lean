import TinsModel.Checksum.Model
import TinsModel.Gen.Crc
/-
  `Utils::crc32` (src/utils/checksum_utils.cpp): the nibble-table CRC used for the RadioTap frame check
  sequence — code-shaped model over `BitVec 32` with the table regenerated from the source (`Gen/Crc.lean`) —
  and the specification: the IEEE 802.3 CRC-32 by its bit-by-bit definition (reflected polynomial 0xEDB88320,
  register preset to all ones, result complemented).
-/
namespace Tins.Ck

/-- `crc_table[i]` -/
def crcTbl (i : BitVec 32) : BitVec 32 := BitVec.ofNat 32 (Gen.crcTable.getD i.toNat 0)

/-- one iteration of the `for` loop: low nibble, then high nibble -/
def crcByteT (crc : BitVec 32) (d : UInt8) : BitVec 32 :=
  let x : BitVec 32 := BitVec.ofNat 32 d.toNat
  let crc := (crc >>> 4) ^^^ crcTbl ((crc ^^^ x) &&& 0x0F#32)
  let crc := (crc >>> 4) ^^^ crcTbl ((crc ^^^ (x >>> 4)) &&& 0x0F#32)
  crc

/-- `Utils::crc32(data, data_size)` -/
def crc32 (data : Bytes) : BitVec 32 := data.foldl crcByteT (BitVec.ofNat 32 Gen.crcInit)

namespace Spec

/-- reflected IEEE 802.3 generator polynomial -/
def poly : BitVec 32 := 0xEDB88320#32

/-- one bit of the shift register -/
def bitStep (c : BitVec 32) : BitVec 32 := if c.getLsbD 0 then (c >>> 1) ^^^ poly else c >>> 1

/-- feed one byte, least significant bit first -/
def crcByteS (c : BitVec 32) (d : UInt8) : BitVec 32 :=
  bitStep (bitStep (bitStep (bitStep (bitStep (bitStep (bitStep (bitStep (c ^^^ BitVec.ofNat 32 d.toNat))))))))

/-- CRC-32 (IEEE 802.3 / ISO 3309): preset all ones, complement the result -/
def crcBitwise (data : Bytes) : BitVec 32 := (data.foldl crcByteS 0xFFFFFFFF#32) ^^^ 0xFFFFFFFF#32

end Spec
end Tins.Ck
