import TinsModel.Checksum.Lemmas
import TinsModel.Checksum.CrcLemmas
/-
  Proofs of the checksum / CRC theorems of property C05 (Part 1 and 2 of `Props/C05.lean`, which states them again and
  refers here): kept in a lemma file so that the lemma files about whole serialised stacks (`Checksum/Walk/*.lean`) can
  use them.
-/
namespace Tins.Ck.Verify
open Tins.Ck Tins.Ck.Spec

/-- **Byte-order independence.**  For every byte string shorter than 128 KiB (odd lengths and any number of
    carries included) the value `sum_range` returns, byte-swapped, is the RFC 1071 one's-complement sum of the
    big-endian words. -/
theorem sum_range_spec (bs : Bytes) (h : bs.length < 131072) : bswap16 (sumRange bs) = ocSum bs := by
  rw [sumRange_eq bs h, ocSum_eq, bswap16_foldv _ (foldv_le _)]
  apply foldv_congr
  · have := le_be_mod bs
    have hf : foldv (leSum bs) % 65535 = leSum bs % 65535 := by unfold foldv; split <;> omega
    omega
  · have := le_be_zero bs; have := foldv_eq_zero (leSum bs); omega

/-- `do_checksum` followed by the caller's fold loop (as in `IP::write_serialization`) is the RFC 1071 sum. -/
theorem do_checksum_spec (bs : Bytes) (h : bs.length < 131072) : fold32 (doChecksum bs) = ocSum bs := by
  rw [← sum_range_spec bs h]
  have hs : sumRange bs ≤ 65535 := by rw [sumRange_eq bs h]; exact foldv_le _
  unfold doChecksum
  generalize sumRange bs = x at *
  unfold bswap32 bswap16
  have e1 : x / 65536 % 256 = 0 := by omega
  have e2 : x / 16777216 % 256 = 0 := by omega
  rw [e1, e2]
  have hb : x % 256 * 16777216 + x / 256 % 256 * 65536 + 0 * 256 + 0 < 4294967296 := by omega
  rw [fold32_eq _ hb]
  unfold foldv; split <;> omega

/-- **IPv4 header checksum.**  Whatever the header bytes (options, padding) with the checksum field zeroed,
    the header libtins emits verifies under RFC 791/1071. -/
theorem ip_checksum_verifies (buf : Bytes) (hlen : Nat) (hh : hlen < 131072) (h12 : 12 ≤ hlen)
    (h0 : buf[10]? = some 0) (h1 : buf[11]? = some 0) :
    verifies ((ipTail buf hlen).take hlen) = true := by
  have hs : sumRange (buf.take hlen) ≤ 65535 := by
    rw [sumRange_eq _ (by simp; omega)]; exact foldv_le _
  have hv : bswap16 (wrap16 (not32 (fold32 (doChecksum (List.take hlen buf))))) =
      65535 - foldv (0 + leSum (buf.take hlen)) := by
    rw [do_checksum_spec _ (by simp; omega), ← sum_range_spec _ (by simp; omega),
      not32_wrap16 _ (bswap16_le _), Nat.zero_add, ← sumRange_eq _ (by simp; omega)]
    generalize sumRange (List.take hlen buf) = x at *
    unfold bswap16
    have h1 : (x % 256 * 256 + x / 256 % 256) / 256 = x % 256 := by omega
    have h2 : (x % 256 * 256 + x / 256 % 256) % 256 = x / 256 := by omega
    have e1 : (65535 - (x % 256 * 256 + x / 256 % 256)) % 256 = 255 - x / 256 := by omega
    have e2 : (65535 - (x % 256 * 256 + x / 256 % 256)) / 256 % 256 = 255 - x % 256 := by omega
    rw [e1, e2]; omega
  unfold ipTail verifies
  simp only []
  rw [hv]
  unfold poke16
  rw [List.take_set, List.take_set]
  have := stored_verifies [] (buf.take hlen) 0 10 (by simp) (by simp [beSum]) (by simp [beSum]) (by omega)
    (by rw [List.getElem?_take]; simp [h0]; omega) (by rw [List.getElem?_take]; simp [h1]; omega)
  simp only [List.nil_append, poke16, Nat.zero_add, Nat.reduceAdd] at this
  simp only [Nat.zero_add, Nat.reduceAdd]
  simp [this]

/-- **TCP over IPv4.** -/
theorem tcp_checksum_verifies_ip4 (src dst buf : Bytes) (hs : src.length = 4) (hd : dst.length = 4)
    (hlen : buf.length ≤ 65535) (h0 : buf[16]? = some 0) (h1 : buf[17]? = some 0) :
    verifies (pseudo4 src dst 6 buf.length ++ tcpTail (.ip4 src dst) buf buf.length) = true := by
  unfold tcpTail verifies
  simp only []
  have hP := pseudoSum_small src dst buf.length 6 (by omega) (by omega) (by omega) (by omega)
  rw [tail_value _ _ hP (by omega), bswap16_bswap16 _ (by omega)]
  have hle := pseudoSum_le src dst buf.length 6 (by omega) (by omega) (by omega) (by omega)
  have hb := pseudo4_bytes src dst 6 buf.length (by omega) hlen
  rw [hb] at hle
  have := stored_verifies (pseudo4 src dst 6 buf.length) buf (pseudoSum src dst buf.length 6) 16
    (by rw [pseudo4_len]; omega) (by rw [hle]; exact le_be_mod _) (by rw [hle]; exact le_be_zero _)
    (by omega) h0 h1
  simp [this]

/-- **TCP over IPv6** (RFC 8200 §8.1 pseudo header: 32-bit length, 3 zero bytes, next header). -/
theorem tcp_checksum_verifies_ip6 (src dst buf : Bytes) (hs : src.length = 16) (hd : dst.length = 16)
    (hlen : buf.length ≤ 65535) (h0 : buf[16]? = some 0) (h1 : buf[17]? = some 0) :
    verifies (pseudo6 src dst 6 buf.length ++ tcpTail (.ip6 src dst) buf buf.length) = true := by
  unfold tcpTail verifies
  simp only []
  have hP := pseudoSum_small src dst buf.length 6 (by omega) (by omega) (by omega) (by omega)
  rw [tail_value _ _ hP (by omega), bswap16_bswap16 _ (by omega)]
  have hle := pseudoSum_le src dst buf.length 6 (by omega) (by omega) (by omega) (by omega)
  have hb := pseudo6_beSum src dst 6 buf.length (by omega) (by omega) (by omega) hlen
  have := stored_verifies (pseudo6 src dst 6 buf.length) buf (pseudoSum src dst buf.length 6) 16
    (by rw [pseudo6_len]; omega) (by rw [hle, hb]; exact le_be_mod _) (by rw [hle, hb]; exact le_be_zero _)
    (by omega) h0 h1
  simp [this]

/-- **UDP over IPv4** (RFC 768), including the case where the computed checksum is 0 and 0xffff is sent. -/
theorem udp_checksum_verifies_ip4 (src dst buf : Bytes) (hs : src.length = 4) (hd : dst.length = 4)
    (hlen : buf.length ≤ 65535) (h0 : buf[6]? = some 0) (h1 : buf[7]? = some 0) :
    verifies (pseudo4 src dst 17 buf.length ++ udpTail (.ip4 src dst) buf buf.length) = true := by
  unfold udpTail verifies
  simp only []
  have hP := pseudoSum_small src dst buf.length 17 (by omega) (by omega) (by omega) (by omega)
  rw [tail_value _ _ hP (by omega)]
  have hle := pseudoSum_le src dst buf.length 17 (by omega) (by omega) (by omega) (by omega)
  have hb := pseudo4_bytes src dst 17 buf.length (by omega) hlen
  rw [hb] at hle
  have := stored_verifies_udp (pseudo4 src dst 17 buf.length) buf (pseudoSum src dst buf.length 17) 6
    (by rw [pseudo4_len]; omega) (by rw [hle]; exact le_be_mod _) (by rw [hle]; exact le_be_zero _)
    (by omega) h0 h1
  simp [this]

/-- **UDP over IPv6.** -/
theorem udp_checksum_verifies_ip6 (src dst buf : Bytes) (hs : src.length = 16) (hd : dst.length = 16)
    (hlen : buf.length ≤ 65535) (h0 : buf[6]? = some 0) (h1 : buf[7]? = some 0) :
    verifies (pseudo6 src dst 17 buf.length ++ udpTail (.ip6 src dst) buf buf.length) = true := by
  unfold udpTail verifies
  simp only []
  have hP := pseudoSum_small src dst buf.length 17 (by omega) (by omega) (by omega) (by omega)
  rw [tail_value _ _ hP (by omega)]
  have hle := pseudoSum_le src dst buf.length 17 (by omega) (by omega) (by omega) (by omega)
  have hb := pseudo6_beSum src dst 17 buf.length (by omega) (by omega) (by omega) hlen
  have := stored_verifies_udp (pseudo6 src dst 17 buf.length) buf (pseudoSum src dst buf.length 17) 6
    (by rw [pseudo6_len]; omega) (by rw [hle, hb]; exact le_be_mod _) (by rw [hle, hb]; exact le_be_zero _)
    (by omega) h0 h1
  simp [this]

/-- **UDP: a computed 0 is transmitted as 0xffff** — the checksum bytes libtins stores under an IP parent are
    never both zero ("no checksum" in RFC 768), whatever the datagram. -/
theorem udp_zero (p : Parent) (hp : p ≠ .other) (buf : Bytes) (size : Nat) (h8 : 8 ≤ buf.length) :
    ¬ ((udpTail p buf size)[6]? = some 0 ∧ (udpTail p buf size)[7]? = some 0) := by
  have key : ∀ v : Nat, 1 ≤ v → v ≤ 65535 →
      ¬ ((poke16 buf 6 v)[6]? = some 0 ∧ (poke16 buf 6 v)[7]? = some 0) := by
    intro v h1 h2
    unfold poke16
    rw [List.getElem?_set, List.getElem?_set, List.getElem?_set, List.getElem?_set]
    simp only [List.length_set]
    have a : 6 < buf.length := by omega
    have b : 7 < buf.length := by omega
    simp [a, b]
    intro e1 e2
    have t1 := congrArg UInt8.toNat e1
    have t2 := congrArg UInt8.toNat e2
    rw [toNat_ofNat_lt _ (by omega)] at t1 t2
    have z : UInt8.toNat 0 = 0 := rfl
    omega
  have val : ∀ c : Nat, 1 ≤ (if wrap16 (not32 c) = 0 then 65535 else wrap16 (not32 c)) ∧
      (if wrap16 (not32 c) = 0 then 65535 else wrap16 (not32 c)) ≤ 65535 := by
    intro c; unfold wrap16; split <;> omega
  cases p with
  | other => exact absurd rfl hp
  | ip4 s d => unfold udpTail; simp only []; exact key _ (val _).1 (val _).2
  | ip6 s d => unfold udpTail; simp only []; exact key _ (val _).1 (val _).2

/-- **ICMP** (RFC 792): the checksum covers the whole ICMP message (header, inner packet, padding, extensions). -/
theorem icmp_checksum_verifies (buf : Bytes) (hlen : buf.length ≤ 65535)
    (h0 : buf[2]? = some 0) (h1 : buf[3]? = some 0) : verifies (icmpTail buf) = true := by
  unfold icmpTail verifies
  rw [sumRange_eq _ (by omega), not32_wrap16 _ (foldv_le _)]
  have := stored_verifies [] buf 0 2 (by simp) (by simp [beSum]) (by simp [beSum]) (by omega) h0 h1
  simp only [List.nil_append, Nat.zero_add] at this
  simp [this]

/-- **ICMP extension structure** (RFC 4884 §7): checksum over the structure itself. -/
theorem icmp_extension_checksum_verifies (buf : Bytes) (hlen : buf.length ≤ 65535)
    (h0 : buf[2]? = some 0) (h1 : buf[3]? = some 0) : verifies (extTail buf) = true :=
  icmp_checksum_verifies buf hlen h0 h1

/-- **ICMPv6 over IPv6** (RFC 4443 §2.3). -/
theorem icmpv6_checksum_verifies (src dst buf : Bytes) (hs : src.length = 16) (hd : dst.length = 16)
    (hlen : buf.length ≤ 65535) (h0 : buf[2]? = some 0) (h1 : buf[3]? = some 0) :
    verifies (pseudo6 src dst 58 buf.length ++ icmp6Tail (.ip6 src dst) buf buf.length) = true := by
  unfold icmp6Tail verifies
  simp only []
  have hP := pseudoSum_small src dst buf.length 58 (by omega) (by omega) (by omega) (by omega)
  have tv := tail_value _ _ hP (show buf.length < 131072 by omega)
  unfold wrap16 at tv
  rw [tv]
  have hle := pseudoSum_le src dst buf.length 58 (by omega) (by omega) (by omega) (by omega)
  have hb := pseudo6_beSum src dst 58 buf.length (by omega) (by omega) (by omega) hlen
  have := stored_verifies (pseudo6 src dst 58 buf.length) buf (pseudoSum src dst buf.length 58) 2
    (by rw [pseudo6_len]; omega) (by rw [hle, hb]; exact le_be_mod _) (by rw [hle, hb]; exact le_be_zero _)
    (by omega) h0 h1
  simp [this]

/-- `Utils::crc32` is the IEEE 802.3 CRC-32 (statement and explanation: `Props/C05.lean`, `crc32_table_spec`) -/
theorem crc32_table_spec (data : Bytes) : crc32 data = Spec.crcBitwise data := by
  unfold crc32 Spec.crcBitwise
  have h0 : BitVec.ofNat 32 Gen.crcInit = 0xFFFFFFFF#32 ^^^ allOnes32 := by decide
  rw [h0, fold_corr]; rfl

end Tins.Ck.Verify
