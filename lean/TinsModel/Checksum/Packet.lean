import TinsModel.Checksum.Model
/-
  The packet description language shared by the generator, the C++ harness (which builds the packet through the
  public API of libtins), the code-shaped serialisation model (`Serialize.lean`) and the RFC dissector used as
  oracle (`Dissect.lean`): a stack of layers, outermost first, each with the values *set through the API*.
  Derived fields (lengths, header lengths, next-protocol tags, checksums, padding) are not part of it.
-/
namespace Tins.Ck

inductive Layer where
  | eth (dst src : Bytes) (type : Nat)
  | dot1q (prio cfi id type : Nat) (pad : Bool)
  | ip (tos id flags fragoff ttl proto : Nat) (src dst : Bytes) (opts : List (Nat × Bytes))
  | ip6 (tc flow hop nh : Nat) (src dst : Bytes) (exts : List (Nat × Bytes))
  | tcp (sp dp seq ack flags win urg : Nat) (opts : List (Nat × Bytes))
  | udp (sp dp : Nat)
  | icmp (type code id seq a b c : Nat) (lenflag : Bool) (exts : List (Nat × Nat × Bytes))
  | icmp6 (type code id seq : Nat) (lenflag : Bool) (exts : List (Nat × Nat × Bytes))
  | raw (data : Bytes)
  | pppoe (code sess plen : Nat) (tags : List (Nat × Bytes))
  | mpls (label exp bos ttl : Nat)
  | dot3 (dst src : Bytes)
  | snap (control oui type : Nat)
  | llc (dsap ssap : Nat)
  | loop (family : Nat)
  | sll (ptype lltype lllen : Nat) (addr : Bytes) (proto : Nat)
  | ah (spi seq : Nat) (icv : Bytes) (nh : Nat)
  | esp (spi seq : Nat)
  | radiotap (fcs : Bool)
  | eapol (keylen : Nat) (key : Bytes)
  /-- a layer known only by what libtins reports about it (kind, header size, trailer size): parsed packets -/
  | opaque (kind : String) (hdr trl : Nat)
deriving Repr, DecidableEq

def Layer.kind : Layer → String
  | .eth .. => "eth" | .dot1q .. => "dot1q" | .ip .. => "ip" | .ip6 .. => "ip6" | .tcp .. => "tcp"
  | .udp .. => "udp" | .icmp .. => "icmp" | .icmp6 .. => "icmp6" | .raw .. => "raw" | .pppoe .. => "pppoe"
  | .mpls .. => "mpls" | .dot3 .. => "dot3" | .snap .. => "snap" | .llc .. => "llc" | .loop .. => "loop"
  | .sll .. => "sll" | .ah .. => "ah" | .esp .. => "esp" | .radiotap .. => "radiotap" | .eapol .. => "eapol"
  | .opaque k .. => k

end Tins.Ck
