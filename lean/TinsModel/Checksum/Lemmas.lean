import TinsModel.Checksum.Spec
/-
  Helper lemmas for C05 (checksums): the little-endian word sum of libtins and the big-endian RFC 1071 sum
  are tied through arithmetic modulo 65535 (2^16 ≡ 1, so a byte swap is a multiplication by 256).
-/
namespace Tins.Ck
open Tins.Ck.Spec

/-- unwrapped little-endian word sum (a trailing odd byte is the low byte of a word whose high byte is 0) -/
def leSum : Bytes → Nat
  | a :: b :: r => a.toNat + 256 * b.toNat + leSum r
  | [a] => a.toNat
  | [] => 0

/-- unwrapped big-endian word sum (a trailing odd byte is the high byte of a word whose low byte is 0) -/
def beSum : Bytes → Nat
  | a :: b :: r => a.toNat * 256 + b.toNat + beSum r
  | [a] => a.toNat * 256
  | [] => 0

/-- canonical one's-complement representative: 0 only for 0, otherwise the residue mod 65535 in 1..65535 -/
def foldv (n : Nat) : Nat := if n = 0 then 0 else (n - 1) % 65535 + 1

theorem u8_lt (a : UInt8) : a.toNat < 256 := UInt8.toNat_lt a

theorem foldv_le (n : Nat) : foldv n ≤ 65535 := by unfold foldv; split <;> omega
theorem foldv_small (n : Nat) (h : n ≤ 65535) : foldv n = n := by unfold foldv; split <;> omega
theorem foldv_eq_zero (n : Nat) : foldv n = 0 ↔ n = 0 := by unfold foldv; split <;> omega

theorem foldv_step (c : Nat) : foldv (c % 65536 + c / 65536) = foldv c := by
  unfold foldv; split <;> split <;> omega

theorem foldv_congr (a b : Nat) (h : a % 65535 = b % 65535) (hz : a = 0 ↔ b = 0) : foldv a = foldv b := by
  unfold foldv; split <;> split <;> omega

theorem foldv_foldv_add (a b : Nat) : foldv (a + foldv b) = foldv (a + b) := by
  unfold foldv; split <;> split <;> (try split) <;> omega

/-- the fold loop of libtins on any `uint32_t` value computes the canonical representative -/
theorem fold32_eq (c : Nat) (h : c < 4294967296) : fold32 c = foldv c := by
  unfold fold32
  simp only [foldLoop]
  have s1 := foldv_step c
  have s2 := foldv_step (c % 65536 + c / 65536)
  split
  · split
    · split
      · omega
      · rw [← s1, ← s2]; apply (foldv_small _ _).symm; omega
    · rw [← s1]; apply (foldv_small _ _).symm; omega
  · apply (foldv_small _ _).symm; omega

theorem leSum_le (bs : Bytes) : leSum bs ≤ 32768 * bs.length + 255 := by
  fun_induction leSum bs with
  | case1 a b r ih => have := u8_lt a; have := u8_lt b; simp only [List.length_cons]; omega
  | case2 a => have := u8_lt a; simp only [List.length_cons, List.length_nil]; omega
  | case3 => simp only [List.length_nil]; omega

/-- multiplication by 256 is the byte swap modulo 65535 -/
theorem le_be_mod (bs : Bytes) : (256 * leSum bs) % 65535 = beSum bs % 65535 := by
  fun_induction leSum bs with
  | case1 a b r ih => unfold beSum; omega
  | case2 a => unfold beSum; omega
  | case3 => rfl

theorem le_be_zero (bs : Bytes) : leSum bs = 0 ↔ beSum bs = 0 := by
  fun_induction leSum bs with
  | case1 a b r ih => unfold beSum; omega
  | case2 a => unfold beSum; omega
  | case3 => simp [beSum]

theorem bswap16_foldv (x : Nat) (h : x ≤ 65535) : bswap16 x = foldv (256 * x) := by
  unfold bswap16 foldv
  have hq : x / 256 % 256 = x / 256 := by omega
  split
  · omega
  · have : (256 * x - 1) % 65535 = x % 256 * 256 + x / 256 - 1 := by
      have e : 256 * x - 1 = 65535 * (x / 256) + (x % 256 * 256 + x / 256 - 1) := by omega
      rw [e, Nat.mul_add_mod]; apply Nat.mod_eq_of_lt; omega
    omega

theorem bswap16_bswap16 (x : Nat) (h : x ≤ 65535) : bswap16 (bswap16 x) = x := by
  unfold bswap16
  have hq : x / 256 % 256 = x / 256 := by omega
  rw [hq]
  have h1 : (x % 256 * 256 + x / 256) / 256 = x % 256 := by omega
  have h2 : (x % 256 * 256 + x / 256) % 256 = x / 256 := by omega
  rw [h1, h2]; omega

theorem bswap16_le (x : Nat) : bswap16 x ≤ 65535 := by unfold bswap16; omega

/-! ### the word loop -/

/-- the words of an even prefix; `sumWords` ignores a trailing single byte -/
def leSumW : Bytes → Nat
  | a :: b :: r => a.toNat + 256 * b.toNat + leSumW r
  | _ => 0

theorem sumWords_eq (bs : Bytes) (acc : Nat) (h : acc < 4294967296) :
    sumWords bs acc = (acc + leSumW bs) % 4294967296 := by
  fun_induction sumWords bs acc with
  | case1 b0 b1 r acc ih =>
    rw [ih (by unfold wrap32; omega), show leSumW (b0 :: b1 :: r) = b0.toNat + 256 * b1.toNat + leSumW r from rfl]
    unfold wrap32; omega
  | case2 bs acc hne =>
    have : leSumW bs = 0 := by
      unfold leSumW
      split
      · exact absurd rfl (hne _ _ _)
      · rfl
    omega

/-- what the split into `[start, last)` and the padding byte computes is the little-endian sum -/
theorem split_odd (bs : Bytes) :
    leSumW (if bs.length % 2 == 1 then bs.dropLast else bs) +
      (if bs.length % 2 == 1 then (bs.getLast?.getD 0).toNat else 0) = leSum bs := by
  fun_induction leSum bs with
  | case1 a b r ih =>
    have hl : (a :: b :: r).length % 2 = r.length % 2 := by simp only [List.length_cons]; omega
    rw [hl]
    by_cases hodd : (r.length % 2 == 1) = true
    · have hne : r ≠ [] := by intro h; subst h; simp at hodd
      simp only [hodd, if_true] at ih ⊢
      obtain ⟨x, r', rfl⟩ := List.exists_cons_of_ne_nil hne
      simp only [List.dropLast_cons_cons, List.getLast?_cons_cons] at ih ⊢
      unfold leSumW; omega
    · simp only [hodd] at ih ⊢
      simp only [Bool.false_eq_true, if_false] at ih ⊢
      unfold leSumW; omega
  | case2 a => simp [leSumW]
  | case3 => simp [leSumW]

/-- `sum_range` is the canonical fold of the little-endian sum, for every range shorter than 128 KiB -/
theorem sumRange_eq (bs : Bytes) (h : bs.length < 131072) : sumRange bs = foldv (leSum bs) := by
  have hb := leSum_le bs
  have hsplit := split_odd bs
  unfold sumRange
  simp only []
  rw [sumWords_eq _ 0 (by omega)]
  have hlt : leSum bs < 4294967296 := by omega
  unfold wrap32 wrap16
  have e : ((0 + leSumW (if (bs.length % 2 == 1) = true then bs.dropLast else bs)) % 4294967296 +
      if (bs.length % 2 == 1) = true then (bs.getLast?.getD 0).toNat else 0) % 4294967296 = leSum bs := by
    omega
  rw [e, fold32_eq _ hlt]
  have := foldv_le (leSum bs); omega

/-! ### the RFC 1071 sum -/

theorem ocAdd_foldv (n w : Nat) (hw : w ≤ 65535) : ocAdd (foldv n) w = foldv (n + w) := by
  unfold ocAdd foldv; split <;> split <;> (try split) <;> omega

theorem beWords_le (bs : Bytes) : ∀ w ∈ beWords bs, w ≤ 65535 := by
  fun_induction beWords bs with
  | case1 a b r ih =>
    intro w hw; have := u8_lt a; have := u8_lt b
    rcases List.mem_cons.mp hw with h | h
    · omega
    · exact ih w h
  | case2 a => intro w hw; have := u8_lt a; simp at hw; omega
  | case3 => intro w hw; simp at hw

theorem beWords_sum (bs : Bytes) : (beWords bs).sum = beSum bs := by
  fun_induction beWords bs with
  | case1 a b r ih => simp [beSum, ih]
  | case2 a => simp [beSum]
  | case3 => simp [beSum]

theorem foldl_ocAdd (ws : List Nat) (n : Nat) (h : ∀ w ∈ ws, w ≤ 65535) :
    ws.foldl ocAdd (foldv n) = foldv (n + ws.sum) := by
  induction ws generalizing n with
  | nil => simp
  | cons w r ih =>
    simp only [List.foldl_cons, List.sum_cons]
    rw [ocAdd_foldv n w (h w (by simp)), ih (n + w) (fun x hx => h x (by simp [hx]))]
    congr 1; omega

/-- the RFC 1071 one's-complement sum is the canonical fold of the big-endian word sum -/
theorem ocSum_eq (bs : Bytes) : ocSum bs = foldv (beSum bs) := by
  unfold ocSum
  have := foldl_ocAdd (beWords bs) 0 (beWords_le bs)
  have h0 : foldv 0 = 0 := by decide
  rw [beWords_sum, h0, Nat.zero_add] at this
  exact this

/-! ### splitting and patching -/

theorem beSum_append (pre x : Bytes) (h : pre.length % 2 = 0) : beSum (pre ++ x) = beSum pre + beSum x := by
  fun_induction beSum pre with
  | case1 a b r ih =>
    have : r.length % 2 = 0 := by simp only [List.length_cons] at h; omega
    simp only [List.cons_append]
    rw [show beSum (a :: b :: (r ++ x)) = a.toNat * 256 + b.toNat + beSum (r ++ x) from rfl, ih this]; omega
  | case2 a => simp at h
  | case3 => simp

theorem leSum_append (pre x : Bytes) (h : pre.length % 2 = 0) : leSum (pre ++ x) = leSum pre + leSum x := by
  fun_induction leSum pre with
  | case1 a b r ih =>
    have : r.length % 2 = 0 := by simp only [List.length_cons] at h; omega
    simp only [List.cons_append]
    rw [show leSum (a :: b :: (r ++ x)) = a.toNat + 256 * b.toNat + leSum (r ++ x) from rfl, ih this]; omega
  | case2 a => simp at h
  | case3 => simp

theorem toNat_ofNat_lt (v : Nat) (h : v < 256) : (UInt8.ofNat v).toNat = v := by
  simp [UInt8.toNat_ofNat']; omega

/-- storing a 16-bit value (little-endian host) over two zero bytes at an even offset adds its byte swap
    to the big-endian word sum -/
theorem beSum_poke16 (buf : Bytes) (off v : Nat) (hoff : off % 2 = 0)
    (h0 : buf[off]? = some 0) (h1 : buf[off + 1]? = some 0) :
    beSum (poke16 buf off v) = beSum buf + bswap16 v := by
  induction buf using beSum.induct generalizing off with
  | case1 a b r ih =>
    match off, hoff with
    | 0, _ =>
      simp at h0 h1
      subst h0; subst h1
      simp only [poke16, List.set_cons_zero, List.set_cons_succ, beSum, bswap16]
      rw [toNat_ofNat_lt _ (by omega), toNat_ofNat_lt _ (by omega)]
      have z : UInt8.toNat 0 = 0 := rfl
      omega
    | 1, h => omega
    | k + 2, hk =>
      have e : poke16 (a :: b :: r) (k + 2) v = a :: b :: poke16 r k v := by
        simp [poke16, List.set_cons_succ]
      rw [e, show beSum (a :: b :: poke16 r k v) = a.toNat * 256 + b.toNat + beSum (poke16 r k v) from rfl,
        ih k (by omega) (by simpa using h0) (by simpa using h1)]
      simp only [beSum]; omega
  | case2 a => simp at h1
  | case3 => simp at h0

theorem length_poke16 (buf : Bytes) (off v : Nat) : (poke16 buf off v).length = buf.length := by
  simp [poke16]

/-- the arithmetic heart of every "compute over zeroed field, complement, store" tail:
    `L` and `B` are the little- and big-endian sums of the covered bytes (checksum field zero), `c` the stored value -/
theorem complement_verifies (L B : Nat) (hmod : (256 * L) % 65535 = B % 65535) (hz : L = 0 ↔ B = 0) :
    foldv (B + bswap16 (65535 - foldv L)) = 65535 := by
  have hl := foldv_le L
  rw [bswap16_foldv _ (by omega)]
  have key : foldv (B + foldv (256 * (65535 - foldv L))) = foldv (B + 256 * (65535 - foldv L)) :=
    foldv_foldv_add _ _
  rw [key]
  have hf : foldv L % 65535 = L % 65535 := by unfold foldv; split <;> omega
  have hfz : foldv L = 0 ↔ L = 0 := foldv_eq_zero L
  generalize foldv L = f at *
  unfold foldv
  split <;> omega

/-- UDP variant: a computed 0 is replaced by 0xffff, which is the other representation of zero -/
theorem complement_verifies_udp (L B : Nat) (hmod : (256 * L) % 65535 = B % 65535) (hz : L = 0 ↔ B = 0) :
    foldv (B + bswap16 (if 65535 - foldv L = 0 then 65535 else 65535 - foldv L)) = 65535 := by
  split
  · rename_i h
    have hl := foldv_le L
    have hb : bswap16 65535 = 65535 := by decide
    rw [hb]
    have hf : foldv L % 65535 = L % 65535 := by unfold foldv; split <;> omega
    have hfz : foldv L = 0 ↔ L = 0 := foldv_eq_zero L
    generalize foldv L = f at *
    unfold foldv
    split <;> omega
  · exact complement_verifies L B hmod hz

/-! ### the generic tail: pseudo-header sum `P` (little-endian, unfolded) + buffer, complement, store -/

theorem leSumW_even (bs : Bytes) (h : bs.length % 2 = 0) : leSumW bs = leSum bs := by
  fun_induction leSum bs with
  | case1 a b r ih =>
    have : r.length % 2 = 0 := by simp only [List.length_cons] at h; omega
    rw [show leSumW (a :: b :: r) = a.toNat + 256 * b.toNat + leSumW r from rfl, ih this]
  | case2 a => simp at h
  | case3 => rfl

theorem sumWords_even (bs : Bytes) (h : bs.length % 2 = 0) (hl : bs.length < 131072) :
    sumWords bs 0 = leSum bs := by
  rw [sumWords_eq _ 0 (by omega), leSumW_even _ h]
  have := leSum_le bs; omega

theorem not32_wrap16 (c : Nat) (h : c ≤ 65535) : wrap16 (not32 c) = 65535 - c := by
  unfold wrap16 not32; omega

/-- every pseudo-header tail of libtins stores `65535 - foldv (P + leSum buf)` -/
theorem tail_value (P : Nat) (buf : Bytes) (hP : P ≤ 2000000) (hlen : buf.length < 131072) :
    wrap16 (not32 (fold32 (wrap32 (P + sumRange buf)))) = 65535 - foldv (P + leSum buf) := by
  rw [sumRange_eq buf hlen]
  have := foldv_le (leSum buf)
  have e : wrap32 (P + foldv (leSum buf)) = P + foldv (leSum buf) := by unfold wrap32; omega
  rw [e, fold32_eq _ (by omega), foldv_foldv_add, not32_wrap16 _ (foldv_le _)]

/-- the stored complement makes the big-endian one's-complement sum of pseudo header ++ buffer all ones -/
theorem stored_verifies (ph buf : Bytes) (P off : Nat) (hph : ph.length % 2 = 0)
    (hmod : (256 * P) % 65535 = beSum ph % 65535) (hz : P = 0 ↔ beSum ph = 0)
    (hoff : off % 2 = 0) (h0 : buf[off]? = some 0) (h1 : buf[off + 1]? = some 0) :
    ocSum (ph ++ poke16 buf off (65535 - foldv (P + leSum buf))) = 65535 := by
  rw [ocSum_eq, beSum_append _ _ hph, beSum_poke16 _ _ _ hoff h0 h1, ← Nat.add_assoc]
  apply complement_verifies
  · have := le_be_mod buf; omega
  · have := le_be_zero buf; omega

theorem stored_verifies_udp (ph buf : Bytes) (P off : Nat) (hph : ph.length % 2 = 0)
    (hmod : (256 * P) % 65535 = beSum ph % 65535) (hz : P = 0 ↔ beSum ph = 0)
    (hoff : off % 2 = 0) (h0 : buf[off]? = some 0) (h1 : buf[off + 1]? = some 0) :
    ocSum (ph ++ poke16 buf off (if 65535 - foldv (P + leSum buf) = 0 then 65535
      else 65535 - foldv (P + leSum buf))) = 65535 := by
  rw [ocSum_eq, beSum_append _ _ hph, beSum_poke16 _ _ _ hoff h0 h1, ← Nat.add_assoc]
  apply complement_verifies_udp
  · have := le_be_mod buf; omega
  · have := le_be_zero buf; omega

/-! ### pseudo headers -/

theorem be16_model_spec (v : Nat) (h : v ≤ 65535) : Tins.Ck.be16 (wrap16 v) = Spec.be16 v := by
  unfold Tins.Ck.be16 Spec.be16 wrap16
  have e1 : v % 65536 / 256 % 256 = v / 256 := by omega
  have e2 : v % 65536 % 256 = v % 256 := by omega
  rw [e1, e2]

/-- libtins' pseudo-header buffer for IPv4 is byte for byte the RFC 768/793 pseudo header -/
theorem pseudo4_bytes (src dst : Bytes) (proto len : Nat) (hp : proto ≤ 255) (hl : len ≤ 65535) :
    src ++ dst ++ Tins.Ck.be16 (wrap16 proto) ++ Tins.Ck.be16 (wrap16 len) = pseudo4 src dst proto len := by
  rw [be16_model_spec _ hl, be16_model_spec _ (by omega)]
  unfold pseudo4 Spec.be16
  have : proto / 256 = 0 := by omega
  have e : proto % 256 = proto := by omega
  rw [this, e]; rfl

theorem pseudoSum_le (src dst : Bytes) (len flag : Nat) (hs : src.length % 2 = 0) (hd : dst.length % 2 = 0)
    (hsl : src.length ≤ 16) (hdl : dst.length ≤ 16) :
    pseudoSum src dst len flag = leSum (src ++ dst ++ Tins.Ck.be16 (wrap16 flag) ++ Tins.Ck.be16 (wrap16 len)) := by
  unfold pseudoSum
  apply sumWords_even
  · simp [Tins.Ck.be16]; omega
  · simp [Tins.Ck.be16]; omega

theorem pseudoSum_small (src dst : Bytes) (len flag : Nat) (hs : src.length % 2 = 0) (hd : dst.length % 2 = 0)
    (hsl : src.length ≤ 16) (hdl : dst.length ≤ 16) : pseudoSum src dst len flag ≤ 2000000 := by
  rw [pseudoSum_le _ _ _ _ hs hd hsl hdl]
  have hl : (src ++ dst ++ Tins.Ck.be16 (wrap16 flag) ++ Tins.Ck.be16 (wrap16 len)).length
      = src.length + dst.length + 4 := by simp [Tins.Ck.be16]; omega
  have := leSum_le (src ++ dst ++ Tins.Ck.be16 (wrap16 flag) ++ Tins.Ck.be16 (wrap16 len))
  rw [hl] at this; omega

/-- the big-endian sum of the RFC 8200 pseudo header equals that of libtins' shorter buffer -/
theorem pseudo6_beSum (src dst : Bytes) (proto len : Nat) (hs : src.length % 2 = 0) (hd : dst.length % 2 = 0)
    (hp : proto ≤ 255) (hl : len ≤ 65535) :
    beSum (pseudo6 src dst proto len) =
      beSum (src ++ dst ++ Tins.Ck.be16 (wrap16 proto) ++ Tins.Ck.be16 (wrap16 len)) := by
  have hsd : (src ++ dst).length % 2 = 0 := by simp; omega
  rw [be16_model_spec _ hl, be16_model_spec _ (by omega)]
  unfold pseudo6
  rw [List.append_assoc (src ++ dst), List.append_assoc (src ++ dst), beSum_append _ _ hsd, beSum_append _ _ hsd]
  rw [Nat.add_left_cancel_iff]
  unfold be32 Spec.be16
  have e0 : len / 65536 = 0 := by omega
  have e1 : len % 65536 = len := by omega
  have e2 : proto / 256 = 0 := by omega
  have e3 : proto % 256 = proto := by omega
  rw [e0, e1, e2, e3]
  simp only [List.cons_append, List.nil_append, beSum]
  have z : (UInt8.ofNat 0).toNat = 0 := rfl
  have z' : UInt8.toNat 0 = 0 := rfl
  simp only [Nat.zero_div, Nat.zero_mod, z, z']
  omega

theorem pseudo6_len (src dst : Bytes) (proto len : Nat) :
    (pseudo6 src dst proto len).length = src.length + dst.length + 8 := by
  simp [pseudo6, be32, Spec.be16]; omega

theorem pseudo4_len (src dst : Bytes) (proto len : Nat) :
    (pseudo4 src dst proto len).length = src.length + dst.length + 4 := by
  simp [pseudo4, Spec.be16]; omega

end Tins.Ck
