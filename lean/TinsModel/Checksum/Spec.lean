import TinsModel.Checksum.Model
/-
  Specification of the Internet checksum, written from RFC 1071 / RFC 791 / RFC 768 / RFC 793 / RFC 8200 /
  RFC 4884 (not from libtins): the data are a sequence of 16-bit big-endian words (a trailing odd byte is
  padded on the right with a zero byte), added in one's-complement arithmetic (end-around carry at every
  addition).  A receiver sums the covered bytes *including* the transmitted checksum; the data verify iff the
  sum is 0xffff (all ones).
-/
namespace Tins.Ck.Spec
open Tins.Ck

/-- the 16-bit big-endian words of a byte string (RFC 1071 §1) -/
def beWords : Bytes → List Nat
  | a :: b :: r => (a.toNat * 256 + b.toNat) :: beWords r
  | [a] => [a.toNat * 256]
  | [] => []

/-- one's-complement addition of two 16-bit values: end-around carry -/
def ocAdd (x y : Nat) : Nat := if x + y ≥ 65536 then x + y - 65535 else x + y

/-- one's-complement sum of the words of `bs` -/
def ocSum (bs : Bytes) : Nat := (beWords bs).foldl ocAdd 0

/-- the checksum a sender computes over data whose checksum field is zero -/
def rfc1071 (bs : Bytes) : Nat := 65535 - ocSum bs

/-- receiver-side verification: the sum including the checksum field is all ones -/
def verifies (bs : Bytes) : Bool := ocSum bs == 65535

def be16 (v : Nat) : Bytes := [UInt8.ofNat (v / 256), UInt8.ofNat (v % 256)]
def be32 (v : Nat) : Bytes := be16 (v / 65536) ++ be16 (v % 65536)

/-- RFC 768 / RFC 793 pseudo header: source, destination, zero, protocol, length -/
def pseudo4 (src dst : Bytes) (proto len : Nat) : Bytes :=
  src ++ dst ++ [0, UInt8.ofNat proto] ++ be16 len

/-- RFC 8200 §8.1 pseudo header: source, destination, 32-bit upper-layer length, 3 zero bytes, next header -/
def pseudo6 (src dst : Bytes) (proto len : Nat) : Bytes :=
  src ++ dst ++ be32 len ++ [0, 0, 0, UInt8.ofNat proto]

end Tins.Ck.Spec
