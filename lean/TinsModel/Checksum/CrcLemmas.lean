import TinsModel.Checksum.Crc
/-
  The nibble-table CRC equals the bitwise CRC: the register update is GF(2)-linear, so four bit steps on `x`
  are a 4-bit shift of the high part plus a function of the low nibble (`nibble_step`); libtins' table is the
  standard nibble table re-indexed and offset so that the register holds the complement of the standard register
  (`table_entries`, the 16 entries checked by `decide`).
-/
namespace Tins.Ck
open Tins.Ck.Spec

theorem xor_cancel (p z : BitVec 32) : p ^^^ (p ^^^ z) = z := by
  rw [← BitVec.xor_assoc, BitVec.xor_self, BitVec.zero_xor]

theorem bitStep_xor (a b : BitVec 32) : bitStep (a ^^^ b) = bitStep a ^^^ bitStep b := by
  unfold bitStep
  rw [BitVec.getLsbD_xor, BitVec.ushiftRight_xor_distrib]
  cases a.getLsbD 0 <;> cases b.getLsbD 0 <;> simp <;> (try ac_rfl)
  rw [show a >>> 1 ^^^ poly ^^^ (b >>> 1 ^^^ poly) = poly ^^^ (poly ^^^ (a >>> 1 ^^^ b >>> 1)) by ac_rfl, xor_cancel]

theorem bitStep_even (a : BitVec 32) (h : a.getLsbD 0 = false) : bitStep a = a >>> 1 := by
  unfold bitStep; simp only [h, Bool.false_eq_true, if_false]

/-- four bit steps -/
def step4 (c : BitVec 32) : BitVec 32 := bitStep (bitStep (bitStep (bitStep c)))

theorem step4_xor (a b : BitVec 32) : step4 (a ^^^ b) = step4 a ^^^ step4 b := by
  unfold step4; simp only [bitStep_xor]

theorem bit15 (i : Nat) (h4 : ¬ i < 4) (hi : i < 32) : (15#32)[i] = false := by
  rw [← BitVec.getLsbD_eq_getElem, BitVec.getLsbD_ofNat]
  simp only [Bool.and_eq_false_imp, decide_eq_true_eq]
  intro _
  apply Nat.testBit_lt_two_pow
  calc 15 < 2 ^ 4 := by decide
    _ ≤ 2 ^ i := Nat.pow_le_pow_right (by decide) (by omega)

theorem split_nibble (x : BitVec 32) : x = ((x >>> 4) <<< 4) ^^^ (x &&& 15#32) := by
  ext i hi
  simp only [BitVec.getElem_xor, BitVec.getElem_and, BitVec.getElem_shiftLeft, BitVec.getElem_ushiftRight]
  by_cases h4 : i < 4
  · have : i = 0 ∨ i = 1 ∨ i = 2 ∨ i = 3 := by omega
    rcases this with rfl | rfl | rfl | rfl <;> simp
  · have e : 4 + (i - 4) = i := by omega
    simp [h4, e, bit15 i h4 hi, BitVec.getLsbD_eq_getElem hi]

theorem step4_hi (y : BitVec 32) : step4 (y <<< 4) = (y <<< 4) >>> 4 := by
  unfold step4
  rw [bitStep_even (y <<< 4) (by simp)]
  rw [bitStep_even ((y <<< 4) >>> 1) (by simp)]
  rw [bitStep_even ((y <<< 4) >>> 1 >>> 1) (by simp)]
  rw [bitStep_even ((y <<< 4) >>> 1 >>> 1 >>> 1) (by simp)]
  rw [← BitVec.shiftRight_add, ← BitVec.shiftRight_add, ← BitVec.shiftRight_add]

theorem shl_shr_cancel (x : BitVec 32) : ((x >>> 4) <<< 4) >>> 4 = x >>> 4 := by
  ext i hi
  simp only [BitVec.getElem_ushiftRight, BitVec.getLsbD_shiftLeft, BitVec.getLsbD_ushiftRight]
  by_cases h : 4 + i < 32
  · have e : 4 + (4 + i - 4) = 4 + i := by omega
    simp [h]
  · have : x.getLsbD (4 + i) = false := BitVec.getLsbD_of_ge _ _ (by omega)
    simp [h, this]

/-- **nibble step**: four bit steps shift the register by four and add a function of the low nibble only -/
theorem nibble_step (x : BitVec 32) : step4 x = (x >>> 4) ^^^ step4 (x &&& 15#32) := by
  have h := split_nibble x
  have : step4 x = step4 (((x >>> 4) <<< 4) ^^^ (x &&& 15#32)) := by rw [← h]
  rw [this, step4_xor, step4_hi, shl_shr_cancel]

/-! ### libtins' table -/

/-- the 16 table entries of the source: the standard nibble table re-indexed by `k ^ 15` and offset by
    0xF0000000, which keeps the *complement* of the standard register in `crc` -/
theorem table_entries : ∀ k : Fin 16,
    crcTbl (BitVec.ofNat 32 k.val) = step4 (BitVec.ofNat 32 k.val ^^^ 15#32) ^^^ 0xF0000000#32 := by
  decide

theorem xor_and (a b m : BitVec 32) : (a ^^^ b) &&& m = (a &&& m) ^^^ (b &&& m) := by
  ext i hi
  simp only [BitVec.getElem_xor, BitVec.getElem_and]
  cases a[i] <;> cases b[i] <;> cases m[i] <;> rfl

theorem low_nibble_ofNat (k : BitVec 32) : ∃ j : Fin 16, k &&& 15#32 = BitVec.ofNat 32 j.val := by
  have h : (k &&& 15#32).toNat < 16 := by
    rw [BitVec.toNat_and]
    have : k.toNat &&& (15#32).toNat ≤ (15#32).toNat := Nat.and_le_right
    have e : (15#32).toNat = 15 := by decide
    omega
  refine ⟨⟨(k &&& 15#32).toNat, h⟩, ?_⟩
  apply BitVec.eq_of_toNat_eq
  simp only [BitVec.toNat_ofNat]
  omega

theorem table_lookup (k : BitVec 32) :
    crcTbl (k &&& 15#32) = step4 ((k &&& 15#32) ^^^ 15#32) ^^^ 0xF0000000#32 := by
  obtain ⟨j, hj⟩ := low_nibble_ofNat k
  rw [hj]; exact table_entries j

def allOnes32 : BitVec 32 := 0xFFFFFFFF#32

/-- table step of libtins on nibble `n` -/
def nibT (c n : BitVec 32) : BitVec 32 := (c >>> 4) ^^^ crcTbl ((c ^^^ n) &&& 15#32)
/-- four bit steps of the definition after adding nibble `n` -/
def nibS (c n : BitVec 32) : BitVec 32 := step4 (c ^^^ n)

/-- one nibble: the table step on the complemented register is the complement of the four bit steps -/
theorem nib_corr (c n : BitVec 32) (hn : n >>> 4 = 0#32) :
    nibT (c ^^^ allOnes32) n = nibS c n ^^^ allOnes32 := by
  unfold nibT nibS
  rw [nibble_step (c ^^^ n), BitVec.ushiftRight_xor_distrib, BitVec.ushiftRight_xor_distrib, hn,
    BitVec.xor_zero]
  have e1 : c ^^^ allOnes32 ^^^ n = c ^^^ n ^^^ allOnes32 := by ac_rfl
  rw [e1, table_lookup]
  have e2 : ((c ^^^ n ^^^ allOnes32) &&& 15#32) ^^^ 15#32 = (c ^^^ n) &&& 15#32 := by
    rw [xor_and (c ^^^ n) allOnes32 15#32]
    have : allOnes32 &&& 15#32 = 15#32 := by decide
    rw [this, BitVec.xor_assoc, BitVec.xor_self, BitVec.xor_zero]
  rw [e2]
  have e3 : allOnes32 >>> 4 ^^^ 0xF0000000#32 = allOnes32 := by decide
  calc c >>> 4 ^^^ allOnes32 >>> 4 ^^^ (step4 ((c ^^^ n) &&& 15#32) ^^^ 0xF0000000#32)
      = c >>> 4 ^^^ step4 ((c ^^^ n) &&& 15#32) ^^^ (allOnes32 >>> 4 ^^^ 0xF0000000#32) := by ac_rfl
    _ = _ := by rw [e3]

theorem byte_hi_zero (d : UInt8) : (BitVec.ofNat 32 d.toNat >>> 4) >>> 4 = 0#32 := by
  apply BitVec.eq_of_toNat_eq
  have := UInt8.toNat_lt d
  simp only [BitVec.toNat_ushiftRight, BitVec.toNat_ofNat, Nat.shiftRight_eq_div_pow]
  have : d.toNat % 2 ^ 32 = d.toNat := Nat.mod_eq_of_lt (by omega)
  rw [this]; simp; omega

theorem low_hi_zero (x : BitVec 32) : (x &&& 15#32) >>> 4 = 0#32 := by
  apply BitVec.eq_of_toNat_eq
  simp only [BitVec.toNat_ushiftRight, BitVec.toNat_and, Nat.shiftRight_eq_div_pow]
  have : x.toNat &&& (15#32).toNat ≤ (15#32).toNat := Nat.and_le_right
  have e : (15#32).toNat = 15 := by decide
  rw [e] at this ⊢
  simp; omega

/-- one byte: the two table steps of libtins track the eight bit steps of the definition -/
theorem byte_corr (c : BitVec 32) (d : UInt8) :
    crcByteT (c ^^^ allOnes32) d = crcByteS c d ^^^ allOnes32 := by
  have hT : ∀ c' : BitVec 32, crcByteT c' d =
      nibT (nibT c' (BitVec.ofNat 32 d.toNat &&& 15#32)) (BitVec.ofNat 32 d.toNat >>> 4) := by
    intro c'
    unfold crcByteT nibT
    simp only []
    have m : ∀ a x : BitVec 32, (a ^^^ (x &&& 15#32)) &&& 15#32 = (a ^^^ x) &&& 15#32 := by
      intro a x; rw [xor_and, xor_and, BitVec.and_assoc, BitVec.and_self]
    rw [m]
  have hS : crcByteS c d =
      nibS (nibS c (BitVec.ofNat 32 d.toNat &&& 15#32)) (BitVec.ofNat 32 d.toNat >>> 4) := by
    unfold crcByteS nibS
    generalize BitVec.ofNat 32 d.toNat = x
    have hx := split_nibble x
    have : step4 (c ^^^ x) = step4 (c ^^^ (x &&& 15#32)) ^^^ x >>> 4 := by
      have e : c ^^^ x = (c ^^^ (x &&& 15#32)) ^^^ ((x >>> 4) <<< 4) := by
        rw [BitVec.xor_assoc, BitVec.xor_comm (x &&& 15#32), ← hx]
      rw [e, step4_xor, step4_hi, shl_shr_cancel]
    rw [← this]; rfl
  rw [hT, hS, nib_corr _ _ (low_hi_zero _), nib_corr _ _ (byte_hi_zero d)]

theorem fold_corr (data : Bytes) (c : BitVec 32) :
    data.foldl crcByteT (c ^^^ allOnes32) = data.foldl crcByteS c ^^^ allOnes32 := by
  induction data generalizing c with
  | nil => rfl
  | cons d r ih => simp only [List.foldl_cons]; rw [byte_corr, ih]

end Tins.Ck
