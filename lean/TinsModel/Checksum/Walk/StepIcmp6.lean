import TinsModel.Checksum.Walk.StepIcmp
/-
  One layer of the induction behind `length_fields`: ICMPv6 — checksum with the IPv6 pseudo header (the extension headers
  of the enclosing IPv6 layer do not enter it), and the RFC 4884 layout in 64-bit units.
-/
namespace Tins.Ck.Ser
open Tins.Ck Tins.Ck.Dissect Tins.Ck.Spec

theorem icmp6_octet_ext (type : Nat) (lenflag : Bool) (sz : Nat) (exts : List (Nat × Nat × Bytes))
    (hal : type = 1 ∨ type = 3) (he : exts.isEmpty = false) (hov : paddedInner (some sz) 8 < 2048) :
    icmp6LengthOctet type lenflag 0 (some sz) exts < 256 ∧
    (if icmp6LengthOctet type lenflag 0 (some sz) exts ≠ 0 then icmp6LengthOctet type lenflag 0 (some sz) exts * 8 else 128)
      = (if paddedInner (some sz) 8 > 128 then paddedInner (some sz) 8 else 128) := by
  obtain ⟨h4, hge, hlt, _⟩ := paddedInner_some sz 8 (by omega)
  unfold icmp6LengthOctet
  simp only [hal, true_and, he, Bool.not_false, and_true]
  generalize paddedInner (some sz) 8 = lv at *
  cases lenflag <;> simp only [Bool.false_eq_true, if_false, if_true] <;> (repeat' split) <;> omega

theorem icmp6_octet_plain (type : Nat) (lenflag : Bool) (isz : Option Nat) (exts : List (Nat × Nat × Bytes))
    (hal : type = 1 ∨ type = 3) (he : exts.isEmpty = true) (hov : paddedInner isz 8 < 2048) :
    icmp6LengthOctet type lenflag 0 isz exts < 256 ∧
    (icmp6LengthOctet type lenflag 0 isz exts ≠ 0 →
      (lenflag = true ∨ paddedInner isz 8 > 128) ∧ icmp6LengthOctet type lenflag 0 isz exts * 8 = paddedInner isz 8 ∧
      paddedInner isz 8 ≠ 0) := by
  have h4 : paddedInner isz 8 % 8 = 0 := by
    cases isz with
    | none => rfl
    | some sz => exact (paddedInner_some sz 8 (by omega)).1
  unfold icmp6LengthOctet
  simp only [hal, true_and, he, Bool.not_true, Bool.false_eq_true, and_false, if_false]
  generalize paddedInner isz 8 = lv at *
  cases lenflag with
  | false =>
    simp only [Bool.false_eq_true, if_false, ne_eq, not_true_eq_false, false_or]
    by_cases h : lv > 128
    · simp only [h, if_true, true_and]
      exact ⟨by omega, fun _ => ⟨by omega, by omega⟩⟩
    · simp only [h, if_false]; simp
  | true =>
    simp only [if_true, ne_eq, Nat.succ_ne_self, not_false_eq_true, true_or, true_and]
    exact ⟨by omega, fun _ => ⟨by omega, by omega⟩⟩

theorem icmp6_octet_other (type : Nat) (user : Nat) (isz : Option Nat) (exts : List (Nat × Nat × Bytes))
    (hal : ¬ (type = 1 ∨ type = 3)) : icmp6LengthOctet type false user isz exts = user := by
  unfold icmp6LengthOctet; simp [hal]

theorem icmp6_trailer_ext (type code id seq : Nat) (lf : Bool) (exts : List (Nat × Nat × Bytes)) (rest : List Layer)
    (he : exts.isEmpty = false) (hre : rest.isEmpty = false) :
    trailerSize (.icmp6 type code id seq lf exts) (if rest.isEmpty then none else some (size rest)) - extStructSize exts
      = (if paddedInner (some (size rest)) 8 > 128 then paddedInner (some (size rest)) 8 else 128) - size rest := by
  simp only [trailerSize, he, hre, Bool.false_eq_true, if_false]; omega

theorem icmp6Tail_u8 (par : Parent) (buf : Bytes) (s i : Nat) (h1 : i ≠ 2) (h2 : i ≠ 3) :
    u8 (icmp6Tail par buf s) i = u8 buf i := by
  cases par with
  | other => rfl
  | ip4 a b => rfl
  | ip6 a b => simp only [icmp6Tail]; exact u8_poke16_ne _ _ _ _ h1 (by omega)

theorem step_icmp6 (type code id seq : Nat) (lenflag : Bool) (exts : List (Nat × Nat × Bytes)) (rest : List Layer)
    (p : Option Layer)
    (hr : inRange (.icmp6 type code id seq lenflag exts) = true) (hall : rest.all wf = true) (hp : parentWf p)
    (hsz : size (.icmp6 type code id seq lenflag exts :: rest) ≤ 65535)
    (hext : exts.isEmpty = true ∨ ((type = 1 ∨ type = 3) ∧ rest.isEmpty = false))
    (hlf : lenflag = true → (type = 1 ∨ type = 3))
    (hkf2 : ¬ ((type = 1 ∨ type = 3) ∧ exts.isEmpty = true ∧ rest.isEmpty = false ∧
      (lenflag = true ∨ paddedInner (some (size rest)) 8 > 128) ∧ size rest % 8 ≠ 0))
    (hkf11 : ¬ ((type = 1 ∨ type = 3) ∧ rest.isEmpty = false ∧ paddedInner (some (size rest)) 8 ≥ 2048))
    (ih : Acc rest (some (.icmp6 type code id seq lenflag exts)) (if exts.isEmpty then 0 else
      trailerSize (.icmp6 type code id seq lenflag exts) (if rest.isEmpty then none else some (size rest))
        - extStructSize exts)) :
    Acc (.icmp6 type code id seq lenflag exts :: rest) p 0 := by
  unfold Acc at ih ⊢
  simp only [inRange, Bool.and_eq_true, decide_eq_true_eq, Bool.or_eq_true, bne_iff_ne, ne_eq, beq_iff_eq] at hr
  obtain ⟨⟨⟨⟨⟨r1, r2⟩, r3⟩, r4⟩, r8⟩, r9⟩ := hr
  have hlen := serialize_length (.icmp6 type code id seq lenflag exts :: rest) p (by
    simp only [List.all_cons, Bool.and_eq_true]; exact ⟨rfl, hall⟩)
  have hin := serialize_length rest (some (.icmp6 type code id seq lenflag exts)) hall
  rw [show walkPar (some (Layer.icmp6 type code id seq lenflag exts)) = .other from rfl] at ih
  simp only [zeros_zero, List.append_nil]
  have hxs : extStructSize exts ≤ 65535 := by
    simp only [size, trailerSize] at hsz
    by_cases he : exts.isEmpty = true
    · have : exts = [] := List.isEmpty_iff.mp he
      subst this; simp [extStructSize]
    · simp only [he, Bool.false_eq_true, if_false] at hsz; omega
  simp only [serialize, write] at hlen ⊢
  generalize hI : serialize rest (some (.icmp6 type code id seq lenflag exts)) = I at *
  generalize hO : icmp6LengthOctet type lenflag (id / 256 % 256) (if rest.isEmpty then none else some (size rest)) exts = O at *
  generalize hT : rfc4884Tail 8 (if rest.isEmpty then none else some (size rest)) exts = T at *
  rw [show [b8 type, b8 code, 0, 0, b8 O, b8 id] ++ w16 seq ++ I ++ T
    = ([b8 type, b8 code, 0, 0, b8 O, b8 id] ++ w16 seq) ++ (I ++ T) by simp only [List.append_assoc]] at hlen ⊢
  generalize hH : [b8 type, b8 code, 0, 0, b8 O, b8 id] ++ w16 seq = H at *
  have hHl : H.length = 8 := by rw [← hH]; rfl
  rw [length_icmp6Tail] at hlen
  generalize hS : headerSize (Layer.icmp6 type code id seq lenflag exts) + I.length
    + trailerSize (Layer.icmp6 type code id seq lenflag exts) (if rest.isEmpty = true then none else some (size rest)) = S at *
  have hSv : S = (H ++ (I ++ T)).length := by
    rw [← hS, hlen]; simp only [size, hin]
  have hsplit := icmp6Tail_split (walkPar p) H (I ++ T) S (by omega)
  have hbl : (icmp6Tail (walkPar p) (H ++ (I ++ T)) S).length = 8 + (I ++ T).length := by
    rw [length_icmp6Tail, List.length_append, hHl]
  have rd8 : ∀ i, i < 8 → i ≠ 2 → i ≠ 3 → u8 (icmp6Tail (walkPar p) (H ++ (I ++ T)) S) i = u8 H i := by
    intro i h1 h2 h3
    rw [icmp6Tail_u8 _ _ _ _ h2 h3, u8_append_left _ _ _ (by omega)]
  have rd16 : ∀ i, i + 1 < 8 → 3 < i → be16At (icmp6Tail (walkPar p) (H ++ (I ++ T)) S) i = be16At H i := by
    intro i h1 h2; unfold be16At; rw [rd8 _ (by omega) (by omega) (by omega), rd8 _ (by omega) (by omega) (by omega)]
  have hdrop : (icmp6Tail (walkPar p) (H ++ (I ++ T)) S).drop 8 = I ++ T := by
    rw [hsplit]; exact drop_append_len _ _ _ (by rw [length_take_of_le _ _ (by rw [length_icmp6Tail]; simp)]; exact hHl)
  have h4 : u8 (icmp6Tail (walkPar p) (H ++ (I ++ T)) S) 4 = O % 256 := by
    rw [rd8 4 (by omega) (by omega) (by omega), ← hH]
    simp only [List.cons_append, u8_cons_succ, u8_cons_zero, b8_toNat]
  apply walk_icmp6_intro
  · rw [hbl]; omega
  · -- the checksum with the IPv6 pseudo header
    cases hpar : walkPar p with
    | other => trivial
    | ip4 s d => trivial
    | ip6 s d =>
      have hw : s.length = 16 ∧ d.length = 16 := by
        cases p with
        | none => simp [walkPar] at hpar
        | some q =>
          cases q <;> simp only [walkPar, parentOf, reduceCtorEq] at hpar
          obtain ⟨rfl, rfl⟩ := hpar
          simp only [parentWf, wf, Bool.and_eq_true, beq_iff_eq] at hp; exact ⟨hp.1, hp.2⟩
      have := Verify.icmpv6_checksum_verifies s d (H ++ (I ++ T)) hw.1 hw.2 (by rw [hlen]; exact hsz)
        (by rw [← hH]; rfl) (by rw [← hH]; rfl)
      simp only [length_icmp6Tail]
      rw [← hSv] at this ⊢; exact this
  · rw [rd8 0 (by omega) (by omega) (by omega), ← hH]; simp only [List.cons_append, u8_cons_zero, b8_toNat]; omega
  · rw [rd8 1 (by omega) (by omega) (by omega), ← hH]; simp only [List.cons_append, u8_cons_succ, u8_cons_zero, b8_toNat]; omega
  · intro hna
    have hlf' : lenflag = false := by cases lenflag; rfl; exact absurd (hlf rfl) hna
    have hOv : O = id / 256 % 256 := by rw [← hO, hlf']; exact icmp6_octet_other _ _ _ _ hna
    constructor
    · rw [rd16 4 (by omega) (by omega), ← hH, hOv]
      simp only [List.cons_append, be16At_cons, be16At_zero_cons, b8_toNat]; omega
    · rw [rd16 6 (by omega) (by omega), ← hH]
      simp only [List.cons_append, List.nil_append, be16At_cons]
      rw [show w16 seq = w16 seq ++ [] by simp, be16At_w16']; omega
  · rw [hdrop, h4, ← hT]
    have ih' : walk true rest (I ++ zeros (if exts.isEmpty then 0 else
          (if paddedInner (some (size rest)) 8 > 128 then paddedInner (some (size rest)) 8 else 128) - size rest)) .other
        = .ok (zeros (if exts.isEmpty then 0 else
          (if paddedInner (some (size rest)) 8 > 128 then paddedInner (some (size rest)) 8 else 128) - size rest)) := by
      rcases hext with he | ⟨_, hre⟩
      · simp only [he, if_true] at ih ⊢; exact ih
      · by_cases he : exts.isEmpty = true
        · simp only [he, if_true] at ih ⊢; exact ih
        · have he' : exts.isEmpty = false := by simpa using he
          rw [icmp6_trailer_ext _ _ _ _ _ _ _ he' hre] at ih
          simp only [he', Bool.false_eq_true, if_false] at ih ⊢; exact ih
    by_cases hal : type = 1 ∨ type = 3
    · have hid : id = 0 := by rcases r8 with h | h; (· omega); exact h.1
      subst hid
      simp only [hal, if_true]
      rw [show 0 / 256 % 256 = 0 from rfl] at hO
      by_cases he : exts.isEmpty = true
      · have hov : paddedInner (if rest.isEmpty then none else some (size rest)) 8 < 2048 := by
          cases hre : rest.isEmpty with
          | true => simp [paddedInner]
          | false => simp only [Bool.false_eq_true, if_false]; exact Nat.lt_of_not_le (fun h => hkf11 ⟨hal, hre, h⟩)
        obtain ⟨o1, o2⟩ := icmp6_octet_plain type lenflag _ exts hal he hov
        rw [hO] at o1 o2
        rw [Nat.mod_eq_of_lt o1]
        apply icmp_tail_ok "icmp6" 8 (Or.inr rfl) rest exts O I hin r9 hxs _ ih'
        refine Or.inr ⟨he, fun hne => ?_⟩
        obtain ⟨q1, q2, q3⟩ := o2 hne
        cases hre : rest.isEmpty with
        | true => simp [hre, paddedInner] at q3
        | false =>
          simp only [hre, Bool.false_eq_true, if_false] at q1 q2
          have h8 : size rest % 8 = 0 := Classical.byContradiction (fun hn => hkf2 ⟨hal, he, hre, q1, hn⟩)
          rw [q2]; exact (paddedInner_some (size rest) 8 (by omega)).2.2.2 h8
      · have he' : exts.isEmpty = false := by simpa using he
        have hre : rest.isEmpty = false := by rcases hext with h | h; (· exact absurd h he); exact h.2
        simp only [hre, Bool.false_eq_true, if_false] at hO ⊢
        have hov : paddedInner (some (size rest)) 8 < 2048 := Nat.lt_of_not_le (fun h => hkf11 ⟨hal, hre, h⟩)
        obtain ⟨o1, o2⟩ := icmp6_octet_ext type lenflag (size rest) exts hal he' hov
        rw [hO] at o1 o2
        rw [Nat.mod_eq_of_lt o1]
        have := icmp_tail_ok "icmp6" 8 (Or.inr rfl) rest exts O I hin r9 hxs (Or.inl ⟨he', hre, o2⟩) ih'
        simp only [hre, Bool.false_eq_true, if_false] at this; exact this
    · have he : exts.isEmpty = true := by rcases hext with h | h; exact h; exact absurd h.1 hal
      simp only [hal, if_false]
      exact icmp_tail_ok "icmp6" 8 (Or.inr rfl) rest exts 0 I hin r9 hxs (Or.inr ⟨he, fun h => absurd rfl h⟩) ih'

end Tins.Ck.Ser
