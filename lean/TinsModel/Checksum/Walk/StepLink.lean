import TinsModel.Checksum.Walk.StepL2
import TinsModel.Checksum.Verify
/-
  One layer of the induction behind `length_fields`: EthernetII, 802.3, PPPoE, RC4 EAPOL, RadioTap.
-/
namespace Tins.Ck.Ser
open Tins.Ck Tins.Ck.Dissect Tins.Gen

/-- the EtherType `EthernetII::write_serialization` derives: what the dissector expects for the follower -/
theorem eth_flag_names (type : Nat) (rest : List Layer) (n : Layer) (w : Nat) (hall : rest.all wf = true)
    (hn : rest.head? = some n) (hw : etherTypeOf n (rest.drop 1).head? = some w) :
    ethPayloadType type rest = w ∧ w < 65536 := by
  have hwf := head_wf rest n hall hn
  unfold ethPayloadType
  rw [hn]
  cases n with
  | ip a b c d e f g h i => simp only [etherTypeOf, Option.some.injEq] at hw; subst hw; exact ⟨rfl, by decide⟩
  | ip6 a b c d e f g => simp only [etherTypeOf, Option.some.injEq] at hw; subst hw; exact ⟨rfl, by decide⟩
  | mpls a b c d => simp only [etherTypeOf, Option.some.injEq] at hw; subst hw; exact ⟨rfl, by decide⟩
  | eapol a b => simp only [etherTypeOf, Option.some.injEq] at hw; subst hw; exact ⟨rfl, by decide⟩
  | pppoe code a b c =>
    simp only [etherTypeOf, Option.some.injEq] at hw; subst hw
    by_cases hc : code = 0 <;> simp [hc, TagsC05.ethPPPOES, TagsC05.ethPPPOED, TagsC05.ethUNKNOWN]
  | dot1q a b c d e =>
    simp only [etherTypeOf] at hw
    cases h2 : (rest.drop 1).head? with
    | none => rw [h2] at hw; simp only [Option.some.injEq] at hw; subst hw; exact ⟨rfl, by decide⟩
    | some m =>
      rw [h2] at hw
      cases m <;> simp only [Option.some.injEq] at hw <;> subst hw <;> exact ⟨rfl, by decide⟩
  | «opaque» _ _ _ => simp [wf] at hwf
  | _ => simp [etherTypeOf] at hw

theorem step_eth (dst src : Bytes) (type : Nat) (rest : List Layer) (p : Option Layer)
    (hwf : wf (.eth dst src type) = true) (hall : rest.all wf = true)
    (ih : Acc rest (some (.eth dst src type)) (46 - size rest)) :
    Acc (.eth dst src type :: rest) p 0 := by
  unfold Acc at ih ⊢
  simp only [wf, Bool.and_eq_true, beq_iff_eq] at hwf
  have hin := serialize_length rest (some (.eth dst src type)) hall
  rw [show walkPar (some (Layer.eth dst src type)) = .other from rfl] at ih
  simp only [serialize, write, eth_trl, List.append_assoc, zeros_zero, List.append_nil]
  apply walk_eth_intro (t := zeros (46 - size rest))
  · simp [hwf.1] <;> omega
  · exact slice_zero _ _ 6 hwf.1
  · exact slice_mid _ _ _ 6 12 hwf.1 (by omega)
  · intro n hn w hw
    obtain ⟨e1, e2⟩ := eth_flag_names type rest n w hall hn hw
    rw [← List.append_assoc, be16At_at_len _ _ 12 (by simp [hwf.1, hwf.2]), be16At_w16', e1]; omega
  · rw [drop_len_add _ _ 6 8 hwf.1, drop_len_add _ _ 6 2 hwf.2, drop_w16 _ 0]; exact ih
  · exact allZero_zeros _
  · simp only [List.length_append, length_w16, length_zeros, hin, hwf.1, hwf.2]
    split <;> omega

theorem step_dot3 (dst src : Bytes) (rest : List Layer) (p : Option Layer)
    (hwf : wf (.dot3 dst src) = true) (hall : rest.all wf = true) (hsz : size rest ≤ 65535)
    (ih : Acc rest (some (.dot3 dst src)) 0) : Acc (.dot3 dst src :: rest) p 0 := by
  unfold Acc at ih ⊢
  simp only [wf, Bool.and_eq_true, beq_iff_eq] at hwf
  have hin := serialize_length rest (some (.dot3 dst src)) hall
  rw [show walkPar (some (Layer.dot3 dst src)) = .other from rfl] at ih
  simp only [zeros_zero, List.append_nil] at ih ⊢
  simp only [serialize, write, List.append_assoc, headerSize, trailerSize]
  apply walk_dot3_intro (len := size rest)
  · simp [hwf.1] <;> omega
  · exact slice_zero _ _ 6 hwf.1
  · exact slice_mid _ _ _ 6 12 hwf.1 (by omega)
  · rw [← List.append_assoc, be16At_at_len _ _ 12 (by simp [hwf.1, hwf.2]), be16At_w16', hin]; omega
  · simp only [List.length_append, length_w16, hin, hwf.1, hwf.2]; omega
  · rw [show ∀ x : Bytes, dst ++ (src ++ (w16 (14 + (serialize rest (some (Layer.dot3 dst src))).length + 0 - 14) ++ x))
      = (dst ++ src ++ w16 (14 + (serialize rest (some (Layer.dot3 dst src))).length + 0 - 14)) ++ x by
        intro x; simp only [List.append_assoc]]
    rw [slice_to_end _ _ 14 _ (by simp [hwf.1, hwf.2]) (by omega)]; exact ih

theorem w16_ofNat (v : Nat) : w16 v = [UInt8.ofNat (v / 256), UInt8.ofNat (v % 256)] := by
  unfold w16; rw [ofNat_eq_b8 (v / 256)]; rfl

theorem pppoe_tag_bytes (tags : List (Nat × Bytes)) :
    tags.foldr (fun (t, d) acc => w16 t ++ w16 d.length ++ d ++ acc) [] = pppoeTagBytes tags := by
  unfold pppoeTagBytes
  simp only [w16_ofNat, List.cons_append, List.nil_append]

/-- PPPoE session packet (code 0, no tags): the payload length is the size of the carried stack -/
theorem step_pppoe_session (sess plen : Nat) (rest : List Layer) (p : Option Layer) (k : Nat)
    (hr : inRange (.pppoe 0 sess plen []) = true) (hall : rest.all wf = true) (hsz : size rest ≤ 65535)
    (ih : Acc rest (some (.pppoe 0 sess plen [])) 0) : Acc (.pppoe 0 sess plen [] :: rest) p k := by
  unfold Acc at ih ⊢
  simp only [inRange, Bool.and_eq_true, decide_eq_true_eq] at hr
  have hin := serialize_length rest (some (.pppoe 0 sess plen [])) hall
  rw [show walkPar (some (Layer.pppoe 0 sess plen [])) = .other from rfl] at ih
  simp only [zeros_zero, List.append_nil] at ih
  have hpl : (if headerSize (Layer.pppoe 0 sess plen []) - 6 > 0 ∨ (!rest.isEmpty) = true then
      headerSize (Layer.pppoe 0 sess plen []) + (serialize rest (some (Layer.pppoe 0 sess plen []))).length
        + trailerSize (Layer.pppoe 0 sess plen []) (if rest.isEmpty = true then none else some (size rest)) - 6
      else 0) = size rest := by
    simp only [headerSize, trailerSize, List.foldl_nil, hin]
    cases rest with
    | nil => simp [size]
    | cons a r => simp
  simp only [serialize, write, hpl, List.foldr_nil, List.append_assoc, List.cons_append, List.nil_append]
  have e : (zeros k).drop 0 = zeros k := rfl
  have := walk_pppoe_session_intro sess plen [] rest
    (17 :: b8 0 :: (w16 sess ++ (w16 (size rest) ++ (serialize rest (some (Layer.pppoe 0 sess plen [])) ++ zeros k))))
    (walkPar p) (size rest)
    (by simp <;> omega) rfl rfl
    (by simp only [be16At_cons, be16At_w16']; omega)
    (by simp only [be16At_cons, be16At_w16_skip _ 0, be16At_w16']; omega)
    (by simp [hin] <;> omega)
    (by
      rw [show ∀ x : Bytes, (17 : UInt8) :: b8 0 :: (w16 sess ++ (w16 (size rest) ++ x))
        = ([17, b8 0] ++ w16 sess ++ w16 (size rest)) ++ x by intro x; simp only [List.append_assoc, List.cons_append, List.nil_append]]
      rw [slice_mid _ _ _ 6 _ (by simp) (by omega)]; exact ih)
  rw [this]
  rw [show ∀ x : Bytes, (17 : UInt8) :: b8 0 :: (w16 sess ++ (w16 (size rest) ++ x))
    = ([17, b8 0] ++ w16 sess ++ w16 (size rest)) ++ x by intro x; simp only [List.append_assoc, List.cons_append, List.nil_append]]
  rw [Nat.add_comm, drop_len_add _ _ 6 _ (by simp), ← hin, drop_append_len _ _ _ rfl]

/-- PPPoE discovery packet (code ≠ 0, nothing carried): the payload length is the size of the tag list -/
theorem step_pppoe_discovery (code sess plen : Nat) (tags : List (Nat × Bytes)) (p : Option Layer) (k : Nat)
    (hc : code ≠ 0) (hwf : wf (.pppoe code sess plen tags) = true) (hr : inRange (.pppoe code sess plen tags) = true) :
    Acc [.pppoe code sess plen tags] p k := by
  unfold Acc
  simp only [inRange, Bool.and_eq_true, decide_eq_true_eq] at hr
  simp only [wf, decide_eq_true_eq] at hwf
  have hts : headerSize (Layer.pppoe code sess plen tags) - 6 = (pppoeTagBytes tags).length := by
    simp only [headerSize, pppoe_size_aux tags 0 (by omega), ← pppoe_tag_bytes, pppoe_tags_aux]; omega
  have hser : serialize [.pppoe code sess plen tags] p = [0x11, b8 code] ++ w16 sess
      ++ w16 (if headerSize (Layer.pppoe code sess plen tags) - 6 > 0 ∨ (!([] : List Layer).isEmpty) = true then
        headerSize (Layer.pppoe code sess plen tags) + ([] : Bytes).length
          + trailerSize (Layer.pppoe code sess plen tags) (if ([] : List Layer).isEmpty = true then none else some (size [])) - 6
        else 0)
      ++ tags.foldr (fun (t, d) acc => w16 t ++ w16 d.length ++ d ++ acc) [] ++ [] := rfl
  have hpl : (if headerSize (Layer.pppoe code sess plen tags) - 6 > 0 ∨ (!([] : List Layer).isEmpty) = true then
      headerSize (Layer.pppoe code sess plen tags) + ([] : Bytes).length
        + trailerSize (Layer.pppoe code sess plen tags) (if ([] : List Layer).isEmpty = true then none else some (size []))
        - 6 else 0) = (pppoeTagBytes tags).length := by
    rw [← hts]
    simp only [trailerSize, List.length_nil, List.isEmpty_nil, Bool.not_true, Bool.false_eq_true, or_false]
    split <;> omega
  rw [hser, hpl, pppoe_tag_bytes]
  have hlen : (pppoeTagBytes tags).length < 65536 := by
    rw [← pppoe_tag_bytes, pppoe_tags_aux]; exact hwf
  rw [show ∀ x : Bytes, [(0x11 : UInt8), b8 code] ++ w16 sess ++ w16 (pppoeTagBytes tags).length ++ pppoeTagBytes tags ++ [] ++ x
    = ([0x11, b8 code] ++ w16 sess ++ w16 (pppoeTagBytes tags).length) ++ (pppoeTagBytes tags ++ x) by
      intro x; simp only [List.append_assoc, List.append_nil]]
  have := walk_pppoe_discovery_intro code sess plen tags []
    (([0x11, b8 code] ++ w16 sess ++ w16 (pppoeTagBytes tags).length) ++ (pppoeTagBytes tags ++ zeros k))
    (walkPar p) (pppoeTagBytes tags).length hc
    (by simp <;> omega) rfl
    (by simp only [List.cons_append, List.nil_append, u8_cons_succ, u8_cons_zero, b8_toNat]; omega)
    (by simp only [List.cons_append, List.nil_append, List.append_assoc, be16At_cons, be16At_w16']; omega)
    (by simp only [List.cons_append, List.nil_append, List.append_assoc, be16At_cons, be16At_w16_skip, be16At_w16']; omega)
    (by simp <;> omega)
    (slice_mid _ _ _ 6 _ (by simp) rfl)
  rw [this, Nat.add_comm, drop_len_add _ _ 6 _ (by simp), drop_append_len _ _ _ rfl]

theorem step_eapol (keylen : Nat) (key : Bytes) (rest : List Layer) (p : Option Layer) (k : Nat)
    (hr : inRange (.eapol keylen key) = true) (hall : rest.all wf = true)
    (hsz : size (.eapol keylen key :: rest) ≤ 65535)
    (ih : Acc rest (some (.eapol keylen key)) 0) : Acc (.eapol keylen key :: rest) p k := by
  unfold Acc at ih ⊢
  simp only [inRange, decide_eq_true_eq] at hr
  have hin := serialize_length rest (some (.eapol keylen key)) hall
  rw [show walkPar (some (Layer.eapol keylen key)) = .other from rfl] at ih
  simp only [zeros_zero, List.append_nil] at ih
  simp only [size, headerSize, trailerSize] at hsz
  simp only [serialize, write, headerSize, trailerSize, hin, List.append_assoc, List.cons_append, List.nil_append]
  have hkl : (if key.isEmpty = true then keylen else key.length) < 65536 := by split <;> omega
  have e48 : ∀ (v1 v2 : Nat) (x : Bytes), ((1 : UInt8) :: 3 :: (w16 v1 ++ 1 :: (w16 v2 ++ (zeros 8 ++ (zeros 16 ++ 0 :: (zeros 16 ++ x))))))
      = ([1, 3] ++ w16 v1 ++ [1] ++ w16 v2 ++ zeros 8 ++ zeros 16 ++ [0] ++ zeros 16) ++ x := by
    intros; simp only [List.append_assoc, List.cons_append, List.nil_append]
  have l48 : ∀ (v1 v2 : Nat), ([1, 3] ++ w16 v1 ++ [1] ++ w16 v2 ++ zeros 8 ++ zeros 16 ++ [(0 : UInt8)] ++ zeros 16).length = 48 := by
    intros; simp
  have := walk_eapol_intro keylen key rest
    (1 :: 3 :: (w16 (5 + 43 + key.length + size rest + 0 - 4) ++ 1 :: (w16 (if key.isEmpty = true then keylen else key.length)
      ++ (zeros 8 ++ (zeros 16 ++ 0 :: (zeros 16 ++ (key ++ (serialize rest (some (Layer.eapol keylen key)) ++ zeros k))))))))
    (walkPar p) (44 + key.length + size rest)
    (by simp <;> omega)
    (by simp only [be16At_cons, be16At_w16']; omega)
    (by simp [hin] <;> omega)
    (by omega)
    (by simp only [be16At_cons, be16At_w16_skip, be16At_w16']; omega)
    (by rw [e48]; exact slice_mid _ _ _ 48 _ (l48 _ _) rfl)
    (by
      rw [e48, ← List.append_assoc _ key]
      rw [slice_mid _ _ _ (48 + key.length) _ (by rw [List.length_append, l48]) (by omega)]; exact ih)
  rw [this, e48, ← List.append_assoc _ key, ← List.append_assoc _ (serialize rest _)]
  rw [drop_append_len _ _ _ (by simp [hin] <;> omega)]

/-! ### RadioTap: `it_len`, the FCS flag and the frame check sequence -/

/-- the dissector finds the FLAGS field of the header libtins writes (after the present word and the 8-octet TSFT) and
    reads the FCS bit the object was given -/
theorem radiotap_flags_read (fcs : Bool) (X : Bytes) :
    radiotapFlags ([0, 0, b8 (4 + (radiotapPayload fcs).length), b8 ((4 + (radiotapPayload fcs).length) / 256)]
      ++ radiotapPayload fcs ++ X) = some (if fcs then 0x10 else 0) := by
  cases fcs <;>
  simp [radiotapFlags, radiotapFlags.words, radiotapPayload, le32At, le16At, u8_cons_succ, u8_cons_zero, Dissect.pad]

theorem radiotap_hdr_len (fcs : Bool) :
    ([0, 0, b8 (4 + (radiotapPayload fcs).length), b8 ((4 + (radiotapPayload fcs).length) / 256)]
      ++ radiotapPayload fcs).length = 26 := by
  cases fcs <;> rfl

theorem radiotap_hdr_reads (fcs : Bool) (X : Bytes) :
    u8 ([0, 0, b8 (4 + (radiotapPayload fcs).length), b8 ((4 + (radiotapPayload fcs).length) / 256)]
      ++ radiotapPayload fcs ++ X) 0 = 0 ∧
    le16At ([0, 0, b8 (4 + (radiotapPayload fcs).length), b8 ((4 + (radiotapPayload fcs).length) / 256)]
      ++ radiotapPayload fcs ++ X) 2 = 26 := by
  cases fcs <;> exact ⟨rfl, rfl⟩

theorem le32At_bv (c : BitVec 32) (A : Bytes) : le32At (A ++ w32le c.toNat) A.length = c.toNat := by
  have := le32At_append_right A (w32le c.toNat) 0
  rw [Nat.add_zero] at this
  rw [this]
  have h := le32At_w32le c.toNat [] c.isLt
  simpa using h

/-- RadioTap without the FCS flag: `it_len` is the size of the header, everything behind it is the frame -/
theorem step_radiotap_plain (rest : List Layer) (p : Option Layer)
    (ih : Acc rest (some (.radiotap false)) 0) : Acc (.radiotap false :: rest) p 0 := by
  unfold Acc at ih ⊢
  rw [show walkPar (some (Layer.radiotap false)) = .other from rfl] at ih
  simp only [zeros_zero, List.append_nil] at ih ⊢
  have htr : trailerSize (Layer.radiotap false) (if rest.isEmpty = true then none else some (size rest)) = 0 := by
    simp only [trailerSize, radiotapTrailer_default]; rfl
  simp only [serialize, write, htr, headerSize, gt_iff_lt, Nat.lt_irrefl, false_and, if_false, zeros_zero, List.append_nil]
  obtain ⟨h0, h2⟩ := radiotap_hdr_reads false (serialize rest (some (Layer.radiotap false)))
  apply walk_radiotap_plain_intro (itlen := 26) (f := 0)
  · rw [List.length_append, radiotap_hdr_len]; omega
  · exact h0
  · exact h2
  · omega
  · rw [List.length_append, radiotap_hdr_len]; omega
  · exact radiotap_flags_read false _
  · rfl
  · rw [drop_append_len _ _ _ (radiotap_hdr_len false)]; exact ih

/-- RadioTap with the FCS flag: the last four octets are the IEEE 802.3 CRC-32 of the frame that follows the header -/
theorem step_radiotap_fcs (rest : List Layer) (p : Option Layer)
    (ih : Acc rest (some (.radiotap true)) 0) : Acc (.radiotap true :: rest) p 0 := by
  unfold Acc at ih ⊢
  rw [show walkPar (some (Layer.radiotap true)) = .other from rfl] at ih
  simp only [zeros_zero, List.append_nil] at ih ⊢
  have htr : trailerSize (Layer.radiotap true) (if rest.isEmpty = true then none else some (size rest)) = 4 := by
    simp only [trailerSize, radiotapTrailer_default]; rfl
  -- what is written behind the frame: its CRC, or four zero octets when there is no frame (the CRC of nothing)
  have hout : ∃ T : Bytes, T.length = 4 ∧
      serialize (.radiotap true :: rest) p = [0, 0, b8 (4 + (radiotapPayload true).length),
        b8 ((4 + (radiotapPayload true).length) / 256)] ++ radiotapPayload true
        ++ serialize rest (some (.radiotap true)) ++ T ∧
      le32At (serialize rest (some (.radiotap true)) ++ T) (serialize rest (some (.radiotap true))).length
        = (Spec.crcBitwise (serialize rest (some (.radiotap true)))).toNat := by
    cases rest with
    | nil =>
      refine ⟨zeros 4, rfl, ?_, ?_⟩
      · simp only [serialize, write, htr, headerSize]; rfl
      · simp only [serialize]; decide
    | cons a r =>
      refine ⟨w32le (crc32 (serialize (a :: r) (some (.radiotap true)))).toNat, rfl, ?_, ?_⟩
      · have htr' : trailerSize (Layer.radiotap true) (if false = true then none else some (size (a :: r))) = 4 := htr
        rw [serialize]; simp only [write, headerSize, List.isEmpty_cons, Bool.not_false, htr']
        rw [if_pos ⟨by omega, trivial⟩]
      · rw [le32At_bv, Verify.crc32_table_spec]
  obtain ⟨T, hT, hs, hcrc⟩ := hout
  rw [hs]
  obtain ⟨h0, h2⟩ := radiotap_hdr_reads true (serialize rest (some (Layer.radiotap true)) ++ T)
  rw [List.append_assoc _ (serialize rest _) T]
  have hd : (([0, 0, b8 (4 + (radiotapPayload true).length), b8 ((4 + (radiotapPayload true).length) / 256)]
      ++ radiotapPayload true) ++ (serialize rest (some (Layer.radiotap true)) ++ T)).drop 26
      = serialize rest (some (Layer.radiotap true)) ++ T := drop_append_len _ _ _ (radiotap_hdr_len true)
  apply walk_radiotap_fcs_intro (itlen := 26) (f := 0x10)
  · rw [List.length_append, radiotap_hdr_len]; omega
  · exact h0
  · exact h2
  · omega
  · rw [List.length_append, radiotap_hdr_len, List.length_append, hT]; omega
  · exact radiotap_flags_read true _
  · rfl
  · rw [hd, List.length_append, hT, Nat.add_sub_cancel, take_append_len _ _ _ rfl]; exact ih
  · rw [hd, List.length_append, hT, Nat.add_sub_cancel, take_append_len _ _ _ rfl]; exact hcrc

end Tins.Ck.Ser
