import TinsModel.Checksum.Walk.StepIp
/-
  One layer of the induction behind `length_fields`: IPv6 — payload length, and the extension-header chain: every header
  names the one that follows it, the last one names the carried layer, `Hdr Ext Len` counts 8-octet units beyond the first.
-/
namespace Tins.Ck.Ser
open Tins.Ck Tins.Ck.Dissect Tins.Ck.Spec

/-- the dissector's introduction rule for one extension header of the chain -/
theorem chain_cons (body : Bytes) (t : Nat) (d : Bytes) (es : List (Nat × Bytes)) (nh off sz : Nat) (r : R (Nat × Nat))
    (h1 : nh = t) (h2 : off + 8 ≤ body.length) (hsz : (u8 body (off + 1) + 1) * 8 = sz) (h3 : off + sz ≤ body.length)
    (h4 : sz = Dissect.pad (d.length + 2) 8) (h5 : slice body (off + 2) (off + 2 + d.length) = d)
    (h6 : allZero (slice body (off + 2 + d.length) (off + sz)) = true)
    (hrec : walk.chain body es (u8 body off) (off + sz) = r) :
    walk.chain body ((t, d) :: es) nh off = r := by
  rw [walk.chain]
  have e1 : (nh == t) = true := by simp [h1]
  have e2 : decide (off + 8 ≤ body.length) = true := by simpa using h2
  have e3 : decide (off + sz ≤ body.length) = true := by simpa using h3
  have e4 : (sz == Dissect.pad (d.length + 2) 8) = true := by simp [h4]
  have e5 : (slice body (off + 2) (off + 2 + d.length) == d) = true := by simp [h5]
  simp only [e1, e2, hsz, e3, e4, e5, h6, need_true, pure_bind', hrec]

theorem chain_nil (body : Bytes) (nh off : Nat) : walk.chain body [] nh off = .ok (nh, off) := by
  rw [walk.chain]; rfl

/-- the extension area `IPv6::write_serialization` emits -/
def ip6ExtBytes : List (Nat × Bytes) → Nat → Bytes
  | [], _ => []
  | (_, d) :: es, last => writeIp6Ext (nextOf es last, d) ++ ip6ExtBytes es last

theorem ip6Chain_flatten (exts : List (Nat × Bytes)) (last : Nat) :
    ((ip6Chain exts last).map writeIp6Ext).flatten = ip6ExtBytes exts last := by
  induction exts with
  | nil => rfl
  | cons e r ih =>
    obtain ⟨t, d⟩ := e
    cases r with
    | nil => simp [ip6Chain, ip6ExtBytes, nextOf]
    | cons e' r' =>
      obtain ⟨t', d'⟩ := e'
      simp only [ip6Chain, List.map_cons, List.flatten_cons] at ih ⊢
      rw [ih]; rfl

theorem ip6ExtPad_spec (d : Bytes) : d.length + 2 + ip6ExtPad d = Dissect.pad (d.length + 2) 8 := by
  unfold ip6ExtPad Dissect.pad; simp only []; split <;> omega

theorem pad8_facts (n : Nat) : Dissect.pad n 8 % 8 = 0 ∧ n ≤ Dissect.pad n 8 ∧ Dissect.pad n 8 < n + 8 := by
  unfold Dissect.pad; omega

/-- **the dissector follows the chain libtins writes**: started at the first header with the type the fixed header
    announces, it ends behind the last header holding the next-header value `last` -/
theorem chain_written (exts : List (Nat × Bytes)) (last : Nat) (pre X : Bytes)
    (hr : exts.all (fun (t, d) => t < 256 && d.length < 2040) = true) (hl : last < 256) :
    walk.chain (pre ++ (ip6ExtBytes exts last ++ X)) exts (nextOf exts last) pre.length
      = .ok (last, pre.length + (ip6ExtBytes exts last).length) := by
  induction exts generalizing pre with
  | nil => simp [chain_nil, nextOf, ip6ExtBytes]
  | cons e es ih =>
    obtain ⟨t, d⟩ := e
    simp only [List.all_cons, Bool.and_eq_true, decide_eq_true_eq] at hr
    obtain ⟨⟨ht, hd⟩, hes⟩ := hr
    have hp := ip6ExtPad_spec d
    obtain ⟨pm, pge, plt⟩ := pad8_facts (d.length + 2)
    have hnx : nextOf es last < 256 := by
      cases es with
      | nil => exact hl
      | cons e' r' =>
        obtain ⟨t', d'⟩ := e'
        simp only [List.all_cons, Bool.and_eq_true, decide_eq_true_eq] at hes
        exact hes.1.1
    -- this header's bytes
    have hw : writeIp6Ext (nextOf es last, d)
        = [b8 (nextOf es last), b8 (((d.length + 2 + ip6ExtPad d) / 8 - 1) % 256)] ++ (d ++ zeros (ip6ExtPad d)) := rfl
    have hwl : (writeIp6Ext (nextOf es last, d)).length = Dissect.pad (d.length + 2) 8 := by
      rw [length_writeIp6Ext]; exact hp
    rw [show nextOf ((t, d) :: es) last = t from rfl]
    simp only [ip6ExtBytes, List.append_assoc]
    have hbody : pre ++ (writeIp6Ext (nextOf es last, d) ++ (ip6ExtBytes es last ++ X))
        = (pre ++ writeIp6Ext (nextOf es last, d)) ++ (ip6ExtBytes es last ++ X) := by simp only [List.append_assoc]
    have key := ih (pre ++ writeIp6Ext (nextOf es last, d)) hes
    rw [← hbody] at key
    apply chain_cons (sz := Dissect.pad (d.length + 2) 8)
    · rfl
    · simp only [List.length_append, hwl]; omega
    · rw [show pre.length + 1 = pre.length + 1 from rfl, u8_append_right, hw]
      simp only [List.cons_append, List.nil_append, u8_cons_succ, u8_cons_zero, b8_toNat]
      rw [hp]; omega
    · simp only [List.length_append, hwl]; omega
    · rfl
    · rw [hw]
      rw [show ∀ Y : Bytes, pre ++ ([b8 (nextOf es last), b8 (((d.length + 2 + ip6ExtPad d) / 8 - 1) % 256)] ++ (d ++ zeros (ip6ExtPad d)) ++ Y)
          = (pre ++ [b8 (nextOf es last), b8 (((d.length + 2 + ip6ExtPad d) / 8 - 1) % 256)]) ++ (d ++ (zeros (ip6ExtPad d) ++ Y)) by
            intro Y; simp only [List.append_assoc]]
      exact slice_mid _ _ _ _ _ (by simp) rfl
    · rw [hw]
      rw [show ∀ Y : Bytes, pre ++ ([b8 (nextOf es last), b8 (((d.length + 2 + ip6ExtPad d) / 8 - 1) % 256)] ++ (d ++ zeros (ip6ExtPad d)) ++ Y)
          = (pre ++ [b8 (nextOf es last), b8 (((d.length + 2 + ip6ExtPad d) / 8 - 1) % 256)] ++ d) ++ (zeros (ip6ExtPad d) ++ Y) by
            intro Y; simp only [List.append_assoc]]
      rw [slice_mid _ _ _ _ _ (by simp; omega) (by simp; omega)]
      exact allZero_zeros _
    · have e0 : u8 (pre ++ (writeIp6Ext (nextOf es last, d) ++ (ip6ExtBytes es last ++ X))) pre.length = nextOf es last := by
        have := u8_append_right pre (writeIp6Ext (nextOf es last, d) ++ (ip6ExtBytes es last ++ X)) 0
        rw [Nat.add_zero] at this
        rw [this, hw]; simp only [List.cons_append, u8_cons_zero, b8_toNat]; omega
      rw [e0]
      have e1 : pre.length + Dissect.pad (d.length + 2) 8 = (pre ++ writeIp6Ext (nextOf es last, d)).length := by
        rw [List.length_append, hwl]
      rw [e1, key]
      simp only [List.length_append]
      congr 2; omega

theorem flagToIp_lt (n : Layer) : flagToIp n < 256 := by
  unfold flagToIp lookupTag
  cases h : (Tins.Gen.TagsC05.flagToIp.find? (·.1 == n.kind)) with
  | none => simp
  | some e =>
    have hm := List.mem_of_find?_eq_some h
    have : ∀ e ∈ Tins.Gen.TagsC05.flagToIp, e.2 < 256 := by decide
    simpa using this e hm

theorem step_ip6 (tc flow hop nh : Nat) (src dst : Bytes) (exts : List (Nat × Bytes)) (rest : List Layer)
    (p : Option Layer) (k : Nat) (hwf : wf (.ip6 tc flow hop nh src dst exts) = true)
    (hr : inRange (.ip6 tc flow hop nh src dst exts) = true) (hall : rest.all wf = true)
    (hsz : size (.ip6 tc flow hop nh src dst exts :: rest) ≤ 65535)
    (ih : Acc rest (some (.ip6 tc flow hop nh src dst exts)) 0) :
    Acc (.ip6 tc flow hop nh src dst exts :: rest) p k := by
  unfold Acc at ih ⊢
  simp only [inRange, Bool.and_eq_true, decide_eq_true_eq] at hr
  obtain ⟨⟨⟨⟨r1, r2⟩, r3⟩, r4⟩, r5⟩ := hr
  simp only [wf, Bool.and_eq_true, beq_iff_eq] at hwf
  obtain ⟨ws, wd⟩ := hwf
  have hin := serialize_length rest (some (.ip6 tc flow hop nh src dst exts)) hall
  rw [show walkPar (some (Layer.ip6 tc flow hop nh src dst exts)) = .ip6 src dst from rfl] at ih
  simp only [zeros_zero, List.append_nil] at ih
  simp only [size, headerSize, trailerSize] at hsz
  -- the value the last header of the chain carries
  have hlast : ip6LastNextHeader nh rest < 256 ∧
      (∀ n, rest.head? = some n → ∀ w, ipProtoOf n = some w → ip6LastNextHeader nh rest = w) := by
    unfold ip6LastNextHeader
    cases hh : rest.head? with
    | none => exact ⟨by simp, by intro n hn; cases hn⟩
    | some n =>
      refine ⟨?_, ?_⟩
      · simp only []
        split
        · exact flagToIp_lt n
        · exact r4
      · intro m hm w hw
        cases hm
        obtain ⟨e1, e2, _⟩ := flagToIp_names n w (head_wf rest n hall hh) hw
        simp only [e1, ne_eq, e2, not_false_eq_true, if_true]
  obtain ⟨hl256, hlnames⟩ := hlast
  generalize hL : ip6LastNextHeader nh rest = L at *
  simp only [serialize, write, headerSize, trailerSize, hin, Nat.add_zero, List.append_assoc, ip6Chain_flatten, hL]
  have hEl : (ip6ExtBytes exts L).length = ip6ExtSize exts := by rw [← ip6Chain_flatten, length_ip6_exts]
  generalize hE : ip6ExtBytes exts L = E at *
  generalize hI : serialize rest (some (.ip6 tc flow hop nh src dst exts)) = I at *
  generalize hF : ([b8 (6 * 16 + tc / 16 % 16), b8 (tc % 16 * 16 + flow / 65536 % 16), b8 (flow / 256), b8 flow]
      ++ (w16 (40 + ip6ExtSize exts + size rest - 40) ++ [b8 (nextOf exts L), b8 hop])) = F
  have hFl : F.length = 8 := by rw [← hF]; rfl
  have hbuf : ([b8 (6 * 16 + tc / 16 % 16), b8 (tc % 16 * 16 + flow / 65536 % 16), b8 (flow / 256), b8 flow]
      ++ (w16 (40 + ip6ExtSize exts + size rest - 40) ++ ([b8 (nextOf exts L), b8 hop] ++ (src ++ (dst ++ (E ++ (I ++ zeros k)))))))
      = F ++ (src ++ (dst ++ (E ++ (I ++ zeros k)))) := by rw [← hF]; simp only [List.append_assoc]
  rw [hbuf]
  have rd8 : ∀ i, i < 8 → u8 (F ++ (src ++ (dst ++ (E ++ (I ++ zeros k))))) i = u8 F i := by
    intro i h; exact u8_append_left _ _ _ (by omega)
  have rd16 : ∀ i, i + 1 < 8 → be16At (F ++ (src ++ (dst ++ (E ++ (I ++ zeros k))))) i = be16At F i := by
    intro i h; exact be16At_append_lt _ _ _ (by omega)
  have hres : zeros k = (F ++ (src ++ (dst ++ (E ++ (I ++ zeros k))))).drop (40 + (ip6ExtSize exts + size rest)) := by
    rw [← List.append_assoc, ← List.append_assoc, ← List.append_assoc, ← List.append_assoc]
    exact (drop_append_len _ _ _ (by simp [hFl, ws, wd, hEl, hin]; omega)).symm
  conv => rhs; rw [hres]
  have hbody : slice (F ++ (src ++ (dst ++ (E ++ (I ++ zeros k))))) 40 (40 + (ip6ExtSize exts + size rest)) = E ++ I := by
    rw [← List.append_assoc, ← List.append_assoc, ← List.append_assoc E]
    exact slice_mid _ _ _ 40 _ (by simp [hFl, ws, wd]) (by simp [hEl, hin])
  apply walk_ip6_intro (plen := ip6ExtSize exts + size rest) (lastNh := L) (off := E.length)
  · simp [hFl, ws, wd] <;> omega
  · rw [rd8 0 (by omega), ← hF]; simp only [List.cons_append, u8_cons_zero, b8_toNat]; omega
  · rw [rd16 4 (by omega), ← hF]
    simp only [List.cons_append, List.nil_append, be16At_cons, be16At_w16']; omega
  · simp [hFl, ws, wd, hEl, hin] <;> omega
  · rw [rd8 0 (by omega), rd8 1 (by omega), ← hF]
    simp only [List.cons_append, u8_cons_zero, u8_cons_succ, b8_toNat]; omega
  · rw [rd8 1 (by omega), rd16 2 (by omega), ← hF]
    simp only [List.cons_append, u8_cons_zero, u8_cons_succ, be16At_cons, be16At_zero_cons, b8_toNat]; omega
  · rw [rd8 7 (by omega), ← hF]
    simp only [List.cons_append, List.nil_append, u8_cons_succ, u8_w16, u8_cons_zero, b8_toNat]; omega
  · exact slice_mid _ _ _ 8 24 hFl (by omega)
  · rw [← List.append_assoc]; exact slice_mid _ _ _ 24 40 (by simp [hFl, ws]) (by omega)
  · rw [hbody, rd8 6 (by omega), ← hF]
    simp only [List.cons_append, List.nil_append, u8_cons_succ, u8_w16, u8_cons_zero, b8_toNat]
    have hn : nextOf exts L % 256 = nextOf exts L := by
      cases exts with
      | nil => simp only [nextOf]; omega
      | cons e es =>
        obtain ⟨t, d⟩ := e
        simp only [List.all_cons, Bool.and_eq_true, decide_eq_true_eq] at r5
        simp only [nextOf]; omega
    rw [hn]
    have := chain_written exts L [] I r5 hl256
    simp only [List.nil_append, List.length_nil, Nat.zero_add, hE] at this
    exact this
  · exact hlnames
  · rw [hbody, drop_append_len _ _ _ rfl]; exact ih

end Tins.Ck.Ser
