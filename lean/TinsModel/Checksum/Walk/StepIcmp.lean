import TinsModel.Checksum.Walk.StepIp6
/-
  One layer of the induction behind `length_fields`: ICMP and ICMPv6 — checksum over the whole message (ICMPv6: with the
  IPv6 pseudo header), and the RFC 4884 layout: length octet, zero padding of the original datagram to 128 octets / a 32-
  (64-) bit boundary, the extension structure with its own checksum and its objects.
-/
namespace Tins.Ck.Ser
open Tins.Ck Tins.Ck.Dissect Tins.Ck.Spec

/-- the objects of an extension structure as `ICMPExtensionsStructure::serialize` lays them out -/
def extBody (exts : List (Nat × Nat × Bytes)) : Bytes :=
  exts.foldr (fun (c, t, p) acc => w16 (4 + p.length) ++ [b8 c, b8 t] ++ p ++ acc) []

theorem extBody_cons (c t : Nat) (p : Bytes) (r : List (Nat × Nat × Bytes)) :
    extBody ((c, t, p) :: r) = w16 (4 + p.length) ++ ([b8 c, b8 t] ++ (p ++ extBody r)) := by
  simp only [extBody, List.foldr_cons, List.append_assoc]

theorem extBody_length_ge (exts : List (Nat × Nat × Bytes)) : 4 * exts.length ≤ (extBody exts).length := by
  induction exts with
  | nil => simp [extBody]
  | cons e r ih =>
    obtain ⟨c, t, p⟩ := e
    rw [extBody_cons]; simp only [List.length_append, length_w16, List.length_cons, List.length_nil]; omega

/-- the dissector's object walk reads back exactly the objects that were written -/
theorem extObjects_written (exts : List (Nat × Nat × Bytes)) (fuel : Nat) (hf : exts.length < fuel)
    (hr : exts.all (fun (cl, t, p) => cl < 256 && t < 256 && p.length < 65532) = true) :
    extObjects fuel (extBody exts) = some exts := by
  induction exts generalizing fuel with
  | nil =>
    cases fuel with
    | zero => simp at hf
    | succ f => simp [extObjects, extBody]
  | cons e r ih =>
    obtain ⟨c, t, p⟩ := e
    simp only [List.all_cons, Bool.and_eq_true, decide_eq_true_eq] at hr
    obtain ⟨⟨⟨hc, ht⟩, hp⟩, hrr⟩ := hr
    cases fuel with
    | zero => simp at hf
    | succ f =>
      simp only [List.length_cons] at hf
      rw [extObjects, extBody_cons]
      have hlen : be16At (w16 (4 + p.length) ++ ([b8 c, b8 t] ++ (p ++ extBody r))) 0 = 4 + p.length := by
        rw [be16At_w16']; omega
      have hne : (w16 (4 + p.length) ++ ([b8 c, b8 t] ++ (p ++ extBody r))).isEmpty = false := rfl
      have hl4 : ¬ (w16 (4 + p.length) ++ ([b8 c, b8 t] ++ (p ++ extBody r))).length < 4 := by simp <;> omega
      have hcond : (decide (4 + p.length < 4) || decide (4 + p.length > (w16 (4 + p.length) ++ ([b8 c, b8 t] ++ (p ++ extBody r))).length)) = false := by
        simp; omega
      simp only [hne, Bool.false_eq_true, if_false, hl4, hlen, hcond]
      have hdrop : (w16 (4 + p.length) ++ ([b8 c, b8 t] ++ (p ++ extBody r))).drop (4 + p.length) = extBody r := by
        rw [← List.append_assoc, ← List.append_assoc]
        exact drop_append_len _ _ _ (by simp; omega)
      have hsl : slice (w16 (4 + p.length) ++ ([b8 c, b8 t] ++ (p ++ extBody r))) 4 (4 + p.length) = p := by
        rw [← List.append_assoc]; exact slice_mid _ _ _ 4 _ (by simp) rfl
      have h2 : u8 (w16 (4 + p.length) ++ ([b8 c, b8 t] ++ (p ++ extBody r))) 2 = c := by
        rw [u8_w16 _ 0]; simp only [List.cons_append, u8_cons_zero, b8_toNat]; omega
      have h3 : u8 (w16 (4 + p.length) ++ ([b8 c, b8 t] ++ (p ++ extBody r))) 3 = t := by
        rw [u8_w16 _ 1]; simp only [List.cons_append, u8_cons_succ, u8_cons_zero, b8_toNat]; omega
      rw [hdrop, hsl, h2, h3, ih f (by omega) hrr]; rfl

theorem writeExtStruct_eq (exts : List (Nat × Nat × Bytes)) :
    writeExtStruct exts = extTail ([0x20, 0x00, 0, 0] ++ extBody exts) := rfl

/-- **the extension structure libtins writes passes the RFC 4884 §7 checks**: version 2, a checksum over the structure that
    verifies, and objects whose lengths chain up exactly to the end, equal to the ones that were set -/
theorem checkExtStruct_written (who : String) (exts : List (Nat × Nat × Bytes))
    (hr : exts.all (fun (cl, t, p) => cl < 256 && t < 256 && p.length < 65532) = true)
    (hsz : extStructSize exts ≤ 65535) :
    checkExtStruct who (writeExtStruct exts) true exts = .ok () := by
  have hlen := length_writeExtStruct exts
  rw [writeExtStruct_eq] at hlen ⊢
  have hbl : ([0x20, 0x00, 0, 0] ++ extBody exts : Bytes).length = extStructSize exts := by
    rw [← hlen, length_extTail]
  have hshape : extTail ([0x20, 0x00, 0, 0] ++ extBody exts)
      = poke16 [0x20, 0x00, 0, 0] 2 (wrap16 (not32 (sumRange ([0x20, 0x00, 0, 0] ++ extBody exts)))) ++ extBody exts := by
    unfold extTail; exact poke16_append _ _ _ _ (by simp)
  have hck := Verify.icmp_extension_checksum_verifies ([0x20, 0x00, 0, 0] ++ extBody exts) (by omega) rfl rfl
  unfold checkExtStruct
  have e1 : decide ((extTail ([0x20, 0x00, 0, 0] ++ extBody exts)).length ≥ 4) = true := by
    rw [length_extTail]; simp
  have e2 : (u8 (extTail ([0x20, 0x00, 0, 0] ++ extBody exts)) 0 / 16 == 2) = true := by
    rw [hshape, u8_append_left _ _ _ (by rw [length_poke16]; simp), u8_poke16_ne _ _ _ _ (by omega) (by omega)]; rfl
  have e3 : (extTail ([0x20, 0x00, 0, 0] ++ extBody exts)).drop 4 = extBody exts := by
    rw [hshape]; exact drop_append_len _ _ _ (by rw [length_poke16]; rfl)
  have hge := extBody_length_ge exts
  have e4 := extObjects_written exts ((extTail ([0x20, 0x00, 0, 0] ++ extBody exts)).length + 1)
    (by rw [length_extTail]; simp; omega) hr
  simp only [e1, e2, hck, need_true, pure_bind', e3, e4, Bool.not_true, Bool.false_or, beq_self_eq_true]
  rfl

/-! ### the RFC 4884 length octet -/

theorem paddedInner_some (sz u : Nat) (hu : 0 < u) :
    paddedInner (some sz) u % u = 0 ∧ sz ≤ paddedInner (some sz) u ∧ paddedInner (some sz) u < sz + u ∧
    (sz % u = 0 → paddedInner (some sz) u = sz) := by
  unfold paddedInner
  simp only []
  have hm := Nat.mod_lt sz hu
  have hd := Nat.div_add_mod sz u
  split
  · rename_i h; refine ⟨h, Nat.le_refl _, by omega, fun _ => rfl⟩
  · rename_i h
    refine ⟨?_, by omega, by omega, fun h' => absurd h' h⟩
    have e : sz - sz % u + u = u * (sz / u + 1) := by
      rw [Nat.mul_add, Nat.mul_one]; omega
    rw [e]; exact Nat.mul_mod_right _ _

/-- with an extension structure the octet announces, in 32-bit words, exactly the padded original datagram (at least 128
    octets); 0 stands for 128 (RFC 4884 §5.5: a compliant receiver then looks for the structure after 128 octets) -/
theorem icmp_octet_ext (type : Nat) (lenflag : Bool) (sz : Nat) (exts : List (Nat × Nat × Bytes))
    (hal : type = 3 ∨ type = 11 ∨ type = 12) (he : exts.isEmpty = false) (hov : paddedInner (some sz) 4 < 1024) :
    icmpLengthOctet type lenflag 0 (some sz) exts < 256 ∧
    (if icmpLengthOctet type lenflag 0 (some sz) exts ≠ 0 then icmpLengthOctet type lenflag 0 (some sz) exts * 4 else 128)
      = (if paddedInner (some sz) 4 > 128 then paddedInner (some sz) 4 else 128) := by
  obtain ⟨h4, hge, hlt, _⟩ := paddedInner_some sz 4 (by omega)
  unfold icmpLengthOctet
  simp only [hal, true_and, he, Bool.not_false, if_true]
  generalize paddedInner (some sz) 4 = lv at *
  cases lenflag <;> simp only [Bool.false_eq_true, if_false, if_true] <;> (repeat' split) <;> omega

/-- without extensions the octet is either 0 (length field not in use) or the padded size of the inner PDU in words -/
theorem icmp_octet_plain (type : Nat) (lenflag : Bool) (isz : Option Nat) (exts : List (Nat × Nat × Bytes))
    (hal : type = 3 ∨ type = 11 ∨ type = 12) (he : exts.isEmpty = true) (hov : paddedInner isz 4 < 1024) :
    icmpLengthOctet type lenflag 0 isz exts < 256 ∧
    (icmpLengthOctet type lenflag 0 isz exts ≠ 0 →
      (lenflag = true ∨ paddedInner isz 4 > 128) ∧ icmpLengthOctet type lenflag 0 isz exts * 4 = paddedInner isz 4 ∧
      paddedInner isz 4 ≠ 0) := by
  have h4 : paddedInner isz 4 % 4 = 0 := by
    cases isz with
    | none => rfl
    | some sz => exact (paddedInner_some sz 4 (by omega)).1
  unfold icmpLengthOctet
  simp only [hal, true_and, he, Bool.not_true, Bool.false_eq_true, if_false]
  generalize paddedInner isz 4 = lv at *
  cases lenflag with
  | false =>
    simp only [Bool.false_eq_true, if_false, ne_eq, not_true_eq_false, false_or]
    by_cases h : lv > 128
    · have hz : ¬ lv = 0 := by omega
      simp only [h, if_true, hz, not_false_eq_true, true_and, and_true]
      exact ⟨by omega, fun _ => by omega⟩
    · simp only [h, if_false]; simp
  | true =>
    simp only [if_true, ne_eq, Nat.succ_ne_self, not_false_eq_true, true_or]
    by_cases hz : lv = 0
    · simp [hz]
    · simp only [hz, not_false_eq_true, if_true]
      simp only [true_and, and_true]
      exact ⟨by omega, fun _ => by omega⟩

theorem icmp_octet_other (type : Nat) (user : Nat) (isz : Option Nat) (exts : List (Nat × Nat × Bytes))
    (hal : ¬ (type = 3 ∨ type = 11 ∨ type = 12)) : icmpLengthOctet type false user isz exts = user := by
  unfold icmpLengthOctet; simp [hal]

theorem rfc4884Tail_nil (unit : Nat) (isz : Option Nat) (exts : List (Nat × Nat × Bytes)) (he : exts.isEmpty = true) :
    rfc4884Tail unit isz exts = [] := by unfold rfc4884Tail; simp [he]

theorem rfc4884Tail_ext (unit sz : Nat) (exts : List (Nat × Nat × Bytes)) (he : exts.isEmpty = false) :
    rfc4884Tail unit (some sz) exts
      = zeros ((if paddedInner (some sz) unit > 128 then paddedInner (some sz) unit else 128) - sz) ++ writeExtStruct exts := by
  unfold rfc4884Tail; simp [he]

/-- what follows the ICMP header satisfies the RFC 4884 clauses of the dissector, given the length octet `lf` the header
    carries (`unit` 4: ICMP, 8: ICMPv6) -/
theorem icmp_tail_ok (who : String) (unit : Nat) (hu : unit = 4 ∨ unit = 8) (rest : List Layer)
    (exts : List (Nat × Nat × Bytes)) (lf : Nat) (I : Bytes) (hI : I.length = size rest)
    (hrx : exts.all (fun (cl, t, p) => cl < 256 && t < 256 && p.length < 65532) = true)
    (hxs : extStructSize exts ≤ 65535)
    (hcase : (exts.isEmpty = false ∧ rest.isEmpty = false ∧
        (if lf ≠ 0 then lf * unit else 128)
          = (if paddedInner (some (size rest)) unit > 128 then paddedInner (some (size rest)) unit else 128)) ∨
      (exts.isEmpty = true ∧ (lf ≠ 0 → lf * unit = size rest)))
    (ih : walk true rest (I ++ zeros (if exts.isEmpty then 0 else
        (if paddedInner (some (size rest)) unit > 128 then paddedInner (some (size rest)) unit else 128) - size rest)) .other
      = .ok (zeros (if exts.isEmpty then 0 else
        (if paddedInner (some (size rest)) unit > 128 then paddedInner (some (size rest)) unit else 128) - size rest))) :
    IcmpTailOK who unit rest exts lf (I ++ rfc4884Tail unit (if rest.isEmpty then none else some (size rest)) exts) := by
  unfold IcmpTailOK
  rcases hcase with ⟨he, hre, hcut⟩ | ⟨he, hlf⟩
  · simp only [he, hre, Bool.false_eq_true, if_false, if_true] at ih ⊢
    rw [rfc4884Tail_ext _ _ _ he, hcut]
    obtain ⟨_, hge, _, _⟩ := paddedInner_some (size rest) unit (by omega)
    have hM : 128 ≤ (if paddedInner (some (size rest)) unit > 128 then paddedInner (some (size rest)) unit else 128) ∧
        size rest ≤ (if paddedInner (some (size rest)) unit > 128 then paddedInner (some (size rest)) unit else 128) := by
      split <;> omega
    generalize (if paddedInner (some (size rest)) unit > 128 then paddedInner (some (size rest)) unit else 128) = M at *
    have hxl := length_writeExtStruct exts
    have hx4 : 4 ≤ extStructSize exts := by unfold extStructSize; omega
    have hIz : (I ++ zeros (M - size rest)).length = M := by simp [hI]; omega
    refine ⟨hM.1, ?_, zeros (M - size rest), ?_, allZero_zeros _, ?_⟩
    · simp [hI, hxl]; omega
    · rw [← List.append_assoc, take_append_len _ _ _ hIz]; exact ih
    · rw [← List.append_assoc, drop_append_len _ _ _ hIz]
      exact checkExtStruct_written who exts hrx hxs
  · simp only [he, if_true, zeros_zero, List.append_nil] at ih
    simp only [he, Bool.true_eq_false, if_false, rfc4884Tail_nil _ _ _ he, List.append_nil]
    by_cases hz : lf = 0
    · simp only [hz, ne_eq, not_true_eq_false, if_false]; exact ih
    · simp only [ne_eq, hz, not_false_eq_true, if_true]
      refine ⟨by rw [hI]; exact hlf hz, [], ih, rfl, ?_⟩
      simp; omega

theorem icmp_trailer_ext (type code id seq a b c : Nat) (lf : Bool) (exts : List (Nat × Nat × Bytes)) (rest : List Layer)
    (he : exts.isEmpty = false) (hre : rest.isEmpty = false) :
    trailerSize (.icmp type code id seq a b c lf exts) (if rest.isEmpty then none else some (size rest)) - extStructSize exts
      = (if paddedInner (some (size rest)) 4 > 128 then paddedInner (some (size rest)) 4 else 128) - size rest := by
  simp only [trailerSize, he, hre, Bool.false_eq_true, if_false]; omega

theorem step_icmp (type code id seq a b c : Nat) (lenflag : Bool) (exts : List (Nat × Nat × Bytes)) (rest : List Layer)
    (p : Option Layer)
    (hr : inRange (.icmp type code id seq a b c lenflag exts) = true) (hall : rest.all wf = true)
    (hsz : size (.icmp type code id seq a b c lenflag exts :: rest) ≤ 65535)
    (hext : exts.isEmpty = true ∨ ((type = 3 ∨ type = 11 ∨ type = 12) ∧ rest.isEmpty = false))
    (hlf : lenflag = true → (type = 3 ∨ type = 11 ∨ type = 12))
    (hkf1 : ¬ ((type = 3 ∨ type = 11 ∨ type = 12) ∧ exts.isEmpty = true ∧ rest.isEmpty = false ∧
      (lenflag = true ∨ paddedInner (some (size rest)) 4 > 128) ∧ size rest % 4 ≠ 0))
    (hkf10 : ¬ ((type = 3 ∨ type = 11 ∨ type = 12) ∧ rest.isEmpty = false ∧ paddedInner (some (size rest)) 4 ≥ 1024))
    (ih : Acc rest (some (.icmp type code id seq a b c lenflag exts)) (if exts.isEmpty then 0 else
      trailerSize (.icmp type code id seq a b c lenflag exts) (if rest.isEmpty then none else some (size rest))
        - extStructSize exts)) :
    Acc (.icmp type code id seq a b c lenflag exts :: rest) p 0 := by
  unfold Acc at ih ⊢
  simp only [inRange, Bool.and_eq_true, decide_eq_true_eq, Bool.or_eq_true, bne_iff_ne, ne_eq, beq_iff_eq] at hr
  obtain ⟨⟨⟨⟨⟨⟨⟨⟨r1, r2⟩, r3⟩, r4⟩, r5⟩, r6⟩, r7⟩, r8⟩, r9⟩ := hr
  have hlen := serialize_length (.icmp type code id seq a b c lenflag exts :: rest) p (by
    simp only [List.all_cons, Bool.and_eq_true]; exact ⟨rfl, hall⟩)
  have hin := serialize_length rest (some (.icmp type code id seq a b c lenflag exts)) hall
  rw [show walkPar (some (Layer.icmp type code id seq a b c lenflag exts)) = .other from rfl] at ih
  simp only [zeros_zero, List.append_nil]
  have hxs : extStructSize exts ≤ 65535 := by
    simp only [size, trailerSize] at hsz
    by_cases he : exts.isEmpty = true
    · have : exts = [] := List.isEmpty_iff.mp he
      subst this; simp [extStructSize]
    · simp only [he, Bool.false_eq_true, if_false] at hsz; omega
  simp only [serialize, write] at hlen ⊢
  generalize hI : serialize rest (some (.icmp type code id seq a b c lenflag exts)) = I at *
  generalize hO : icmpLengthOctet type lenflag (id % 256) (if rest.isEmpty then none else some (size rest)) exts = O at *
  generalize hT : rfc4884Tail 4 (if rest.isEmpty then none else some (size rest)) exts = T at *
  generalize hX : (if type = 13 ∨ type = 14 then w32 a ++ w32 b ++ w32 c else if type = 17 ∨ type = 18 then w32 a else []) = X at *
  have hXl : X.length = (if type = 13 ∨ type = 14 then 12 else if type = 17 ∨ type = 18 then 4 else 0) := by
    rw [← hX]; split <;> (try split) <;> simp
  rw [show [b8 type, b8 code, 0, 0, b8 (id / 256), b8 O] ++ w16 seq ++ X ++ I ++ T
    = ([b8 type, b8 code, 0, 0, b8 (id / 256), b8 O] ++ w16 seq) ++ (X ++ (I ++ T)) by simp only [List.append_assoc]] at hlen ⊢
  generalize hH : [b8 type, b8 code, 0, 0, b8 (id / 256), b8 O] ++ w16 seq = H at *
  have hHl : H.length = 8 := by rw [← hH]; rfl
  rw [length_icmpTail] at hlen
  have hck := Verify.icmp_checksum_verifies (H ++ (X ++ (I ++ T))) (by omega) (by rw [← hH]; rfl) (by rw [← hH]; rfl)
  unfold icmpTail at hck ⊢
  generalize wrap16 (not32 (sumRange (H ++ (X ++ (I ++ T))))) = v at *
  rw [poke16_append _ _ _ _ (by omega)] at hck ⊢
  have hH'l : (poke16 H 2 v).length = 8 := by rw [length_poke16]; exact hHl
  have rd8 : ∀ i, i < 8 → i ≠ 2 → i ≠ 3 → u8 (poke16 H 2 v ++ (X ++ (I ++ T))) i = u8 H i := by
    intro i h1 h2 h3
    rw [u8_append_left _ _ _ (by omega), u8_poke16_ne _ _ _ _ h2 (by omega)]
  have rd16 : ∀ i, i + 1 < 8 → 3 < i → be16At (poke16 H 2 v ++ (X ++ (I ++ T))) i = be16At H i := by
    intro i h1 h2; unfold be16At; rw [rd8 _ (by omega) (by omega) (by omega), rd8 _ (by omega) (by omega) (by omega)]
  have hdropH : (poke16 H 2 v ++ (X ++ (I ++ T))).drop 8 = X ++ (I ++ T) := drop_append_len _ _ _ hH'l
  -- the octet in the RFC 4884 length position
  have h5 : u8 (poke16 H 2 v ++ (X ++ (I ++ T))) 5 = O % 256 := by
    rw [rd8 5 (by omega) (by omega) (by omega), ← hH]
    simp only [List.cons_append, u8_cons_succ, u8_cons_zero, b8_toNat]
  apply walk_icmp_intro
  · simp [hH'l] <;> omega
  · exact hck
  · rw [rd8 0 (by omega) (by omega) (by omega), ← hH]; simp only [List.cons_append, u8_cons_zero, b8_toNat]; omega
  · rw [rd8 1 (by omega) (by omega) (by omega), ← hH]; simp only [List.cons_append, u8_cons_succ, u8_cons_zero, b8_toNat]; omega
  · simp only [List.length_append, hH'l, hXl]; split <;> (try split) <;> omega
  · -- identifier and sequence number of the messages that have them
    intro hna
    have hlf' : lenflag = false := by cases lenflag; rfl; exact absurd (hlf rfl) hna
    have hOv : O = id % 256 := by rw [← hO, hlf']; exact icmp_octet_other _ _ _ _ hna
    constructor
    · rw [rd16 4 (by omega) (by omega), ← hH, hOv]
      simp only [List.cons_append, be16At_cons, be16At_zero_cons, b8_toNat]; omega
    · rw [rd16 6 (by omega) (by omega), ← hH]
      simp only [List.cons_append, List.nil_append, be16At_cons]
      rw [show w16 seq = w16 seq ++ [] by simp, be16At_w16']; omega
  · intro h13
    have hXv : X = w32 a ++ w32 b ++ w32 c := by rw [← hX, if_pos h13]
    have e8 : ∀ i, be32At (poke16 H 2 v ++ (X ++ (I ++ T))) (i + 8) = be32At (X ++ (I ++ T)) i := by
      intro i; unfold be32At
      rw [be16At_len_add _ _ 8 _ hH'l, show i + 8 + 2 = (i + 2) + 8 by omega, be16At_len_add _ _ 8 _ hH'l]
    refine ⟨?_, ?_, ?_⟩
    · rw [e8 0, hXv]; simp only [List.append_assoc]; exact be32At_w32 _ _ r5
    · rw [e8 4, hXv]; simp only [List.append_assoc, be32At_w32_skip]; exact be32At_w32 _ _ r6
    · rw [e8 8, hXv]; simp only [List.append_assoc, be32At_w32_skip]; exact be32At_w32 _ _ r7
  · intro h17
    have hXv : X = w32 a := by rw [← hX, if_neg (by omega), if_pos h17]
    have e8 : ∀ i, be32At (poke16 H 2 v ++ (X ++ (I ++ T))) (i + 8) = be32At (X ++ (I ++ T)) i := by
      intro i; unfold be32At
      rw [be16At_len_add _ _ 8 _ hH'l, show i + 8 + 2 = (i + 2) + 8 by omega, be16At_len_add _ _ 8 _ hH'l]
    rw [e8 0, hXv]; exact be32At_w32 _ _ r5
  · -- RFC 4884
    have hdrop : (poke16 H 2 v ++ (X ++ (I ++ T))).drop
        (if type = 13 ∨ type = 14 then 20 else if type = 17 ∨ type = 18 then 12 else 8) = I ++ T := by
      rw [← List.append_assoc, drop_append_len _ _ _ (by simp only [List.length_append, hH'l, hXl]; split <;> (try split) <;> omega)]
    rw [hdrop, h5, ← hT]
    -- the inner walk, in the shape `icmp_tail_ok` takes it
    have ih' : walk true rest (I ++ zeros (if exts.isEmpty then 0 else
          (if paddedInner (some (size rest)) 4 > 128 then paddedInner (some (size rest)) 4 else 128) - size rest)) .other
        = .ok (zeros (if exts.isEmpty then 0 else
          (if paddedInner (some (size rest)) 4 > 128 then paddedInner (some (size rest)) 4 else 128) - size rest)) := by
      rcases hext with he | ⟨_, hre⟩
      · simp only [he, if_true] at ih ⊢; exact ih
      · by_cases he : exts.isEmpty = true
        · simp only [he, if_true] at ih ⊢; exact ih
        · have he' : exts.isEmpty = false := by simpa using he
          rw [icmp_trailer_ext _ _ _ _ _ _ _ _ _ _ he' hre] at ih
          simp only [he', Bool.false_eq_true, if_false] at ih ⊢; exact ih
    by_cases hal : type = 3 ∨ type = 11 ∨ type = 12
    · have hid : id = 0 := by rcases r8 with h | h; (· omega); exact h.1
      subst hid
      simp only [hal, if_true]
      rw [show 0 % 256 = 0 from rfl] at hO
      by_cases he : exts.isEmpty = true
      · -- no extension structure: the octet is 0 or the exact size of the original datagram in words
        have hov : paddedInner (if rest.isEmpty then none else some (size rest)) 4 < 1024 := by
          cases hre : rest.isEmpty with
          | true => simp [paddedInner]
          | false => simp only [Bool.false_eq_true, if_false]; exact Nat.lt_of_not_le (fun h => hkf10 ⟨hal, hre, h⟩)
        obtain ⟨o1, o2⟩ := icmp_octet_plain type lenflag _ exts hal he hov
        rw [hO] at o1 o2
        rw [Nat.mod_eq_of_lt o1]
        apply icmp_tail_ok "icmp" 4 (Or.inl rfl) rest exts O I hin r9 hxs _ ih'
        refine Or.inr ⟨he, fun hne => ?_⟩
        obtain ⟨q1, q2, q3⟩ := o2 hne
        cases hre : rest.isEmpty with
        | true => simp [hre, paddedInner] at q3
        | false =>
          simp only [hre, Bool.false_eq_true, if_false] at q1 q2
          have h4 : size rest % 4 = 0 := Classical.byContradiction (fun hn => hkf1 ⟨hal, he, hre, q1, hn⟩)
          rw [q2]; exact (paddedInner_some (size rest) 4 (by omega)).2.2.2 h4
      · have he' : exts.isEmpty = false := by simpa using he
        have hre : rest.isEmpty = false := by rcases hext with h | h; (· exact absurd h he); exact h.2
        simp only [hre, Bool.false_eq_true, if_false] at hO ⊢
        have hov : paddedInner (some (size rest)) 4 < 1024 := Nat.lt_of_not_le (fun h => hkf10 ⟨hal, hre, h⟩)
        obtain ⟨o1, o2⟩ := icmp_octet_ext type lenflag (size rest) exts hal he' hov
        rw [hO] at o1 o2
        rw [Nat.mod_eq_of_lt o1]
        have := icmp_tail_ok "icmp" 4 (Or.inl rfl) rest exts O I hin r9 hxs (Or.inl ⟨he', hre, o2⟩) ih'
        simp only [hre, Bool.false_eq_true, if_false] at this; exact this
    · have he : exts.isEmpty = true := by rcases hext with h | h; exact h; exact absurd h.1 hal
      simp only [hal, if_false]
      exact icmp_tail_ok "icmp" 4 (Or.inl rfl) rest exts 0 I hin r9 hxs (Or.inr ⟨he, fun h => absurd rfl h⟩) ih'

end Tins.Ck.Ser
