import TinsModel.Checksum.Walk.StepLink
import TinsModel.Checksum.Walk.StepIcmp6
/-
  The induction over the stack behind `length_fields` (`Props/C05.lean`): the RFC dissector accepts the serialisation of
  every stack of the C05 model that it can delimit, outside the regions of the known findings.
-/
namespace Tins.Ck.Ser
open Tins.Ck Tins.Ck.Dissect

theorem size_rest_le (l : Layer) (rest : List Layer) : size rest ≤ size (l :: rest) := by
  simp only [size]; omega

theorem acc_all (ls : List Layer) : ∀ (p : Option Layer) (k : Nat),
    ls.all wf = true → ls.all inRange = true → parentWf p → size ls ≤ 65535 → delimited p k ls = true →
    rfc4884Unpadded ls = false → rfc4884Overflow ls = false → Acc ls p k := by
  induction ls with
  | nil =>
    intro p k _ _ _ _ _ _ _
    unfold Acc; simp only [serialize, List.nil_append]; exact walk_nil _ _
  | cons l rest ih =>
    intro p k hwf hr hp hsz hd hk1 hk10
    simp only [List.all_cons, Bool.and_eq_true] at hwf hr
    obtain ⟨hwl, hwr⟩ := hwf
    obtain ⟨hrl, hrr⟩ := hr
    have hszr : size rest ≤ 65535 := Nat.le_trans (size_rest_le l rest) hsz
    have hpl : parentWf (some l) := hwl
    cases l with
    | eth dst src type =>
      simp only [delimited, Bool.and_eq_true, beq_iff_eq, eth_trl] at hd
      simp only [rfc4884Unpadded, rfc4884Overflow] at hk1 hk10
      obtain ⟨hk, hd'⟩ := hd; subst hk
      exact step_eth dst src type rest p hwl hwr (ih _ _ hwr hrr hpl hszr hd' hk1 hk10)
    | dot1q prio cfi id type padf =>
      simp only [rfc4884Unpadded, rfc4884Overflow] at hk1 hk10
      cases padf with
      | true =>
        simp only [delimited, if_true, Bool.and_eq_true, beq_iff_eq, dot1q_trl] at hd
        obtain ⟨hk, hd'⟩ := hd; subst hk
        exact step_dot1q prio cfi id type true rest p 0 hrl hwr (fun _ => rfl) (ih _ _ hwr hrr hpl hszr hd' hk1 hk10)
      | false =>
        simp only [delimited, Bool.false_eq_true, if_false] at hd
        exact step_dot1q prio cfi id type false rest p k hrl hwr (fun h => by cases h) (ih _ _ hwr hrr hpl hszr hd hk1 hk10)
    | ip tos id flags fragoff ttl proto src dst opts =>
      simp only [delimited] at hd
      simp only [rfc4884Unpadded, rfc4884Overflow] at hk1 hk10
      exact step_ip _ _ _ _ _ _ _ _ _ rest p k hwl hrl hwr hsz (ih _ _ hwr hrr hpl hszr hd hk1 hk10)
    | ip6 tc flow hop nh src dst exts =>
      simp only [delimited] at hd
      simp only [rfc4884Unpadded, rfc4884Overflow] at hk1 hk10
      exact step_ip6 _ _ _ _ _ _ _ rest p k hwl hrl hwr hsz (ih _ _ hwr hrr hpl hszr hd hk1 hk10)
    | tcp sp dp seq ack flags win urg opts =>
      simp only [delimited, Bool.and_eq_true, Bool.or_eq_true, beq_iff_eq] at hd
      simp only [rfc4884Unpadded, rfc4884Overflow] at hk1 hk10
      exact step_tcp _ _ _ _ _ _ _ _ rest p k hwl hrl hwr hp hsz hd.1 (ih _ _ hwr hrr hpl hszr hd.2 hk1 hk10)
    | udp sp dp =>
      simp only [delimited] at hd
      simp only [rfc4884Unpadded, rfc4884Overflow] at hk1 hk10
      exact step_udp _ _ rest p k hrl hwr hp hsz (ih _ _ hwr hrr hpl hszr hd hk1 hk10)
    | icmp type code id seq a b c lenflag exts =>
      simp only [delimited, Bool.and_eq_true, Bool.or_eq_true, beq_iff_eq, Bool.not_eq_true'] at hd
      simp only [rfc4884Unpadded, rfc4884Overflow, Bool.or_eq_false_iff] at hk1 hk10
      obtain ⟨⟨⟨hk, hext⟩, hlf⟩, hd'⟩ := hd
      subst hk
      apply step_icmp type code id seq a b c lenflag exts rest p hrl hwr hsz
      · rcases hext with h | h
        · exact Or.inl h
        · refine Or.inr ⟨?_, by simpa using h.2⟩
          rcases h.1 with (h | h) | h <;> omega
      · intro hl
        rw [hl] at hlf; simp at hlf; omega
      · rintro ⟨hal, he, hre, hq, hm⟩
        have := hk1.1
        have hal' : (type == 3 || type == 11 || type == 12) = true := by
          simp only [Bool.or_eq_true, beq_iff_eq]; omega
        have hq' : (lenflag || id % 256 != 0 || decide (paddedInner (some (size rest)) 4 > 128)) = true := by
          rcases hq with h | h
          · simp [h]
          · simp [h]
        have hm' : (size rest % 4 != 0) = true := by simpa using hm
        simp [hal', he, hre, hq', hm'] at this
      · rintro ⟨hal, hre, hov⟩
        have := hk10.1
        have hal' : (type == 3 || type == 11 || type == 12) = true := by
          simp only [Bool.or_eq_true, beq_iff_eq]; omega
        simp [hal', hre, hov] at this
      · exact ih _ _ hwr hrr hpl hszr hd' hk1.2 hk10.2
    | icmp6 type code id seq lenflag exts =>
      simp only [delimited, Bool.and_eq_true, Bool.or_eq_true, beq_iff_eq, Bool.not_eq_true'] at hd
      simp only [rfc4884Unpadded, rfc4884Overflow, Bool.or_eq_false_iff] at hk1 hk10
      obtain ⟨⟨⟨hk, hext⟩, hlf⟩, hd'⟩ := hd
      subst hk
      apply step_icmp6 type code id seq lenflag exts rest p hrl hwr hp hsz
      · rcases hext with h | h
        · exact Or.inl h
        · exact Or.inr ⟨h.1, by simpa using h.2⟩
      · intro hl
        rw [hl] at hlf; simp at hlf; omega
      · rintro ⟨hal, he, hre, hq, hm⟩
        have := hk1.1
        have hal' : (type == 1 || type == 3) = true := by
          simp only [Bool.or_eq_true, beq_iff_eq]; omega
        have hq' : (lenflag || id / 256 % 256 != 0 || decide (paddedInner (some (size rest)) 8 > 128)) = true := by
          rcases hq with h | h
          · simp [h]
          · simp [h]
        have hm' : (size rest % 8 != 0) = true := by simpa using hm
        simp [hal', he, hre, hq', hm'] at this
      · rintro ⟨hal, hre, hov⟩
        have := hk10.1
        have hal' : (type == 1 || type == 3) = true := by
          simp only [Bool.or_eq_true, beq_iff_eq]; omega
        simp [hal', hre, hov] at this
      · exact ih _ _ hwr hrr hpl hszr hd' hk1.2 hk10.2
    | raw data =>
      simp only [delimited] at hd
      simp only [rfc4884Unpadded, rfc4884Overflow] at hk1 hk10
      exact step_raw data rest p k (ih _ _ hwr hrr hpl hszr hd hk1 hk10)
    | pppoe code sess plen tags =>
      simp only [rfc4884Unpadded, rfc4884Overflow] at hk1 hk10
      by_cases hc : code = 0
      · subst hc
        simp only [delimited, beq_self_eq_true, if_true, Bool.and_eq_true] at hd
        have ht : tags = [] := List.isEmpty_iff.mp hd.1
        subst ht
        exact step_pppoe_session sess plen rest p k hrl hwr hszr (ih _ _ hwr hrr hpl hszr hd.2 hk1 hk10)
      · have hc' : (code == 0) = false := by simp [hc]
        simp only [delimited, hc', Bool.false_eq_true, if_false] at hd
        have hre : rest = [] := List.isEmpty_iff.mp hd
        subst hre
        exact step_pppoe_discovery code sess plen tags p k hc hwl hrl
    | mpls label exp bos ttl =>
      simp only [delimited, Bool.and_eq_true] at hd
      simp only [rfc4884Unpadded, rfc4884Overflow] at hk1 hk10
      exact step_mpls label exp bos ttl rest p k hrl hd.1 (ih _ _ hwr hrr hpl hszr hd.2 hk1 hk10)
    | dot3 dst src =>
      simp only [delimited, Bool.and_eq_true, beq_iff_eq] at hd
      simp only [rfc4884Unpadded, rfc4884Overflow] at hk1 hk10
      obtain ⟨hk, hd'⟩ := hd; subst hk
      exact step_dot3 dst src rest p hwl hwr hszr (ih _ _ hwr hrr hpl hszr hd' hk1 hk10)
    | snap control oui type =>
      simp only [delimited] at hd
      simp only [rfc4884Unpadded, rfc4884Overflow] at hk1 hk10
      exact step_snap control oui type rest p k hrl hwr (ih _ _ hwr hrr hpl hszr hd hk1 hk10)
    | llc dsap ssap =>
      simp only [delimited] at hd
      simp only [rfc4884Unpadded, rfc4884Overflow] at hk1 hk10
      exact step_llc dsap ssap rest p k hrl (ih _ _ hwr hrr hpl hszr hd hk1 hk10)
    | loop family =>
      simp only [delimited] at hd
      simp only [rfc4884Unpadded, rfc4884Overflow] at hk1 hk10
      exact step_loop family rest p k (ih _ _ hwr hrr hpl hszr hd hk1 hk10)
    | sll ptype lltype lllen addr proto =>
      simp only [delimited] at hd
      simp only [rfc4884Unpadded, rfc4884Overflow] at hk1 hk10
      exact step_sll ptype lltype lllen addr proto rest p k hwl hrl hwr (ih _ _ hwr hrr hpl hszr hd hk1 hk10)
    | ah spi seq icv nh =>
      simp only [delimited] at hd
      simp only [rfc4884Unpadded, rfc4884Overflow] at hk1 hk10
      exact step_ah spi seq icv nh rest p k hrl hwr (ih _ _ hwr hrr hpl hszr hd hk1 hk10)
    | esp spi seq =>
      simp only [delimited] at hd
      simp only [rfc4884Unpadded, rfc4884Overflow] at hk1 hk10
      exact step_esp spi seq rest p k hrl (ih _ _ hwr hrr hpl hszr hd hk1 hk10)
    | radiotap fcs =>
      simp only [delimited, Bool.and_eq_true, beq_iff_eq] at hd
      simp only [rfc4884Unpadded, rfc4884Overflow] at hk1 hk10
      obtain ⟨hk, hd'⟩ := hd; subst hk
      cases fcs with
      | true => exact step_radiotap_fcs rest p (ih _ _ hwr hrr hpl hszr hd' hk1 hk10)
      | false => exact step_radiotap_plain rest p (ih _ _ hwr hrr hpl hszr hd' hk1 hk10)
    | eapol keylen key =>
      simp only [delimited] at hd
      simp only [rfc4884Unpadded, rfc4884Overflow] at hk1 hk10
      exact step_eapol keylen key rest p k hrl hwr hsz (ih _ _ hwr hrr hpl hszr hd hk1 hk10)
    | «opaque» kind hdr trl => simp [wf] at hwl

/-- **whole serialisation**: the dissector, started on the complete output of `PDU::serialize` for a stack with no enclosing
    layer, accepts every comparison it makes and leaves no octet unaccounted for -/
theorem check_all (ls : List Layer) (hwf : ls.all wf = true) (hr : ls.all inRange = true) (hsz : size ls ≤ 65535)
    (hd : delimited none 0 ls = true) (hk1 : rfc4884Unpadded ls = false) (hk10 : rfc4884Overflow ls = false) :
    Dissect.check true ls (serialize ls none) = .ok () := by
  have h := acc_all ls none 0 hwf hr trivial hsz hd hk1 hk10
  unfold Acc at h
  simp only [zeros_zero, List.append_nil] at h
  unfold Dissect.check
  rw [show walkPar none = .other from rfl] at h
  simp only [h, ok_bind, List.isEmpty_nil, need_true]
  rfl

end Tins.Ck.Ser
