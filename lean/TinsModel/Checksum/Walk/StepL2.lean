import TinsModel.Checksum.Walk.Intro
import TinsModel.Checksum.Walk.Read
/-
  One layer of the induction behind `length_fields` (`Props/C05.lean`), link-layer and tunnel classes: if the dissector
  accepts the serialisation of the inner stack (`Acc rest (some l) k'`), it accepts the serialisation of `l :: rest`.
-/
namespace Tins.Ck.Ser
open Tins.Ck Tins.Ck.Dissect Tins.Gen

/-! ### next-protocol tags: the generated class → tag tables against the IEEE / IANA registries of the dissector -/

/-- whenever the RFC dissector knows an EtherType for a layer (a VLAN tag counted as 0x8100), `pdu_to_ether_type` yields it -/
theorem pduToEther_names (n : Layer) (w : Nat) (hn : wf n = true) (h : etherTypeOf n none = some w) :
    pduToEther n = w ∧ w ≠ 0 ∧ w < 65536 := by
  cases n with
  | ip a b c d e f g h i => simp only [etherTypeOf, Option.some.injEq] at h; subst h; exact ⟨rfl, by decide, by decide⟩
  | ip6 a b c d e f g => simp only [etherTypeOf, Option.some.injEq] at h; subst h; exact ⟨rfl, by decide, by decide⟩
  | mpls a b c d => simp only [etherTypeOf, Option.some.injEq] at h; subst h; exact ⟨rfl, by decide, by decide⟩
  | eapol a b => simp only [etherTypeOf, Option.some.injEq] at h; subst h; exact ⟨rfl, by decide, by decide⟩
  | dot1q a b c d e => simp only [etherTypeOf, Option.some.injEq] at h; subst h; exact ⟨rfl, by decide, by decide⟩
  | pppoe code a b c =>
    simp only [etherTypeOf, Option.some.injEq] at h; subst h
    by_cases hc : code = 0 <;> simp [pduToEther, hc, TagsC05.ethPPPOES, TagsC05.ethPPPOED]
  | «opaque» _ _ _ => simp [wf] at hn
  | _ => simp [etherTypeOf] at h

/-- whenever the dissector knows an IP protocol number for a layer, `pdu_flag_to_ip_type` yields it -/
theorem flagToIp_names (n : Layer) (w : Nat) (hn : wf n = true) (h : ipProtoOf n = some w) :
    flagToIp n = w ∧ w ≠ 0xff ∧ w < 256 := by
  cases n with
  | ip a b c d e f g h i => simp only [ipProtoOf, Layer.kind, Option.some.injEq] at h; subst h; exact ⟨rfl, by decide, by decide⟩
  | ip6 a b c d e f g => simp only [ipProtoOf, Layer.kind, Option.some.injEq] at h; subst h; exact ⟨rfl, by decide, by decide⟩
  | tcp a b c d e f g h => simp only [ipProtoOf, Layer.kind, Option.some.injEq] at h; subst h; exact ⟨rfl, by decide, by decide⟩
  | udp a b => simp only [ipProtoOf, Layer.kind, Option.some.injEq] at h; subst h; exact ⟨rfl, by decide, by decide⟩
  | icmp a b c d e f g h i => simp only [ipProtoOf, Layer.kind, Option.some.injEq] at h; subst h; exact ⟨rfl, by decide, by decide⟩
  | icmp6 a b c d e f => simp only [ipProtoOf, Layer.kind, Option.some.injEq] at h; subst h; exact ⟨rfl, by decide, by decide⟩
  | ah a b c d => simp only [ipProtoOf, Layer.kind, Option.some.injEq] at h; subst h; exact ⟨rfl, by decide, by decide⟩
  | esp a b => simp only [ipProtoOf, Layer.kind, Option.some.injEq] at h; subst h; exact ⟨rfl, by decide, by decide⟩
  | «opaque» _ _ _ => simp [wf] at hn
  | _ => simp [ipProtoOf, Layer.kind] at h

theorem head_wf (rest : List Layer) (n : Layer) (hall : rest.all wf = true) (hn : rest.head? = some n) : wf n = true := by
  cases rest with
  | nil => simp at hn
  | cons x xs =>
    simp only [List.head?_cons, Option.some.injEq] at hn; subst hn
    simp only [List.all_cons, Bool.and_eq_true] at hall; exact hall.1

theorem walkPar_other (l : Layer) (h : parentOf l = .other) : walkPar (some l) = .other := h

theorem step_raw (data : Bytes) (rest : List Layer) (p : Option Layer) (k : Nat)
    (ih : Acc rest (some (.raw data)) k) : Acc (.raw data :: rest) p k := by
  unfold Acc at ih ⊢
  simp only [serialize, write, List.append_assoc]
  apply walk_raw_intro
  · simp
  · simp
  · rw [drop_append_len _ _ _ rfl]; exact ih

theorem step_esp (spi seq : Nat) (rest : List Layer) (p : Option Layer) (k : Nat)
    (hr : inRange (.esp spi seq) = true) (ih : Acc rest (some (.esp spi seq)) k) : Acc (.esp spi seq :: rest) p k := by
  unfold Acc at ih ⊢
  simp only [inRange, Bool.and_eq_true, decide_eq_true_eq] at hr
  simp only [serialize, write, List.append_assoc]
  apply walk_esp_intro
  · simp <;> omega
  · exact be32At_w32 _ _ hr.1
  · rw [show w32 spi = [b8 (spi / 16777216), b8 (spi / 65536), b8 (spi / 256), b8 spi] from rfl]
    simp only [List.cons_append, List.nil_append, be32At_cons]
    exact be32At_w32 _ _ hr.2
  · rw [← List.append_assoc, drop_append_len _ _ _ (by simp)]; exact ih

theorem step_llc (dsap ssap : Nat) (rest : List Layer) (p : Option Layer) (k : Nat)
    (hr : inRange (.llc dsap ssap) = true) (ih : Acc rest (some (.llc dsap ssap)) k) :
    Acc (.llc dsap ssap :: rest) p k := by
  unfold Acc at ih ⊢
  simp only [inRange, Bool.and_eq_true, decide_eq_true_eq] at hr
  simp only [serialize, write, List.cons_append, List.nil_append]
  apply walk_llc_intro
  · simp
  · simp only [u8_cons_zero, b8_toNat]; omega
  · simp only [u8_cons_succ, u8_cons_zero, b8_toNat]; omega
  · simp only [u8_cons_succ, u8_cons_zero]; decide
  · exact ih

theorem step_snap (control oui type : Nat) (rest : List Layer) (p : Option Layer) (k : Nat)
    (hr : inRange (.snap control oui type) = true) (hall : rest.all wf = true)
    (ih : Acc rest (some (.snap control oui type)) k) : Acc (.snap control oui type :: rest) p k := by
  unfold Acc at ih ⊢
  simp only [inRange, Bool.and_eq_true, decide_eq_true_eq] at hr
  simp only [serialize, write, List.append_assoc, List.cons_append, List.nil_append]
  apply walk_snap_intro
  · simp
  · rfl
  · rfl
  · simp only [u8_cons_succ, u8_cons_zero, b8_toNat]; omega
  · simp only [u8_cons_succ, u8_cons_zero, be16At_cons, be16At_zero_cons, b8_toNat]; omega
  · intro n hn w hw
    simp only [be16At_cons, be16At_w16']
    have hwf := head_wf rest n hall hn
    obtain ⟨e1, e2, e3⟩ := pduToEther_names n w hwf hw
    simp only [hn, e1, bne_iff_ne, ne_eq, e2, not_false_eq_true, if_true]
    omega
  · exact ih

theorem step_sll (ptype lltype lllen : Nat) (addr : Bytes) (proto : Nat) (rest : List Layer) (p : Option Layer) (k : Nat)
    (hwf : wf (.sll ptype lltype lllen addr proto) = true) (hr : inRange (.sll ptype lltype lllen addr proto) = true)
    (hall : rest.all wf = true) (ih : Acc rest (some (.sll ptype lltype lllen addr proto)) k) :
    Acc (.sll ptype lltype lllen addr proto :: rest) p k := by
  unfold Acc at ih ⊢
  simp only [inRange, Bool.and_eq_true, decide_eq_true_eq] at hr
  simp only [wf, beq_iff_eq] at hwf
  simp only [serialize, write, List.append_assoc]
  apply walk_sll_intro
  · simp <;> omega
  · rw [be16At_w16']; omega
  · rw [show w16 ptype = [b8 (ptype / 256), b8 ptype] from rfl]
    simp only [List.cons_append, List.nil_append, be16At_cons, be16At_w16']; omega
  · rw [show w16 ptype = [b8 (ptype / 256), b8 ptype] from rfl, show w16 lltype = [b8 (lltype / 256), b8 lltype] from rfl]
    simp only [List.cons_append, List.nil_append, be16At_cons, be16At_w16']; omega
  · rw [show ∀ x : Bytes, w16 ptype ++ (w16 lltype ++ (w16 lllen ++ (addr ++ x)))
      = (w16 ptype ++ w16 lltype ++ w16 lllen) ++ (addr ++ x) by intro x; simp only [List.append_assoc]]
    exact slice_mid _ _ _ 6 14 (by simp) (by omega)
  · intro n hn w hw
    rw [show ∀ x : Bytes, w16 ptype ++ (w16 lltype ++ (w16 lllen ++ (addr ++ x)))
      = (w16 ptype ++ w16 lltype ++ w16 lllen ++ addr) ++ x by intro x; simp only [List.append_assoc]]
    rw [be16At_at_len _ _ 14 (by simp [hwf]), be16At_w16']
    obtain ⟨e1, e2, e3⟩ := pduToEther_names n w (head_wf rest n hall hn) hw
    simp only [hn, e1, bne_iff_ne, ne_eq, e2, not_false_eq_true, if_true]
    omega
  · rw [drop_w16 _ 14, drop_w16 _ 12, drop_w16 _ 10, drop_len_add _ _ 8 2 hwf, drop_w16 _ 0]; exact ih

theorem step_loop (family : Nat) (rest : List Layer) (p : Option Layer) (k : Nat)
    (ih : Acc rest (some (.loop family)) k) : Acc (.loop family :: rest) p k := by
  unfold Acc at ih ⊢
  simp only [serialize, write, List.append_assoc]
  apply walk_loop_intro
  · simp <;> omega
  · split <;> rename_i hk <;> (first | trivial | (simp only [hk]; exact le32At_w32le _ _ (by omega)))
  · rw [drop_append_len _ _ _ (by simp)]; exact ih

theorem step_mpls (label exp bos ttl : Nat) (rest : List Layer) (p : Option Layer) (k : Nat)
    (hr : inRange (.mpls label exp bos ttl) = true)
    (hs : (match rest.head? with
        | some (.mpls ..) => bos == 0
        | some _ => p.isSome || bos == 1
        | none => true) = true)
    (ih : Acc rest (some (.mpls label exp bos ttl)) k) : Acc (.mpls label exp bos ttl :: rest) p k := by
  unfold Acc at ih ⊢
  simp only [inRange, Bool.and_eq_true, decide_eq_true_eq] at hr
  -- the bottom-of-stack bit the model writes
  have hS : ∀ s : Nat, s ≤ 1 →
      (match rest.head? with
        | some (.mpls ..) => s = 0
        | some _ => s = 1
        | none => True) →
      walk true (.mpls label exp bos ttl :: rest)
        ([b8 (label / 4096), b8 (label / 16), b8 (label % 16 * 16 + exp % 8 * 2 + s), b8 ttl]
          ++ serialize rest (some (.mpls label exp bos ttl)) ++ zeros k) (walkPar p) = .ok (zeros k) := by
    intro s hs1 hsv
    simp only [List.cons_append, List.nil_append]
    apply walk_mpls_intro
    · simp <;> omega
    · simp only [u8_cons_succ, u8_cons_zero, b8_toNat]; omega
    · simp only [u8_cons_succ, u8_cons_zero, b8_toNat]; omega
    · simp only [u8_cons_succ, u8_cons_zero, b8_toNat]; omega
    · cases hh : rest.head? with
      | none => trivial
      | some n =>
        rw [hh] at hsv
        cases n <;> simp only at hsv <;> simp only [u8_cons_succ, u8_cons_zero, b8_toNat] <;> (try omega)
    · exact ih
  have hle : ∀ c : Bool, (if c = true then 1 else bos % 2) ≤ 1 := by intro c; cases c <;> simp <;> omega
  cases rest with
  | nil =>
    simp only [serialize, write, List.head?_nil]
    exact hS _ (hle _) trivial
  | cons n r =>
    simp only [List.head?_cons] at hs
    simp only [serialize, write, List.head?_cons] at hS ⊢
    cases n <;> (cases p <;> simp only [Option.isSome_none, Option.isSome_some, Bool.false_or, Bool.true_or, beq_iff_eq,
      Bool.true_and, Bool.false_and, Bool.not_true, Bool.not_false] at hs ⊢ <;>
      (apply hS <;> first | (simp only [Bool.false_eq_true, if_false, if_true]; omega) | (simp only; try trivial)))

theorem step_ah (spi seq : Nat) (icv : Bytes) (nh : Nat) (rest : List Layer) (p : Option Layer) (k : Nat)
    (hr : inRange (.ah spi seq icv nh) = true) (hall : rest.all wf = true)
    (ih : Acc rest (some (.ah spi seq icv nh)) k) : Acc (.ah spi seq icv nh :: rest) p k := by
  unfold Acc at ih ⊢
  simp only [inRange, Bool.and_eq_true, decide_eq_true_eq, beq_iff_eq] at hr
  obtain ⟨⟨⟨⟨h1, h2⟩, h3⟩, h4⟩, h5⟩ := hr
  simp only [serialize, write, List.append_assoc, List.cons_append, List.nil_append]
  apply walk_ah_intro (hl := 12 + icv.length)
  · simp <;> omega
  · simp only [u8_cons_succ, u8_cons_zero, b8_toNat]; omega
  · omega
  · simp <;> omega
  · simp only [be32At_cons]; exact be32At_w32 _ _ h1
  · simp only [be32At_cons, be32At_w32_skip _ 0]; exact be32At_w32 _ _ h2
  · rw [show ∀ (a b c d : UInt8) (x : Bytes), a :: b :: c :: d :: (w32 spi ++ (w32 seq ++ (icv ++ x)))
      = ([a, b, c, d] ++ w32 spi ++ w32 seq) ++ (icv ++ x) by intros; simp only [List.append_assoc, List.cons_append, List.nil_append]]
    exact slice_mid _ _ _ 12 _ (by simp <;> omega) rfl
  · intro n hn w hw
    obtain ⟨e1, e2, e3⟩ := flagToIp_names n w (head_wf rest n hall hn) hw
    simp only [u8_cons_zero, b8_toNat, hn, e1, ne_eq, e2, not_false_eq_true, if_true]; omega
  · rw [show ∀ (a b c d : UInt8) (x : Bytes), a :: b :: c :: d :: (w32 spi ++ (w32 seq ++ (icv ++ x)))
      = ([a, b, c, d] ++ w32 spi ++ w32 seq ++ icv) ++ x by intros; simp only [List.append_assoc, List.cons_append, List.nil_append]]
    rw [drop_append_len _ _ _ (by simp <;> omega)]; exact ih

theorem eth_trl (dst src : Bytes) (type : Nat) (rest : List Layer) :
    trailerSize (.eth dst src type) (if rest.isEmpty then none else some (size rest)) = 46 - size rest := by
  cases rest <;> simp [trailerSize, size, TagsC05.ethMinFrame]

theorem dot1q_trl (prio cfi id type : Nat) (padf : Bool) (rest : List Layer) :
    trailerSize (.dot1q prio cfi id type padf) (if rest.isEmpty then none else some (size rest))
      = if padf then 46 - size rest else 0 := by
  cases rest with
  | nil => cases padf <;> simp [trailerSize, size, TagsC05.dot1qMin]
  | cons a r =>
    simp only [List.isEmpty_cons, Bool.false_eq_true, if_false, trailerSize, Option.getD_some, TagsC05.dot1qMin]
    generalize size (a :: r) = sz
    cases padf <;> simp <;> split <;> omega

theorem zeros_append (a b : Nat) : zeros a ++ zeros b = zeros (a + b) := by simp [zeros, List.replicate_append_replicate]
theorem zeros_zero : zeros 0 = [] := rfl

theorem step_dot1q (prio cfi id type : Nat) (padf : Bool) (rest : List Layer) (p : Option Layer) (k : Nat)
    (hr : inRange (.dot1q prio cfi id type padf) = true) (hall : rest.all wf = true)
    (hk : padf = true → k = 0)
    (ih : Acc rest (some (.dot1q prio cfi id type padf)) (if padf then 46 - size rest else k)) :
    Acc (.dot1q prio cfi id type padf :: rest) p k := by
  unfold Acc at ih ⊢
  simp only [inRange, Bool.and_eq_true, decide_eq_true_eq] at hr
  have hin := serialize_length rest (some (.dot1q prio cfi id type padf)) hall
  rw [show walkPar (some (Layer.dot1q prio cfi id type padf)) = .other from rfl] at ih
  simp only [serialize, write, dot1q_trl, List.append_assoc, List.cons_append, List.nil_append, zeros_append]
  have hres : zeros k = if padf = true then [] else zeros (if padf = true then 46 - size rest else k) := by
    cases padf with
    | false => rfl
    | true => rw [hk rfl]; rfl
  rw [hres]
  apply walk_dot1q_intro
  · simp <;> omega
  · simp only [u8_cons_zero, b8_toNat]; omega
  · simp only [u8_cons_zero, b8_toNat]; omega
  · simp only [u8_cons_succ, u8_cons_zero, b8_toNat]; omega
  · intro n hn w hw
    simp only [be16At_cons, be16At_w16']
    have hw' : etherTypeOf n none = some w := by
      cases n <;> simp only [etherTypeInTag] at hw <;> first | exact hw | (simp only [etherTypeOf]; exact hw)
    obtain ⟨e1, e2, e3⟩ := pduToEther_names n w (head_wf rest n hall hn) hw'
    simp only [hn, e1, ne_eq, TagsC05.ethUNKNOWN, e2, not_false_eq_true, if_true]; omega
  · simp only [List.drop_succ_cons, drop_w16 _ 0, List.drop_zero]
    cases padf with
    | false => simpa using ih
    | true => have := hk rfl; subst this; simpa using ih
  · intro hp; subst hp
    have := hk rfl; subst this
    refine ⟨allZero_zeros _, ?_⟩
    simp only [if_true, List.length_cons, List.length_append, length_w16, length_zeros, hin]
    split <;> omega

end Tins.Ck.Ser
