import TinsModel.Checksum.SerLemmas
/-
  Hypotheses of the whole-stack theorem of C05 (`Props/C05.lean`, `length_fields`), as decidable predicates over the packet
  description: value ranges (`inRange`), the two regions the known findings exclude (`rfc4884Unpadded` KF-C05-1/2,
  `rfc4884Overflow` KF-C05-10/11) and the stacks the RFC dissector can delimit (`delimited`).
-/
namespace Tins.Ck.Ser
open Tins.Ck

/-- numeric fields inside the width of their wire field; ICMP error messages leave the octets libtins derives alone;
    an AH integrity check value is a whole number of 32-bit words (RFC 4302 §2.2) -/
def inRange : Layer → Bool
  | .eth _ _ t => t < 65536
  | .dot1q prio cfi id t _ => prio < 8 && cfi < 2 && id < 4096 && t < 65536
  | .ip tos id fl fo ttl pr _ _ opts => tos < 256 && id < 65536 && fl < 8 && fo < 8192 && ttl < 256 && pr < 256 &&
      opts.all (fun (_, d) => d.length < 254) && ipOptSize opts ≤ 40
  | .ip6 tc flow hop nh _ _ exts => tc < 256 && flow < 1048576 && hop < 256 && nh < 256 &&
      exts.all (fun (t, d) => t < 256 && d.length < 2040)
  | .tcp sp dp seq ack fl win urg opts => sp < 65536 && dp < 65536 && seq < 4294967296 && ack < 4294967296 && fl < 4096 &&
      win < 65536 && urg < 65536 && opts.all (fun (t, d) => t < 256 && d.length < 254) && tcpOptSize opts ≤ 40
  | .udp sp dp => sp < 65536 && dp < 65536
  | .icmp type code id seq a b c _ exts => type < 256 && code < 256 && id < 65536 && seq < 65536 && a < 4294967296 &&
      b < 4294967296 && c < 4294967296 && ((type != 3 && type != 11 && type != 12) || (id == 0 && seq == 0)) &&
      exts.all (fun (cl, t, p) => cl < 256 && t < 256 && p.length < 65532)
  | .icmp6 type code id seq _ exts => type < 256 && code < 256 && id < 65536 && seq < 65536 &&
      ((type != 1 && type != 3) || (id == 0 && seq == 0)) &&
      exts.all (fun (cl, t, p) => cl < 256 && t < 256 && p.length < 65532)
  | .mpls label exp bos ttl => label < 1048576 && exp < 8 && bos < 2 && ttl < 256
  | .pppoe code sess plen tags => code < 256 && sess < 65536 && plen < 65536 && tags.all (fun (t, d) => t < 65536 && d.length < 65536)
  | .snap control oui type => control < 256 && oui < 16777216 && type < 65536
  | .llc dsap ssap => dsap < 256 && ssap < 256
  | .sll ptype lltype lllen _ proto => ptype < 65536 && lltype < 65536 && lllen < 65536 && proto < 65536
  | .ah spi seq icv nh => spi < 4294967296 && seq < 4294967296 && nh < 256 && icv.length % 4 == 0 && icv.length ≤ 1016
  | .esp spi seq => spi < 4294967296 && seq < 4294967296
  | .eapol keylen _ => keylen < 65536
  | _ => true

/-- the region the known findings KF-C05-1 / KF-C05-2 exclude: an ICMP (ICMPv6) error message without extensions whose
    RFC 4884 length field is in use while the inner stack is not a multiple of 4 (8) octets -/
def rfc4884Unpadded : List Layer → Bool
  | .icmp type _ id _ _ _ _ lenflag exts :: rest =>
    ((type == 3 || type == 11 || type == 12) && exts.isEmpty && !rest.isEmpty &&
      (lenflag || id % 256 != 0 || paddedInner (some (size rest)) 4 > 128) && size rest % 4 != 0) || rfc4884Unpadded rest
  | .icmp6 type _ id _ lenflag exts :: rest =>
    ((type == 1 || type == 3) && exts.isEmpty && !rest.isEmpty &&
      (lenflag || id / 256 % 256 != 0 || paddedInner (some (size rest)) 8 > 128) && size rest % 8 != 0) || rfc4884Unpadded rest
  | _ :: rest => rfc4884Unpadded rest
  | [] => false

/-- the region the known findings KF-C05-10 / KF-C05-11 exclude: an ICMP (ICMPv6) error message whose original datagram,
    padded to 32 (64) bits, needs more than the 255 units the 8-bit RFC 4884 length field can express: the field is
    stored modulo 256 -/
def rfc4884Overflow : List Layer → Bool
  | .icmp type _ _ _ _ _ _ _ _ :: rest =>
    ((type == 3 || type == 11 || type == 12) && !rest.isEmpty && paddedInner (some (size rest)) 4 ≥ 1024) || rfc4884Overflow rest
  | .icmp6 type _ _ _ _ _ :: rest =>
    ((type == 1 || type == 3) && !rest.isEmpty && paddedInner (some (size rest)) 8 ≥ 2048) || rfc4884Overflow rest
  | _ :: rest => rfc4884Overflow rest
  | [] => false

/-- **Stacks the dissector can delimit.**  `k` is the number of zero octets the enclosing layers append behind the stack
    (Ethernet / 802.1Q minimum-size padding, RFC 4884 padding of the original datagram), `p` the enclosing layer.
    * a layer that owns everything up to the end of the bytes it is handed (EthernetII, padded 802.1Q, ICMP, ICMPv6, 802.3,
      RadioTap — none of them has a length field of its own) does not sit inside such padding, and neither does a TCP
      segment whose pseudo-header length is the rest of the IP datagram;
    * an extension structure follows an original datagram in an extensible ICMP message (RFC 4884), and only such a
      message has its length field switched on (elsewhere that octet belongs to the identifier);
    * a PPPoE session packet carries a payload and no tags, a discovery packet tags (or nothing) and no payload;
    * a label at the top of the description (no enclosing layer, so libtins derives nothing) says itself whether it is
      the bottom of the stack. -/
def delimited (p : Option Layer) (k : Nat) : List Layer → Bool
  | [] => true
  | l :: rest =>
    let inner : Option Nat := if rest.isEmpty then none else some (size rest)
    match l with
    | .eth .. => k == 0 && delimited (some l) (trailerSize l inner) rest
    | .dot1q _ _ _ _ padf =>
      if padf then k == 0 && delimited (some l) (trailerSize l inner) rest else delimited (some l) k rest
    | .ip .. | .ip6 .. | .udp .. | .eapol .. => delimited (some l) 0 rest
    | .tcp .. => (walkPar p == .other || k == 0) && delimited (some l) k rest
    | .icmp type _ _ _ _ _ _ lenflag exts =>
      k == 0 && (exts.isEmpty || ((type == 3 || type == 11 || type == 12) && !rest.isEmpty)) &&
        (!lenflag || type == 3 || type == 11 || type == 12) &&
        delimited (some l) (if exts.isEmpty then 0 else trailerSize l inner - extStructSize exts) rest
    | .icmp6 type _ _ _ lenflag exts =>
      k == 0 && (exts.isEmpty || ((type == 1 || type == 3) && !rest.isEmpty)) &&
        (!lenflag || type == 1 || type == 3) &&
        delimited (some l) (if exts.isEmpty then 0 else trailerSize l inner - extStructSize exts) rest
    | .pppoe code _ _ tags =>
      if code == 0 then tags.isEmpty && delimited (some l) 0 rest else rest.isEmpty
    | .mpls _ _ bos _ =>
      (match rest.head? with
        | some (.mpls ..) => bos == 0
        | some _ => p.isSome || bos == 1
        | none => true) && delimited (some l) k rest
    | .dot3 .. | .radiotap .. => k == 0 && delimited (some l) 0 rest
    | .opaque .. => false
    | _ => delimited (some l) k rest

/-- the RFC dissector, handed the serialisation of `ls` (enclosing layer `p`) followed by `k` octets of the enclosing
    layers' padding, accepts every comparison it makes and hands exactly that padding back -/
def Acc (ls : List Layer) (p : Option Layer) (k : Nat) : Prop :=
  Dissect.walk true ls (serialize ls p ++ zeros k) (walkPar p) = .ok (zeros k)

end Tins.Ck.Ser
