import TinsModel.Checksum.Walk.StepTransport
/-
  One layer of the induction behind `length_fields`: IPv4 (version, IHL, total length, options, header checksum, protocol)
  and IPv6 (payload length, the extension-header chain).
-/
namespace Tins.Ck.Ser
open Tins.Ck Tins.Ck.Dissect Tins.Ck.Spec

theorem step_ip (tos id flags fragoff ttl proto : Nat) (src dst : Bytes) (opts : List (Nat × Bytes)) (rest : List Layer)
    (p : Option Layer) (k : Nat) (hwf : wf (.ip tos id flags fragoff ttl proto src dst opts) = true)
    (hr : inRange (.ip tos id flags fragoff ttl proto src dst opts) = true) (hall : rest.all wf = true)
    (hsz : size (.ip tos id flags fragoff ttl proto src dst opts :: rest) ≤ 65535)
    (ih : Acc rest (some (.ip tos id flags fragoff ttl proto src dst opts)) 0) :
    Acc (.ip tos id flags fragoff ttl proto src dst opts :: rest) p k := by
  unfold Acc at ih ⊢
  simp only [inRange, Bool.and_eq_true, decide_eq_true_eq] at hr
  obtain ⟨⟨⟨⟨⟨⟨⟨r1, r2⟩, r3⟩, r4⟩, r5⟩, r6⟩, _⟩, r8⟩ := hr
  simp only [wf, Bool.and_eq_true, beq_iff_eq] at hwf
  obtain ⟨⟨ws, wd⟩, wo⟩ := hwf
  have hin := serialize_length rest (some (.ip tos id flags fragoff ttl proto src dst opts)) hall
  rw [show walkPar (some (Layer.ip tos id flags fragoff ttl proto src dst opts)) = .ip4 src dst from rfl] at ih
  simp only [zeros_zero, List.append_nil] at ih
  have hol := length_writeTlvOpts_ip opts wo
  have hp4 := pad4_ge (ipOptSize opts)
  have hp4m := pad4_mod (ipOptSize opts)
  have hp40 : pad4 (ipOptSize opts) ≤ 40 := by unfold pad4; split <;> omega
  simp only [size, headerSize, trailerSize] at hsz
  simp only [serialize, write, headerSize, trailerSize, hin, Nat.add_zero, List.append_assoc, ipTail]
  generalize hpr : ipProtoField proto rest = proto'
  generalize hv : bswap16 (wrap16 (not32 (fold32 (doChecksum (List.take (20 + pad4 (ipOptSize opts)) _))))) = v
  generalize hF : ([b8 (4 * 16 + (20 + pad4 (ipOptSize opts)) / 4 % 16), b8 tos] ++ (w16 (20 + pad4 (ipOptSize opts) + size rest)
      ++ (w16 id ++ (w16 (flags % 8 * 8192 + fragoff % 8192) ++ [b8 ttl, b8 proto', 0, 0])))) = F
  have hFl : F.length = 12 := by rw [← hF]; rfl
  generalize hO : writeTlvOpts opts ++ zeros (pad4 (ipOptSize opts) - ipOptSize opts) = O
  have hOl : O.length = pad4 (ipOptSize opts) := by rw [← hO]; simp [hol]; omega
  generalize hI : serialize rest (some (.ip tos id flags fragoff ttl proto src dst opts)) = I at *
  have hbuf : ([b8 (4 * 16 + (20 + pad4 (ipOptSize opts)) / 4 % 16), b8 tos] ++ (w16 (20 + pad4 (ipOptSize opts) + size rest)
      ++ (w16 id ++ (w16 (flags % 8 * 8192 + fragoff % 8192) ++ ([b8 ttl, b8 proto', 0, 0] ++ (src ++ (dst ++ (writeTlvOpts opts
        ++ (zeros (pad4 (ipOptSize opts) - ipOptSize opts) ++ I))))))))) = F ++ (src ++ (dst ++ (O ++ I))) := by
    rw [← hF, ← hO]; simp only [List.append_assoc]
  rw [hbuf] at hv ⊢
  rw [poke16_append _ _ _ _ (by omega)]
  have hF'l : (poke16 F 10 v).length = 12 := by rw [length_poke16]; exact hFl
  have rd8 : ∀ (X : Bytes) i, i < 10 → u8 (poke16 F 10 v ++ X) i = u8 F i := by
    intro X i h
    rw [u8_append_left _ _ _ (by omega), u8_poke16_ne _ _ _ _ (by omega) (by omega)]
  have rd16 : ∀ (X : Bytes) i, i + 1 < 10 → be16At (poke16 F 10 v ++ X) i = be16At F i := by
    intro X i h; unfold be16At; rw [rd8 _ _ (by omega), rd8 _ _ (by omega)]
  simp only [List.append_assoc]
  have hres : zeros k = (poke16 F 10 v ++ (src ++ (dst ++ (O ++ (I ++ zeros k))))).drop (20 + pad4 (ipOptSize opts) + size rest) := by
    rw [← List.append_assoc, ← List.append_assoc, ← List.append_assoc, ← List.append_assoc]
    exact (drop_append_len _ _ _ (by simp [hF'l, ws, wd, hOl, hin]; omega)).symm
  conv => rhs; rw [hres]
  apply walk_ip_intro (hl := 20 + pad4 (ipOptSize opts))
  · simp [hF'l, ws, wd] <;> omega
  · rw [rd8 _ 0 (by omega), ← hF]; simp only [List.cons_append, u8_cons_zero, b8_toNat]; omega
  · rw [rd8 _ 0 (by omega), ← hF]; simp only [List.cons_append, u8_cons_zero, b8_toNat]; omega
  · rw [rd16 _ 2 (by omega), ← hF]
    simp only [List.cons_append, List.nil_append, be16At_cons, be16At_w16']; omega
  · omega
  · simp [hF'l, ws, wd, hOl] <;> omega
  · omega
  · simp [hF'l, ws, wd, hOl, hin] <;> omega
  · -- header checksum
    have h0 : (F ++ (src ++ (dst ++ (O ++ I))))[10]? = some 0 := by rw [← hF]; simp [w16]
    have h1 : (F ++ (src ++ (dst ++ (O ++ I))))[11]? = some 0 := by rw [← hF]; simp [w16]
    have := Verify.ip_checksum_verifies (F ++ (src ++ (dst ++ (O ++ I)))) (20 + pad4 (ipOptSize opts)) (by omega) (by omega) h0 h1
    simp only [ipTail] at this
    rw [hv, poke16_append _ _ _ _ (by omega)] at this
    rw [show poke16 F 10 v ++ (src ++ (dst ++ (O ++ (I ++ zeros k)))) = (poke16 F 10 v ++ (src ++ (dst ++ (O ++ I)))) ++ zeros k by
      simp only [List.append_assoc]]
    rw [List.take_append_of_le_length (by simp [hF'l, ws, wd, hOl]; omega)]
    exact this
  · rw [rd8 _ 1 (by omega), ← hF]; simp only [List.cons_append, u8_cons_succ, u8_cons_zero, b8_toNat]; omega
  · rw [rd16 _ 4 (by omega), ← hF]
    simp only [List.cons_append, List.nil_append, be16At_cons, be16At_w16_skip, be16At_w16']; omega
  · rw [rd16 _ 6 (by omega), ← hF]
    simp only [List.cons_append, List.nil_append, be16At_cons, be16At_w16_skip, be16At_w16']; omega
  · rw [rd8 _ 8 (by omega), ← hF]
    simp only [List.cons_append, List.nil_append, u8_cons_succ, u8_w16, u8_cons_zero, b8_toNat]; omega
  · exact slice_mid _ _ _ 12 16 hF'l (by omega)
  · rw [← List.append_assoc]
    exact slice_mid _ _ _ 16 20 (by simp [hF'l, ws]) (by omega)
  · rw [← List.append_assoc, ← List.append_assoc]
    rw [slice_mid _ _ _ 20 _ (by simp [hF'l, ws, wd]) (by omega), ← hO]
    exact optsOK_written opts _ hol
  · intro n hn w hw
    obtain ⟨e1, e2, e3⟩ := flagToIp_names n w (head_wf rest n hall hn) hw
    rw [rd8 _ 9 (by omega), ← hF]
    simp only [List.cons_append, List.nil_append, u8_cons_succ, u8_w16, u8_cons_zero, b8_toNat]
    rw [← hpr]; unfold ipProtoField; rw [hn]; simp only [e1, ne_eq, e2, not_false_eq_true, if_true]; omega
  · rw [← List.append_assoc, ← List.append_assoc, ← List.append_assoc]
    rw [slice_mid _ _ _ (20 + pad4 (ipOptSize opts)) _ (by simp [hF'l, ws, wd, hOl]; omega) (by omega)]
    exact ih

end Tins.Ck.Ser
