import TinsModel.Checksum.Dissect
/-
  Introduction rules for the RFC dissector `Dissect.walk` (strict mode), one per layer kind: if the bytes satisfy the
  comparisons the dissector makes for that layer and the walk over the inner stack gives `r`, the walk over the whole
  stack gives the stated result.  Nothing here mentions the serialisation model: these are facts about the oracle.
-/
namespace Tins.Ck.Dissect
open Tins.Ck Tins.Ck.Spec

@[simp] theorem need_true (m : String) : need true m = (pure () : R Unit) := rfl
@[simp] theorem ok_bind {α β} (a : α) (f : α → R β) : ((Except.ok a : R α) >>= f) = f a := rfl
@[simp] theorem pure_bind' {α β} (a : α) (f : α → R β) : ((pure a : R α) >>= f) = f a := rfl

theorem need_ok (c : Bool) (m : String) (h : c = true) : need c m = pure () := by subst h; rfl
theorem bytesEq_ok (s : Bool) (m : String) (a b : Bytes) (h : a = b) : bytesEq s m a b = pure () := by
  subst h; simp [bytesEq]
theorem fieldEq_ok (s : Bool) (m : String) (a b : Nat) (h : a = b) : fieldEq s m a b = pure () := by
  subst h; simp [fieldEq]
@[simp] theorem bytesEq_self (s : Bool) (m : String) (a : Bytes) : bytesEq s m a a = pure () := by simp [bytesEq]
@[simp] theorem fieldEq_self (s : Bool) (m : String) (a : Nat) : fieldEq s m a a = pure () := by simp [fieldEq]
theorem checkTag_ok (m : String) (got : Nat) (want : Option Nat) (h : ∀ w, want = some w → got = w) :
    checkTag m got want = pure () := by
  cases want with
  | none => rfl
  | some w => simp [checkTag, h w rfl]

theorem walk_nil (b : Bytes) (par : Parent) : walk true [] b par = .ok b := by rw [walk]; rfl

theorem walk_eth_intro (dst src : Bytes) (type : Nat) (rest : List Layer) (b : Bytes) (par : Parent) (t : Bytes)
    (hlen : 14 ≤ b.length) (hdst : slice b 0 6 = dst) (hsrc : slice b 6 12 = src)
    (htag : ∀ n, rest.head? = some n → ∀ w, etherTypeOf n (rest.drop 1).head? = some w → be16At b 12 = w)
    (hin : walk true rest (b.drop 14) .other = .ok t) (hz : allZero t = true)
    (hpad : t.length = if b.length - t.length < 60 then 60 - (b.length - t.length) else 0) :
    walk true (.eth dst src type :: rest) b par = .ok [] := by
  rw [walk]
  have h1 : decide (b.length ≥ 14) = true := by simpa using hlen
  have h2 : (t.length == if b.length - t.length < 60 then 60 - (b.length - t.length) else 0) = true := by
    rw [beq_iff_eq]; exact hpad
  simp only [h1, need_true, pure_bind', bytesEq_ok _ _ _ _ hdst, bytesEq_ok _ _ _ _ hsrc]
  cases hh : rest.head? with
  | none => simp only [hin, ok_bind, hz, h2, need_true, pure_bind']; rfl
  | some n => simp only [checkTag_ok _ _ _ (htag n hh), hin, ok_bind, hz, h2, need_true, pure_bind']; rfl

theorem walk_dot1q_intro (prio cfi id type : Nat) (padf : Bool) (rest : List Layer) (b : Bytes) (par : Parent) (t : Bytes)
    (hlen : 4 ≤ b.length) (hprio : u8 b 0 / 32 = prio) (hcfi : u8 b 0 / 16 % 2 = cfi)
    (hid : u8 b 0 % 16 * 256 + u8 b 1 = id)
    (htag : ∀ n, rest.head? = some n → ∀ w, etherTypeInTag n = some w → be16At b 2 = w)
    (hin : walk true rest (b.drop 4) .other = .ok t)
    (hpad : padf = true → allZero t = true ∧
      t.length = if b.length - t.length < 50 then 50 - (b.length - t.length) else 0) :
    walk true (.dot1q prio cfi id type padf :: rest) b par = .ok (if padf then [] else t) := by
  rw [walk]
  have h1 : decide (b.length ≥ 4) = true := by simpa using hlen
  simp only [h1, need_true, pure_bind', fieldEq_ok _ _ _ _ hprio, fieldEq_ok _ _ _ _ hcfi, fieldEq_ok _ _ _ _ hid]
  have hfin : (do
      let t ← walk true rest (List.drop 4 b) Parent.other
      if padf = true then do
        need (allZero t) "dot1q.padding-nonzero"
        need (t.length == if b.length - t.length < 50 then 50 - (b.length - t.length) else 0)
          (toString "dot1q.min50 size=" ++ toString (b.length - t.length) ++ toString " pad=" ++ toString t.length)
        pure []
      else pure t) = Except.ok (if padf = true then [] else t) := by
    simp only [hin, ok_bind]
    cases padf with
    | false => rfl
    | true =>
      obtain ⟨hz, hp⟩ := hpad rfl
      have h2 : (t.length == if b.length - t.length < 50 then 50 - (b.length - t.length) else 0) = true := by
        rw [beq_iff_eq]; exact hp
      simp only [hz, h2, need_true, pure_bind', if_true]
      rfl
  cases hh : rest.head? with
  | none => exact hfin
  | some n => simp only [checkTag_ok _ _ _ (htag n hh), pure_bind']; exact hfin

theorem walk_raw_intro (data : Bytes) (rest : List Layer) (b : Bytes) (par : Parent) (r : R Bytes)
    (hlen : data.length ≤ b.length) (htake : b.take data.length = data)
    (hin : walk true rest (b.drop data.length) .other = r) :
    walk true (.raw data :: rest) b par = r := by
  rw [walk]
  have h1 : decide (b.length ≥ data.length) = true := by simpa using hlen
  have h2 : (b.take data.length == data) = true := by rw [beq_iff_eq]; exact htake
  simp only [h1, h2, need_true, pure_bind', hin]

theorem walk_ip_intro (tos id flags fragoff ttl proto : Nat) (src dst : Bytes) (opts : List (Nat × Bytes))
    (rest : List Layer) (b : Bytes) (par : Parent) (hl tot : Nat)
    (hlen : 20 ≤ b.length) (hver : u8 b 0 / 16 = 4) (hhl : u8 b 0 % 16 * 4 = hl) (htot : be16At b 2 = tot)
    (h1 : 20 ≤ hl) (h2 : hl ≤ b.length) (h3 : hl ≤ tot) (h4 : tot ≤ b.length)
    (hck : verifies (b.take hl) = true)
    (htos : u8 b 1 = tos) (hid : be16At b 4 = id) (hfrag : be16At b 6 = flags * 8192 + fragoff) (httl : u8 b 8 = ttl)
    (hsrc : slice b 12 16 = src) (hdst : slice b 16 20 = dst)
    (hopts : optsOK (slice b 20 hl) opts (fun t => decide (t ≤ 1)) = true)
    (htag : ∀ n, rest.head? = some n → ∀ w, ipProtoOf n = some w → u8 b 9 = w)
    (hin : walk true rest (slice b hl tot) (.ip4 src dst) = .ok []) :
    walk true (.ip tos id flags fragoff ttl proto src dst opts :: rest) b par = .ok (b.drop tot) := by
  rw [walk]
  have e1 : decide (b.length ≥ 20) = true := by simpa using hlen
  have e2 : (!true || u8 b 0 / 16 == 4) = true := by simp [hver]
  have e3 : (decide (hl ≥ 20) && decide (hl ≤ b.length)) = true := by simp [h1, h2]
  have e4 : (decide (tot ≥ hl) && decide (tot ≤ b.length)) = true := by simp [h3, h4]
  have e5 : (!true || optsOK (slice b 20 hl) opts (fun t => decide (t ≤ 1))) = true := by simp [hopts]
  simp only [e1, need_true, pure_bind', e2, hhl, htot, e3, e4, hck, fieldEq_ok _ _ _ _ htos, fieldEq_ok _ _ _ _ hid,
    fieldEq_ok _ _ _ _ hfrag, fieldEq_ok _ _ _ _ httl, bytesEq_self, e5, hsrc, hdst]
  cases hh : rest.head? with
  | none => simp only [hin, ok_bind, List.isEmpty_nil, need_true, pure_bind']; rfl
  | some n => simp only [checkTag_ok _ _ _ (htag n hh), hin, ok_bind, List.isEmpty_nil, need_true, pure_bind']; rfl

theorem walk_ip6_intro (tc flow hop nh : Nat) (src dst : Bytes) (exts : List (Nat × Bytes))
    (rest : List Layer) (b : Bytes) (par : Parent) (plen lastNh off : Nat)
    (hlen : 40 ≤ b.length) (hver : u8 b 0 / 16 = 6) (hplen : be16At b 4 = plen) (h1 : 40 + plen ≤ b.length)
    (htc : u8 b 0 % 16 * 16 + u8 b 1 / 16 = tc) (hflow : u8 b 1 % 16 * 65536 + be16At b 2 = flow) (hhop : u8 b 7 = hop)
    (hsrc : slice b 8 24 = src) (hdst : slice b 24 40 = dst)
    (hchain : walk.chain (slice b 40 (40 + plen)) exts (u8 b 6) 0 = .ok (lastNh, off))
    (htag : ∀ n, rest.head? = some n → ∀ w, ipProtoOf n = some w → lastNh = w)
    (hin : walk true rest ((slice b 40 (40 + plen)).drop off) (.ip6 src dst) = .ok []) :
    walk true (.ip6 tc flow hop nh src dst exts :: rest) b par = .ok (b.drop (40 + plen)) := by
  rw [walk]
  have e1 : decide (b.length ≥ 40) = true := by simpa using hlen
  have e2 : (!true || u8 b 0 / 16 == 6) = true := by simp [hver]
  have e3 : decide (40 + plen ≤ b.length) = true := by simpa using h1
  simp only [e1, need_true, pure_bind', e2, hplen, e3, fieldEq_ok _ _ _ _ htc, fieldEq_ok _ _ _ _ hflow,
    fieldEq_ok _ _ _ _ hhop, bytesEq_self, hsrc, hdst, if_true, hchain, ok_bind,
    Bool.true_or]
  cases hh : rest.head? with
  | none => simp only [hin, ok_bind, List.isEmpty_nil, need_true, pure_bind']; rfl
  | some n => simp only [checkTag_ok _ _ _ (htag n hh), hin, ok_bind, List.isEmpty_nil, need_true, pure_bind']; rfl

theorem walk_tcp_intro (sp dp seq ack flags win urg : Nat) (opts : List (Nat × Bytes))
    (rest : List Layer) (b : Bytes) (par : Parent) (r : R Bytes) (hl : Nat)
    (hlen : 20 ≤ b.length) (hhl : u8 b 12 / 16 * 4 = hl) (h1 : 20 ≤ hl) (h2 : hl ≤ b.length)
    (hsp : be16At b 0 = sp) (hdp : be16At b 2 = dp) (hseq : be32At b 4 = seq) (hack : be32At b 8 = ack)
    (hfl : u8 b 12 % 16 * 256 + u8 b 13 = flags) (hwin : be16At b 14 = win) (hurg : be16At b 18 = urg)
    (hopts : optsOK (slice b 20 hl) opts (fun t => decide (t ≤ 1)) = true)
    (hck : match par with
      | .ip4 s d => verifies (pseudo4 s d 6 b.length ++ b) = true
      | .ip6 s d => verifies (pseudo6 s d 6 b.length ++ b) = true
      | .other => True)
    (hin : walk true rest (b.drop hl) .other = r) :
    walk true (.tcp sp dp seq ack flags win urg opts :: rest) b par = r := by
  rw [walk]
  have e1 : decide (b.length ≥ 20) = true := by simpa using hlen
  have e3 : (decide (hl ≥ 20) && decide (hl ≤ b.length)) = true := by simp [h1, h2]
  have e5 : (!true || optsOK (slice b 20 hl) opts (fun t => decide (t ≤ 1))) = true := by simp [hopts]
  simp only [e1, need_true, pure_bind', hhl, e3, fieldEq_ok _ _ _ _ hsp, fieldEq_ok _ _ _ _ hdp, fieldEq_ok _ _ _ _ hseq,
    fieldEq_ok _ _ _ _ hack, fieldEq_ok _ _ _ _ hfl, fieldEq_ok _ _ _ _ hwin, fieldEq_ok _ _ _ _ hurg, e5]
  cases par with
  | other => simp only [hin]
  | ip4 s d => simp only at hck; simp only [hck, need_true, pure_bind', hin]
  | ip6 s d => simp only at hck; simp only [hck, need_true, pure_bind', hin]

theorem walk_udp_intro (sp dp : Nat) (rest : List Layer) (b : Bytes) (par : Parent) (len : Nat)
    (hlen : 8 ≤ b.length) (hl : be16At b 4 = len) (h1 : 8 ≤ len) (h2 : len ≤ b.length)
    (hsp : be16At b 0 = sp) (hdp : be16At b 2 = dp)
    (hck : match par with
      | .ip4 s d => be16At b 6 ≠ 0 ∧ verifies (pseudo4 s d 17 len ++ b.take len) = true
      | .ip6 s d => be16At b 6 ≠ 0 ∧ verifies (pseudo6 s d 17 len ++ b.take len) = true
      | .other => True)
    (hin : walk true rest (slice b 8 len) .other = .ok []) :
    walk true (.udp sp dp :: rest) b par = .ok (b.drop len) := by
  rw [walk]
  have e1 : decide (b.length ≥ 8) = true := by simpa using hlen
  have e3 : (decide (len ≥ 8) && decide (len ≤ b.length)) = true := by simp [h1, h2]
  simp only [e1, need_true, pure_bind', hl, e3, fieldEq_ok _ _ _ _ hsp, fieldEq_ok _ _ _ _ hdp]
  cases par with
  | other => simp only [pure_bind', hin, ok_bind, List.isEmpty_nil, need_true]; rfl
  | ip4 s d =>
    simp only at hck
    have e4 : (be16At b 6 != 0) = true := by simp [hck.1]
    simp only [e4, hck.2, need_true, pure_bind', hin, ok_bind, List.isEmpty_nil]; rfl
  | ip6 s d =>
    simp only at hck
    have e4 : (be16At b 6 != 0) = true := by simp [hck.1]
    simp only [e4, hck.2, need_true, pure_bind', hin, ok_bind, List.isEmpty_nil]; rfl

/-- PPPoE session stage (code 0): the payload length delimits the carried stack -/
theorem walk_pppoe_session_intro (sess pl : Nat) (tags : List (Nat × Bytes)) (rest : List Layer) (b : Bytes) (par : Parent)
    (plen : Nat) (hlen : 6 ≤ b.length) (hvt : u8 b 0 = 0x11) (hcode : u8 b 1 = 0) (hsess : be16At b 2 = sess)
    (hplen : be16At b 4 = plen) (h1 : 6 + plen ≤ b.length)
    (hin : walk true rest (slice b 6 (6 + plen)) .other = .ok []) :
    walk true (.pppoe 0 sess pl tags :: rest) b par = .ok (b.drop (6 + plen)) := by
  rw [walk]
  have e1 : decide (b.length ≥ 6) = true := by simpa using hlen
  have e2 : (u8 b 0 == 17) = true := by simp [hvt]
  have e3 : decide (6 + plen ≤ b.length) = true := by simpa using h1
  simp only [e1, e2, need_true, pure_bind', fieldEq_ok _ _ _ _ hcode, fieldEq_ok _ _ _ _ hsess, hplen, e3]
  simp only [beq_self_eq_true, Bool.and_self, if_true, hin, ok_bind, List.isEmpty_nil, need_true, pure_bind']
  rfl

/-- the tag list of a PPPoE discovery packet as RFC 2516 lays it out -/
def pppoeTagBytes (tags : List (Nat × Bytes)) : Bytes :=
  tags.foldr (fun (t, d) acc =>
    UInt8.ofNat (t / 256) :: UInt8.ofNat (t % 256) :: UInt8.ofNat (d.length / 256) ::
      UInt8.ofNat (d.length % 256) :: (d ++ acc)) []

/-- PPPoE discovery stage (code ≠ 0): the payload is exactly the tag list -/
theorem walk_pppoe_discovery_intro (code sess pl : Nat) (tags : List (Nat × Bytes)) (rest : List Layer) (b : Bytes)
    (par : Parent) (plen : Nat) (hc : code ≠ 0)
    (hlen : 6 ≤ b.length) (hvt : u8 b 0 = 0x11) (hcode : u8 b 1 = code) (hsess : be16At b 2 = sess)
    (hplen : be16At b 4 = plen) (h1 : 6 + plen ≤ b.length)
    (htags : slice b 6 (6 + plen) = pppoeTagBytes tags) :
    walk true (.pppoe code sess pl tags :: rest) b par = .ok (b.drop (6 + plen)) := by
  rw [walk]
  have e1 : decide (b.length ≥ 6) = true := by simpa using hlen
  have e2 : (u8 b 0 == 17) = true := by simp [hvt]
  have e3 : decide (6 + plen ≤ b.length) = true := by simpa using h1
  have e4 : (code == 0) = false := by simp [hc]
  have e5 : (!true || slice b 6 (6 + plen) == pppoeTagBytes tags) = true := by simp [htags]
  unfold pppoeTagBytes at e5
  simp only [e1, e2, need_true, pure_bind', fieldEq_ok _ _ _ _ hcode, fieldEq_ok _ _ _ _ hsess, hplen, e3, e4,
    Bool.false_and, e5]
  rfl

theorem walk_mpls_intro (label exp bos ttl : Nat) (rest : List Layer) (b : Bytes) (par : Parent) (r : R Bytes)
    (hlen : 4 ≤ b.length) (hlabel : u8 b 0 * 4096 + u8 b 1 * 16 + u8 b 2 / 16 = label) (hexp : u8 b 2 / 2 % 8 = exp)
    (httl : u8 b 3 = ttl)
    (hs : match rest.head? with
      | some (.mpls ..) => u8 b 2 % 2 = 0
      | some _ => u8 b 2 % 2 = 1
      | none => True)
    (hin : walk true rest (b.drop 4) .other = r) :
    walk true (.mpls label exp bos ttl :: rest) b par = r := by
  rw [walk]
  have e1 : decide (b.length ≥ 4) = true := by simpa using hlen
  simp only [e1, need_true, pure_bind', fieldEq_ok _ _ _ _ hlabel, fieldEq_ok _ _ _ _ hexp, fieldEq_ok _ _ _ _ httl]
  cases hh : rest.head? with
  | none => simp only [hin]
  | some n =>
    rw [hh] at hs
    cases n <;> simp only at hs <;> simp only [hs, beq_self_eq_true, need_true, pure_bind', hin]

theorem walk_dot3_intro (dst src : Bytes) (rest : List Layer) (b : Bytes) (par : Parent) (len : Nat)
    (hlen : 14 ≤ b.length) (hdst : slice b 0 6 = dst) (hsrc : slice b 6 12 = src) (hl : be16At b 12 = len)
    (h1 : b.length = 14 + len)
    (hin : walk true rest (slice b 14 (14 + len)) .other = .ok []) :
    walk true (.dot3 dst src :: rest) b par = .ok [] := by
  rw [walk]
  have e1 : decide (b.length ≥ 14) = true := by simpa using hlen
  have e2 : decide (14 + len ≤ b.length) = true := by simp; omega
  have e3 : (b.length == 14 + len) = true := by simp [h1]
  simp only [e1, need_true, pure_bind', bytesEq_ok _ _ _ _ hdst, bytesEq_ok _ _ _ _ hsrc, hl, e2, hin, ok_bind,
    List.isEmpty_nil, e3]
  rfl

theorem walk_snap_intro (control oui type : Nat) (rest : List Layer) (b : Bytes) (par : Parent) (r : R Bytes)
    (hlen : 8 ≤ b.length) (h0 : u8 b 0 = 0xAA) (h1 : u8 b 1 = 0xAA) (hctl : u8 b 2 = control)
    (houi : u8 b 3 * 65536 + be16At b 4 = oui)
    (htag : ∀ n, rest.head? = some n → ∀ w, etherTypeOf n none = some w → be16At b 6 = w)
    (hin : walk true rest (b.drop 8) .other = r) :
    walk true (.snap control oui type :: rest) b par = r := by
  rw [walk]
  have e1 : decide (b.length ≥ 8) = true := by simpa using hlen
  have e2 : (u8 b 0 == 170 && u8 b 1 == 170) = true := by simp [h0, h1]
  simp only [e1, e2, need_true, pure_bind', fieldEq_ok _ _ _ _ hctl, fieldEq_ok _ _ _ _ houi]
  cases hh : rest.head? with
  | none => simp only [hin]
  | some n => simp only [checkTag_ok _ _ _ (htag n hh), pure_bind', hin]

theorem walk_llc_intro (dsap ssap : Nat) (rest : List Layer) (b : Bytes) (par : Parent) (r : R Bytes)
    (hlen : 4 ≤ b.length) (hd : u8 b 0 = dsap) (hs : u8 b 1 = ssap) (hctl : u8 b 2 % 4 ≠ 3)
    (hin : walk true rest (b.drop 4) .other = r) :
    walk true (.llc dsap ssap :: rest) b par = r := by
  rw [walk]
  have e1 : decide (b.length ≥ 3) = true := by simp; omega
  have e2 : (u8 b 2 % 4 == 3) = false := by simp [hctl]
  have e3 : decide (b.length ≥ 4) = true := by simpa using hlen
  simp only [e1, need_true, pure_bind', fieldEq_ok _ _ _ _ hd, fieldEq_ok _ _ _ _ hs, e2, Bool.false_eq_true, if_false,
    e3, hin]

theorem walk_loop_intro (family : Nat) (rest : List Layer) (b : Bytes) (par : Parent) (r : R Bytes)
    (hlen : 4 ≤ b.length)
    (hfam : match rest.head?.map Layer.kind with
      | some "ip" => le32At b 0 = 2
      | some "ip6" => le32At b 0 = 10
      | some "llc" => le32At b 0 = 26
      | _ => True)
    (hin : walk true rest (b.drop 4) .other = r) :
    walk true (.loop family :: rest) b par = r := by
  rw [walk]
  have e1 : decide (b.length ≥ 4) = true := by simpa using hlen
  simp only [e1, need_true, pure_bind']
  split <;> rename_i hk <;> simp only [hk] at hfam <;> simp only [hfam, beq_self_eq_true, need_true, pure_bind', hin]

theorem walk_sll_intro (ptype lltype lllen : Nat) (addr : Bytes) (proto : Nat) (rest : List Layer) (b : Bytes) (par : Parent)
    (r : R Bytes) (hlen : 16 ≤ b.length) (hp : be16At b 0 = ptype) (hlt : be16At b 2 = lltype) (hll : be16At b 4 = lllen)
    (haddr : slice b 6 14 = addr)
    (htag : ∀ n, rest.head? = some n → ∀ w, etherTypeOf n none = some w → be16At b 14 = w)
    (hin : walk true rest (b.drop 16) .other = r) :
    walk true (.sll ptype lltype lllen addr proto :: rest) b par = r := by
  rw [walk]
  have e1 : decide (b.length ≥ 16) = true := by simpa using hlen
  simp only [e1, need_true, pure_bind', fieldEq_ok _ _ _ _ hp, fieldEq_ok _ _ _ _ hlt, fieldEq_ok _ _ _ _ hll,
    bytesEq_ok _ _ _ _ haddr]
  cases hh : rest.head? with
  | none => simp only [hin]
  | some n => simp only [checkTag_ok _ _ _ (htag n hh), pure_bind', hin]

theorem walk_ah_intro (spi seq : Nat) (icv : Bytes) (nh : Nat) (rest : List Layer) (b : Bytes) (par : Parent)
    (r : R Bytes) (hl : Nat) (hlen : 12 ≤ b.length) (hhl : (u8 b 1 + 2) * 4 = hl) (h1 : 12 ≤ hl) (h2 : hl ≤ b.length)
    (hspi : be32At b 4 = spi) (hseq : be32At b 8 = seq) (hicv : slice b 12 hl = icv)
    (htag : ∀ n, rest.head? = some n → ∀ w, ipProtoOf n = some w → u8 b 0 = w)
    (hin : walk true rest (b.drop hl) .other = r) :
    walk true (.ah spi seq icv nh :: rest) b par = r := by
  rw [walk]
  have e1 : decide (b.length ≥ 12) = true := by simpa using hlen
  have e2 : (decide (hl ≥ 12) && decide (hl ≤ b.length)) = true := by simp [h1, h2]
  have e3 : (!true || slice b 12 hl == icv) = true := by simp [hicv]
  simp only [e1, need_true, pure_bind', hhl, e2, fieldEq_ok _ _ _ _ hspi, fieldEq_ok _ _ _ _ hseq, e3]
  cases hh : rest.head? with
  | none => simp only [hin]
  | some n => simp only [checkTag_ok _ _ _ (htag n hh), pure_bind', hin]

theorem walk_esp_intro (spi seq : Nat) (rest : List Layer) (b : Bytes) (par : Parent) (r : R Bytes)
    (hlen : 8 ≤ b.length) (hspi : be32At b 0 = spi) (hseq : be32At b 4 = seq)
    (hin : walk true rest (b.drop 8) .other = r) :
    walk true (.esp spi seq :: rest) b par = r := by
  rw [walk]
  have e1 : decide (b.length ≥ 8) = true := by simpa using hlen
  simp only [e1, need_true, pure_bind', fieldEq_ok _ _ _ _ hspi, fieldEq_ok _ _ _ _ hseq, hin]

theorem walk_eapol_intro (keylen : Nat) (key : Bytes) (rest : List Layer) (b : Bytes) (par : Parent) (len : Nat)
    (hlen : 4 ≤ b.length) (hl : be16At b 2 = len) (h1 : 4 + len ≤ b.length) (h2 : 44 + key.length ≤ len)
    (hkl : be16At b 5 = if key.isEmpty then keylen else key.length)
    (hkey : slice b 48 (48 + key.length) = key)
    (hin : walk true rest (slice b (48 + key.length) (4 + len)) .other = .ok []) :
    walk true (.eapol keylen key :: rest) b par = .ok (b.drop (4 + len)) := by
  rw [walk]
  have e1 : decide (b.length ≥ 4) = true := by simpa using hlen
  have e2 : decide (4 + len ≤ b.length) = true := by simpa using h1
  have e3 : (!true || decide (len ≥ 44 + key.length)) = true := by simp; omega
  have e4 : (!true || slice b 48 (48 + key.length) == key) = true := by simp [hkey]
  simp only [e1, need_true, pure_bind', hl, e2, e3, fieldEq_ok _ _ _ _ hkl, e4, hin, ok_bind, List.isEmpty_nil]
  rfl

/-- RadioTap with the FCS flag: `it_len` delimits the header, the last four octets are the IEEE CRC-32 of the frame -/
theorem walk_radiotap_fcs_intro (rest : List Layer) (b : Bytes) (par : Parent) (itlen f : Nat)
    (hlen : 8 ≤ b.length) (hver : u8 b 0 = 0) (hit : le16At b 2 = itlen) (h1 : 8 ≤ itlen) (h2 : itlen + 4 ≤ b.length)
    (hflags : radiotapFlags b = some f) (hf : f / 16 % 2 = 1)
    (hin : walk true rest ((b.drop itlen).take ((b.drop itlen).length - 4)) .other = .ok [])
    (hfcs : le32At (b.drop itlen) ((b.drop itlen).length - 4)
      = (crcBitwise ((b.drop itlen).take ((b.drop itlen).length - 4))).toNat) :
    walk true (.radiotap true :: rest) b par = .ok [] := by
  rw [walk]
  have e1 : decide (b.length ≥ 8) = true := by simpa using hlen
  have e2 : (!true || u8 b 0 == 0) = true := by simp [hver]
  have e3 : (decide (itlen ≥ 8) && decide (itlen ≤ b.length)) = true := by simp [h1]; omega
  have e4 : decide ((b.drop itlen).length ≥ 4) = true := by simp; omega
  have e5 : (le32At (b.drop itlen) ((b.drop itlen).length - 4)
      == (crcBitwise ((b.drop itlen).take ((b.drop itlen).length - 4))).toNat) = true := by
    rw [beq_iff_eq]; exact hfcs
  simp only [e1, e2, need_true, pure_bind', hit, e3, hflags, hf, beq_self_eq_true, if_true, e4, hin, ok_bind,
    List.isEmpty_nil, e5]
  rfl

/-- RadioTap without the FCS flag: everything after `it_len` octets belongs to the carried frame -/
theorem walk_radiotap_plain_intro (rest : List Layer) (b : Bytes) (par : Parent) (itlen f : Nat)
    (hlen : 8 ≤ b.length) (hver : u8 b 0 = 0) (hit : le16At b 2 = itlen) (h1 : 8 ≤ itlen) (h2 : itlen ≤ b.length)
    (hflags : radiotapFlags b = some f) (hf : f / 16 % 2 = 0)
    (hin : walk true rest (b.drop itlen) .other = .ok []) :
    walk true (.radiotap false :: rest) b par = .ok [] := by
  rw [walk]
  have e1 : decide (b.length ≥ 8) = true := by simpa using hlen
  have e2 : (!true || u8 b 0 == 0) = true := by simp [hver]
  have e3 : (decide (itlen ≥ 8) && decide (itlen ≤ b.length)) = true := by simp [h1, h2]
  have e4 : ((0 == 1) == false) = true := by decide
  simp only [e1, e2, need_true, pure_bind', hit, e3, hflags, hf, e4, Bool.false_eq_true, if_false, hin, ok_bind,
    List.isEmpty_nil]
  rfl

/-- what the dissector asks of the bytes after an ICMP / ICMPv6 header (`unit` = 4 / 8 octets per length unit) -/
def IcmpTailOK (who : String) (unit : Nat) (rest : List Layer) (exts : List (Nat × Nat × Bytes)) (lf : Nat)
    (payload : Bytes) : Prop :=
  if exts.isEmpty = false then
    128 ≤ (if lf ≠ 0 then lf * unit else 128) ∧ (if lf ≠ 0 then lf * unit else 128) + 4 ≤ payload.length ∧
    ∃ t, walk true rest (payload.take (if lf ≠ 0 then lf * unit else 128)) .other = .ok t ∧ allZero t = true ∧
      checkExtStruct who (payload.drop (if lf ≠ 0 then lf * unit else 128)) true exts = .ok ()
  else if lf ≠ 0 then
    lf * unit = payload.length ∧ ∃ t, walk true rest payload .other = .ok t ∧ allZero t = true ∧ t.length < unit
  else walk true rest payload .other = .ok []

theorem icmp_tail_run (who : String) (unit : Nat) (rest : List Layer) (exts : List (Nat × Nat × Bytes)) (lf : Nat)
    (payload : Bytes) (m1 m2 m3 m4 m5 : String) (m6 : Bytes → String) (h : IcmpTailOK who unit rest exts lf payload) :
    (if (!exts.isEmpty) = true then do
        need (decide ((if (lf != 0) = true then lf * unit else 128) ≥ 128)) m1
        need (decide ((if (lf != 0) = true then lf * unit else 128) + 4 ≤ payload.length)) m2
        let t ← walk true rest (List.take (if (lf != 0) = true then lf * unit else 128) payload) Parent.other
        need (allZero t) m3
        let __r ← checkExtStruct who (List.drop (if (lf != 0) = true then lf * unit else 128) payload) true exts
        (pure [] : R Bytes)
      else
        if (lf != 0) = true then do
          need (lf * unit == payload.length) m4
          let t ← walk true rest payload Parent.other
          let __r ← need (allZero t && decide (List.length t < unit)) m5
          pure []
        else do
          let t ← walk true rest payload Parent.other
          let __r ← need (List.isEmpty t) (m6 t)
          pure []) = Except.ok [] := by
  unfold IcmpTailOK at h
  by_cases he : exts.isEmpty = false
  · rw [if_pos he] at h
    obtain ⟨h1, h2, t, hw, hz, hx⟩ := h
    have c : (if (lf != 0) = true then lf * unit else 128) = (if lf ≠ 0 then lf * unit else 128) := by
      by_cases hl : lf = 0 <;> simp [hl]
    simp only [he, Bool.not_false, if_true, c, ge_iff_le, h1, h2, decide_true, need_true, pure_bind', hw, ok_bind, hz, hx]
    rfl
  · have he' : exts.isEmpty = true := by simpa using he
    rw [if_neg he] at h
    simp only [he', Bool.not_true, Bool.false_eq_true, if_false]
    by_cases hl : lf = 0
    · subst hl
      simp only [ne_eq, not_true_eq_false, if_false] at h
      simp only [bne_self_eq_false, Bool.false_eq_true, if_false, h, ok_bind, List.isEmpty_nil, need_true, pure_bind']
      rfl
    · rw [if_pos hl] at h
      obtain ⟨h1, t, hw, hz, ht⟩ := h
      have c : (lf != 0) = true := by simp [hl]
      simp only [c, if_true, h1, beq_self_eq_true, need_true, pure_bind', hw, ok_bind, hz, ht, decide_true, Bool.and_self]
      rfl

theorem or2_decide (x a b : Nat) : (x == a || x == b) = decide (x = a ∨ x = b) := by
  by_cases h1 : x = a <;> by_cases h2 : x = b <;> simp [h1, h2]
theorem or3_decide (x a b c : Nat) : (decide (x = a ∨ x = b) || x == c) = decide (x = a ∨ x = b ∨ x = c) := by
  by_cases h1 : x = a <;> by_cases h2 : x = b <;> by_cases h3 : x = c <;> simp [h1, h2, h3]

theorem walk_icmp_intro (type code id seq a bb c : Nat) (lenflag : Bool) (exts : List (Nat × Nat × Bytes))
    (rest : List Layer) (b : Bytes) (par : Parent)
    (hlen : 8 ≤ b.length) (hck : verifies b = true) (htype : u8 b 0 = type) (hcode : u8 b 1 = code)
    (hlen2 : (if type = 13 ∨ type = 14 then 20 else if type = 17 ∨ type = 18 then 12 else 8) ≤ b.length)
    (hidseq : ¬(type = 3 ∨ type = 11 ∨ type = 12) → be16At b 4 = id ∧ be16At b 6 = seq)
    (hts : (type = 13 ∨ type = 14) → be32At b 8 = a ∧ be32At b 12 = bb ∧ be32At b 16 = c)
    (hmask : (type = 17 ∨ type = 18) → be32At b 8 = a)
    (htail : IcmpTailOK "icmp" 4 rest exts (if type = 3 ∨ type = 11 ∨ type = 12 then u8 b 5 else 0)
      (b.drop (if type = 13 ∨ type = 14 then 20 else if type = 17 ∨ type = 18 then 12 else 8))) :
    walk true (.icmp type code id seq a bb c lenflag exts :: rest) b par = .ok [] := by
  rw [walk]
  have e1 : decide (b.length ≥ 8) = true := by simpa using hlen
  simp only [e1, hck, need_true, pure_bind', fieldEq_ok _ _ _ _ hcode, htype]
  simp only [or2_decide, or3_decide]
  have e2 : decide (b.length ≥ (if decide (type = 13 ∨ type = 14) = true then 20
      else if decide (type = 17 ∨ type = 18) = true then 12 else 8)) = true := by
    simpa using hlen2
  simp only [e2, need_true, pure_bind', fieldEq_self]
  by_cases h3 : type = 3 ∨ type = 11 ∨ type = 12
  · have n1 : ¬ (type = 13 ∨ type = 14) := by omega
    have n2 : ¬ (type = 17 ∨ type = 18) := by omega
    simp only [h3, n1, n2, if_true, if_false, Bool.not_true, Bool.false_eq_true, decide_true, decide_false] at htail ⊢
    exact icmp_tail_run "icmp" 4 rest exts _ _ _ _ _ _ _ _ htail
  · obtain ⟨hi, hs⟩ := hidseq h3
    simp only [h3, if_false, Bool.not_false, if_true, fieldEq_ok _ _ _ _ hi, fieldEq_ok _ _ _ _ hs, pure_bind',
      decide_false, Bool.false_eq_true] at htail ⊢
    by_cases h13 : type = 13 ∨ type = 14
    · obtain ⟨ha, hb, hc⟩ := hts h13
      have n2 : ¬ (type = 17 ∨ type = 18) := by omega
      simp only [h13, n2, if_true, if_false, fieldEq_ok _ _ _ _ ha, fieldEq_ok _ _ _ _ hb, fieldEq_ok _ _ _ _ hc,
        pure_bind', decide_true, decide_false, Bool.false_eq_true] at htail ⊢
      exact icmp_tail_run "icmp" 4 rest exts _ _ _ _ _ _ _ _ htail
    · by_cases h17 : type = 17 ∨ type = 18
      · simp only [h13, h17, if_true, if_false, fieldEq_ok _ _ _ _ (hmask h17), pure_bind', decide_true, decide_false,
          Bool.false_eq_true] at htail ⊢
        exact icmp_tail_run "icmp" 4 rest exts _ _ _ _ _ _ _ _ htail
      · simp only [h13, h17, if_false, decide_false, Bool.false_eq_true] at htail ⊢
        exact icmp_tail_run "icmp" 4 rest exts _ _ _ _ _ _ _ _ htail

theorem walk_icmp6_intro (type code id seq : Nat) (lenflag : Bool) (exts : List (Nat × Nat × Bytes))
    (rest : List Layer) (b : Bytes) (par : Parent)
    (hlen : 8 ≤ b.length)
    (hck : match par with
      | .ip6 s d => verifies (pseudo6 s d 58 b.length ++ b) = true
      | _ => True)
    (htype : u8 b 0 = type) (hcode : u8 b 1 = code)
    (hidseq : ¬(type = 1 ∨ type = 3) → be16At b 4 = id ∧ be16At b 6 = seq)
    (htail : IcmpTailOK "icmp6" 8 rest exts (if type = 1 ∨ type = 3 then u8 b 4 else 0) (b.drop 8)) :
    walk true (.icmp6 type code id seq lenflag exts :: rest) b par = .ok [] := by
  rw [walk]
  have e1 : decide (b.length ≥ 8) = true := by simpa using hlen
  cases par with
  | ip6 s d =>
    simp only at hck
    simp only [e1, hck, need_true, pure_bind', fieldEq_ok _ _ _ _ hcode, htype, or2_decide, fieldEq_self]
    by_cases h3 : type = 1 ∨ type = 3
    · simp only [h3, if_true, Bool.not_true, Bool.false_eq_true, decide_true, if_false] at htail ⊢
      exact icmp_tail_run "icmp6" 8 rest exts _ _ _ _ _ _ _ _ htail
    · obtain ⟨hi, hs⟩ := hidseq h3
      simp only [h3, if_false, Bool.not_false, if_true, fieldEq_ok _ _ _ _ hi, fieldEq_ok _ _ _ _ hs, pure_bind',
        decide_false, Bool.false_eq_true] at htail ⊢
      exact icmp_tail_run "icmp6" 8 rest exts _ _ _ _ _ _ _ _ htail
  | ip4 s d =>
    simp only [e1, need_true, pure_bind', fieldEq_ok _ _ _ _ hcode, htype, or2_decide, fieldEq_self]
    by_cases h3 : type = 1 ∨ type = 3
    · simp only [h3, if_true, Bool.not_true, Bool.false_eq_true, decide_true, if_false] at htail ⊢
      exact icmp_tail_run "icmp6" 8 rest exts _ _ _ _ _ _ _ _ htail
    · obtain ⟨hi, hs⟩ := hidseq h3
      simp only [h3, if_false, Bool.not_false, if_true, fieldEq_ok _ _ _ _ hi, fieldEq_ok _ _ _ _ hs, pure_bind',
        decide_false, Bool.false_eq_true] at htail ⊢
      exact icmp_tail_run "icmp6" 8 rest exts _ _ _ _ _ _ _ _ htail
  | other =>
    simp only [e1, need_true, pure_bind', fieldEq_ok _ _ _ _ hcode, htype, or2_decide, fieldEq_self]
    by_cases h3 : type = 1 ∨ type = 3
    · simp only [h3, if_true, Bool.not_true, Bool.false_eq_true, decide_true, if_false] at htail ⊢
      exact icmp_tail_run "icmp6" 8 rest exts _ _ _ _ _ _ _ _ htail
    · obtain ⟨hi, hs⟩ := hidseq h3
      simp only [h3, if_false, Bool.not_false, if_true, fieldEq_ok _ _ _ _ hi, fieldEq_ok _ _ _ _ hs, pure_bind',
        decide_false, Bool.false_eq_true] at htail ⊢
      exact icmp_tail_run "icmp6" 8 rest exts _ _ _ _ _ _ _ _ htail

end Tins.Ck.Dissect
